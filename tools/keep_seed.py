#!/usr/bin/env python3
"""keep_seed.py <PID> <name> <worktree> <demo paths...> -- store a confirmed seeded change under /verif/seeded/<name>/
meta fields are given via env: NEEDS, RAN, CAUGHT_BY, BREAKS"""
import json, os, shutil, subprocess, sys
pid, name, wt = sys.argv[1:4]
demos = sys.argv[4:]
d = os.path.join('/verif/seeded', name)
os.makedirs(d, exist_ok=True)
diff = subprocess.run(['git', 'diff', '--', 'amd', 'nvidia'], cwd=wt, capture_output=True, text=True).stdout
open(os.path.join(d, 'patch.diff'), 'w').write(diff)
for p in demos:
    src = os.path.join(wt, p)
    dst = os.path.join(d, 'demo', p)
    os.makedirs(os.path.dirname(dst), exist_ok=True)
    if os.path.isdir(src):
        shutil.copytree(src, dst, dirs_exist_ok=True)
    else:
        shutil.copy(src, dst)
rep = os.path.join(wt, 'SEED_REPORT.md')
if os.path.exists(rep):
    shutil.copy(rep, os.path.join(d, 'SEED_REPORT.md'))
meta = {'property': pid, 'breaks': os.environ.get('BREAKS', ''), 'needs_to_manifest': os.environ.get('NEEDS', ''),
        'what_was_run': os.environ.get('RAN', ''), 'caught_by': os.environ.get('CAUGHT_BY', ''),
        'demo_paths': demos, 'base_commit': subprocess.run(['git', 'rev-parse', 'HEAD'], cwd=wt, capture_output=True, text=True).stdout.strip()}
json.dump(meta, open(os.path.join(d, 'meta.json'), 'w'), indent=1)
print('kept', d)
