#!/usr/bin/env python3
"""Regenerates the generated part of DESIGN.md section 14 (findings and seeded-change tables)
between the markers <!-- GENERATED:BEGIN --> and <!-- GENERATED:END -->."""
import json, os, glob
V = os.path.dirname(os.path.dirname(os.path.abspath(__file__)))
k = json.load(open(os.path.join(V, 'known_findings.json')))['findings']
out = []
out.append('### 14.3 Genuine defects found on the pinned tree\n')
out.append('Every entry was reproduced against the real code by the named check before it was listed; `fixed` entries are '
           'repaired by a minimal `fix:` commit in /repo and suppress nothing (the check reports the defect again if it returns); '
           '`open` entries are printed as `KNOWN-FINDING:` lines by the check and matched by a narrow signature '
           '(`known_findings.json`).\n')
fixed = [f for f in k if f.get('status') == 'fixed']
openf = [f for f in k if f.get('status') == 'open']
out.append('**Fixed (%d)**\n' % len(fixed))
out.append('| property | id | commit | what failed |')
out.append('|---|---|---|---|')
for f in fixed:
    w = f['what_fails']
    if w.startswith('fixed:'):
        w = w.split(' ', 3)[-1] if len(w.split(' ', 3)) == 4 else w
    out.append('| %s | %s | %s | %s |' % (f['property'], f['id'], f.get('commit', ''), w.replace('|', '\\|')[:300]))
out.append('')
out.append('**Open (%d)**\n' % len(openf))
byp = {}
for f in openf:
    byp.setdefault(f['property'], []).append(f)
for p in sorted(byp):
    fs = byp[p]
    if len(fs) > 12:
        out.append('* **%s** — %d open entries (one per instruction/deviation, see `known/%s.json` and `design/%s.md`), e.g.:' % (p, len(fs), p, p))
        for f in fs[:6]:
            out.append('  * `%s`: %s' % (f['id'], f['what_fails'][:220]))
    else:
        for f in fs:
            out.append('* **%s** `%s`: %s' % (p, f['id'], f['what_fails'][:400]))
out.append('')
out.append('### 14.4 Seeded changes (fresh sub-agents given only the property text) and which checks catch them\n')
out.append('| seeded change | property | needs to manifest | caught by |')
out.append('|---|---|---|---|')
for d in sorted(glob.glob(os.path.join(V, 'seeded', '*'))):
    mp = os.path.join(d, 'meta.json')
    if not os.path.exists(mp):
        continue
    m = json.load(open(mp))
    out.append('| `%s` | %s | %s | %s |' % (os.path.basename(d), m['property'], m.get('needs_to_manifest', '').replace('|', '/')[:260],
                                          m.get('caught_by', '').replace('|', '/')[:300]))
out.append('')
out.append('### 14.5 Per-property status (from the claim files and the latest evidence)\n')
out.append('| id | level | spec dir(s) | what the latest quick run covered | build notes |')
out.append('|---|---|---|---|---|')
specdir = {'C01': 'system', 'C02': 'system', 'C03': 'isa', 'C04': 'decode', 'C05': 'cmdqueue (CmdQueueTime)', 'C06': 'isa', 'C07': 'regfile',
           'C08': 'grid', 'C09': 'dispatch', 'C10': 'memalloc', 'C11': 'memcopy', 'C12': 'cmdqueue', 'C13': 'hsaco', 'C14': 'cusched',
           'C15': 'rob', 'C16': 'at', 'C17': 'dram', 'C18': 'rdma + system', 'C19': 'pmc', 'C20': 'nvidia'}
for i in range(1, 21):
    pid = 'C%02d' % i
    cp = os.path.join(V, 'checks', pid.lower() + '.claim.json')
    if not os.path.exists(cp):
        continue
    c = json.load(open(cp))
    cov = ''
    ep = os.path.join(V, 'evidence', pid + '.json')
    if os.path.exists(ep):
        e = json.load(open(ep))['coverage']
        bits = []
        for key, lab in (('states', 'model states'), ('traces_validated_against_impl', 'real-code traces accepted'),
                         ('evaluations', 'cases'), ('distinct_nontrivial', 'distinct non-trivial')):
            if e.get(key):
                bits.append('%s %s' % (e[key], lab))
        cov = ', '.join(bits)
    notes = 'design/%s.md' % pid + (', design/C18-system.md' if pid == 'C18' else '')
    out.append('| %s | %s | spec/%s | %s | %s |' % (pid, c['category'], specdir.get(pid, ''), cov, notes))
out.append('')
text = '\n'.join(out)
p = os.path.join(V, 'DESIGN.md')
s = open(p).read()
b, e = '<!-- GENERATED:BEGIN -->', '<!-- GENERATED:END -->'
if b not in s:
    s += '\n' + b + '\n' + e + '\n'
i, j = s.index(b), s.index(e)
s = s[:i + len(b)] + '\n' + text + '\n' + s[j:]
open(p, 'w').write(s)
print('DESIGN.md tables: %d fixed, %d open, %d seeds' % (len(fixed), len(openf), len(glob.glob(os.path.join(V, 'seeded', '*')))))
