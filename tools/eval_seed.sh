#!/bin/sh
# eval_seed.sh <PROPERTY-ID> <worktree-or-patch> [check ids...] -- run checks against a seeded change without touching /repo
# (go build -overlay). Prints the VIOLATION / done lines; exit status of the last check.
set -u
pid=$1; src=$2; shift 2
checks=${*:-$pid}
ov=$(mktemp -d /tmp/ov_eval.XXXXXX)
if [ -d "$src" ]; then git -C "$src" diff -- amd nvidia > "$ov/patch.diff"; else cp "$src" "$ov/patch.diff"; fi
python3 /verif/tools/mkoverlay.py "$ov/patch.diff" "$ov" >/dev/null || { echo "mkoverlay failed"; exit 2; }
rc=0
for c in $checks; do
  echo "== $c against $(basename $src)"
  VERIF_OVERLAY=$ov/overlay.json /verif/bin/check $c > "$ov/$c.log" 2>&1; rc=$?
  grep -E "^VIOLATION|INFRA|done:" "$ov/$c.log" | cut -c1-220 | head -6
  echo "exit=$rc"
done
rm -rf "$ov"
exit $rc
