"""Parser for TLA+ values as printed by TLC (states in -simulate files, error
traces, -dump): records, sequences/tuples, sets, functions (a :> b @@ ...),
strings, integers, booleans, model values.  Values become Python objects:
record -> dict, sequence -> list, set -> frozenset-like sorted list wrapped in
TSet, function -> dict, string -> str, int -> int, bool -> bool."""
import re

_TOK = re.compile(r'''\s*(?:
    (?P<str>"(?:[^"\\]|\\.)*") |
    (?P<num>-?\d+) |
    (?P<op>\|->|:>|@@|<<|>>|\[|\]|\{|\}|\(|\)|,|/\\|=|\.\.) |
    (?P<id>[A-Za-z_][A-Za-z0-9_!]*)
)''', re.X)


class TSet(list):
    """A TLA+ set (kept as a list in TLC's printing order)."""


def tokenize(s):
    pos, out = 0, []
    n = len(s)
    while pos < n:
        m = _TOK.match(s, pos)
        if not m:
            if s[pos:].strip() == '':
                break
            raise ValueError('cannot tokenize at %r' % s[pos:pos + 40])
        pos = m.end()
        k = m.lastgroup
        out.append((k, m.group(k)))
    return out


class _P:
    def __init__(self, toks):
        self.t = toks
        self.i = 0

    def peek(self):
        return self.t[self.i] if self.i < len(self.t) else (None, None)

    def next(self):
        x = self.t[self.i]
        self.i += 1
        return x

    def expect(self, v):
        k, x = self.next()
        if x != v:
            raise ValueError('expected %r got %r at token %d' % (v, x, self.i))

    def value(self):
        v = self.atom()
        # function literal chain:  a :> b @@ c :> d
        k, x = self.peek()
        if x == ':>':
            d = {}
            self.next()
            d[_key(v)] = self.atom()
            while self.peek()[1] == '@@':
                self.next()
                kk = self.atom()
                self.expect(':>')
                d[_key(kk)] = self.atom()
            return d
        if x == '..':
            self.next()
            hi = self.atom()
            return TSet(range(v, hi + 1))
        return v

    def atom(self):
        k, x = self.next()
        if k == 'str':
            return bytes(x[1:-1], 'utf-8').decode('unicode_escape')
        if k == 'num':
            return int(x)
        if k == 'id':
            if x == 'TRUE':
                return True
            if x == 'FALSE':
                return False
            return x  # model value / identifier
        if x == '<<':
            out = []
            if self.peek()[1] == '>>':
                self.next()
                return out
            while True:
                out.append(self.value())
                k2, x2 = self.next()
                if x2 == '>>':
                    return out
                if x2 != ',':
                    raise ValueError('bad tuple')
        if x == '{':
            out = TSet()
            if self.peek()[1] == '}':
                self.next()
                return out
            while True:
                out.append(self.value())
                k2, x2 = self.next()
                if x2 == '}':
                    return out
                if x2 != ',':
                    raise ValueError('bad set')
        if x == '[':
            d = {}
            while True:
                k2, name = self.next()
                self.expect('|->')
                d[name] = self.value()
                k3, x3 = self.next()
                if x3 == ']':
                    return d
                if x3 != ',':
                    raise ValueError('bad record')
        if x == '(':
            v = self.value()
            self.expect(')')
            return v
        raise ValueError('unexpected token %r' % x)


def _key(v):
    if isinstance(v, list):
        return tuple(v)
    return v


def parse_value(s):
    p = _P(tokenize(s))
    v = p.value()
    return v


def parse_state(text):
    """Parse a TLC state printed as  /\\ v1 = e1 /\\ v2 = e2 ...  into a dict."""
    toks = tokenize(text)
    p = _P(toks)
    st = {}
    while p.peek()[0] is not None:
        if p.peek()[1] == '/\\':
            p.next()
        k, name = p.next()
        p.expect('=')
        st[name] = p.value()
    return st


_STATE_HDR = re.compile(r'^STATE_(\d+) ==\s*$', re.M)


def parse_sim_file(path):
    """Parse a file written by `tlc -simulate file=...`: list of state dicts."""
    text = open(path).read()
    parts = _STATE_HDR.split(text)
    states = []
    # parts: [preamble, num, body, num, body...]
    for i in range(2, len(parts), 2):
        body = parts[i]
        # body ends before the next comment line "\* <...>" or "====" line
        body = re.split(r'^\\\*.*$|^=+\s*$', body, flags=re.M)[0]
        states.append(parse_state(body))
    return states


_ERR_STATE = re.compile(r'^State (\d+): (.*)$', re.M)


def parse_error_trace(out):
    """Parse the counterexample TLC prints on stdout: list of (label, state)."""
    res = []
    ms = list(_ERR_STATE.finditer(out))
    for idx, m in enumerate(ms):
        start = m.end()
        end = ms[idx + 1].start() if idx + 1 < len(ms) else len(out)
        body = out[start:end]
        body = body.split('\n\n')[0]
        try:
            res.append((m.group(2).strip(), parse_state(body)))
        except Exception:
            break
    return res


if __name__ == '__main__':
    import sys, json
    sts = parse_sim_file(sys.argv[1])
    print(len(sts))
    print(json.dumps(sts[1], default=list)[:400])
