"""Shared machinery of /verif/bin/check: scratch dirs, Go builds against
/repo's working tree, TLC runs (model checking, simulation, trace validation),
verdict bookkeeping, known findings, evidence files.

Verdict policy (DESIGN.md section 6):
  exit 0  property held on everything explored (KNOWN-FINDING lines allowed)
  exit 1  VIOLATION property=<id> replay=<path>   (real-code behaviour only)
  exit 2  infrastructure problem (build failure, TLC/JVM error, timeout)
"""
import json
import os
import re
import shutil
import subprocess
import sys
import tempfile
import time
import hashlib

VERIF = os.path.dirname(os.path.dirname(os.path.abspath(__file__)))
REPO = os.environ.get('VERIF_REPO', '/repo')
SPEC = os.path.join(VERIF, 'spec')
HARNESS = os.path.join(VERIF, 'harness')
JAR = '/opt/veriftools/tla/tla2tools.jar:/opt/veriftools/tla/CommunityModules-deps.jar'
NCPU = os.cpu_count() or 4

sys.path.insert(0, os.path.join(VERIF, 'tools'))
import tlaval  # noqa: E402


class Infra(Exception):
    """Infrastructure failure: exit 2, never a verdict."""


def go_env():
    env = dict(os.environ)
    env['GOFLAGS'] = '-mod=mod'
    env['GOPROXY'] = 'off'
    env.pop('GOTOOLCHAIN', None)
    env.pop('GOSUMDB', None)
    env.setdefault('GOCACHE', os.path.expanduser('~/.cache/go-build'))
    return env


def sync_go_sum():
    """harness/go.sum must equal /repo/go.sum; replace it atomically and only when it differs
    (several checks may build at the same time)."""
    src, dst = os.path.join(REPO, 'go.sum'), os.path.join(HARNESS, 'go.sum')
    want = open(src, 'rb').read()
    try:
        if open(dst, 'rb').read() == want:
            return
    except OSError:
        pass
    tmp = '%s.%d.tmp' % (dst, os.getpid())
    with open(tmp, 'wb') as f:
        f.write(want)
    os.replace(tmp, dst)


class TLCResult:
    def __init__(self, out, rc, wall):
        self.out, self.rc, self.wall = out, rc, wall
        m = re.search(r'(\d+) states generated, (\d+) distinct states found', out)
        self.generated = int(m.group(1)) if m else 0
        self.distinct = int(m.group(2)) if m else 0
        m = re.search(r'The number of states generated: (\d+)', out)
        if m and not self.generated:
            self.generated = int(m.group(1))
            self.distinct = self.generated
        m = re.search(r'depth of the complete state graph search is (\d+)', out)
        self.depth = int(m.group(1)) if m else 0
        self.violated = re.findall(r'Invariant (\S+) is violated', out)
        self.violated += re.findall(r'Action property (\S+) is violated', out)
        if 'Temporal properties were violated' in out:
            self.violated.append('TEMPORAL')
        self.deadlock = 'Deadlock reached' in out
        m = re.search(r'<<"HIGHWATER", (\d+), (\d+)>>', out)
        self.highwater = int(m.group(1)) if m else None
        self.tracelen = int(m.group(2)) if m else None
        self.completed = ('Model checking completed. No error has been found' in out) or \
                         ('Finished in' in out and 'Error' not in out)
        self.error = None
        if not self.completed and not self.violated and not self.deadlock:
            # postcondition failures are reported as errors too; distinguish below
            m = re.search(r'Error: (.*)', out)
            self.error = m.group(1) if m else ('rc=%d' % rc)
        self.postcondition_failed = 'ostcondition' in out and 'false' in out.lower() and not self.completed

    def counterexample(self):
        return tlaval.parse_error_trace(self.out)

    def coverage_zero(self):
        """Names of actions with zero count in a -coverage run."""
        zeros = []
        for m in re.finditer(r'^<(\w+) line \d+, col \d+ to line \d+, col \d+ of module (\w+)(?: \([^)]*\))?>: (\d+):(\d+)', self.out, re.M):
            if int(m.group(4)) == 0 and int(m.group(3)) == 0:
                zeros.append(m.group(2) + '!' + m.group(1))
        return sorted(set(zeros))


class Ctx:
    def __init__(self, pid, tier, seed, level='model_checking'):
        self.pid, self.tier, self.seed, self.level = pid, tier, seed, level
        self.t0 = time.time()
        base = os.environ.get('TMPDIR', '/tmp')
        self.scratch = tempfile.mkdtemp(prefix='verif_%s_' % pid, dir=base)
        self.cov = {'states': 0, 'transitions': 0, 'traces_validated_against_impl': 0,
                    'samples': [], 'tlc_runs': [], 'exhaustive': False}
        self.assumptions = []
        self.violations = []
        self.known_hits = []
        self.notes = []
        self.keep_scratch = bool(os.environ.get('VERIF_KEEP'))
        # development aliases (C12MEM, C02VMEM, ...) run one component part of a property's check
        self._known = load_known().get(pid, []) or load_known().get(pid[:3], [])

    # ------------------------------------------------------------ utilities
    def log(self, *a):
        print('[%s %6.1fs]' % (self.pid, time.time() - self.t0), *a, flush=True)

    def sub(self, name):
        d = os.path.join(self.scratch, name)
        os.makedirs(d, exist_ok=True)
        return d

    def run(self, argv, cwd=None, timeout=600, env=None, check=True, stdin=None):
        # temporary files of child processes (os.MkdirTemp in the Go drivers, go build work dirs) live under this
        # check's scratch directory, which is removed at the end - also when a child dies without cleaning up
        env = dict(os.environ if env is None else env)
        env['TMPDIR'] = self.sub('tmp')
        try:
            p = subprocess.run(argv, cwd=cwd or self.scratch, timeout=timeout, env=env,
                               stdout=subprocess.PIPE, stderr=subprocess.STDOUT, text=True, input=stdin)
        except subprocess.TimeoutExpired:
            raise Infra('timeout after %ss: %s' % (timeout, ' '.join(argv)[:200]))
        if check and p.returncode != 0:
            raise Infra('command failed rc=%d: %s\n%s' % (p.returncode, ' '.join(argv)[:200], p.stdout[-4000:]))
        return p

    def go_build(self, *cmds, race=False):
        """Build harness commands against /repo's current working tree (tag verif)."""
        env = go_env()
        sync_go_sum()
        outs = []
        bindir = self.sub('bin')
        for c in cmds:
            out = os.path.join(bindir, c + ('_race' if race else ''))
            argv = ['go', 'build', '-tags', 'verif', '-o', out]
            if os.environ.get('VERIF_OVERLAY'):
                # development aid: test a candidate change to /repo without touching /repo
                argv += ['-overlay', os.environ['VERIF_OVERLAY']]
            if race:
                argv.append('-race')
            argv.append('./cmd/' + c)
            t = time.time()
            p = subprocess.run(argv, cwd=HARNESS, env=env, stdout=subprocess.PIPE,
                               stderr=subprocess.STDOUT, text=True, timeout=1500)
            if p.returncode != 0:
                raise Infra('go build %s failed:\n%s' % (c, p.stdout[-6000:]))
            self.log('built %s in %.1fs' % (c, time.time() - t))
            outs.append(out)
        return outs if len(outs) > 1 else outs[0]

    # ------------------------------------------------------------------ TLC
    def _tlc_dir(self, spec_dirs, extra_files=None):
        d = tempfile.mkdtemp(prefix='tlc_', dir=self.scratch)
        for sd in ['lib'] + list(spec_dirs):
            src = os.path.join(SPEC, sd)
            for f in os.listdir(src):
                if f.endswith('.tla') or f.endswith('.cfg'):
                    shutil.copy(os.path.join(src, f), d)
        for name, src in (extra_files or {}).items():
            if os.path.isabs(src) and os.path.exists(src):
                shutil.copy(src, os.path.join(d, name))
            else:
                with open(os.path.join(d, name), 'w') as f:
                    f.write(src)
        return d

    def tlc(self, spec_dirs, module, cfg, workers=None, timeout=900, extra_files=None,
            simulate=None, depth=None, coverage=False, dfs=False, heap=None, kind='mc', seed=None,
            extra_args=None):
        """Run TLC.  spec_dirs: dirs under /verif/spec to copy; returns TLCResult.
        Raises Infra on JVM/parse errors or timeouts."""
        if isinstance(spec_dirs, str):
            spec_dirs = [spec_dirs]
        d = self._tlc_dir(spec_dirs, extra_files)
        workers = workers or min(NCPU, 8)
        # TLC unpacks its standard modules into java.io.tmpdir (/tmp/tlc-<n>) and leaves them there: keep them in the scratch
        argv = ['java', '-XX:+UseParallelGC', '-Xss64m', '-Djava.io.tmpdir=' + self.sub('tmp')]
        if heap:
            argv.append('-Xmx' + heap)
        if dfs:
            argv.append('-Dtlc2.tool.queue.IStateQueue=StateDeque')
        argv += ['-cp', JAR, 'tlc2.TLC', '-workers', str(workers), '-metadir', os.path.join(d, 'md'),
                 '-config', cfg, '-noGenerateSpecTE']
        if simulate:
            argv += ['-simulate', simulate]
        if depth:
            argv += ['-depth', str(depth)]
        if seed is not None:
            argv += ['-seed', str(seed)]
        if coverage:
            argv += ['-coverage', '1']
        argv += list(extra_args or [])
        argv.append(module)
        t = time.time()
        for attempt in range(3):
            try:
                p = subprocess.run(argv, cwd=d, timeout=timeout, stdout=subprocess.PIPE,
                                   stderr=subprocess.STDOUT, text=True)
            except subprocess.TimeoutExpired:
                subprocess.run(['pkill', '-f', d], check=False)
                raise Infra('TLC timeout after %ss on %s/%s' % (timeout, module, cfg))
            # a JVM killed by a signal (memory pressure from other jobs on the machine) or dying of an out-of-memory /
            # internal error says nothing about the specification: start it again (fresh metadir) before giving up
            transient = (p.returncode < 0 or 'java.lang.OutOfMemoryError' in p.stdout
                         or 'There is insufficient memory for the Java Runtime' in p.stdout
                         or (re.search(r'TLC threw an unexpected exception', p.stdout) is not None
                             and 'StackOverflowError' not in p.stdout))
            if not transient or attempt == 2:
                break
            self.log('TLC run of %s/%s ended abnormally (rc=%s), retrying' % (module, cfg, p.returncode))
            shutil.rmtree(os.path.join(d, 'md'), ignore_errors=True)
            time.sleep(5 + 10 * attempt)
        res = TLCResult(p.stdout, p.returncode, time.time() - t)
        res.dir = d
        if ('Parsing or semantic analysis failed' in p.stdout or 'java.lang.OutOfMemoryError' in p.stdout
                or 'Could not find' in p.stdout or 'StackOverflowError' in p.stdout
                or re.search(r'TLC threw an unexpected exception', p.stdout)):
            raise Infra('TLC infrastructure error on %s/%s:\n%s' % (module, cfg, p.stdout[-3000:]))
        self.cov['tlc_runs'].append({'module': module, 'cfg': cfg, 'kind': kind, 'generated': res.generated,
                                     'distinct': res.distinct, 'depth': res.depth, 'wall_s': round(res.wall, 2),
                                     'violated': res.violated})
        if kind == 'mc':
            self.cov['states'] += res.distinct
            self.cov['transitions'] += res.generated
        return res

    def tlc_expect_ok(self, *a, **kw):
        """Model-check a design-level spec; any violation there is a spec bug (exit 2),
        because verdicts are only taken from real-code behaviour."""
        res = self.tlc(*a, **kw)
        if res.violated or res.deadlock or not res.completed:
            raise Infra('design-level model check did not pass (%s %s): violated=%s deadlock=%s error=%s\n%s' % (
                a[1], a[2], res.violated, res.deadlock, res.error, res.out[-2500:]))
        return res

    def simulate(self, spec_dirs, module, cfg, num, depth, seed=None, timeout=300, extra_files=None):
        """tlc -simulate writing behaviours to files; returns list of behaviours (lists of state dicts)."""
        res = self.tlc(spec_dirs, module, cfg, workers=1, timeout=timeout, extra_files=extra_files,
                       simulate='file=%s,num=%d' % ('beh', num), depth=depth,
                       seed=seed if seed is not None else self.seed, kind='simulate')
        if res.violated:
            raise Infra('simulation of %s violated %s\n%s' % (module, res.violated, res.out[-2000:]))
        behs = []
        for f in sorted(os.listdir(res.dir)):
            if f.startswith('beh_'):
                behs.append(tlaval.parse_sim_file(os.path.join(res.dir, f)))
        self.cov['transitions'] += res.generated
        return behs, res

    def validate_trace(self, spec_dirs, module, cfg, trace_path, timeout=900, dfs=False,
                       trace_name='trace.ndjson', extra_files=None, heap=None):
        """Check a recorded ndjson trace against a trace spec.  Returns dict:
        accepted, highwater, n, violated (invariant names), res."""
        ef = dict(extra_files or {})
        ef[trace_name] = trace_path
        res = self.tlc(spec_dirs, module, cfg, workers=1, timeout=timeout, extra_files=ef, dfs=dfs,
                       kind='trace', heap=heap)
        n = sum(1 for _ in open(trace_path))
        if res.highwater is None and not res.violated:
            raise Infra('trace validation produced no verdict (%s):\n%s' % (module, res.out[-3000:]))
        accepted = (not res.violated) and res.highwater == n + 1
        if accepted and not res.completed:
            raise Infra('trace validation inconsistent:\n' + res.out[-2000:])
        hw = res.highwater
        if res.violated and hw is None:
            # position from the counterexample's last state
            ce = res.counterexample()
            if ce:
                hw = ce[-1][1].get('l')
        self.cov['trace_states'] = self.cov.get('trace_states', 0) + res.distinct
        return {'accepted': accepted, 'highwater': hw, 'n': n, 'violated': res.violated, 'res': res}

    # ------------------------------------------------------------- verdicts
    def sample(self, x):
        if len(self.cov['samples']) < 8:
            self.cov['samples'].append(x)

    def known_match(self, signature):
        """signature: dict of facts about a failure. Returns the matching open
        known-finding entry or None."""
        for k in self._known:
            if k.get('status') != 'open':
                continue
            m = k.get('match', {})
            if all(signature.get(a) == b for a, b in m.items()):
                return k
        return None

    def report_failure(self, what, signature, replay):
        """Record a real-code failure: known finding or violation."""
        k = self.known_match(signature)
        if k is not None:
            if k['id'] not in [h['id'] for h in self.known_hits]:
                print('KNOWN-FINDING: property=%s %s' % (self.pid, k['what_fails']), flush=True)
            self.known_hits.append({'id': k['id'], 'signature': signature})
            return False
        rdir = os.path.join(VERIF, 'replays', self.pid)
        os.makedirs(rdir, exist_ok=True)
        blob = json.dumps({'property': self.pid, 'what': what, 'signature': signature, 'replay': replay},
                          indent=1, default=list)
        h = hashlib.sha1(blob.encode()).hexdigest()[:12]
        path = os.path.join(rdir, h + '.json')
        with open(path, 'w') as f:
            f.write(blob)
        self.violations.append({'what': what, 'signature': signature, 'replay': path})
        print('VIOLATION property=%s replay=%s' % (self.pid, path), flush=True)
        print('  ' + what[:600], flush=True)
        return True

    def finish(self, extra_cov=None, rule=None):
        cov = self.cov
        if extra_cov:
            cov.update(extra_cov)
        if rule:
            cov['rule'] = rule
        cov['known_finding_hits'] = len(self.known_hits)
        cov['known_findings_seen'] = sorted({h['id'] for h in self.known_hits})
        if not cov['samples']:
            cov['samples'] = ['(none recorded)']
        if self.level == 'model_checking':
            cov['states'] = max(cov['states'], 1) if cov['states'] else cov['states']
        ev = {'property_id': self.pid, 'tier': self.tier, 'seed': self.seed, 'level': self.level,
              'coverage': cov, 'assumptions': self.assumptions, 'wall_s': round(time.time() - self.t0, 2),
              'violations': len(self.violations)}
        if self.notes:
            ev['coverage']['notes'] = self.notes
        # evidence describes runs against /repo's tree; a development run against an overlay (candidate change)
        # or with VERIF_EVIDENCE_DIR set writes elsewhere
        evdir = os.environ.get('VERIF_EVIDENCE_DIR') or (
            os.path.join(os.environ.get('TMPDIR', '/tmp'), 'verif_evidence_overlay') if os.environ.get('VERIF_OVERLAY') else os.path.join(VERIF, 'evidence'))
        os.makedirs(evdir, exist_ok=True)
        with open(os.path.join(evdir, self.pid + '.json'), 'w') as f:
            json.dump(ev, f, indent=1, default=list)
        self.cleanup()
        self.log('done: violations=%d known=%d wall=%.1fs' % (len(self.violations), len(self.known_hits), time.time() - self.t0))
        return 1 if self.violations else 0

    def cleanup(self):
        if not self.keep_scratch:
            shutil.rmtree(self.scratch, ignore_errors=True)
        else:
            self.log('scratch kept at', self.scratch)


def load_known():
    path = os.path.join(VERIF, 'known_findings.json')
    if not os.path.exists(path):
        return {}
    by = {}
    seen = set()
    files = [path]
    kdir = os.path.join(VERIF, 'known')
    if os.path.isdir(kdir):
        files += [os.path.join(kdir, f) for f in sorted(os.listdir(kdir)) if f.endswith('.json')]
    for fp in files:
        for k in json.load(open(fp)).get('findings', []):
            if k['id'] in seen:
                continue
            seen.add(k['id'])
            by.setdefault(k['property'], []).append(k)
    if os.environ.get('VERIF_NO_KNOWN'):
        return {}
    return by


def known_fixed(pid):
    """Entries recorded as fixed (they suppress nothing; informational)."""
    return [k for k in load_known().get(pid, []) if k.get('status') == 'fixed']


def split_traces(path):
    """Split a concatenated ndjson trace at Reset lines: list of (first_line_no, [records])."""
    out, cur, start = [], [], 1
    for i, line in enumerate(open(path), 1):
        r = json.loads(line)
        if r.get('e') == 'Reset' and cur:
            out.append((start, cur))
            cur, start = [], i
        cur.append(r)
    if cur:
        out.append((start, cur))
    return out


def trace_containing(path, lineno):
    """The sub-trace (list of records) that contains 1-based line lineno, and its start line."""
    for start, recs in split_traces(path):
        if start <= lineno < start + len(recs):
            return start, recs
    parts = split_traces(path)
    return parts[-1] if parts else (1, [])


def write_ndjson(path, recs):
    with open(path, 'w') as f:
        for r in recs:
            f.write(json.dumps(r, default=list) + '\n')
