#!/usr/bin/env python3
"""mkoverlay.py <patch.diff> <outdir>: build a `go build -overlay` file that makes
the harness see /repo *with the patch applied*, without touching /repo.
Prints the path of overlay.json (use: VERIF_OVERLAY=<that> bin/check ...)."""
import json
import os
import re
import shutil
import subprocess
import sys

patch, out = os.path.abspath(sys.argv[1]), os.path.abspath(sys.argv[2])
repo = os.environ.get('VERIF_REPO', '/repo')
os.makedirs(out, exist_ok=True)
files = []
for line in open(patch):
    m = re.match(r'^\+\+\+ b/(.*)$', line.rstrip('\n'))
    if m and m.group(1) != '/dev/null':
        files.append(m.group(1))
deleted = []
prev = None
for line in open(patch):
    if line.startswith('--- a/'):
        prev = line[6:].strip()
    if line.startswith('+++ /dev/null') and prev:
        deleted.append(prev)
tree = os.path.join(out, 'tree')
for f in files + deleted:
    src = os.path.join(repo, f)
    dst = os.path.join(tree, f)
    os.makedirs(os.path.dirname(dst), exist_ok=True)
    if os.path.exists(src):
        shutil.copy(src, dst)
subprocess.run(['patch', '-p1', '-s', '-i', patch], cwd=tree, check=True)
replace = {}
for f in files:
    replace[os.path.join(repo, f)] = os.path.join(tree, f)
for f in deleted:
    replace[os.path.join(repo, f)] = ''
ov = os.path.join(out, 'overlay.json')
json.dump({'Replace': replace}, open(ov, 'w'), indent=1)
print(ov)
