#!/bin/sh
# audit_samples.sh [base-commit] -- development aid, not a registered check.
# Builds every shipped sample of /repo (HEAD, working tree) and of the pinned base commit (scratch worktree under /tmp,
# removed afterwards), runs each with -verify in emulation and in timing mode (gcn3 on r9nano, cdna3 on mi300a) and prints
# the cases whose outcome differs. A case that passes on the base and fails on HEAD is a regression of one of the
# "fix:" commits, never a finding. Introduced after /repo 9d45b4d3 broke nbody -arch=cdna3 unnoticed (repaired by c05827e8).
set -u
base=${1:-be3824bd}
A=$(mktemp -d /tmp/audit.XXXXXX)
. /w/out/goenv.sh
git -C /repo worktree add -q $A/base $base || exit 2
S="aes atax bfs bicg bitonicsort concurrentkernel fastwalshtransform fft fir floydwarshall kmeans matrixmultiplication matrixtranspose memcopy nbody nw pagerank relu simpleconvolution spmv stencil2d vectoradd conv2d im2col"
for tag in head base; do
  tree=/repo; [ $tag = base ] && tree=$A/base
  mkdir -p $A/bin_$tag
  for s in $S; do (cd $tree/amd/samples/$s && go build $(gomodflag) -o $A/bin_$tag/$s . 2>/dev/null) || echo "$tag $s BUILDFAIL"; done
done
cat > $A/one.sh <<EOS
#!/bin/sh
tag=\$1; s=\$2; arch=\$3; shift 3
d=\$(mktemp -d $A/run.XXXXXX); cd \$d
out=\$(GODEBUG=randseednop=0 timeout 400 $A/bin_\$tag/\$s -arch=\$arch -verify "\$@" 2>&1); rc=\$?
res=FAIL; echo "\$out" | grep -q "Passed!" && res=PASS; [ \$rc -eq 124 ] && res=TIMEOUT
[ \$res = FAIL ] && { echo "\$out" | grep -qi "panic" && res=PANIC; }
echo "\$tag \$s \$arch \$* \$res"
cd /; rm -rf \$d
EOS
chmod +x $A/one.sh
for tag in head base; do for s in $S; do
  echo "$tag $s gcn3"; echo "$tag $s cdna3"; echo "$tag $s gcn3 -timing"; echo "$tag $s cdna3 -timing -gpu=mi300a"
done; done | xargs -P 10 -L 1 $A/one.sh > $A/res.txt 2>&1
awk '{k=$2; for(i=3;i<NF;i++) k=k" "$i; r[k,$1]=$NF; keys[k]=1}
     END{for (k in keys) if (r[k,"head"]!=r[k,"base"]) print "DIFFERS:", k, "base="r[k,"base"], "head="r[k,"head"]}' $A/res.txt | sort
awk '{print $1, $NF}' $A/res.txt | sort | uniq -c
git -C /repo worktree remove --force $A/base; rm -rf $A
