#!/usr/bin/env python3
"""Writes /verif/MANIFEST.json from the table below (one source of truth)."""
import json
import os

VERIF = os.path.dirname(os.path.dirname(os.path.abspath(__file__)))

BASELINE_OFF = ("for m in $(cat /w/out/gomods.txt); do MF=$(cd /repo/$m && . /w/out/goenv.sh && gomodflag); "
                "(cd /repo/$m && go test $MF -json -vet=off -count=1 -timeout 25m ./...); done")

# property id -> claim; properties absent from CLAIMS go to not_applicable with NA[pid]
CLAIMS = {}

NA = {}
PENDING = 'check not built yet in this session (planned, see DESIGN.md section 10); not claimed until it exists'


def main():
    props = [json.loads(l) for l in open(os.path.join(VERIF, 'properties.jsonl'))]
    hooks_commits = []
    hc = os.path.join(VERIF, 'hooks_commits.txt')
    if os.path.exists(hc):
        hooks_commits = [l.split()[0] for l in open(hc) if l.strip() and not l.startswith('#')]
    checks, na = [], []
    cdir = os.path.join(VERIF, 'checks')
    for f in sorted(os.listdir(cdir)):
        if f.endswith('.claim.json'):
            c = json.load(open(os.path.join(cdir, f)))
            CLAIMS[c['property_id']] = c
    nadir = os.path.join(VERIF, 'checks', 'not_applicable.json')
    if os.path.exists(nadir):
        NA.update(json.load(open(nadir)))
    for p in props:
        pid = p['id']
        c = CLAIMS.get(pid)
        if not c:
            na.append({'property_id': pid, 'reason': NA.get(pid, PENDING)})
            continue
        checks.append({
            'property_id': pid,
            'quick_cmd': 'bin/check %s --tier quick' % pid,
            'thorough_cmd': 'bin/check %s --tier thorough' % pid,
            'evidence_file': '/verif/evidence/%s.json' % pid,
            'replay_cmd_template': 'bin/check %s --replay {path}' % pid,
            'engine': 'tlc+harness',
            'level_claimed': {'category': c['category'], 'text': c['text'], 'design_ref': c['design_ref']},
            'level_note': c['note'],
            'technique': c['technique'],
        })
    m = {
        'version': 1,
        'setup_cmd': 'bin/setup',
        'hooks': {
            'guard': 'verif',
            'enable': 'go build -tags verif (harness module /verif/harness with replace github.com/sarchlab/mgpusim/v4 => /repo)',
            'baseline_off_cmd': BASELINE_OFF,
            'source_commits': hooks_commits,
            'add_only': True,
        },
        'engines': [
            {'name': 'tlc+harness', 'path': '/verif/bin/check',
             'serves_properties': [c['property_id'] for c in checks],
             'kind_free_text': ('explicit TLA+ specifications under /verif/spec checked with TLC; Go harness under '
                                '/verif/harness replays TLC behaviours into the real code and records traces that TLC '
                                'validates against the specifications')},
        ],
        'checks': checks,
        'not_applicable': na,
        'notes': ('Exit codes: 0 held / 1 VIOLATION / 2 infrastructure error. Known genuine defects are listed in '
                  '/verif/known_findings.json and printed as KNOWN-FINDING lines.'),
    }
    with open(os.path.join(VERIF, 'MANIFEST.json'), 'w') as f:
        json.dump(m, f, indent=1)
    print('MANIFEST.json: %d checks, %d not_applicable' % (len(checks), len(na)))


if __name__ == '__main__':
    main()
