#!/usr/bin/env python3
"""Merge the builders' fragments known/<ID>.json into /verif/known_findings.json (the committed list).
Entries already present (same id) are updated from the fragment; nothing is ever added at check run time."""
import json, os
V = os.path.dirname(os.path.dirname(os.path.abspath(__file__)))
main = json.load(open(os.path.join(V, 'known_findings.json')))
by = {k['id']: k for k in main['findings']}
order = [k['id'] for k in main['findings']]
kd = os.path.join(V, 'known')
for f in sorted(os.listdir(kd)):
    if not f.endswith('.json'):
        continue
    for k in json.load(open(os.path.join(kd, f))).get('findings', []):
        if k['id'] not in by:
            order.append(k['id'])
        by[k['id']] = k
main['findings'] = [by[i] for i in order]
json.dump(main, open(os.path.join(V, 'known_findings.json'), 'w'), indent=1)
print('known_findings.json:', len(order), 'entries;', sum(1 for i in order if by[i].get('status') == 'open'), 'open')
