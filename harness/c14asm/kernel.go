package c14asm

import (
	"fmt"
	"strconv"
	"strings"

	"github.com/sarchlab/mgpusim/v4/amd/insts"
)

// Memory layout shared by the generated kernels.
//
//	kernarg +0  : 64-bit address of the communication buffer
//	kernarg +8  : 64-bit address of the output buffer
//	kernarg +16 : a 32-bit constant (target of the "sld" operation)
//
// Work-group g owns [g*WGStride, (g+1)*WGStride) of both buffers, wavefront w of
// the group owns WfStride bytes at w*WFStride inside it; an epoch (the number of
// barriers the wavefront has issued so far) owns a 256-byte row (one dword per lane).
const (
	WGStride   = 1 << 16
	WfStride   = 1 << 12
	RowBytes   = 256
	MaxEpoch   = 14 // row 15 is never written: reads of epoch -1 go there
	KernargLen = 24
)

// Registers: s[0:1] kernarg, s2 work-group id, s3 wavefront index, s[4:5] comm base of the group,
// s[6:7] out base of the group, s8 scratch, s9 sld destination;
// v0 local id, v1 wavefront index, v2 lane*4, v[4:5] own comm address, v[6:7] neighbour's comm
// address, v8 token, v9/v12/v13 load destinations, v[10:11] own out address, v14 own LDS address,
// v15 neighbour's LDS address, v16 neighbour index.
const (
	NumVGPR = 20
	NumSGPR = 16
)

// Kernel is an assembled kernel.
type Kernel struct {
	Code    []byte
	NWf     int
	Listing []string
	LDSSize int
}

// CodeObject wraps the code for the launch APIs.
func (k *Kernel) CodeObject() *insts.KernelCodeObject {
	return &insts.KernelCodeObject{KernelCodeObjectMeta: &insts.KernelCodeObjectMeta{
		WIVgprCount: NumVGPR, WFSgprCount: NumSGPR, KernargSegmentByteSize: KernargLen,
		EnableSgprKernargSegmentPtr: true,
		ComputePgmRsrc2:             1 << 7, // work-group id x in s2
		GroupSegmentByteSize:        uint32(k.LDSSize),
	}, Data: k.Code, Version: insts.CodeObjectV3}
}

func prologue(a *Asm, nwf int) {
	a.VLshrrevB32(1, K(6), 0)    // v1 = wavefront index
	a.VReadfirstlaneB32(3, 1)    // s3 = wavefront index
	a.SLoadDwordx2(4, 0, 0)      // s[4:5] = comm
	a.SLoadDwordx2(6, 0, 8)      // s[6:7] = out
	a.VAndB32(2, K(63), 0)       // v2 = lane
	a.VLshlrevB32(2, K(2), 2)    // v2 = lane*4
	a.VLshlrevB32(14, K(12), 1)  // v14 = wf*4096
	a.VOrB32(14, V(14), 2)       // v14 = own offset = own LDS address
	a.VAddU32(16, K(1), 1)       // v16 = wf+1
	a.VCmpGtU32(K(nwf), 16)      // vcc = nwf > wf+1
	a.VCndmaskB32(16, K(0), 16)  // v16 = vcc ? wf+1 : 0
	a.VLshlrevB32(15, K(12), 16) // v15 = nb*4096
	a.VOrB32(15, V(15), 2)       // v15 = neighbour offset = neighbour LDS address
	a.SWaitcnt(15, 0)            // the two scalar loads
	a.SLshlB32(8, S(2), K(16))   // s8 = wg * 64K
	a.SAddU32(4, S(4), S(8))
	a.SAddcU32(5, S(5), K(0))
	a.SAddU32(6, S(6), S(8))
	a.SAddcU32(7, S(7), K(0))
	a.VMovB32(5, S(5))
	a.VAddU32(4, S(4), 14)
	a.VAddcU32(5, K(0), 5)
	a.VMovB32(7, S(5))
	a.VAddU32(6, S(4), 15)
	a.VAddcU32(7, K(0), 7)
	a.VMovB32(11, S(7))
	a.VAddU32(10, S(6), 14)
	a.VAddcU32(11, K(0), 11)
	a.VLshlrevB32(8, K(8), 0) // token = local id << 8
}

var loadRegs = []int{9, 12, 13}

// ParseWait parses "w:V:S".
func ParseWait(op string) (v, s int, ok bool) {
	p := strings.Split(op, ":")
	if len(p) != 3 || p[0] != "w" {
		return 0, 0, false
	}
	v, e1 := strconv.Atoi(p[1])
	s, e2 := strconv.Atoi(p[2])
	return v, s, e1 == nil && e2 == nil
}

// emitter turns abstract operations into instructions; it tracks the epoch (barriers issued so
// far: which row a store writes and a load reads), the rotating load destination and the output row.
type emitter struct {
	epoch, nload, nout, last int
}

func row(e int) int {
	if e < 0 {
		return 15 * RowBytes
	}
	if e > MaxEpoch {
		e = MaxEpoch
	}
	return e * RowBytes
}

func (m *emitter) emit(a *Asm, op string) (ended bool, err error) {
	switch op {
	case "alu":
		a.VAddU32(8, K(1), 8)
	case "nop":
		a.SNop()
	case "gst":
		a.FlatStoreDword(4, 8, row(m.epoch))
	case "gld":
		m.last = loadRegs[m.nload%len(loadRegs)]
		m.nload++
		a.FlatLoadDword(m.last, 6, row(m.epoch-1))
	case "lst":
		a.DsWriteB32(14, 8, row(m.epoch))
	case "lld":
		m.last = loadRegs[m.nload%len(loadRegs)]
		m.nload++
		a.DsReadB32(m.last, 15, row(m.epoch-1))
	case "sld":
		a.SLoadDword(9, 0, 16)
	case "out":
		a.FlatStoreDword(10, m.last, row(m.nout%16))
		m.nout++
	case "bar":
		a.SBarrier()
		m.epoch++
	case "end":
		a.SEndpgm()
		return true, nil
	default:
		v, s, ok := ParseWait(op)
		if !ok {
			return false, fmt.Errorf("unknown op %q", op)
		}
		a.SWaitcnt(v, s)
	}
	return false, nil
}

func finish(a *Asm, nwf int) (*Kernel, error) {
	code := a.Finish()
	lst, err := a.SelfCheck()
	if err != nil {
		return nil, err
	}
	// pad so that instruction fetch past the last s_endpgm reads defined bytes
	for len(code)%64 != 0 {
		code = append(code, 0, 0, 0x80, 0xBF) // s_nop
	}
	return &Kernel{Code: code, NWf: nwf, Listing: lst, LDSSize: nwf * WfStride}, nil
}

// BuildTable assembles a kernel in which wavefront w of every work-group runs progs[w]:
// a common prologue, a dispatch on the wavefront index, one straight-line block per wavefront.
func BuildTable(progs [][]string) (*Kernel, error) {
	n := len(progs)
	if n < 1 || n > 16 {
		return nil, fmt.Errorf("1..16 wavefronts per group, got %d", n)
	}
	a := New()
	prologue(a, n)
	for w := 0; w < n-1; w++ {
		a.SCmpEqU32(S(3), K(w))
		a.SCbranchSCC1(fmt.Sprintf("L%d", w))
	}
	// the last wavefront falls through into its block, placed first
	order := append([]int{n - 1}, rangeInts(n-1)...)
	for _, w := range order {
		a.Label(fmt.Sprintf("L%d", w))
		m := &emitter{last: loadRegs[0]}
		ended := false
		for _, op := range progs[w] {
			var err error
			if ended, err = m.emit(a, op); err != nil {
				return nil, err
			}
			if ended {
				break
			}
		}
		if !ended {
			a.SEndpgm()
		}
	}
	return finish(a, n)
}

// BuildUniform assembles a kernel whose wavefronts all run the same body; the op
// "xge:K" makes the wavefronts with index >= K leave through s_endpgm (v_cmp + s_cbranch_vccz,
// the idiom of a compiled "if (id >= n) return;").
func BuildUniform(nwf int, body []string) (*Kernel, error) {
	if nwf < 1 || nwf > 16 {
		return nil, fmt.Errorf("1..16 wavefronts per group, got %d", nwf)
	}
	a := New()
	prologue(a, nwf)
	m := &emitter{last: loadRegs[0]}
	nloop, loopN, inLoop := 0, 0, false
	for _, op := range body {
		if strings.HasPrefix(op, "xge:") {
			k, err := strconv.Atoi(op[4:])
			if err != nil || k < 0 || k > 64 {
				return nil, fmt.Errorf("bad op %q", op)
			}
			a.VCmpGtU32(K(k), 1) // vcc = k > wavefront index
			a.SCbranchVCCZ("END")
			continue
		}
		if strings.HasPrefix(op, "loop:") {
			// "loop:N" ... "endloop": the ops in between run N times (s10 counts; a conditional forward branch
			// leaves the loop, an unconditional backward branch repeats it).  Not nested.
			k, err := strconv.Atoi(op[5:])
			if err != nil || k < 1 || k > 64 || inLoop {
				return nil, fmt.Errorf("bad op %q", op)
			}
			nloop++
			inLoop = true
			a.SMovB32(10, K(0))
			a.Label(fmt.Sprintf("LOOP%d", nloop))
			loopN = k
			continue
		}
		if op == "endloop" {
			if !inLoop {
				return nil, fmt.Errorf("endloop without loop")
			}
			inLoop = false
			a.SAddU32(10, S(10), K(1))
			a.SCmpEqU32(S(10), K(loopN))
			a.SCbranchSCC1(fmt.Sprintf("DONE%d", nloop))
			a.SBranch(fmt.Sprintf("LOOP%d", nloop))
			a.Label(fmt.Sprintf("DONE%d", nloop))
			continue
		}
		if op == "end" {
			return nil, fmt.Errorf("\"end\" is implicit in uniform kernels")
		}
		if _, err := m.emit(a, op); err != nil {
			return nil, err
		}
	}
	if inLoop {
		return nil, fmt.Errorf("loop without endloop")
	}
	a.Label("END")
	a.SEndpgm()
	return finish(a, nwf)
}

// BuildRaw assembles a kernel without prologue: every wavefront runs the same straight-line body of
// scheduler-internal instructions (nop, bar, w:V:S, end) and scalar loads (sld), so that co-resident work-groups stay in lock step.
func BuildRaw(nwf int, body []string) (*Kernel, error) {
	if nwf < 1 || nwf > 16 {
		return nil, fmt.Errorf("1..16 wavefronts per group, got %d", nwf)
	}
	a := New()
	ended := false
	for _, op := range body {
		switch op {
		case "nop":
			a.SNop()
		case "bar":
			a.SBarrier()
		case "sld":
			a.SLoadDword(9, 0, 16) // s9 = kernarg[16] (s[0:1] is the kernarg pointer the dispatcher sets up)
		case "end":
			a.SEndpgm()
			ended = true
		default:
			v, s, ok := ParseWait(op)
			if !ok {
				return nil, fmt.Errorf("raw kernels take nop, bar, sld, w:V:S, end; got %q", op)
			}
			a.SWaitcnt(v, s)
		}
	}
	if !ended {
		a.SEndpgm()
	}
	return finish(a, nwf)
}

func rangeInts(n int) []int {
	r := make([]int, n)
	for i := range r {
		r[i] = i
	}
	return r
}
