// Package c14asm is a small GCN3 instruction encoder and kernel builder for the
// C14 check (barriers, wait counts, wavefront termination).  There is no
// assembler in the sandbox; the handful of instructions the check needs are
// encoded from the ISA manual's field layouts and every kernel is decoded back
// with the real disassembler before it is used (SelfCheck), so the encoder is
// never an oracle.
package c14asm

import (
	"encoding/binary"
	"fmt"
	"strings"

	"github.com/sarchlab/mgpusim/v4/amd/insts"
)

// Asm accumulates machine code.
type Asm struct {
	Buf    []byte
	labels map[string]int
	fix    []fixup
	Names  []string // expected mnemonic per instruction (for SelfCheck)
	Offs   []int    // byte offset per instruction
}

type fixup struct {
	at    int // byte offset of the SOPP word
	label string
}

// New creates an empty assembler.
func New() *Asm { return &Asm{labels: map[string]int{}} }

func (a *Asm) w32(name string, ws ...uint32) {
	a.Names = append(a.Names, name)
	a.Offs = append(a.Offs, len(a.Buf))
	for _, w := range ws {
		var b [4]byte
		binary.LittleEndian.PutUint32(b[:], w)
		a.Buf = append(a.Buf, b[:]...)
	}
}

// PC is the current byte offset.
func (a *Asm) PC() int { return len(a.Buf) }

// Label binds a name to the current offset.
func (a *Asm) Label(l string) { a.labels[l] = len(a.Buf) }

// Operand encodings (9-bit source field).
func S(n int) uint32 { return uint32(n) }       // SGPR
func V(n int) uint32 { return uint32(256 + n) } // VGPR
// K is an inline integer constant 0..64.
func K(n int) uint32 {
	if n < 0 || n > 64 {
		panic("inline constant out of range")
	}
	return uint32(128 + n)
}

// VCC is the low half of VCC as a scalar source.
const VCC = 106

// ---- SOPP
func (a *Asm) sopp(name string, op, simm uint32) { a.w32(name, 0xBF800000|op<<16|simm&0xffff) }

// SNop emits s_nop.
func (a *Asm) SNop() { a.sopp("s_nop", 0, 0) }

// SEndpgm emits s_endpgm.
func (a *Asm) SEndpgm() { a.sopp("s_endpgm", 1, 0) }

// SBarrier emits s_barrier.
func (a *Asm) SBarrier() { a.sopp("s_barrier", 10, 0) }

// SWaitcnt emits s_waitcnt vmcnt(vm) lgkmcnt(lgkm); expcnt is left at 7 (no wait).
func (a *Asm) SWaitcnt(vm, lgkm int) {
	a.sopp("s_waitcnt", 12, uint32(vm&0xf)|7<<4|uint32(lgkm&0x1f)<<8)
}

func (a *Asm) branch(name string, op uint32, label string) {
	a.fix = append(a.fix, fixup{len(a.Buf), label})
	a.sopp(name, op, 0)
}

// SBranch emits s_branch label.
func (a *Asm) SBranch(l string) { a.branch("s_branch", 2, l) }

// SCbranchSCC1 emits s_cbranch_scc1 label.
func (a *Asm) SCbranchSCC1(l string) { a.branch("s_cbranch_scc1", 5, l) }

// SCbranchVCCZ emits s_cbranch_vccz label.
func (a *Asm) SCbranchVCCZ(l string) { a.branch("s_cbranch_vccz", 6, l) }

// ---- SOP2 / SOPC / SOP1
func (a *Asm) sop2(name string, op, sdst, s0, s1 uint32) {
	a.w32(name, 0x80000000|op<<23|sdst<<16|s1<<8|s0)
}

// SAddU32 emits s_add_u32 sdst, s0, s1.
func (a *Asm) SAddU32(sdst int, s0, s1 uint32) { a.sop2("s_add_u32", 0, uint32(sdst), s0, s1) }

// SAddcU32 emits s_addc_u32 sdst, s0, s1.
func (a *Asm) SAddcU32(sdst int, s0, s1 uint32) { a.sop2("s_addc_u32", 4, uint32(sdst), s0, s1) }

// SLshlB32 emits s_lshl_b32 sdst, s0, s1.
func (a *Asm) SLshlB32(sdst int, s0, s1 uint32) { a.sop2("s_lshl_b32", 28, uint32(sdst), s0, s1) }

// SCmpEqU32 emits s_cmp_eq_u32 s0, s1.
func (a *Asm) SCmpEqU32(s0, s1 uint32) { a.w32("s_cmp_eq_u32", 0xBF000000|6<<16|s1<<8|s0) }

// EXEC is the EXEC register pair as a scalar operand; Minus1 is the inline constant -1.
const (
	EXEC   = 126
	Minus1 = 193
)

func (a *Asm) sop1(name string, op uint32, sdst int, s0 uint32) {
	a.w32(name, 0xBE800000|uint32(sdst)<<16|op<<8|s0)
}

// SMovB64 emits s_mov_b64 sdst, ssrc0 (sdst may be EXEC).
func (a *Asm) SMovB64(sdst int, s0 uint32) { a.sop1("s_mov_b64", 1, sdst, s0) }

// SAndSaveexecB64 emits s_and_saveexec_b64 sdst, ssrc0.
func (a *Asm) SAndSaveexecB64(sdst int, s0 uint32) { a.sop1("s_and_saveexec_b64", 32, sdst, s0) }

// ---- SMEM
func (a *Asm) smem(name string, op uint32, sdata, sbase int, off uint32) {
	a.w32(name, 0xC0000000|op<<18|1<<17|uint32(sdata)<<6|uint32(sbase>>1), off&0xfffff)
}

// SLoadDword emits s_load_dword s[sdata], s[sbase:sbase+1], off.
func (a *Asm) SLoadDword(sdata, sbase int, off uint32) { a.smem("s_load_dword", 0, sdata, sbase, off) }

// SLoadDwordx2 emits s_load_dwordx2.
func (a *Asm) SLoadDwordx2(sdata, sbase int, off uint32) {
	a.smem("s_load_dwordx2", 1, sdata, sbase, off)
}

// ---- VOP1 / VOP2 / VOPC
func (a *Asm) vop1(name string, op uint32, vdst int, src0 uint32) {
	a.w32(name, 0x7E000000|uint32(vdst)<<17|op<<9|src0)
}

// VMovB32 emits v_mov_b32 v[vdst], src0.
func (a *Asm) VMovB32(vdst int, src0 uint32) { a.vop1("v_mov_b32", 1, vdst, src0) }

// VReadfirstlaneB32 emits v_readfirstlane_b32 s[sdst], v[vsrc].
func (a *Asm) VReadfirstlaneB32(sdst, vsrc int) { a.vop1("v_readfirstlane_b32", 2, sdst, V(vsrc)) }

func (a *Asm) vop2(name string, op uint32, vdst int, src0 uint32, vsrc1 int) {
	a.w32(name, op<<25|uint32(vdst)<<17|uint32(vsrc1)<<9|src0)
}

// VCndmaskB32 emits v_cndmask_b32 vdst, src0, vsrc1, vcc (vcc ? vsrc1 : src0).
func (a *Asm) VCndmaskB32(vdst int, src0 uint32, vsrc1 int) {
	a.vop2("v_cndmask_b32", 0, vdst, src0, vsrc1)
}

// VLshrrevB32 emits v_lshrrev_b32 vdst, src0(shift), vsrc1.
func (a *Asm) VLshrrevB32(vdst int, src0 uint32, vsrc1 int) {
	a.vop2("v_lshrrev_b32", 16, vdst, src0, vsrc1)
}

// VLshlrevB32 emits v_lshlrev_b32 vdst, src0(shift), vsrc1.
func (a *Asm) VLshlrevB32(vdst int, src0 uint32, vsrc1 int) {
	a.vop2("v_lshlrev_b32", 18, vdst, src0, vsrc1)
}

// VAndB32 emits v_and_b32.
func (a *Asm) VAndB32(vdst int, src0 uint32, vsrc1 int) { a.vop2("v_and_b32", 19, vdst, src0, vsrc1) }

// VOrB32 emits v_or_b32.
func (a *Asm) VOrB32(vdst int, src0 uint32, vsrc1 int) { a.vop2("v_or_b32", 20, vdst, src0, vsrc1) }

// VXorB32 emits v_xor_b32.
func (a *Asm) VXorB32(vdst int, src0 uint32, vsrc1 int) { a.vop2("v_xor_b32", 21, vdst, src0, vsrc1) }

// VAddU32 emits v_add_u32 vdst, vcc, src0, vsrc1.
func (a *Asm) VAddU32(vdst int, src0 uint32, vsrc1 int) { a.vop2("v_add_u32", 25, vdst, src0, vsrc1) }

// VAddcU32 emits v_addc_u32 vdst, vcc, src0, vsrc1, vcc.
func (a *Asm) VAddcU32(vdst int, src0 uint32, vsrc1 int) { a.vop2("v_addc_u32", 28, vdst, src0, vsrc1) }

// VCmpGtU32 emits v_cmp_gt_u32 vcc, src0, vsrc1 (src0 > vsrc1).
func (a *Asm) VCmpGtU32(src0 uint32, vsrc1 int) {
	a.w32("v_cmp_gt_u32", 0x7C000000|0xCC<<17|uint32(vsrc1)<<9|src0)
}

// ---- FLAT / DS
func (a *Asm) flat(name string, op uint32, vdst, vdata, vaddr, off int) {
	a.w32(name, 0xDC000000|op<<18|uint32(off)&0x1fff, uint32(vdst)<<24|uint32(vdata)<<8|uint32(vaddr))
}

// Flat emits any FLAT-format instruction by opcode (loads 16..23, stores 24..31).
func (a *Asm) Flat(name string, op int, vdst, vdata, vaddr, off int) {
	a.flat(name, uint32(op), vdst, vdata, vaddr, off)
}

// FlatLoadDword emits flat_load_dword v[vdst], v[vaddr:vaddr+1] offset:off.
func (a *Asm) FlatLoadDword(vdst, vaddr, off int) { a.flat("flat_load_dword", 20, vdst, 0, vaddr, off) }

// FlatStoreDword emits flat_store_dword v[vaddr:vaddr+1], v[vdata] offset:off.
func (a *Asm) FlatStoreDword(vaddr, vdata, off int) {
	a.flat("flat_store_dword", 28, 0, vdata, vaddr, off)
}

func (a *Asm) ds(name string, op uint32, vdst, vdata, vaddr, off int) {
	a.w32(name, 0xD8000000|op<<17|uint32(off)&0xffff, uint32(vdst)<<24|uint32(vdata)<<8|uint32(vaddr))
}

// DS emits any DS-format instruction: op, vdst, data0, data1, addr and the two 8-bit offsets (for the
// one-address forms offset1:offset0 is the 16-bit offset).
func (a *Asm) DS(name string, op int, vdst, data0, data1, vaddr, off0, off1 int) {
	a.w32(name, 0xD8000000|uint32(op)<<17|uint32(off1&0xff)<<8|uint32(off0&0xff),
		uint32(vdst)<<24|uint32(data1)<<16|uint32(data0)<<8|uint32(vaddr))
}

// SMem emits any SMEM load by opcode (0..4: dword, x2, x4, x8, x16) with an immediate or an SGPR offset.
func (a *Asm) SMem(name string, op int, sdata, sbase int, imm bool, off uint32) {
	w := 0xC0000000 | uint32(op)<<18 | uint32(sdata)<<6 | uint32(sbase>>1)
	if imm {
		w |= 1 << 17
	}
	a.w32(name, w, off&0xfffff)
}

// SMovB32 emits s_mov_b32 sdst, ssrc0.
func (a *Asm) SMovB32(sdst int, s0 uint32) { a.sop1("s_mov_b32", 0, sdst, s0) }

// DsWriteB32 emits ds_write_b32 v[vaddr], v[vdata] offset:off.
func (a *Asm) DsWriteB32(vaddr, vdata, off int) { a.ds("ds_write_b32", 13, 0, vdata, vaddr, off) }

// DsReadB32 emits ds_read_b32 v[vdst], v[vaddr] offset:off.
func (a *Asm) DsReadB32(vdst, vaddr, off int) { a.ds("ds_read_b32", 54, vdst, 0, vaddr, off) }

// Finish resolves branch targets and returns the code.
func (a *Asm) Finish() []byte {
	for _, f := range a.fix {
		t, ok := a.labels[f.label]
		if !ok {
			panic("c14asm: undefined label " + f.label)
		}
		d := (t - (f.at + 4)) / 4
		if d < -32768 || d > 32767 {
			panic("c14asm: branch out of range")
		}
		w := binary.LittleEndian.Uint32(a.Buf[f.at:])
		binary.LittleEndian.PutUint32(a.Buf[f.at:], w&0xffff0000|uint32(uint16(int16(d))))
	}
	return a.Buf
}

// SelfCheck decodes the code with the real disassembler and compares each
// mnemonic and instruction boundary with what was meant.  Returns a listing.
func (a *Asm) SelfCheck() ([]string, error) {
	d := insts.NewDisassembler()
	pr := insts.NewInstPrinter(nil)
	var out []string
	for i, off := range a.Offs {
		buf := a.Buf[off:]
		if len(buf) < 8 {
			buf = append(append([]byte{}, buf...), 0, 0, 0, 0)
		}
		in, err := d.Decode(buf)
		if err != nil {
			return out, fmt.Errorf("offset %#x (%s): %v", off, a.Names[i], err)
		}
		end := len(a.Buf)
		if i+1 < len(a.Offs) {
			end = a.Offs[i+1]
		}
		txt := pr.Print(in)
		out = append(out, fmt.Sprintf("%04x: %s", off, txt))
		if in.ByteSize != end-off {
			return out, fmt.Errorf("offset %#x (%s): decoder size %d, encoded %d", off, a.Names[i], in.ByteSize, end-off)
		}
		if !strings.HasPrefix(in.InstName, a.Names[i]) {
			return out, fmt.Errorf("offset %#x: meant %s, decoder says %s", off, a.Names[i], in.InstName)
		}
	}
	return out, nil
}
