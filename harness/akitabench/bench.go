// Package akitabench is a cycle-scripted harness for akita components: a mini
// serial engine owned by the harness, a fake connection plugged into every port
// of the component under test, and a port-hook recorder that emits one ndjson
// line per port event. The component's own Tick/wake/sleep protocol stays real:
// Tick only runs when a tick event is due.
package akitabench

import (
	"container/heap"
	"encoding/json"
	"fmt"
	"io"
	"sort"

	"github.com/sarchlab/akita/v4/sim"
)

type evq []sim.Event

func (q evq) Len() int { return len(q) }
func (q evq) Less(i, j int) bool {
	if q[i].Time() != q[j].Time() {
		return q[i].Time() < q[j].Time()
	}
	// secondary events after primary ones at the same time, as in akita
	return !q[i].IsSecondary() && q[j].IsSecondary()
}
func (q evq) Swap(i, j int)       { q[i], q[j] = q[j], q[i] }
func (q *evq) Push(x interface{}) { *q = append(*q, x.(sim.Event)) }
func (q *evq) Pop() interface{} {
	o := *q
	n := len(o)
	x := o[n-1]
	*q = o[:n-1]
	return x
}

// Engine is a minimal serial event engine under harness control.
type Engine struct {
	sim.HookableBase
	now    sim.VTimeInSec
	q      evq
	Events int // number of events handled so far
}

// NewEngine creates an engine at time 0.
func NewEngine() *Engine { return &Engine{} }

// Schedule registers an event.
func (e *Engine) Schedule(evt sim.Event) {
	if evt.Time() < e.now {
		panic(fmt.Sprintf("akitabench: event scheduled in the past (%v < %v)", evt.Time(), e.now))
	}
	heap.Push(&e.q, evt)
}

// CurrentTime returns the scripted clock.
func (e *Engine) CurrentTime() sim.VTimeInSec { return e.now }

// Run drains every pending event (used by components that call it; the
// harness normally uses RunUntil).
func (e *Engine) Run() error {
	for e.q.Len() > 0 {
		evt := heap.Pop(&e.q).(sim.Event)
		e.now = evt.Time()
		e.Events++
		evt.Handler().Handle(evt)
	}
	return nil
}

// Pause is a no-op (single goroutine).
func (e *Engine) Pause() {}

// Continue is a no-op.
func (e *Engine) Continue() {}

// RunUntil handles every event with time <= t and sets the clock to t.
func (e *Engine) RunUntil(t sim.VTimeInSec) int {
	n := 0
	for e.q.Len() > 0 && e.q[0].Time() <= t+1e-15 {
		evt := heap.Pop(&e.q).(sim.Event)
		e.now = evt.Time()
		e.Events++
		n++
		evt.Handler().Handle(evt)
	}
	e.now = t
	return n
}

// SetNow moves the clock (never backwards).
func (e *Engine) SetNow(t sim.VTimeInSec) {
	if t > e.now {
		e.now = t
	}
}

// Pending is the number of scheduled events.
func (e *Engine) Pending() int { return e.q.Len() }

// NextTime returns the time of the earliest pending event (ok=false if none).
func (e *Engine) NextTime() (sim.VTimeInSec, bool) {
	if e.q.Len() == 0 {
		return 0, false
	}
	return e.q[0].Time(), true
}

// Conn is a connection that never moves messages by itself: the harness
// delivers to and drains ports explicitly.
type Conn struct {
	sim.HookableBase
	name string
}

// NewConn creates a fake connection.
func NewConn(name string) *Conn { return &Conn{name: name} }

// Name returns the connection name.
func (c *Conn) Name() string { return c.name }

// PlugIn attaches the connection to a port.
func (c *Conn) PlugIn(p sim.Port) { p.SetConnection(c) }

// Unplug does nothing.
func (c *Conn) Unplug(p sim.Port) {}

// NotifyAvailable does nothing: the script decides when to retry deliveries.
func (c *Conn) NotifyAvailable(p sim.Port) {}

// NotifySend does nothing: the script decides when to drain.
func (c *Conn) NotifySend() {}

// HookFn adapts a function to sim.Hook.
type HookFn func(ctx sim.HookCtx)

// Func implements sim.Hook.
func (f HookFn) Func(ctx sim.HookCtx) { f(ctx) }

// Rec is one trace record.
type Rec map[string]interface{}

// Recorder writes ndjson trace records with a global sequence number.
type Recorder struct {
	w    io.Writer
	enc  *json.Encoder
	Seq  int
	ids  map[string]map[string]int
	base map[string]int
}

// NewRecorder creates a recorder writing to w.
func NewRecorder(w io.Writer) *Recorder {
	return &Recorder{w: w, enc: json.NewEncoder(w), ids: map[string]map[string]int{}, base: map[string]int{}}
}

// Emit writes one record (adds "e" and "seq").
func (r *Recorder) Emit(e string, fields Rec) {
	r.Seq++
	out := Rec{"e": e, "seq": r.Seq}
	for k, v := range fields {
		out[k] = v
	}
	if err := r.enc.Encode(out); err != nil {
		panic(err)
	}
}

// SetBase sets the first small integer handed out in an id space.
func (r *Recorder) SetBase(space string, base int) { r.base[space] = base }

// ID maps a message id to a small integer in first-seen order within a space.
func (r *Recorder) ID(space, id string) int {
	m, ok := r.ids[space]
	if !ok {
		m = map[string]int{}
		r.ids[space] = m
	}
	if v, ok := m[id]; ok {
		return v
	}
	b, ok := r.base[space]
	if !ok {
		b = 1
	}
	v := b + len(m)
	m[id] = v
	return v
}

// Known tells whether the id was already seen in the space.
func (r *Recorder) Known(space, id string) (int, bool) {
	v, ok := r.ids[space][id]
	return v, ok
}

// ResetIDs forgets every id (used between concatenated traces).
func (r *Recorder) ResetIDs() { r.ids = map[string]map[string]int{} }

// Cycle converts a cycle count at 1 GHz to simulated time.
func Cycle(c int) sim.VTimeInSec { return sim.VTimeInSec(float64(c) * 1e-9) }

// Bytes converts a byte slice to a JSON-friendly int list.
func Bytes(b []byte) []int {
	out := make([]int, len(b))
	for i, x := range b {
		out[i] = int(x)
	}
	return out
}

// Bools converts a bool slice to 0/1 ints.
func Bools(b []bool) []int {
	out := make([]int, len(b))
	for i, x := range b {
		if x {
			out[i] = 1
		}
	}
	return out
}

// Limbs32 splits a 32-bit word into <<hi16, lo16>>.
func Limbs32(v uint32) []int { return []int{int(v >> 16), int(v & 0xffff)} }

// Limbs64 splits a 64-bit word into four 16-bit limbs, most significant first.
func Limbs64(v uint64) []int {
	return []int{int(v >> 48 & 0xffff), int(v >> 32 & 0xffff), int(v >> 16 & 0xffff), int(v & 0xffff)}
}

// SortedKeys returns the sorted keys of a string-keyed map.
func SortedKeys[V any](m map[string]V) []string {
	ks := make([]string, 0, len(m))
	for k := range m {
		ks = append(ks, k)
	}
	sort.Strings(ks)
	return ks
}
