package c10lib

import (
	"bufio"
	"encoding/json"
	"flag"
	"fmt"
	"math/rand"
	"os"
	"sort"

	"github.com/sarchlab/akita/v4/mem/vm"
	"github.com/sarchlab/akita/v4/sim"
	"github.com/sarchlab/mgpusim/v4/amd/driver"
	"github.com/sarchlab/mgpusim/v4/amd/protocol"

	ab "verifharness/akitabench"
)

// ------------------------------------------------------------ observation

// dump reads the complete page table back through Find.
func (w *world) dump() []ab.Rec {
	ks := make([]key, 0, len(w.pt.keys))
	for k := range w.pt.keys {
		ks = append(ks, k)
	}
	idx := func(p vm.PID) int {
		if i, ok := w.pidIdx[p]; ok {
			return i
		}
		return 90 + int(p%7) // a pid no context of this scenario owns
	}
	sort.Slice(ks, func(i, j int) bool {
		if idx(ks[i].pid) != idx(ks[j].pid) {
			return idx(ks[i].pid) < idx(ks[j].pid)
		}
		return ks[i].vaddr < ks[j].vaddr
	})
	out := []ab.Rec{}
	for _, k := range ks {
		pg, found := w.pt.Find(k.pid, k.vaddr)
		if !found {
			continue
		}
		if len(out) >= maxDump {
			// far more pages mapped than any history keeps live (a huge buffer was not unmapped): the
			// truncated table cannot match the specification's, which is the verdict wanted
			break
		}
		ok := pg.Valid && pg.PageSize == w.psz && pg.PID == k.pid && pg.VAddr == k.vaddr
		out = append(out, ab.Rec{"pid": idx(k.pid), "v": pg.VAddr / w.psz, "voff": pg.VAddr % w.psz,
			"ppn": pg.PAddr / w.psz, "poff": pg.PAddr % w.psz, "dev": pg.DeviceID, "mig": b2i(pg.IsMigrating), "ok": b2i(ok)})
	}
	return out
}

func (w *world) find(proc int, vaddr uint64) (vm.Page, bool) {
	real, ok := w.realOf[proc]
	if !ok {
		return vm.Page{}, false
	}
	return w.pt.Find(real, vaddr)
}

func (w *world) devOfPage(ppn uint64) int {
	for i, d := range w.devs {
		if d.Type != "uni" && ppn >= d.Base && ppn < d.Base+d.N {
			return i
		}
	}
	return -1
}

func (w *world) targets(dev int) []int {
	if w.devs[dev].Type == "uni" {
		return w.devs[dev].Mem
	}
	return []int{dev}
}

// liveOn mirrors LiveOn of MemAlloc.tla: mapped pages of live buffers on device t plus reserved migration sources.
func (w *world) liveOn(t int) int {
	n := 0
	for _, b := range w.bufs {
		if !b.live {
			continue
		}
		for i := 0; i < b.pages; i++ {
			if pg, ok := w.find(w.sc.Ctxs[b.ctx], b.ptr+uint64(i)*w.psz); ok && w.devOfPage(pg.PAddr/w.psz) == t {
				n++
			}
		}
	}
	for _, p := range w.held {
		if w.devOfPage(p) == t {
			n++
		}
	}
	return n
}

func (w *world) withinCap(ts []int, n int) bool {
	for _, t := range ts {
		if uint64(w.liveOn(t)+n) > w.devs[t].N {
			return false
		}
	}
	return true
}

// freeRun tells whether device t has an aligned run of 2^k >= n pages none of which is mapped or reserved as a
// migration source (a filter for the generator, not an oracle).
func (w *world) freeRun(t, n int) bool {
	size := uint64(1)
	for size < uint64(n) {
		size *= 2
	}
	used := map[uint64]bool{}
	for _, p := range w.dump() {
		used[p["ppn"].(uint64)] = true
	}
	for _, h := range w.held {
		used[h] = true
	}
	d := w.devs[t]
	for b := d.Base; b+size <= d.Base+d.N; b += size {
		free := true
		for p := b; p < b+size; p++ {
			if used[p] {
				free = false
				break
			}
		}
		if free {
			return true
		}
	}
	return false
}

// fitsPool mirrors FitsPool of MemAlloc.tla: Allocate on a unified device may take each page from any member.
func (w *world) fitsPool(ts []int, n int) bool {
	live, capacity := 0, uint64(0)
	for _, t := range ts {
		live += w.liveOn(t)
		capacity += w.devs[t].N
	}
	return uint64(live+n) <= capacity
}

func (w *world) emit(e string, f ab.Rec) {
	// A table with far more entries than any history keeps live (a huge buffer that was not unmapped) is not
	// written out: the event carries its size in "ovf" and the specification refuses it outright.
	if pt, ok := f["pt"].([]ab.Rec); ok {
		f["ovf"] = 0
		if len(pt) > maxLogged {
			f["ovf"] = len(pt)
			f["pt"] = pt[:32]
		}
	}
	w.stats["events"]++
	w.stats["ev_"+e]++
	w.rec.Emit(e, f)
}

// call runs f, turning a panic of the real code into a Panic event.
func (w *world) call(proc int, desc ab.Rec, legit bool, f func()) (ok bool) {
	defer func() {
		if r := recover(); r != nil {
			if h, isH := r.(hErr); isH {
				panic("harness failure: " + string(h))
			}
			ok = false
			desc["msg"] = fmt.Sprint(r)
			desc["legit"] = b2i(legit)
			w.emit("Panic", desc)
			if !legit {
				w.dead = true
			}
		}
	}()
	w.curProc = proc
	f()
	w.curProc = 0
	return true
}

// aliased tells whether two entries of the dumped table (or an entry and a reserved migration source) share a
// physical page.
func (w *world) aliased(pt []ab.Rec) bool {
	seen := map[interface{}]bool{}
	for _, h := range w.held {
		seen[h] = true
	}
	for _, p := range pt {
		if seen[p["ppn"]] {
			return true
		}
		seen[p["ppn"]] = true
	}
	return false
}

func bytesFor(n, rem int, psz uint64) uint64 {
	last := psz
	switch rem {
	case 1:
		last = 1
	case 2:
		last = psz / 2
	}
	return uint64(n-1)*psz + last
}

// ------------------------------------------------------------------ calls

func (w *world) alloc(ctx, dev, n, rem int, unified bool) bool {
	proc := w.sc.Ctxs[ctx]
	bytes := bytesFor(n, rem, w.psz)
	if unified {
		dev = 1
	}
	legit := !w.fitsPool(w.targets(dev), n)
	var ptr uint64
	ok := w.call(proc, ab.Rec{"op": "Alloc", "pid": proc, "dev": dev, "bytes": bytes}, legit, func() {
		if unified {
			ptr = uint64(w.d.AllocateUnifiedMemory(w.ctxs[ctx], bytes))
		} else {
			w.d.SelectGPU(w.ctxs[ctx], dev)
			ptr = uint64(w.d.AllocateMemory(w.ctxs[ctx], bytes))
		}
	})
	if !ok {
		return false
	}
	w.bufs = append(w.bufs, buf{ctx: ctx, ptr: ptr, pages: n, live: true, bytes: bytes})
	pt := w.dump()
	w.emit("Alloc", ab.Rec{"pid": proc, "ctx": ctx, "dev": dev, "bytes": bytes, "uni": b2i(unified),
		"v": ptr / w.psz, "voff": ptr % w.psz, "pt": pt})
	// an allocation beyond capacity that succeeds, or one that returns a page another mapping or a pending
	// migration already uses, ends the history: the specification decides whether that is explicable
	if legit || w.aliased(pt) {
		w.dead = true
	}
	return true
}

// burn allocates one huge buffer and frees it at once: virtual addresses are never reused, so this moves the
// process's virtual cursor across a power-of-two boundary (2^31, 2^32, 2^33 bytes) while few pages stay live.
// The pages of the huge buffer are inspected here (they are too many to log): all mapped, pairwise distinct,
// none of them already mapped before the call, each inside the target device and recorded for it, well-formed;
// after the Free none may be left.  The specification accepts the event only if all of that holds.
func (w *world) burn(ctx, dev, n int) bool {
	proc := w.sc.Ctxs[ctx]
	bytes := uint64(n) * w.psz
	before := map[uint64]bool{}
	for _, p := range w.dump() {
		before[p["ppn"].(uint64)] = true
	}
	for _, h := range w.held {
		before[h] = true
	}
	legit := !w.fitsPool(w.targets(dev), n)
	var ptr uint64
	if !w.call(proc, ab.Rec{"op": "Burn", "pid": proc, "dev": dev, "n": n}, legit, func() {
		w.d.SelectGPU(w.ctxs[ctx], dev)
		ptr = uint64(w.d.AllocateMemory(w.ctxs[ctx], bytes))
	}) {
		return false
	}
	mapped, distinct, indev, fresh, wf := 0, 1, 1, 1, 1
	seen := make(map[uint64]bool, n)
	onTarget := map[int]bool{}
	for _, t := range w.targets(dev) {
		onTarget[t] = true
	}
	for i := 0; i < n; i++ {
		pg, ok := w.find(proc, ptr+uint64(i)*w.psz)
		if !ok {
			continue
		}
		mapped++
		ppn := pg.PAddr / w.psz
		if seen[ppn] {
			distinct = 0
		}
		seen[ppn] = true
		if before[ppn] {
			fresh = 0
		}
		if d := w.devOfPage(ppn); !onTarget[d] || int(pg.DeviceID) != d {
			indev = 0
		}
		if pg.PAddr%w.psz != 0 || !pg.Valid || pg.PageSize != w.psz || pg.VAddr != ptr+uint64(i)*w.psz || pg.IsMigrating {
			wf = 0
		}
	}
	w.bufs = append(w.bufs, buf{ctx: ctx, ptr: ptr, pages: n, live: false, bytes: bytes})
	if !w.call(proc, ab.Rec{"op": "BurnFree", "pid": proc, "dev": dev, "n": n}, false, func() {
		if err := w.d.FreeMemory(w.ctxs[ctx], driver.Ptr(ptr)); err != nil {
			panic(err)
		}
	}) {
		return false
	}
	left := 0
	real := w.realOf[proc]
	for i := 0; i < n; i++ {
		va := ptr + uint64(i)*w.psz
		if _, ok := w.find(proc, va); ok {
			left++
		} else {
			delete(w.pt.keys, key{real, va}) // unmapped again: no need to look it up after every later call
		}
	}
	w.emit("Burn", ab.Rec{"pid": proc, "ctx": ctx, "dev": dev, "n": n, "v": ptr / w.psz, "voff": ptr % w.psz,
		"mapped": mapped, "distinct": distinct, "indev": indev, "fresh": fresh, "wf": wf, "left": left, "pt": w.dump()})
	if legit || left > 0 {
		w.dead = true
	}
	return true
}

func (w *world) free(ctx, b int) bool {
	proc := w.sc.Ctxs[ctx]
	bf := &w.bufs[b-1]
	ok := w.call(proc, ab.Rec{"op": "Free", "pid": proc, "b": b}, false, func() {
		if err := w.d.FreeMemory(w.ctxs[ctx], driver.Ptr(bf.ptr)); err != nil {
			panic(err)
		}
	})
	if !ok {
		return false
	}
	bf.live = false
	w.emit("Free", ab.Rec{"pid": proc, "ctx": ctx, "b": b, "v": bf.ptr / w.psz, "pt": w.dump()})
	return true
}

func (w *world) remap(ctx, b, off, n, rem, dev int) bool {
	proc := w.sc.Ctxs[ctx]
	bf := &w.bufs[b-1]
	addr := bf.ptr + uint64(off)*w.psz
	bytes := bytesFor(n, rem, w.psz)
	// buddy allocator: a multi-page request fails (before changing anything) when no block is available, which
	// fragmentation can cause within capacity; the history goes on and the specification judges the panic
	cont := buddyMode && n >= 2
	ok := w.call(proc, ab.Rec{"op": "Remap", "pid": proc, "dev": dev, "bytes": bytes}, cont, func() {
		w.d.Remap(w.ctxs[ctx], addr, bytes, dev)
	})
	if !ok {
		return false
	}
	pt := w.dump()
	w.emit("Remap", ab.Rec{"pid": proc, "ctx": ctx, "v": addr / w.psz, "voff": addr % w.psz, "bytes": bytes, "dev": dev, "pt": pt})
	if w.aliased(pt) {
		w.dead = true
	}
	return true
}

func (w *world) dist(ctx, b int, gpus []int) bool {
	proc := w.sc.Ctxs[ctx]
	bf := &w.bufs[b-1]
	var ret []uint64
	ok := w.call(proc, ab.Rec{"op": "Dist", "pid": proc, "gpus": gpus, "bytes": bf.bytes}, false, func() {
		ret = w.d.Distribute(w.ctxs[ctx], driver.Ptr(bf.ptr), bf.bytes, gpus)
	})
	if !ok {
		return false
	}
	rp, rr := []uint64{}, []uint64{}
	for _, r := range ret {
		rp = append(rp, r/w.psz)
		rr = append(rr, r%w.psz)
	}
	pt := w.dump()
	w.emit("Dist", ab.Rec{"pid": proc, "ctx": ctx, "v": bf.ptr / w.psz, "voff": bf.ptr % w.psz, "bytes": bf.bytes, "gpus": gpus,
		"ret": rp, "retrem": rr, "pt": pt})
	if w.aliased(pt) {
		w.dead = true
	}
	return true
}

// migrate plays the MMU and the command processors of the page migration protocol until the driver has
// prepared the page (preparePageForMigration), records that, and then completes the protocol.
func (w *world) migrate(b, off, gpu int) bool {
	bf := &w.bufs[b-1]
	proc := w.sc.Ctxs[bf.ctx]
	vaddr := bf.ptr + uint64(off)*w.psz
	before, found := w.find(proc, vaddr)
	if !found {
		return false
	}
	host := w.devOfPage(before.PAddr / w.psz)
	if host < 1 {
		return false
	}
	env := w.cps[0]
	req := vm.NewPageMigrationReqToDriver(env.AsRemote(), w.mmuPort.AsRemote())
	req.ID = sim.GetIDGenerator().Generate()
	req.PID = w.realOf[proc]
	req.PageSize = w.psz
	req.CurrPageHostGPU = uint64(host)
	req.CurrAccessingGPUs = []uint64{uint64(host)}
	req.MigrationInfo = &vm.PageMigrationInfo{GPUReqToVAddrMap: map[uint64][]uint64{uint64(gpu): {vaddr}}}
	req.RespondToTop = true
	logged, done := false, false
	ok := w.call(proc, ab.Rec{"op": "Mig", "pid": proc, "gpu": gpu}, false, func() {
		if err := w.mmuPort.Deliver(req); err != nil {
			panic(hErr("MMU port refused the migration request"))
		}
		for i := 0; i < 400 && !done; i++ {
			w.d.Tick()
			if !logged {
				now, f := w.find(proc, vaddr)
				if !f || now != before {
					logged = true
					pt := w.dump()
					w.emit("Mig", ab.Rec{"pid": proc, "v": vaddr / w.psz, "voff": vaddr % w.psz, "gpu": gpu, "pt": pt})
					if w.aliased(pt) { // the target page is live: the history ends (w.held not yet extended: it lists sources)
						w.dead = true
					}
					w.held = append(w.held, before.PAddr/w.psz)
				}
			}
			for {
				m := w.gpuPort.RetrieveOutgoing()
				if m == nil {
					break
				}
				var cp sim.Port
				for _, p := range w.cps {
					if p.AsRemote() == m.Meta().Dst {
						cp = p
					}
				}
				if cp == nil {
					panic(hErr("message to an unknown command processor"))
				}
				var rsp sim.Msg
				switch m.(type) {
				case *protocol.RDMADrainCmdFromDriver:
					rsp = protocol.NewRDMADrainRspToDriver(cp, w.gpuPort)
				case *protocol.ShootDownCommand:
					rsp = protocol.NewShootdownCompleteRsp(cp, w.gpuPort)
				case *protocol.PageMigrationReqToCP:
					rsp = protocol.NewPageMigrationRspToDriver(cp, w.gpuPort)
				case *protocol.GPURestartReq:
					rsp = protocol.NewGPURestartRsp(cp, w.gpuPort)
				case *protocol.RDMARestartCmdFromDriver:
					r := protocol.NewRDMARestartRspToDriver(cp, w.gpuPort)
					r.ID = sim.GetIDGenerator().Generate()
					rsp = r
					w.restarts++
				default:
					panic(hErr(fmt.Sprintf("unexpected message %T from the driver", m)))
				}
				if err := w.gpuPort.Deliver(rsp); err != nil {
					panic(hErr("driver port full"))
				}
			}
			if m := w.mmuPort.RetrieveOutgoing(); m != nil {
				w.mmuDone = true
			}
			if w.mmuDone && w.restarts >= len(w.cps) && w.gpuPort.PeekIncoming() == nil {
				// one more tick so that the last restart acknowledgement is consumed
				w.d.Tick()
				done = true
			}
		}
	})
	w.mmuDone, w.restarts = false, 0
	if ok && (!logged || !done) {
		w.emit("Stuck", ab.Rec{"op": "Mig", "logged": b2i(logged), "done": b2i(done)})
		w.dead = true
		return false
	}
	return ok
}

// pump ticks the driver and plays the command processors for memory copies, flushes and kernel launches
// until the queue is empty.
func (w *world) pump(q *driver.CommandQueue) {
	for i := 0; i < 2000; i++ {
		if q.NumCommand() == 0 && w.gpuPort.PeekOutgoing() == nil && w.gpuPort.PeekIncoming() == nil {
			return
		}
		w.d.Tick()
		for {
			m := w.gpuPort.RetrieveOutgoing()
			if m == nil {
				break
			}
			var cp sim.Port
			for _, p := range w.cps {
				if p.AsRemote() == m.Meta().Dst {
					cp = p
				}
			}
			if cp == nil {
				panic(hErr("message to an unknown command processor"))
			}
			var rsp sim.Msg
			switch req := m.(type) {
			case *protocol.MemCopyH2DReq, *protocol.MemCopyD2HReq, *protocol.FlushReq:
				rsp = sim.GeneralRspBuilder{}.WithSrc(cp.AsRemote()).WithDst(w.gpuPort.AsRemote()).WithOriginalReq(m).Build()
			case *protocol.LaunchKernelReq:
				rsp = protocol.NewLaunchKernelRsp(cp.AsRemote(), w.gpuPort.AsRemote(), req.ID)
			default:
				panic(hErr(fmt.Sprintf("unexpected message %T from the driver", m)))
			}
			if err := w.gpuPort.Deliver(rsp); err != nil {
				panic(hErr("driver port full"))
			}
		}
	}
	panic(hErr("command queue did not drain"))
}

// launch enqueues the driver's own device-to-device copy kernel (the only kernel reachable without a code
// object) and runs the queue: the driver allocates the code object, kernel arguments and dispatch packet on
// the context's GPU, copies them and launches; afterwards every buffer of the context is L2-dirty.
func (w *world) launch(ctx, gpu int) bool {
	proc := w.sc.Ctxs[ctx]
	var ptr uint64
	for _, b := range w.bufs {
		if b.live && w.sc.Ctxs[b.ctx] == proc {
			ptr = b.ptr
		}
	}
	w.written = nil
	var q *driver.CommandQueue
	ok := w.call(proc, ab.Rec{"op": "Launch", "pid": proc, "dev": gpu, "bytes": 4 * w.psz}, false, func() {
		w.d.SelectGPU(w.ctxs[ctx], gpu)
		q = w.d.CreateCommandQueue(w.ctxs[ctx])
		w.d.EnqueueMemCopyD2D(q, driver.Ptr(ptr), driver.Ptr(ptr), 4)
	})
	if !ok {
		return false
	}
	// the internal allocations are ordinary buffers of the context: log them as one allocation
	if len(w.written) > 0 {
		first := w.written[0].vaddr
		n := len(w.written)
		w.bufs = append(w.bufs, buf{ctx: ctx, ptr: first, pages: n, live: true, bytes: uint64(n) * w.psz, internal: true})
		pt := w.dump()
		w.emit("Alloc", ab.Rec{"pid": proc, "ctx": ctx, "dev": gpu, "bytes": uint64(n) * w.psz, "uni": 0,
			"v": first / w.psz, "voff": first % w.psz, "pt": pt, "internal": 1})
		if w.aliased(pt) {
			w.dead = true
			return false
		}
	}
	ok = w.call(proc, ab.Rec{"op": "LaunchRun", "pid": proc, "ctx": ctx}, false, func() { w.pump(q) })
	if !ok {
		return false
	}
	w.emit("Launch", ab.Rec{"pid": proc, "ctx": ctx, "pt": w.dump()})
	return true
}

// copyOut copies 4 bytes of buffer b to the host through the command queue (flushes when the buffer is dirty,
// which is when the driver sweeps the context's freed buffers).
func (w *world) copyOut(ctx, b int) bool {
	proc := w.sc.Ctxs[ctx]
	bf := &w.bufs[b-1]
	dst := make([]byte, 4)
	ok := w.call(proc, ab.Rec{"op": "CopyOut", "pid": proc, "ctx": ctx, "b": b}, false, func() {
		q := w.d.CreateCommandQueue(w.ctxs[ctx])
		w.d.EnqueueMemCopyD2H(q, dst, driver.Ptr(bf.ptr))
		w.pump(q)
	})
	if !ok {
		return false
	}
	w.emit("CopyOut", ab.Rec{"pid": proc, "ctx": ctx, "b": b, "pt": w.dump()})
	return true
}

// probe allocates single pages on an actual device until the allocator reports out of memory.
// Returns the buffers obtained.
func (w *world) probe(ctx, dev int, freeAfter bool) {
	var got []int
	limit := int(w.devs[dev].N) + 2
	for i := 0; i < limit && !w.dead; i++ {
		if !w.alloc(ctx, dev, 1, 0, false) {
			break
		}
		got = append(got, len(w.bufs))
	}
	if freeAfter {
		for _, b := range got {
			if w.dead {
				break
			}
			w.free(ctx, b)
		}
	}
}

func (w *world) do(op Op) {
	w.stats["ops"]++
	w.stats["op_"+op.A]++
	switch op.A {
	case "Alloc":
		w.alloc(op.Ctx, op.Dev, op.N, op.Rem, false)
	case "AllocU":
		w.alloc(op.Ctx, 1, op.N, op.Rem, true)
	case "Free":
		w.free(op.Ctx, op.B)
	case "Remap":
		w.remap(op.Ctx, op.B, op.Off, op.N, op.Rem, op.Dev)
	case "Dist":
		w.dist(op.Ctx, op.B, op.Gpus)
	case "Mig":
		w.migrate(op.B, op.Off, op.Dev)
	case "Probe":
		w.probe(op.Ctx, op.Dev, true)
	case "Burn":
		w.burn(op.Ctx, op.Dev, op.N)
	case "Launch":
		w.launch(op.Ctx, op.Dev)
	case "CopyOut":
		w.copyOut(op.Ctx, op.B)
	default:
		panic("unknown op " + op.A)
	}
}

// valid tells whether op is a valid call in the current state (arguments name live, mapped pages of the
// caller's process) that stays within capacity as defined by WithinCap in MemAlloc.tla.
func (w *world) valid(op Op) bool {
	if op.Ctx < 0 || op.Ctx >= len(w.ctxs) {
		return false
	}
	proc := w.sc.Ctxs[op.Ctx]
	bufOK := func() bool {
		// buffers the driver allocated for itself (kernel launch) are not the application's to name
		return op.B >= 1 && op.B <= len(w.bufs) && w.bufs[op.B-1].live && !w.bufs[op.B-1].internal &&
			w.sc.Ctxs[w.bufs[op.B-1].ctx] == proc
	}
	mapped := func(off, n int) bool {
		bf := w.bufs[op.B-1]
		if off < 0 || n < 1 || off+n > bf.pages {
			return false
		}
		for i := off; i < off+n; i++ {
			if _, ok := w.find(proc, bf.ptr+uint64(i)*w.psz); !ok {
				return false
			}
		}
		return true
	}
	if buddyMode {
		// Remap and every chunk of Distribute obtain one buddy block (2^k pages, aligned).  Whether a block is
		// available is decided by the specification (MemAllocTrace, blk); here only calls that obviously cannot be
		// served are filtered out, so that histories are not wasted: an aligned run of 2^k pages without a mapped
		// or reserved page must exist on every device the call may draw from.
		if op.A == "Remap" && op.N >= 2 && op.Dev >= 0 && op.Dev < len(w.devs) {
			for _, t := range w.targets(op.Dev) {
				if !w.freeRun(t, op.N) {
					return false
				}
			}
		}
		if op.A == "Dist" && op.B >= 1 && op.B <= len(w.bufs) && len(op.Gpus) > 1 && w.bufs[op.B-1].pages > 1 {
			// equal chunks only: then the chunks are visible in the resulting placement (runs of pages per GPU)
			pages, g := w.bufs[op.B-1].pages, len(op.Gpus)
			if pages%g != 0 {
				return false
			}
			for _, t := range op.Gpus {
				if t < 1 || t >= len(w.devs) || !w.freeRun(t, pages/g) {
					return false
				}
			}
		}
	}
	switch op.A {
	case "Alloc":
		return op.Dev >= 0 && op.Dev < len(w.devs) && op.N >= 1 && w.fitsPool(w.targets(op.Dev), op.N)
	case "AllocU":
		return op.N >= 1 && w.withinCap([]int{1}, op.N)
	case "Free":
		return bufOK()
	case "Remap":
		return bufOK() && op.Dev >= 0 && op.Dev < len(w.devs) && mapped(op.Off, op.N) && w.withinCap(w.targets(op.Dev), op.N)
	case "Dist":
		if !bufOK() || len(op.Gpus) == 0 || !mapped(0, w.bufs[op.B-1].pages) {
			return false
		}
		seen := map[int]bool{}
		for _, g := range op.Gpus {
			if g < 1 || g >= len(w.devs) || w.devs[g].Type != "gpu" || seen[g] {
				return false
			}
			seen[g] = true
		}
		// no GPU receives more than pages/G + pages%G pages (DistMax in MemAlloc.tla)
		pages, g := w.bufs[op.B-1].pages, len(op.Gpus)
		return g == 1 || w.withinCap(op.Gpus, pages/g+pages%g)
	case "Mig":
		if op.B < 1 || op.B > len(w.bufs) || !w.bufs[op.B-1].live || w.bufs[op.B-1].internal {
			return false
		}
		bf := w.bufs[op.B-1]
		if op.Off < 0 || op.Off >= bf.pages || op.Dev < 1 || op.Dev >= len(w.devs) || w.devs[op.Dev].Type != "gpu" {
			return false
		}
		pg, ok := w.find(w.sc.Ctxs[bf.ctx], bf.ptr+uint64(op.Off)*w.psz)
		if !ok || pg.IsMigrating {
			return false
		}
		host := w.devOfPage(pg.PAddr / w.psz)
		return host >= 1 && host != op.Dev && w.withinCap([]int{op.Dev}, 1)
	case "Probe":
		return op.Dev >= 1 && op.Dev < len(w.devs) && w.devs[op.Dev].Type == "gpu"
	case "Burn":
		return op.Dev >= 0 && op.Dev < len(w.devs) && w.devs[op.Dev].Type != "uni" && op.N >= 1 &&
			w.fitsPool([]int{op.Dev}, op.N)
	case "Launch":
		// code object + kernel arguments + packet: one page each at every supported page size; ask for one more
		return op.Dev >= 1 && op.Dev < len(w.devs) && w.devs[op.Dev].Type == "gpu" && w.withinCap([]int{op.Dev}, 4)
	case "CopyOut":
		// the first page of the buffer must be mapped and lie in a GPU (the copy is sent to that GPU)
		if !bufOK() {
			return false
		}
		pg, ok := w.find(proc, w.bufs[op.B-1].ptr)
		return ok && w.devOfPage(pg.PAddr/w.psz) >= 1
	}
	return false
}

// runScenario executes a scripted history; calls that are not valid in the real state are skipped.
func runScenario(rec *ab.Recorder, sc *Scenario, stats map[string]int) {
	w := newWorld(rec, sc, stats)
	for _, op := range sc.Ops {
		if w.dead {
			break
		}
		if !w.valid(op) {
			stats["ops_skipped"]++
			continue
		}
		w.do(op)
	}
	w.finish()
}

func (w *world) finish() {
	if w.sc.Drain && !w.dead {
		for d := range w.devs {
			if w.devs[d].Type == "gpu" && !w.dead {
				w.probe(0, d, false)
			}
		}
	}
	w.emit("End", ab.Rec{"dead": b2i(w.dead), "bufs": len(w.bufs)})
	w.stats["traces"]++
	if w.dead {
		w.stats["traces_crashed"]++
	}
}

// ------------------------------------------------------------- generator

const nProfiles = 8

// maxDump bounds the page-table dump of one event.
const maxDump = 4000

// maxLogged is the largest table an event carries (histories keep at most a few dozen pages live).
const maxLogged = 600

func randomScenario(rng *rand.Rand, i int) *Scenario {
	profile := profileOf(i)
	sc := &Scenario{PS: uint(12 + rng.Intn(5)), Drain: true, Tag: fmt.Sprintf("random/%d/profile%d", i, profile)}
	ng := 1 + rng.Intn(4)
	for g := 0; g < ng; g++ {
		sc.Gpus = append(sc.Gpus, 2+rng.Intn(7))
	}
	if buddyMode {
		// the buddy allocator is written for 4 KiB pages and halves blocks: power-of-two memories only
		sc.PS = 12
		for g := range sc.Gpus {
			sc.Gpus[g] = []int{2, 4, 8, 16}[rng.Intn(4)]
		}
		if profile == 6 { // multi-page blocks: room for several of them
			if ng < 2 {
				sc.Gpus = append(sc.Gpus, 8)
				ng = 2
			}
			for g := range sc.Gpus {
				sc.Gpus[g] = []int{8, 16}[rng.Intn(2)]
			}
		}
	}
	if ng >= 2 && rng.Intn(3) > 0 {
		all := []int{}
		for g := 1; g <= ng; g++ {
			all = append(all, g)
		}
		sc.Unified = append(sc.Unified, all)
		if ng >= 3 && rng.Intn(2) == 0 {
			sc.Unified = append(sc.Unified, []int{2, 3})
		}
	}
	switch profile {
	case 0, 3:
		sc.Ctxs = []int{1}
	case 7:
		// long churn on small devices: two processes, 16/24-page GPUs, buffers of 1-6 pages allocated, freed and
		// remapped (whole or in part, half of the time onto the device that already holds them)
		sc.Ctxs = []int{1, 2}
		sc.Gpus = []int{16, []int{16, 24}[rng.Intn(2)]}
		if buddyMode {
			sc.Gpus = []int{16, 16}
		}
		sc.Unified = nil
	case 6:
		// two processes with adjacent pids whose virtual cursors cross 2^31, 2^32 or 2^33 bytes
		sc.Ctxs = []int{1, 2}
		if !buddyMode {
			sc.PS = 16 // the largest page size of the property: fewest pages to burn
		}
	case 1, 5:
		sc.Ctxs = []int{1, 1}
	case 2:
		sc.Ctxs = []int{1, 2, 3}[:2+rng.Intn(2)]
	default:
		sc.Ctxs = [][]int{{1, 2}, {1, 2, 1}, {1, 2, 3, 2}}[rng.Intn(3)]
	}
	return sc
}

func (w *world) randomOp(rng *rand.Rand, profile int) Op {
	ctx := rng.Intn(len(w.ctxs))
	maxN := 4
	if profile == 0 || profile == 2 || profile == 5 {
		maxN = 1
	}
	pickBuf := func() int {
		live := []int{}
		for i, b := range w.bufs {
			if b.live && !b.internal && w.sc.Ctxs[b.ctx] == w.sc.Ctxs[ctx] {
				live = append(live, i+1)
			}
		}
		if len(live) == 0 {
			return 0
		}
		return live[rng.Intn(len(live))]
	}
	gpus := []int{}
	for d := range w.devs {
		if w.devs[d].Type == "gpu" {
			gpus = append(gpus, d)
		}
	}
	r := rng.Intn(100)
	if profile == 7 {
		b := pickBuf()
		switch {
		case r < 36 || b == 0:
			return Op{A: "Alloc", Ctx: ctx, Dev: gpus[rng.Intn(len(gpus))], N: 1 + rng.Intn(6), Rem: rng.Intn(3)}
		case r < 64:
			return Op{A: "Free", Ctx: ctx, B: b}
		case r < 94:
			pages := w.bufs[b-1].pages
			off := rng.Intn(pages)
			n := 1 + rng.Intn(pages-off)
			dev := gpus[rng.Intn(len(gpus))]
			if rng.Intn(2) == 0 { // the device the first page of the range is on
				if pg, ok := w.find(w.sc.Ctxs[w.bufs[b-1].ctx], w.bufs[b-1].ptr+uint64(off)*w.psz); ok {
					if d := w.devOfPage(pg.PAddr / w.psz); d >= 1 {
						dev = d
					}
				}
			}
			return Op{A: "Remap", Ctx: ctx, B: b, Off: off, N: n, Rem: rng.Intn(3), Dev: dev}
		default:
			return Op{A: "Dist", Ctx: ctx, B: b, Gpus: []int{gpus[r%2], gpus[1-r%2]}}
		}
	}
	if buddyMode && profile == 6 {
		// multi-page buddy blocks: buffers of 2-4 pages remapped as a whole or in part, distributed in equal
		// chunks, freed, remapped again, next to live neighbours
		b := pickBuf()
		switch {
		case r < 26 || b == 0:
			return Op{A: "Alloc", Ctx: ctx, Dev: gpus[rng.Intn(len(gpus))], N: 2 + rng.Intn(3), Rem: rng.Intn(3)}
		case r < 46:
			return Op{A: "Free", Ctx: ctx, B: b}
		case r < 80:
			pages := w.bufs[b-1].pages
			off := 0
			n := pages
			if rng.Intn(3) == 0 && pages > 2 {
				off = rng.Intn(pages - 1)
				n = 2 + rng.Intn(pages-off-1)
			}
			return Op{A: "Remap", Ctx: ctx, B: b, Off: off, N: n, Rem: rng.Intn(3), Dev: gpus[rng.Intn(len(gpus))]}
		case r < 92:
			perm := rng.Perm(len(gpus))
			return Op{A: "Dist", Ctx: ctx, B: b, Gpus: []int{gpus[perm[0]], gpus[perm[1]]}}
		case r < 96:
			return Op{A: "Mig", B: b, Off: rng.Intn(w.bufs[b-1].pages), Dev: gpus[rng.Intn(len(gpus))]}
		default:
			return Op{A: "Probe", Ctx: ctx, Dev: gpus[rng.Intn(len(gpus))]}
		}
	}
	moves := profile == 3 || profile == 4
	if profile == 5 || (profile == 4 && rng.Intn(8) == 0) {
		// kernel launches and device-to-host copies: the context's buffer list is swept
		switch {
		case r < 32:
			return Op{A: "Alloc", Ctx: ctx, Dev: gpus[rng.Intn(len(gpus))], N: 1, Rem: rng.Intn(3)}
		case r < 60:
			return Op{A: "Free", Ctx: ctx, B: pickBuf()}
		case r < 70:
			return Op{A: "Launch", Ctx: ctx, Dev: gpus[rng.Intn(len(gpus))]}
		case r < 95:
			return Op{A: "CopyOut", Ctx: ctx, B: pickBuf()}
		default:
			return Op{A: "Probe", Ctx: ctx, Dev: gpus[rng.Intn(len(gpus))]}
		}
	}
	switch {
	case r < 34:
		dev := rng.Intn(len(w.devs))
		if rng.Intn(4) > 0 {
			dev = gpus[rng.Intn(len(gpus))]
		}
		return Op{A: "Alloc", Ctx: ctx, Dev: dev, N: 1 + rng.Intn(maxN), Rem: rng.Intn(3)}
	case r < 40:
		return Op{A: "AllocU", Ctx: ctx, N: 1 + rng.Intn(maxN), Rem: rng.Intn(3)}
	case r < 64:
		return Op{A: "Free", Ctx: ctx, B: pickBuf()}
	case r < 68:
		return Op{A: "Probe", Ctx: ctx, Dev: gpus[rng.Intn(len(gpus))]}
	case !moves:
		return Op{A: "Alloc", Ctx: ctx, Dev: gpus[rng.Intn(len(gpus))], N: 1 + rng.Intn(maxN), Rem: rng.Intn(3)}
	case r < 82:
		b := pickBuf()
		if b == 0 {
			return Op{A: "Free", Ctx: ctx, B: 0}
		}
		off := rng.Intn(w.bufs[b-1].pages)
		return Op{A: "Remap", Ctx: ctx, B: b, Off: off, N: 1 + rng.Intn(w.bufs[b-1].pages-off), Rem: rng.Intn(3), Dev: rng.Intn(len(w.devs))}
	case r < 93:
		k := 1 + rng.Intn(len(gpus))
		if k > 3 {
			k = 3
		}
		perm := rng.Perm(len(gpus))
		gs := []int{}
		for _, j := range perm[:k] {
			gs = append(gs, gpus[j])
		}
		return Op{A: "Dist", Ctx: ctx, B: pickBuf(), Gpus: gs}
	default:
		b := pickBuf()
		if b == 0 {
			return Op{A: "Free", Ctx: ctx, B: 0}
		}
		return Op{A: "Mig", B: b, Off: rng.Intn(w.bufs[b-1].pages), Dev: gpus[rng.Intn(len(gpus))]}
	}
}

// profileOf: the buddy allocator is written for 4 KiB pages only; burning gigabytes of virtual space page by page
// would cost a million one-page blocks per call, so the wrap profile is left to the default allocator.
func profileOf(i int) int {
	return i % nProfiles
}

// wrapPrologue: every process allocates a small buffer (it stays live), then burns virtual address space on
// the CPU (4 GiB) so that its cursor ends a few pages before boundary 2^31 / 2^32 / 2^33 bytes; the random
// calls that follow straddle the boundary.
func wrapPrologue(rng *rand.Rand, sc *Scenario, i int) []Op {
	psz := uint64(1) << sc.PS
	boundary := []uint64{1 << 31, 1 << 32, 1 << 33}[(i/nProfiles)%3] / psz // in pages
	cpuPages := (uint64(4) << 30) / psz
	var ops []Op
	for ctx := range sc.Ctxs {
		ops = append(ops, Op{A: "Alloc", Ctx: ctx, Dev: 1, N: 1 + rng.Intn(2), Rem: rng.Intn(3)})
	}
	for ctx := range sc.Ctxs {
		cursor := uint64(1 + 2) // at most: guard page + the small buffer; the exact value does not matter
		target := boundary - uint64(rng.Intn(4))
		for cursor < target {
			n := target - cursor
			if n > cpuPages-8 {
				n = cpuPages - 8
			}
			ops = append(ops, Op{A: "Burn", Ctx: ctx, Dev: 0, N: int(n)})
			cursor += n
		}
	}
	return ops
}

func runRandom(rec *ab.Recorder, rng *rand.Rand, i, nops int, stats map[string]int) *Scenario {
	sc := randomScenario(rng, i)
	w := newWorld(rec, sc, stats)
	profile := profileOf(i)
	if profile == 6 && !buddyMode {
		for _, op := range wrapPrologue(rng, sc, i) {
			if w.dead {
				break
			}
			if w.valid(op) {
				sc.Ops = append(sc.Ops, op)
				w.do(op)
			}
		}
	}
	if profile == 7 && nops < 200 {
		nops = 200
	}
	for k := 0; k < nops && !w.dead; k++ {
		var op Op
		okOp := false
		for try := 0; try < 20 && !okOp; try++ {
			op = w.randomOp(rng, profile)
			okOp = w.valid(op)
		}
		if !okOp {
			continue
		}
		sc.Ops = append(sc.Ops, op)
		w.do(op)
	}
	w.finish()
	return sc
}

// Main is the entry point shared by cmd/c10 and cmd/c10buddy.
func Main(buddy bool) {
	buddyMode = buddy
	scen := flag.String("scen", "", "scenario file (JSON list)")
	out := flag.String("out", "trace.ndjson", "trace output")
	nrand := flag.Int("random", 0, "number of random histories")
	nops := flag.Int("ops", 30, "calls per random history")
	seed := flag.Int64("seed", 1, "seed")
	dumpScen := flag.String("dumpscen", "", "write the generated random scenarios here")
	flag.Parse()
	f, err := os.Create(*out)
	if err != nil {
		panic(err)
	}
	bw := bufio.NewWriterSize(f, 1<<20)
	rec := ab.NewRecorder(bw)
	stats := map[string]int{}
	if *scen != "" {
		var scs []Scenario
		data, err := os.ReadFile(*scen)
		if err != nil {
			panic(err)
		}
		if err := json.Unmarshal(data, &scs); err != nil {
			panic(err)
		}
		for i := range scs {
			runScenario(rec, &scs[i], stats)
		}
	}
	var gen []*Scenario
	rng := rand.New(rand.NewSource(*seed))
	for i := 0; i < *nrand; i++ {
		gen = append(gen, runRandom(rec, rng, i, *nops, stats))
	}
	if *dumpScen != "" {
		data, _ := json.Marshal(gen)
		if err := os.WriteFile(*dumpScen, data, 0o644); err != nil {
			panic(err)
		}
	}
	bw.Flush()
	f.Close()
	js, _ := json.Marshal(stats)
	fmt.Println(string(js))
}
