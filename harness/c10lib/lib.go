// Package c10lib drives the real mgpusim driver through histories of memory
// management calls (public API only) and records, after every call, what the
// call returned and the complete content of the vm.PageTable instance that was
// handed to the driver builder.  The ndjson output is validated against
// spec/memalloc/MemAllocTrace.tla.
package c10lib

import (
	"fmt"

	"github.com/sarchlab/akita/v4/mem/vm"
	"github.com/sarchlab/akita/v4/sim"
	"github.com/sarchlab/mgpusim/v4/amd/driver"

	ab "verifharness/akitabench"
)

// Op is one API call of a scenario.  Buffers are named by their index in
// allocation order (B, 1-based), devices by driver device id.
type Op struct {
	A    string `json:"a"`              // Alloc AllocU Free Remap Dist Mig Probe Launch CopyOut Burn
	Ctx  int    `json:"ctx,omitempty"`  // context index (0-based)
	Dev  int    `json:"dev,omitempty"`  // target device
	N    int    `json:"n,omitempty"`    // pages
	Rem  int    `json:"rem,omitempty"`  // byte remainder class of the last page: 0 full page, 1 one byte, 2 half a page
	B    int    `json:"b,omitempty"`    // buffer (1-based, allocation order)
	Off  int    `json:"off,omitempty"`  // first page inside the buffer
	Gpus []int  `json:"gpus,omitempty"` // Distribute targets
}

// Scenario is a platform plus a history.
type Scenario struct {
	PS      uint    `json:"ps"`      // log2 page size
	Gpus    []int   `json:"gpus"`    // pages of DRAM per GPU
	Unified [][]int `json:"unified"` // unified devices (lists of GPU ids)
	Ctxs    []int   `json:"ctxs"`    // process (1-based) of each context
	Ops     []Op    `json:"ops"`
	Drain   bool    `json:"drain"` // finish by exhausting every GPU (free-list oracle)
	Tag     string  `json:"tag,omitempty"`
}

type key struct {
	pid   vm.PID
	vaddr uint64
}

// recPT wraps the real page table: it only remembers which (pid, vaddr) pairs
// were ever written so that the whole table can be read back through Find.
type recPT struct {
	vm.PageTable
	keys   map[key]bool
	onPage func(p vm.Page)
}

func (t *recPT) Insert(p vm.Page) {
	t.keys[key{p.PID, p.VAddr}] = true
	t.onPage(p)
	t.PageTable.Insert(p)
}

func (t *recPT) Update(p vm.Page) {
	t.keys[key{p.PID, p.VAddr}] = true
	t.onPage(p)
	t.PageTable.Update(p)
}

type devInfo struct {
	Type string `json:"type"`
	Base uint64 `json:"base"` // first page number
	N    uint64 `json:"n"`    // pages
	Mem  []int  `json:"mem"`
}

type buf struct {
	ctx   int
	ptr   uint64
	pages int
	live  bool
	bytes uint64

	internal bool // allocated by the driver itself (kernel launch)
}

type stub struct {
	*sim.ComponentBase
}

func (s *stub) Handle(e sim.Event) error  { return nil }
func (s *stub) NotifyRecv(p sim.Port)     {}
func (s *stub) NotifyPortFree(p sim.Port) {}

type world struct {
	rec     *ab.Recorder
	sc      *Scenario
	d       *driver.Driver
	pt      *recPT
	ps      uint
	psz     uint64
	devs    []devInfo
	ctxs    []*driver.Context
	pidIdx  map[vm.PID]int // real pid -> 1-based process index (learnt from the first page a process maps)
	realOf  map[int]vm.PID
	curProc int // process index of the context making the current call
	bufs    []buf
	held    []uint64 // source physical pages of prepared migrations
	gpuPort sim.Port
	mmuPort sim.Port
	cps     []sim.Port
	stats   map[string]int
	dead    bool // the driver panicked in a call that should have succeeded: the history ends

	mmuDone  bool
	restarts int
	written  []key // pages written to the page table during the current call
}

// hErr is a failure of the harness itself (never a verdict): it is not recovered.
type hErr string

var buddyMode bool

func newWorld(rec *ab.Recorder, sc *Scenario, stats map[string]int) *world {
	w := &world{rec: rec, sc: sc, ps: sc.PS, psz: 1 << sc.PS, pidIdx: map[vm.PID]int{}, realOf: map[int]vm.PID{}, stats: stats}
	eng := ab.NewEngine()
	w.pt = &recPT{PageTable: vm.NewPageTable(uint64(sc.PS)), keys: map[key]bool{}}
	w.pt.onPage = func(p vm.Page) {
		w.written = append(w.written, key{p.PID, p.VAddr})
		// the first page written on behalf of a process reveals its (unexported) pid
		if _, known := w.pidIdx[p.PID]; !known && w.curProc > 0 {
			if _, has := w.realOf[w.curProc]; !has {
				w.pidIdx[p.PID] = w.curProc
				w.realOf[w.curProc] = p.PID
			}
		}
	}
	// default memory-copy middleware (copies become messages to the GPUs, which the harness answers)
	w.d = driver.MakeBuilder().WithEngine(eng).WithPageTable(w.pt).WithLog2PageSize(uint64(sc.PS)).
		Build("Driver")
	conn := ab.NewConn("Conn")
	w.gpuPort = w.d.GetPortByName("GPU")
	w.mmuPort = w.d.GetPortByName("MMU")
	conn.PlugIn(w.gpuPort)
	conn.PlugIn(w.mmuPort)
	st := &stub{ComponentBase: sim.NewComponentBase("Env")}
	// physical layout as the allocator defines it: one guard page, the CPU (4 GiB), then the GPUs in order
	cpuPages := (uint64(4) << 30) >> sc.PS
	w.devs = append(w.devs, devInfo{Type: "cpu", Base: 1, N: cpuPages, Mem: []int{}})
	next := 1 + cpuPages
	for i, n := range sc.Gpus {
		cp := sim.NewPort(st, 64, 64, fmt.Sprintf("Env.CP%d", i+1))
		pmc := sim.NewPort(st, 64, 64, fmt.Sprintf("Env.PMC%d", i+1))
		w.cps = append(w.cps, cp)
		w.d.RemotePMCPorts = append(w.d.RemotePMCPorts, pmc)
		w.d.RegisterGPU(cp, driver.DeviceProperties{CUCount: 4, DRAMSize: uint64(n) << sc.PS})
		w.devs = append(w.devs, devInfo{Type: "gpu", Base: next, N: uint64(n), Mem: []int{}})
		next += uint64(n)
	}
	for i, pid := range sc.Ctxs {
		var c *driver.Context
		first := -1
		for j := 0; j < i; j++ {
			if sc.Ctxs[j] == pid {
				first = j
				break
			}
		}
		if first >= 0 {
			c = w.d.InitWithExistingPID(w.ctxs[first])
		} else {
			c = w.d.Init()
		}
		w.ctxs = append(w.ctxs, c)
	}
	for _, u := range sc.Unified {
		id := w.d.CreateUnifiedGPU(w.ctxs[0], u)
		if id != len(w.devs) {
			panic(hErr("unexpected unified device id"))
		}
		w.devs = append(w.devs, devInfo{Type: "uni", Base: 0, N: 0, Mem: append([]int{}, u...)})
	}
	rec.Emit("Reset", ab.Rec{"ps": sc.PS, "psz": w.psz, "devs": w.devs, "tag": sc.Tag, "buddy": b2i(buddyMode)})
	return w
}

func b2i(b bool) int {
	if b {
		return 1
	}
	return 0
}
