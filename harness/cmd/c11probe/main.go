// throw-away probe (to be deleted)
package main

import (
	"fmt"
	"os"

	"github.com/sarchlab/akita/v4/simulation"
	"github.com/sarchlab/mgpusim/v4/amd/driver"
	"github.com/sarchlab/mgpusim/v4/amd/samples/runner/timingconfig"
)

func pat(n int, k byte) []byte {
	b := make([]byte, n)
	for i := range b {
		b[i] = byte(i)*3 + k
	}
	return b
}

type world struct {
	s *simulation.Simulation
	d *driver.Driver
	c *driver.Context
}

func (w *world) run(q *driver.CommandQueue) {
	w.d.TickLater()
	if err := w.s.GetEngine().Run(); err != nil {
		panic(err)
	}
	if q.NumCommand() != 0 {
		fmt.Println("HANG: engine dry, commands pending:", q.NumCommand(), "now", w.s.GetEngine().CurrentTime())
	}
}
func (w *world) h2d(p driver.Ptr, b []byte) {
	q := w.d.CreateCommandQueue(w.c)
	w.d.EnqueueMemCopyH2D(q, p, b)
	w.run(q)
}
func (w *world) d2h(p driver.Ptr, n int) []byte {
	b := make([]byte, n)
	q := w.d.CreateCommandQueue(w.c)
	w.d.EnqueueMemCopyD2H(q, b, p)
	w.run(q)
	return b
}
func (w *world) d2d(dst, src driver.Ptr, n int) {
	q := w.d.CreateCommandQueue(w.c)
	w.d.EnqueueMemCopyD2D(q, dst, src, n)
	w.run(q)
}

func main() {
	os.Chdir("/tmp/c11")
	exp := os.Args[1]
	s := simulation.MakeBuilder().WithoutMonitoring().Build()
	defer s.Terminate()
	n := 1
	if exp == "hang" {
		n = 2
	}
	timingconfig.MakeBuilder().WithSimulation(s).WithNumGPUs(n).Build()
	d := s.GetComponentByName("Driver").(*driver.Driver)
	w := &world{s, d, d.Init()}
	switch exp {
	case "stale":
		A := d.AllocateMemory(w.c, 4096)
		S := d.AllocateMemory(w.c, 4096)
		w.h2d(A, pat(4096, 1))
		w.h2d(S, pat(4096, 100))
		w.d2d(A, S, 4)
		r := w.d2h(A, 4096)
		fmt.Println("after k1:", r[:12], "want", pat(4, 100), pat(12, 1)[4:])
		w.h2d(A, pat(4096, 7))
		w.d2d(A+4, S+4, 4)
		r = w.d2h(A, 4096)
		fmt.Println("after k2:", r[:12], "want", pat(12, 7)[:4], pat(8, 100)[4:], pat(12, 7)[8:])
		fmt.Println(" line 2 :", r[64:70], "want", pat(70, 7)[64:])
	case "ctx":
		c2 := d.InitWithExistingPID(w.c)
		S := d.AllocateMemory(w.c, 4096)
		B := d.AllocateMemory(c2, 4096)
		w.h2d(S, pat(4096, 50))
		w2 := &world{s, d, c2}
		w2.h2d(B, make([]byte, 4096))
		w.d2d(B, S, 4096)
		r := w2.d2h(B, 4096)
		fmt.Println("B via ctx2:", r[:8], "want", pat(8, 50))
		r = w.d2h(B, 4096)
		fmt.Println("B via ctx1:", r[:8], "want", pat(8, 50))
		r = w2.d2h(B, 4096)
		fmt.Println("B via ctx2 again:", r[:8], "want", pat(8, 50))
	case "free":
		A := d.AllocateMemory(w.c, 4096)
		B := d.AllocateMemory(w.c, 4096)
		C := d.AllocateMemory(w.c, 4096)
		S := d.AllocateMemory(w.c, 4096)
		w.h2d(S, pat(4096, 50))
		w.d2d(C, S, 4096)
		d.FreeMemory(w.c, A)
		d.FreeMemory(w.c, B)
		func() {
			defer func() { fmt.Println("recovered:", recover()) }()
			r := w.d2h(C, 4096)
			fmt.Println("C:", r[:8], "want", pat(8, 50))
		}()
	case "free1":
		A := d.AllocateMemory(w.c, 4096)
		C := d.AllocateMemory(w.c, 4096)
		S := d.AllocateMemory(w.c, 4096)
		w.h2d(S, pat(4096, 50))
		w.d2d(C, S, 4096)
		d.FreeMemory(w.c, A)
		d.FreeMemory(w.c, S)
		func() {
			defer func() { fmt.Println("recovered:", recover()) }()
			r := w.d2h(C, 4096)
			fmt.Println("C:", r[:8], "want", pat(8, 50))
		}()
	case "free2":
		A := d.AllocateMemory(w.c, 4096)
		C := d.AllocateMemory(w.c, 4096)
		S := d.AllocateMemory(w.c, 4096)
		w.h2d(S, pat(4096, 50))
		w.d2d(C, S, 4096)
		T := d.AllocateMemory(w.c, 4096)
		d.FreeMemory(w.c, A)
		d.FreeMemory(w.c, T)
		func() {
			defer func() { fmt.Println("recovered:", recover()) }()
			r := w.d2h(C, 4096)
			fmt.Println("C:", r[:8], "want", pat(8, 50))
		}()
	case "hang":
		d.SelectGPU(w.c, 2)
		X := d.AllocateMemory(w.c, 1<<20)
		XS := d.AllocateMemory(w.c, 1<<20)
		d.SelectGPU(w.c, 1)
		Y := d.AllocateMemory(w.c, 4096)
		w.h2d(XS, pat(1<<20, 3))
		w.h2d(Y, pat(4096, 9))
		d.SelectGPU(w.c, 2)
		w.d2d(X, XS, 1<<20)
		fmt.Println("kernel done at", s.GetEngine().CurrentTime())
		r := w.d2h(Y, 64)
		fmt.Println("Y:", r[:8], "at", s.GetEngine().CurrentTime())
	}
}
