// c12mem runs programs of queue operations (host-to-device copy, device-to-device copy kernel, device-to-host copy)
// on several command queues of the real timing platform (driver, command processor, DMA engine, caches, DRAM) and
// records the driver's task boundaries of every operation as an ndjson trace for spec/cmdqueue/QueueMemTrace.tla.
// Every buffer belongs to one queue and always holds one value in all its elements, so the value a D2H delivers is a
// small integer (or -2 when the host array is not uniform).
package main

import (
	"encoding/json"
	"flag"
	"fmt"
	"os"
	"strconv"
	"sync"
	"time"

	"github.com/sarchlab/akita/v4/sim"
	"github.com/sarchlab/akita/v4/simulation"
	"github.com/sarchlab/akita/v4/tracing"
	"github.com/sarchlab/mgpusim/v4/amd/driver"
	"github.com/sarchlab/mgpusim/v4/amd/insts"
	"github.com/sarchlab/mgpusim/v4/amd/samples/runner/emusystem"
	"github.com/sarchlab/mgpusim/v4/amd/samples/runner/timingconfig"
)

type Op struct {
	K   string `json:"k"`
	B   int    `json:"b,omitempty"`
	V   int    `json:"v,omitempty"`
	Dst int    `json:"dst,omitempty"`
	Src int    `json:"src,omitempty"`
}

// Scenario: nq queues, queue q (1-based) owns buffers 2q-1 and 2q; gpu[q-1] is the GPU its kernels run on,
// home[b-1] the GPU buffer b is allocated on; order lists queue numbers: the k-th entry enqueues the next
// operation of that queue.
type Scenario struct {
	Name    string `json:"name"`
	NG      int    `json:"ng"`
	NQ      int    `json:"nq"`
	Gpu     []int  `json:"gpu"`
	Home    []int  `json:"home"`
	Len     []int  `json:"len"` // floats per queue (both buffers of a queue have this length)
	Progs   [][]Op `json:"progs"`
	Order   []int  `json:"order"`
	Drain   string `json:"drain"`   // seq | par | rev
	Ctx     []int  `json:"ctx"`     // context (address space) of every queue, 1-based; default: one context
	Emu     bool   `json:"emu"`     // functional emulation platform instead of the timing platform
	ShareCO bool   `json:"shareco"` // every D2D launches ONE shared code object (EnqueueLaunchKernel) instead of loading a fresh one per call
}

type opRef struct{ q, i int }

type recorder struct {
	mu       sync.Mutex
	events   []map[string]interface{}
	lo, hi   map[opRef]int64 // ids of the commands of an operation lie in (lo, hi)
	ops      []opRef
	cmdOp    map[string]opRef  // command id -> operation
	cmdKind  map[string]string // command id -> type
	nCmd     map[opRef]int     // commands of the operation (known after enqueue)
	started  map[opRef]int
	ended    map[opRef]int
	reqOp    map[string]opRef // request task id -> operation
	reqWhat  map[string]string
	reqGPU   map[string]int
	dataOut  map[string]int // command id -> outstanding data requests
	gpuOf    map[sim.RemotePort]int
	doneIdx  map[opRef]int // index of the OpDone event (obs filled in later)
	opened   map[opRef]bool
	emu      bool
	emuCopy  map[int]int
	codeOf   map[opRef]opRef // launch -> operation whose first command uploads the code object it runs
	uploader map[opRef]bool  // the operation's first command is a code upload
	firstCmd map[opRef]string
	resident map[opRef]bool
	early    bool // a kernel was launched before its code was uploaded: the run is abandoned
	progs    [][]Op
}

func (r *recorder) emit(e map[string]interface{}) int {
	r.events = append(r.events, e)
	return len(r.events) - 1
}

// closeEmuCopy: the emulation platform's copy middleware moves the data on the storage while it processes the
// command and dequeues it without an end task; the copy is over at the latest when the queue starts its next command
// (or when the run ends).
func (r *recorder) closeEmuCopy(q int) {
	if i, ok := r.emuCopy[q]; ok {
		delete(r.emuCopy, q)
		o := opRef{q, i}
		r.emit(map[string]interface{}{"e": "Data", "q": q, "i": i})
		r.doneIdx[o] = r.emit(map[string]interface{}{"e": "OpDone", "q": q, "i": i, "obs": -1})
	}
}

func (r *recorder) open(o opRef) {
	if !r.opened[o] {
		if r.emu {
			r.closeEmuCopy(o.q)
			if r.progs[o.q-1][o.i-1].K != "d2d" {
				r.emuCopy[o.q] = o.i
			}
		}
		r.opened[o] = true
		r.emit(map[string]interface{}{"e": "OpStart", "q": o.q, "i": o.i})
	}
}

func (r *recorder) find(id string) (opRef, bool) {
	if o, ok := r.cmdOp[id]; ok {
		return o, true
	}
	n, err := strconv.ParseInt(id, 10, 64)
	if err != nil {
		return opRef{}, false
	}
	for _, o := range r.ops {
		if n > r.lo[o] && n < r.hi[o] {
			r.cmdOp[id] = o
			return o, true
		}
	}
	return opRef{}, false
}

func (r *recorder) StartTask(task tracing.Task) {
	r.mu.Lock()
	defer r.mu.Unlock()
	switch task.Kind {
	case "Driver Command":
		o, ok := r.find(task.ID)
		if !ok {
			return
		}
		r.cmdKind[task.ID] = task.What
		r.started[o]++
		r.open(o)
		if r.uploader[o] {
			if r.started[o] == 1 {
				r.firstCmd[o] = task.ID
			} else if r.emu && !r.resident[o] {
				r.resident[o] = true
				r.emit(map[string]interface{}{"e": "CodeCopied", "q": o.q, "i": o.i})
			}
		}
	case "req_out":
		o, ok := r.find(task.ParentID)
		if !ok {
			return
		}
		// the driver creates the requests of a command (its FlushReqs first) while it processes the command and
		// logs the command's start right after: the operation has started
		r.open(o)
		r.reqOp[task.ID] = o
		r.reqWhat[task.ID] = task.What
		op := r.progs[o.q-1][o.i-1]
		switch task.What {
		case "*protocol.FlushReq":
			g := 0
			if m, ok := task.Detail.(sim.Msg); ok {
				g = r.gpuOf[m.Meta().Dst]
			}
			r.reqGPU[task.ID] = g
			r.emit(map[string]interface{}{"e": "Flush", "q": o.q, "i": o.i, "g": g})
		case "*protocol.LaunchKernelReq":
			c := r.codeOf[o]
			r.emit(map[string]interface{}{"e": "KLaunch", "q": o.q, "i": o.i, "cq": c.q, "ci": c.i})
			if !r.resident[c] {
				r.early = true
			}
		case "*protocol.MemCopyH2DReq", "*protocol.MemCopyD2HReq":
			if op.K != "d2d" {
				r.dataOut[task.ParentID]++
			}
		}
	}
}

func (r *recorder) EndTask(task tracing.Task) {
	r.mu.Lock()
	defer r.mu.Unlock()
	if o, ok := r.reqOp[task.ID]; ok {
		op := r.progs[o.q-1][o.i-1]
		switch r.reqWhat[task.ID] {
		case "*protocol.FlushReq":
			r.emit(map[string]interface{}{"e": "FlushAck", "q": o.q, "g": r.reqGPU[task.ID]})
		case "*protocol.LaunchKernelReq":
			r.emit(map[string]interface{}{"e": "KDone", "q": o.q, "i": o.i})
			if r.emu {
				// the staging copies of a launch have no end task on the emulation platform: the operation is
				// over when its launch request is answered
				r.doneIdx[o] = r.emit(map[string]interface{}{"e": "OpDone", "q": o.q, "i": o.i, "obs": -1})
			}
		case "*protocol.MemCopyH2DReq", "*protocol.MemCopyD2HReq":
			if op.K != "d2d" {
				// the parent command id is not in the end notification: find it through the operation (one command)
				for id, oo := range r.cmdOp {
					if oo == o && r.dataOut[id] > 0 {
						r.dataOut[id]--
						if r.dataOut[id] == 0 {
							r.emit(map[string]interface{}{"e": "Data", "q": o.q, "i": o.i})
						}
						break
					}
				}
			}
		}
		delete(r.reqOp, task.ID)
		return
	}
	if o, ok := r.cmdOp[task.ID]; ok {
		if _, isCmd := r.cmdKind[task.ID]; !isCmd {
			return
		}
		if r.uploader[o] && r.firstCmd[o] == task.ID && !r.resident[o] {
			r.resident[o] = true
			r.emit(map[string]interface{}{"e": "CodeCopied", "q": o.q, "i": o.i})
		}
		r.ended[o]++
		if r.ended[o] == r.nCmd[o] && !r.emu {
			r.doneIdx[o] = r.emit(map[string]interface{}{"e": "OpDone", "q": o.q, "i": o.i, "obs": -1})
		}
	}
}
func (r *recorder) StepTask(task tracing.Task)       {}
func (r *recorder) AddMilestone(m tracing.Milestone) {}

func fill(n, v int) []float32 {
	out := make([]float32, n)
	for i := range out {
		out[i] = float32(v)
	}
	return out
}

func uniform(a []float32) int {
	for _, x := range a {
		if x != a[0] {
			return -2
		}
	}
	return int(a[0])
}

func waitIdle(d *driver.Driver) {
	for i := 0; i < 200000; i++ {
		if !d.VerifEngineRunning() {
			return
		}
		time.Sleep(50 * time.Microsecond)
	}
}

func gen() int64 {
	n, err := strconv.ParseInt(sim.GetIDGenerator().Generate(), 10, 64)
	if err != nil {
		panic("c12mem needs the sequential id generator")
	}
	return n
}

func runScenario(sc Scenario, out *json.Encoder, nqmax int) (status string) {
	s := simulation.MakeBuilder().WithoutMonitoring().Build()
	if sc.Emu {
		emusystem.MakeBuilder().WithSimulation(s).WithNumGPUs(sc.NG).Build()
	} else {
		timingconfig.MakeBuilder().WithSimulation(s).WithNumGPUs(sc.NG).Build()
	}
	d := s.GetComponentByName("Driver").(*driver.Driver)
	rec := &recorder{lo: map[opRef]int64{}, hi: map[opRef]int64{}, cmdOp: map[string]opRef{}, cmdKind: map[string]string{},
		nCmd: map[opRef]int{}, started: map[opRef]int{}, ended: map[opRef]int{}, reqOp: map[string]opRef{},
		reqWhat: map[string]string{}, reqGPU: map[string]int{}, dataOut: map[string]int{}, gpuOf: map[sim.RemotePort]int{},
		doneIdx: map[opRef]int{}, opened: map[opRef]bool{}, progs: sc.Progs, emu: sc.Emu, emuCopy: map[int]int{}, codeOf: map[opRef]opRef{}, uploader: map[opRef]bool{},
		firstCmd: map[opRef]string{}, resident: map[opRef]bool{}}
	for i, p := range d.GPUs {
		rec.gpuOf[p.AsRemote()] = i + 1
	}
	d.Run()
	// contexts: every context is its own address space (PID); contexts with the same allocation history use the
	// same virtual addresses
	ctxs := map[int]*driver.Context{}
	ctxOf := func(q int) *driver.Context {
		c := 1
		if len(sc.Ctx) >= q {
			c = sc.Ctx[q-1]
		}
		if ctxs[c] == nil {
			ctxs[c] = d.Init()
		}
		return ctxs[c]
	}

	bufs := make([]driver.Ptr, 2*sc.NQ+1)
	for b := 1; b <= 2*sc.NQ; b++ {
		ctx := ctxOf((b + 1) / 2)
		d.SelectGPU(ctx, sc.Home[b-1])
		bufs[b] = d.AllocateMemory(ctx, uint64(sc.Len[(b-1)/2]*4))
	}
	for b := 1; b <= 2*sc.NQ; b++ {
		d.MemCopyH2D(ctxOf((b+1)/2), bufs[b], fill(sc.Len[(b-1)/2], 100+b))
	}
	queues := make([]*driver.CommandQueue, sc.NQ+1)
	for q := 1; q <= sc.NQ; q++ {
		d.SelectGPU(ctxOf(q), sc.Gpu[q-1])
		queues[q] = d.CreateCommandQueue(ctxOf(q))
	}
	waitIdle(d)
	tracing.CollectTrace(d, rec)

	rec.mu.Lock()
	padded := append([][]Op{}, sc.Progs...)
	for len(padded) < nqmax {
		padded = append(padded, []Op{})
	}
	cx := make([]int, nqmax)
	for q := range cx {
		cx[q] = 1
		if q < len(sc.Ctx) {
			cx[q] = sc.Ctx[q]
		}
	}
	rec.emit(map[string]interface{}{"e": "Reset", "name": sc.Name, "progs": padded, "ctx": cx})
	rec.mu.Unlock()

	var sharedCO *insts.KernelCodeObject
	if sc.ShareCO {
		raw, err := os.ReadFile(*hsacoPath)
		if err != nil {
			panic(err)
		}
		sharedCO = insts.LoadKernelCodeObjectFromBytes(raw, "copyKernel")
	}
	lastUpload := map[int]opRef{}
	next := make([]int, sc.NQ+1)
	host := map[opRef][]float32{}
	for _, q := range sc.Order {
		i := next[q] + 1
		if i > len(sc.Progs[q-1]) {
			continue
		}
		next[q] = i
		op := sc.Progs[q-1][i-1]
		o := opRef{q, i}
		n := sc.Len[q-1]
		rec.mu.Lock()
		rec.ops = append(rec.ops, o)
		rec.lo[o] = gen()
		rec.hi[o] = 1 << 62
		rec.mu.Unlock()
		before := queues[q].NumCommand()
		switch op.K {
		case "h2d":
			d.EnqueueMemCopyH2D(queues[q], bufs[op.B], fill(n, op.V))
		case "d2h":
			host[o] = make([]float32, n)
			d.EnqueueMemCopyD2H(queues[q], host[o], bufs[op.B])
		case "d2d":
			if sharedCO != nil {
				// what EnqueueMemCopyD2D does, with one code object for all launches of the run
				grid := [3]uint32{uint32(n), 1, 1}
				d.EnqueueLaunchKernel(queues[q], sharedCO, grid, [3]uint16{64, 1, 1},
					&driver.KernelMemCopyArgs{Src: bufs[op.Src], Dst: bufs[op.Dst], N: int64(n * 4)})
			} else {
				d.EnqueueMemCopyD2D(queues[q], bufs[op.Dst], bufs[op.Src], n*4)
			}
		default:
			panic("unknown op " + op.K)
		}
		rec.mu.Lock()
		rec.hi[o] = gen()
		rec.nCmd[o] = queues[q].NumCommand() - before
		if op.K == "d2d" {
			// a launch is 2 staging copies + the launch command, preceded by the upload of the code object when the
			// driver has no device copy of it for this process yet
			c := 1
			if len(sc.Ctx) >= q {
				c = sc.Ctx[q-1]
			}
			if rec.nCmd[o] == 4 {
				rec.uploader[o] = true
				rec.codeOf[o] = o
				lastUpload[c] = o
			} else {
				rec.codeOf[o] = lastUpload[c]
			}
		}
		rec.mu.Unlock()
	}

	// what every D2H destination of a queue holds at the moment DrainCommandQueue returns to the application thread:
	// "a call that waits for a queue to drain returns only after all earlier commands have completed"
	var emu sync.Mutex
	early := map[opRef]int{}
	drain := func(q int) {
		d.DrainCommandQueue(queues[q])
		emu.Lock()
		defer emu.Unlock()
		for o, a := range host {
			if o.q == q {
				early[o] = uniform(a)
			}
		}
	}
	done := make(chan struct{})
	go func() {
		switch sc.Drain {
		case "par":
			var wg sync.WaitGroup
			for q := 1; q <= sc.NQ; q++ {
				wg.Add(1)
				go func(q int) { defer wg.Done(); drain(q) }(q)
			}
			wg.Wait()
		case "rev":
			for q := sc.NQ; q >= 1; q-- {
				drain(q)
			}
		default:
			for q := 1; q <= sc.NQ; q++ {
				drain(q)
			}
		}
		close(done)
	}()
	status = "ok"
	deadline := time.After(time.Duration(*limit) * time.Second)
wait:
	for {
		select {
		case <-done:
			break wait
		case <-deadline:
			status = "timeout"
			break wait
		case <-time.After(20 * time.Millisecond):
			rec.mu.Lock()
			e := rec.early
			rec.mu.Unlock()
			if e {
				// the kernel runs whatever the memory at its code address holds: nothing after this point says
				// anything more about the driver; the process exits after writing the trace
				status = "abandoned"
				break wait
			}
		}
	}
	if status == "ok" {
		waitIdle(d)
	}
	rec.mu.Lock()
	if status == "ok" {
		for q := 1; q <= sc.NQ; q++ {
			rec.closeEmuCopy(q)
		}
	}
	for o, idx := range rec.doneIdx {
		if a, ok := host[o]; ok {
			rec.events[idx]["obs"] = uniform(a)
		}
	}
	if status == "ok" {
		for o, v := range early {
			if a, ok := host[o]; ok && uniform(a) != v {
				// the drain returned while the destination of this completed D2H was still being written
				rec.emit(map[string]interface{}{"e": "ReturnedBeforeData", "q": o.q, "i": o.i, "at_return": v, "final": uniform(a)})
			}
		}
		rec.emit(map[string]interface{}{"e": "End"})
	} else if status == "abandoned" {
		rec.emit(map[string]interface{}{"e": "Abandoned"})
	} else {
		rec.emit(map[string]interface{}{"e": "Timeout"})
	}
	for _, e := range rec.events {
		if err := out.Encode(e); err != nil {
			panic(err)
		}
	}
	rec.mu.Unlock()
	if status == "ok" {
		d.Terminate()
		s.Terminate()
	}
	return status
}

var limit = flag.Int("limit", 600, "wall-clock limit of one run in seconds")
var hsacoPath = flag.String("hsaco", "/repo/amd/driver/memcopy.hsaco", "the driver's copy kernel (for scenarios that share one code object)")

func main() {
	scen := flag.String("scen", "", "scenario file (json list)")
	outp := flag.String("out", "trace.ndjson", "trace output")
	nqmax := flag.Int("nqmax", 3, "number of queues of the trace specification (programs are padded with empty ones)")
	flag.Parse()
	raw, err := os.ReadFile(*scen)
	if err != nil {
		panic(err)
	}
	var scs []Scenario
	if err := json.Unmarshal(raw, &scs); err != nil {
		panic(err)
	}
	f, err := os.Create(*outp)
	if err != nil {
		panic(err)
	}
	enc := json.NewEncoder(f)
	stats := map[string]int{"scenarios": 0, "timeouts": 0, "abandoned": 0}
	for _, sc := range scs {
		st := runScenario(sc, enc, *nqmax)
		stats["scenarios"]++
		if st == "abandoned" {
			stats["abandoned"]++
			break // the abandoned simulation still runs in this process
		}
		if st != "ok" {
			stats["timeouts"]++
			break
		}
	}
	f.Close()
	b, _ := json.Marshal(stats)
	fmt.Println(string(b))
}
