// c10 replays histories of memory-management API calls on the real driver
// (default page allocator) and writes the trace validated by MemAllocTrace.tla.
// See harness/c10lib.
package main

import "verifharness/c10lib"

func main() { c10lib.Main(false) }
