// c18 drives one or several real rdma.Comp (connected back to back through a
// network played by the harness) with scripted L1s, L2 banks, peer GPUs and a
// scripted command processor on the control port, and writes one ndjson line
// per port-hook event for RDMATrace.tla.
//
// The log is raw: {"e": Send|Take|Recv|Pull, "g": gpu, "k": port, "m": message}
// where Send/Take are the component's own port operations (Port.Send,
// Port.RetrieveIncoming) and Recv/Pull the environment's (Port.Deliver,
// Port.RetrieveOutgoing).  All interpretation is left to the trace spec.
package main

import (
	"bufio"
	"encoding/json"
	"flag"
	"fmt"
	"math/rand"
	"os"
	"regexp"
	"sort"
	"strconv"
	"strings"
	"time"

	"github.com/sarchlab/akita/v4/mem/mem"
	"github.com/sarchlab/akita/v4/sim"
	"github.com/sarchlab/akita/v4/simulation"
	"github.com/sarchlab/mgpusim/v4/amd/benchmarks/amdappsdk/matrixtranspose"
	"github.com/sarchlab/mgpusim/v4/amd/benchmarks/amdappsdk/vectoradd"
	"github.com/sarchlab/mgpusim/v4/amd/benchmarks/heteromark/fir"
	"github.com/sarchlab/mgpusim/v4/amd/driver"
	"github.com/sarchlab/mgpusim/v4/amd/samples/runner/timingconfig"
	"github.com/sarchlab/mgpusim/v4/amd/sampling"
	"github.com/sarchlab/mgpusim/v4/amd/timing/rdma"

	ab "verifharness/akitabench"
)

// Payload mirrors the payload record of RDMA.tla.
type Payload struct {
	K string `json:"k"`
	A uint64 `json:"a"`
	N uint64 `json:"n"`
	D []int  `json:"d"`
	M []int  `json:"m"`
}

// Step is one environment step of a scenario.
type Step struct {
	A    string   `json:"a"`
	C    int      `json:"c,omitempty"`
	G    int      `json:"g,omitempty"`
	S    int      `json:"s,omitempty"`
	P    *Payload `json:"p,omitempty"`
	K    string   `json:"k,omitempty"`
	Root int      `json:"root,omitempty"`
	D    []int    `json:"d,omitempty"`
	E    string   `json:"e,omitempty"`
	N    int      `json:"n,omitempty"`
}

// Config describes the platform of one run.
type Config struct {
	Comps  []int  `json:"comps"` // GPU indices with a real engine
	NGpu   int    `json:"ngpu"`  // GPU indices 0..NGpu own address ranges (0 = CPU); others are scripted peers
	Span   uint64 `json:"span"`
	Il     uint64 `json:"il"`
	Nb     int    `json:"nb"`
	Buf    int    `json:"buf"`
	Widths [4]int `json:"widths"`
}

// Scenario is a configuration plus environment steps.
type Scenario struct {
	Cfg   Config `json:"cfg"`
	Steps []Step `json:"steps"`
}

var portKeys = map[string]string{
	"RDMARequestInside": "rqi", "RDMARequestOutside": "rqo", "RDMADataOutside": "dto",
	"RDMADataInside": "dti", "CtrlPort": "ctl",
}
var reComp = regexp.MustCompile(`^(?:R|GPU\[)(\d+)(?:\]\.RDMA)?\.(\w+)$`)
var reL2 = regexp.MustCompile(`^GPU\[(\d+)\]\.L2Cache\[(\d+)\]\.\w+$`)
var reL1 = regexp.MustCompile(`^GPU\[(\d+)\]\.(SA\[\d+\]\..+)$`)
var l1Index = map[string]int{}
var reAgent = regexp.MustCompile(`^(L1|L2|CP)_(\d+)_(\d+)$`)

// portRef maps a port name of the run to the port reference of the spec.
func portRef(name sim.RemotePort) ab.Rec {
	s := string(name)
	if m := reComp.FindStringSubmatch(s); m != nil {
		if k, ok := portKeys[m[2]]; ok {
			g, _ := strconv.Atoi(m[1])
			return ab.Rec{"g": g, "k": k, "b": 0}
		}
	}
	if m := reL2.FindStringSubmatch(s); m != nil {
		g, _ := strconv.Atoi(m[1])
		b, _ := strconv.Atoi(m[2])
		return ab.Rec{"g": g, "k": "l2", "b": b}
	}
	if m := reAgent.FindStringSubmatch(s); m != nil {
		g, _ := strconv.Atoi(m[2])
		b, _ := strconv.Atoi(m[3])
		k := map[string]string{"L1": "l1", "L2": "l2", "CP": "cp"}[m[1]]
		return ab.Rec{"g": g, "k": k, "b": b}
	}
	if m := reL1.FindStringSubmatch(s); m != nil { // a cache of a shader array of the real platform
		g, _ := strconv.Atoi(m[1])
		if _, ok := l1Index[m[2]]; !ok {
			l1Index[m[2]] = len(l1Index)
		}
		return ab.Rec{"g": g, "k": "l1", "b": l1Index[m[2]]}
	}
	return ab.Rec{"g": -1, "k": s, "b": 0}
}

func compPort(g int, long string) sim.RemotePort {
	return sim.RemotePort(fmt.Sprintf("R%d.%s", g, long))
}

type world struct {
	rec   *ab.Recorder
	eng   *ab.Engine
	cfg   Config
	comps map[int]*rdma.Comp
	ports map[int]map[string]sim.Port // g -> k -> port
	byNm  map[sim.RemotePort]sim.Port
	cyc   int

	nRoot        int
	root         map[string]int // message id -> root ordinal
	lastReq      map[int]map[string]mem.AccessReq
	netReq       []mem.AccessReq
	netRsp       []mem.AccessRsp
	l2owed       []mem.AccessReq
	phase        map[int]string
	count        map[int]map[string]int
	expect       map[int]map[string]int
	stats        map[string]int
	dead         bool
	inFl         int // roots not yet answered (driver's own bookkeeping, not logged)
	lastProgress int
	unit         uint64 // addresses are logged in this unit (1, or 64 on the real platform whose addresses exceed 2^31)
	manual       bool   // the engines are ticked by calling Tick() (real platform: its own engine is never run)
	nobank       bool   // do not log the L2 bank index (not part of the configuration under test)
}

func (w *world) addr(a uint64) interface{} {
	if w.unit <= 1 {
		return a
	}
	if a%w.unit != 0 {
		return -1
	}
	return a / w.unit
}

func (w *world) dump(msg sim.Msg) ab.Rec {
	meta := msg.Meta()
	out := ab.Rec{"src": portRef(meta.Src), "dst": portRef(meta.Dst)}
	if w.nobank {
		for _, k := range []string{"src", "dst"} {
			if r := out[k].(ab.Rec); r["k"] == "l2" {
				r["b"] = 0
			}
		}
	}
	switch m := msg.(type) {
	case *mem.ReadReq:
		out["t"], out["id"] = "req", w.rec.ID("m", meta.ID)
		out["p"] = ab.Rec{"k": "r", "a": w.addr(m.Address), "n": m.AccessByteSize, "d": []int{}, "m": []int{}}
	case *mem.WriteReq:
		out["t"], out["id"] = "req", w.rec.ID("m", meta.ID)
		out["p"] = ab.Rec{"k": "w", "a": w.addr(m.Address), "n": uint64(len(m.Data)), "d": ab.Bytes(m.Data), "m": ab.Bools(m.DirtyMask)}
	case *mem.DataReadyRsp:
		out["t"], out["id"] = "rsp", w.rec.ID("m", meta.ID)
		out["to"], out["k"], out["d"] = w.rec.ID("m", m.GetRspTo()), "dr", ab.Bytes(m.Data)
	case *mem.WriteDoneRsp:
		out["t"], out["id"] = "rsp", w.rec.ID("m", meta.ID)
		out["to"], out["k"], out["d"] = w.rec.ID("m", m.GetRspTo()), "wd", []int{}
	case *rdma.DrainReq:
		out["t"], out["c"] = "ctl", "drain"
	case *rdma.RestartReq:
		out["t"], out["c"] = "ctl", "restart"
	case *rdma.DrainRsp:
		out["t"], out["c"] = "ctl", "drainrsp"
	case *rdma.RestartRsp:
		out["t"], out["c"] = "ctl", "restartrsp"
	default:
		out["t"], out["c"] = "other", fmt.Sprintf("%T", msg)
	}
	return out
}

var hookNames = map[*sim.HookPos]string{
	sim.HookPosPortMsgSend: "Send", sim.HookPosPortMsgRetrieveIncoming: "Take",
	sim.HookPosPortMsgRecvd: "Recv", sim.HookPosPortMsgRetrieveOutgoing: "Pull",
}

// stepName classifies a component event for "Await" steps (driver bookkeeping only).
func stepName(e, k string, m ab.Rec) string {
	switch {
	case e == "Send" && k == "rqo":
		return "FwdOut"
	case e == "Send" && k == "dti":
		return "FwdIn"
	case e == "Send" && k == "dto":
		return "RspOut"
	case e == "Send" && k == "rqi":
		return "RspIn"
	case e == "Take" && k == "ctl" && m["c"] == "drain":
		return "TakeDrain"
	case e == "Send" && k == "ctl" && m["c"] == "drainrsp":
		return "DrainAck"
	case e == "Send" && k == "ctl" && m["c"] == "restartrsp":
		return "Restart"
	}
	return ""
}

func baseWorld(rec *ab.Recorder, cfg Config) *world {
	w := &world{rec: rec, eng: ab.NewEngine(), cfg: cfg, comps: map[int]*rdma.Comp{},
		ports: map[int]map[string]sim.Port{}, byNm: map[sim.RemotePort]sim.Port{},
		root: map[string]int{}, lastReq: map[int]map[string]mem.AccessReq{}, phase: map[int]string{},
		count: map[int]map[string]int{}, expect: map[int]map[string]int{}, stats: map[string]int{}, unit: 1}
	rec.ResetIDs()
	return w
}

func newWorld(rec *ab.Recorder, cfg Config) *world {
	w := baseWorld(rec, cfg)
	remote := mem.NewBankedAddressPortMapper(cfg.Span)
	for g := 0; g <= cfg.NGpu; g++ {
		remote.LowModules = append(remote.LowModules, compPort(g, "RDMADataOutside"))
	}
	conn := ab.NewConn("Net")
	for _, g := range cfg.Comps {
		g := g
		local := mem.NewInterleavedAddressPortMapper(cfg.Il)
		for b := 0; b < cfg.Nb; b++ {
			local.LowModules = append(local.LowModules, sim.RemotePort(fmt.Sprintf("L2_%d_%d", g, b)))
		}
		c := rdma.MakeBuilder().WithEngine(w.eng).WithFreq(1 * sim.GHz).WithBufferSize(cfg.Buf).
			WithLocalModules(local).WithRemoteModules(remote).
			WithOutgoingReqPerCycle(cfg.Widths[0]).WithOutgoingRspPerCycle(cfg.Widths[1]).
			WithIncomingReqPerCycle(cfg.Widths[2]).WithIncomingRspPerCycle(cfg.Widths[3]).
			Build(fmt.Sprintf("R%d", g))
		w.attach(g, c, conn)
	}
	return w
}

// attach registers engine c as GPU g and hooks its five ports (conn nil: the ports are already plugged).
func (w *world) attach(g int, c *rdma.Comp, conn *ab.Conn) {
	{
		w.comps[g] = c
		w.ports[g] = map[string]sim.Port{}
		w.phase[g] = "run"
		w.count[g], w.expect[g] = map[string]int{}, map[string]int{}
		w.lastReq[g] = map[string]mem.AccessReq{}
		for long, k := range portKeys {
			k := k
			p := c.GetPortByName(long)
			w.ports[g][k] = p
			w.byNm[p.AsRemote()] = p
			if conn != nil {
				conn.PlugIn(p)
			}
			p.AcceptHook(ab.HookFn(func(ctx sim.HookCtx) {
				e, ok := hookNames[ctx.Pos]
				if !ok {
					return
				}
				msg := ctx.Item.(sim.Msg)
				m := w.dump(msg)
				w.rec.Emit(e, ab.Rec{"g": g, "k": k, "m": m})
				if s := stepName(e, k, m); s != "" {
					w.count[g][s]++
				}
				w.track(g, e, k, msg)
			}))
		}
	}
}

// track follows which root request a message belongs to, so that scenario steps
// can name messages ("deliver the forwarded copy of request 2").  It only
// steers the environment; the trace is validated whatever the environment did.
func (w *world) track(g int, e, k string, msg sim.Msg) {
	if rsp, ok := msg.(mem.AccessRsp); ok {
		if r, ok := w.root[rsp.GetRspTo()]; ok {
			w.root[msg.Meta().ID] = r
		}
		return
	}
	req, ok := msg.(mem.AccessReq)
	if !ok {
		return
	}
	pair := map[string]string{"rqo": "rqi", "rqi": "rqo", "dti": "dto", "dto": "dti"}
	if (e == "Send" && (k == "rqo" || k == "dti")) || (e == "Take" && (k == "rqi" || k == "dto")) {
		other := w.lastReq[g][pair[k]]
		if other == nil {
			w.lastReq[g][k] = req
			return
		}
		delete(w.lastReq[g], pair[k])
		clone, orig := req, other
		if e == "Take" {
			clone, orig = other, req
		}
		if r, ok := w.root[orig.Meta().ID]; ok {
			w.root[clone.Meta().ID] = r
		}
	}
}

func (w *world) tick(n int) {
	for i := 0; i < n && !w.dead; i++ {
		w.cyc++
		func() {
			defer func() {
				if r := recover(); r != nil {
					w.dead = true
					w.rec.Emit("Panic", ab.Rec{"msg": fmt.Sprint(r)})
				}
			}()
			if w.manual {
				for _, g := range w.compList() {
					if w.comps[g].Tick() {
						w.stats["manual_progress"]++
						w.lastProgress = w.cyc
					}
				}
				return
			}
			w.eng.RunUntil(ab.Cycle(w.cyc))
		}()
	}
}

func (w *world) await(max int, cond func() bool) bool {
	for i := 0; i < max && !cond() && !w.dead; i++ {
		w.tick(1)
	}
	return cond()
}

func bytesOf(d []int) []byte {
	out := make([]byte, len(d))
	for i, x := range d {
		out[i] = byte(x)
	}
	return out
}

func buildReq(src, dst sim.RemotePort, p *Payload) mem.AccessReq {
	if p.K == "r" {
		return mem.ReadReqBuilder{}.WithSrc(src).WithDst(dst).WithAddress(p.A).WithByteSize(p.N).Build()
	}
	mask := make([]bool, len(p.M))
	for i, x := range p.M {
		mask[i] = x != 0
	}
	return mem.WriteReqBuilder{}.WithSrc(src).WithDst(dst).WithAddress(p.A).WithData(bytesOf(p.D)).WithDirtyMask(mask).Build()
}

func buildRsp(q mem.AccessReq, d []int) mem.AccessRsp {
	if rd, ok := q.(*mem.ReadReq); ok {
		data := bytesOf(d)
		_ = rd
		return mem.DataReadyRspBuilder{}.WithSrc(q.Meta().Dst).WithDst(q.Meta().Src).WithRspTo(q.Meta().ID).WithData(data).Build()
	}
	return mem.WriteDoneRspBuilder{}.WithSrc(q.Meta().Dst).WithDst(q.Meta().Src).WithRspTo(q.Meta().ID).Build()
}

func (w *world) isComp(g int) bool { _, ok := w.comps[g]; return ok }

func (w *world) l1Req(c, s int, p *Payload, ord ...int) bool {
	if !w.isComp(c) {
		return false
	}
	port := w.ports[c]["rqi"]
	req := buildReq(sim.RemotePort(fmt.Sprintf("L1_%d_%d", c, s)), port.AsRemote(), p)
	if port.Deliver(req) != nil {
		return false
	}
	w.nRoot++
	w.inFl++
	w.root[req.Meta().ID] = w.nRoot
	if len(ord) > 0 && ord[0] > 0 { // the scenario names its roots itself (steps may have been reordered)
		w.root[req.Meta().ID] = ord[0]
	}
	return true
}

func (w *world) extReq(g, c int, p *Payload, ord ...int) bool {
	if !w.isComp(c) || w.isComp(g) {
		return false
	}
	port := w.ports[c]["dto"]
	req := buildReq(compPort(g, "RDMARequestOutside"), port.AsRemote(), p)
	if port.Deliver(req) != nil {
		return false
	}
	w.nRoot++
	w.inFl++
	w.root[req.Meta().ID] = w.nRoot
	if len(ord) > 0 && ord[0] > 0 { // the scenario names its roots itself (steps may have been reordered)
		w.root[req.Meta().ID] = ord[0]
	}
	return true
}

func (w *world) netTakeReq(c int) bool {
	if !w.isComp(c) {
		return false
	}
	m := w.ports[c]["rqo"].RetrieveOutgoing()
	if m == nil {
		return false
	}
	w.netReq = append(w.netReq, m.(mem.AccessReq))
	return true
}

func (w *world) netTakeRsp(c int) bool {
	if !w.isComp(c) {
		return false
	}
	m := w.ports[c]["dto"].RetrieveOutgoing()
	if m == nil {
		return false
	}
	if _, ok := w.byNm[m.Meta().Dst]; ok {
		w.netRsp = append(w.netRsp, m.(mem.AccessRsp))
	} else {
		w.inFl-- // a scripted peer got its answer
	}
	return true
}

func (w *world) l2Take(c int) bool {
	if !w.isComp(c) {
		return false
	}
	m := w.ports[c]["dti"].RetrieveOutgoing()
	if m == nil {
		return false
	}
	w.l2owed = append(w.l2owed, m.(mem.AccessReq))
	return true
}

func (w *world) l1Take(c int) bool {
	if !w.isComp(c) {
		return false
	}
	if w.ports[c]["rqi"].RetrieveOutgoing() == nil {
		return false
	}
	w.inFl--
	return true
}

// pickReq finds the index of a pending request by root (root 0: by position idx).
func (w *world) pickReq(list []mem.AccessReq, root int, want func(mem.AccessReq) bool) int {
	for i, q := range list {
		if want != nil && !want(q) {
			continue
		}
		if root == 0 || w.root[q.Meta().ID] == root {
			return i
		}
	}
	return -1
}

func (w *world) toComp(q sim.Msg) bool { _, ok := w.byNm[q.Meta().Dst]; return ok }

func (w *world) netDeliverReq(root int) bool {
	i := w.pickReq(w.netReq, root, func(q mem.AccessReq) bool { return w.toComp(q) })
	if i < 0 {
		return false
	}
	q := w.netReq[i]
	if w.byNm[q.Meta().Dst].Deliver(q) != nil {
		return false
	}
	w.netReq = append(w.netReq[:i], w.netReq[i+1:]...)
	return true
}

func (w *world) extAnswer(root int, d []int) bool {
	i := w.pickReq(w.netReq, root, func(q mem.AccessReq) bool { return !w.toComp(q) })
	if i < 0 {
		return false
	}
	q := w.netReq[i]
	back, ok := w.byNm[q.Meta().Src]
	if !ok {
		return false
	}
	if back.Deliver(buildRsp(q, d)) != nil {
		return false
	}
	w.netReq = append(w.netReq[:i], w.netReq[i+1:]...)
	return true
}

func (w *world) l2Rsp(root int, d []int) bool {
	i := w.pickReq(w.l2owed, root, nil)
	if i < 0 {
		return false
	}
	q := w.l2owed[i]
	back, ok := w.byNm[q.Meta().Src]
	if !ok {
		return false
	}
	if back.Deliver(buildRsp(q, d)) != nil {
		return false
	}
	w.l2owed = append(w.l2owed[:i], w.l2owed[i+1:]...)
	return true
}

func (w *world) netDeliverRsp(root int) bool {
	for i, r := range w.netRsp {
		if root != 0 && w.root[r.Meta().ID] != root {
			continue
		}
		p, ok := w.byNm[r.Meta().Dst]
		if !ok || p.Deliver(r) != nil {
			continue
		}
		w.netRsp = append(w.netRsp[:i], w.netRsp[i+1:]...)
		return true
	}
	return false
}

func (w *world) ctrl(c int, k string) bool {
	if !w.isComp(c) {
		return false
	}
	port := w.ports[c]["ctl"]
	src := sim.RemotePort(fmt.Sprintf("CP_%d_0", c))
	var m sim.Msg
	switch {
	case k == "drain" && (w.phase[c] == "run" || w.phase[c] == "restarting"):
		// the next drain may follow the restart at once, before the RestartRsp was taken out of the control port
		m = rdma.DrainReqBuilder{}.WithSrc(src).WithDst(port.AsRemote()).Build()
	case k == "restart" && w.phase[c] == "drained":
		m = rdma.RestartReqBuilder{}.WithSrc(src).WithDst(port.AsRemote()).Build()
	default:
		return false // the command processor never breaks the drain/restart protocol
	}
	if port.Deliver(m) != nil {
		return false
	}
	switch {
	case k == "drain" && w.phase[c] == "restarting":
		w.phase[c] = "restarting_d"
	case k == "drain":
		w.phase[c] = "draining"
	default:
		w.phase[c] = "restarting"
	}
	return true
}

func (w *world) ctrlTake(c int) bool {
	if !w.isComp(c) {
		return false
	}
	m := w.ports[c]["ctl"].RetrieveOutgoing()
	if m == nil {
		return false
	}
	switch m.(type) {
	case *rdma.DrainRsp:
		w.phase[c] = "drained"
	case *rdma.RestartRsp:
		if w.phase[c] == "restarting_d" {
			w.phase[c] = "draining"
		} else {
			w.phase[c] = "run"
		}
	}
	return true
}

const awaitMax = 12

func (w *world) step(s Step) {
	ok := true
	has := func(k string) func() bool {
		return func() bool { return w.isComp(s.C) && w.ports[s.C][k].PeekOutgoing() != nil }
	}
	switch s.A {
	case "L1Req":
		ok = w.l1Req(s.C, s.S, s.P, s.Root)
		if !ok {
			w.tick(2)
			ok = w.l1Req(s.C, s.S, s.P, s.Root)
		}
	case "ExtReq":
		ok = w.extReq(s.G, s.C, s.P, s.Root)
		if !ok {
			w.tick(2)
			ok = w.extReq(s.G, s.C, s.P, s.Root)
		}
	case "NetTakeReq":
		w.await(awaitMax, has("rqo"))
		ok = w.netTakeReq(s.C)
	case "NetTakeRsp":
		w.await(awaitMax, has("dto"))
		ok = w.netTakeRsp(s.C)
	case "L2Take":
		w.await(awaitMax, has("dti"))
		ok = w.l2Take(s.C)
	case "L1Take":
		w.await(awaitMax, has("rqi"))
		ok = w.l1Take(s.C)
	case "CtrlTake":
		w.await(awaitMax, has("ctl"))
		ok = w.ctrlTake(s.C)
	case "NetDeliverReq":
		ok = w.netDeliverReq(s.Root)
	case "NetDeliverRsp":
		ok = w.netDeliverRsp(s.Root)
	case "ExtAnswer":
		ok = w.extAnswer(s.Root, s.D)
	case "L2Rsp":
		ok = w.l2Rsp(s.Root, s.D)
	case "Ctrl":
		ok = w.ctrl(s.C, s.K)
	case "Await":
		if w.isComp(s.C) {
			w.expect[s.C][s.E]++
			ok = w.await(awaitMax, func() bool { return w.count[s.C][s.E] >= w.expect[s.C][s.E] })
		}
	case "Tick":
		n := s.N
		if n == 0 {
			n = 1
		}
		w.tick(n)
	default:
		panic("unknown step " + s.A)
	}
	if ok {
		w.stats["steps_done"]++
	} else {
		w.stats["steps_skipped"]++
		w.stats["skip_"+s.A]++
		if os.Getenv("C18_DEBUG") != "" {
			js, _ := json.Marshal(s)
			fmt.Fprintf(os.Stderr, "skipped at cycle %d: %s\n", w.cyc, js)
		}
	}
}

func (w *world) compList() []int {
	out := append([]int{}, w.cfg.Comps...)
	sort.Ints(out)
	return out
}

// finish completes the drain protocol and serves everything until neither the
// components nor the environment have anything left to do; then Quiesce is
// logged.  Whether the run really is complete is judged by the trace spec from
// the logged events alone.
func (w *world) finish() {
	if w.dead {
		return
	}
	for i := 0; i < 2000; i++ {
		progress := false
		for _, c := range w.compList() {
			for w.ctrlTake(c) {
				progress = true
			}
			if w.phase[c] == "drained" {
				progress = w.ctrl(c, "restart") || progress
			}
			for w.netTakeReq(c) || w.netTakeRsp(c) || w.l2Take(c) || w.l1Take(c) {
				progress = true
			}
		}
		for w.netDeliverReq(0) || w.netDeliverRsp(0) {
			progress = true
		}
		for w.extAnswer(0, []int{0xE0, len(w.netReq)}) || w.l2Rsp(0, []int{0xAB, len(w.l2owed)}) {
			progress = true
		}
		before := w.eng.Events
		w.tick(1)
		if w.dead {
			return
		}
		if w.eng.Events != before || (w.manual && w.lastProgress == w.cyc) {
			progress = true
		}
		if !progress && w.eng.Pending() == 0 {
			break
		}
	}
	w.rec.Emit("Quiesce", ab.Rec{"pending_events": w.eng.Pending(), "net": len(w.netReq) + len(w.netRsp),
		"l2owed": len(w.l2owed), "open": w.inFl, "cycle": w.cyc})
}

func randPayload(rng *rand.Rand, cfg Config, owner int) *Payload {
	a := uint64(owner)*cfg.Span + uint64(rng.Intn(int(cfg.Span)))
	if rng.Intn(3) == 0 { // range boundaries
		a = uint64(owner) * cfg.Span
		if rng.Intn(2) == 0 {
			a += cfg.Span - 1
		}
	}
	if rng.Intn(2) == 0 {
		return &Payload{K: "r", A: a, N: uint64(1 << rng.Intn(4))}
	}
	p := &Payload{K: "w", A: a}
	n := 1 + rng.Intn(6)
	for i := 0; i < n; i++ {
		p.D = append(p.D, rng.Intn(256))
		p.M = append(p.M, rng.Intn(2))
	}
	p.N = uint64(n)
	return p
}

func randData(rng *rand.Rand) []int {
	d := make([]int, 1+rng.Intn(6))
	for i := range d {
		d[i] = rng.Intn(256)
	}
	return d
}

// random plays an adversarial environment: random issue order, network delay
// and reordering, L2 and peer answers in random order, back-pressure on every
// port, drain requests at random points.
func (w *world) random(rng *rand.Rand, n, drains int) {
	comps := w.compList()
	var exts []int
	for g := 0; g <= w.cfg.NGpu; g++ {
		if !w.isComp(g) {
			exts = append(exts, g)
		}
	}
	issued := 0
	lazy := rng.Intn(3)    // 0: eager movers, 2: lots of back-pressure
	stall := map[int]int{} // engine -> steps during which its control responses are not taken
	for steps := 0; steps < 60*n+300 && !w.dead && (issued < n || w.inFl > 0); steps++ {
		c := comps[rng.Intn(len(comps))]
		switch rng.Intn(16) {
		case 0, 1, 2:
			if issued >= n {
				break
			}
			owner := rng.Intn(w.cfg.NGpu + 1)
			if owner == c && rng.Intn(20) != 0 {
				break
			}
			if w.l1Req(c, rng.Intn(3), randPayload(rng, w.cfg, owner)) {
				issued++
			}
		case 3:
			if issued < n && len(exts) > 0 && w.extReq(exts[rng.Intn(len(exts))], c, randPayload(rng, w.cfg, c)) {
				issued++
			}
		case 4:
			w.netTakeReq(c)
		case 5:
			w.netTakeRsp(c)
		case 6:
			w.l2Take(c)
		case 7:
			w.l1Take(c)
		case 8, 9:
			if len(w.netReq) > 0 {
				q := w.netReq[rng.Intn(len(w.netReq))]
				if w.toComp(q) {
					w.netDeliverReq(w.root[q.Meta().ID])
				} else {
					w.extAnswer(w.root[q.Meta().ID], randData(rng))
				}
			}
		case 10:
			if len(w.netRsp) > 0 {
				w.netDeliverRsp(w.root[w.netRsp[rng.Intn(len(w.netRsp))].Meta().ID])
			}
		case 11, 12:
			if len(w.l2owed) > 0 {
				w.l2Rsp(w.root[w.l2owed[rng.Intn(len(w.l2owed))].Meta().ID], randData(rng))
			}
		case 13:
			if drains > 0 && rng.Intn(6) == 0 && w.phase[c] == "run" && w.ctrl(c, "drain") {
				drains--
			} else if rng.Intn(3) == 0 && w.ctrl(c, "restart") && rng.Intn(2) == 0 {
				// drain again at once and leave the RestartRsp in the control port for a while: the acknowledgement
				// of the new drain has to wait for room while requests of other GPUs keep arriving
				w.tick(1 + rng.Intn(2))
				if w.ctrl(c, "drain") {
					stall[c] = 8 + rng.Intn(40)
				}
			}
		case 14:
			if stall[c] > 0 {
				// meanwhile something from outside, if there is anything to deliver or a peer to send it
				if len(exts) > 0 && issued < n+4 && w.extReq(exts[rng.Intn(len(exts))], c, randPayload(rng, w.cfg, c)) {
					issued++
				}
				break
			}
			w.ctrlTake(c)
		case 15:
			if lazy == 0 {
				for _, c := range comps {
					for w.netTakeReq(c) || w.netTakeRsp(c) || w.l2Take(c) || w.l1Take(c) {
					}
				}
			}
		}
		for g := range stall {
			if stall[g] > 0 {
				stall[g]--
			}
		}
		if rng.Intn(3+lazy) < 2 {
			w.tick(1)
		}
	}
}

// ---------------------------------------------------------------- real platform
// platform builds the real multi-GPU timing platform with the repository's own
// builders and exercises the RDMA engines in situ: their ports stay plugged into
// the platform's connections, the platform's engine is never run, the engines
// are stepped by calling Tick() and the harness moves the messages.  What is
// under test here is the configuration the builders gave the engines (the
// RemoteRDMAAddressTable of timingconfig, the local module finder of the GPU
// builder).  The memory range each GPU regards as local is first measured on the
// engines themselves (unlogged probes of the local module finder: local
// addresses go to an L2, all others are bounced to RDMARequestInside); the logged
// run then sends accesses from every GPU to addresses of every other GPU's
// range (boundaries included) all the way to the owner's L2 and back.
type memRange struct{ lo, hi uint64 }

const line = 64

func measureLocalRange(c *rdma.Comp, g int) (memRange, bool) {
	dto, dti := c.GetPortByName("RDMADataOutside"), c.GetPortByName("RDMADataInside")
	bounce := c.GetPortByName("RDMARequestInside").AsRemote()
	isLocal := func(a uint64) bool {
		req := mem.ReadReqBuilder{}.WithSrc("Probe").WithDst(dto.AsRemote()).WithAddress(a).WithByteSize(4).Build()
		if dto.Deliver(req) != nil {
			panic("probe: cannot deliver")
		}
		c.Tick()
		out := dti.RetrieveOutgoing()
		if out == nil {
			panic("probe: request not handed on")
		}
		local := out.Meta().Dst != bounce
		// answer, so that no transaction is left behind in the engine
		rsp := mem.DataReadyRspBuilder{}.WithSrc(out.Meta().Dst).WithDst(dti.AsRemote()).WithRspTo(out.Meta().ID).WithData([]byte{0, 0, 0, 0}).Build()
		if dti.Deliver(rsp) != nil {
			panic("probe: cannot answer")
		}
		c.Tick()
		if dto.RetrieveOutgoing() == nil {
			panic("probe: no answer")
		}
		return local
	}
	const stride = 256 << 20
	var inside uint64
	found := false
	for a := uint64(0); a < 1<<38; a += stride {
		if isLocal(a) {
			inside, found = a, true
			break
		}
	}
	if !found {
		return memRange{}, false
	}
	lo, hi := uint64(0), inside // smallest local line in (lo, hi]: isLocal(hi) holds
	if isLocal(0) {
		hi = 0
	}
	for hi-lo > line && hi != 0 {
		mid := (lo + (hi-lo)/2) / line * line
		if isLocal(mid) {
			hi = mid
		} else {
			lo = mid
		}
	}
	r := memRange{lo: hi}
	lo, hi = inside, uint64(1<<40) // first non-local line after inside in (lo, hi]
	for hi-lo > line {
		mid := (lo + (hi-lo)/2) / line * line
		if isLocal(mid) {
			lo = mid
		} else {
			hi = mid
		}
	}
	r.hi = hi
	return r, true
}

// tableRange measures, on engine c's RemoteRDMAAddressTable, the address range that is routed to port dst.
func tableRange(c *rdma.Comp, dst sim.RemotePort) (memRange, bool) {
	routed := func(a uint64) (ok bool) {
		defer func() {
			if recover() != nil {
				ok = false
			}
		}()
		return c.RemoteRDMAAddressTable.Find(a) == dst
	}
	const stride = 256 << 20
	var inside uint64
	found := false
	for a := uint64(0); a < 1<<38; a += stride {
		if routed(a) {
			inside, found = a, true
			break
		}
	}
	if !found {
		return memRange{}, false
	}
	lo, hi := uint64(0), inside
	if routed(0) {
		hi = 0
	}
	for hi-lo > line && hi != 0 {
		mid := (lo + (hi-lo)/2) / line * line
		if routed(mid) {
			hi = mid
		} else {
			lo = mid
		}
	}
	r := memRange{lo: hi}
	lo, hi = inside, uint64(1<<40)
	for hi-lo > line {
		mid := (lo + (hi-lo)/2) / line * line
		if routed(mid) {
			lo = mid
		} else {
			hi = mid
		}
	}
	r.hi = hi
	return r, true
}

func platform(rec *ab.Recorder, gpuType string, n int, rng *rand.Rand, stats map[string]int) {
	s := simulation.MakeBuilder().WithoutMonitoring().Build()
	defer s.Terminate()
	logged := false
	defer func() {
		// a panic of the real engine during the unlogged measurement is real-code behaviour too
		if r := recover(); r != nil {
			if !logged {
				rec.Emit("Reset", ab.Rec{"comps": []int{}, "ranges": [][3]uint64{}, "il": 1, "nb": 0, "platform": gpuType, "ngpu": n})
			}
			rec.Emit("Panic", ab.Rec{"msg": fmt.Sprint(r), "during": "measuring the local ranges"})
			stats["panics"]++
			stats["platform_runs"]++
		}
	}()
	timingconfig.MakeBuilder().WithSimulation(s).WithNumGPUs(n).WithGPUType(gpuType).Build()
	cfg := Config{NGpu: n, Buf: 128}
	ranges := map[int]memRange{}
	engines := map[int]*rdma.Comp{}
	for g := 1; g <= n; g++ {
		c, ok := s.GetComponentByName(fmt.Sprintf("GPU[%d].RDMA", g)).(*rdma.Comp)
		if !ok {
			panic("no RDMA engine for GPU " + strconv.Itoa(g))
		}
		engines[g] = c
		r, ok := measureLocalRange(c, g)
		if !ok {
			panic("GPU " + strconv.Itoa(g) + " regards no address as local")
		}
		ranges[g] = r
		cfg.Comps = append(cfg.Comps, g)
	}
	var rl [][3]uint64
	for g := 1; g <= n; g++ {
		rl = append(rl, [3]uint64{uint64(g), ranges[g].lo / line, ranges[g].hi / line})
	}
	rec.Emit("Reset", ab.Rec{"comps": cfg.Comps, "ranges": rl, "il": 1, "nb": 0, "buf": cfg.Buf, "ngpu": n,
		"platform": gpuType, "unit": line})
	logged = true
	w := baseWorld(rec, cfg)
	w.unit, w.manual, w.nobank = line, true, true
	for g := 1; g <= n; g++ {
		w.attach(g, engines[g], nil)
	}
	for g := 1; g <= n && !w.dead; g++ {
		for o := 1; o <= n && !w.dead; o++ {
			if o == g {
				continue
			}
			r := ranges[o]
			lines := (r.hi - r.lo) / line
			addrs := []uint64{r.lo, r.hi - line, r.lo + uint64(rng.Int63n(int64(lines)))*line, r.lo + uint64(rng.Int63n(int64(lines)))*line}
			// what g's own routing table sends to o must be what o regards as its memory: probe the table's boundaries too
			if tr, ok := tableRange(engines[g], engines[o].GetPortByName("RDMADataOutside").AsRemote()); ok {
				for _, a := range []uint64{tr.lo, tr.hi - line} {
					if a != r.lo && a != r.hi-line {
						addrs = append(addrs, a)
					}
				}
			}
			for i, a := range addrs {
				p := &Payload{K: "r", A: a, N: 4}
				if i%2 == 1 {
					p = &Payload{K: "w", A: a, N: 4, D: []int{1 + g, 2 + o, i, 7}, M: []int{1, 0, 1, 1}}
				}
				for _, st := range []Step{{A: "L1Req", C: g, S: i % 2, P: p}, {A: "Tick"}, {A: "NetTakeReq", C: g},
					{A: "NetDeliverReq", Root: w.nRoot + 1}, {A: "Tick"}, {A: "L2Take", C: o},
					{A: "L2Rsp", Root: w.nRoot + 1, D: []int{g, o, i, 9}}, {A: "Tick"}, {A: "NetTakeRsp", C: o},
					{A: "NetDeliverRsp", Root: w.nRoot + 1}, {A: "Tick"}, {A: "L1Take", C: g}} {
					if st.Root != 0 && st.A != "NetDeliverReq" {
						st.Root = w.nRoot
					}
					w.step(st)
				}
			}
		}
	}
	w.finish()
	for k, v := range w.stats {
		stats[k] += v
	}
	if w.dead {
		stats["panics"]++
	}
	stats["roots"] += w.nRoot
	stats["platform_runs"]++
}

// sysrun runs a shipped multi-GPU workload on the real timing platform with the real
// engine and only listens on the RDMA ports: every environment event (L1s, L2s, the PCIe
// network) is then produced by real components.  Hooks run in the engine's goroutine
// (serial engine), so the log is totally ordered.
func sysrun(rec *ab.Recorder, spec string, stats map[string]int) {
	f := strings.Split(spec, ":") // workload:gputype:ngpu:size
	n, _ := strconv.Atoi(f[2])
	size, _ := strconv.Atoi(f[3])
	sampling.InitSampledEngine()
	s := simulation.MakeBuilder().WithoutMonitoring().Build()
	timingconfig.MakeBuilder().WithSimulation(s).WithNumGPUs(n).WithGPUType(f[1]).WithMagicMemoryCopy().Build()
	cfg := Config{NGpu: n, Buf: 128}
	ranges := map[int]memRange{}
	engines := map[int]*rdma.Comp{}
	var gpus []int
	for g := 1; g <= n; g++ {
		c := s.GetComponentByName(fmt.Sprintf("GPU[%d].RDMA", g)).(*rdma.Comp)
		engines[g] = c
		r, ok := measureLocalRange(c, g)
		if !ok {
			panic("GPU " + strconv.Itoa(g) + " regards no address as local")
		}
		ranges[g] = r
		cfg.Comps = append(cfg.Comps, g)
		gpus = append(gpus, g)
	}
	var rl [][3]uint64
	for g := 1; g <= n; g++ {
		rl = append(rl, [3]uint64{uint64(g), ranges[g].lo / line, ranges[g].hi / line})
	}
	rec.Emit("Reset", ab.Rec{"comps": cfg.Comps, "ranges": rl, "il": 1, "nb": 0, "buf": cfg.Buf, "ngpu": n,
		"platform": f[1], "unit": line, "workload": spec, "gc": 1})
	w := baseWorld(rec, cfg)
	w.unit, w.nobank = line, true
	for g := 1; g <= n; g++ {
		w.attach(g, engines[g], nil)
	}
	d := s.GetComponentByName("Driver").(*driver.Driver)
	d.Run()
	done := make(chan string, 1)
	go func() {
		defer func() {
			if r := recover(); r != nil {
				done <- fmt.Sprint(r)
			}
		}()
		switch f[0] {
		case "vectoradd", "vectoradd-um":
			b := vectoradd.NewBenchmark(d)
			b.Width, b.Height = uint32(size), 64
			b.SelectGPU(gpus)
			if f[0] == "vectoradd-um" { // unified memory: pages migrate on demand, the driver drains and restarts the RDMA engines
				b.SetUnifiedMemory()
			}
			b.Run()
		case "matrixtranspose":
			b := matrixtranspose.NewBenchmark(d)
			b.Width = size
			b.SelectGPU(gpus)
			b.Run()
		case "fir":
			b := fir.NewBenchmark(d)
			b.Length = size
			b.SelectGPU(gpus)
			b.Run()
		default:
			panic("unknown workload " + f[0])
		}
		done <- ""
	}()
	// A hang is decided structurally: the workload has not returned although the driver's engine has
	// been idle (no event left to run) at every one of 200 consecutive samples (100 ms apart).  The trace then ends
	// with Quiesce and the trace spec decides whether the RDMA engines owe anything.
	idle, hung := 0, false
	for finished := false; !finished && !hung; {
		select {
		case msg := <-done:
			finished = true
			if msg != "" {
				w.dead = true
				rec.Emit("Panic", ab.Rec{"msg": msg})
			}
		case <-time.After(100 * time.Millisecond):
			if d.VerifEngineRunning() {
				idle = 0
			} else {
				idle++
			}
			hung = idle >= 200
		}
	}
	if hung {
		stats["hangs"]++
		rec.Emit("Quiesce", ab.Rec{"workload": spec, "hang": 1})
	} else {
		// The workload returned; the engine goroutine may still be handling left-over events.  Quiesce is
		// logged once the engine has been idle at 5 consecutive samples.  The simulation is deliberately not
		// terminated (Simulation.Terminate while the engine goroutine is still alive makes the tracer panic
		// with "assignment to entry in nil map"; the process exits right after anyway).
		for idle = 0; idle < 5; {
			time.Sleep(10 * time.Millisecond)
			if d.VerifEngineRunning() {
				idle = 0
			} else {
				idle++
			}
		}
		if !w.dead {
			rec.Emit("Quiesce", ab.Rec{"workload": spec})
		}
	}
	for g := range w.comps {
		stats["roots"] += w.count[g]["FwdOut"]
	}
	stats["sysruns"]++
}

func randConfig(rng *rand.Rand) Config {
	ngpu := 2 + rng.Intn(3) // owners 0..ngpu
	var comps []int
	switch rng.Intn(4) {
	case 0: // one real engine, all peers scripted
		comps = []int{1 + rng.Intn(ngpu)}
	case 1, 2: // two real engines back to back (+ scripted peers)
		a := 1 + rng.Intn(ngpu)
		b := 1 + rng.Intn(ngpu-1)
		if b >= a {
			b++
		}
		comps = []int{a, b}
		sort.Ints(comps)
	default: // every GPU real
		for g := 1; g <= ngpu; g++ {
			comps = append(comps, g)
		}
	}
	cfg := Config{Comps: comps, NGpu: ngpu, Span: []uint64{64, 4096, 1 << 20}[rng.Intn(3)],
		Il: []uint64{16, 64}[rng.Intn(2)], Nb: 1 + rng.Intn(4), Buf: 1 + rng.Intn(4)}
	switch rng.Intn(8) {
	case 0, 1:
		cfg.Buf = 128
	case 2, 3:
		cfg.Buf = 1 // one-entry ports: every send can be refused, the control port included
	}
	for i := range cfg.Widths {
		cfg.Widths[i] = 1 + rng.Intn(3)
	}
	return cfg
}

func main() {
	scen := flag.String("scen", "", "scenario file (JSON list)")
	out := flag.String("out", "trace.ndjson", "trace output")
	nrand := flag.Int("random", 0, "number of random runs")
	reqs := flag.Int("reqs", 24, "requests per random run")
	seed := flag.Int64("seed", 1, "seed")
	plat := flag.String("platform", "", "comma separated type:ngpu list of real platforms to probe, e.g. r9nano:2,mi300a:4")
	dist := flag.String("distrun", "", "JSON file with driver-level programs of the family 'remote-written distributed buffer'")
	sys := flag.String("sysrun", "", "comma separated workload:gputype:ngpu:size list of real multi-GPU timing runs to listen to")
	flag.Parse()

	f, err := os.Create(*out)
	if err != nil {
		panic(err)
	}
	bw := bufio.NewWriter(f)
	rec := ab.NewRecorder(bw)
	if *sys != "" || *dist != "" {
		// the engine of a whole-system run lives in the driver's goroutine, where a panic of the simulator cannot be
		// recovered: every line is written through, so that the trace up to the crash survives
		rec = ab.NewRecorder(f)
	}
	traces := 0
	stats := map[string]int{}
	begin := func(cfg Config) *world {
		var rl [][3]uint64
		for g := 0; g <= cfg.NGpu; g++ {
			rl = append(rl, [3]uint64{uint64(g), uint64(g) * cfg.Span, uint64(g+1) * cfg.Span})
		}
		rec.Emit("Reset", ab.Rec{"comps": cfg.Comps, "ranges": rl, "il": cfg.Il, "nb": cfg.Nb, "buf": cfg.Buf,
			"ngpu": cfg.NGpu, "widths": cfg.Widths[:]})
		traces++
		return newWorld(rec, cfg)
	}
	end := func(w *world) {
		w.finish()
		for k, v := range w.stats {
			stats[k] += v
		}
		if w.dead {
			stats["panics"]++
		}
		stats["roots"] += w.nRoot
	}
	if *scen != "" {
		data, err := os.ReadFile(*scen)
		if err != nil {
			panic(err)
		}
		var scs []Scenario
		if err := json.Unmarshal(data, &scs); err != nil {
			panic(err)
		}
		for _, sc := range scs {
			w := begin(sc.Cfg)
			for _, s := range sc.Steps {
				if w.dead {
					break
				}
				w.step(s)
			}
			end(w)
		}
	}
	rng := rand.New(rand.NewSource(*seed))
	for i := 0; i < *nrand; i++ {
		w := begin(randConfig(rng))
		w.random(rng, *reqs, rng.Intn(4))
		end(w)
	}
	if *plat != "" {
		for _, item := range strings.Split(*plat, ",") {
			parts := strings.Split(item, ":")
			n, _ := strconv.Atoi(parts[1])
			platform(rec, parts[0], n, rng, stats)
			traces++
		}
	}
	if *dist != "" {
		traces += distrun(rec, *dist, stats)
	}
	if *sys != "" {
		for _, item := range strings.Split(*sys, ",") {
			sysrun(rec, item, stats)
			traces++
		}
	}
	bw.Flush()
	f.Close()
	stats["traces"] = traces
	stats["events"] = rec.Seq
	js, _ := json.Marshal(stats)
	fmt.Println(string(js))
}
