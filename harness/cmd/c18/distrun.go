package main

// distrun: driver-level programs on the real timing platform for the family
// "remote-written distributed buffer" (C18: final data do not depend on the
// buffer distribution).  A buffer is allocated on one GPU, its pages are placed
// on other GPUs with Distribute / Remap, a copy kernel (the driver's embedded
// one, MemCopyD2D) running on a single GPU stores to all of its pages - remote
// stores go through the RDMA engines into the owner's write-back L2 - and the
// host reads it back with MemCopyD2H.  The log (for DistFlushTrace.tla) has the
// application steps, logged by the program, and what hooks see: flush and copy
// requests on the driver's GPU port, stores handed to an L2 by an RDMA engine.

import (
	"encoding/json"
	"fmt"
	"os"
	"regexp"
	"strconv"
	"time"

	"github.com/sarchlab/akita/v4/mem/mem"
	"github.com/sarchlab/akita/v4/sim"
	"github.com/sarchlab/akita/v4/simulation"
	"github.com/sarchlab/mgpusim/v4/amd/driver"
	"github.com/sarchlab/mgpusim/v4/amd/protocol"
	"github.com/sarchlab/mgpusim/v4/amd/samples/runner/timingconfig"
	"github.com/sarchlab/mgpusim/v4/amd/timing/rdma"

	ab "verifharness/akitabench"
)

// DistOp is one application-level step.
type DistOp struct {
	A    string `json:"a"` // Alloc | Place | Distribute | Store | H2D | D2H
	G    int    `json:"g,omitempty"`
	V    int    `json:"v,omitempty"`
	F    []int  `json:"f,omitempty"`    // Place: owner of every page (Remap page by page)
	GPUs []int  `json:"gpus,omitempty"` // Distribute
}

// DistProgram is a platform plus a sequence of steps on one observed buffer.
type DistProgram struct {
	GPUType string   `json:"gputype"`
	NGpu    int      `json:"ngpu"`
	Pages   int      `json:"pages"`
	Ops     []DistOp `json:"ops"`
}

const pageBytes = 4096

var reCP = regexp.MustCompile(`^GPU\[(\d+)\]\.`)

func gpuOfPort(p sim.RemotePort) int {
	if m := reCP.FindStringSubmatch(string(p)); m != nil {
		g, _ := strconv.Atoi(m[1])
		return g
	}
	return -1
}

// pattern fills the buffer with words that name the version and the position.
func pattern(ver, words int) []uint32 {
	out := make([]uint32, words)
	for i := range out {
		out[i] = uint32(ver)<<24 | uint32(i)
	}
	return out
}

// versionOfPage tells which version page k of data holds (-1: no version's pattern).
func versionOfPage(data []uint32, k int) int {
	per := pageBytes / 4
	zero := true
	for i := k * per; i < (k+1)*per && zero; i++ {
		zero = data[i] == 0
	}
	if zero {
		return 0 // never written
	}
	ver := int(data[k*per] >> 24)
	for i := k * per; i < (k+1)*per; i++ {
		if data[i] != uint32(ver)<<24|uint32(i) {
			return -1
		}
	}
	return ver
}

type distState struct {
	rec     *ab.Recorder
	d       *driver.Driver
	buf     int // 1 while a copy of the observed buffer is in progress, else 0
	ver     int
	k       int
	remote  map[int]bool
	running bool
}

func (st *distState) idle() {
	for n := 0; n < 3; {
		time.Sleep(2 * time.Millisecond)
		if st.d.VerifEngineRunning() {
			n = 0
		} else {
			n++
		}
	}
}

func runDistProgram(rec *ab.Recorder, pr DistProgram, stats map[string]int) {
	s := simulation.MakeBuilder().WithoutMonitoring().Build()
	timingconfig.MakeBuilder().WithSimulation(s).WithNumGPUs(pr.NGpu).WithGPUType(pr.GPUType).Build()
	d := s.GetComponentByName("Driver").(*driver.Driver)
	st := &distState{rec: rec, d: d, remote: map[int]bool{}}
	var gpus []int
	for g := 1; g <= pr.NGpu; g++ {
		gpus = append(gpus, g)
	}
	rec.Emit("Reset", ab.Rec{"gpus": gpus, "pages": pr.Pages, "platform": pr.GPUType})

	// hooks (they run in the engine's goroutine; the program logs only while the engine is idle)
	d.GetPortByName("GPU").AcceptHook(ab.HookFn(func(ctx sim.HookCtx) {
		switch ctx.Pos {
		case sim.HookPosPortMsgSend:
			switch m := ctx.Item.(type) {
			case *protocol.FlushReq:
				rec.Emit("FlushReq", ab.Rec{"g": gpuOfPort(m.Dst)})
			case *protocol.MemCopyD2HReq:
				st.k++
				rec.Emit("D2HSend", ab.Rec{"g": gpuOfPort(m.Dst), "k": st.k, "buf": st.buf, "n": len(m.DstBuffer)})
			case *protocol.MemCopyH2DReq:
				st.k++
				rec.Emit("H2DSend", ab.Rec{"g": gpuOfPort(m.Dst), "k": st.k, "buf": st.buf, "v": st.ver, "n": len(m.SrcBuffer)})
			}
		case sim.HookPosPortMsgRecvd:
			if r, ok := ctx.Item.(*sim.GeneralRsp); ok {
				if _, ok := r.OriginalReq.(*protocol.FlushReq); ok {
					rec.Emit("FlushRsp", ab.Rec{"g": gpuOfPort(r.Src)})
				}
			}
		}
	}))
	for _, g := range gpus {
		g := g
		c := s.GetComponentByName(fmt.Sprintf("GPU[%d].RDMA", g)).(*rdma.Comp)
		c.GetPortByName("RDMADataInside").AcceptHook(ab.HookFn(func(ctx sim.HookCtx) {
			if ctx.Pos != sim.HookPosPortMsgSend {
				return
			}
			if _, ok := ctx.Item.(*mem.WriteReq); ok && !st.remote[g] {
				st.remote[g] = true // the first store of every kernel is enough for the log
				rec.Emit("RemoteStore", ab.Rec{"g": g})
			}
		}))
	}

	d.Run()
	done := make(chan string, 1)
	go func() {
		defer func() {
			if r := recover(); r != nil {
				done <- fmt.Sprint(r)
			}
		}()
		size := uint64(pr.Pages * pageBytes)
		words := pr.Pages * pageBytes / 4
		ctx := d.Init()
		var dst driver.Ptr
		src := map[int]driver.Ptr{}
		home := 0
		for _, op := range pr.Ops {
			switch op.A {
			case "Alloc":
				d.SelectGPU(ctx, op.G)
				dst = d.AllocateMemory(ctx, size)
				if uint64(dst)%pageBytes != 0 {
					panic("harness: buffer not page aligned")
				}
				home = op.G
				rec.Emit("Alloc", ab.Rec{"g": op.G})
			case "Place":
				for k, g := range op.F {
					if g != home {
						d.Remap(ctx, uint64(dst)+uint64(k*pageBytes), pageBytes, g)
					}
				}
				rec.Emit("Place", ab.Rec{"f": op.F, "by": "Remap"})
			case "Distribute":
				got := d.Distribute(ctx, dst, size, op.GPUs)
				var f []int
				for i, n := range got { // the returned byte counts are the placement, in the order of the GPU list
					for j := uint64(0); j < n/pageBytes; j++ {
						f = append(f, op.GPUs[i])
					}
				}
				rec.Emit("Place", ab.Rec{"f": f, "by": "Distribute", "gpus": op.GPUs})
			case "Store":
				d.SelectGPU(ctx, op.G)
				if _, ok := src[op.G]; !ok {
					src[op.G] = d.AllocateMemory(ctx, size)
				}
				st.buf, st.k = 0, 0
				d.MemCopyH2D(ctx, src[op.G], pattern(op.V, words))
				st.idle()
				st.remote = map[int]bool{}
				rec.Emit("Store", ab.Rec{"g": op.G, "v": op.V})
				d.MemCopyD2D(ctx, dst, src[op.G], int(size)) // the copy kernel runs on GPU op.G only
				st.idle()
			case "H2D":
				st.buf, st.k, st.ver = 1, 0, op.V
				d.MemCopyH2D(ctx, dst, pattern(op.V, words))
				st.idle()
				st.buf = 0
			case "D2H":
				out := make([]uint32, words)
				st.buf, st.k = 1, 0
				d.MemCopyD2H(ctx, out, dst)
				st.idle()
				st.buf = 0
				for k := 0; k < pr.Pages; k++ {
					rec.Emit("HostRead", ab.Rec{"k": k + 1, "v": versionOfPage(out, k)})
				}
			default:
				panic("harness: unknown step " + op.A)
			}
		}
		done <- ""
	}()
	// hang: decided structurally, as for -sysrun (engine idle at 200 consecutive samples, program not returned)
	idle := 0
	for {
		select {
		case msg := <-done:
			if msg != "" {
				rec.Emit("Panic", ab.Rec{"msg": msg})
				stats["panics"]++
			} else {
				st.idle()
				rec.Emit("End", nil)
			}
			stats["programs"]++
			return
		case <-time.After(100 * time.Millisecond):
			if d.VerifEngineRunning() {
				idle = 0
			} else {
				idle++
			}
			if idle >= 200 {
				rec.Emit("Hang", ab.Rec{"msg": "engine idle, program not returned"})
				stats["hangs"]++
				stats["programs"]++
				return
			}
		}
	}
}

func distrun(rec *ab.Recorder, file string, stats map[string]int) int {
	data, err := os.ReadFile(file)
	if err != nil {
		panic(err)
	}
	var prs []DistProgram
	if err := json.Unmarshal(data, &prs); err != nil {
		panic(err)
	}
	for _, pr := range prs {
		runDistProgram(rec, pr, stats)
		if stats["hangs"] > 0 {
			break // the hung program's goroutine is still blocked in the driver
		}
	}
	return len(prs)
}
