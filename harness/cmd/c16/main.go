// c16 drives the real addresstranslator.Comp (public builder) with a scripted
// translation service and memory, through scenario files exported from TLC
// behaviours and through seeded adversarial environments, and writes a
// port-event trace for AddrTransTrace.tla.
package main

import (
	"bufio"
	"encoding/json"
	"flag"
	"fmt"
	"math/rand"
	"os"
	"sort"
	"strconv"
	"strings"

	"github.com/sarchlab/akita/v4/mem/mem"
	"github.com/sarchlab/akita/v4/mem/vm"
	"github.com/sarchlab/akita/v4/sim"
	"github.com/sarchlab/mgpusim/v4/amd/timing/mem/addresstranslator"

	ab "verifharness/akitabench"
)

// Payload mirrors the payload record of AddrTrans.tla (addresses are <<hi, lo>>, value hi*2^30+lo).
type Payload struct {
	K   string `json:"k"`
	A   []int  `json:"a"`
	N   uint64 `json:"n"`
	D   []int  `json:"d"`
	M   []int  `json:"m"`
	PID int    `json:"pid"`
}

// Step is one environment step of a scenario.
type Step struct {
	A   string   `json:"a"`
	P   *Payload `json:"p,omitempty"`
	Src int      `json:"src,omitempty"`
	K   string   `json:"k,omitempty"`
	Q   int      `json:"q,omitempty"`
	PA  []int    `json:"pa,omitempty"`
	B   int      `json:"b,omitempty"`
	D   []int    `json:"d,omitempty"`
	E   string   `json:"e,omitempty"`
	N   int      `json:"n,omitempty"`
}

// Scenario is a configuration plus environment steps.
type Scenario struct {
	Log2PS int    `json:"log2ps"`
	Width  int    `json:"width"`
	NMem   int    `json:"nmem"`
	NTlb   int    `json:"ntlb"`
	Dev    int    `json:"dev"`
	Steps  []Step `json:"steps"`
}

const loBits = 30

func pair(a uint64) []int   { return []int{int(a >> loBits), int(a & (1<<loBits - 1))} }
func unpair(p []int) uint64 { return uint64(p[0])<<loBits | uint64(p[1]) }

// pageMapper routes by page number: the provider of address a is ports[(a>>log2ps) % len(ports)].
// It is the harness's own definition of "the provider for this address".
type pageMapper struct {
	ports  []sim.RemotePort
	log2ps uint64
}

func (m *pageMapper) Find(a uint64) sim.RemotePort {
	return m.ports[(a>>m.log2ps)%uint64(len(m.ports))]
}

func benchPorts(prefix string, n int) []sim.RemotePort {
	out := make([]sim.RemotePort, n)
	for i := range out {
		out[i] = sim.RemotePort(fmt.Sprintf("%s%d.Top", prefix, i))
	}
	return out
}

// portIndex extracts k from "<prefix><k>.<anything>"; -1 if the name has another shape.
func portIndex(prefix string, p sim.RemotePort) int {
	s := string(p)
	if !strings.HasPrefix(s, prefix) {
		return -1
	}
	s = s[len(prefix):]
	if i := strings.Index(s, "."); i >= 0 {
		s = s[:i]
	}
	k, err := strconv.Atoi(s)
	if err != nil {
		return -1
	}
	return k
}

type ptKey struct {
	pid   int
	vpage uint64
}

type run struct {
	rec                *ab.Recorder
	eng                *ab.Engine
	top, bot, tr, ctrl sim.Port
	cfg                Scenario
	cyc                int
	memOwed            map[int]mem.AccessReq
	tlbOwed            map[int]*vm.TranslationReq
	pt                 map[ptKey]uint64
	count, used        map[string]int
	flushing           bool
	stats              map[string]int
}

func payloadOf(m mem.AccessReq) ab.Rec {
	switch r := m.(type) {
	case *mem.ReadReq:
		return ab.Rec{"k": "r", "a": pair(r.Address), "n": r.AccessByteSize, "d": []int{}, "m": []int{}, "pid": int(r.PID)}
	case *mem.WriteReq:
		return ab.Rec{"k": "w", "a": pair(r.Address), "n": uint64(len(r.Data)), "d": ab.Bytes(r.Data), "m": maskOf(r.DirtyMask), "pid": int(r.PID)}
	}
	panic("unknown request type")
}

// maskOf logs a dirty mask: a nil mask (every byte is written) is [-1] (NilMask in the spec).
func maskOf(m []bool) []int {
	if m == nil {
		return []int{-1}
	}
	return ab.Bools(m)
}

// buildWrite creates a write request from a payload; M == [-1] means "no mask" (nil).
func buildWrite(from, to sim.RemotePort, p *Payload) *mem.WriteReq {
	b := mem.WriteReqBuilder{}.WithSrc(from).WithDst(to).WithAddress(unpair(p.A)).
		WithData(bytesOf(p.D)).WithPID(vm.PID(p.PID))
	if !(len(p.M) == 1 && p.M[0] == -1) {
		mask := make([]bool, len(p.M))
		for i, x := range p.M {
			mask[i] = x != 0
		}
		b = b.WithDirtyMask(mask)
	}
	return b.Build()
}

// randMask: a third of the writes carry no mask, the rest one flag per byte (sometimes all false / all true).
func randMask(rng *rand.Rand, n int) []int {
	switch rng.Intn(6) {
	case 0, 1:
		return []int{-1}
	case 2:
		return make([]int, n)
	}
	m := make([]int, n)
	for i := range m {
		m[i] = rng.Intn(2)
	}
	return m
}

func rspData(m mem.AccessRsp) []int {
	switch r := m.(type) {
	case *mem.DataReadyRsp:
		return ab.Bytes(r.Data)
	case *mem.WriteDoneRsp:
		return []int{-1}
	}
	panic("unknown response type")
}

func newRun(rec *ab.Recorder, cfg Scenario) *run {
	r := &run{rec: rec, eng: ab.NewEngine(), cfg: cfg, memOwed: map[int]mem.AccessReq{}, tlbOwed: map[int]*vm.TranslationReq{},
		pt: map[ptKey]uint64{}, count: map[string]int{}, used: map[string]int{}, stats: map[string]int{}}
	rec.ResetIDs()
	rec.SetBase("bot", 101)
	rec.SetBase("tr", 201)
	at := addresstranslator.MakeBuilder().WithEngine(r.eng).WithFreq(1 * sim.GHz).
		WithNumReqPerCycle(cfg.Width).WithLog2PageSize(uint64(cfg.Log2PS)).WithDeviceID(uint64(cfg.Dev)).
		WithMemoryProviderMapper(&pageMapper{benchPorts("Mem", cfg.NMem), uint64(cfg.Log2PS)}).
		WithTranslationProviderMapper(&pageMapper{benchPorts("TLB", cfg.NTlb), uint64(cfg.Log2PS)}).
		Build("AT")
	r.top, r.bot = at.GetPortByName("Top"), at.GetPortByName("Bottom")
	r.tr, r.ctrl = at.GetPortByName("Translation"), at.GetPortByName("Control")
	conn := ab.NewConn("Conn")
	for _, p := range []sim.Port{r.top, r.bot, r.tr, r.ctrl} {
		conn.PlugIn(p)
	}
	r.hook()
	return r
}

// hook attaches the port-event recorder to the four ports of the translator.
func (r *run) hook() {
	rec := r.rec
	emit := func(e string, f ab.Rec) {
		r.count[e]++
		rec.Emit(e, f)
	}
	known := func(space, id string) int {
		if v, ok := rec.Known(space, id); ok {
			return v
		}
		return 0
	}
	r.top.AcceptHook(ab.HookFn(func(ctx sim.HookCtx) {
		switch m := ctx.Item.(type) {
		case mem.AccessReq:
			switch ctx.Pos {
			case sim.HookPosPortMsgRecvd:
				emit("EnvReq", ab.Rec{"id": rec.ID("top", m.Meta().ID), "src": portIndex("Agent", m.Meta().Src), "p": payloadOf(m)})
			case sim.HookPosPortMsgRetrieveIncoming:
				emit("Accept", ab.Rec{"id": known("top", m.Meta().ID)})
			}
		case mem.AccessRsp:
			switch ctx.Pos {
			case sim.HookPosPortMsgSend:
				emit("RspUp", ab.Rec{"id": known("top", m.GetRspTo()), "d": rspData(m), "dst": portIndex("Agent", m.Meta().Dst)})
			case sim.HookPosPortMsgRetrieveOutgoing:
				emit("EnvTakeUp", ab.Rec{"id": known("top", m.GetRspTo())})
			}
		default:
			emit("Alien", ab.Rec{"port": "Top", "type": fmt.Sprintf("%T", ctx.Item)})
		}
	}))
	r.tr.AcceptHook(ab.HookFn(func(ctx sim.HookCtx) {
		switch m := ctx.Item.(type) {
		case *vm.TranslationReq:
			switch ctx.Pos {
			case sim.HookPosPortMsgSend:
				emit("TrSend", ab.Rec{"id": rec.ID("tr", m.ID), "va": pair(m.VAddr), "pid": int(m.PID), "dev": int(m.DeviceID),
					"dst": portIndex("TLB", m.Dst)})
			case sim.HookPosPortMsgRetrieveOutgoing:
				emit("EnvTakeLookup", ab.Rec{"id": known("tr", m.ID)})
			}
		case *vm.TranslationRsp:
			switch ctx.Pos {
			case sim.HookPosPortMsgRecvd:
				emit("EnvTlbRsp", ab.Rec{"id": known("tr", m.RespondTo), "pa": pair(m.Page.PAddr)})
			case sim.HookPosPortMsgRetrieveIncoming:
				emit("TrTake", ab.Rec{"id": known("tr", m.RespondTo)})
			}
		default:
			emit("Alien", ab.Rec{"port": "Translation", "type": fmt.Sprintf("%T", ctx.Item)})
		}
	}))
	r.bot.AcceptHook(ab.HookFn(func(ctx sim.HookCtx) {
		switch m := ctx.Item.(type) {
		case mem.AccessReq:
			switch ctx.Pos {
			case sim.HookPosPortMsgSend:
				emit("Forward", ab.Rec{"id": rec.ID("bot", m.Meta().ID), "p": payloadOf(m), "dst": portIndex("Mem", m.Meta().Dst)})
			case sim.HookPosPortMsgRetrieveOutgoing:
				emit("EnvTakeDown", ab.Rec{"id": known("bot", m.Meta().ID)})
			}
		case mem.AccessRsp:
			switch ctx.Pos {
			case sim.HookPosPortMsgRecvd:
				emit("EnvMemRsp", ab.Rec{"id": known("bot", m.GetRspTo()), "d": rspData(m)})
			case sim.HookPosPortMsgRetrieveIncoming:
				emit("BotTake", ab.Rec{"id": known("bot", m.GetRspTo())})
			}
		default:
			emit("Alien", ab.Rec{"port": "Bottom", "type": fmt.Sprintf("%T", ctx.Item)})
		}
	}))
	r.ctrl.AcceptHook(ab.HookFn(func(ctx sim.HookCtx) {
		switch m := ctx.Item.(type) {
		case *mem.ControlMsg:
			switch ctx.Pos {
			case sim.HookPosPortMsgRecvd:
				k := "discard"
				if m.Restart {
					k = "restart"
				}
				emit("EnvCtrl", ab.Rec{"k": k})
			case sim.HookPosPortMsgRetrieveIncoming:
				emit("CtrlTake", nil)
			case sim.HookPosPortMsgSend:
				emit("CtrlRsp", ab.Rec{"done": m.NotifyDone})
			case sim.HookPosPortMsgRetrieveOutgoing:
				emit("EnvTakeCtrl", nil)
			}
		}
	}))
}

func (r *run) tick(n int) {
	for i := 0; i < n; i++ {
		r.cyc++
		r.eng.RunUntil(ab.Cycle(r.cyc))
	}
}

// await ticks until cond holds, at most max cycles.
func (r *run) await(max int, cond func() bool) bool {
	for i := 0; i < max && !cond(); i++ {
		r.tick(1)
	}
	return cond()
}

func bytesOf(d []int) []byte {
	out := make([]byte, len(d))
	for i, x := range d {
		out[i] = byte(x)
	}
	return out
}

func (r *run) envReq(src int, p *Payload) bool {
	from := sim.RemotePort(fmt.Sprintf("Agent%d.Port", src))
	var req mem.AccessReq
	if p.K == "r" {
		req = mem.ReadReqBuilder{}.WithSrc(from).WithDst(r.top.AsRemote()).WithAddress(unpair(p.A)).
			WithByteSize(p.N).WithPID(vm.PID(p.PID)).Build()
	} else {
		req = buildWrite(from, r.top.AsRemote(), p)
	}
	return r.top.Deliver(req) == nil
}

func (r *run) takeLookup() bool {
	m := r.tr.RetrieveOutgoing()
	if m == nil {
		return false
	}
	req := m.(*vm.TranslationReq)
	id, _ := r.rec.Known("tr", req.ID)
	r.tlbOwed[id] = req
	return true
}

// tlbRsp answers lookup q from the run's page table; `suggest` fills a missing entry.
func (r *run) tlbRsp(q int, suggest uint64) bool {
	req, ok := r.tlbOwed[q]
	if !ok {
		return false
	}
	key := ptKey{int(req.PID), req.VAddr &^ (1<<uint(r.cfg.Log2PS) - 1)} // the page the lookup asks about
	pa, ok := r.pt[key]
	if !ok {
		pa = suggest
	}
	page := vm.Page{PID: req.PID, VAddr: req.VAddr, PAddr: pa, PageSize: 1 << uint(r.cfg.Log2PS), Valid: true, DeviceID: req.DeviceID}
	rsp := vm.TranslationRspBuilder{}.WithSrc(req.Dst).WithDst(r.tr.AsRemote()).WithRspTo(req.ID).WithPage(page).Build()
	if r.tr.Deliver(rsp) != nil {
		return false
	}
	r.pt[key] = pa
	delete(r.tlbOwed, q)
	return true
}

func (r *run) takeDown() bool {
	m := r.bot.RetrieveOutgoing()
	if m == nil {
		return false
	}
	req := m.(mem.AccessReq)
	id, _ := r.rec.Known("bot", req.Meta().ID)
	r.memOwed[id] = req
	return true
}

func (r *run) memRsp(b int, d []int) bool {
	req, ok := r.memOwed[b]
	if !ok {
		return false
	}
	var rsp sim.Msg
	switch req.(type) {
	case *mem.ReadReq:
		rsp = mem.DataReadyRspBuilder{}.WithSrc(req.Meta().Dst).WithDst(r.bot.AsRemote()).
			WithRspTo(req.Meta().ID).WithData(bytesOf(d)).Build()
	default:
		rsp = mem.WriteDoneRspBuilder{}.WithSrc(req.Meta().Dst).WithDst(r.bot.AsRemote()).
			WithRspTo(req.Meta().ID).Build()
	}
	if r.bot.Deliver(rsp) != nil {
		return false
	}
	delete(r.memOwed, b)
	return true
}

func (r *run) envCtrl(k string) bool {
	b := mem.ControlMsgBuilder{}.WithSrc("Ctrl.Port").WithDst(r.ctrl.AsRemote())
	if k == "discard" {
		b = b.ToDiscardTransactions()
	} else {
		b = b.ToRestart()
	}
	if r.ctrl.Deliver(b.Build()) != nil {
		return false
	}
	r.flushing = k == "discard"
	return true
}

const awaitMax = 12

var verbose bool

func (r *run) step(s Step) {
	ok := true
	switch s.A {
	case "EnvReq":
		ok = r.envReq(s.Src, s.P)
		if !ok {
			r.tick(2)
			ok = r.envReq(s.Src, s.P)
		}
	case "EnvTakeLookup":
		r.await(awaitMax, func() bool { return r.tr.PeekOutgoing() != nil })
		ok = r.takeLookup()
	case "EnvTlbRsp":
		r.await(awaitMax, func() bool { _, ok := r.tlbOwed[s.Q]; return ok })
		ok = r.tlbRsp(s.Q, unpair(s.PA))
	case "EnvTakeDown":
		r.await(awaitMax, func() bool { return r.bot.PeekOutgoing() != nil })
		ok = r.takeDown()
	case "EnvMemRsp":
		r.await(awaitMax, func() bool { _, ok := r.memOwed[s.B]; return ok })
		ok = r.memRsp(s.B, s.D)
	case "EnvTakeUp":
		r.await(awaitMax, func() bool { return r.top.PeekOutgoing() != nil })
		ok = r.top.RetrieveOutgoing() != nil
	case "EnvCtrl":
		want := "discard"
		if r.flushing {
			want = "restart"
		}
		if s.K != want || r.ctrl.PeekIncoming() != nil {
			ok = false
		} else {
			ok = r.envCtrl(s.K)
		}
	case "EnvTakeCtrl":
		r.await(awaitMax, func() bool { return r.ctrl.PeekOutgoing() != nil })
		ok = r.ctrl.RetrieveOutgoing() != nil
	case "Await":
		// the component may have run ahead of the behaviour: an event of this kind that was
		// observed but not yet matched by an Await satisfies the step at once
		if r.used[s.E] >= r.count[s.E] {
			u := r.used[s.E]
			r.await(awaitMax, func() bool { return r.count[s.E] > u })
		}
		ok = r.count[s.E] > r.used[s.E]
		if ok {
			r.used[s.E]++
		}
	case "Tick":
		n := s.N
		if n == 0 {
			n = 1
		}
		r.tick(n)
	default:
		panic("unknown step " + s.A)
	}
	if verbose {
		js, _ := json.Marshal(s)
		fmt.Fprintf(os.Stderr, "cyc=%d ok=%v %s\n", r.cyc, ok, js)
	}
	if ok {
		r.stats["steps_done"]++
	} else {
		r.stats["steps_skipped"]++
		r.stats["skipped_"+s.A]++
	}
}

func sortedKeys[V any](m map[int]V) []int {
	ks := make([]int, 0, len(m))
	for k := range m {
		ks = append(ks, k)
	}
	sort.Ints(ks)
	return ks
}

// defaultPA is the page base used when neither the scenario nor the random page table gave one.
func (r *run) defaultPA(q int) uint64 {
	return uint64(0x400+q) << uint(r.cfg.Log2PS)
}

// finish completes the flush protocol, then serves everything until the
// component and the environment have nothing left to do, and emits Quiesce.
// A component that went to sleep with work pending leaves the engine without
// events while requests are outstanding: the trace spec refuses that Quiesce.
func (r *run) finish() {
	for i := 0; i < 2000; i++ {
		progress := false
		if r.flushing && r.ctrl.PeekIncoming() == nil {
			progress = r.envCtrl("restart") || progress
		}
		for r.ctrl.RetrieveOutgoing() != nil {
			progress = true
		}
		for r.takeLookup() {
			progress = true
		}
		for r.takeDown() {
			progress = true
		}
		for r.top.RetrieveOutgoing() != nil {
			progress = true
		}
		for _, q := range sortedKeys(r.tlbOwed) {
			if r.tlbRsp(q, r.defaultPA(q)) {
				progress = true
			}
		}
		for _, b := range sortedKeys(r.memOwed) {
			if r.memRsp(b, []int{0xAB, b & 0xff}) {
				progress = true
			}
		}
		before := r.eng.Events
		r.tick(1)
		if r.eng.Events != before {
			progress = true
		}
		if !progress && r.eng.Pending() == 0 {
			break
		}
	}
	r.rec.Emit("Quiesce", ab.Rec{"pending_events": r.eng.Pending(), "mem_owed": len(r.memOwed), "tlb_owed": len(r.tlbOwed), "cycle": r.cyc})
}

// random drives an adversarial environment: bursts to few pages from several
// processes, translation replies and memory responses in random order, random
// stall periods on every port (so replies meet a full output port), flushes.
func (r *run) random(rng *rand.Rand, n int, flushes int) {
	ps := uint64(1) << uint(r.cfg.Log2PS)
	npages := 2 + rng.Intn(3)
	npids := 1 + rng.Intn(3)
	vbase := uint64(rng.Intn(1<<10)) << uint(r.cfg.Log2PS)
	if rng.Intn(3) == 0 {
		vbase += uint64(1+rng.Intn(1<<9)) << loBits // virtual addresses above 2^30
	}
	pbases := make([]uint64, 4)
	for i := range pbases {
		pbases[i] = uint64(1+rng.Intn(1<<12)) << uint(r.cfg.Log2PS)
		if rng.Intn(2) == 0 {
			pbases[i] += uint64(rng.Intn(1<<10)) << loBits
		}
	}
	suggest := func() uint64 {
		if rng.Intn(4) == 0 { // a shared physical page
			return pbases[rng.Intn(len(pbases))]
		}
		return uint64(1+rng.Intn(1<<16))<<uint(r.cfg.Log2PS) + uint64(rng.Intn(4))<<loBits
	}
	var stallTop, stallBot, stallTr bool
	lastPage, lastPID := 0, 1
	var lastP *Payload
	issued, steps := 0, 0
	for steps < 60*n+400 && (issued < n || len(r.memOwed) > 0 || len(r.tlbOwed) > 0) {
		steps++
		if rng.Intn(10) == 0 {
			stallTop = rng.Intn(3) == 0
		}
		if rng.Intn(10) == 0 {
			stallBot = rng.Intn(2) == 0
		}
		if rng.Intn(10) == 0 {
			stallTr = rng.Intn(3) == 0
		}
		switch rng.Intn(10) {
		case 0, 1, 2, 3:
			if issued < n {
				page, pid := lastPage, lastPID
				switch rng.Intn(4) {
				case 0: // same page, other process
					pid = 1 + rng.Intn(npids)
				case 1: // other page
					page = rng.Intn(npages)
				case 2:
					page, pid = rng.Intn(npages), 1+rng.Intn(npids)
				}
				lastPage, lastPID = page, pid
				addr := vbase + uint64(page)*ps + uint64(rng.Intn(int(ps)))
				var p *Payload
				if rng.Intn(2) == 0 {
					p = &Payload{K: "r", A: pair(addr), N: uint64(1 << rng.Intn(7)), PID: pid}
				} else {
					sz := 1 + rng.Intn(8)
					p = &Payload{K: "w", A: pair(addr), PID: pid}
					for i := 0; i < sz; i++ {
						p.D = append(p.D, rng.Intn(256))
					}
					p.M = randMask(rng, sz)
				}
				if lastP != nil && rng.Intn(8) == 0 { // exact twin of the previous access: indistinguishable on the wire
					p = lastP
				}
				lastP = p
				if r.envReq(1+rng.Intn(3), p) {
					issued++
				}
			}
		case 4:
			if !stallTr {
				for r.takeLookup() && rng.Intn(3) > 0 {
				}
			}
		case 5:
			ks := sortedKeys(r.tlbOwed)
			if len(ks) > 0 {
				r.tlbRsp(ks[rng.Intn(len(ks))], suggest())
			}
		case 6:
			if !stallBot {
				for r.takeDown() && rng.Intn(3) > 0 {
				}
			}
		case 7:
			ks := sortedKeys(r.memOwed)
			if len(ks) > 0 {
				b := ks[rng.Intn(len(ks))]
				r.memRsp(b, []int{rng.Intn(256), rng.Intn(256), b & 0xff, rng.Intn(4)})
			}
		case 8:
			if !stallTop {
				for r.top.RetrieveOutgoing() != nil && rng.Intn(3) > 0 {
				}
			}
		case 9:
			if flushes > 0 && rng.Intn(10) == 0 && r.ctrl.PeekIncoming() == nil {
				if r.flushing {
					r.envCtrl("restart")
					flushes--
				} else {
					r.envCtrl("discard")
				}
			}
			r.ctrl.RetrieveOutgoing()
		}
		if rng.Intn(3) > 0 {
			r.tick(1)
		}
	}
}

// phased forces the arrival pattern the coalescing logic is most sensitive to: a burst to few
// pages from several processes is accepted while the translation service is silent, then every
// lookup is answered (in random order) while nobody drains Bottom, so that replies meet a full
// output port and whole groups of coalesced accesses wait inside finished transactions; then
// Bottom is drained slowly, memory answers in reverse order while Top is stalled, and finally
// everything is released.  Optionally a flush is dropped into the middle.
func (r *run) phased(rng *rand.Rand, n int, flush bool) {
	ps := uint64(1) << uint(r.cfg.Log2PS)
	npids := 2 + rng.Intn(2)
	npages := []int{2, 2, 6, 12}[rng.Intn(4)] // few pages: large coalesced groups; many: single-access lookups
	vbase := uint64(1+rng.Intn(1<<8)) << uint(r.cfg.Log2PS)
	issued := 0
	for i := 0; i < 8*n && issued < n; i++ {
		page, pid := rng.Intn(npages), 1+rng.Intn(npids)
		addr := vbase + uint64(page)*ps + uint64(rng.Intn(int(ps)))
		var p *Payload
		if rng.Intn(2) == 0 {
			p = &Payload{K: "r", A: pair(addr), N: uint64(1 << rng.Intn(7)), PID: pid}
		} else {
			p = &Payload{K: "w", A: pair(addr), PID: pid}
			for k := 0; k < 1+rng.Intn(6); k++ {
				p.D = append(p.D, rng.Intn(256))
			}
			p.M = randMask(rng, len(p.D))
		}
		if r.envReq(1+rng.Intn(3), p) {
			issued++
		}
		for r.takeLookup() {
		}
		r.tick(1)
	}
	r.tick(3)
	// every lookup answered, nobody drains Bottom
	for round := 0; round < 4*n && len(r.tlbOwed) > 0; round++ {
		ks := sortedKeys(r.tlbOwed)
		q := ks[rng.Intn(len(ks))]
		r.tlbRsp(q, uint64(0x1000+q)<<uint(r.cfg.Log2PS))
		r.tick(1 + rng.Intn(2))
		for r.takeLookup() {
		}
	}
	r.tick(3)
	if flush {
		r.envCtrl("discard")
		r.tick(2)
		r.ctrl.RetrieveOutgoing()
	}
	// Bottom drained one by one, memory answers newest first, Top stalled
	for round := 0; round < 6*n; round++ {
		got := r.takeDown()
		r.tick(1)
		if rng.Intn(3) == 0 || !got {
			ks := sortedKeys(r.memOwed)
			if len(ks) > 0 {
				b := ks[len(ks)-1]
				r.memRsp(b, []int{b & 0xff, rng.Intn(256)})
			}
		}
		if !got && len(r.memOwed) == 0 && r.bot.PeekOutgoing() == nil {
			break
		}
	}
}

// guarded runs f; a panic of the real code becomes a Panic trace line.
func guarded(rec *ab.Recorder, f func()) {
	defer func() {
		if x := recover(); x != nil {
			rec.Emit("Panic", ab.Rec{"msg": fmt.Sprint(x)})
		}
	}()
	f()
}

func main() {
	scen := flag.String("scen", "", "scenario file (JSON list)")
	out := flag.String("out", "trace.ndjson", "trace output")
	nrand := flag.Int("random", 0, "number of random runs")
	reqs := flag.Int("reqs", 30, "requests per random run")
	seed := flag.Int64("seed", 1, "seed")
	nsys := flag.Int("system", 0, "number of system runs (real TLB, MMU, memory controllers, connections, engine)")
	flag.BoolVar(&verbose, "v", false, "print every scenario step to stderr")
	flag.Parse()

	f, err := os.Create(*out)
	if err != nil {
		panic(err)
	}
	w := bufio.NewWriter(f)
	rec := ab.NewRecorder(w)
	traces := 0
	stats := map[string]int{}
	begin := func(cfg Scenario) *run {
		rec.Emit("Reset", ab.Rec{"ps": 1 << uint(cfg.Log2PS), "dev": cfg.Dev, "width": cfg.Width, "nmem": cfg.NMem, "ntlb": cfg.NTlb})
		traces++
		return newRun(rec, cfg)
	}
	if *scen != "" {
		data, err := os.ReadFile(*scen)
		if err != nil {
			panic(err)
		}
		var scs []Scenario
		if err := json.Unmarshal(data, &scs); err != nil {
			panic(err)
		}
		for _, sc := range scs {
			cfg := sc
			cfg.Steps = nil
			r := begin(cfg)
			guarded(rec, func() {
				for _, s := range sc.Steps {
					r.step(s)
				}
				r.finish()
			})
			for k, v := range r.stats {
				stats[k] += v
			}
		}
	}
	rng := rand.New(rand.NewSource(*seed))
	for i := 0; i < *nrand; i++ {
		cfg := Scenario{Log2PS: []int{6, 12, 12, 16, 21}[rng.Intn(5)], Width: 1 + rng.Intn(4), NMem: 1 << rng.Intn(3), NTlb: 1 << rng.Intn(2), Dev: 1 + rng.Intn(4)}
		r := begin(cfg)
		guarded(rec, func() {
			if i%4 == 3 {
				r.phased(rng, *reqs, rng.Intn(3) == 0)
			} else {
				r.random(rng, *reqs, rng.Intn(3))
			}
			r.finish()
		})
	}
	for i := 0; i < *nsys; i++ {
		traces++
		for k, v := range systemRun(rec, rng, *reqs) {
			stats[k] += v
		}
	}
	w.Flush()
	f.Close()
	stats["traces"] = traces
	stats["events"] = rec.Seq
	js, _ := json.Marshal(stats)
	fmt.Println(string(js))
}
