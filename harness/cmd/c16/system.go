package main

import (
	"fmt"
	"math/rand"

	"github.com/sarchlab/akita/v4/mem/idealmemcontroller"
	"github.com/sarchlab/akita/v4/mem/mem"
	"github.com/sarchlab/akita/v4/mem/vm"
	"github.com/sarchlab/akita/v4/mem/vm/mmu"
	"github.com/sarchlab/akita/v4/mem/vm/tlb"
	"github.com/sarchlab/akita/v4/sim"
	"github.com/sarchlab/akita/v4/sim/directconnection"
	"github.com/sarchlab/mgpusim/v4/amd/timing/mem/addresstranslator"

	ab "verifharness/akitabench"
)

// System mode: the real translator between REAL neighbours — akita's TLB and
// MMU (page table filled by the harness), akita's ideal memory controllers,
// akita's DirectConnection and SerialEngine.  Only the requesters and the
// flush controller are harness components.  The port hooks and the trace
// format are those of the bench mode; nothing is scripted below the requesters.

const maxAgentTicks = 60000

// agent issues a seeded stream of accesses and consumes responses with random stalls.
type agent struct {
	*sim.TickingComponent
	port   sim.Port
	dst    sim.RemotePort
	script []*Payload
	rng    *rand.Rand
	ticks  int
	got    int
	sent   int
}

func (a *agent) Tick() bool {
	a.ticks++
	if a.ticks > maxAgentTicks {
		return false
	}
	progress := false
	if a.port.PeekIncoming() != nil {
		if a.rng.Intn(4) != 0 {
			a.port.RetrieveIncoming()
			a.got++
		}
		progress = true
	}
	if len(a.script) > 0 {
		progress = true
		if a.rng.Intn(3) != 0 {
			p := a.script[0]
			var req sim.Msg
			if p.K == "r" {
				req = mem.ReadReqBuilder{}.WithSrc(a.port.AsRemote()).WithDst(a.dst).WithAddress(unpair(p.A)).
					WithByteSize(p.N).WithPID(vm.PID(p.PID)).Build()
			} else {
				req = buildWrite(a.port.AsRemote(), a.dst, p)
			}
			if a.port.Send(req) == nil {
				a.script = a.script[1:]
				a.sent++
			}
		}
	}
	return progress
}

// flusher runs the flush protocol (discard, wait for the acknowledgement, restart, wait) at scripted cycles.
type flusher struct {
	*sim.TickingComponent
	port   sim.Port
	dst    sim.RemotePort
	at     []int // cycles at which a round starts
	gap    int   // cycles between the discard acknowledgement and the restart
	state  int   // 0 idle, 1 discard sent, 2 acked (waiting gap), 3 restart sent
	wait   int
	ticks  int
	rounds int
}

func (f *flusher) Tick() bool {
	f.ticks++
	if f.ticks > maxAgentTicks {
		return false
	}
	switch f.state {
	case 0:
		if len(f.at) == 0 {
			return false
		}
		if f.ticks >= f.at[0] {
			m := mem.ControlMsgBuilder{}.WithSrc(f.port.AsRemote()).WithDst(f.dst).ToDiscardTransactions().Build()
			if f.port.Send(m) == nil {
				f.at = f.at[1:]
				f.state = 1
			}
		}
	case 1:
		if f.port.RetrieveIncoming() != nil {
			f.state, f.wait = 2, f.gap
		}
	case 2:
		f.wait--
		if f.wait <= 0 {
			m := mem.ControlMsgBuilder{}.WithSrc(f.port.AsRemote()).WithDst(f.dst).ToRestart().Build()
			if f.port.Send(m) == nil {
				f.state = 3
			}
		}
	case 3:
		if f.port.RetrieveIncoming() != nil {
			f.state = 0
			f.rounds++
		}
	}
	return true
}

func systemRun(rec *ab.Recorder, rng *rand.Rand, n int) map[string]int {
	const log2ps = 12
	cfg := Scenario{Log2PS: log2ps, Width: 1 + rng.Intn(4), NMem: 1 << rng.Intn(2), NTlb: 1, Dev: 1 + rng.Intn(4)}
	rec.Emit("Reset", ab.Rec{"ps": 1 << log2ps, "dev": cfg.Dev, "width": cfg.Width, "nmem": cfg.NMem, "ntlb": cfg.NTlb, "mode": "system"})
	eng := sim.NewSerialEngine()
	freq := 1 * sim.GHz
	connect := func(name string, ports ...sim.Port) {
		c := directconnection.MakeBuilder().WithEngine(eng).WithFreq(freq).Build(name)
		for _, p := range ports {
			c.PlugIn(p)
		}
	}

	// page table: few pages, several processes, some physical pages shared
	pt := vm.NewPageTable(log2ps)
	npages, npids := 2+rng.Intn(4), 1+rng.Intn(3)
	vbase := uint64(0x100000+rng.Intn(1<<12)) << log2ps
	var frames []uint64
	for pid := 1; pid <= npids; pid++ {
		for pg := 0; pg < npages; pg++ {
			frame := uint64(1 + rng.Intn(1<<19))
			if len(frames) > 0 && rng.Intn(5) == 0 {
				frame = frames[rng.Intn(len(frames))]
			}
			frames = append(frames, frame)
			pt.Insert(vm.Page{PID: vm.PID(pid), VAddr: vbase + uint64(pg)<<log2ps, PAddr: frame << log2ps,
				PageSize: 1 << log2ps, Valid: true, DeviceID: uint64(cfg.Dev), IsPinned: true})
		}
	}

	var memPorts []sim.RemotePort
	var mems []*idealmemcontroller.Comp
	for i := 0; i < cfg.NMem; i++ {
		m := idealmemcontroller.MakeBuilder().WithEngine(eng).WithFreq(freq).WithLatency(1 + rng.Intn(30)).
			WithWidth(1 + rng.Intn(2)).WithTopBufSize(1 + rng.Intn(4)).WithNewStorage(4 * mem.GB).
			Build(fmt.Sprintf("Mem%d", i))
		mems = append(mems, m)
		memPorts = append(memPorts, m.GetPortByName("Top").AsRemote())
	}
	walker := mmu.MakeBuilder().WithEngine(eng).WithFreq(freq).WithLog2PageSize(log2ps).WithPageTable(pt).
		WithPageWalkingLatency(1 + rng.Intn(12)).WithMaxNumReqInFlight(1 + rng.Intn(4)).Build("MMU")
	l1tlb := tlb.MakeBuilder().WithEngine(eng).WithFreq(freq).WithLog2PageSize(log2ps).
		WithNumSets(1).WithNumWays(1 + rng.Intn(3)).WithNumMSHREntry(1 + rng.Intn(4)).
		WithNumReqPerCycle(1 + rng.Intn(4)).WithLatency(1 + rng.Intn(4)).
		WithTranslationProviderMapper(&mem.SinglePortMapper{Port: walker.GetPortByName("Top").AsRemote()}).
		Build("TLB0")

	r := &run{rec: rec, cfg: cfg, count: map[string]int{}, used: map[string]int{}, stats: map[string]int{}}
	rec.ResetIDs()
	rec.SetBase("bot", 101)
	rec.SetBase("tr", 201)
	at := addresstranslator.MakeBuilder().WithEngine(eng).WithFreq(freq).
		WithNumReqPerCycle(cfg.Width).WithLog2PageSize(log2ps).WithDeviceID(uint64(cfg.Dev)).
		WithMemoryProviderMapper(&pageMapper{memPorts, log2ps}).
		WithTranslationProviderMapper(&pageMapper{[]sim.RemotePort{l1tlb.GetPortByName("Top").AsRemote()}, log2ps}).
		Build("AT")
	r.top, r.bot = at.GetPortByName("Top"), at.GetPortByName("Bottom")
	r.tr, r.ctrl = at.GetPortByName("Translation"), at.GetPortByName("Control")
	r.hook()

	// requesters
	var agents []*agent
	topPorts := []sim.Port{r.top}
	var lastP *Payload
	for k := 1; k <= 2+rng.Intn(2); k++ {
		a := &agent{dst: r.top.AsRemote(), rng: rand.New(rand.NewSource(rng.Int63()))}
		a.TickingComponent = sim.NewTickingComponent(fmt.Sprintf("Agent%d", k), eng, freq, a)
		a.port = sim.NewPort(a, 1+rng.Intn(4), 1+rng.Intn(4), fmt.Sprintf("Agent%d.Port", k))
		for i := 0; i < n; i++ {
			pid, pg := 1+rng.Intn(npids), rng.Intn(npages)
			if lastP != nil && rng.Intn(2) == 0 { // stay on the page, maybe from another process
				pg = int((unpair(lastP.A) - vbase) >> log2ps)
			}
			size := 1 << rng.Intn(7)
			addr := vbase + uint64(pg)<<log2ps + uint64(rng.Intn((1<<log2ps)-size+1))
			var p *Payload
			if rng.Intn(2) == 0 {
				p = &Payload{K: "r", A: pair(addr), N: uint64(size), PID: pid}
			} else {
				p = &Payload{K: "w", A: pair(addr), PID: pid}
				for j := 0; j < size && j < 16; j++ {
					p.D = append(p.D, rng.Intn(256))
				}
				p.M = randMask(rng, len(p.D))
			}
			lastP = p
			a.script = append(a.script, p)
		}
		agents = append(agents, a)
		topPorts = append(topPorts, a.port)
	}
	fl := &flusher{dst: r.ctrl.AsRemote(), gap: 1 + rng.Intn(20)}
	fl.TickingComponent = sim.NewTickingComponent("Ctrl", eng, freq, fl)
	fl.port = sim.NewPort(fl, 1, 1, "Ctrl.Port")
	for k := rng.Intn(3); k > 0; k-- {
		fl.at = append(fl.at, 5+rng.Intn(8*n))
	}
	for i := range fl.at { // ascending
		for j := i + 1; j < len(fl.at); j++ {
			if fl.at[j] < fl.at[i] {
				fl.at[i], fl.at[j] = fl.at[j], fl.at[i]
			}
		}
	}

	connect("ConnTop", topPorts...)
	botPorts := []sim.Port{r.bot}
	for _, m := range mems {
		botPorts = append(botPorts, m.GetPortByName("Top"))
	}
	connect("ConnBottom", botPorts...)
	connect("ConnTr", r.tr, l1tlb.GetPortByName("Top"))
	connect("ConnWalk", l1tlb.GetPortByName("Bottom"), walker.GetPortByName("Top"))
	connect("ConnCtrl", r.ctrl, fl.port)

	guarded(rec, func() {
		for _, a := range agents {
			a.TickLater()
		}
		fl.TickLater()
		if err := eng.Run(); err != nil {
			panic(err)
		}
	})
	sent, got := 0, 0
	for _, a := range agents {
		sent += a.sent
		got += a.got
	}
	rec.Emit("End", ab.Rec{"sent": sent, "answered": got, "flush_rounds": fl.rounds, "flush_state": fl.state})
	return map[string]int{"sys_sent": sent, "sys_answered": got, "sys_flush_rounds": fl.rounds}
}
