// c17 drives the real simplebankedmemory.Comp (public builder) through
// cycle-scripted scenarios under the akitabench mini engine and writes one
// ndjson line per Top-port event for FlatMemTrace.tla / BankedMemTrace.tla.
//
// A scenario is a configuration, a list of requests with the cycle at which
// the environment tries to deliver each of them (list order = arrival order)
// and the cycles at which the environment takes responses from the port.
//
// The driver also evaluates a flat byte-array oracle of its own.  That oracle
// never decides anything: it only tells the check driver which scenarios are
// worth minimising ("suspect"); verdicts come from TLC on the logged trace.
package main

import (
	"bufio"
	"encoding/json"
	"flag"
	"fmt"
	"os"
	"sort"

	"github.com/sarchlab/akita/v4/mem/mem"
	"github.com/sarchlab/akita/v4/sim"
	"github.com/sarchlab/mgpusim/v4/amd/timing/mem/simplebankedmemory"

	ab "verifharness/akitabench"
)

// Conv describes a mem.InterleavingConverter.
type Conv struct {
	Isz   uint64 `json:"isz"`
	Total int    `json:"total"`
	Idx   int    `json:"idx"`
}

// Cfg is the configuration of the memory under test.
type Cfg struct {
	Banks   int   `json:"banks"`
	Ilog    int   `json:"ilog"`
	Width   int   `json:"width"`
	Depth   int   `json:"depth"`
	Lat     int   `json:"lat"`
	Rowlog  int   `json:"rowlog"`
	Miss    int   `json:"miss"`
	Topbuf  int   `json:"topbuf"`
	Postbuf int   `json:"postbuf"`
	Bconv   *Conv `json:"bconv,omitempty"` // BankAddressConverter (bank selection only)
	Aconv   *Conv `json:"aconv,omitempty"` // AddressConverter (storage + bank selection)
}

// Req is one request of the environment.
type Req struct {
	At     int    `json:"at"` // first cycle at which delivery is attempted
	K      string `json:"k"`  // "r" | "w"
	A      uint64 `json:"a"`
	N      int    `json:"n"`
	D      []int  `json:"d,omitempty"`
	M      []int  `json:"m,omitempty"`
	NoMask bool   `json:"nomask,omitempty"` // write with DirtyMask == nil
	Src    int    `json:"src,omitempty"`
}

// Scenario is a configuration plus an environment script.
type Scenario struct {
	Name   string   `json:"name,omitempty"`
	Cfg    Cfg      `json:"cfg"`
	Reqs   []Req    `json:"reqs"`
	Stalls [][2]int `json:"stalls,omitempty"`  // [from,to): the environment does not take responses
	TakeAt []int    `json:"take_at,omitempty"` // if set: before TakeAllFrom the environment takes one response per listed cycle
	// from this cycle on the environment takes everything every cycle (0: from the start unless stalled)
	TakeAllFrom int `json:"take_all_from,omitempty"`
}

type run struct {
	rec   *ab.Recorder
	eng   *ab.Engine
	comp  *simplebankedmemory.Comp
	top   sim.Port
	sc    *Scenario
	cyc   int
	count map[string]int
	// diagnostic flat oracle
	flat      map[uint64]byte
	expect    map[int][]byte
	kind      map[int]string
	responded map[int]int
	suspect   []string
	maxLat    int
	arrCycle  map[int]int
}

func (c *Conv) mk() *mem.InterleavingConverter {
	return &mem.InterleavingConverter{InterleavingSize: c.Isz, TotalNumOfElements: c.Total, CurrentElementIndex: c.Idx}
}

func (c *Conv) conv(a uint64) uint64 {
	round := c.Isz * uint64(c.Total)
	return a/round*c.Isz + a%c.Isz
}

// bankAddr is the address the component uses for bank selection (diagnostic field "ba").
func (c *Cfg) bankAddr(a uint64) uint64 {
	if c.Bconv != nil {
		return c.Bconv.conv(a)
	}
	if c.Aconv != nil {
		return c.Aconv.conv(a)
	}
	return a
}

func (c *Cfg) storeAddr(a uint64) uint64 {
	if c.Aconv != nil {
		return c.Aconv.conv(a)
	}
	return a
}

func srcName(i int) sim.RemotePort { return sim.RemotePort(fmt.Sprintf("Agent%d.Port", i)) }

func cfgRec(c Cfg) ab.Rec {
	track := 0
	if c.Rowlog > 0 && c.Miss > 0 {
		track = 1
	}
	return ab.Rec{"banks": c.Banks, "ilog": c.Ilog, "width": c.Width, "depth": c.Depth, "lat": c.Lat,
		"rowlog": c.Rowlog, "miss": c.Miss, "topbuf": c.Topbuf, "postbuf": c.Postbuf, "track": track}
}

func newRun(rec *ab.Recorder, sc *Scenario) *run {
	r := &run{rec: rec, eng: ab.NewEngine(), sc: sc, count: map[string]int{}, flat: map[uint64]byte{},
		expect: map[int][]byte{}, kind: map[int]string{}, responded: map[int]int{}, arrCycle: map[int]int{}}
	rec.ResetIDs()
	c := sc.Cfg
	b := simplebankedmemory.MakeBuilder().WithEngine(r.eng).WithFreq(1 * sim.GHz).
		WithNumBanks(c.Banks).WithLog2InterleaveSize(uint64(c.Ilog)).
		WithBankPipelineWidth(c.Width).WithBankPipelineDepth(c.Depth).WithStageLatency(c.Lat).
		WithRowBufferSizeLog2(uint64(c.Rowlog)).WithRowMissDelay(c.Miss).
		WithTopPortBufferSize(c.Topbuf).WithPostPipelineBufferSize(c.Postbuf).
		WithNewStorage(1 << 31)
	if c.Bconv != nil {
		b = b.WithBankAddressConverter(c.Bconv.mk())
	}
	if c.Aconv != nil {
		b = b.WithAddressConverter(c.Aconv.mk())
	}
	r.comp = b.Build("DRAM")
	r.top = r.comp.GetPortByName("Top")
	ab.NewConn("Conn").PlugIn(r.top)
	emit := func(e string, f ab.Rec) {
		r.count[e]++
		rec.Emit(e, f)
	}
	r.top.AcceptHook(ab.HookFn(func(ctx sim.HookCtx) {
		switch m := ctx.Item.(type) {
		case mem.AccessReq:
			switch ctx.Pos {
			case sim.HookPosPortMsgRecvd:
				id := rec.ID("req", m.Meta().ID)
				f := ab.Rec{"id": id, "a": m.GetAddress(), "ba": c.bankAddr(m.GetAddress()), "src": string(m.Meta().Src), "c": r.cyc}
				switch q := m.(type) {
				case *mem.ReadReq:
					f["k"], f["n"], f["d"], f["m"] = "r", q.AccessByteSize, []int{}, []int{}
				case *mem.WriteReq:
					mask := make([]int, len(q.Data))
					for i := range mask {
						if q.DirtyMask == nil || q.DirtyMask[i] {
							mask[i] = 1
						}
					}
					f["k"], f["n"], f["d"], f["m"] = "w", len(q.Data), ab.Bytes(q.Data), mask
				}
				r.oracleArrive(id, m)
				emit("EnvReq", f)
			case sim.HookPosPortMsgRetrieveIncoming:
				emit("Drain", ab.Rec{"id": rec.ID("req", m.Meta().ID), "c": r.cyc})
			}
		case mem.AccessRsp:
			id, ok := rec.Known("req", m.GetRspTo())
			if !ok {
				id = 0
			}
			switch ctx.Pos {
			case sim.HookPosPortMsgSend:
				f := ab.Rec{"id": id, "dst": string(m.Meta().Dst), "c": r.cyc}
				switch q := m.(type) {
				case *mem.DataReadyRsp:
					f["k"], f["d"] = "r", ab.Bytes(q.Data)
					r.oracleRsp(id, "r", q.Data)
				case *mem.WriteDoneRsp:
					f["k"], f["d"] = "w", []int{}
					r.oracleRsp(id, "w", nil)
				default:
					f["k"], f["d"] = "?", []int{}
				}
				emit("Rsp", f)
			case sim.HookPosPortMsgRetrieveOutgoing:
				emit("EnvTake", ab.Rec{"id": id})
			}
		default:
			emit("Alien", ab.Rec{"pos": ctx.Pos.Name, "type": fmt.Sprintf("%T", ctx.Item)})
		}
	}))
	return r
}

// ------------------------------------------------- diagnostic flat oracle
func (r *run) note(s string) {
	if len(r.suspect) < 4 {
		r.suspect = append(r.suspect, s)
	}
}

func (r *run) oracleArrive(id int, m mem.AccessReq) {
	r.arrCycle[id] = r.cyc
	switch q := m.(type) {
	case *mem.ReadReq:
		r.kind[id] = "r"
		out := make([]byte, q.AccessByteSize)
		for i := range out {
			out[i] = r.flat[q.Address+uint64(i)]
		}
		r.expect[id] = out
	case *mem.WriteReq:
		r.kind[id] = "w"
		for i, v := range q.Data {
			if q.DirtyMask == nil || q.DirtyMask[i] {
				r.flat[q.Address+uint64(i)] = v
			} else if _, ok := r.flat[q.Address+uint64(i)]; !ok {
				r.flat[q.Address+uint64(i)] = 0
			}
		}
	}
	if r.kind[id] == "r" {
		q := m.(*mem.ReadReq)
		for i := uint64(0); i < q.AccessByteSize; i++ {
			if _, ok := r.flat[q.Address+i]; !ok {
				r.flat[q.Address+i] = 0
			}
		}
	}
}

func (r *run) oracleRsp(id int, k string, d []byte) {
	if id == 0 || r.kind[id] != k {
		r.note(fmt.Sprintf("response %s to unknown/mismatched request %d", k, id))
		return
	}
	r.responded[id]++
	if r.responded[id] > 1 {
		r.note(fmt.Sprintf("duplicate response to %d", id))
	}
	if l := r.cyc - r.arrCycle[id]; l > r.maxLat {
		r.maxLat = l
	}
	if k == "r" {
		e := r.expect[id]
		same := len(e) == len(d)
		for i := 0; same && i < len(e); i++ {
			same = e[i] == d[i]
		}
		if !same {
			r.note(fmt.Sprintf("read %d returned %v, flat model %v", id, d, e))
		}
	}
}

// ------------------------------------------------------------ environment
func (r *run) build(q *Req) sim.Msg {
	if q.K == "r" {
		return mem.ReadReqBuilder{}.WithSrc(srcName(q.Src)).WithDst(r.top.AsRemote()).WithAddress(q.A).
			WithByteSize(uint64(q.N)).Build()
	}
	data := make([]byte, len(q.D))
	for i, x := range q.D {
		data[i] = byte(x)
	}
	b := mem.WriteReqBuilder{}.WithSrc(srcName(q.Src)).WithDst(r.top.AsRemote()).WithAddress(q.A).WithData(data)
	if !q.NoMask {
		mask := make([]bool, len(q.D))
		for i := range mask {
			mask[i] = i < len(q.M) && q.M[i] != 0
		}
		b = b.WithDirtyMask(mask)
	}
	return b.Build()
}

func (r *run) stalled(c int) bool {
	for _, w := range r.sc.Stalls {
		if c >= w[0] && c < w[1] {
			return true
		}
	}
	return false
}

func (r *run) take(c int) {
	sc := r.sc
	if sc.TakeAt != nil && (sc.TakeAllFrom == 0 || c < sc.TakeAllFrom) {
		for _, t := range sc.TakeAt {
			if t == c {
				r.top.RetrieveOutgoing()
			}
		}
		return
	}
	if c < sc.TakeAllFrom || r.stalled(c) {
		return
	}
	for r.top.RetrieveOutgoing() != nil {
	}
}

// execute runs the whole scenario and emits Quiesce (or GiveUp / Panic).
func (r *run) execute() {
	defer func() {
		if p := recover(); p != nil {
			r.note(fmt.Sprintf("panic: %v", p))
			r.rec.Emit("Panic", ab.Rec{"msg": fmt.Sprintf("%v", p), "cycle": r.cyc})
		}
	}()
	sc := r.sc
	c := sc.Cfg
	last := 0
	for _, q := range sc.Reqs {
		if q.At > last {
			last = q.At
		}
	}
	for _, w := range sc.Stalls {
		if w[1] > last {
			last = w[1]
		}
	}
	for _, t := range sc.TakeAt {
		if t > last {
			last = t
		}
	}
	if sc.TakeAllFrom > last {
		last = sc.TakeAllFrom
	}
	// generous bound in simulated cycles: the environment is fully cooperative after `last`
	bound := last + (len(sc.Reqs)+2)*(c.Miss+c.Depth*c.Lat+8)*4 + 400
	next := 0
	idleRounds := 0
	for r.cyc = 1; r.cyc <= bound; r.cyc++ {
		for next < len(sc.Reqs) && sc.Reqs[next].At <= r.cyc {
			if r.top.Deliver(r.build(&sc.Reqs[next])) != nil {
				break // port full: retry next cycle, keeping the arrival order
			}
			next++
		}
		before := r.eng.Events
		r.eng.RunUntil(ab.Cycle(r.cyc))
		takeBefore := r.count["EnvTake"]
		r.take(r.cyc)
		progressed := r.eng.Events != before || r.count["EnvTake"] != takeBefore
		if next == len(sc.Reqs) && r.cyc > last && r.eng.Pending() == 0 && r.top.PeekOutgoing() == nil && !progressed {
			idleRounds++
			if idleRounds >= 2 {
				break
			}
		} else {
			idleRounds = 0
		}
	}
	if r.cyc > bound {
		r.note("no quiescence within the cycle bound")
		r.rec.Emit("GiveUp", ab.Rec{"cycle": r.cyc, "pending_events": r.eng.Pending(), "delivered": next})
		return
	}
	// final storage: every aligned block (64 bytes, or the converter's chunk if that is smaller: addresses outside the
	// chunk belong to another memory) touched by a request, completely
	gran := uint64(64)
	if c.Aconv != nil && c.Aconv.Isz < gran {
		gran = c.Aconv.Isz
	}
	blocks := map[uint64]bool{}
	for _, q := range sc.Reqs {
		for x := q.A &^ (gran - 1); x < q.A+uint64(q.N); x += gran {
			blocks[x] = true
		}
	}
	keys := make([]uint64, 0, len(blocks))
	for k := range blocks {
		keys = append(keys, k)
	}
	sort.Slice(keys, func(i, j int) bool { return keys[i] < keys[j] })
	store := [][]interface{}{}
	for _, k := range keys {
		data, err := r.comp.Storage.Read(c.storeAddr(k), gran)
		if err != nil {
			panic(err)
		}
		for i, v := range data {
			if r.flat[k+uint64(i)] != v {
				r.note(fmt.Sprintf("final storage byte %d = %d, flat model %d", k+uint64(i), v, r.flat[k+uint64(i)]))
				break
			}
		}
		store = append(store, []interface{}{k, ab.Bytes(data)})
	}
	for id := range r.kind {
		if r.responded[id] == 0 {
			r.note(fmt.Sprintf("request %d never answered", id))
			break
		}
	}
	r.rec.Emit("Quiesce", ab.Rec{"store": store, "cycle": r.cyc, "pending_events": r.eng.Pending(), "max_latency": r.maxLat})
}

func main() {
	scen := flag.String("scen", "", "scenario file (JSON list)")
	out := flag.String("out", "trace.ndjson", "trace output")
	flag.Parse()

	data, err := os.ReadFile(*scen)
	if err != nil {
		panic(err)
	}
	var scs []Scenario
	if err := json.Unmarshal(data, &scs); err != nil {
		panic(err)
	}
	f, err := os.Create(*out)
	if err != nil {
		panic(err)
	}
	w := bufio.NewWriter(f)
	rec := ab.NewRecorder(w)
	suspects := map[string][]string{}
	for i := range scs {
		sc := &scs[i]
		r := ab.Rec{"idx": i, "cfg": cfgRec(sc.Cfg)}
		for k, v := range cfgRec(sc.Cfg) {
			r[k] = v
		}
		rec.Emit("Reset", r)
		rn := newRun(rec, sc)
		rn.execute()
		if len(rn.suspect) > 0 {
			suspects[fmt.Sprint(i)] = rn.suspect
		}
	}
	w.Flush()
	f.Close()
	js, _ := json.Marshal(map[string]interface{}{"traces": len(scs), "events": rec.Seq, "suspect": suspects})
	fmt.Println(string(js))
}
