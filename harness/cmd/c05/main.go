// c05 runs one shipped workload once, in process, through the repository's own
// runner (real platform, real akita engine), optionally steering the host-thread
// interleaving through the verif yield hooks, and prints the observables of the
// run as JSON: simulated end time, digest of every live device buffer, and the
// path of the metrics database written by the runner.
//
// modes:
//
//	free   no steering
//	lazy   the application thread enqueues / signals only when the engine goroutine is idle
//	eager  the engine goroutine is held inside the driver tick that follows a command's
//	       completion until the application thread's next signal reached runAsync
//	       (so Pause()/TickLater() land as early as possible in the residual activity)
//	noise  seeded random host delays (0..300us) at every yield point
package main

import (
	"crypto/sha256"
	"encoding/hex"
	"encoding/json"
	"flag"
	"fmt"
	"math/rand"
	"os"
	"strings"
	"sync"
	"sync/atomic"
	"time"

	"github.com/sarchlab/akita/v4/sim"
	"github.com/sarchlab/akita/v4/tracing"
	"github.com/sarchlab/mgpusim/v4/amd/benchmarks"
	"github.com/sarchlab/mgpusim/v4/amd/benchmarks/amdappsdk/bitonicsort"
	"github.com/sarchlab/mgpusim/v4/amd/benchmarks/amdappsdk/matrixtranspose"
	"github.com/sarchlab/mgpusim/v4/amd/benchmarks/amdappsdk/vectoradd"
	"github.com/sarchlab/mgpusim/v4/amd/benchmarks/heteromark/fir"
	"github.com/sarchlab/mgpusim/v4/amd/benchmarks/heteromark/kmeans"
	"github.com/sarchlab/mgpusim/v4/amd/driver"
	"github.com/sarchlab/mgpusim/v4/amd/samples/runner"
)

var benchFlag = flag.String("bench", "fir", "workload")
var modeFlag = flag.String("mode", "free", "free|lazy|eager|noise")
var vseedFlag = flag.Int64("vseed", 1, "seed for noise mode")
var sizeFlag = flag.Int("size", 0, "problem size (0 = default small)")
var idSkipFlag = flag.Int64("idskip", 0, "draw this many ids from akita's process-wide id generator before the platform is built")

// memcopy is the repository's determinism test program (amd/tests/deterministic/memcopy).
type memcopy struct {
	driver  *driver.Driver
	context *driver.Context
	gpu     int
	size    uint64
	data    []byte
	ret     []byte
}

func (b *memcopy) SelectGPU(gpus []int) { b.gpu = gpus[0] }
func (b *memcopy) SetUnifiedMemory()    {}
func (b *memcopy) Run() {
	b.driver.SelectGPU(b.context, b.gpu)
	rng := rand.New(rand.NewSource(7))
	b.data = make([]byte, b.size)
	b.ret = make([]byte, b.size)
	for i := range b.data {
		b.data[i] = byte(rng.Int())
	}
	p := b.driver.AllocateMemory(b.context, b.size)
	b.driver.MemCopyH2D(b.context, p, b.data)
	b.driver.MemCopyD2H(b.context, b.ret, p)
	q := b.driver.AllocateMemory(b.context, b.size)
	b.driver.MemCopyH2D(b.context, q, b.ret)
	b.driver.MemCopyD2H(b.context, b.ret, q)
}
func (b *memcopy) Verify() {
	for i := range b.data {
		if b.data[i] != b.ret[i] {
			panic("memcopy mismatch")
		}
	}
}

// multiqueue keeps several command queues of one context busy at the same
// time: every queue gets a host-to-device copy and a device-to-device copy
// kernel of its own size before any queue is drained, so several queues have a
// startable command in the same driver tick.
type multiqueue struct {
	driver  *driver.Driver
	context *driver.Context
	gpus    []int
	n       int
	out     [][]byte
	in      [][]byte
}

func (b *multiqueue) SelectGPU(gpus []int) { b.gpus = gpus }
func (b *multiqueue) SetUnifiedMemory()    {}
func (b *multiqueue) Run() {
	rng := rand.New(rand.NewSource(11))
	qs := make([]*driver.CommandQueue, b.n)
	dst := make([]driver.Ptr, b.n)
	for i := 0; i < b.n; i++ {
		b.driver.SelectGPU(b.context, b.gpus[i%len(b.gpus)])
		qs[i] = b.driver.CreateCommandQueue(b.context)
		sz := 256 * (1 + (i*5)%7)
		data := make([]byte, sz)
		for k := range data {
			data[k] = byte(rng.Int())
		}
		b.in = append(b.in, data)
		b.out = append(b.out, make([]byte, sz))
		src := b.driver.AllocateMemory(b.context, uint64(sz))
		dst[i] = b.driver.AllocateMemory(b.context, uint64(sz))
		b.driver.EnqueueMemCopyH2D(qs[i], src, data)
		b.driver.EnqueueMemCopyD2D(qs[i], dst[i], src, sz)
	}
	for i := 0; i < b.n; i++ {
		b.driver.EnqueueMemCopyD2H(qs[i], b.out[i], dst[i])
	}
	for i := b.n - 1; i >= 0; i-- {
		b.driver.DrainCommandQueue(qs[i])
	}
}
func (b *multiqueue) Verify() {
	for i := range b.in {
		for k := range b.in[i] {
			if b.in[i][k] != b.out[i][k] {
				panic(fmt.Sprintf("multiqueue: queue %d byte %d differs", i, k))
			}
		}
	}
}

func makeBench(name string, r *runner.Runner) benchmarks.Benchmark {
	d := r.Driver()
	size := *sizeFlag
	switch name {
	case "fir":
		b := fir.NewBenchmark(d)
		b.Length = 2048
		if size > 0 {
			b.Length = size
		}
		b.Arch = r.ArchType
		return b
	case "vectoradd":
		b := vectoradd.NewBenchmark(d)
		b.Width, b.Height = 64, 32
		if size > 0 {
			b.Width = uint32(size)
		}
		return b
	case "matrixtranspose":
		b := matrixtranspose.NewBenchmark(d)
		b.Width = 64
		if size > 0 {
			b.Width = size
		}
		return b
	case "bitonicsort":
		b := bitonicsort.NewBenchmark(d)
		b.Length = 256
		if size > 0 {
			b.Length = size
		}
		return b
	case "kmeans":
		b := kmeans.NewBenchmark(d)
		b.NumPoints, b.NumClusters, b.NumFeatures, b.MaxIter = 128, 3, 4, 3
		return b
	case "multiqueue":
		n := 6
		if size > 0 {
			n = size
		}
		return &multiqueue{driver: d, context: d.Init(), n: n}
	case "memcopy":
		sz := uint64(65536 + 100)
		if size > 0 {
			sz = uint64(size)
		}
		return &memcopy{driver: d, context: d.Init(), size: sz}
	}
	panic("unknown bench " + name)
}

// cmdTracer records the driver's "Driver Command" tasks with simulated times.
type cmdTracer struct {
	eng   sim.Engine
	mu    sync.Mutex
	start map[string]int
	cmds  []map[string]interface{}
}

func ps(t sim.VTimeInSec) int64 { return int64(float64(t)*1e12 + 0.5) }

func (t *cmdTracer) StartTask(task tracing.Task) {
	if task.Kind != "Driver Command" {
		return
	}
	t.mu.Lock()
	defer t.mu.Unlock()
	t.start[task.ID] = len(t.cmds)
	t.cmds = append(t.cmds, map[string]interface{}{"what": task.What, "start_ps": ps(t.eng.CurrentTime()), "end_ps": int64(-1)})
}
func (t *cmdTracer) StepTask(task tracing.Task)       {}
func (t *cmdTracer) AddMilestone(m tracing.Milestone) {}
func (t *cmdTracer) EndTask(task tracing.Task) {
	t.mu.Lock()
	defer t.mu.Unlock()
	if i, ok := t.start[task.ID]; ok {
		t.cmds[i]["end_ps"] = ps(t.eng.CurrentTime())
	}
}

type hookFn func(ctx sim.HookCtx)

func (f hookFn) Func(ctx sim.HookCtx) { f(ctx) }

// wfTracer records the ids of the timing CUs' wavefront tasks (= Wavefront.UID, drawn from the process-wide id
// generator when a work-group is mapped) in creation order.
type wfTracer struct {
	mu  sync.Mutex
	ids []string
}

func (t *wfTracer) StartTask(task tracing.Task) {
	if task.Kind != "wavefront" {
		return
	}
	t.mu.Lock()
	t.ids = append(t.ids, task.ID)
	t.mu.Unlock()
}
func (t *wfTracer) StepTask(task tracing.Task)       {}
func (t *wfTracer) AddMilestone(m tracing.Milestone) {}
func (t *wfTracer) EndTask(task tracing.Task)        {}

// cuHook attaches the wavefront tracer to every compute unit right before its first event (the runner keeps the
// simulation to itself; an event's handler is the component). A pointer type: akita compares registered hooks.
type cuHook struct {
	mu   sync.Mutex // the parallel engine calls hooks from several goroutines
	seen map[string]bool
	t    *wfTracer
}

func (h *cuHook) Func(ctx sim.HookCtx) {
	if ctx.Pos != sim.HookPosBeforeEvent {
		return
	}
	evt, ok := ctx.Item.(sim.Event)
	if !ok {
		return
	}
	c, ok := evt.Handler().(tracing.NamedHookable)
	if !ok || !strings.Contains(c.Name(), ".CU[") {
		return
	}
	h.mu.Lock()
	defer h.mu.Unlock()
	if h.seen[c.Name()] {
		return
	}
	h.seen[c.Name()] = true
	tracing.CollectTrace(c, h.t)
}

func main() {
	flag.Parse()
	// results must not depend on where the process-wide id counter stands (earlier simulations in the process, host
	// threads drawing ids): shift it
	for i := int64(0); i < *idSkipFlag; i++ {
		sim.GetIDGenerator().Generate()
	}
	rand.Seed(20260925) //nolint:staticcheck // the shipped workloads draw their inputs from the global source: same inputs every run
	r := new(runner.Runner).Init()
	b := makeBench(*benchFlag, r)
	r.AddBenchmark(b)
	d := r.Driver()
	ct := &cmdTracer{eng: r.Engine(), start: map[string]int{}}
	tracing.CollectTrace(d, ct)

	var raAtPause int32
	var held int64
	var mu sync.Mutex
	rng := rand.New(rand.NewSource(*vseedFlag))
	afterDeq := false // engine thread only
	switch *modeFlag {
	case "free":
	case "lazy", "lazynoise":
		// lazynoise: the lazy gate plus seeded host delays everywhere else (the schedule class stays "lazy")
		withNoise := *modeFlag == "lazynoise"
		var raSelects int64   // how often runAsync came back to the top of its loop
		var needSelects int64 // value raSelects must reach before the last signal has been fully handled
		idle := func() {
			// the engine is idle only when runAsync has finished handling the last signal (it may still be about to
			// start the engine goroutine) and no engine goroutine is running
			for i := 0; i < 2000000; i++ {
				if atomic.LoadInt64(&raSelects) >= atomic.LoadInt64(&needSelects) && !d.VerifEngineRunning() {
					return
				}
				time.Sleep(5 * time.Microsecond)
			}
		}
		driver.VerifYield = func(point string, q *driver.CommandQueue) {
			if point == "select" {
				atomic.AddInt64(&raSelects, 1)
				return
			}
			if withNoise && point != "signal" && point != "enq" && point != "unsub" {
				mu.Lock()
				n := rng.Intn(6)
				us := rng.Intn(200)
				mu.Unlock()
				if n == 0 {
					time.Sleep(time.Duration(us) * time.Microsecond)
				}
			}
			// "unsub": a drain also returns only once the engine is idle, so that the runner's report (which reads
			// the engine time right after the last drain) does not race with the trailing idle tick
			if point == "signal" || point == "enq" || point == "unsub" {
				idle()
				atomic.AddInt64(&held, 1)
				if point == "signal" {
					// runAsync is parked in select now; it is back there once this signal has been handled
					atomic.StoreInt64(&needSelects, atomic.LoadInt64(&raSelects)+1)
				}
			}
		}
	case "eager":
		// The engine goroutine is held right after the event in which a command
		// completed (akita's AfterEvent hook: pauseLock held, no driver lock held)
		// until the application thread's next signal reached runAsync, so that
		// Pause()/TickLater() land as early as possible in the residual activity.
		driver.VerifYield = func(point string, q *driver.CommandQueue) {
			switch point {
			case "deqNotify":
				afterDeq = true
			case "pause":
				atomic.StoreInt32(&raAtPause, 1)
			}
		}
		r.Engine().AcceptHook(hookFn(func(ctx sim.HookCtx) {
			if ctx.Pos != sim.HookPosAfterEvent || !afterDeq {
				return
			}
			afterDeq = false
			atomic.StoreInt32(&raAtPause, 0)
			for i := 0; atomic.LoadInt32(&raAtPause) == 0 && i < 4000; i++ {
				time.Sleep(5 * time.Microsecond)
			}
			if atomic.LoadInt32(&raAtPause) == 1 {
				atomic.AddInt64(&held, 1)
			}
			if os.Getenv("C05_DEBUG") != "" {
				fmt.Fprintf(os.Stderr, "released engine after event t=%d raAtPause=%d\n", ps(r.Engine().CurrentTime()), atomic.LoadInt32(&raAtPause))
			}
		}))
	case "noise":
		driver.VerifYield = func(point string, q *driver.CommandQueue) {
			mu.Lock()
			n := rng.Intn(8)
			us := rng.Intn(300)
			mu.Unlock()
			if n == 0 {
				time.Sleep(time.Duration(us) * time.Microsecond)
				atomic.AddInt64(&held, 1)
			}
		}
	default:
		panic("unknown mode")
	}

	// attach the wavefront tracer to every compute unit right before its first event (the runner keeps the simulation
	// to itself; an event's handler is the component)
	wft := &wfTracer{}
	parallel := false
	for _, a := range os.Args[1:] {
		if a == "-parallel" || a == "--parallel" {
			parallel = true
		}
	}
	if !parallel {
		// (the id-shifted runs use the serial engine; no need to touch components from the parallel engine's workers)
		r.Engine().AcceptHook(&cuHook{seen: map[string]bool{}, t: wft})
	}

	r.Run()
	driver.VerifYield = nil

	h := sha256.New()
	bufs := d.VerifSnapshotBuffers()
	var total uint64
	for _, vb := range bufs {
		fmt.Fprintf(h, "%d:%d:%d:", vb.PID, vb.VAddr, vb.Size)
		h.Write(vb.Data)
		total += vb.Size
		if os.Getenv("C05_DEBUG") != "" {
			hh := sha256.Sum256(vb.Data)
			n := len(vb.Data)
			if n > 24 {
				n = 24
			}
			fmt.Fprintf(os.Stderr, "buf pid=%d va=%x size=%d %x first=%x\n", vb.PID, vb.VAddr, vb.Size, hh[:4], vb.Data[:n])
		}
	}
	cwd, _ := os.Getwd()
	out := map[string]interface{}{
		"bench": *benchFlag, "mode": *modeFlag, "vseed": *vseedFlag,
		"end_time_ps":   int64(float64(r.Engine().CurrentTime())*1e12 + 0.5),
		"buffers":       len(bufs),
		"buffer_bytes":  total,
		"buffer_digest": hex.EncodeToString(h.Sum(nil)),
		"steered":       atomic.LoadInt64(&held),
		"commands":      ct.cmds,
		"wavefront_ids": wft.ids,
		"idskip":        *idSkipFlag,
		"cwd":           cwd,
	}
	js, _ := json.Marshal(out)
	fmt.Println(string(js))
}
