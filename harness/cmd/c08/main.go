// c08 records what the real grid partitioning code of mgpusim produces:
//
//   - kernels.GridBuilder (SetKernel/NumWG/NextWG/Skip): work-groups, their
//     partial sizes, wavefront descriptors (FirstWiFlatID, InitExecMask,
//     member work-items);
//   - the WGFilter closures the real driver.Driver builds for a unified
//     multi-GPU launch (captured from the LaunchKernelReq messages the driver
//     sends on its GPU port);
//   - the registers the real emu.ComputeUnit (MapWGReq through its port, seen by
//     the instruction hook at the first instruction) and the real timing
//     cu.ComputeUnit (MapWGReq through ToACE, one tick: handleMapWGReq ->
//     WfDispatcherImpl.DispatchWf) initialise for every wavefront.
//
// One ndjson line per observation; spec/grid/GridTrace.tla judges them.
// The driver executes cases given in a JSON file; it decides nothing.
package main

import (
	"bufio"
	"encoding/json"
	"flag"
	"fmt"
	"os"

	"github.com/sarchlab/akita/v4/mem/vm"
	"github.com/sarchlab/akita/v4/sim"
	"github.com/sarchlab/akita/v4/simulation"
	"github.com/sarchlab/akita/v4/tracing"
	"github.com/sarchlab/mgpusim/v4/amd/arch"
	"github.com/sarchlab/mgpusim/v4/amd/driver"
	"github.com/sarchlab/mgpusim/v4/amd/emu"
	"github.com/sarchlab/mgpusim/v4/amd/insts"
	"github.com/sarchlab/mgpusim/v4/amd/kernels"
	"github.com/sarchlab/mgpusim/v4/amd/protocol"
	"github.com/sarchlab/mgpusim/v4/amd/samples/runner/emusystem"
	"github.com/sarchlab/mgpusim/v4/amd/samples/runner/timingconfig"
	"github.com/sarchlab/mgpusim/v4/amd/timing/cu"
	"github.com/sarchlab/mgpusim/v4/amd/timing/wavefront"

	ab "verifharness/akitabench"
)

// Op is one builder call of an "ops" case.
type Op struct {
	A string `json:"a"` // "Skip" | "NextWG"
	N int    `json:"n,omitempty"`
}

// Case is one geometry with the way the builders are driven.
type Case struct {
	G     []uint32 `json:"g"`
	S     []uint16 `json:"s"`
	Cus   []int    `json:"cus"`   // CU counts of the GPUs of a unified device; empty: plain launch, no filter
	Gpu   int      `json:"gpu"`   // with Cus: 0 = every GPU in turn, k = only GPU k (1-based)
	Mode  string   `json:"mode"`  // "full": NextWG until nil | "parts": partition.go's Skip(i*k)+k | "ops"
	Parts int      `json:"parts"` // number of partitions (CUs) for "parts"
	Ops   []Op     `json:"ops"`
	Done  bool     `json:"done"`  // "ops": the calls enumerate the whole kernel (emit GroupEnd)
	Regs  []string `json:"regs"`  // subset of "emu","timing": also dispatch each work-group to that CU
	RegWG int      `json:"regwg"` // at most this many work-groups get dispatched (0: all)
	Ver   int      `json:"ver"`   // code object version 2|3|5
	En    int      `json:"en"`    // EnableVgprWorkItemID 0..2
	Flags int      `json:"flags"` // bit0 psb, bit1 dptr, bit2 kptr, bit3..5 count x/y/z, bit6..8 wg id x/y/z
	Wid   int      `json:"wid"`   // caller's label, copied to Reset
	Plat  string   `json:"plat"`  // mode "e2e": "emu" | "r9nano" | "mi300a" (whole platform from the public builders)
	GPUs  int      `json:"gpus"`  // mode "e2e": number of GPUs (unified device when > 1)
}

type stats struct {
	Cases, Events, WGs, Items, RegWfs, Panics int
}

type runner struct {
	rec *ab.Recorder
	st  *stats
}

func (r *runner) emit(e string, f ab.Rec) {
	r.st.Events++
	r.rec.Emit(e, f)
}

func t3u32(v []uint32) []int { return []int{int(v[0]), int(v[1]), int(v[2])} }
func t3u16(v []uint16) []int { return []int{int(v[0]), int(v[1]), int(v[2])} }

// small encodes a 32-bit register value for TLC (32-bit signed ints): values
// that cannot be an id (>= 2^31) are logged as -1.
func small(v uint32) int {
	if v >= 1<<31 {
		return -1
	}
	return int(v)
}

func codeObject(c *Case) *insts.KernelCodeObject {
	co := &insts.KernelCodeObject{KernelCodeObjectMeta: &insts.KernelCodeObjectMeta{}}
	co.Version = insts.CodeObjectVersion(c.Ver)
	co.Data = []byte{0x00, 0x00, 0x81, 0xBF, 0, 0, 0, 0} // s_endpgm
	fl := c.Flags
	co.EnableSgprPrivateSegmentBuffer = fl&1 != 0
	co.EnableSgprDispatchPtr = fl&2 != 0
	co.EnableSgprKernargSegmentPtr = fl&4 != 0
	co.EnableSgprGridWorkgroupCountX = fl&8 != 0
	co.EnableSgprGridWorkgroupCountY = fl&16 != 0
	co.EnableSgprGridWorkgroupCountZ = fl&32 != 0
	var rsrc2 uint32
	if fl&64 != 0 {
		rsrc2 |= 1 << 7
	}
	if fl&128 != 0 {
		rsrc2 |= 1 << 8
	}
	if fl&256 != 0 {
		rsrc2 |= 1 << 9
	}
	rsrc2 |= uint32(c.En&3) << 11
	co.ComputePgmRsrc2 = rsrc2
	return co
}

func flagRec(c *Case) ab.Rec {
	b := func(m int) int {
		if c.Flags&m != 0 {
			return 1
		}
		return 0
	}
	return ab.Rec{"psb": b(1), "dptr": b(2), "kptr": b(4), "cx": b(8), "cy": b(16), "cz": b(32),
		"ix": b(64), "iy": b(128), "iz": b(256)}
}

func packet(c *Case) *kernels.HsaKernelDispatchPacket {
	p := new(kernels.HsaKernelDispatchPacket)
	p.GridSizeX, p.GridSizeY, p.GridSizeZ = c.G[0], c.G[1], c.G[2]
	p.WorkgroupSizeX, p.WorkgroupSizeY, p.WorkgroupSizeZ = c.S[0], c.S[1], c.S[2]
	p.KernelObject = 0x10000
	p.KernargAddress = 0x20000
	return p
}

// launch is what one GPU is asked to run.
type launch struct {
	gpu    int // 0: plain launch
	info   kernels.KernelLaunchInfo
	accept []int // flattened work-group ids the filter accepts (nil without filter)
}

type dummyComp struct{ *sim.ComponentBase }

func (d *dummyComp) Handle(sim.Event) error       { return nil }
func (d *dummyComp) NotifyRecv(sim.Port)          {}
func (d *dummyComp) NotifyPortFree(sim.Port)      {}

// splitThroughDriver enqueues a unified multi-GPU launch on a real driver.Driver
// whose GPUs are bare ports and returns the launch requests the driver sent.
func splitThroughDriver(c *Case, co *insts.KernelCodeObject) []*protocol.LaunchKernelReq {
	eng := ab.NewEngine()
	d := driver.MakeBuilder().WithEngine(eng).WithFreq(1 * sim.GHz).WithLog2PageSize(12).
		WithPageTable(vm.NewPageTable(12)).Build("Driver")
	conn := ab.NewConn("Conn")
	gpuPort := d.GetPortByName("GPU")
	conn.PlugIn(gpuPort)
	conn.PlugIn(d.GetPortByName("MMU"))
	ids := []int{}
	for i, n := range c.Cus {
		comp := &dummyComp{sim.NewComponentBase(fmt.Sprintf("GPU%d", i+1))}
		p := sim.NewPort(comp, 4, 4, fmt.Sprintf("GPU%d.CP", i+1))
		conn.PlugIn(p)
		d.RegisterGPU(p, driver.DeviceProperties{CUCount: n, DRAMSize: 1 << 30})
		ids = append(ids, i+1)
	}
	ctx := d.Init()
	dev := d.CreateUnifiedGPU(ctx, ids)
	d.SelectGPU(ctx, dev)
	q := d.CreateCommandQueue(ctx)
	n := len(c.Cus)
	cmd := &driver.LaunchUnifiedMultiGPUKernelCommand{ID: "launch", CodeObject: co,
		PacketArray: make([]*kernels.HsaKernelDispatchPacket, n+1), DPacketArray: make([]driver.Ptr, n+1)}
	for i := 0; i < n; i++ {
		cmd.PacketArray[i] = packet(c)
		cmd.DPacketArray[i] = driver.Ptr(0x30000 + 0x100*i)
	}
	d.Enqueue(q, cmd)
	var reqs []*protocol.LaunchKernelReq
	for i := 0; i < 4*n+8; i++ {
		d.Tick()
		for {
			m := gpuPort.RetrieveOutgoing()
			if m == nil {
				break
			}
			if lk, ok := m.(*protocol.LaunchKernelReq); ok {
				reqs = append(reqs, lk)
			}
		}
	}
	return reqs
}

func numWGDim(g uint32, s uint16) int { return int(g-1)/int(s) + 1 }

// launches builds the launch(es) of a case; with a unified device it also logs Split.
func (r *runner) launches(c *Case, co *insts.KernelCodeObject) []launch {
	if len(c.Cus) == 0 {
		return []launch{{gpu: 0, info: kernels.KernelLaunchInfo{CodeObject: co, Packet: packet(c), PacketAddr: 0x30000}}}
	}
	reqs := splitThroughDriver(c, co)
	nx, ny, nz := numWGDim(c.G[0], c.S[0]), numWGDim(c.G[1], c.S[1]), numWGDim(c.G[2], c.S[2])
	var out []launch
	accs := make([][]int, len(c.Cus))
	for i := range accs {
		accs[i] = []int{}
	}
	for _, req := range reqs {
		g := -1
		for i := range c.Cus {
			if string(req.Dst) == fmt.Sprintf("GPU%d.CP", i+1) {
				g = i
			}
		}
		if g < 0 {
			panic("launch request to an unknown GPU port " + string(req.Dst))
		}
		acc := []int{}
		for z := 0; z < nz; z++ {
			for y := 0; y < ny; y++ {
				for x := 0; x < nx; x++ {
					if req.WGFilter(req.Packet, &kernels.WorkGroup{IDX: x, IDY: y, IDZ: z}) {
						acc = append(acc, z*nx*ny+y*nx+x)
					}
				}
			}
		}
		accs[g] = append(accs[g], acc...)
		out = append(out, launch{gpu: g + 1, accept: acc, info: kernels.KernelLaunchInfo{
			CodeObject: req.CodeObject, Packet: req.Packet, PacketAddr: req.PacketAddress, WGFilter: req.WGFilter}})
	}
	r.emit("Split", ab.Rec{"total": nx * ny * nz, "cus": c.Cus, "accs": accs, "reqs": len(reqs)})
	return out
}

func wfDesc(wf *kernels.Wavefront) ab.Rec {
	items := make([]int, len(wf.WorkItems))
	for i, wi := range wf.WorkItems {
		items[i] = wi.FlattenedID()
	}
	return ab.Rec{"first": wf.FirstWiFlatID, "mask": ab.Limbs64(wf.InitExecMask), "items": items}
}

func (r *runner) logWG(wg *kernels.WorkGroup) {
	wfs := make([]ab.Rec, len(wg.Wavefronts))
	for i, wf := range wg.Wavefronts {
		wfs[i] = wfDesc(wf)
	}
	r.st.WGs++
	r.st.Items += len(wg.WorkItems)
	r.emit("WG", ab.Rec{"id": []int{wg.IDX, wg.IDY, wg.IDZ}, "cs": []int{wg.CurrSizeX, wg.CurrSizeY, wg.CurrSizeZ},
		"sz": []int{wg.SizeX, wg.SizeY, wg.SizeZ}, "wfs": wfs, "nitems": len(wg.WorkItems)})
}

// ------------------------------------------------------------------ emulation CU

type endpgmStorage struct{}

func (endpgmStorage) Read(pid vm.PID, addr, n uint64) []byte {
	b := make([]byte, n)
	copy(b, []byte{0x00, 0x00, 0x81, 0xBF})
	return b
}
func (endpgmStorage) Write(pid vm.PID, addr uint64, data []byte) {}

const nSregsLogged = 16

func (r *runner) regsEmu(c *Case, wg *kernels.WorkGroup) {
	eng := ab.NewEngine()
	sa := endpgmStorage{}
	u := emu.NewComputeUnit("EmuCU", eng, insts.NewDisassembler(), emu.NewALU(sa), sa)
	conn := ab.NewConn("Conn")
	conn.PlugIn(u.ToDispatcher)
	var wfs []ab.Rec
	u.AcceptHook(ab.HookFn(func(ctx sim.HookCtx) {
		wf, ok := ctx.Item.(*emu.Wavefront)
		if !ok {
			return
		}
		v := [3][]int{make([]int, 64), make([]int, 64), make([]int, 64)}
		for lane := 0; lane < 64; lane++ {
			for reg := 0; reg < 3; reg++ {
				off := lane*256*4 + reg*4
				v[reg][lane] = small(uint32(wf.VRegFile[off]) | uint32(wf.VRegFile[off+1])<<8 |
					uint32(wf.VRegFile[off+2])<<16 | uint32(wf.VRegFile[off+3])<<24)
			}
		}
		s := make([]int, nSregsLogged)
		for i := range s {
			off := i * 4
			s[i] = small(uint32(wf.SRegFile[off]) | uint32(wf.SRegFile[off+1])<<8 |
				uint32(wf.SRegFile[off+2])<<16 | uint32(wf.SRegFile[off+3])<<24)
		}
		wfs = append(wfs, ab.Rec{"first": wf.FirstWiFlatID, "mask": ab.Limbs64(wf.InitExecMask),
			"exec": ab.Limbs64(wf.EXEC()), "v0": v[0], "v1": v[1], "v2": v[2], "sregs": s})
	}))
	locs := make([]protocol.WfDispatchLocation, len(wg.Wavefronts))
	for i, wf := range wg.Wavefronts {
		locs[i] = protocol.WfDispatchLocation{Wavefront: wf}
	}
	req := protocol.MapWGReqBuilder{}.WithSrc("Dispatcher.Port").WithDst(u.ToDispatcher.AsRemote()).
		WithPID(1).WithWG(wg).Build()
	req.Wavefronts = locs
	if err := u.ToDispatcher.Deliver(req); err != nil {
		panic("emu CU refused the MapWGReq")
	}
	for i := 0; i < 1000 && eng.Pending() > 0; i++ {
		t, _ := eng.NextTime()
		eng.RunUntil(t)
		for u.ToDispatcher.RetrieveOutgoing() != nil {
		}
	}
	r.st.RegWfs += len(wfs)
	r.emit("Regs", ab.Rec{"mode": "emu", "ver": c.Ver, "en": c.En, "flags": flagRec(c),
		"id": []int{wg.IDX, wg.IDY, wg.IDZ}, "cs": []int{wg.CurrSizeX, wg.CurrSizeY, wg.CurrSizeZ}, "wfs": wfs})
}

// --------------------------------------------------------------------- timing CU

type dispatchTap struct {
	inner cu.WfDispatcher
	seen  []*wavefront.Wavefront
}

func (t *dispatchTap) DispatchWf(wf *wavefront.Wavefront, loc protocol.WfDispatchLocation) {
	t.inner.DispatchWf(wf, loc)
	t.seen = append(t.seen, wf)
}

func (r *runner) regsTiming(c *Case, wg *kernels.WorkGroup, salt int) {
	eng := ab.NewEngine()
	u := cu.MakeBuilder().WithEngine(eng).WithFreq(1 * sim.GHz).Build("TimingCU")
	// the CU's own WfDispatcherImpl does the work; the tap only remembers which wavefront objects it was given
	tap := &dispatchTap{inner: u.WfDispatcher}
	u.WfDispatcher = tap
	conn := ab.NewConn("Conn")
	for _, p := range []sim.Port{u.ToACE, u.ToCP, u.ToInstMem, u.ToScalarMem, u.ToVectorMem} {
		conn.PlugIn(p)
	}
	// wavefront slots as a dispatcher could hand them out: SIMD round robin, distinct register windows
	locs := make([]protocol.WfDispatchLocation, len(wg.Wavefronts))
	for i, wf := range wg.Wavefronts {
		slot := i/4 + salt%3
		locs[i] = protocol.WfDispatchLocation{Wavefront: wf, SIMDID: (i + salt) % 4,
			SGPROffset: (i + salt%5) * 4 * 16, VGPROffset: slot * 4 * 8, LDSOffset: 0}
	}
	req := protocol.MapWGReqBuilder{}.WithSrc("Dispatcher.Port").WithDst(u.ToACE.AsRemote()).
		WithPID(1).WithWG(wg).Build()
	req.Wavefronts = locs
	if err := u.ToACE.Deliver(req); err != nil {
		panic("timing CU refused the MapWGReq")
	}
	// exactly the tick that handles the request: runPipeline (nothing to run yet), then
	// processInputFromACE -> handleMapWGReq -> WfDispatcher.DispatchWf for every wavefront
	t, ok := eng.NextTime()
	if !ok {
		panic("timing CU did not schedule a tick for the MapWGReq")
	}
	eng.RunUntil(t)
	var wfs []ab.Rec
	for i, raw := range wg.Wavefronts {
		loc := locs[i]
		var exec uint64
		found := false
		for _, w := range tap.seen {
			if w.Wavefront == raw {
				exec = w.EXEC()
				found = true
			}
		}
		if !found {
			panic("wavefront of the mapped work-group was not dispatched by the CU")
		}
		v := [3][]int{make([]int, 64), make([]int, 64), make([]int, 64)}
		buf := make([]byte, 4)
		for lane := 0; lane < 64; lane++ {
			for reg := 0; reg < 3; reg++ {
				u.VRegFile[loc.SIMDID].Read(cu.RegisterAccess{Reg: insts.VReg(reg), RegCount: 1, LaneID: lane,
					WaveOffset: loc.VGPROffset, Data: buf})
				v[reg][lane] = small(uint32(buf[0]) | uint32(buf[1])<<8 | uint32(buf[2])<<16 | uint32(buf[3])<<24)
			}
		}
		s := make([]int, nSregsLogged)
		for k := range s {
			u.SRegFile.Read(cu.RegisterAccess{Reg: insts.SReg(k), RegCount: 1, WaveOffset: loc.SGPROffset, Data: buf})
			s[k] = small(uint32(buf[0]) | uint32(buf[1])<<8 | uint32(buf[2])<<16 | uint32(buf[3])<<24)
		}
		wfs = append(wfs, ab.Rec{"first": raw.FirstWiFlatID, "mask": ab.Limbs64(raw.InitExecMask),
			"exec": ab.Limbs64(exec), "v0": v[0], "v1": v[1], "v2": v[2], "sregs": s})
	}
	r.st.RegWfs += len(wfs)
	r.emit("Regs", ab.Rec{"mode": "timing", "ver": c.Ver, "en": c.En, "flags": flagRec(c),
		"id": []int{wg.IDX, wg.IDY, wg.IDZ}, "cs": []int{wg.CurrSizeX, wg.CurrSizeY, wg.CurrSizeZ}, "wfs": wfs})
}

// ---------------------------------------------------------------------- a case

func (r *runner) produced(c *Case, wg *kernels.WorkGroup, nreg *int) {
	r.logWG(wg)
	if len(c.Regs) == 0 || (c.RegWG > 0 && *nreg >= c.RegWG) {
		return
	}
	*nreg++
	for _, m := range c.Regs {
		switch m {
		case "emu":
			r.regsEmu(c, wg)
		case "timing":
			r.regsTiming(c, wg, *nreg)
		}
	}
}

// filterGuard counts the candidates a builder offers to its filter after SetKernel.
type filterGuard struct {
	calls, limit int
	armed        bool
}

// runaway is the panic value of the guard: an enumeration of the real code that would not end.
type runaway struct{ msg string }

func (r *runner) group(c *Case, l launch) {
	f := ab.Rec{"k": "none"}
	if l.gpu > 0 {
		f = ab.Rec{"k": "set", "acc": l.accept, "gpu": l.gpu}
	}
	r.emit("Kernel", ab.Rec{"g": t3u32(c.G), "s": t3u16(c.S), "f": f})
	nreg := 0
	// An enumeration that does not end is decided structurally, never by wall clock: the grid has
	// `total` work-groups, so (a) a builder can offer its filter at most `total` candidates after
	// SetKernel - the guard around the real closure panics with a runaway value beyond that, and
	// (b) a drain stops after NumWG()+2 work-groups; the surplus ones are logged like any other and
	// have no matching action in GridTrace (more than announced / outside the grid).
	total := numWGDim(c.G[0], c.S[0]) * numWGDim(c.G[1], c.S[1]) * numWGDim(c.G[2], c.S[2])
	newBuilder := func() kernels.GridBuilder {
		gb := kernels.NewGridBuilder()
		info := l.info
		g := &filterGuard{limit: total + 2}
		if real := l.info.WGFilter; real != nil {
			info.WGFilter = func(p *kernels.HsaKernelDispatchPacket, wg *kernels.WorkGroup) bool {
				if g.armed {
					g.calls++
					if g.calls > g.limit {
						panic(runaway{fmt.Sprintf("NextWG offered its filter %d work-group candidates (last id %d,%d,%d), the grid has %d",
							g.calls, wg.IDX, wg.IDY, wg.IDZ, total)})
					}
				}
				return real(p, wg)
			}
		}
		gb.SetKernel(info)
		g.armed = true
		r.emit("Builder", ab.Rec{"numWG": gb.NumWG()})
		return gb
	}
	switch c.Mode {
	case "full":
		gb := newBuilder()
		limit := gb.NumWG() + 2
		ended := false
		for n := 0; n < limit; n++ {
			wg := gb.NextWG()
			if wg == nil {
				r.emit("Nil", ab.Rec{})
				ended = true
				break
			}
			r.produced(c, wg, &nreg)
		}
		if !ended {
			r.emit("Unterminated", ab.Rec{"produced": limit, "numWG": gb.NumWG()})
		}
		r.emit("GroupEnd", ab.Rec{})
	case "parts":
		// partition.go StartNewKernel/nextWG: numWGPerPartition = (numWG-1)/numCU + 1, partition i skips i*k
		gb0 := kernels.NewGridBuilder()
		gb0.SetKernel(l.info)
		k := (gb0.NumWG()-1)/c.Parts + 1
		for i := 0; i < c.Parts; i++ {
			gb := newBuilder()
			gb.Skip(i * k)
			r.emit("Skip", ab.Rec{"n": i * k})
			for j := 0; j < k; j++ {
				wg := gb.NextWG()
				if wg == nil {
					r.emit("Nil", ab.Rec{})
					break
				}
				r.produced(c, wg, &nreg)
			}
		}
		r.emit("GroupEnd", ab.Rec{})
	case "ops":
		gb := newBuilder()
		for _, op := range c.Ops {
			switch op.A {
			case "Skip":
				gb.Skip(op.N)
				r.emit("Skip", ab.Rec{"n": op.N})
			case "NextWG":
				wg := gb.NextWG()
				if wg == nil {
					r.emit("Nil", ab.Rec{})
				} else {
					r.produced(c, wg, &nreg)
				}
			}
		}
		if c.Done {
			r.emit("GroupEnd", ab.Rec{})
		}
	default:
		panic("unknown mode " + c.Mode)
	}
}


// ------------------------------------------------------------ whole platform

type kernArgs struct{ Pad uint64 }

func isEndpgm(in *insts.Inst) bool { return in != nil && in.FormatType == insts.SOPP && in.Opcode == 1 }

func (r *runner) wfRun(plat string, raw *kernels.Wavefront, exec uint64, v [3][]int, s []int) {
	wg := raw.WG
	r.st.RegWfs++
	r.emit("WfRun", ab.Rec{"plat": plat, "id": []int{wg.IDX, wg.IDY, wg.IDZ},
		"cs": []int{wg.CurrSizeX, wg.CurrSizeY, wg.CurrSizeZ}, "first": raw.FirstWiFlatID,
		"mask": ab.Limbs64(raw.InitExecMask), "exec": ab.Limbs64(exec), "v0": v[0], "v1": v[1], "v2": v[2], "sregs": s})
}

func le32(b []byte) uint32 { return uint32(b[0]) | uint32(b[1])<<8 | uint32(b[2])<<16 | uint32(b[3])<<24 }

// timingTap observes the "inst" tasks a timing CU reports when it issues an instruction.
type timingTap struct {
	r    *runner
	u    *cu.ComputeUnit
	seen map[*wavefront.Wavefront]bool
}

func (t *timingTap) StartTask(task tracing.Task) {
	if task.Kind != "inst" {
		return
	}
	d, ok := task.Detail.(map[string]interface{})
	if !ok {
		return
	}
	in, _ := d["inst"].(*wavefront.Inst)
	wf, _ := d["wf"].(*wavefront.Wavefront)
	if in == nil || wf == nil || !isEndpgm(in.Inst) || t.seen[wf] {
		return
	}
	t.seen[wf] = true
	v := [3][]int{make([]int, 64), make([]int, 64), make([]int, 64)}
	buf := make([]byte, 4)
	for lane := 0; lane < 64; lane++ {
		for reg := 0; reg < 3; reg++ {
			t.u.VRegFile[wf.SIMDID].Read(cu.RegisterAccess{Reg: insts.VReg(reg), RegCount: 1, LaneID: lane,
				WaveOffset: wf.VRegOffset, Data: buf})
			v[reg][lane] = small(le32(buf))
		}
	}
	s := make([]int, nSregsLogged)
	for k := range s {
		t.u.SRegFile.Read(cu.RegisterAccess{Reg: insts.SReg(k), RegCount: 1, WaveOffset: wf.SRegOffset, Data: buf})
		s[k] = small(le32(buf))
	}
	t.r.wfRun("timing", wf.Wavefront, wf.EXEC(), v, s)
}
func (t *timingTap) StepTask(task tracing.Task)       {}
func (t *timingTap) AddMilestone(m tracing.Milestone) {}
func (t *timingTap) EndTask(task tracing.Task)        {}

// e2e launches a kernel consisting of s_endpgm through the real driver, command processor(s),
// dispatcher(s) and compute units of a platform built by the public builders and logs, for every
// wavefront that executes, the registers it holds when its (first) instruction runs.
func (r *runner) e2e(c *Case) {
	co := codeObject(c)
	co.WIVgprCount = 1
	co.WFSgprCount = 2
	co.KernargSegmentByteSize = 8
	n := c.GPUs
	if n < 1 {
		n = 1
	}
	archType := arch.GCN3
	if c.Ver == 5 {
		archType = arch.CDNA3
	}
	s := simulation.MakeBuilder().WithoutMonitoring().Build()
	defer s.Terminate()
	if c.Plat == "emu" {
		emusystem.MakeBuilder().WithSimulation(s).WithNumGPUs(n).WithArchitecture(archType).Build()
	} else {
		timingconfig.MakeBuilder().WithSimulation(s).WithNumGPUs(n).WithGPUType(c.Plat).Build()
	}
	d := s.GetComponentByName("Driver").(*driver.Driver)
	ncu := 0
	for _, comp := range s.Components() {
		switch u := comp.(type) {
		case *emu.ComputeUnit:
			ncu++
			u.AcceptHook(ab.HookFn(func(ctx sim.HookCtx) {
				wf, ok := ctx.Item.(*emu.Wavefront)
				in, ok2 := ctx.Detail.(*insts.Inst)
				if !ok || !ok2 || !isEndpgm(in) {
					return
				}
				v := [3][]int{make([]int, 64), make([]int, 64), make([]int, 64)}
				for lane := 0; lane < 64; lane++ {
					for reg := 0; reg < 3; reg++ {
						off := lane*256*4 + reg*4
						v[reg][lane] = small(le32(wf.VRegFile[off : off+4]))
					}
				}
				sr := make([]int, nSregsLogged)
				for i := range sr {
					sr[i] = small(le32(wf.SRegFile[i*4 : i*4+4]))
				}
				r.wfRun("emu", wf.Wavefront, wf.EXEC(), v, sr)
			}))
		case *cu.ComputeUnit:
			ncu++
			tracing.CollectTrace(u, &timingTap{r: r, u: u, seen: map[*wavefront.Wavefront]bool{}})
		}
	}
	r.emit("E2EBegin", ab.Rec{"plat": c.Plat, "gpus": n, "cus": ncu, "ver": c.Ver, "en": c.En, "flags": flagRec(c),
		"g": t3u32(c.G), "s": t3u16(c.S)})
	ctx := d.Init()
	if n > 1 {
		ids := make([]int, n)
		for i := range ids {
			ids[i] = i + 1
		}
		d.SelectGPU(ctx, d.CreateUnifiedGPU(ctx, ids))
	} else {
		d.SelectGPU(ctx, 1)
	}
	q := d.CreateCommandQueue(ctx)
	d.EnqueueLaunchKernel(q, co, [3]uint32{c.G[0], c.G[1], c.G[2]}, [3]uint16{c.S[0], c.S[1], c.S[2]}, &kernArgs{})
	// the harness owns the engine: no runAsync goroutine, the run ends when no event is left
	d.TickLater()
	if err := s.GetEngine().Run(); err != nil {
		panic(err)
	}
	r.emit("E2EEnd", ab.Rec{"pending": q.NumCommand()})
}

func (r *runner) runCase(i int, c *Case) {
	r.st.Cases++
	r.emit("Reset", ab.Rec{"case": i, "c": c})
	defer func() {
		if e := recover(); e != nil {
			r.st.Panics++
			if ra, ok := e.(runaway); ok {
				r.emit("Runaway", ab.Rec{"msg": ra.msg})
			} else {
				r.emit("Panic", ab.Rec{"msg": fmt.Sprint(e)})
			}
		}
	}()
	if c.Ver == 0 {
		c.Ver = 3
	}
	if c.Mode == "e2e" {
		r.e2e(c)
		return
	}
	co := codeObject(c)
	for _, l := range r.launches(c, co) {
		if c.Gpu != 0 && l.gpu != c.Gpu {
			continue
		}
		r.group(c, l)
	}
}

func main() {
	scen := flag.String("scen", "", "JSON file with a list of cases")
	out := flag.String("out", "trace.ndjson", "trace output")
	flag.Parse()
	var cases []Case
	b, err := os.ReadFile(*scen)
	if err != nil {
		fmt.Println("cannot read scenario file:", err)
		os.Exit(2)
	}
	if err := json.Unmarshal(b, &cases); err != nil {
		fmt.Println("bad scenario file:", err)
		os.Exit(2)
	}
	f, err := os.Create(*out)
	if err != nil {
		fmt.Println(err)
		os.Exit(2)
	}
	w := bufio.NewWriterSize(f, 1<<20)
	st := &stats{}
	r := &runner{rec: ab.NewRecorder(w), st: st}
	for i := range cases {
		r.runCase(i, &cases[i])
	}
	w.Flush()
	f.Close()
	js, _ := json.Marshal(map[string]int{"cases": st.Cases, "events": st.Events, "wgs": st.WGs, "items": st.Items,
		"regwfs": st.RegWfs, "panics": st.Panics})
	fmt.Println(string(js))
}
