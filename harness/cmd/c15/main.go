// c15 drives the real rob.ReorderBuffer through scripted and random
// environments and writes a port-event trace for ROBTrace.tla.
package main

import (
	"bufio"
	"encoding/json"
	"flag"
	"fmt"
	"math/rand"
	"os"

	"github.com/sarchlab/akita/v4/mem/mem"
	"github.com/sarchlab/akita/v4/mem/vm"
	"github.com/sarchlab/akita/v4/sim"
	"github.com/sarchlab/mgpusim/v4/amd/timing/rob"

	ab "verifharness/akitabench"
)

// Payload mirrors the payload record of ROB.tla.
type Payload struct {
	K   string `json:"k"`
	A   uint64 `json:"a"`
	N   uint64 `json:"n"`
	D   []int  `json:"d"`
	M   []int  `json:"m"`
	PID int    `json:"pid"`
}

// Step is one environment step of a scenario.
type Step struct {
	A string   `json:"a"`
	P *Payload `json:"p,omitempty"`
	K string   `json:"k,omitempty"`
	B int      `json:"b,omitempty"`
	D []int    `json:"d,omitempty"`
	E string   `json:"e,omitempty"`
	N int      `json:"n,omitempty"`
}

// Scenario is a configuration plus environment steps.
type Scenario struct {
	Cap   int    `json:"cap"`
	Width int    `json:"width"`
	Steps []Step `json:"steps"`
}

type run struct {
	rec            *ab.Recorder
	eng            *ab.Engine
	top, bot, ctrl sim.Port
	cyc            int
	owed           map[int]mem.AccessReq
	count          map[string]int
	flushing       bool
	stats          map[string]int
}

func payloadOf(m mem.AccessReq) ab.Rec {
	switch r := m.(type) {
	case *mem.ReadReq:
		return ab.Rec{"k": "r", "a": r.Address, "n": r.AccessByteSize, "d": []int{}, "m": []int{}, "pid": int(r.PID)}
	case *mem.WriteReq:
		return ab.Rec{"k": "w", "a": r.Address, "n": uint64(len(r.Data)), "d": ab.Bytes(r.Data), "m": ab.Bools(r.DirtyMask), "pid": int(r.PID)}
	}
	panic("unknown request type")
}

func rspData(m mem.AccessRsp) []int {
	switch r := m.(type) {
	case *mem.DataReadyRsp:
		return ab.Bytes(r.Data)
	case *mem.WriteDoneRsp:
		return []int{-1}
	}
	panic("unknown response type")
}

func newRun(rec *ab.Recorder, capacity, width int) *run {
	r := &run{rec: rec, eng: ab.NewEngine(), owed: map[int]mem.AccessReq{}, count: map[string]int{}, stats: map[string]int{}}
	rec.ResetIDs()
	rec.SetBase("bot", 101)
	b := rob.MakeBuilder().WithEngine(r.eng).WithFreq(1 * sim.GHz).WithBufferSize(capacity).
		WithNumReqPerCycle(width).WithBottomUnit("Mem.Top").Build("ROB")
	r.top, r.bot, r.ctrl = b.GetPortByName("Top"), b.GetPortByName("Bottom"), b.GetPortByName("Control")
	conn := ab.NewConn("Conn")
	conn.PlugIn(r.top)
	conn.PlugIn(r.bot)
	conn.PlugIn(r.ctrl)
	emit := func(e string, f ab.Rec) {
		r.count[e]++
		rec.Emit(e, f)
	}
	r.top.AcceptHook(ab.HookFn(func(ctx sim.HookCtx) {
		switch m := ctx.Item.(type) {
		case mem.AccessReq:
			switch ctx.Pos {
			case sim.HookPosPortMsgRecvd:
				emit("EnvReq", ab.Rec{"id": rec.ID("top", m.Meta().ID), "p": payloadOf(m)})
			case sim.HookPosPortMsgRetrieveIncoming:
				emit("Accept", ab.Rec{"id": rec.ID("top", m.Meta().ID)})
			}
		case mem.AccessRsp:
			switch ctx.Pos {
			case sim.HookPosPortMsgSend:
				emit("BottomUp", ab.Rec{"id": rec.ID("top", m.GetRspTo()), "d": rspData(m), "dst": string(m.Meta().Dst)})
			case sim.HookPosPortMsgRetrieveOutgoing:
				emit("EnvTakeUp", ab.Rec{"id": rec.ID("top", m.GetRspTo())})
			}
		}
	}))
	r.bot.AcceptHook(ab.HookFn(func(ctx sim.HookCtx) {
		switch m := ctx.Item.(type) {
		case mem.AccessReq:
			switch ctx.Pos {
			case sim.HookPosPortMsgSend:
				emit("Forward", ab.Rec{"id": rec.ID("bot", m.Meta().ID), "p": payloadOf(m), "dst": string(m.Meta().Dst)})
			case sim.HookPosPortMsgRetrieveOutgoing:
				emit("EnvTakeDown", ab.Rec{"id": rec.ID("bot", m.Meta().ID)})
			}
		case mem.AccessRsp:
			switch ctx.Pos {
			case sim.HookPosPortMsgRecvd:
				emit("EnvRsp", ab.Rec{"id": rec.ID("bot", m.GetRspTo()), "d": rspData(m)})
			case sim.HookPosPortMsgRetrieveIncoming:
				emit("ParseBottom", ab.Rec{"id": rec.ID("bot", m.GetRspTo()), "d": rspData(m)})
			}
		}
	}))
	r.ctrl.AcceptHook(ab.HookFn(func(ctx sim.HookCtx) {
		switch m := ctx.Item.(type) {
		case *mem.ControlMsg:
			switch ctx.Pos {
			case sim.HookPosPortMsgRecvd:
				k := "discard"
				if m.Restart {
					k = "restart"
				}
				emit("EnvCtrl", ab.Rec{"k": k})
			case sim.HookPosPortMsgRetrieveIncoming:
				emit("CtrlTake", nil)
			case sim.HookPosPortMsgSend:
				emit("CtrlRsp", nil)
			case sim.HookPosPortMsgRetrieveOutgoing:
				emit("EnvTakeCtrl", nil)
			}
		}
	}))
	return r
}

func (r *run) tick(n int) {
	for i := 0; i < n; i++ {
		r.cyc++
		r.eng.RunUntil(ab.Cycle(r.cyc))
	}
}

// await ticks until cond holds, at most max cycles.
func (r *run) await(max int, cond func() bool) bool {
	for i := 0; i < max && !cond(); i++ {
		r.tick(1)
	}
	return cond()
}

func bytesOf(d []int) []byte {
	out := make([]byte, len(d))
	for i, x := range d {
		out[i] = byte(x)
	}
	return out
}

func (r *run) envReq(p *Payload) bool {
	var req mem.AccessReq
	if p.K == "r" {
		req = mem.ReadReqBuilder{}.WithSrc("Agent.Port").WithDst(r.top.AsRemote()).WithAddress(p.A).
			WithByteSize(p.N).WithPID(vm.PID(p.PID)).Build()
	} else {
		mask := make([]bool, len(p.M))
		for i, x := range p.M {
			mask[i] = x != 0
		}
		req = mem.WriteReqBuilder{}.WithSrc("Agent.Port").WithDst(r.top.AsRemote()).WithAddress(p.A).
			WithData(bytesOf(p.D)).WithDirtyMask(mask).WithPID(vm.PID(p.PID)).Build()
	}
	return r.top.Deliver(req) == nil
}

func (r *run) takeDown() bool {
	m := r.bot.RetrieveOutgoing()
	if m == nil {
		return false
	}
	req := m.(mem.AccessReq)
	id, _ := r.rec.Known("bot", req.Meta().ID)
	r.owed[id] = req
	return true
}

func (r *run) envRsp(b int, d []int) bool {
	req, ok := r.owed[b]
	if !ok {
		return false
	}
	var rsp sim.Msg
	switch req.(type) {
	case *mem.ReadReq:
		rsp = mem.DataReadyRspBuilder{}.WithSrc("Mem.Top").WithDst(r.bot.AsRemote()).
			WithRspTo(req.Meta().ID).WithData(bytesOf(d)).Build()
	default:
		rsp = mem.WriteDoneRspBuilder{}.WithSrc("Mem.Top").WithDst(r.bot.AsRemote()).
			WithRspTo(req.Meta().ID).Build()
	}
	if r.bot.Deliver(rsp) != nil {
		return false
	}
	delete(r.owed, b)
	return true
}

func (r *run) envCtrl(k string) bool {
	b := mem.ControlMsgBuilder{}.WithSrc("Ctrl.Port").WithDst(r.ctrl.AsRemote())
	if k == "discard" {
		b = b.ToDiscardTransactions()
	} else {
		b = b.ToRestart()
	}
	if r.ctrl.Deliver(b.Build()) != nil {
		return false
	}
	r.flushing = k == "discard"
	return true
}

const awaitMax = 12

func (r *run) step(s Step) {
	ok := true
	switch s.A {
	case "EnvReq":
		ok = r.envReq(s.P)
		if !ok {
			r.tick(2)
			ok = r.envReq(s.P)
		}
	case "EnvTakeDown":
		r.await(awaitMax, func() bool { return r.bot.PeekOutgoing() != nil })
		ok = r.takeDown()
	case "EnvRsp":
		r.await(awaitMax, func() bool {
			if _, ok := r.owed[s.B]; ok {
				return true
			}
			return false
		})
		ok = r.envRsp(s.B, s.D)
	case "EnvTakeUp":
		r.await(awaitMax, func() bool { return r.top.PeekOutgoing() != nil })
		ok = r.top.RetrieveOutgoing() != nil
	case "EnvCtrl":
		want := "discard"
		if r.flushing {
			want = "restart"
		}
		if s.K != want || r.ctrl.PeekIncoming() != nil {
			ok = false
		} else {
			ok = r.envCtrl(s.K)
		}
	case "EnvTakeCtrl":
		r.await(awaitMax, func() bool { return r.ctrl.PeekOutgoing() != nil })
		ok = r.ctrl.RetrieveOutgoing() != nil
	case "Await":
		c0 := r.count[s.E]
		ok = r.await(awaitMax, func() bool { return r.count[s.E] > c0 })
	case "Tick":
		n := s.N
		if n == 0 {
			n = 1
		}
		r.tick(n)
	default:
		panic("unknown step " + s.A)
	}
	if ok {
		r.stats["steps_done"]++
	} else {
		r.stats["steps_skipped"]++
	}
}

// finish completes the flush protocol, then serves everything until the
// component and the environment have nothing left to do, and emits Quiesce.
func (r *run) finish() {
	for i := 0; i < 400; i++ {
		progress := false
		if r.flushing && r.ctrl.PeekIncoming() == nil {
			progress = r.envCtrl("restart") || progress
		}
		for r.ctrl.RetrieveOutgoing() != nil {
			progress = true
		}
		for r.takeDown() {
			progress = true
		}
		for r.top.RetrieveOutgoing() != nil {
			progress = true
		}
		for b, q := range sortedOwed(r.owed) {
			_ = b
			if r.envRsp(q, []int{0xAB, byte4(q)}) {
				progress = true
			}
		}
		before := r.eng.Events
		r.tick(1)
		if r.eng.Events != before {
			progress = true
		}
		if !progress && r.eng.Pending() == 0 {
			break
		}
	}
	r.rec.Emit("Quiesce", ab.Rec{"pending_events": r.eng.Pending(), "owed": len(r.owed), "cycle": r.cyc})
}

func byte4(x int) int { return x & 0xff }

func sortedOwed(m map[int]mem.AccessReq) []int {
	ks := make([]int, 0, len(m))
	for k := range m {
		ks = append(ks, k)
	}
	for i := range ks {
		for j := i + 1; j < len(ks); j++ {
			if ks[j] < ks[i] {
				ks[i], ks[j] = ks[j], ks[i]
			}
		}
	}
	return ks
}

// randomScenario produces an adversarial environment on line.
func (r *run) random(rng *rand.Rand, n int, flushes int) {
	issued := 0
	steps := 0
	for steps < 40*n+200 && (issued < n || len(r.owed) > 0) {
		steps++
		switch rng.Intn(9) {
		case 0, 1, 2:
			if issued < n {
				p := &Payload{K: "r", A: uint64(64 * (1 + rng.Intn(8))), N: uint64(4 << rng.Intn(3)), PID: 1 + rng.Intn(2)}
				if rng.Intn(2) == 0 {
					sz := 4 << rng.Intn(2)
					p = &Payload{K: "w", A: uint64(64 * (1 + rng.Intn(8))), PID: 1 + rng.Intn(2)}
					for i := 0; i < sz; i++ {
						p.D = append(p.D, rng.Intn(256))
						p.M = append(p.M, rng.Intn(2))
					}
				}
				if r.envReq(p) {
					issued++
				}
			}
		case 3:
			if rng.Intn(2) == 0 {
				r.takeDown()
			} else {
				for r.takeDown() {
				}
			}
		case 4, 5:
			ks := sortedOwed(r.owed)
			if len(ks) > 0 {
				b := ks[rng.Intn(len(ks))]
				r.envRsp(b, []int{rng.Intn(256), rng.Intn(256), b & 0xff, rng.Intn(4)})
			}
		case 6:
			if rng.Intn(3) > 0 {
				for r.top.RetrieveOutgoing() != nil {
				}
			}
		case 7:
			if flushes > 0 && rng.Intn(12) == 0 && r.ctrl.PeekIncoming() == nil {
				if r.flushing {
					r.envCtrl("restart")
					flushes--
				} else {
					r.envCtrl("discard")
				}
			}
			r.ctrl.RetrieveOutgoing()
		}
		if rng.Intn(4) > 0 {
			r.tick(1)
		}
	}
}

func main() {
	scen := flag.String("scen", "", "scenario file (JSON list)")
	out := flag.String("out", "trace.ndjson", "trace output")
	nrand := flag.Int("random", 0, "number of random runs")
	reqs := flag.Int("reqs", 30, "requests per random run")
	seed := flag.Int64("seed", 1, "seed")
	flag.Parse()

	f, err := os.Create(*out)
	if err != nil {
		panic(err)
	}
	w := bufio.NewWriter(f)
	rec := ab.NewRecorder(w)
	traces := 0
	stats := map[string]int{}
	begin := func(capacity, width int) *run {
		if traces > 0 {
			rec.Emit("Reset", ab.Rec{"cap": capacity})
		} else {
			rec.Emit("Reset", ab.Rec{"cap": capacity})
		}
		traces++
		return newRun(rec, capacity, width)
	}
	if *scen != "" {
		data, err := os.ReadFile(*scen)
		if err != nil {
			panic(err)
		}
		var scs []Scenario
		if err := json.Unmarshal(data, &scs); err != nil {
			panic(err)
		}
		for _, sc := range scs {
			r := begin(sc.Cap, sc.Width)
			for _, s := range sc.Steps {
				r.step(s)
			}
			r.finish()
			for k, v := range r.stats {
				stats[k] += v
			}
		}
	}
	rng := rand.New(rand.NewSource(*seed))
	for i := 0; i < *nrand; i++ {
		capacity := 1 + rng.Intn(4)
		if rng.Intn(4) == 0 {
			capacity = 8 + rng.Intn(120)
		}
		r := begin(capacity, 1+rng.Intn(4))
		r.random(rng, *reqs, rng.Intn(3))
		r.finish()
	}
	w.Flush()
	f.Close()
	stats["traces"] = traces
	stats["events"] = rec.Seq
	js, _ := json.Marshal(stats)
	fmt.Println(string(js))
}
