package main

// Free-running runs: the same controllers on akita's own SerialEngine, connected
// by akita DirectConnections to akita ideal memory controllers and to a small
// control-side agent. Nothing is scripted; the port hooks produce the same
// events, which PMCTrace.tla must accept as well. This checks the assumption that
// the akitabench engine/connection stand in faithfully for the real ones.

import (
	"fmt"
	"math/rand"

	"github.com/sarchlab/akita/v4/mem/idealmemcontroller"
	"github.com/sarchlab/akita/v4/mem/mem"
	"github.com/sarchlab/akita/v4/sim"
	"github.com/sarchlab/akita/v4/sim/directconnection"
	pmcpkg "github.com/sarchlab/mgpusim/v4/amd/timing/pagemigrationcontroller"

	ab "verifharness/akitabench"
)

type plannedReq struct {
	at  sim.VTimeInSec
	g   int
	msg *pmcpkg.PageMigrationReqToPMC
}

// agent is the control side: it sends the planned requests when their time has come and
// takes the completions.
type agent struct {
	*sim.TickingComponent
	ports []sim.Port
	plan  []plannedReq
	got   int
}

func (a *agent) Tick() bool {
	progress := false
	now := a.Engine.CurrentTime()
	rest := a.plan[:0]
	for _, p := range a.plan {
		if p.at <= now && a.ports[p.g].Send(p.msg) == nil {
			progress = true
			continue
		}
		rest = append(rest, p)
	}
	a.plan = rest
	for g := 1; g < len(a.ports); g++ {
		for a.ports[g].RetrieveIncoming() != nil {
			a.got++
			progress = true
		}
	}
	return progress || len(a.plan) > 0
}

func runReal(rec *ab.Recorder, rng *rand.Rand, nreq, maxChunks int) {
	n := 2
	if rng.Intn(3) == 0 {
		n = 3
	}
	eng := sim.NewSerialEngine()
	mems := make([]*idealmemcontroller.Comp, n+1)
	memPort := make([]sim.RemotePort, n+1)
	for g := 1; g <= n; g++ {
		mems[g] = idealmemcontroller.MakeBuilder().WithEngine(eng).WithFreq(1 * sim.GHz).WithNewStorage(64 * mem.MB).
			WithLatency(1 + rng.Intn(30)).WithWidth(1 + rng.Intn(3)).WithTopBufSize(1 + rng.Intn(4)).
			Build(fmt.Sprintf("GPU[%d].DRAM", g))
		memPort[g] = mems[g].GetPortByName("Top").AsRemote()
	}
	w := newWorldWith(rec, nil, eng, n, memPort)
	w.memPort = memPort
	a := &agent{ports: make([]sim.Port, n+1)}
	a.TickingComponent = sim.NewTickingComponent("CPStub", eng, 1*sim.GHz, a)
	netConn := directconnection.MakeBuilder().WithEngine(eng).WithFreq(1 * sim.GHz).Build("Net")
	ctrlConn := directconnection.MakeBuilder().WithEngine(eng).WithFreq(1 * sim.GHz).Build("Ctrl")
	for g := 1; g <= n; g++ {
		memConn := directconnection.MakeBuilder().WithEngine(eng).WithFreq(1 * sim.GHz).Build(fmt.Sprintf("MemConn%d", g))
		memConn.PlugIn(w.lm[g])
		memConn.PlugIn(mems[g].GetPortByName("Top"))
		netConn.PlugIn(w.rem[g])
		a.ports[g] = sim.NewPort(a, 4, 4, cpPortName(g))
		ctrlConn.PlugIn(a.ports[g])
		ctrlConn.PlugIn(w.ctrl[g])
	}
	// frames: sources are never destinations, destinations are fresh
	fc := 1 + rng.Intn(maxChunks)
	nfr := 2 + nreq
	type fr struct{ idx int }
	frames := make([][]int, n+1)
	for g := 1; g <= n; g++ {
		for k := 0; k < nfr; k++ {
			base := gpuBase(g) + uint64(k)*uint64((fc+1)*unit)
			idx := w.addFrame(g, base, fc*unit, rng)
			frames[g] = append(frames[g], idx)
			buf := make([]byte, fc*unit)
			for i := range buf {
				buf[i] = w.store[g][base+uint64(i)]
			}
			if err := mems[g].Storage.Write(base, buf); err != nil {
				panic(err)
			}
		}
	}
	w.emitReset(ab.Rec{"level": "real"})
	nextDst := make([]int, n+1)
	for g := range nextDst {
		nextDst[g] = 2 // frames 0 and 1 of every GPU stay sources
	}
	for i := 0; i < nreq; i++ {
		g := 1 + rng.Intn(n)
		o := 1 + rng.Intn(n-1)
		if o >= g {
			o++
		}
		if n > 2 {
			// nothing serialises the requests here, so with three GPUs every owner gets one fixed
			// requester: an owner serving two requesters at the same time is outside the property
			// (pairs of GPUs; the driver copies one page at a time) - see design/C19.md, limits
			o = g%n + 1
		}
		if nextDst[g] >= nfr {
			continue
		}
		src, dst := w.frs[frames[o][rng.Intn(2)]], w.frs[frames[g][nextDst[g]]]
		nextDst[g]++
		nch := 1 + rng.Intn(fc)
		req := pmcpkg.PageMigrationReqToPMCBuilder{}.WithSrc(a.ports[g].AsRemote()).WithDst(w.ctrl[g].AsRemote()).
			WithReadFrom(src.base).WithWriteTo(dst.base).WithPageSize(uint64(nch * unit)).
			WithPMCPortOfRemoteGPU(w.rem[o].AsRemote()).Build()
		w.reqs = append(w.reqs, &reqInfo{no: len(w.reqs) + 1, g: g, owner: o, from: src.base, to: dst.base, size: uint64(nch * unit), realID: req.ID})
		a.plan = append(a.plan, plannedReq{at: sim.VTimeInSec(float64(rng.Intn(200)) * 1e-9), g: g, msg: req})
	}
	planned := len(a.plan)
	func() {
		defer func() {
			if r := recover(); r != nil {
				w.panicked = true
				rec.Emit("Panic", ab.Rec{"msg": fmt.Sprint(r)})
			}
		}()
		a.TickLater()
		if err := eng.Run(); err != nil {
			panic(err)
		}
	}()
	if w.panicked {
		return
	}
	// the real storage
	for _, f := range w.frs {
		data, err := mems[f.g].Storage.Read(f.base, uint64(f.n))
		if err != nil {
			panic(err)
		}
		rec.Emit("Storage", ab.Rec{"g": f.g, "base": f.base, "bytes": ab.Bytes(data)})
	}
	rec.Emit("Quiesce", ab.Rec{"open": planned - a.got, "level": "real"})
}
