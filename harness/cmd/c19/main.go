// c19 drives real PageMigrationControllers (one per GPU) against a scripted
// network, scripted memory controllers with byte-accurate storage and a scripted
// control side, and writes a port-event trace for PMCTrace.tla.
//
// Modes:
//
//	-scen f     replay environment scenarios exported from TLC behaviours of PMCScen.tla
//	-random n   n seeded adversarial environments (delays, reordering, back-pressure)
//	-drv ...    see drv.go: the real driver.Driver (and real command processors) in the loop
package main

import (
	"bufio"
	"encoding/json"
	"flag"
	"fmt"
	"math/rand"
	"os"
	"sort"

	"github.com/sarchlab/akita/v4/mem/mem"
	"github.com/sarchlab/akita/v4/sim"
	pmcpkg "github.com/sarchlab/mgpusim/v4/amd/timing/pagemigrationcontroller"

	ab "verifharness/akitabench"
)

const unit = 64 // onDemandPagingDataTransferSize of the controller

// Step is one environment step of a scenario (addresses in chunk units).
type Step struct {
	A     string `json:"a"`
	G     int    `json:"g,omitempty"`
	From  int    `json:"from,omitempty"`
	To    int    `json:"to,omitempty"`
	N     int    `json:"n,omitempty"`
	Owner int    `json:"owner,omitempty"`
	K     string `json:"k,omitempty"`
	ID    int    `json:"id,omitempty"` // model id: request*100 + chunk (+50 for writes)
	E     string `json:"e,omitempty"`
	// driver-level scenarios
	Host int   `json:"host,omitempty"`
	Vs   []int `json:"vs,omitempty"`
	Acc  []int `json:"acc,omitempty"`
	V    int   `json:"v,omitempty"`
}

// Scenario is a configuration plus environment steps.
type Scenario struct {
	GPUs        int    `json:"gpus"`
	Frames      []int  `json:"frames"`      // frame bases in chunk units (same on every GPU)
	FrameChunks int    `json:"frameChunks"` // chunks per frame
	Seed        int64  `json:"seed"`
	SlowCtrl    bool   `json:"slowCtrl"` // the control side lets a few cycles pass before it takes a completion
	Steps       []Step `json:"steps"`
}

type frame struct {
	g    int
	base uint64
	n    int // bytes
}

type reqInfo struct {
	no         int // issue order, 1-based (the model's request id)
	g, owner   int
	from, to   uint64
	size       uint64
	done       bool
	reported   bool // the controller sent the completion
	realID     string
	srcF, dstF int // frame indices
}

type memReq struct {
	msg mem.AccessReq
	abs int
}

// world is one run: n PMCs and their scripted surroundings.
type world struct {
	rec      *ab.Recorder
	eng      *ab.Engine
	n        int
	pmcs     []*pmcpkg.PageMigrationController
	ctrl     []sim.Port
	rem      []sim.Port
	lm       []sim.Port
	cyc      int
	net      []sim.Msg
	pend     [][]memReq
	store    []map[uint64]byte
	frs      []frame
	count    map[string]int
	want     map[string]int
	reqs     []*reqInfo
	curOf    []*reqInfo // request being handled by PMC g (from the Accept hook)
	abs      map[string]int
	panicked bool
	stats    map[string]int
	// external control side (nil in pmc-only runs): called when a completion is taken
	onComplete    func(g int, m sim.Msg)
	ctrlByHarness bool
	bias          uint64
	target        int
	memPort       []sim.RemotePort // real memory controller ports (free-running runs)
}

func pmcName(g int) string     { return fmt.Sprintf("GPU[%d].PMC", g) }
func memPortName(g int) string { return fmt.Sprintf("GPU[%d].DRAM.Top", g) }
func cpPortName(g int) string  { return fmt.Sprintf("GPU[%d].CPStub.ToPMC", g) }
func gpuBase(g int) uint64     { return uint64(g)*0x100000 + 0x1000 }
func realAddr(g, a int) uint64 { return gpuBase(g) + uint64(a)*unit }

func (w *world) gpuOfPort(p sim.RemotePort) int {
	for g := 1; g <= w.n; g++ {
		if p == w.rem[g].AsRemote() || p == w.ctrl[g].AsRemote() || p == w.lm[g].AsRemote() ||
			string(p) == memPortName(g) || string(p) == cpPortName(g) {
			return g
		}
		if w.memPort != nil && p == w.memPort[g] {
			return g
		}
	}
	return 0
}

func (w *world) emit(e string, f ab.Rec) {
	w.count[e]++
	if g, ok := f["g"].(int); ok {
		w.count[fmt.Sprintf("%s@%d", e, g)]++
	}
	w.rec.Emit(e, f)
}

func newWorld(rec *ab.Recorder, n int) *world { return newWorldOn(rec, ab.NewEngine(), n) }

// la is the address as logged (TLC integers are 32-bit: system-level runs log addresses minus 4 GiB).
func (w *world) la(a uint64) uint64 { return a - w.bias }

// noteReq registers a migration request that the control side is about to hand to PMC g.
func (w *world) noteReq(g int, m sim.Msg) {
	q, ok := m.(*pmcpkg.PageMigrationReqToPMC)
	if !ok {
		return
	}
	w.reqs = append(w.reqs, &reqInfo{no: len(w.reqs) + 1, g: g, owner: w.gpuOfPort(q.PMCPortOfRemoteGPU),
		from: q.ToReadFromPhysicalAddress, to: q.ToWriteToPhysicalAddress, size: q.PageSize, realID: q.ID, srcF: -1, dstF: -1})
}

func newWorldOn(rec *ab.Recorder, eng *ab.Engine, n int) *world {
	return newWorldWith(rec, eng, eng, n, nil)
}

// newWorldWith builds n controllers on simEng. memPort (optional) names the memory controller port of
// each GPU; without it the memories are scripted and every controller port gets a passive connection.
func newWorldWith(rec *ab.Recorder, eng *ab.Engine, simEng sim.Engine, n int, memPort []sim.RemotePort) *world {
	w := &world{rec: rec, eng: eng, n: n, count: map[string]int{}, want: map[string]int{}, abs: map[string]int{},
		stats: map[string]int{}, ctrlByHarness: true}
	rec.ResetIDs()
	w.pmcs = make([]*pmcpkg.PageMigrationController, n+1)
	w.ctrl = make([]sim.Port, n+1)
	w.rem = make([]sim.Port, n+1)
	w.lm = make([]sim.Port, n+1)
	w.pend = make([][]memReq, n+1)
	w.store = make([]map[uint64]byte, n+1)
	w.curOf = make([]*reqInfo, n+1)
	for g := 1; g <= n; g++ {
		finder := &mem.SinglePortMapper{Port: sim.RemotePort(memPortName(g))}
		if memPort != nil {
			finder.Port = memPort[g]
		}
		p := pmcpkg.NewPageMigrationController(pmcName(g), simEng, finder, nil)
		w.pmcs[g] = p
		w.ctrl[g], w.rem[g], w.lm[g] = p.GetPortByName("Control"), p.GetPortByName("Remote"), p.GetPortByName("LocalMem")
		w.store[g] = map[uint64]byte{}
		if memPort == nil {
			conn := ab.NewConn(fmt.Sprintf("Conn%d", g))
			conn.PlugIn(w.ctrl[g])
			conn.PlugIn(w.rem[g])
			conn.PlugIn(w.lm[g])
		}
	}
	for g := 1; g <= n; g++ {
		w.hook(g)
	}
	return w
}

func (w *world) id(s string) int { return w.rec.ID("m", s) }

func (w *world) hook(g int) {
	w.ctrl[g].AcceptHook(ab.HookFn(func(ctx sim.HookCtx) {
		switch m := ctx.Item.(type) {
		case *pmcpkg.PageMigrationReqToPMC:
			switch ctx.Pos {
			case sim.HookPosPortMsgRecvd:
				w.emit("EnvMig", ab.Rec{"g": g, "id": w.id(m.ID), "from": w.la(m.ToReadFromPhysicalAddress),
					"to": w.la(m.ToWriteToPhysicalAddress), "size": m.PageSize, "owner": w.gpuOfPort(m.PMCPortOfRemoteGPU),
					"src": string(m.Src)})
			case sim.HookPosPortMsgRetrieveIncoming:
				for _, r := range w.reqs {
					if r.realID == m.ID {
						w.curOf[g] = r
					}
				}
				w.emit("Accept", ab.Rec{"g": g, "id": w.id(m.ID)})
			}
		case *pmcpkg.PageMigrationRspFromPMC:
			switch ctx.Pos {
			case sim.HookPosPortMsgSend:
				for _, r := range w.reqs {
					if r.g == g && !r.reported {
						r.reported = true
						break
					}
				}
				w.emit("SendComplete", ab.Rec{"g": g, "dst": string(m.Dst)})
			case sim.HookPosPortMsgRetrieveOutgoing:
				w.emit("TakeComplete", ab.Rec{"g": g})
			}
		}
	}))
	w.rem[g].AcceptHook(ab.HookFn(func(ctx sim.HookCtx) {
		kind, id := "", ""
		switch m := ctx.Item.(type) {
		case *pmcpkg.DataPullReq:
			kind, id = "pull", m.ID
			if ctx.Pos == sim.HookPosPortMsgSend {
				if r := w.curOf[g]; r != nil && m.ToReadFromPhyAddress >= r.from {
					w.abs[m.ID] = r.no*100 + int((m.ToReadFromPhyAddress-r.from)/unit)
				}
				w.emit("SendPull", ab.Rec{"g": g, "id": w.id(m.ID), "dst": w.gpuOfPort(m.Dst),
					"addr": w.la(m.ToReadFromPhyAddress), "n": m.DataTransferSize})
				return
			}
		case *pmcpkg.DataPullRsp:
			kind, id = "data", m.ID
			if ctx.Pos == sim.HookPosPortMsgSend {
				w.emit("SendPullRsp", ab.Rec{"g": g, "id": w.id(m.ID), "dst": w.gpuOfPort(m.Dst), "data": ab.Bytes(m.Data)})
				return
			}
		default:
			return
		}
		switch ctx.Pos {
		case sim.HookPosPortMsgRetrieveOutgoing:
			w.emit("NetTake", ab.Rec{"g": g, "k": kind, "id": w.id(id)})
		case sim.HookPosPortMsgRecvd:
			w.emit("NetDeliver", ab.Rec{"g": g, "k": kind, "id": w.id(id)})
		case sim.HookPosPortMsgRetrieveIncoming:
			if kind == "pull" {
				w.emit("RecvPull", ab.Rec{"g": g, "id": w.id(id)})
			} else {
				w.emit("RecvPullRsp", ab.Rec{"g": g, "id": w.id(id)})
			}
		}
	}))
	w.lm[g].AcceptHook(ab.HookFn(func(ctx sim.HookCtx) {
		switch m := ctx.Item.(type) {
		case *mem.ReadReq:
			switch ctx.Pos {
			case sim.HookPosPortMsgSend:
				w.emit("SendRead", ab.Rec{"g": g, "id": w.id(m.ID), "addr": w.la(m.Address), "n": m.AccessByteSize, "dst": string(m.Dst)})
			case sim.HookPosPortMsgRetrieveOutgoing:
				w.emit("MemTake", ab.Rec{"g": g, "id": w.id(m.ID)})
			}
		case *mem.WriteReq:
			switch ctx.Pos {
			case sim.HookPosPortMsgSend:
				if r := w.curOf[g]; r != nil && m.Address >= r.to {
					w.abs[m.ID] = r.no*100 + 50 + int((m.Address-r.to)/unit)
				}
				mask := 0
				if m.DirtyMask != nil {
					mask = 1
				}
				w.emit("SendWrite", ab.Rec{"g": g, "id": w.id(m.ID), "addr": w.la(m.Address), "data": ab.Bytes(m.Data),
					"masked": mask, "dst": string(m.Dst)})
			case sim.HookPosPortMsgRetrieveOutgoing:
				w.emit("MemTake", ab.Rec{"g": g, "id": w.id(m.ID)})
			}
		case *mem.DataReadyRsp:
			switch ctx.Pos {
			case sim.HookPosPortMsgRecvd:
				w.emit("MemRsp", ab.Rec{"g": g, "k": "d", "id": w.id(m.RespondTo), "data": ab.Bytes(m.Data)})
			case sim.HookPosPortMsgRetrieveIncoming:
				w.emit("RecvMem", ab.Rec{"g": g, "k": "d", "id": w.id(m.RespondTo)})
			}
		case *mem.WriteDoneRsp:
			switch ctx.Pos {
			case sim.HookPosPortMsgRecvd:
				w.emit("MemRsp", ab.Rec{"g": g, "k": "wd", "id": w.id(m.RespondTo), "data": []int{}})
			case sim.HookPosPortMsgRetrieveIncoming:
				w.emit("RecvMem", ab.Rec{"g": g, "k": "wd", "id": w.id(m.RespondTo)})
			}
		}
	}))
}

// addFrame declares a page frame with seeded contents. Frames are never assumed zero or fresh: contents are
// random bytes with all-zero 64-byte units mixed in, sometimes an all-zero frame, and units copied from the
// same offset of an earlier frame (so that a page can equal a destination's old contents in places).
func (w *world) addFrame(g int, base uint64, n int, rng *rand.Rand) int {
	allZero := rng.Intn(8) == 0
	for off := 0; off < n; off += unit {
		mode := rng.Intn(10)
		var from *frame
		if mode >= 3 && mode < 5 && len(w.frs) > 0 {
			from = &w.frs[rng.Intn(len(w.frs))]
		}
		for i := off; i < off+unit && i < n; i++ {
			var v byte
			switch {
			case allZero || mode < 3:
				v = 0
			case from != nil && i < from.n:
				v = w.store[from.g][from.base+uint64(i)]
			default:
				v = byte(rng.Intn(256))
			}
			w.store[g][base+uint64(i)] = v
		}
	}
	w.frs = append(w.frs, frame{g, base, n})
	return len(w.frs) - 1
}

func (w *world) frameBytes(f frame) []int {
	out := make([]int, f.n)
	for i := 0; i < f.n; i++ {
		out[i] = int(w.store[f.g][f.base+uint64(i)])
	}
	return out
}

func (w *world) emitReset(extra ab.Rec) {
	frs := []ab.Rec{}
	for _, f := range w.frs {
		frs = append(frs, ab.Rec{"g": f.g, "base": w.la(f.base), "bytes": w.frameBytes(f)})
	}
	r := ab.Rec{"gpus": w.n, "frames": frs}
	for k, v := range extra {
		r[k] = v
	}
	w.rec.Emit("Reset", r)
}

// tick advances n cycles; a panic of the real code ends the run with a Panic line.
func (w *world) tick(n int) {
	if w.panicked {
		return
	}
	defer func() {
		if r := recover(); r != nil {
			w.panicked = true
			w.rec.Emit("Panic", ab.Rec{"msg": fmt.Sprint(r)})
		}
	}()
	for i := 0; i < n; i++ {
		w.cyc++
		w.eng.RunUntil(ab.Cycle(w.cyc))
	}
}

func (w *world) await(max int, cond func() bool) bool {
	for i := 0; i < max && !cond() && !w.panicked; i++ {
		w.tick(1)
	}
	return cond()
}

// ------------------------------------------------------------ environment
func (w *world) envMig(g, owner int, from, to, size uint64, srcF, dstF int) bool {
	req := pmcpkg.PageMigrationReqToPMCBuilder{}.
		WithSrc(sim.RemotePort(cpPortName(g))).WithDst(w.ctrl[g].AsRemote()).
		WithReadFrom(from).WithWriteTo(to).WithPageSize(size).
		WithPMCPortOfRemoteGPU(w.rem[owner].AsRemote()).Build()
	r := &reqInfo{no: len(w.reqs) + 1, g: g, owner: owner, from: from, to: to, size: size, realID: req.ID, srcF: srcF, dstF: dstF}
	w.reqs = append(w.reqs, r)
	if w.ctrl[g].Deliver(req) != nil {
		w.reqs = w.reqs[:len(w.reqs)-1]
		return false
	}
	return true
}

func (w *world) takeComplete(g int) bool {
	m := w.ctrl[g].RetrieveOutgoing()
	if m == nil {
		return false
	}
	if w.onComplete != nil {
		w.onComplete(g, m)
	}
	for _, r := range w.reqs {
		if r.g == g && !r.done {
			r.done = true
			break
		}
	}
	return true
}

func (w *world) netTake(g int) bool {
	m := w.rem[g].RetrieveOutgoing()
	if m == nil {
		return false
	}
	w.net = append(w.net, m)
	return true
}

func (w *world) netDeliverAt(i int) bool {
	m := w.net[i]
	g := w.gpuOfPort(m.Meta().Dst)
	if g == 0 {
		// addressed to nobody we know: the message is lost in the network
		w.rec.Emit("NetLost", ab.Rec{"dst": string(m.Meta().Dst)})
		w.net = append(w.net[:i], w.net[i+1:]...)
		return true
	}
	if w.rem[g].Deliver(m) != nil {
		return false
	}
	w.net = append(w.net[:i], w.net[i+1:]...)
	return true
}

func (w *world) memTake(g int) bool {
	m := w.lm[g].RetrieveOutgoing()
	if m == nil {
		return false
	}
	req := m.(mem.AccessReq)
	w.pend[g] = append(w.pend[g], memReq{req, w.abs[req.Meta().ID]})
	return true
}

// memRspAt executes the i-th pending request of memory g on the storage and answers it.
func (w *world) memRspAt(g, i int) bool {
	q := w.pend[g][i]
	var rsp sim.Msg
	switch r := q.msg.(type) {
	case *mem.ReadReq:
		data := make([]byte, r.AccessByteSize)
		for k := range data {
			data[k] = w.store[g][r.Address+uint64(k)]
		}
		rsp = mem.DataReadyRspBuilder{}.WithSrc(r.Dst).WithDst(r.Src).WithRspTo(r.ID).WithData(data).Build()
		if w.lm[g].Deliver(rsp) != nil {
			return false
		}
	case *mem.WriteReq:
		rsp = mem.WriteDoneRspBuilder{}.WithSrc(r.Dst).WithDst(r.Src).WithRspTo(r.ID).Build()
		if w.lm[g].PeekIncoming() != nil {
			return false // would be refused (capacity 1): do not execute the write yet
		}
		for k, b := range r.Data {
			if r.DirtyMask == nil || r.DirtyMask[k] {
				w.store[g][r.Address+uint64(k)] = b
			}
		}
		if w.lm[g].Deliver(rsp) != nil {
			panic("harness: write executed but response refused")
		}
	}
	w.pend[g] = append(w.pend[g][:i], w.pend[g][i+1:]...)
	return true
}

func (w *world) absOfNet(m sim.Msg) (string, int) {
	switch x := m.(type) {
	case *pmcpkg.DataPullReq:
		return "pull", w.abs[x.ID]
	case *pmcpkg.DataPullRsp:
		return "data", w.abs[x.ID]
	}
	return "", -1
}

const awaitMax = 12

func (w *world) step(sc *Scenario, s Step) {
	ok := true
	switch s.A {
	case "EnvMig":
		// a replay that drifted must not break the environment's discipline: neither frame may still be the
		// source or the destination of a migration the controller has not reported
		from, to := realAddr(s.Owner, s.From), realAddr(s.G, s.To)
		busy := func() bool {
			for _, r := range w.reqs {
				if r.reported {
					continue
				}
				if (r.g == s.G && r.to == to) || (r.owner == s.G && r.from == to) ||
					(r.g == s.Owner && r.to == from) {
					return true
				}
			}
			return false
		}
		for i := 0; i < 200 && busy() && !w.panicked; i++ {
			hold := w.ctrlByHarness
			w.ctrlByHarness = false // network and memories are served while waiting, completions are not taken
			w.serveAll()
			w.ctrlByHarness = hold
			w.tick(1)
		}
		if busy() {
			ok = false
			break
		}
		ok = w.envMig(s.G, s.Owner, realAddr(s.Owner, s.From), realAddr(s.G, s.To), uint64(s.N*unit), -1, -1)
		if !ok {
			w.tick(2)
			ok = w.envMig(s.G, s.Owner, realAddr(s.Owner, s.From), realAddr(s.G, s.To), uint64(s.N*unit), -1, -1)
		}
	case "TakeComplete":
		if sc.SlowCtrl {
			w.tick(3)
		}
		w.await(awaitMax, func() bool { return w.ctrl[s.G].PeekOutgoing() != nil })
		ok = w.takeComplete(s.G)
	case "NetTake":
		w.await(awaitMax, func() bool { return w.rem[s.G].PeekOutgoing() != nil })
		ok = w.netTake(s.G)
	case "MemTake":
		w.await(awaitMax, func() bool { return w.lm[s.G].PeekOutgoing() != nil })
		ok = w.memTake(s.G)
	case "NetDeliver":
		find := func() int {
			for i, m := range w.net {
				if k, a := w.absOfNet(m); k == s.K && a == s.ID {
					return i
				}
			}
			return -1
		}
		i := find()
		if i < 0 {
			ok = false
			break
		}
		ok = w.netDeliverAt(i)
		if !ok {
			w.tick(2)
			if i = find(); i >= 0 {
				ok = w.netDeliverAt(i)
			}
		}
	case "MemRsp":
		find := func() int {
			for i, q := range w.pend[s.G] {
				if q.abs == s.ID {
					return i
				}
			}
			return -1
		}
		i := find()
		if i < 0 {
			ok = false
			break
		}
		ok = w.memRspAt(s.G, i)
		if !ok {
			w.tick(2)
			if i = find(); i >= 0 {
				ok = w.memRspAt(s.G, i)
			}
		}
	case "Await":
		// the k-th Await of an event in the behaviour waits for the k-th occurrence in the real run
		key := fmt.Sprintf("%s@%d", s.E, s.G)
		w.want[key]++
		ok = w.await(awaitMax, func() bool { return w.count[key] >= w.want[key] })
	case "Tick":
		w.tick(1)
	default:
		panic("unknown step " + s.A)
	}
	if ok {
		w.stats["steps_done"]++
	} else {
		w.stats["steps_skipped"]++
		w.stats["skipped_"+s.A]++
	}
}

// serveAll performs every enabled environment service action once; returns whether anything moved.
func (w *world) serveAll() bool {
	progress := false
	for g := 1; g <= w.n; g++ {
		if w.ctrlByHarness {
			for w.takeComplete(g) {
				progress = true
			}
		}
		for w.netTake(g) {
			progress = true
		}
		for w.memTake(g) {
			progress = true
		}
		for i := 0; i < len(w.pend[g]); {
			if w.memRspAt(g, i) {
				progress = true
			} else {
				i++
			}
		}
	}
	for i := 0; i < len(w.net); {
		if w.netDeliverAt(i) {
			progress = true
		} else {
			i++
		}
	}
	return progress
}

// finish serves everything until neither the controllers nor the environment
// have anything left to do, then dumps the storage and emits Quiesce.
func (w *world) finish() {
	for i := 0; i < 20000 && !w.panicked; i++ {
		progress := w.serveAll()
		before := w.eng.Events
		w.tick(1)
		if w.eng.Events != before {
			progress = true
		}
		if !progress && w.eng.Pending() == 0 {
			break
		}
	}
	if w.panicked {
		return
	}
	w.dumpStorage()
	open := 0
	for _, r := range w.reqs {
		if !r.done {
			open++
		}
	}
	w.rec.Emit("Quiesce", ab.Rec{"pending_events": w.eng.Pending(), "open": open, "cycle": w.cyc})
}

func (w *world) dumpStorage() {
	for _, f := range w.frs {
		w.rec.Emit("Storage", ab.Rec{"g": f.g, "base": w.la(f.base), "bytes": w.frameBytes(f)})
	}
	// cells outside every declared frame must never have been written
	for g := 1; g <= w.n; g++ {
		extra := []uint64{}
		for a := range w.store[g] {
			in := false
			for _, f := range w.frs {
				if f.g == g && a >= f.base && a < f.base+uint64(f.n) {
					in = true
				}
			}
			if !in {
				extra = append(extra, a)
			}
		}
		if len(extra) > 0 {
			sort.Slice(extra, func(i, j int) bool { return extra[i] < extra[j] })
			w.rec.Emit("StrayWrite", ab.Rec{"g": g, "addr": w.la(extra[0]), "cells": len(extra)})
		}
	}
}

// ------------------------------------------------------------ random environment
type frameState struct {
	idx    int
	page   bool // holds a page (a migration may read it); otherwise free: stale contents, may be handed out
	flying bool // source or destination of a migration that is not complete
	src    *frameState
	holder *reqInfo
}

func (w *world) random(rng *rand.Rand, nreq, frameChunks int, serial bool, fs [][]*frameState, onePMC, lazyCtrl bool) {
	issued := 0
	mood := 0          // 0 normal, 1 network stalled, 2 memory stalled, 3 control stalled
	target := w.target // onePMC: every request goes to this controller (they queue up behind each other)
	idle, lastSeq := 0, w.rec.Seq
	for steps := 0; steps < 60*nreq*frameChunks+400 && !w.panicked; steps++ {
		if rng.Intn(25) == 0 {
			mood = rng.Intn(4)
		}
		// a completed migration: the destination holds the page now, the source frame is free again
		for g := 1; g <= w.n; g++ {
			for _, f := range fs[g] {
				if f.flying && f.holder != nil && f.holder.done {
					f.flying, f.page, f.holder = false, true, nil
					f.src.flying, f.src.page = false, false
				}
			}
		}
		allDone := true
		for _, r := range w.reqs {
			if !r.done {
				allDone = false
			}
		}
		if issued >= nreq && allDone {
			break
		}
		switch rng.Intn(10) {
		case 0, 1:
			if issued >= nreq || (serial && !allDone) {
				break
			}
			g := 1 + rng.Intn(w.n)
			if onePMC {
				g = target
			}
			o := 1 + rng.Intn(w.n-1)
			if o >= g {
				o++
			}
			var src, dst *frameState
			for _, i := range rng.Perm(len(fs[o])) {
				if fs[o][i].page && !fs[o][i].flying {
					src = fs[o][i]
					break
				}
			}
			for _, i := range rng.Perm(len(fs[g])) {
				if !fs[g][i].page && !fs[g][i].flying {
					dst = fs[g][i]
					break
				}
			}
			if src == nil || dst == nil {
				break
			}
			n := 1 + rng.Intn(frameChunks)
			if rng.Intn(3) == 0 {
				n = frameChunks
			}
			if w.envMig(g, o, w.frs[src.idx].base, w.frs[dst.idx].base, uint64(n*unit), src.idx, dst.idx) {
				issued++
				src.flying, dst.flying = true, true
				dst.holder, dst.src = w.reqs[len(w.reqs)-1], src
			}
		case 2, 3:
			if mood != 1 {
				g := 1 + rng.Intn(w.n)
				w.netTake(g)
			}
		case 4, 5:
			if mood != 1 && len(w.net) > 0 {
				w.netDeliverAt(rng.Intn(len(w.net)))
			}
		case 6:
			if mood != 2 {
				w.memTake(1 + rng.Intn(w.n))
			}
		case 7, 8:
			g := 1 + rng.Intn(w.n)
			if mood != 2 && len(w.pend[g]) > 0 {
				w.memRspAt(g, rng.Intn(len(w.pend[g])))
			}
		case 9:
			if mood != 3 && !lazyCtrl {
				w.takeComplete(1 + rng.Intn(w.n))
			}
		}
		if rng.Intn(3) > 0 {
			w.tick(1)
		}
		// lazyCtrl: the control side takes a completion only after the controllers have been silent for a
		// while (a completion may then be stalled on the full port with further requests queued behind it)
		if w.rec.Seq == lastSeq {
			idle++
		} else {
			idle, lastSeq = 0, w.rec.Seq
		}
		if lazyCtrl && idle > 30 {
			w.takeComplete(1 + rng.Intn(w.n))
		}
	}
}

func main() {
	scen := flag.String("scen", "", "scenario file (JSON list)")
	out := flag.String("out", "trace.ndjson", "trace output")
	nrand := flag.Int("random", 0, "number of random runs")
	reqs := flag.Int("reqs", 4, "migration requests per random run")
	maxChunks := flag.Int("maxchunks", 4, "largest page in chunks of 64 bytes (random runs)")
	seed := flag.Int64("seed", 1, "seed")
	drv := flag.Int("drv", 0, "number of driver-level runs (real driver.Driver in the loop)")
	drvOut := flag.String("drvout", "", "driver-level trace output")
	sys := flag.Bool("sys", false, "driver-level runs use real command processors and PMCs")
	sysPMCOut := flag.String("syspmcout", "", "PMC-level trace of the system-level runs")
	nreal := flag.Int("real", 0, "number of free-running runs on akita's SerialEngine, DirectConnection and ideal memory controllers")
	drvGPUs := flag.Int("drvgpus", 2, "GPUs in driver-level runs")
	drvLog2 := flag.Uint64("drvlog2", 12, "log2 page size in driver-level runs")
	drvScen := flag.String("drvscen", "", "driver-level scenario file (JSON list of {steps}) exported from MigrationScen behaviours")
	drvKind := flag.String("drvkind", "normal", "normal: environment keeps clear of the known driver defects; known: scenarios exhibiting them; wild: no restriction")
	flag.Parse()

	f, err := os.Create(*out)
	if err != nil {
		panic(err)
	}
	bw := bufio.NewWriter(f)
	rec := ab.NewRecorder(bw)
	traces := 0
	stats := map[string]int{}

	if *scen != "" {
		data, err := os.ReadFile(*scen)
		if err != nil {
			panic(err)
		}
		var scs []Scenario
		if err := json.Unmarshal(data, &scs); err != nil {
			panic(err)
		}
		for _, sc := range scs {
			w := newWorld(rec, sc.GPUs)
			rng := rand.New(rand.NewSource(sc.Seed))
			for g := 1; g <= sc.GPUs; g++ {
				for _, b := range sc.Frames {
					w.addFrame(g, realAddr(g, b), sc.FrameChunks*unit, rng)
				}
			}
			w.emitReset(nil)
			traces++
			for _, s := range sc.Steps {
				if w.panicked {
					break
				}
				w.step(&sc, s)
			}
			w.finish()
			for k, v := range w.stats {
				stats[k] += v
			}
		}
	}

	rng := rand.New(rand.NewSource(*seed))
	for i := 0; i < *nrand; i++ {
		n := 2
		serial := false
		if rng.Intn(4) == 0 {
			n, serial = 3, true // three GPUs under the driver's one-migration-at-a-time discipline
		} else if rng.Intn(3) == 0 {
			serial = true
		}
		fc := 1 + rng.Intn(*maxChunks)
		if rng.Intn(3) == 0 {
			fc = *maxChunks
		}
		w := newWorld(rec, n)
		fs := make([][]*frameState, n+1)
		nfr := 2 + (*reqs+n-1)/n
		for g := 1; g <= n; g++ {
			for k := 0; k < nfr; k++ {
				// frames are not contiguous: a gap of one chunk between them
				base := gpuBase(g) + uint64(k)*uint64((fc+1)*unit)
				idx := w.addFrame(g, base, fc*unit, rng)
				fs[g] = append(fs[g], &frameState{idx: idx, page: k < (nfr+1)/2})
			}
		}
		w.emitReset(nil)
		traces++
		onePMC := !serial && rng.Intn(3) == 0
		lazyCtrl := rng.Intn(3) == 0
		if onePMC { // every request goes to one controller: its frames are all free, the others hold pages
			tgt := 1 + rng.Intn(n)
			for g := 1; g <= n; g++ {
				for _, f := range fs[g] {
					f.page = g != tgt
				}
			}
			w.target = tgt
		}
		w.random(rng, *reqs, fc, serial, fs, onePMC, lazyCtrl)
		w.finish()
	}
	for i := 0; i < *nreal; i++ {
		runReal(rec, rng, *reqs, *maxChunks)
		traces++
	}
	bw.Flush()
	f.Close()
	stats["traces"] = traces
	stats["events"] = rec.Seq

	if *drvScen != "" {
		ds := runDriverScenarios(*drvScen, *drvOut)
		for k, v := range ds {
			stats["drv_"+k] = v
		}
	} else if *drv > 0 {
		ds := runDriverLevel(*drvOut, *sysPMCOut, *drv, *seed, *sys, *drvGPUs, *drvLog2, *drvKind)
		for k, v := range ds {
			stats["drv_"+k] = v
		}
	}
	js, _ := json.Marshal(stats)
	fmt.Println(string(js))
}
