package main

// Driver-level runs: the real driver.Driver is ticked under the mini engine with
// a scripted MMU and scripted (or real) GPUs; every message on the driver's MMU
// and GPU ports is logged for MigrationTrace.tla, the real vm.PageTable is
// polled after every cycle (PTChange) and dumped at the end (Final).
//
// stub GPUs: the harness answers every command itself; a PageMigrationReqToCP is
//            executed on a token store exactly as the message describes it.
// sys:       every GPU is a real cp.CommandProcessor in front of a real
//            PageMigrationController with scripted network and byte memories
//            (the `world` of main.go); RDMA engine, CUs, address translators,
//            caches and TLBs behind the command processor are scripted stubs.

import (
	"bufio"
	"encoding/json"
	"fmt"
	"hash/crc32"
	"math/rand"
	"os"
	"sort"

	"github.com/sarchlab/akita/v4/mem/cache"
	"github.com/sarchlab/akita/v4/mem/mem"
	"github.com/sarchlab/akita/v4/mem/vm"
	"github.com/sarchlab/akita/v4/mem/vm/tlb"
	"github.com/sarchlab/akita/v4/sim"
	"github.com/sarchlab/mgpusim/v4/amd/driver"
	"github.com/sarchlab/mgpusim/v4/amd/protocol"
	"github.com/sarchlab/mgpusim/v4/amd/timing/cp"
	"github.com/sarchlab/mgpusim/v4/amd/timing/rdma"

	ab "verifharness/akitabench"
)

var initCalls int // driver.Init() hands out PIDs from a process-wide counter

type vpage struct {
	vaddr     uint64
	dev       int    // last mapping seen in the real page table
	paddr     uint64 //
	mig       bool
	valid     bool
	busy      bool // named in a request not answered yet
	hostOwned bool // a one-page buffer allocated by the host during the run
}

type mmuReq struct {
	id      int
	msg     *vm.PageMigrationReqToDriver
	pages   []*vpage
	replied bool
}

type gpuCmd struct {
	msg sim.Msg
	k   string
	id  int
}

type drvRun struct {
	rec      *ab.Recorder
	eng      *ab.Engine
	n        int
	log2     uint64
	d        *driver.Driver
	pt       vm.PageTable
	pid      vm.PID
	gpuP     sim.Port
	mmuP     sim.Port
	cpPort   []sim.Port // what the driver believes is the command processor of GPU g
	pmcPort  []sim.Port
	pages    []*vpage
	reqs     []*mmuReq
	cpIn     [][]gpuCmd
	tok      []map[uint64]int // stub mode: contents token per physical page of device g
	lo, hi   []uint64         // physical address range of device g
	cyc      int
	panicked bool
	count    map[string]int
	// sys mode
	sys   bool
	w     *world
	cps   []*cp.CommandProcessor
	stubQ [][]sim.Msg // per GPU: answers of the scripted units behind the CP, not delivered yet
	migOf []sim.Msg   // per GPU: the PageMigrationReqToCP being executed
	// environment discipline
	avoid       bool // keep clear of the two known driver defects (see design/C19.md)
	burst       bool // answers reach the driver in bursts, without a cycle in between
	allAccess   bool // every GPU is listed as accessing
	unreadShoot int  // shootdown responses delivered to the driver and not read yet
	stallAll    bool // the MMU takes no reply at all until the driver has gone idle
	ctx         *driver.Context
	lastSrc     int   // GPU that a page was re-homed away from most recently
	host        bool  // the application allocates, fills and frees memory beside the migrations
	freeCount   []int // frames of GPU g the allocator can still hand out (sources of migrations never come back)
	reserved    []int // ... of which promised to migrations requested and not prepared yet
	modelHost   map[int]*vpage
	rng2        *rand.Rand
	spare       int   // sys: declared frames per GPU beyond the initial pages
	rehomed     []int // sys: pages requested onto GPU g so far (must stay within the declared frames)
}

// mayDeliver applies the `avoid` discipline to a response about to be delivered to the driver:
// no response is put behind an unread shootdown response and no shootdown response behind anything.
func (r *drvRun) mayDeliver(m sim.Msg) bool {
	if !r.avoid {
		return true
	}
	if r.unreadShoot > 0 {
		return false
	}
	if kindOfRsp(m) == "shoot" && r.gpuP.PeekIncoming() != nil {
		return false
	}
	return true
}

// replyDiscipline (avoid): a reply is not left in the MMU port while another request is outstanding.
func (r *drvRun) replyDiscipline() {
	if !r.avoid || r.mmuP.PeekOutgoing() == nil {
		return
	}
	open := 0
	for _, q := range r.reqs {
		if !q.replied {
			open++
		}
	}
	if open > 1 {
		r.takeReply()
	}
}

func (r *drvRun) vpn(a uint64) uint64 { return a >> r.log2 }

func (r *drvRun) devOf(paddr uint64) int {
	for g := 0; g <= r.n; g++ {
		if paddr >= r.lo[g] && paddr < r.hi[g] {
			return g
		}
	}
	return -1
}

func (r *drvRun) gpuOfPort(p sim.RemotePort) int {
	for g := 1; g <= r.n; g++ {
		if p == r.cpPort[g].AsRemote() || p == r.pmcPort[g].AsRemote() {
			return g
		}
	}
	return 0
}

func (r *drvRun) emit(e string, f ab.Rec) {
	r.count[e]++
	r.rec.Emit(e, f)
}

func digest(b []byte) int { return int(crc32.ChecksumIEEE(b) & 0x3fffffff) }

// content digest of a physical page
func (r *drvRun) dig(dev int, paddr uint64) int {
	if dev < 1 || dev > r.n {
		return -1
	}
	if !r.sys {
		t, ok := r.tok[dev][paddr]
		if !ok {
			return -1
		}
		return t
	}
	buf := make([]byte, 1<<r.log2)
	for i := range buf {
		buf[i] = r.w.store[dev][paddr+uint64(i)]
	}
	return digest(buf)
}

func kindOfCmd(m sim.Msg) string {
	switch m.(type) {
	case *protocol.RDMADrainCmdFromDriver:
		return "drain"
	case *protocol.ShootDownCommand:
		return "shoot"
	case *protocol.PageMigrationReqToCP:
		return "mig"
	case *protocol.GPURestartReq:
		return "restart"
	case *protocol.RDMARestartCmdFromDriver:
		return "rdmarestart"
	}
	return "other"
}

func kindOfRsp(m sim.Msg) string {
	switch m.(type) {
	case *protocol.RDMADrainRspToDriver:
		return "drain"
	case *protocol.ShootDownCompleteRsp:
		return "shoot"
	case *protocol.PageMigrationRspToDriver:
		return "mig"
	case *protocol.GPURestartRsp:
		return "restart"
	case *protocol.RDMARestartRspToDriver:
		return "rdmarestart"
	}
	return "other"
}

func newDrvRun(rec *ab.Recorder, pmcRec *ab.Recorder, n int, log2 uint64, sys bool, rng *rand.Rand, pagesPerGPU int, dramPages int) *drvRun {
	r := &drvRun{rec: rec, eng: ab.NewEngine(), n: n, log2: log2, sys: sys, count: map[string]int{}, spare: 8,
		modelHost: map[int]*vpage{}, rng2: rand.New(rand.NewSource(rng.Int63()))}
	r.freeCount = make([]int, n+1)
	r.reserved = make([]int, n+1)
	if log2 >= 12 {
		r.spare = 3 // 4 KiB pages: keep the declared storage (and with it every TLC state) small
	}
	r.rehomed = make([]int, n+1)
	rec.ResetIDs()
	pageSize := uint64(1) << log2
	dram := pageSize * uint64(dramPages)
	allFrames := sys && dramPages <= 16 // small device memory: every frame is declared to the PMC trace
	if allFrames {
		r.spare = dramPages
	}
	r.pt = vm.NewPageTable(log2)
	r.d = driver.MakeBuilder().WithEngine(r.eng).WithPageTable(r.pt).WithLog2PageSize(log2).
		WithGlobalStorage(mem.NewStorage(8 * mem.GB)).WithMagicMemoryCopyMiddleware().Build("Driver")
	r.gpuP, r.mmuP = r.d.GetPortByName("GPU"), r.d.GetPortByName("MMU")
	conn := ab.NewConn("DrvConn")
	conn.PlugIn(r.gpuP)
	conn.PlugIn(r.mmuP)
	r.cpPort = make([]sim.Port, n+1)
	r.pmcPort = make([]sim.Port, n+1)
	r.cpIn = make([][]gpuCmd, n+1)
	r.tok = make([]map[uint64]int, n+1)
	r.lo = make([]uint64, n+1)
	r.hi = make([]uint64, n+1)
	r.lo[0], r.hi[0] = pageSize, pageSize+4*mem.GB
	if sys {
		r.w = newWorldOn(pmcRec, r.eng, n)
		r.w.ctrlByHarness = false
		r.w.bias = 4 * mem.GB
		r.cps = make([]*cp.CommandProcessor, n+1)
		r.stubQ = make([][]sim.Msg, n+1)
	}
	r.migOf = make([]sim.Msg, n+1)
	for g := 1; g <= n; g++ {
		r.lo[g] = r.hi[g-1]
		r.hi[g] = r.lo[g] + dram
		r.tok[g] = map[uint64]int{}
		if sys {
			c := cp.MakeBuilder().WithEngine(r.eng).WithFreq(1 * sim.GHz).Build(fmt.Sprintf("GPU[%d].CP", g))
			r.cps[g] = c
			c.Driver = r.gpuP
			c.PMC = r.w.ctrl[g]
			stub := func(name string) sim.Port { return sim.NewPort(nil, 1, 1, fmt.Sprintf("GPU[%d].%s", g, name)) }
			c.RDMA = stub("RDMA.Ctrl")
			c.CUs = []sim.RemotePort{stub("CU0.Ctrl").AsRemote(), stub("CU1.Ctrl").AsRemote()}
			c.AddressTranslators = []sim.Port{stub("AT0.Ctrl")}
			c.TLBs = []sim.Port{stub("L1TLB.Ctrl"), stub("L2TLB.Ctrl")}
			c.L1VCaches = []sim.Port{stub("L1V.Ctrl")}
			c.L1SCaches = []sim.Port{stub("L1S.Ctrl")}
			c.L1ICaches = []sim.Port{stub("L1I.Ctrl")}
			c.L2Caches = []sim.Port{stub("L2.Ctrl")}
			cc := ab.NewConn(fmt.Sprintf("CPConn%d", g))
			for _, p := range []sim.Port{c.ToDriver, c.ToDMA, c.ToCUs, c.ToTLBs, c.ToRDMA, c.ToPMC, c.ToAddressTranslators, c.ToCaches} {
				cc.PlugIn(p)
			}
			r.cpPort[g] = c.ToDriver
			r.pmcPort[g] = r.w.rem[g]
		} else {
			r.cpPort[g] = sim.NewPort(nil, 1, 1, fmt.Sprintf("GPU[%d].CP.ToDriver", g))
			r.pmcPort[g] = sim.NewPort(nil, 1, 1, fmt.Sprintf("GPU[%d].PMC.RemotePort", g))
		}
		r.d.RegisterGPU(r.cpPort[g], driver.DeviceProperties{CUCount: 4, DRAMSize: dram})
		r.d.RemotePMCPorts = append(r.d.RemotePMCPorts, r.pmcPort[g])
	}
	ctx := r.d.Init()
	r.ctx = ctx
	initCalls++
	r.pid = vm.PID(initCalls)
	// buffers: pagesPerGPU pages on every GPU
	for g := 1; g <= n; g++ {
		r.d.SelectGPU(ctx, g)
		ptr := r.d.AllocateMemory(ctx, uint64(pagesPerGPU)*pageSize)
		for k := 0; k < pagesPerGPU; k++ {
			va := uint64(ptr) + uint64(k)*pageSize
			pg, found := r.pt.Find(r.pid, va)
			if !found {
				panic(fmt.Sprintf("harness: page %x of pid %d not in the page table", va, r.pid))
			}
			if r.devOf(pg.PAddr) != g || int(pg.DeviceID) != g {
				panic(fmt.Sprintf("harness: device ranges are not what the harness assumes (page %x on %d, paddr %x)", va, pg.DeviceID, pg.PAddr))
			}
			r.pages = append(r.pages, &vpage{vaddr: va, dev: g, paddr: pg.PAddr, valid: pg.Valid, mig: pg.IsMigrating})
			if sys {
				r.w.addFrame(g, pg.PAddr, int(pageSize), rng)
			} else {
				r.tok[g][pg.PAddr] = 1000 + rng.Intn(1<<20)
			}
		}
		r.freeCount[g] = dramPages - pagesPerGPU
		if sys {
			// pages the allocator may hand out next on this device (it pops the lowest free page)
			last := pagesPerGPU + r.spare
			if allFrames {
				last = dramPages
			}
			for k := pagesPerGPU; k < last; k++ {
				r.w.addFrame(g, r.lo[g]+uint64(k)*pageSize, int(pageSize), rng)
			}
		}
	}
	r.hookPorts()
	// Reset lines
	ranges := [][]uint64{}
	for g := 0; g <= n; g++ {
		ranges = append(ranges, []uint64{uint64(g), r.vpn(r.lo[g]), r.vpn(r.hi[g])})
	}
	ptl := [][]uint64{}
	content := [][]int{}
	for _, p := range r.pages {
		ptl = append(ptl, []uint64{r.vpn(p.vaddr), uint64(p.dev), r.vpn(p.paddr)})
		content = append(content, []int{p.dev, int(r.vpn(p.paddr)), r.dig(p.dev, p.paddr)})
	}
	mode := "stub"
	if sys {
		mode = "sys"
		r.w.emitReset(ab.Rec{"bias_mb": 4096, "level": "sys"})
	}
	rec.Emit("Reset", ab.Rec{"gpus": n, "log2": log2, "pid": int(r.pid), "ranges": ranges, "pt": ptl,
		"content": content, "pagesize": pageSize, "mode": mode})
	return r
}

func (r *drvRun) hookPorts() {
	r.mmuP.AcceptHook(ab.HookFn(func(ctx sim.HookCtx) {
		switch m := ctx.Item.(type) {
		case *vm.PageMigrationReqToDriver:
			id := r.rec.ID("q", m.ID)
			switch ctx.Pos {
			case sim.HookPosPortMsgRecvd:
				want := [][]interface{}{}
				keys := []int{}
				for g := range m.MigrationInfo.GPUReqToVAddrMap {
					keys = append(keys, int(g))
				}
				sort.Ints(keys)
				for _, g := range keys {
					vs := []uint64{}
					for _, va := range m.MigrationInfo.GPUReqToVAddrMap[uint64(g)] {
						vs = append(vs, r.vpn(va))
					}
					want = append(want, []interface{}{g, vs})
				}
				r.emit("MMUReq", ab.Rec{"id": id, "pid": int(m.PID), "host": m.CurrPageHostGPU,
					"accessing": m.CurrAccessingGPUs, "want": want, "size": m.PageSize, "src": string(m.Src)})
			case sim.HookPosPortMsgRetrieveIncoming:
				r.emit("TakeMMU", ab.Rec{"id": id})
			}
		case *vm.PageMigrationRspFromDriver:
			switch ctx.Pos {
			case sim.HookPosPortMsgSend:
				vs := []uint64{}
				for _, va := range m.VAddr {
					vs = append(vs, r.vpn(va))
				}
				top := 0
				if m.RspToTop {
					top = 1
				}
				r.emit("Reply", ab.Rec{"id": r.rec.ID("q", m.OriginalReq.Meta().ID), "vs": vs, "dst": string(m.Dst), "top": top})
			case sim.HookPosPortMsgRetrieveOutgoing:
				r.emit("TakeReply", ab.Rec{"id": r.rec.ID("q", m.OriginalReq.Meta().ID)})
			}
		}
	}))
	r.gpuP.AcceptHook(ab.HookFn(func(ctx sim.HookCtx) {
		m := ctx.Item.(sim.Msg)
		switch ctx.Pos {
		case sim.HookPosPortMsgSend:
			f := ab.Rec{"k": kindOfCmd(m), "gpu": r.gpuOfPort(m.Meta().Dst), "id": r.rec.ID("c", m.Meta().ID)}
			switch c := m.(type) {
			case *protocol.ShootDownCommand:
				vs := []uint64{}
				for _, va := range c.VAddr {
					vs = append(vs, r.vpn(va))
				}
				f["vs"] = vs
				f["pid"] = int(c.PID)
			case *protocol.PageMigrationReqToCP:
				ps := uint64(1) << r.log2
				f["owner"] = r.gpuOfPort(c.DestinationPMCPort.AsRemote())
				f["from"] = r.vpn(c.ToReadFromPhysicalAddress)
				f["to"] = r.vpn(c.ToWriteToPhysicalAddress)
				f["off"] = c.ToReadFromPhysicalAddress%ps + c.ToWriteToPhysicalAddress%ps
				f["fromdev"] = r.devOf(c.ToReadFromPhysicalAddress)
				f["todev"] = r.devOf(c.ToWriteToPhysicalAddress)
				f["size"] = c.PageSize
			}
			r.emit("Cmd", f)
		case sim.HookPosPortMsgRetrieveOutgoing:
			r.emit("GPUTake", ab.Rec{"k": kindOfCmd(m), "gpu": r.gpuOfPort(m.Meta().Dst), "id": r.rec.ID("c", m.Meta().ID)})
		case sim.HookPosPortMsgRecvd:
			g := r.gpuOfPort(m.Meta().Src)
			f := ab.Rec{"k": kindOfRsp(m), "gpu": g}
			if kindOfRsp(m) == "mig" && g >= 1 && r.migOf[g] != nil {
				c := r.migOf[g].(*protocol.PageMigrationReqToCP)
				f["id"] = r.rec.ID("c", c.ID)
				f["dig"] = r.dig(g, c.ToWriteToPhysicalAddress)
				r.migOf[g] = nil
			}
			if kindOfRsp(m) == "shoot" {
				r.unreadShoot++
			}
			r.emit("GPURsp", f)
		case sim.HookPosPortMsgRetrieveIncoming:
			if kindOfRsp(m) == "shoot" {
				r.unreadShoot--
			}
			r.emit("RecvRsp", ab.Rec{"k": kindOfRsp(m), "gpu": r.gpuOfPort(m.Meta().Src)})
		}
	}))
}

// poll compares the real page table with the last mapping seen and logs every change.
func (r *drvRun) poll() {
	for _, p := range r.pages {
		pg, found := r.pt.Find(r.pid, p.vaddr)
		if !found {
			if p.valid {
				p.valid = false
				r.emit("PTChange", ab.Rec{"vpn": r.vpn(p.vaddr), "dev": -1, "ppn": 0, "off": 0, "valid": 0, "mig": 0})
			}
			continue
		}
		if int(pg.DeviceID) != p.dev || pg.PAddr != p.paddr || pg.IsMigrating != p.mig || pg.Valid != p.valid {
			if pg.PAddr != p.paddr { // re-homed: the destination GPU spent a frame
				if d := r.devOf(pg.PAddr); d >= 1 {
					r.freeCount[d]--
					if r.reserved[d] > 0 {
						r.reserved[d]--
					}
					r.lastSrc = p.dev
				}
			}
			p.dev, p.paddr, p.mig, p.valid = int(pg.DeviceID), pg.PAddr, pg.IsMigrating, pg.Valid
			b := func(x bool) int {
				if x {
					return 1
				}
				return 0
			}
			r.emit("PTChange", ab.Rec{"vpn": r.vpn(p.vaddr), "dev": p.dev, "ppn": r.vpn(p.paddr),
				"off": p.paddr % (uint64(1) << r.log2), "rangedev": r.devOf(p.paddr), "valid": b(p.valid), "mig": b(p.mig)})
		}
	}
}

func (r *drvRun) tick(n int) {
	if r.panicked {
		return
	}
	defer func() {
		if x := recover(); x != nil {
			r.panicked = true
			r.rec.Emit("Panic", ab.Rec{"msg": fmt.Sprint(x)})
			if r.sys {
				r.w.panicked = true
			}
		}
	}()
	for i := 0; i < n; i++ {
		r.cyc++
		r.eng.RunUntil(ab.Cycle(r.cyc))
		r.poll()
	}
}

// ------------------------------------------------------------ the host (application threads)
// hostAlloc: AllocateMemory of one page on GPU g. With probe the call is made although the harness knows of no
// free frame: the allocator must refuse (it panics "out of memory" before touching its state).
func (r *drvRun) hostAlloc(g int, probe bool) *vpage {
	if r.panicked {
		return nil
	}
	if !probe && r.freeCount[g]-r.reserved[g] <= 0 {
		return nil
	}
	if probe && r.freeCount[g] != 0 {
		return nil
	}
	pageSize := uint64(1) << r.log2
	var ptr driver.Ptr
	failed := false
	func() {
		defer func() {
			if x := recover(); x != nil {
				failed = true
				if fmt.Sprint(x) != "out of memory" {
					r.panicked = true
					r.rec.Emit("Panic", ab.Rec{"msg": fmt.Sprint(x)})
				}
			}
		}()
		r.d.SelectGPU(r.ctx, g)
		ptr = r.d.AllocateMemory(r.ctx, pageSize)
	}()
	if failed {
		if !r.panicked {
			r.emit("HostAllocFail", ab.Rec{"dev": g})
		}
		return nil
	}
	pg, found := r.pt.Find(r.pid, uint64(ptr))
	if !found {
		panic("harness: allocated page not in the page table")
	}
	dev := r.devOf(pg.PAddr)
	if dev >= 1 {
		r.freeCount[dev]--
		if !r.sys {
			if _, ok := r.tok[dev][pg.PAddr]; !ok {
				r.tok[dev][pg.PAddr] = 1000 + r.rng2.Intn(1<<20) // whatever the frame held
			}
		}
	}
	p := &vpage{vaddr: uint64(ptr), dev: int(pg.DeviceID), paddr: pg.PAddr, valid: pg.Valid, mig: pg.IsMigrating, hostOwned: true}
	r.pages = append(r.pages, p)
	r.emit("HostAlloc", ab.Rec{"vpn": r.vpn(p.vaddr), "dev": p.dev, "ppn": r.vpn(p.paddr), "rangedev": dev,
		"off": p.paddr % pageSize, "dig": r.dig(dev, pg.PAddr)})
	return p
}

// hostWrite: the application fills a page that is not being migrated.
func (r *drvRun) hostWrite(p *vpage) bool {
	if p.busy || r.panicked {
		return false
	}
	pageSize := int(uint64(1) << r.log2)
	if r.sys {
		buf := make([]int, pageSize)
		for i := range buf {
			b := byte(r.rng2.Intn(256))
			if r.rng2.Intn(4) == 0 {
				b = 0
			}
			r.w.store[p.dev][p.paddr+uint64(i)] = b
			buf[i] = int(b)
		}
		r.w.rec.Emit("HostWrite", ab.Rec{"g": p.dev, "base": r.w.la(p.paddr), "bytes": buf})
	} else {
		r.tok[p.dev][p.paddr] = 1000 + r.rng2.Intn(1<<20)
	}
	r.emit("HostWrite", ab.Rec{"vpn": r.vpn(p.vaddr), "dig": r.dig(p.dev, p.paddr)})
	return true
}

// hostFree: FreeMemory of a page the host allocated and that is not being migrated.
func (r *drvRun) hostFree(p *vpage) bool {
	if p.busy || !p.hostOwned || r.panicked {
		return false
	}
	if err := r.d.FreeMemory(r.ctx, driver.Ptr(p.vaddr)); err != nil {
		panic(err)
	}
	if d := r.devOf(p.paddr); d >= 1 {
		r.freeCount[d]++
	}
	for i, q := range r.pages {
		if q == p {
			r.pages = append(r.pages[:i], r.pages[i+1:]...)
			break
		}
	}
	r.emit("HostFree", ab.Rec{"vpn": r.vpn(p.vaddr)})
	return true
}

// hostBurst: the application grabs what GPU g has left (and asks once more), filling what it gets - the
// memory pressure under which a frame released too early is handed out again at once.
func (r *drvRun) hostBurst(g int) {
	got := []*vpage{}
	for r.freeCount[g]-r.reserved[g] > 0 {
		p := r.hostAlloc(g, false)
		if p == nil {
			break
		}
		got = append(got, p)
	}
	if p := r.hostAlloc(g, true); p != nil {
		got = append(got, p)
	}
	for _, p := range got {
		r.hostWrite(p)
	}
}

// ------------------------------------------------------------ environment
// issue builds an MMU request for pages that all live on host and are wanted by GPU(s) other than host.
func (r *drvRun) issue(host int, want map[int][]*vpage, accessing []uint64) bool {
	if r.mmuP.PeekIncoming() != nil {
		return false
	}
	for g, ps := range want {
		if r.freeCount[g]-r.reserved[g] < len(ps) {
			return false // the destination GPU could not take the pages (the driver would panic: out of memory)
		}
	}
	if r.sys {
		for g, ps := range want {
			if r.rehomed[g]+len(ps) > r.spare {
				return false // the destination pages would lie outside the storage declared to the trace spec
			}
		}
		for g, ps := range want {
			r.rehomed[g] += len(ps)
		}
	}
	req := vm.NewPageMigrationReqToDriver(sim.RemotePort("MMU.MigrationPort"), r.mmuP.AsRemote())
	req.ID = sim.GetIDGenerator().Generate()
	req.PID = r.pid
	req.PageSize = uint64(1) << r.log2
	req.CurrPageHostGPU = uint64(host)
	req.CurrAccessingGPUs = accessing
	req.RespondToTop = true
	req.MigrationInfo = &vm.PageMigrationInfo{GPUReqToVAddrMap: map[uint64][]uint64{}}
	q := &mmuReq{id: len(r.reqs) + 1, msg: req}
	for g, ps := range want {
		for _, p := range ps {
			req.MigrationInfo.GPUReqToVAddrMap[uint64(g)] = append(req.MigrationInfo.GPUReqToVAddrMap[uint64(g)], p.vaddr)
			q.pages = append(q.pages, p)
		}
	}
	if r.mmuP.Deliver(req) != nil {
		return false
	}
	for g, ps := range want {
		r.reserved[g] += len(ps)
	}
	for _, p := range q.pages {
		p.busy = true
	}
	r.reqs = append(r.reqs, q)
	return true
}

func (r *drvRun) takeReply() bool {
	m := r.mmuP.RetrieveOutgoing()
	if m == nil {
		return false
	}
	rsp := m.(*vm.PageMigrationRspFromDriver)
	for _, q := range r.reqs {
		if q.msg == rsp.OriginalReq {
			q.replied = true
			for _, p := range q.pages {
				p.busy = false
			}
		}
	}
	return true
}

func (r *drvRun) gpuTake() bool {
	m := r.gpuP.RetrieveOutgoing()
	if m == nil {
		return false
	}
	g := r.gpuOfPort(m.Meta().Dst)
	if g == 0 {
		r.rec.Emit("CmdLost", ab.Rec{"dst": string(m.Meta().Dst)})
		return true
	}
	if r.sys {
		if c, ok := m.(*protocol.PageMigrationReqToCP); ok {
			r.migOf[g] = c
		}
		if r.cps[g].ToDriver.Deliver(m) != nil {
			panic("harness: CP.ToDriver refused a command")
		}
		return true
	}
	r.cpIn[g] = append(r.cpIn[g], gpuCmd{msg: m, k: kindOfCmd(m)})
	return true
}

// gpuRspAt (stub GPUs): GPU g executes its i-th pending command and answers.
func (r *drvRun) gpuRspAt(g, i int) bool {
	c := r.cpIn[g][i]
	var rsp sim.Msg
	switch m := c.msg.(type) {
	case *protocol.RDMADrainCmdFromDriver:
		rsp = protocol.NewRDMADrainRspToDriver(r.cpPort[g], r.gpuP)
	case *protocol.ShootDownCommand:
		rsp = protocol.NewShootdownCompleteRsp(r.cpPort[g], r.gpuP)
	case *protocol.GPURestartReq:
		rsp = protocol.NewGPURestartRsp(r.cpPort[g], r.gpuP)
	case *protocol.RDMARestartCmdFromDriver:
		rsp = protocol.NewRDMARestartRspToDriver(r.cpPort[g], r.gpuP)
	case *protocol.PageMigrationReqToCP:
		// the copy, exactly as the message describes it
		owner := r.gpuOfPort(m.DestinationPMCPort.AsRemote())
		t := -1
		if owner >= 1 {
			if x, ok := r.tok[owner][m.ToReadFromPhysicalAddress]; ok {
				t = x
			}
		}
		rsp = protocol.NewPageMigrationRspToDriver(r.cpPort[g], r.gpuP)
		if r.mayDeliver(rsp) {
			r.tok[g][m.ToWriteToPhysicalAddress] = t
			r.migOf[g] = m
		}
	default:
		panic("harness: unexpected command for a GPU")
	}
	if !r.mayDeliver(rsp) {
		r.migOf[g] = nil
		return false
	}
	if r.gpuP.Deliver(rsp) != nil {
		return false
	}
	r.cpIn[g] = append(r.cpIn[g][:i], r.cpIn[g][i+1:]...)
	return true
}

// ---- sys mode: the scripted units behind a real command processor
func (r *drvRun) sysServe(g int, rng *rand.Rand, lazy bool) bool {
	c := r.cps[g]
	progress := false
	answer := func(p sim.Port, mk func(m sim.Msg) sim.Msg) {
		for {
			if lazy && rng.Intn(2) == 0 {
				return
			}
			m := p.RetrieveOutgoing()
			if m == nil {
				return
			}
			progress = true
			if rsp := mk(m); rsp != nil {
				r.stubQ[g] = append(r.stubQ[g], rsp)
			}
		}
	}
	answer(c.ToRDMA, func(m sim.Msg) sim.Msg {
		switch q := m.(type) {
		case *rdma.DrainReq:
			return rdma.DrainRspBuilder{}.WithSrc(q.Dst).WithDst(q.Src).Build()
		case *rdma.RestartReq:
			return rdma.RestartRspBuilder{}.WithSrc(q.Dst).WithDst(q.Src).Build()
		}
		panic("harness: unexpected message to the RDMA engine")
	})
	answer(c.ToCUs, func(m sim.Msg) sim.Msg {
		switch q := m.(type) {
		case *protocol.CUPipelineFlushReq:
			return protocol.CUPipelineFlushRspBuilder{}.WithSrc(q.Dst).WithDst(q.Src).Build()
		case *protocol.CUPipelineRestartReq:
			return protocol.CUPipelineRestartRspBuilder{}.WithSrc(q.Dst).WithDst(q.Src).Build()
		}
		panic("harness: unexpected message to a CU")
	})
	answer(c.ToAddressTranslators, func(m sim.Msg) sim.Msg {
		q := m.(*mem.ControlMsg)
		return mem.ControlMsgBuilder{}.WithSrc(q.Dst).WithDst(q.Src).ToNotifyDone().Build()
	})
	answer(c.ToCaches, func(m sim.Msg) sim.Msg {
		switch q := m.(type) {
		case *cache.FlushReq:
			return cache.FlushRspBuilder{}.WithSrc(q.Dst).WithDst(q.Src).WithRspTo(q.ID).Build()
		case *cache.RestartReq:
			return cache.RestartRspBuilder{}.WithSrc(q.Dst).WithDst(q.Src).WithRspTo(q.ID).Build()
		}
		panic("harness: unexpected message to a cache")
	})
	answer(c.ToTLBs, func(m sim.Msg) sim.Msg {
		switch q := m.(type) {
		case *tlb.FlushReq:
			return tlb.FlushRspBuilder{}.WithSrc(q.Dst).WithDst(q.Src).Build()
		case *tlb.RestartReq:
			return tlb.RestartRspBuilder{}.WithSrc(q.Dst).WithDst(q.Src).Build()
		}
		panic("harness: unexpected message to a TLB")
	})
	// CP <-> PMC control link
	if !(lazy && rng.Intn(2) == 0) {
		if m := c.ToPMC.PeekOutgoing(); m != nil && r.w.ctrl[g].PeekIncoming() == nil {
			c.ToPMC.RetrieveOutgoing()
			r.w.noteReq(g, m)
			if r.w.ctrl[g].Deliver(m) != nil {
				panic("harness: PMC control port refused")
			}
			progress = true
		}
		if m := r.w.ctrl[g].PeekOutgoing(); m != nil {
			r.w.takeComplete(g)
			if c.ToPMC.Deliver(m) != nil {
				panic("harness: CP.ToPMC refused")
			}
			progress = true
		}
	}
	// answers of the scripted units reach the CP
	for i := 0; i < len(r.stubQ[g]); {
		if lazy && rng.Intn(3) == 0 {
			i++
			continue
		}
		m := r.stubQ[g][i]
		var p sim.Port
		switch m.Meta().Dst {
		case c.ToRDMA.AsRemote():
			p = c.ToRDMA
		case c.ToCUs.AsRemote():
			p = c.ToCUs
		case c.ToAddressTranslators.AsRemote():
			p = c.ToAddressTranslators
		case c.ToCaches.AsRemote():
			p = c.ToCaches
		case c.ToTLBs.AsRemote():
			p = c.ToTLBs
		default:
			panic("harness: stub answer to an unknown port " + string(m.Meta().Dst))
		}
		if p.Deliver(m) != nil {
			i++
			continue
		}
		r.stubQ[g] = append(r.stubQ[g][:i], r.stubQ[g][i+1:]...)
		progress = true
	}
	// CP -> driver
	if !(lazy && rng.Intn(2) == 0) {
		for {
			m := c.ToDriver.PeekOutgoing()
			if m == nil || !r.mayDeliver(m) {
				break
			}
			c.ToDriver.RetrieveOutgoing()
			if r.gpuP.Deliver(m) != nil {
				panic("harness: driver GPU port refused")
			}
			progress = true
		}
	}
	return progress
}

func (r *drvRun) pendingWork() bool {
	for g := 1; g <= r.n; g++ {
		if len(r.cpIn[g]) > 0 {
			return true
		}
		if r.sys && len(r.stubQ[g]) > 0 {
			return true
		}
	}
	return false
}

func (r *drvRun) serveAll(rng *rand.Rand) bool {
	progress := false
	for !r.stallAll && r.takeReply() {
		progress = true
	}
	for r.gpuTake() {
		progress = true
	}
	for g := 1; g <= r.n; g++ {
		for len(r.cpIn[g]) > 0 && r.gpuRspAt(g, 0) {
			progress = true
		}
		if r.sys && r.sysServe(g, rng, false) {
			progress = true
		}
	}
	if r.sys && r.w.serveAll() {
		progress = true
	}
	return progress
}

func (r *drvRun) finish(rng *rand.Rand) {
	for i := 0; i < 100000 && !r.panicked; i++ {
		progress := r.serveAll(rng)
		before := r.eng.Events
		r.tick(1)
		if r.eng.Events != before {
			progress = true
		}
		if !progress && r.eng.Pending() == 0 {
			if r.stallAll {
				r.stallAll = false // everything else has drained: the MMU finally takes its replies
				continue
			}
			break
		}
	}
	if r.panicked {
		return
	}
	fin := [][]int{}
	for _, p := range r.pages {
		pg, found := r.pt.Find(r.pid, p.vaddr)
		if !found {
			fin = append(fin, []int{int(r.vpn(p.vaddr)), -1, 0, -1})
			continue
		}
		fin = append(fin, []int{int(r.vpn(p.vaddr)), int(pg.DeviceID), int(r.vpn(pg.PAddr)), r.dig(int(pg.DeviceID), pg.PAddr)})
	}
	r.emit("Final", ab.Rec{"pt": fin})
	open := 0
	for _, q := range r.reqs {
		if !q.replied {
			open++
		}
	}
	r.emit("Quiesce", ab.Rec{"open": open, "pending_events": r.eng.Pending(), "cycle": r.cyc})
	if r.sys {
		r.w.dumpStorage()
		r.w.rec.Emit("Quiesce", ab.Rec{"pending_events": r.eng.Pending(), "cycle": r.cyc})
	}
}

func (r *drvRun) random(rng *rand.Rand, nreq int, stallReplies bool) {
	issued := 0
	mood := 0 // 1: GPUs answer nothing, 2: MMU takes no reply
	r.stallAll = stallReplies
	ptSeen := 0
	for steps := 0; steps < 4000*nreq && !r.panicked; steps++ {
		if rng.Intn(30) == 0 {
			mood = rng.Intn(3)
		}
		r.replyDiscipline()
		all := true
		for _, q := range r.reqs {
			if !q.replied {
				all = false
			}
		}
		if issued >= nreq && all && !r.pendingWork() && r.eng.Pending() == 0 {
			break
		}
		switch rng.Intn(8) {
		case 0:
			if issued >= nreq {
				break
			}
			host := 1 + rng.Intn(r.n)
			cand := []*vpage{}
			for _, p := range r.pages {
				if p.dev == host && !p.busy && !p.mig || (p.dev == host && !p.busy) {
					cand = append(cand, p)
				}
			}
			if len(cand) == 0 {
				break
			}
			rng.Shuffle(len(cand), func(i, j int) { cand[i], cand[j] = cand[j], cand[i] })
			want := map[int][]*vpage{}
			others := []int{}
			for g := 1; g <= r.n; g++ {
				if g != host {
					others = append(others, g)
				}
			}
			np := 1 + rng.Intn(2)
			if rng.Intn(4) == 0 {
				np = 3
			}
			for k := 0; k < np && k < len(cand); k++ {
				g := others[0]
				if len(others) > 1 && rng.Intn(5) == 0 {
					g = others[1+rng.Intn(len(others)-1)]
				}
				want[g] = append(want[g], cand[k])
			}
			if rng.Intn(2) == 0 {
				rng.Shuffle(len(others), func(i, j int) { others[i], others[j] = others[j], others[i] })
			}
			acc := []uint64{uint64(host)}
			for _, g := range others {
				if r.allAccess || rng.Intn(3) == 0 {
					acc = append(acc, uint64(g))
				}
			}
			if r.issue(host, want, acc) {
				issued++
			}
		case 1, 2:
			r.gpuTake()
		case 3, 4:
			if mood == 1 {
				break
			}
			g := 1 + rng.Intn(r.n)
			if r.burst {
				// everything that is pending anywhere is answered at once, and only once the driver
				// has sent all it had to send and sleeps (no event pending)
				if r.eng.Pending() > 0 {
					break
				}
				for r.gpuTake() {
				}
				for h := 1; h <= r.n; h++ {
					for len(r.cpIn[h]) > 0 && r.gpuRspAt(h, 0) {
					}
					if r.sys {
						r.sysServe(h, rng, false)
					}
				}
			} else if r.sys {
				r.sysServe(g, rng, true)
			} else if len(r.cpIn[g]) > 0 {
				r.gpuRspAt(g, rng.Intn(len(r.cpIn[g])))
			}
		case 5:
			if r.sys {
				w := r.w
				switch rng.Intn(4) {
				case 0:
					w.netTake(1 + rng.Intn(r.n))
				case 1:
					if len(w.net) > 0 {
						w.netDeliverAt(rng.Intn(len(w.net)))
					}
				case 2:
					w.memTake(1 + rng.Intn(r.n))
				case 3:
					g := 1 + rng.Intn(r.n)
					if len(w.pend[g]) > 0 {
						w.memRspAt(g, rng.Intn(len(w.pend[g])))
					}
				}
			}
		case 6:
			if mood != 2 && !stallReplies {
				r.takeReply()
			}
		case 7:
			if !r.host {
				break
			}
			switch rng.Intn(6) {
			case 0, 1:
				r.hostAlloc(1+rng.Intn(r.n), false)
			case 2:
				if len(r.pages) > 0 {
					r.hostWrite(r.pages[rng.Intn(len(r.pages))])
				}
			case 3:
				if len(r.pages) > 0 {
					r.hostFree(r.pages[rng.Intn(len(r.pages))])
				}
			case 4:
				r.hostAlloc(1+rng.Intn(r.n), true)
			case 5:
				if r.lastSrc >= 1 {
					r.hostBurst(r.lastSrc)
				}
			}
		}
		// a page has just been re-homed: now and then the application grabs the source GPU's memory at once
		if r.host && r.count["PTChange"] > ptSeen {
			ptSeen = r.count["PTChange"]
			if rng.Intn(2) == 0 && r.lastSrc >= 1 {
				r.hostBurst(r.lastSrc)
			}
		}
		if r.sys && rng.Intn(2) == 0 {
			r.w.serveAll()
		}
		if rng.Intn(3) > 0 {
			r.tick(1)
		}
	}
}

// DrvScenario is the environment half of one behaviour of MigrationScen.tla (2 GPUs; model pages
// 1 and 2 live on GPU 1, page 3 on GPU 2).
type DrvScenario struct {
	Steps []Step `json:"steps"`
}

func (r *drvRun) modelPage(v int) *vpage {
	switch {
	case v >= 100:
		p := r.modelHost[v]
		for _, q := range r.pages {
			if q == p {
				return p
			}
		}
		return nil // never allocated in this replay, or freed
	case v == 1 || v == 2:
		return r.pages[v-1]
	default:
		return r.pages[3] // first page of GPU 2 (3 pages per GPU)
	}
}

func (r *drvRun) await(max int, cond func() bool) bool {
	for i := 0; i < max && !cond() && !r.panicked; i++ {
		r.tick(1)
	}
	return cond()
}

func (r *drvRun) scenStep(s Step, want map[string]int, stats map[string]int) {
	ok := true
	switch s.A {
	case "EnvMMUReq":
		w := map[int][]*vpage{}
		usable := true
		for _, v := range s.Vs {
			p := r.modelPage(v)
			if p == nil || p.busy || p.dev != s.Host {
				usable = false
				break
			}
			w[s.G] = append(w[s.G], p)
		}
		if !usable {
			ok = false
			break
		}
		acc := []uint64{}
		for _, a := range s.Acc {
			acc = append(acc, uint64(a))
		}
		r.await(awaitMax, func() bool { return r.mmuP.PeekIncoming() == nil })
		ok = r.issue(s.Host, w, acc)
	case "GPUTake":
		r.await(awaitMax, func() bool { return r.gpuP.PeekOutgoing() != nil })
		ok = r.gpuTake()
	case "GPURsp":
		find := func() int {
			for i, c := range r.cpIn[s.G] {
				if c.k == s.K {
					return i
				}
			}
			return -1
		}
		// the `avoid` discipline may ask for a few cycles first (nothing behind an unread shootdown ack)
		r.await(awaitMax, func() bool {
			return r.unreadShoot == 0 && (s.K != "shoot" || r.gpuP.PeekIncoming() == nil)
		})
		if i := find(); i >= 0 {
			ok = r.gpuRspAt(s.G, i)
		} else {
			ok = false
		}
	case "TakeReply":
		r.await(awaitMax, func() bool { return r.mmuP.PeekOutgoing() != nil })
		ok = r.takeReply()
	case "HostAlloc":
		p := r.hostAlloc(s.G, false)
		ok = p != nil
		if ok {
			r.modelHost[s.V] = p
		}
	case "HostWrite", "HostFree":
		var p *vpage
		if s.V >= 100 {
			p = r.modelHost[s.V]
		} else {
			p = r.modelPage(s.V)
		}
		ok = false
		if p != nil {
			live := false
			for _, q := range r.pages {
				if q == p {
					live = true
				}
			}
			if live && s.A == "HostWrite" {
				ok = r.hostWrite(p)
			} else if live {
				ok = r.hostFree(p)
			}
		}
	case "Await":
		want[s.E]++
		ok = r.await(awaitMax, func() bool { return r.count[s.E] >= want[s.E] })
	default:
		panic("unknown driver-level step " + s.A)
	}
	if ok {
		stats["steps_done"]++
	} else {
		stats["steps_skipped"]++
		stats["skipped_"+s.A]++
	}
}

func runDriverScenarios(file, out string) map[string]int {
	data, err := os.ReadFile(file)
	if err != nil {
		panic(err)
	}
	var scs []DrvScenario
	if err := json.Unmarshal(data, &scs); err != nil {
		panic(err)
	}
	f, err := os.Create(out)
	if err != nil {
		panic(err)
	}
	bw := bufio.NewWriter(f)
	rec := ab.NewRecorder(bw)
	stats := map[string]int{}
	rng := rand.New(rand.NewSource(1))
	for _, sc := range scs {
		r := newDrvRun(rec, nil, 2, 12, false, rng, 3, 64)
		r.avoid = true
		want := map[string]int{}
		for _, s := range sc.Steps {
			if r.panicked {
				break
			}
			r.replyDiscipline()
			r.scenStep(s, want, stats)
		}
		r.finish(rng)
		for _, k := range []string{"Reply", "Cmd", "PTChange", "MMUReq"} {
			stats[k] += r.count[k]
		}
	}
	bw.Flush()
	f.Close()
	stats["traces"] = len(scs)
	stats["events"] = rec.Seq
	return stats
}

func runDriverLevel(out, pmcOut string, nruns int, seed int64, sys bool, ngpu int, log2 uint64, kind string) map[string]int {
	f, err := os.Create(out)
	if err != nil {
		panic(err)
	}
	bw := bufio.NewWriter(f)
	rec := ab.NewRecorder(bw)
	var pmcRec *ab.Recorder
	var pf *os.File
	var pbw *bufio.Writer
	if sys {
		pf, err = os.Create(pmcOut)
		if err != nil {
			panic(err)
		}
		pbw = bufio.NewWriter(pf)
		pmcRec = ab.NewRecorder(pbw)
	}
	rng := rand.New(rand.NewSource(seed))
	stats := map[string]int{}
	for i := 0; i < nruns; i++ {
		ppg := 3
		if sys && log2 >= 12 {
			ppg = 2
		}
		dramPages := 64
		if kind == "pressure" {
			dramPages = ppg + 3 + rng.Intn(3) // small device memory
		}
		r := newDrvRun(rec, pmcRec, ngpu, log2, sys, rng, ppg, dramPages)
		nreq := 1 + rng.Intn(4)
		if sys && log2 >= 12 {
			nreq = 1 + rng.Intn(2)
		}
		st := false
		switch kind {
		case "normal":
			r.avoid = true
		case "pressure":
			// the application allocates, fills and frees memory beside the migrations, device memory is small
			r.avoid, r.host = true, true
		case "known":
			// scenarios that exhibit the two known driver defects (accepted once the fixes are in)
			if i%2 == 0 {
				st, nreq = true, 3 // the MMU port stays blocked over three handshakes
			} else {
				r.burst, r.allAccess, nreq = true, true, 2 // shootdown acknowledgements arrive together
			}
		case "wild":
			st = i%7 == 3
			r.burst = i%5 == 2
		default:
			panic("unknown -drvkind " + kind)
		}
		r.random(rng, nreq, st)
		r.finish(rng)
		for _, k := range []string{"Reply", "Cmd", "PTChange", "MMUReq"} {
			stats[k] += r.count[k]
		}
	}
	bw.Flush()
	f.Close()
	stats["traces"] = nruns
	stats["events"] = rec.Seq
	if sys {
		pbw.Flush()
		pf.Close()
		stats["pmc_events"] = pmcRec.Seq
	}
	return stats
}
