package main

func runDriverLevel(out string, n int, seed int64, sys bool) map[string]int {
	return map[string]int{}
}
