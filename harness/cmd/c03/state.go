package main

import (
	"encoding/binary"
	"fmt"

	"github.com/sarchlab/akita/v4/mem/vm"
	"github.com/sarchlab/mgpusim/v4/amd/emu"
	"github.com/sarchlab/mgpusim/v4/amd/insts"
	"github.com/sarchlab/mgpusim/v4/amd/kernels"
	"github.com/sarchlab/mgpusim/v4/amd/timing/cu"
	"github.com/sarchlab/mgpusim/v4/amd/timing/wavefront"
)

const (
	nSGPR = 102
	nVGPR = 256
	nLane = 64
)

// machine is an InstEmuState of the real code plus raw access to its register
// storage (used to set up the pre-state and to observe the post-state without
// going through the operand-resolution code under test).
type machine interface {
	emu.InstEmuState
	setInst(i *insts.Inst)
	setS(i int, v uint32)
	getS(i int) uint32
	setV(lane, i int, v uint32)
	getV(lane, i int) uint32
	setM0(v uint32)
	getM0() uint32
	snapS() []uint32 // all SGPRs
	snapV() [][]byte // per lane, 1024 bytes
	kind() string
}

// ---------------------------------------------------------------- emulation
type emuMachine struct {
	*emu.Wavefront
	inst *insts.Inst
}

func newEmuMachine() *emuMachine {
	return &emuMachine{Wavefront: emu.NewWavefront(kernels.NewWavefront())}
}

func (m *emuMachine) kind() string          { return "emu" }
func (m *emuMachine) Inst() *insts.Inst     { return m.inst }
func (m *emuMachine) setInst(i *insts.Inst) { m.inst = i }
func (m *emuMachine) setS(i int, v uint32) {
	binary.LittleEndian.PutUint32(m.SRegFile[4*i:], v)
}
func (m *emuMachine) getS(i int) uint32 { return binary.LittleEndian.Uint32(m.SRegFile[4*i:]) }
func (m *emuMachine) setV(lane, i int, v uint32) {
	binary.LittleEndian.PutUint32(m.VRegFile[lane*1024+4*i:], v)
}
func (m *emuMachine) getV(lane, i int) uint32 {
	return binary.LittleEndian.Uint32(m.VRegFile[lane*1024+4*i:])
}
func (m *emuMachine) setM0(v uint32) { m.M0 = v }
func (m *emuMachine) getM0() uint32  { return m.M0 }
func (m *emuMachine) snapS() []uint32 {
	s := make([]uint32, nSGPR)
	for i := range s {
		s[i] = m.getS(i)
	}
	return s
}
func (m *emuMachine) snapV() [][]byte {
	out := make([][]byte, nLane)
	for l := 0; l < nLane; l++ {
		out[l] = append([]byte(nil), m.VRegFile[l*1024:(l+1)*1024]...)
	}
	return out
}

// ------------------------------------------------------------------- timing
// The timing wavefront reads registers through cu.CURegFileAccessor, which only
// needs the SRegFile / VRegFile fields of the compute unit.
type timingMachine struct {
	*wavefront.Wavefront
	cu *cu.ComputeUnit
	sf *cu.SimpleRegisterFile
	vf *cu.SimpleRegisterFile
}

func newTimingMachine() *timingMachine {
	m := &timingMachine{}
	m.Wavefront = wavefront.NewWavefront(kernels.NewWavefront())
	m.cu = &cu.ComputeUnit{}
	m.sf = cu.NewSimpleRegisterFile(uint64(nSGPR*4+64), 0)
	m.vf = cu.NewSimpleRegisterFile(uint64(nLane*1024), 1024)
	m.cu.SRegFile = m.sf
	m.cu.VRegFile = []cu.RegisterFile{m.vf}
	m.SIMDID = 0
	m.RegAccessor = &cu.CURegFileAccessor{CU: m.cu, WF: m.Wavefront}
	m.SetPID(vm.PID(1))
	return m
}

func (m *timingMachine) kind() string { return "timing" }
func (m *timingMachine) setInst(i *insts.Inst) {
	m.SetDynamicInst(&wavefront.Inst{Inst: i, ID: "x"})
}
func (m *timingMachine) setS(i int, v uint32) {
	m.sf.Write(cu.RegisterAccess{Reg: insts.SReg(i), RegCount: 1, Data: insts.Uint32ToBytes(v)})
}
func (m *timingMachine) getS(i int) uint32 {
	a := cu.RegisterAccess{Reg: insts.SReg(i), RegCount: 1, Data: make([]byte, 4)}
	m.sf.Read(a)
	return binary.LittleEndian.Uint32(a.Data)
}
func (m *timingMachine) setV(lane, i int, v uint32) {
	m.vf.Write(cu.RegisterAccess{Reg: insts.VReg(i), RegCount: 1, LaneID: lane, Data: insts.Uint32ToBytes(v)})
}
func (m *timingMachine) getV(lane, i int) uint32 {
	a := cu.RegisterAccess{Reg: insts.VReg(i), RegCount: 1, LaneID: lane, Data: make([]byte, 4)}
	m.vf.Read(a)
	return binary.LittleEndian.Uint32(a.Data)
}
func (m *timingMachine) setM0(v uint32) { m.M0 = v }
func (m *timingMachine) getM0() uint32  { return m.M0 }
func (m *timingMachine) snapS() []uint32 {
	s := make([]uint32, nSGPR)
	for i := range s {
		s[i] = m.getS(i)
	}
	return s
}
func (m *timingMachine) snapV() [][]byte {
	out := make([][]byte, nLane)
	for l := 0; l < nLane; l++ {
		a := cu.RegisterAccess{Reg: insts.VReg(0), RegCount: 256, LaneID: l, Data: make([]byte, 1024)}
		m.vf.Read(a)
		out[l] = a.Data
	}
	return out
}

// ------------------------------------------------------------------- memory
// region is a byte-addressed window of device memory.  Like the real
// storageAccessorImpl it panics when an access leaves the mapped range, so an
// access an instruction must not make is observable.
type access struct {
	Off  int
	Size int
	W    int
}

type region struct {
	base   uint64
	data   []byte
	acc    []access
	faults int
}

func (r *region) Read(pid vm.PID, vAddr, byteSize uint64) []byte {
	if vAddr < r.base || vAddr+byteSize > r.base+uint64(len(r.data)) || vAddr+byteSize < vAddr {
		r.faults++
		panic(fmt.Sprintf("page not found in page table: vAddr=0x%x size=%d", vAddr, byteSize))
	}
	off := int(vAddr - r.base)
	r.acc = append(r.acc, access{off, int(byteSize), 0})
	return append([]byte(nil), r.data[off:off+int(byteSize)]...)
}

func (r *region) Write(pid vm.PID, vAddr uint64, data []byte) {
	n := uint64(len(data))
	if vAddr < r.base || vAddr+n > r.base+uint64(len(r.data)) || vAddr+n < vAddr {
		r.faults++
		panic(fmt.Sprintf("page not found in page table: vAddr=0x%x size=%d (write)", vAddr, n))
	}
	off := int(vAddr - r.base)
	r.acc = append(r.acc, access{off, len(data), 1})
	copy(r.data[off:], data)
}

// ------------------------------------------------------------------- limbs
func limbs32(v uint32) []int { return []int{int(v & 0xffff), int(v >> 16)} }
func limbs64(v uint64) []int {
	return []int{int(v & 0xffff), int((v >> 16) & 0xffff), int((v >> 32) & 0xffff), int(v >> 48)}
}
func fromLimbs(l []int) uint64 {
	var v uint64
	for i, x := range l {
		v |= uint64(x&0xffff) << (16 * uint(i))
	}
	return v
}
func bytesToInts(b []byte) []int {
	o := make([]int, len(b))
	for i, x := range b {
		o[i] = int(x)
	}
	return o
}
