// c03 executes single instructions on the real ALUs (emu.ALUImpl for GCN3,
// cdna3.ALU for CDNA3) from corner-case and seeded random architectural states
// and writes one (inst, pre, post) record per execution for spec/isa/ISATrace.tla.
package main

import (
	"bufio"
	"encoding/json"
	"flag"
	"fmt"
	"io"
	"log"
	"math/rand"
	"os"
	"strconv"
	"strings"
)

func main() {
	mode := flag.String("mode", "c03", "c03 | c06")
	seed := flag.Int64("seed", 1, "seed")
	scale := flag.Int("scale", 1, "volume multiplier")
	out := flag.String("out", "trace.ndjson", "output trace")
	casesFile := flag.String("cases", "", "execute the cases of this JSON file instead of generating")
	dump := flag.String("dumpcases", "", "also write the executed cases (JSON list) here")
	only := flag.String("only", "", "comma list arch/FMT/op to restrict generation")
	ids := flag.String("ids", "", "comma list of generated case ids to execute (replay)")
	symFile := flag.String("sym", "", "execute the symbolic cases (JSON list, from ISAScen behaviours) of this file")
	flag.Parse()
	log.SetOutput(io.Discard) // the ALUs report unimplemented cases through log.Panicf; the panic is recorded

	var cases []*Case
	if *symFile != "" {
		b, err := os.ReadFile(*symFile)
		if err != nil {
			panic(err)
		}
		var syms []SymCase
		if err := json.Unmarshal(b, &syms); err != nil {
			panic(err)
		}
		g := &gen{r: rand.New(rand.NewSource(*seed)), mode: "sym", fk: [2]int{-1, -1}}
		for i, s := range syms {
			st := "emu"
			if i%4 == 3 {
				st = "timing"
			}
			cases = append(cases, g.symCase(s, st))
		}
	} else if *casesFile != "" {
		b, err := os.ReadFile(*casesFile)
		if err != nil {
			panic(err)
		}
		if err := json.Unmarshal(b, &cases); err != nil {
			panic(err)
		}
	} else {
		g := &gen{r: rand.New(rand.NewSource(*seed)), mode: *mode, fk: [2]int{-1, -1}}
		var om map[string]bool
		if *only != "" {
			om = map[string]bool{}
			for _, k := range strings.Split(*only, ",") {
				om[k] = true
			}
		}
		if *mode == "c06" {
			g.genC06(*scale, om)
		} else {
			g.genC03(*scale, om)
		}
		cases = g.cases
	}
	if *ids != "" {
		want := map[int]bool{}
		for _, k := range strings.Split(*ids, ",") {
			n, _ := strconv.Atoi(k)
			want[n] = true
		}
		var sel []*Case
		for _, c := range cases {
			// a permuted twin is only meaningful right after its original
			if want[c.ID] || (c.Perm != nil && want[c.Pair]) || (want[c.ID+1] && hasTwin(cases, c)) {
				sel = append(sel, c)
			}
		}
		cases = sel
	}

	f, err := os.Create(*out)
	if err != nil {
		panic(err)
	}
	w := bufio.NewWriterSize(f, 1<<20)
	stats := map[string]int{}
	for _, c := range cases {
		rec := runCase(c)
		stats["records"]++
		if rec["e"] != "X" {
			stats[fmt.Sprint(rec["e"])]++
		}
		if _, p := rec["panic"]; p {
			stats["panics"]++
		}
		b, err := json.Marshal(rec)
		if err != nil {
			panic(err)
		}
		w.Write(b)
		w.WriteByte('\n')
	}
	w.Flush()
	f.Close()
	if *dump != "" {
		b, _ := json.Marshal(cases)
		os.WriteFile(*dump, b, 0o644)
	}
	sb, _ := json.Marshal(stats)
	fmt.Println(string(sb))
}

func hasTwin(cases []*Case, c *Case) bool {
	for _, t := range cases {
		if t.Perm != nil && t.Pair == c.ID {
			return true
		}
	}
	return false
}
