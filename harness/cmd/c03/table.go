package main

// Driving table: which (arch, format, opcode) the ALUs implement and how to
// build an experiment for it (operand widths, value classes).  This is harness
// knowledge about how to *drive* an instruction; what the instruction must do
// is decided only by spec/isa (which has its own opcode table transcribed from
// the manuals).
//
// cls: "ref"   the spec has a full reference for the result (C03 + C06)
//      "lane"  no exact reference (transcendental etc.): lane-wise structure only (C06)
//      "undoc" implemented but not defined for this architecture by its manual (C06 only)

type opDef struct {
	arch string // "g" GCN3, "c" CDNA3, "gc" both
	f    string
	op   int
	tmpl string
	aw   int
	bw   int
	cw   int
	dw   int
	vt   string // value classes of a,b,c: i=int f=f32 d=f64 s=shift amount h=16-bit m=lane mask k=class mask
	cls  string
	flag string // vccin vccout mac lit(K) sdst
}

func rows(arch, f, tmpl string, aw, bw, cw, dw int, vt, cls, flag string, ops ...int) []opDef {
	var r []opDef
	for _, o := range ops {
		r = append(r, opDef{arch, f, o, tmpl, aw, bw, cw, dw, vt, cls, flag})
	}
	return r
}

func buildTable() []opDef {
	var t []opDef
	add := func(r []opDef) { t = append(t, r...) }
	// ---------------------------------------------------------------- SOP2
	add(rows("gc", "SOP2", "sop2", 32, 32, 0, 32, "ii", "ref", "", 0, 1, 2, 3, 4, 5, 6, 7, 8, 9, 10, 12, 16, 36))
	add(rows("c", "SOP2", "sop2", 32, 32, 0, 32, "ii", "ref", "", 14, 18, 20, 44))
	add(rows("gc", "SOP2", "sop2", 64, 64, 0, 64, "ii", "ref", "", 13, 15, 17, 19))
	add(rows("c", "SOP2", "sop2", 64, 64, 0, 64, "ii", "ref", "", 11, 21))
	add(rows("gc", "SOP2", "sop2", 32, 32, 0, 32, "is", "ref", "", 28, 30, 32))
	add(rows("gc", "SOP2", "sop2", 64, 32, 0, 64, "is", "ref", "", 29, 31))
	add(rows("c", "SOP2", "sop2", 64, 32, 0, 64, "is", "ref", "", 33))
	add(rows("gc", "SOP2", "sop2", 32, 32, 0, 32, "ss", "ref", "", 34))
	add(rows("gc", "SOP2", "sop2", 32, 32, 0, 32, "ib", "ref", "", 38))
	add(rows("c", "SOP2", "sop2", 32, 32, 0, 32, "ib", "ref", "", 37))
	// ---------------------------------------------------------------- SOP1
	add(rows("gc", "SOP1", "sop1", 32, 0, 0, 32, "i", "ref", "", 0, 4, 8, 48))
	add(rows("gc", "SOP1", "sop1", 64, 0, 0, 64, "i", "ref", "", 1, 32, 33, 34, 35, 36, 37, 38, 39))
	add(rows("gc", "SOP1", "sop1", 0, 0, 0, 64, "", "ref", "", 28))
	// ---------------------------------------------------------------- SOPC / SOPK / SOPP / SMEM
	add(rows("g", "SOPC", "sopc", 32, 32, 0, 0, "ii", "ref", "", 0, 1, 2, 3, 4, 5, 6, 7, 8, 10))
	add(rows("c", "SOPC", "sopc", 32, 32, 0, 0, "ii", "ref", "", 0, 1, 2, 3, 4, 5, 6, 7, 8, 9, 10, 11))
	add(rows("gc", "SOPK", "sopk", 0, 0, 0, 32, "", "ref", "", 0, 1, 2, 3, 15))
	add(rows("gc", "SOPP", "sopp", 0, 0, 0, 0, "", "ref", "", 0, 2, 4, 5, 6, 7, 8, 9, 12))
	add(rows("gc", "SMEM", "smem", 0, 0, 0, 32, "", "ref", "", 0))
	add(rows("gc", "SMEM", "smem", 0, 0, 0, 64, "", "ref", "", 1))
	add(rows("gc", "SMEM", "smem", 0, 0, 0, 128, "", "ref", "", 2))
	add(rows("gc", "SMEM", "smem", 0, 0, 0, 256, "", "ref", "", 3))
	add(rows("gc", "SMEM", "smem", 0, 0, 0, 512, "", "ref", "", 4))
	// ---------------------------------------------------------------- VOP1
	add(rows("gc", "VOP1", "vop1", 32, 0, 0, 32, "i", "ref", "", 1, 43, 44))
	add(rows("c", "VOP1", "vop1", 32, 0, 0, 32, "i", "ref", "", 45))
	add(rows("gc", "VOP1", "vop1s", 32, 0, 0, 32, "i", "ref", "", 2))
	add(rows("gc", "VOP1", "vop1", 32, 0, 0, 64, "i", "ref", "", 4))
	add(rows("c", "VOP1", "vop1", 32, 0, 0, 64, "i", "ref", "", 22))
	add(rows("gc", "VOP1", "vop1", 32, 0, 0, 32, "i", "ref", "", 5, 6, 17))
	add(rows("gc", "VOP1", "vop1", 32, 0, 0, 32, "f", "ref", "", 7, 8, 10, 28, 30))
	add(rows("gc", "VOP1", "vop1", 64, 0, 0, 32, "d", "ref", "", 15))
	add(rows("gc", "VOP1", "vop1", 32, 0, 0, 64, "f", "ref", "", 16))
	add(rows("gc", "VOP1", "vop1", 32, 0, 0, 32, "f", "lane", "", 32, 33, 34, 35, 36, 39))
	add(rows("gc", "VOP1", "vop1", 64, 0, 0, 64, "d", "lane", "", 37))
	add(rows("c", "VOP1", "vop1", 64, 0, 0, 64, "i", "ref", "", 56))
	add(rows("g", "VOP1", "vop1", 32, 0, 0, 32, "f", "lane", "", 76))
	add(rows("c", "VOP1", "vop1", 32, 0, 0, 32, "f", "undoc", "", 76))
	// ---------------------------------------------------------------- VOP2
	add(rows("gc", "VOP2", "vop2", 32, 32, 0, 32, "ii", "ref", "vccin", 0))
	add(rows("gc", "VOP2", "vop2", 32, 32, 0, 32, "ff", "ref", "", 1, 2, 3, 5, 10, 11))
	add(rows("g", "VOP2", "vop2", 32, 32, 0, 32, "ff", "ref", "", 4))
	add(rows("gc", "VOP2", "vop2", 32, 32, 0, 32, "ii", "ref", "", 6, 8, 12, 13, 14, 15, 19, 20, 21))
	add(rows("gc", "VOP2", "vop2", 32, 32, 0, 32, "si", "ref", "", 16, 17, 18))
	add(rows("g", "VOP2", "vop2", 32, 32, 0, 32, "ff", "ref", "mac", 22))
	add(rows("c", "VOP2", "vop2", 32, 32, 0, 32, "ff", "undoc", "mac", 22))
	add(rows("c", "VOP2", "vop2", 32, 32, 32, 32, "fff", "ref", "litk", 23))
	add(rows("gc", "VOP2", "vop2", 32, 32, 32, 32, "fff", "ref", "litk", 24))
	add(rows("gc", "VOP2", "vop2", 32, 32, 0, 32, "ii", "ref", "vccout", 25, 26, 27))
	add(rows("gc", "VOP2", "vop2", 32, 32, 0, 32, "ii", "ref", "vccin vccout", 28, 29, 30))
	add(rows("c", "VOP2", "vop2", 32, 32, 0, 32, "hh", "ref", "", 38))
	add(rows("gc", "VOP2", "vop2", 32, 32, 0, 32, "sh", "ref", "", 42))
	add(rows("c", "VOP2", "vop2", 32, 32, 0, 32, "ii", "ref", "", 52, 53, 54))
	add(rows("g", "VOP2", "vop2", 32, 32, 0, 32, "ii", "undoc", "vccout", 52, 53, 54))
	add(rows("c", "VOP2", "vop2", 32, 32, 0, 32, "ff", "ref", "mac", 59))
	// sub-dword addressing (SDWA) forms the ALUs implement
	add(rows("gc", "VOP2", "vop2sdwa", 32, 32, 0, 32, "ii", "ref", "", 19, 20, 21))
	add(rows("g", "VOP2", "vop2sdwa", 32, 32, 0, 32, "ii", "ref", "vccout", 25))
	// ---------------------------------------------------------------- VOPC
	add(rows("g", "VOPC", "vopc", 32, 32, 0, 0, "ff", "ref", "", 0x41, 0x42, 0x43, 0x44, 0x45, 0x46, 0x49, 0x4A, 0x4B, 0x4C, 0x4D, 0x4E))
	add(rows("c", "VOPC", "vopc", 32, 32, 0, 0, "ff", "ref", "", 0x41, 0x42, 0x43, 0x44, 0x45, 0x46))
	add(rows("c", "VOPC", "vopc", 32, 32, 0, 0, "fk", "ref", "", 0x10))
	add(rows("c", "VOPC", "vopc", 32, 32, 0, 0, "hh", "ref", "", 0xA4))
	add(rows("gc", "VOPC", "vopc", 32, 32, 0, 0, "ii", "ref", "", 0xC1, 0xC3, 0xC4, 0xC5, 0xC6, 0xC9, 0xCA, 0xCB, 0xCC, 0xCD, 0xCE))
	add(rows("gc", "VOPC", "vopc", 64, 64, 0, 0, "ii", "ref", "", 0xE8, 0xE9, 0xEA, 0xEB, 0xEC, 0xED, 0xEE, 0xEF))
	// ---------------------------------------------------------------- VOP3a
	add(rows("gc", "VOP3a", "vop3c", 32, 32, 0, 64, "ff", "ref", "", 65, 68, 78))
	add(rows("c", "VOP3a", "vop3c", 32, 32, 0, 64, "ff", "ref", "", 70))
	add(rows("c", "VOP3a", "vop3c", 32, 32, 0, 64, "fk", "ref", "", 16))
	add(rows("gc", "VOP3a", "vop3c", 32, 32, 0, 64, "ii", "ref", "", 193, 195, 196, 198, 201, 202, 203, 204, 205, 206))
	add(rows("gc", "VOP3a", "vop3c", 64, 64, 0, 64, "ii", "ref", "", 233))
	add(rows("gc", "VOP3a", "vop3", 32, 32, 64, 32, "iim", "ref", "", 256))
	add(rows("gc", "VOP3a", "vop3", 32, 32, 0, 32, "ff", "ref", "", 258))
	add(rows("c", "VOP3a", "vop3", 32, 32, 0, 32, "ff", "ref", "", 261))
	add(rows("g", "VOP3a", "vop3", 32, 32, 32, 32, "fff", "ref", "", 449))
	add(rows("c", "VOP3a", "vop3", 32, 32, 32, 32, "fff", "undoc", "", 449))
	add(rows("gc", "VOP3a", "vop3", 32, 32, 32, 32, "iii", "ref", "", 450, 451, 465, 466, 468, 469, 471, 472))
	add(rows("gc", "VOP3a", "vop3", 32, 32, 32, 32, "ibb", "ref", "", 456, 457))
	add(rows("c", "VOP3a", "vop3", 32, 32, 32, 32, "fff", "ref", "", 459))
	add(rows("gc", "VOP3a", "vop3", 64, 64, 64, 64, "ddd", "ref", "", 460))
	add(rows("gc", "VOP3a", "vop3", 32, 32, 32, 32, "fff", "ref", "", 464, 467, 470))
	add(rows("c", "VOP3a", "vop3", 32, 32, 32, 32, "fff", "lane", "", 478))
	add(rows("gc", "VOP3a", "vop3", 64, 64, 64, 64, "ddd", "lane", "", 479))
	add(rows("c", "VOP3a", "vop3", 32, 32, 32, 32, "fff", "lane", "vccin", 482))
	add(rows("gc", "VOP3a", "vop3", 64, 64, 64, 64, "ddd", "lane", "vccin", 483))
	add(rows("gc", "VOP3a", "vop3", 32, 32, 64, 64, "iii", "ref", "sdst", 488))
	add(rows("c", "VOP3a", "vop3", 32, 32, 32, 32, "isi", "ref", "", 509, 512))
	add(rows("c", "VOP3a", "vop3", 32, 32, 32, 32, "iis", "ref", "", 510))
	add(rows("c", "VOP3a", "vop3", 32, 32, 32, 32, "iii", "ref", "", 511))
	add(rows("g", "VOP3a", "vop3", 32, 32, 32, 32, "iii", "undoc", "", 511))
	add(rows("c", "VOP3a", "vop3", 64, 32, 64, 64, "iti", "ref", "", 520))
	add(rows("g", "VOP3a", "vop3", 64, 32, 64, 64, "iti", "undoc", "", 520))
	add(rows("gc", "VOP3a", "vop3", 64, 64, 0, 64, "dd", "ref", "", 640, 641))
	add(rows("gc", "VOP3a", "vop3", 32, 32, 0, 32, "ii", "ref", "", 645, 646))
	add(rows("gc", "VOP3a", "vop3", 32, 64, 0, 64, "si", "ref", "", 655, 657))
	add(rows("c", "VOP3a", "vop3", 64, 64, 64, 64, "ppp", "lane", "", 944))
	add(rows("c", "VOP3a", "vop3", 64, 64, 0, 64, "pp", "lane", "", 945, 946))
	// ---------------------------------------------------------------- VOP3b
	add(rows("gc", "VOP3b", "vop3b", 32, 32, 0, 32, "ii", "ref", "", 281, 282, 283))
	add(rows("gc", "VOP3b", "vop3b", 32, 32, 64, 32, "iim", "ref", "", 284, 285, 286))
	add(rows("c", "VOP3b", "vop3b", 32, 32, 32, 32, "fff", "lane", "", 480))
	add(rows("g", "VOP3b", "vop3b", 64, 64, 64, 64, "ddd", "lane", "", 481))
	// ---------------------------------------------------------------- DS
	add(rows("gc", "DS", "ds_w", 0, 32, 0, 0, "", "ref", "", 13))
	add(rows("gc", "DS", "ds_w2", 0, 32, 32, 0, "", "ref", "", 14))
	add(rows("gc", "DS", "ds_w", 0, 8, 0, 0, "", "ref", "", 30))
	add(rows("gc", "DS", "ds_r", 0, 0, 0, 32, "", "ref", "", 54))
	add(rows("gc", "DS", "ds_r2", 0, 0, 0, 64, "", "ref", "", 55))
	add(rows("gc", "DS", "ds_w2", 0, 64, 64, 0, "", "ref", "", 78))
	add(rows("gc", "DS", "ds_r", 0, 0, 0, 64, "", "ref", "", 118))
	add(rows("gc", "DS", "ds_r2", 0, 0, 0, 128, "", "ref", "", 119))
	add(rows("c", "DS", "ds_w", 0, 128, 0, 0, "", "ref", "", 223))
	add(rows("c", "DS", "ds_r", 0, 0, 0, 128, "", "ref", "", 255))
	// ---------------------------------------------------------------- FLAT
	add(rows("gc", "FLAT", "fl_ld", 0, 0, 0, 32, "", "ref", "", 16, 17, 18, 20))
	add(rows("gc", "FLAT", "fl_ld", 0, 0, 0, 64, "", "ref", "", 21))
	add(rows("gc", "FLAT", "fl_ld", 0, 0, 0, 128, "", "ref", "", 23))
	add(rows("gc", "FLAT", "fl_st", 0, 32, 0, 0, "", "ref", "", 28))
	add(rows("gc", "FLAT", "fl_st", 0, 64, 0, 0, "", "ref", "", 29))
	add(rows("gc", "FLAT", "fl_st", 0, 96, 0, 0, "", "ref", "", 30))
	add(rows("gc", "FLAT", "fl_st", 0, 128, 0, 0, "", "ref", "", 31))
	return t
}
