package main

// Instruction encoders written from the field layouts of the GCN3 / CDNA3 ISA
// manuals (chapter "Microcode formats").  They are not an oracle: every word
// produced here is decoded by the real insts.Disassembler and the decoded
// operand codes are compared with what the generator intended.

import "encoding/binary"

func words(ws ...uint32) []byte {
	b := make([]byte, 4*len(ws))
	for i, w := range ws {
		binary.LittleEndian.PutUint32(b[4*i:], w)
	}
	return b
}

// withLit appends the literal when one of the 8/9-bit source codes is 255.
func withLit(b []byte, lit *uint32) []byte {
	if lit != nil {
		return append(b, words(*lit)...)
	}
	return b
}

func encSOP2(op, sdst, s0, s1 int, lit *uint32) []byte {
	w := uint32(2)<<30 | uint32(op&0x7f)<<23 | uint32(sdst&0x7f)<<16 | uint32(s1&0xff)<<8 | uint32(s0&0xff)
	return withLit(words(w), lit)
}

func encSOPK(op, sdst, simm int) []byte {
	w := uint32(0xB)<<28 | uint32(op&0x1f)<<23 | uint32(sdst&0x7f)<<16 | uint32(simm&0xffff)
	return words(w)
}

func encSOP1(op, sdst, s0 int, lit *uint32) []byte {
	w := uint32(0x17D)<<23 | uint32(sdst&0x7f)<<16 | uint32(op&0xff)<<8 | uint32(s0&0xff)
	return withLit(words(w), lit)
}

func encSOPC(op, s0, s1 int, lit *uint32) []byte {
	w := uint32(0x17E)<<23 | uint32(op&0x7f)<<16 | uint32(s1&0xff)<<8 | uint32(s0&0xff)
	return withLit(words(w), lit)
}

func encSOPP(op, simm int) []byte {
	w := uint32(0x17F)<<23 | uint32(op&0x7f)<<16 | uint32(simm&0xffff)
	return words(w)
}

// SMEM: imm=true -> 20-bit unsigned byte offset, else SGPR number in the offset field.
func encSMEM(op, sdata, sbasePair int, imm bool, offset int) []byte {
	w0 := uint32(0x30)<<26 | uint32(op&0xff)<<18 | uint32(sdata&0x7f)<<6 | uint32((sbasePair>>1)&0x3f)
	if imm {
		w0 |= 1 << 17
	}
	w1 := uint32(offset & 0xfffff)
	return words(w0, w1)
}

func encVOP2(op, vdst, src0, vsrc1 int, lit *uint32) []byte {
	w := uint32(op&0x3f)<<25 | uint32(vdst&0xff)<<17 | uint32(vsrc1&0xff)<<9 | uint32(src0&0x1ff)
	return withLit(words(w), lit)
}

func encVOP1(op, vdst, src0 int, lit *uint32) []byte {
	w := uint32(0x3F)<<25 | uint32(vdst&0xff)<<17 | uint32(op&0xff)<<9 | uint32(src0&0x1ff)
	return withLit(words(w), lit)
}

func encVOPC(op, src0, vsrc1 int, lit *uint32) []byte {
	w := uint32(0x3E)<<25 | uint32(op&0xff)<<17 | uint32(vsrc1&0xff)<<9 | uint32(src0&0x1ff)
	return withLit(words(w), lit)
}

func encVOP3a(op, vdst, abs, clamp, src0, src1, src2, omod, neg int) []byte {
	w0 := uint32(0x34)<<26 | uint32(op&0x3ff)<<16 | uint32(clamp&1)<<15 | uint32(abs&7)<<8 | uint32(vdst&0xff)
	w1 := uint32(neg&7)<<29 | uint32(omod&3)<<27 | uint32(src2&0x1ff)<<18 | uint32(src1&0x1ff)<<9 | uint32(src0&0x1ff)
	return words(w0, w1)
}

// VOP3P (CDNA3 packed math; decoded by the simulator as VOP3a opcodes 896 + op7): NEG_HI sits where VOP3a has ABS,
// OP_SEL in bits 13:11, OP_SEL_HI[2] in bit 14, OP_SEL_HI[1:0] where VOP3a has OMOD.
func encVOP3P(op, vdst, neghi, opsel, opselhi, src0, src1, src2, neg int) []byte {
	w0 := uint32(0x34)<<26 | uint32(op&0x3ff)<<16 | uint32((opselhi>>2)&1)<<14 | uint32(opsel&7)<<11 | uint32(neghi&7)<<8 | uint32(vdst&0xff)
	w1 := uint32(neg&7)<<29 | uint32(opselhi&3)<<27 | uint32(src2&0x1ff)<<18 | uint32(src1&0x1ff)<<9 | uint32(src0&0x1ff)
	return words(w0, w1)
}

func encVOP3b(op, vdst, sdst, src0, src1, src2 int) []byte {
	w0 := uint32(0x34)<<26 | uint32(op&0x3ff)<<16 | uint32(sdst&0x7f)<<8 | uint32(vdst&0xff)
	w1 := uint32(src2&0x1ff)<<18 | uint32(src1&0x1ff)<<9 | uint32(src0&0x1ff)
	return words(w0, w1)
}

func encDS(op, vdst, addr, data0, data1, off0, off1 int) []byte {
	w0 := uint32(0x36)<<26 | uint32(op&0xff)<<17 | uint32(off1&0xff)<<8 | uint32(off0&0xff)
	w1 := uint32(vdst&0xff)<<24 | uint32(data1&0xff)<<16 | uint32(data0&0xff)<<8 | uint32(addr&0xff)
	return words(w0, w1)
}

// FLAT: seg 0 = flat, 2 = global (gfx9+); offset is the 13-bit signed field (gfx9+; must be 0 on GCN3).
func encFLAT(op, vdst, addr, data, saddr, seg, offset int) []byte {
	w0 := uint32(0x37)<<26 | uint32(op&0x7f)<<18 | uint32(seg&3)<<14 | uint32(offset&0x1fff)
	w1 := uint32(vdst&0xff)<<24 | uint32(saddr&0x7f)<<16 | uint32(data&0xff)<<8 | uint32(addr&0xff)
	return words(w0, w1)
}
