package main

import (
	"fmt"
	"math/rand"
	"strings"

	"github.com/sarchlab/mgpusim/v4/amd/emu"
	"github.com/sarchlab/mgpusim/v4/amd/emu/cdna3"
	"github.com/sarchlab/mgpusim/v4/amd/insts"
)

// OpLog says which architectural location an operand of the case denotes
// (operand code of the ISA manual: 0-101 SGPR, 106 VCC_LO, 124 M0, 126 EXEC_LO,
// 128-208 inline integers, 240-248 inline floats, 255 literal, 256-511 VGPR)
// and how many consecutive 32-bit registers the instruction accesses there.
type OpLog struct {
	C   int     `json:"c"`
	N   int     `json:"n"`
	Lit *uint32 `json:"lit,omitempty"`
}

// Case is one self-contained experiment: an encoded instruction and the
// architectural pre-state it is executed from.
type Case struct {
	ID    int              `json:"id"`
	Arch  string           `json:"arch"`
	St    string           `json:"st"`
	PCC   string           `json:"pcc"`
	F     string           `json:"f"`
	Op    int              `json:"op"`
	Enc   []byte           `json:"enc"`
	SCC   int              `json:"scc"`
	VCC   uint64           `json:"vcc"`
	EXEC  uint64           `json:"exec"`
	PC    uint64           `json:"pc"`
	M0    uint32           `json:"m0"`
	S     map[int]uint32   `json:"s,omitempty"`
	V     map[int][]uint32 `json:"v,omitempty"`
	Bg    int64            `json:"bg"`
	LDS   []byte           `json:"lds,omitempty"`
	MBase uint64           `json:"mbase,omitempty"`
	Mem   []byte           `json:"mem,omitempty"`
	Ops   map[string]OpLog `json:"ops"`
	Fld   map[string]int   `json:"fld,omitempty"` // imm, off0, off1, abs, neg, saddr, seg ...
	Perm  []int            `json:"perm,omitempty"`
	Pair  int              `json:"pair,omitempty"`
	Tag   string           `json:"tag,omitempty"`
}

type Rec map[string]interface{}

var disGCN3, disCDNA3 *insts.Disassembler

func disasm(arch string) *insts.Disassembler {
	if arch == "cdna3" {
		if disCDNA3 == nil {
			disCDNA3 = insts.NewDisassembler()
			disCDNA3.IsCDNA3 = true
		}
		return disCDNA3
	}
	if disGCN3 == nil {
		disGCN3 = insts.NewDisassembler()
	}
	return disGCN3
}

func newMachine(st string) machine {
	if st == "timing" {
		return newTimingMachine()
	}
	return newEmuMachine()
}

// operandMatches: does the decoded operand denote the location the generator intended?
func operandMatches(o *insts.Operand, l OpLog) bool {
	if o == nil {
		return false
	}
	c := l.C
	switch {
	case c <= 101:
		return o.OperandType == insts.RegOperand && o.Register.IsSReg() && o.Register.RegIndex() == c
	case c >= 256:
		return o.OperandType == insts.RegOperand && o.Register.IsVReg() && o.Register.RegIndex() == c-256
	case c == 106:
		return o.OperandType == insts.RegOperand && o.Register.RegType == insts.VCCLO
	case c == 107:
		return o.OperandType == insts.RegOperand && o.Register.RegType == insts.VCCHI
	case c == 124:
		return o.OperandType == insts.RegOperand && o.Register.RegType == insts.M0
	case c == 126:
		return o.OperandType == insts.RegOperand && o.Register.RegType == insts.EXECLO
	case c == 127:
		return o.OperandType == insts.RegOperand && o.Register.RegType == insts.EXECHI
	case c >= 128 && c <= 192:
		return o.OperandType == insts.IntOperand && o.IntValue == int64(c-128)
	case c >= 193 && c <= 208:
		return o.OperandType == insts.IntOperand && o.IntValue == -int64(c-192)
	case c >= 240 && c <= 248:
		return o.OperandType == insts.FloatOperand
	case c == 255:
		return o.OperandType == insts.LiteralConstant && l.Lit != nil && o.LiteralConstant == *l.Lit
	}
	return false
}

func checkDecoded(inst *insts.Inst, c *Case) string {
	get := map[string]*insts.Operand{"s0": inst.Src0, "s1": inst.Src1, "s2": inst.Src2, "d": inst.Dst, "sd": inst.SDst,
		"addr": inst.Addr, "data": inst.Data, "data1": inst.Data1, "base": inst.Base, "soff": inst.Offset}
	if c.F == "SMEM" {
		get["d"] = inst.Data
	}
	if c.F == "VOPC" {
		delete(get, "d")
	}
	for k, l := range c.Ops {
		o, ok := get[k]
		if !ok {
			continue
		}
		if k == "soff" && l.C >= 128 { // immediate SMEM offset
			continue
		}
		if k == "d" && (c.F == "VOPC") {
			continue
		}
		if k == "base" && c.F == "FLAT" {
			continue // the SADDR register is not an operand of the decoded instruction
		}
		if o == nil {
			continue // the decoder dropped the operand: execute anyway, the result shows it
		}
		if !operandMatches(o, l) {
			return fmt.Sprintf("operand %s: intended code %d, decoder produced %v", k, l.C, o)
		}
	}
	if int(inst.Opcode) != c.Op {
		return fmt.Sprintf("opcode %d decoded as %d", c.Op, inst.Opcode)
	}
	return ""
}

func fillBackground(m machine, seed int64) {
	r := rand.New(rand.NewSource(seed))
	for i := 0; i < nSGPR; i++ {
		m.setS(i, r.Uint32())
	}
	for l := 0; l < nLane; l++ {
		for i := 0; i < 40; i++ {
			m.setV(l, i, r.Uint32())
		}
	}
}

func flagsOf(m machine) Rec {
	return Rec{"scc": int(m.SCC()), "vcc": limbs64(m.VCC()), "exec": limbs64(m.EXEC()), "pc": limbs64(m.PC()),
		"m0": limbs32(m.getM0())}
}

// logSrc renders a source operand's pre-state content.
func logSrc(m machine, l OpLog) Rec {
	r := Rec{"c": l.C, "n": l.N}
	switch {
	case l.C <= 101:
		// raw content of the register and its successor (64-bit operands use both)
		n := l.N
		if n < 2 {
			n = 2
		}
		var ls []int
		for i := 0; i < n; i++ {
			v := uint32(0)
			if l.C+i < nSGPR {
				v = m.getS(l.C + i)
			}
			ls = append(ls, limbs32(v)...)
		}
		r["r"] = ls
	case l.C >= 256:
		n := l.N
		if n < 1 {
			n = 1
		}
		lanes := make([][]int, nLane)
		for ln := 0; ln < nLane; ln++ {
			var ls []int
			for i := 0; i < n; i++ {
				ls = append(ls, limbs32(m.getV(ln, l.C-256+i))...)
			}
			lanes[ln] = ls
		}
		r["r"] = lanes
	case l.C == 255:
		r["lit"] = limbs32(*l.Lit)
	}
	return r
}

func readDst(m machine, l OpLog) interface{} {
	switch {
	case l.C <= 101:
		var ls []int
		for i := 0; i < l.N; i++ {
			ls = append(ls, limbs32(m.getS(l.C+i))...)
		}
		return ls
	case l.C >= 256:
		lanes := make([][]int, nLane)
		for ln := 0; ln < nLane; ln++ {
			var ls []int
			for i := 0; i < l.N; i++ {
				ls = append(ls, limbs32(m.getV(ln, l.C-256+i))...)
			}
			lanes[ln] = ls
		}
		return lanes
	}
	return nil
}

var srcKeys = []string{"s0", "s1", "s2", "addr", "data", "data1", "base", "soff"}

func runCase(c *Case) Rec {
	rec := Rec{"e": "X", "id": c.ID, "arch": c.Arch, "st": c.St, "pcc": c.PCC, "f": c.F, "op": c.Op}
	if c.Tag != "" {
		rec["tag"] = c.Tag
	}
	for k, v := range c.Fld {
		rec[k] = v
	}
	if c.Perm != nil {
		rec["perm"] = c.Perm
		rec["pair"] = c.Pair
	}
	inst, err := disasm(c.Arch).Decode(append(append([]byte(nil), c.Enc...), 0, 0, 0, 0, 0, 0, 0, 0))
	if err != nil {
		rec["e"] = "DecodeError"
		rec["msg"] = err.Error()
		return rec
	}
	rec["nm"] = inst.InstName
	if msg := checkDecoded(inst, c); msg != "" {
		rec["e"] = "DecodeMismatch"
		rec["msg"] = msg
		return rec
	}

	m := newMachine(c.St)
	fillBackground(m, c.Bg)
	for i, v := range c.S {
		m.setS(i, v)
	}
	for i, vs := range c.V {
		for l := 0; l < nLane; l++ {
			m.setV(l, i, vs[l])
		}
	}
	m.SetSCC(byte(c.SCC))
	m.SetVCC(c.VCC)
	m.SetEXEC(c.EXEC)
	m.SetPC(c.PC)
	m.setM0(c.M0)
	m.setInst(inst)

	reg := &region{base: c.MBase, data: append([]byte(nil), c.Mem...)}
	lds := append([]byte(nil), c.LDS...)
	var alu emu.ALU
	if c.Arch == "cdna3" {
		alu = cdna3.NewALU(reg)
	} else {
		alu = emu.NewALU(reg)
	}
	alu.SetLDS(lds)

	rec["pre"] = flagsOf(m)
	for _, k := range srcKeys {
		if l, ok := c.Ops[k]; ok {
			rec[k] = logSrc(m, l)
		}
	}
	dl, hasD := c.Ops["d"]
	sdl, hasSD := c.Ops["sd"]
	var dRec, sdRec Rec
	if hasD {
		dRec = Rec{"c": dl.C, "n": dl.N}
		if p := readDst(m, dl); p != nil {
			dRec["pre"] = p
		}
	}
	if hasSD {
		sdRec = Rec{"c": sdl.C, "n": sdl.N}
		if p := readDst(m, sdl); p != nil {
			sdRec["pre"] = p
		}
	}
	preS := m.snapS()
	preV := m.snapV()
	if c.LDS != nil {
		rec["lds"] = Rec{"pre": bytesToInts(c.LDS)}
	}
	if c.Mem != nil {
		rec["mem"] = Rec{"base": limbs64(c.MBase), "pre": bytesToInts(c.Mem)}
	}

	panicMsg := func() (msg string) {
		defer func() {
			if r := recover(); r != nil {
				msg = fmt.Sprint(r)
				if msg == "" {
					msg = "panic"
				}
			}
		}()
		alu.Run(m)
		return ""
	}()
	if panicMsg != "" {
		if len(panicMsg) > 200 {
			panicMsg = panicMsg[:200]
		}
		rec["panic"] = strings.ReplaceAll(panicMsg, "\n", " ")
	}

	rec["post"] = flagsOf(m)
	if hasD {
		if p := readDst(m, dl); p != nil {
			dRec["post"] = p
		}
		rec["d"] = dRec
	}
	if hasSD {
		if p := readDst(m, sdl); p != nil {
			sdRec["post"] = p
		}
		rec["sd"] = sdRec
	}
	// frame condition: registers changed outside the destination(s)
	inRange := func(l OpLog, has bool, code int) bool {
		return has && code >= l.C && code < l.C+l.N
	}
	other := 0
	where := ""
	postS := m.snapS()
	for i := range postS {
		if postS[i] != preS[i] && !inRange(dl, hasD, i) && !inRange(sdl, hasSD, i) {
			other++
			if where == "" {
				where = fmt.Sprintf("s%d", i)
			}
		}
	}
	postV := m.snapV()
	for l := 0; l < nLane; l++ {
		for i := 0; i < nVGPR; i++ {
			a, b := preV[l][4*i:4*i+4], postV[l][4*i:4*i+4]
			if (a[0] != b[0] || a[1] != b[1] || a[2] != b[2] || a[3] != b[3]) && !inRange(dl, hasD, 256+i) {
				other++
				if where == "" {
					where = fmt.Sprintf("v%d lane %d", i, l)
				}
			}
		}
	}
	rec["other"] = other
	if where != "" {
		rec["otherAt"] = where
	}
	if c.LDS != nil {
		rec["lds"].(Rec)["post"] = bytesToInts(lds)
	}
	if c.Mem != nil {
		mr := rec["mem"].(Rec)
		mr["post"] = bytesToInts(reg.data)
		acc := make([][]int, 0, len(reg.acc))
		for _, a := range reg.acc {
			acc = append(acc, []int{a.Off, a.Size, a.W})
		}
		mr["acc"] = acc
	}
	return rec
}
