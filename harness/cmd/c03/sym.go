package main

// Symbolic cases chosen (and solved) by the specification: spec/isa/ISAScen.tla
// behaviours are turned into these by checks/c03.py.

type SymCase struct {
	K    string `json:"k"` // "s" scalar, "v" vector
	Arch string `json:"arch"`
	F    string `json:"f"`
	Op   int    `json:"op"`
	S0   any    `json:"s0"`
	S1   any    `json:"s1"`
	S2   any    `json:"s2"`
	DPre any    `json:"dpre"`
	SCC  int    `json:"scc"`
	Exec []int  `json:"exec"`
	Vcc  []int  `json:"vcc"`
}

func toInts(x any) []int {
	l, ok := x.([]any)
	if !ok {
		return nil
	}
	o := make([]int, len(l))
	for i, v := range l {
		o[i] = int(v.(float64))
	}
	return o
}

func laneWords(x any) []uint64 {
	l := x.([]any)
	o := make([]uint64, len(l))
	for i, v := range l {
		o[i] = fromLimbs(toInts(v))
	}
	return o
}

func findDef(arch, f string, op int) (opDef, bool) {
	for _, d := range buildTable() {
		if d.f == f && d.op == op {
			for _, a := range archs(d) {
				if a == arch {
					return d, true
				}
			}
		}
	}
	return opDef{}, false
}

func (g *gen) symCase(s SymCase, st string) *Case {
	d, ok := findDef(s.Arch, s.F, s.Op)
	if !ok {
		panic("symbolic case for an opcode the driver table does not know")
	}
	c := g.newCase(s.Arch, st, d)
	c.Tag = "scen"
	c.SCC = s.SCC
	if s.K == "s" {
		a := toInts(s.S0)
		b := toInts(s.S1)
		av := fromLimbs(a)
		c.S[8] = uint32(av)
		n0 := len(a) / 2
		if n0 == 2 {
			c.S[9] = uint32(av >> 32)
		}
		c.Ops["s0"] = OpLog{C: 8, N: n0}
		nd := d.dw / 32
		switch d.f {
		case "SOP2":
			bv := fromLimbs(b)
			c.S[10] = uint32(bv)
			if len(b) == 4 {
				c.S[11] = uint32(bv >> 32)
			}
			c.Ops["s1"] = OpLog{C: 10, N: len(b) / 2}
			c.S[20], c.S[21] = 0, 0
			c.Ops["d"] = OpLog{C: 20, N: nd}
			c.Enc = encSOP2(d.op, 20, 8, 10, nil)
		case "SOP1":
			c.S[20], c.S[21] = 0, 0
			c.Ops["d"] = OpLog{C: 20, N: nd}
			c.Enc = encSOP1(d.op, 20, 8, nil)
		case "SOPC":
			bv := fromLimbs(b)
			c.S[10] = uint32(bv)
			c.Ops["s1"] = OpLog{C: 10, N: 1}
			c.Enc = encSOPC(d.op, 8, 10, nil)
		}
		return c
	}
	c.EXEC = fromLimbs(s.Exec)
	c.VCC = fromLimbs(s.Vcc)
	g.setV(c, 2, 32, laneWords(s.S0))
	g.setV(c, 4, 32, laneWords(s.S1))
	c.Ops["s0"] = OpLog{C: 258, N: 1}
	c.Ops["s1"] = OpLog{C: 260, N: 1}
	g.setV(c, 10, 32, laneWords(s.DPre))
	c.Ops["d"] = OpLog{C: 266, N: 1}
	if d.f == "VOP2" {
		c.Enc = encVOP2(d.op, 10, 258, 4, nil)
		return c
	}
	src2 := 0
	if d.cw > 0 {
		g.setV(c, 6, 32, laneWords(s.S2))
		c.Ops["s2"] = OpLog{C: 262, N: 1}
		src2 = 262
	}
	c.Fld["abs"], c.Fld["neg"] = 0, 0
	c.Enc = encVOP3a(d.op, 10, 0, 0, 258, 260, src2, 0, 0)
	return c
}
