package main

import (
	"math"
	"math/rand"
	"strconv"
	"strings"
)

// ------------------------------------------------------------- value pools
var cornersI32 = []uint32{0, 1, 0xffffffff, 0x80000000, 0x7fffffff, 2, 0xfffffffe, 0x80000001, 3, 0x7ffffffe,
	31, 32, 33, 63, 64, 65, 0xff, 0x100, 0x7fff, 0x8000, 0xffff, 0x10000, 0x00ffffff, 0x00800000, 0x007fffff,
	0x01000000, 0xff000000, 0x55555555, 0xaaaaaaaa, 0x0000ff00, 0x12345678, 0x80008000, 0x00010001}

var cornersShift = []uint32{0, 1, 2, 4, 7, 8, 15, 16, 17, 23, 24, 30, 31, 32, 33, 47, 48, 62, 63, 64, 65, 95, 96, 127, 128,
	0xffffffff, 0x80000000, 0x1f, 0x20, 0x3f, 0x40, 0xffffffe0, 0x100, 0x101}

// offset / width style parameters (bit-field instructions look at bits 4:0 and 22:16)
var cornersBF = []uint32{0, 1, 4, 5, 8, 16, 24, 31, 32, 33, 0x00010000, 0x00080004, 0x00100008, 0x00200000, 0x001f0001,
	0x00200010, 0x00400000, 0x007f0000, 0x0020001f, 0x00010000 | 31, 0x00050003, 0xffffffff, 0x00180010, 0x00080018}

var cornersF32 = []uint32{
	0x00000000, 0x80000000, 0x3f800000, 0xbf800000, // +-0 +-1
	0x7f800000, 0xff800000, 0x7fc00000, 0x7f7fffff, // +-inf qNaN max
	0x00800000, 0x40000000, 0x3fc00000, 0xc0200000, // min normal 2 1.5 -2.5
	0x00000001, 0xff7fffff, 0xffc00000, 0x7fc00001, // denormal -max quiet NaNs
	0xc0000000, 0x3f000000, 0x40200000, 0xbfc00000, // -2 .5 2.5 -1.5
	0x80800000, 0x80000001, 0x007fffff, 0x00400000, // -min normal, denormals
	0x4f000000, 0xcf000000, 0x4f800000, 0x4effffff, 0xcf000001, 0x4f000001, // 2^31, -2^31, 2^32, around 2^31
	0x4b000000, 0x4b000001, 0x4b7fffff, 0x4b800000, 0x3effffff, 0x3f000001, 0x3f7fffff, // 2^23 region, around .5 and 1
	0x33800000, 0x34000000, 0x3f800001, 0x3f7ffffe, 0x477fe000, 0x477ff000, 0x38800000, 0x387fc000, 0x33000000, // ulp and f16 boundaries
	0x42c80000, 0xc2c80000, 0x461c4000, 0x3dcccccd, 0x44624c2a,
}

var sNaN32 = []uint32{0x7f800001, 0xff800001, 0x7fa00000}

var cornersI64 = []uint64{0, 1, 2, 0xffffffffffffffff, 0xfffffffffffffffe, 0x7fffffffffffffff, 0x8000000000000000,
	0x8000000000000001, 0xffffffff, 0x100000000, 0xffffffff00000000, 0x00000000ffffffff, 0x80000000, 0x7fffffff,
	0x5555555555555555, 0xaaaaaaaaaaaaaaaa, 0x0123456789abcdef, 0x00000001ffffffff, 0xffffffff80000000, 0x8000000080000000}

var cornersF64 = []uint64{
	0, 0x8000000000000000, 0x3ff0000000000000, 0xbff0000000000000,
	0x7ff0000000000000, 0xfff0000000000000, 0x7ff8000000000000, 0x7fefffffffffffff,
	0x0010000000000000, 0x4000000000000000, 0x3ff8000000000000, 0xc004000000000000,
	0x0000000000000001, 0xffefffffffffffff, 0xfff8000000000000, 0x3fe0000000000000,
	0x8010000000000000, 0x800fffffffffffff, 0x3ff0000000000001, 0x3fefffffffffffff,
	0x47efffffe0000000, 0x47effffff0000000, 0x47f0000000000000, 0x36a0000000000000, 0x3690000000000000, 0x380fffffffffffff,
	0x3810000000000000, 0x41dfffffffc00000, 0x41e0000000000000, 0xc1e0000000000000, 0x41efffffffe00000, 0x4340000000000000,
	0x4004000000000000, 0x3ca0000000000000, 0x4059000000000000,
}

// operand triples on which a*b+c with two roundings differs from the fused result
var fmaTies32 = [][3]uint32{{0x4f000001, 0x3fc00000, 0x44624c2a}, {0xcf000001, 0x3fc00000, 0xc4624c2a}}
var fmaTies64 = [][3]uint64{{0x3ead1f6d14e8f1e4, 0x4061b135584e27d3, 0xbf2ff9d69bbd29d1},
	{0x4153602347dad09f, 0xc0924f19212a9add, 0x408d8ca761383b9e}}

// pick32 draws an operand value; for float operands signalling NaNs (outside the checked domain: their
// handling depends on MODE.IEEE) are quieted.
func pick32(r *rand.Rand, vt byte, k int) uint32 {
	v := pick32raw(r, vt, k)
	if vt == 'f' && v&0x7f800000 == 0x7f800000 && v&0x007fffff != 0 {
		v |= 0x00400000
	}
	return v
}

func pick32raw(r *rand.Rand, vt byte, k int) uint32 {
	var pool []uint32
	switch vt {
	case 'f':
		pool = cornersF32
	case 's':
		pool = cornersShift
	case 'b':
		pool = cornersBF
	case 't':
		if k < 0 {
			return uint32(r.Intn(5))
		}
		return uint32(k % 5)
	case 'h':
		hs := []uint32{0, 1, 0xffff, 0x8000, 0x7fff, 0x10000, 0xffff0000, 0x12348000, 0x0001ffff, 0x7fff8000, 0xabcd0001, 15, 16, 17}
		pool = hs
	case 'k':
		if k >= 0 {
			return uint32(1) << uint(k%10)
		}
		return r.Uint32() & 0x3ff
	default:
		pool = cornersI32
	}
	if k >= 0 {
		return pool[k%len(pool)]
	}
	switch r.Intn(4) {
	case 0:
		return pool[r.Intn(len(pool))]
	case 1:
		if vt == 's' || vt == 'b' {
			return uint32(r.Intn(70))
		}
		if vt == 'f' {
			// random finite float of moderate exponent (so sums/products stay interesting)
			return uint32(r.Intn(2))<<31 | uint32(100+r.Intn(56))<<23 | (r.Uint32() & 0x7fffff)
		}
		return r.Uint32()
	default:
		if vt == 'f' && r.Intn(3) > 0 {
			if r.Intn(4) == 0 { // any exponent
				return uint32(r.Intn(2))<<31 | uint32(1+r.Intn(254))<<23 | (r.Uint32() & 0x7fffff)
			}
			return uint32(r.Intn(2))<<31 | uint32(118+r.Intn(20))<<23 | (r.Uint32() & 0x7fffff)
		}
		return r.Uint32()
	}
}

func poolLen(vt byte) int {
	switch vt {
	case 'f':
		return len(cornersF32)
	case 's':
		return len(cornersShift)
	case 'b':
		return len(cornersBF)
	case 'd':
		return len(cornersF64)
	case 't':
		return 5
	case 'k':
		return 10
	case 'h':
		return 14
	}
	return len(cornersI32)
}

func pick64(r *rand.Rand, vt byte, k int) uint64 {
	switch vt {
	case 'd':
		if k >= 0 {
			return cornersF64[k%len(cornersF64)]
		}
		if r.Intn(3) == 0 {
			return cornersF64[r.Intn(len(cornersF64))]
		}
		if r.Intn(4) == 0 { // any exponent
			return uint64(r.Intn(2))<<63 | uint64(1+r.Intn(2046))<<52 | (r.Uint64() & 0xfffffffffffff)
		}
		return uint64(r.Intn(2))<<63 | uint64(1000+r.Intn(48))<<52 | (r.Uint64() & 0xfffffffffffff)
	case 'p': // two packed f32
		return uint64(pick32(r, 'f', -1))<<32 | uint64(pick32(r, 'f', k))
	case 'm':
		switch r.Intn(4) {
		case 0:
			return 0
		case 1:
			return ^uint64(0)
		}
		return r.Uint64()
	}
	if k >= 0 {
		return cornersI64[k%len(cornersI64)]
	}
	if r.Intn(3) == 0 {
		return cornersI64[r.Intn(len(cornersI64))]
	}
	return r.Uint64()
}

// ------------------------------------------------------------- generator
type gen struct {
	r      *rand.Rand
	nextID int
	cases  []*Case
	mode   string // c03 | c06
	fk     [2]int // forced source kinds of the next scalar case (-1 = by index / random)
	// forced EXEC mask / structured address pattern of the next vector case (nil / 0 = seeded random)
	forceExec *uint64
	addrPat   int
	// output modifiers of the next VOP3a case
	clamp bool
	omod  int
	// OP_SEL / OP_SEL_HI / NEG / NEG_HI of the next packed-f32 case (nil = seeded random, NEG = NEG_HI)
	pk *pkMod
}

type pkMod struct{ opsel, opselhi, neg, neghi int }

func isPacked(d opDef) bool { return d.f == "VOP3a" && d.op >= 944 && d.op <= 946 }

// address patterns of LDS / FLAT records: which slot (unit of the access size) lane l addresses
const (
	patRandom = iota
	patUnit          // lane l -> slot l
	patInteriorPerm  // unit stride, the interior lanes permuted (lanes 0 and 63 keep their slots)
	patDisplaced     // unit stride, one interior lane moved to another slot
	patSwappedPairs  // unit stride, lanes 2j+1 and 2j+2 exchanged (ends fixed)
	patSame          // every lane the same slot (loads only)
	patReverse       // lane l -> slot 63-l
	patInterleaved   // even lanes slots 0..31, odd lanes slots 32..63 (ends as for unit stride)
	patCount
)

func (g *gen) slotPattern(pat, nslots int, store bool) []int {
	sl := make([]int, nLane)
	for l := range sl {
		sl[l] = l
	}
	switch pat {
	case patInteriorPerm:
		p := g.r.Perm(nLane - 2)
		for l := 1; l < nLane-1; l++ {
			sl[l] = 1 + p[l-1]
		}
	case patDisplaced:
		l := 1 + g.r.Intn(nLane-2)
		if nslots > nLane {
			sl[l] = nLane + g.r.Intn(nslots-nLane)
		} else {
			m := 1 + g.r.Intn(nLane-2)
			for m == l {
				m = 1 + g.r.Intn(nLane-2)
			}
			sl[l], sl[m] = sl[m], sl[l]
		}
	case patSwappedPairs:
		for l := 1; l+1 < nLane-1; l += 2 {
			sl[l], sl[l+1] = sl[l+1], sl[l]
		}
	case patSame:
		if !store {
			k := g.r.Intn(nLane)
			for l := range sl {
				sl[l] = k
			}
		}
	case patReverse:
		for l := range sl {
			sl[l] = nLane - 1 - l
		}
	case patInterleaved:
		for l := range sl {
			sl[l] = l/2 + (l%2)*(nLane/2)
		}
	}
	return sl
}

func (g *gen) pickExec() uint64 {
	if g.forceExec != nil {
		return *g.forceExec
	}
	return g.execMask(g.r.Intn(6))
}

func (g *gen) newCase(arch, st string, d opDef) *Case {
	c := &Case{ID: g.nextID, Arch: arch, St: st, F: d.f, Op: d.op, Bg: g.r.Int63(),
		S: map[int]uint32{}, V: map[int][]uint32{}, Ops: map[string]OpLog{}, Fld: map[string]int{}}
	g.nextID++
	c.PCC = "next"
	if st == "timing" {
		c.PCC = "this"
	}
	c.SCC = g.r.Intn(2)
	c.VCC = pick64(g.r, 'm', -1)
	c.EXEC = g.r.Uint64()
	c.PC = (g.r.Uint64() & 0x0000fffffffffffc)
	if g.r.Intn(6) == 0 {
		c.PC = []uint64{0, 4, 0xfffffffc, 0x100000000, 0xfffffffffffc, 0x1fffc}[g.r.Intn(6)]
	}
	c.M0 = g.r.Uint32()
	return c
}

func (g *gen) execMask(k int) uint64 {
	switch k % 6 {
	case 0:
		return ^uint64(0)
	case 1:
		return g.r.Uint64()
	case 2:
		return g.r.Uint64() & g.r.Uint64()
	case 3:
		return uint64(1) << uint(g.r.Intn(64))
	case 4:
		return g.r.Uint64() | g.r.Uint64()
	}
	if g.r.Intn(4) == 0 {
		return 0
	}
	return g.r.Uint64() << 32
}

// scalar source selection ------------------------------------------------
// kinds: 0 sgpr, 1 inline int, 2 literal, 3 vcc, 4 exec, 5 m0, 6 inline float
func (g *gen) scalarSrc(c *Case, key string, w int, vt byte, val uint64, slot int, allowLit bool, kindHint int) int {
	kind := kindHint
	if kind < 0 {
		x := g.r.Intn(16)
		switch {
		case x < 9:
			kind = 0
		case x < 11:
			kind = 1
		case x < 13 && allowLit && w == 32:
			kind = 2
		case x == 13 && w == 64:
			kind = 3
		case x == 14 && w == 64:
			kind = 4
		case x == 15 && w == 32:
			kind = 5
		default:
			kind = 0
		}
		if (vt == 'f' || vt == 'd') && kind == 1 && g.r.Intn(2) == 0 {
			kind = 6
		}
	}
	n := w / 32
	if n < 1 {
		n = 1
	}
	switch kind {
	case 8:
		code := 193 + g.r.Intn(16)
		c.Ops[key] = OpLog{C: code, N: n}
		return code
	case 1:
		code := 128 + g.r.Intn(65)
		if g.r.Intn(3) == 0 {
			code = 193 + g.r.Intn(16)
		}
		c.Ops[key] = OpLog{C: code, N: n}
		return code
	case 6:
		code := 240 + g.r.Intn(9)
		if w == 64 && code == 248 && vt != 'p' {
			// the double 1/(2*pi) of the hardware is not the nearest double (0x3fc45f306dc9c882): not generated
			code = 240
		}
		c.Ops[key] = OpLog{C: code, N: n}
		return code
	case 2:
		lit := uint32(val)
		c.Ops[key] = OpLog{C: 255, N: 1, Lit: &lit}
		return 255
	case 3:
		if w == 64 {
			c.VCC = val
		} else {
			c.VCC = c.VCC&0xffffffff00000000 | uint64(uint32(val))
		}
		c.Ops[key] = OpLog{C: 106, N: n}
		return 106
	case 4:
		if w == 64 {
			c.EXEC = val
		} else {
			c.EXEC = c.EXEC&0xffffffff00000000 | uint64(uint32(val))
		}
		c.Ops[key] = OpLog{C: 126, N: n}
		return 126
	case 5:
		c.M0 = uint32(val)
		c.Ops[key] = OpLog{C: 124, N: 1}
		return 124
	}
	reg := slot
	c.S[reg] = uint32(val)
	if w == 64 {
		c.S[reg+1] = uint32(val >> 32)
	}
	c.Ops[key] = OpLog{C: reg, N: n}
	return reg
}

func litOf(c *Case) *uint32 {
	for _, k := range []string{"s0", "s1", "s2"} {
		if l, ok := c.Ops[k]; ok && l.C == 255 {
			return l.Lit
		}
	}
	return nil
}

func (g *gen) scalarDst(c *Case, w int, slot int, allowSpecial bool) int {
	n := w / 32
	if allowSpecial {
		switch g.r.Intn(14) {
		case 0:
			c.Ops["d"] = OpLog{C: 106, N: n}
			return 106
		case 1:
			if w == 64 {
				c.Ops["d"] = OpLog{C: 126, N: 2}
				return 126
			}
			c.Ops["d"] = OpLog{C: 124, N: 1}
			return 124
		}
	}
	c.Ops["d"] = OpLog{C: slot, N: n}
	return slot
}

func val(r *rand.Rand, w int, vt byte, k int) uint64 {
	if w == 64 {
		return pick64(r, vt, k)
	}
	return uint64(pick32(r, vt, k))
}

func vtAt(d opDef, i int) byte {
	if i < len(d.vt) {
		return d.vt[i]
	}
	return 'i'
}

// ------------------------------------------------------------- scalar templates
func (g *gen) genScalar(arch, st string, d opDef, ka, kb int) *Case {
	c := g.newCase(arch, st, d)
	switch d.tmpl {
	case "sop2":
		a := val(g.r, d.aw, vtAt(d, 0), ka)
		b := val(g.r, d.bw, vtAt(d, 1), kb)
		kindA, kindB := -1, -1
		if g.fk[0] >= 0 || g.fk[1] >= 0 {
			kindA, kindB = 0, 0
			if g.fk[0] >= 0 {
				kindA = g.fk[0]
			}
			if g.fk[1] >= 0 {
				kindB = g.fk[1]
			}
		} else if ka >= 0 {
			kindA, kindB = 0, 0
			switch g.r.Intn(8) {
			case 0:
				if d.aw == 32 {
					kindA = 2
				}
			case 1:
				if d.bw == 32 {
					kindB = 2
				}
			case 2:
				if d.aw == 64 {
					kindA = 3
				}
			case 3:
				if d.bw == 64 {
					kindB = 4
				}
			}
		}
		s0 := g.scalarSrc(c, "s0", d.aw, vtAt(d, 0), a, 8, true, kindA)
		s1 := g.scalarSrc(c, "s1", d.bw, vtAt(d, 1), b, 10, litOf(c) == nil, kindB)
		slot := 20
		if g.r.Intn(8) == 0 && s0 <= 101 && d.aw == d.dw {
			slot = s0 // dst aliases src0
		}
		dst := g.scalarDst(c, d.dw, slot, true)
		c.Enc = encSOP2(d.op, dst, s0, s1, litOf(c))
	case "sop1":
		s0 := 128
		if d.aw > 0 {
			a := val(g.r, d.aw, vtAt(d, 0), ka)
			kindA := -1
			if ka >= 0 {
				kindA = 0
			}
			if g.fk[0] >= 0 {
				kindA = g.fk[0]
			}
			s0 = g.scalarSrc(c, "s0", d.aw, vtAt(d, 0), a, 8, true, kindA)
		}
		special := !(d.op >= 32 && d.op <= 39)
		slot := 20
		if g.r.Intn(8) == 0 && s0 <= 101 && d.aw == d.dw {
			slot = s0
		}
		dst := g.scalarDst(c, d.dw, slot, special)
		c.Enc = encSOP1(d.op, dst, s0, litOf(c))
	case "sopc":
		a := val(g.r, 32, 'i', ka)
		b := val(g.r, 32, 'i', kb)
		if ka < 0 && g.r.Intn(4) == 0 {
			b = a
		}
		kindA, kindB := -1, -1
		if ka >= 0 {
			kindA, kindB = 0, 0
		}
		if g.fk[0] >= 0 || g.fk[1] >= 0 {
			kindA, kindB = 0, 0
			if g.fk[0] >= 0 {
				kindA = g.fk[0]
			}
			if g.fk[1] >= 0 {
				kindB = g.fk[1]
			}
		}
		s0 := g.scalarSrc(c, "s0", 32, 'i', a, 8, true, kindA)
		s1 := g.scalarSrc(c, "s1", 32, 'i', b, 10, litOf(c) == nil, kindB)
		c.Enc = encSOPC(d.op, s0, s1, litOf(c))
	case "sopk":
		imm := int(pick32(g.r, 'i', -1) & 0xffff)
		if ka >= 0 {
			imm = []int{0, 1, 5, 0x7fff, 0x8000, 0xffff, 0xfffe, 0x1234, 0x8001, 100}[ka%10]
		}
		dv := uint32(val(g.r, 32, 'i', kb))
		if kb >= 0 && kb%3 == 0 {
			// values whose low half equals the immediate (sign-extended or not)
			dv = uint32(int32(int16(imm)))
			if kb%2 == 0 {
				dv = uint32(imm) | 0x10000
			}
		}
		c.S[20] = dv
		c.Ops["d"] = OpLog{C: 20, N: 1}
		c.Fld["imm"] = imm
		c.Enc = encSOPK(d.op, 20, imm)
	case "sopp":
		imm := int(g.r.Uint32() & 0xffff)
		if ka >= 0 {
			imm = []int{0, 1, 0x7fff, 0x8000, 0xffff, 0xfffe, 16, 0xff00}[ka%8]
		}
		switch g.r.Intn(4) {
		case 0:
			c.VCC = 0
		case 1:
			c.EXEC = 0
		}
		c.Fld["imm"] = imm
		c.Enc = encSOPP(d.op, imm)
	case "smem":
		n := d.dw / 32
		size := 256
		c.Mem = make([]byte, size)
		g.r.Read(c.Mem)
		c.MBase = (g.r.Uint64() & 0x0000fffffffff000) | 0x1000
		bytes := d.dw / 8
		off := 4 * g.r.Intn((size-bytes)/4+1)
		if ka >= 0 && ka%3 == 0 {
			off = size - bytes
		}
		useImm := g.r.Intn(2) == 0
		var immOff int
		base := c.MBase
		if useImm {
			immOff = 4 * g.r.Intn(off/4+1)
			base = c.MBase + uint64(off-immOff)
			c.Ops["soff"] = OpLog{C: 128, N: 1}
			c.Fld["imm"] = immOff
		} else {
			so := uint32(4 * g.r.Intn(off/4+1))
			base = c.MBase + uint64(off) - uint64(so)
			c.S[12] = so
			c.Ops["soff"] = OpLog{C: 12, N: 1}
			immOff = 12
		}
		c.S[8] = uint32(base)
		c.S[9] = uint32(base >> 32)
		c.Ops["base"] = OpLog{C: 8, N: 2}
		dstSlot := 32
		c.Ops["d"] = OpLog{C: dstSlot, N: n}
		c.Fld["useimm"] = 0
		if useImm {
			c.Fld["useimm"] = 1
		}
		c.Enc = encSMEM(d.op, dstSlot, 8, useImm, immOff)
	}
	return c
}

// ------------------------------------------------------------- vector templates
type laneVals [][]uint32 // [reg][lane]

func (g *gen) setV(c *Case, reg int, w int, vals []uint64) {
	lo := make([]uint32, nLane)
	for l := range lo {
		lo[l] = uint32(vals[l])
	}
	c.V[reg] = lo
	if w == 64 {
		hi := make([]uint32, nLane)
		for l := range hi {
			hi[l] = uint32(vals[l] >> 32)
		}
		c.V[reg+1] = hi
	}
}

// plan of one vector record: rk >= 0 enumerates corner combinations over the lanes (seed independent),
// rk < 0 draws seeded random values; kind[i] forces how source i is supplied
// (-1 auto, 0 VGPR, 1 inline integer >= 0, 8 inline integer < 0, 2 literal, 6 inline float, 7 SGPR).
type plan struct {
	rk    int
	kind  [3]int
	nops  int
	carry bool
}

func ipow(b, e int) int {
	r := 1
	for ; e > 0; e-- {
		r *= b
	}
	return r
}

func primSize(n int) int { return []int{1, 64, 12, 8}[n] }

// crossRecords: how many records the corner cross product of n operands needs
func crossRecords(n int, carry bool) int {
	t := ipow(primSize(n), n)
	if n == 1 {
		t = 64
	}
	if carry {
		t *= 2
	}
	return (t + nLane - 1) / nLane
}

// cornerIdx: pool index of operand i (of n) at flat lane position k
func cornerIdx(i, n, k, plen int, carry bool) int {
	if n == 1 {
		return k % plen
	}
	prim := primSize(n)
	if prim > plen {
		prim = plen
	}
	total := ipow(prim, n)
	if carry {
		total *= 2
	}
	if k < total {
		return (k / ipow(prim, i)) % prim
	}
	j := k - total
	return (j*(2*i+1) + 5*i + j/plen) % plen
}

func (g *gen) laneValues(w int, vt byte, pl plan, i int) []uint64 {
	vals := make([]uint64, nLane)
	for l := 0; l < nLane; l++ {
		k := -1
		if pl.rk >= 0 {
			k = cornerIdx(i, pl.nops, pl.rk*nLane+l, poolLen(vt), pl.carry)
		}
		vals[l] = val(g.r, w, vt, k)
	}
	return vals
}

func (g *gen) randLanes(w int, vt byte) []uint64 {
	return g.laneValues(w, vt, plan{rk: -1}, 0)
}

// vector source i: VGPR (per-lane values) or a uniform scalar location
func (g *gen) vecSrc(c *Case, key string, w int, vt byte, pl plan, i int, vslot, sslot int, allowLit, allowScalar bool) int {
	if vt == 'm' {
		// lane mask operand: SGPR pair or VCC
		v := pick64(g.r, 'm', -1)
		if pl.rk >= 0 && pl.carry {
			// carry-in enumeration: the digit above the operand digits
			v = 0
			prim := primSize(pl.nops)
			for l := 0; l < nLane; l++ {
				k := pl.rk*nLane + l
				if k < 2*ipow(prim, pl.nops) {
					if (k/ipow(prim, pl.nops))%2 == 1 {
						v |= 1 << uint(l)
					}
				} else if g.r.Intn(2) == 0 {
					v |= 1 << uint(l)
				}
			}
		}
		if g.r.Intn(3) == 0 {
			c.VCC = v
			c.Ops[key] = OpLog{C: 106, N: 2}
			return 106
		}
		c.Fld["mask_"+key] = 1
		c.S[sslot] = uint32(v)
		c.S[sslot+1] = uint32(v >> 32)
		c.Ops[key] = OpLog{C: sslot, N: 2}
		return sslot
	}
	kind := pl.kind[i]
	if kind < 0 {
		kind = 0
		if allowScalar && pl.rk < 0 && g.r.Intn(4) == 0 {
			x := g.r.Intn(10)
			switch {
			case x < 4:
				kind = 7
			case x < 7:
				kind = 1
				if vt == 'f' || vt == 'd' || vt == 'p' {
					kind = 6
				}
			case x < 9 && allowLit && w == 32:
				kind = 2
			default:
				kind = 7
			}
		}
	}
	if kind == 2 && !(allowLit && w == 32) {
		kind = 7
	}
	if vt == 't' && kind != 0 {
		kind = 7
	}
	if kind == 0 || !allowScalar {
		g.setV(c, vslot, w, g.laneValues(w, vt, pl, i))
		c.Ops[key] = OpLog{C: 256 + vslot, N: w / 32}
		return 256 + vslot
	}
	n := w / 32
	switch kind {
	case 8:
		code := 193 + g.r.Intn(16)
		c.Ops[key] = OpLog{C: code, N: n}
		return code
	case 1:
		code := 128 + g.r.Intn(65)
		c.Ops[key] = OpLog{C: code, N: n}
		return code
	case 7:
		return g.scalarSrc(c, key, w, vt, val(g.r, w, vt, -1), sslot, false, 0)
	}
	return g.scalarSrc(c, key, w, vt, val(g.r, w, vt, -1), sslot, allowLit, kind)
}

func has(flag, f string) bool { return strings.Contains(flag, f) }

// number of enumerated (value-carrying, non-mask) source operands
func nEnum(d opDef) int {
	n := 0
	for i, w := range []int{d.aw, d.bw, d.cw} {
		if w > 0 && vtAt(d, i) != 'm' {
			n++
		}
	}
	if has(d.flag, "litk") {
		n = 2
	}
	return n
}

func (g *gen) genVector(arch, st string, d opDef, pl plan) *Case {
	c := g.newCase(arch, st, d)
	rk := pl.rk
	pl.nops = nEnum(d)
	pl.carry = has(d.flag, "vccin") || (d.tmpl == "vop3b" && d.cw == 64)
	c.EXEC = g.pickExec()
	if rk >= 0 && g.forceExec == nil {
		c.EXEC = ^uint64(0) // corner cross-product records: every lane carries a combination
	}
	isF := strings.ContainsAny(d.vt, "fdp")
	dstAlias := func(src, w int) bool { return rk < 0 && g.r.Intn(8) == 0 && src >= 256 && w == d.dw }
	switch d.tmpl {
	case "vop1", "vop1s":
		if d.tmpl == "vop1s" {
			pl.kind[0] = 0
		}
		s0 := g.vecSrc(c, "s0", d.aw, vtAt(d, 0), pl, 0, 2, 8, true, true)
		if d.tmpl == "vop1s" {
			dst := 20
			c.Ops["d"] = OpLog{C: dst, N: 1}
			c.Enc = encVOP1(d.op, dst, s0, litOf(c))
		} else {
			dst := 10
			if dstAlias(s0, d.aw) {
				dst = s0 - 256
			}
			c.Ops["d"] = OpLog{C: 256 + dst, N: d.dw / 32}
			c.Enc = encVOP1(d.op, dst, s0, litOf(c))
		}
	case "vop2":
		s0 := g.vecSrc(c, "s0", 32, vtAt(d, 0), pl, 0, 2, 8, !has(d.flag, "litk"), true)
		g.setV(c, 4, 32, g.laneValues(32, vtAt(d, 1), pl, 1))
		c.Ops["s1"] = OpLog{C: 256 + 4, N: 1}
		dst := 10
		if rk < 0 && g.r.Intn(8) == 0 {
			dst = 4
		}
		c.Ops["d"] = OpLog{C: 256 + dst, N: 1}
		if has(d.flag, "mac") {
			g.setV(c, dst, 32, g.randLanes(32, 'f'))
		}
		if has(d.flag, "vccin") && rk >= 0 {
			// carry-in digit of the enumeration
			prim := primSize(pl.nops)
			c.VCC = 0
			for l := 0; l < nLane; l++ {
				k := rk*nLane + l
				if (k < 2*ipow(prim, pl.nops) && (k/ipow(prim, pl.nops))%2 == 1) || (k >= 2*ipow(prim, pl.nops) && g.r.Intn(2) == 0) {
					c.VCC |= 1 << uint(l)
				}
			}
		}
		var lit *uint32 = litOf(c)
		if has(d.flag, "litk") {
			k := pick32(g.r, 'f', -1)
			if rk == 0 {
				k = fmaTies32[0][2]
				if d.op == 23 {
					k = fmaTies32[0][1]
				}
			}
			lit = &k
			c.Ops["s2"] = OpLog{C: 255, N: 1, Lit: &k}
		}
		if rk == 0 && isF && (has(d.flag, "mac") || has(d.flag, "litk")) && s0 >= 256 {
			// operands whose fused and unfused multiply-add differ
			for j, t := range fmaTies32 {
				l := 62 + j
				c.V[2][l] = t[0]
				switch {
				case has(d.flag, "mac"):
					c.V[4][l] = t[1]
					c.V[dst][l] = t[2]
				case d.op == 23: // D = S0 * K + S1
					c.V[4][l] = t[2]
				default: // D = S0 * S1 + K
					c.V[4][l] = t[1]
				}
			}
		}
		c.Enc = encVOP2(d.op, dst, s0, 4, lit)
	case "vop2sdwa":
		// VOP2 with SRC0 = 249: the second dword carries the VGPR source and the sub-dword selects
		pl.kind[0] = 0
		g.vecSrc(c, "s0", 32, 'i', pl, 0, 2, 8, false, false)
		g.setV(c, 4, 32, g.laneValues(32, 'i', pl, 1))
		c.Ops["s1"] = OpLog{C: 256 + 4, N: 1}
		dst := 10
		c.Ops["d"] = OpLog{C: 256 + dst, N: 1}
		g.setV(c, dst, 32, g.randLanes(32, 'i'))
		// walk through the selects deterministically: 21 (dst_sel, dst_unused) pairs
		j := rk
		if j < 0 {
			j = 0
		}
		dsel, dun, s0sel, s1sel := j%7, (j/7)%3, (j*2+1)%7, (j*3+2)%7
		if rk < 0 {
			dsel, dun, s0sel, s1sel = g.r.Intn(7), g.r.Intn(3), g.r.Intn(7), g.r.Intn(7)
		}
		c.Fld["dsel"], c.Fld["dun"], c.Fld["s0sel"], c.Fld["s1sel"] = dsel, dun, s0sel, s1sel
		sdwa := uint32(2) | uint32(dsel)<<8 | uint32(dun)<<11 | uint32(s0sel)<<16 | uint32(s1sel)<<24
		c.Enc = encVOP2(d.op, dst, 249, 4, &sdwa)
	case "vopc":
		s0 := g.vecSrc(c, "s0", d.aw, vtAt(d, 0), pl, 0, 2, 8, d.aw == 32, true)
		bv := g.laneValues(d.bw, vtAt(d, 1), pl, 1)
		if s0 >= 256 && rk < 0 {
			// make equality frequent
			for l := 0; l < nLane; l += 3 {
				bv[l] = uint64(c.V[2][l])
				if d.aw == 64 {
					bv[l] |= uint64(c.V[3][l]) << 32
				}
			}
		}
		g.setV(c, 4, d.bw, bv)
		c.Ops["s1"] = OpLog{C: 256 + 4, N: d.bw / 32}
		c.Ops["d"] = OpLog{C: 106, N: 2}
		c.Enc = encVOPC(d.op, s0, 4, litOf(c))
	case "vop3", "vop3c", "vop3b":
		// at most one scalar register source (constant-bus rule of the ISA)
		scalarAt := -1
		if rk < 0 && g.r.Intn(3) == 0 {
			scalarAt = g.r.Intn(3)
		}
		srcs := []int{0, 0, 0}
		ws := []int{d.aw, d.bw, d.cw}
		ei := 0
		for i, key := range []string{"s0", "s1", "s2"} {
			if ws[i] == 0 {
				continue
			}
			vt := vtAt(d, i)
			p := pl
			if p.kind[i] < 0 && scalarAt != i {
				p.kind[i] = 0
			}
			srcs[i] = g.vecSrc(c, key, ws[i], vt, p, ei, 2+2*i, 8+2*i, false, true)
			if vt != 'm' {
				ei++
			}
		}
		if rk < 0 && d.tmpl == "vop3c" && srcs[0] >= 256 && srcs[1] >= 256 {
			for l := 0; l < nLane; l += 3 {
				c.V[4][l] = c.V[2][l]
				if d.aw == 64 {
					c.V[5][l] = c.V[3][l]
				}
			}
		}
		if rk == 0 && d.cw > 0 && srcs[0] >= 256 && srcs[1] >= 256 && srcs[2] >= 256 {
			if d.vt == "fff" {
				for j, t := range fmaTies32 {
					c.V[2][62+j], c.V[4][62+j], c.V[6][62+j] = t[0], t[1], t[2]
				}
			}
			if d.vt == "ddd" {
				for j, t := range fmaTies64 {
					for i := 0; i < 3; i++ {
						c.V[2+2*i][62+j], c.V[3+2*i][62+j] = uint32(t[i]), uint32(t[i]>>32)
					}
				}
			}
		}
		abs, neg := 0, 0
		if isF && rk < 0 && d.cls != "lane" && d.op < 900 {
			if g.r.Intn(3) == 0 {
				abs = g.r.Intn(8)
			}
			if g.r.Intn(3) == 0 {
				neg = g.r.Intn(8)
			}
			if d.cw == 0 {
				abs &= 3
				neg &= 3
			}
		}
		c.Fld["abs"] = abs
		c.Fld["neg"] = neg
		clampBit, omod := 0, 0
		if d.tmpl == "vop3" && !has(d.flag, "sdst") {
			if g.clamp {
				clampBit = 1
			}
			omod = g.omod
			c.Fld["clamp"], c.Fld["omod"] = clampBit, omod
		}
		switch d.tmpl {
		case "vop3c":
			dst := 20
			if g.r.Intn(3) == 0 {
				dst = 106
			}
			c.Ops["d"] = OpLog{C: dst, N: 2}
			c.Enc = encVOP3a(d.op, dst, abs, 0, srcs[0], srcs[1], srcs[2], 0, neg)
		case "vop3":
			dst := 10
			if dstAlias(srcs[0], d.aw) {
				dst = srcs[0] - 256
			}
			c.Ops["d"] = OpLog{C: 256 + dst, N: d.dw / 32}
			if has(d.flag, "sdst") {
				sd := 24
				c.Ops["sd"] = OpLog{C: sd, N: 2}
				c.Enc = encVOP3b(d.op, dst, sd, srcs[0], srcs[1], srcs[2])
			} else if isPacked(d) {
				pk := g.pk
				if pk == nil {
					pk = &pkMod{opsel: g.r.Intn(8), opselhi: g.r.Intn(8)}
					if g.r.Intn(3) == 0 {
						pk.neg = g.r.Intn(8)
						pk.neghi = pk.neg
					}
				}
				m := 7
				if d.cw == 0 {
					m = 3
				}
				c.Fld["opsel"], c.Fld["opselhi"] = pk.opsel&m, pk.opselhi&m
				c.Fld["neg"], c.Fld["abs"] = pk.neg&m, pk.neghi&m // NEG_HI occupies the ABS bits
				c.Enc = encVOP3P(d.op, dst, pk.neghi&m, pk.opsel&m, pk.opselhi&m, srcs[0], srcs[1], srcs[2], pk.neg&m)
			} else {
				c.Enc = encVOP3a(d.op, dst, abs, clampBit, srcs[0], srcs[1], srcs[2], omod, neg)
				if clampBit != 0 || omod != 0 {
					// old destination contents outside [0, 1]: negative, > 1, NaN, infinities (a CLAMP / OMOD
					// pass must leave them alone in inactive lanes)
					g.outsideUnitDst(c, 256+dst, d.dw)
				}
			}
		case "vop3b":
			dst := 10
			c.Ops["d"] = OpLog{C: 256 + dst, N: d.dw / 32}
			sd := 24
			if g.r.Intn(3) == 0 {
				sd = 106
			}
			c.Ops["sd"] = OpLog{C: sd, N: 2}
			c.Enc = encVOP3b(d.op, dst, sd, srcs[0], srcs[1], srcs[2])
		}
	}
	return c
}

// ------------------------------------------------------------- LDS / memory
const ldsSize = 1024
const memSize = 1024

// wild address for lanes that must not touch LDS / memory
func (g *gen) wildLDS() uint64 { return uint64(0x7fff0000 + g.r.Intn(4096)*4) }

func (g *gen) genDS(arch, st string, d opDef, rk int) *Case {
	c := g.newCase(arch, st, d)
	c.EXEC = g.pickExec()
	c.LDS = make([]byte, ldsSize)
	g.r.Read(c.LDS)
	two := d.tmpl == "ds_w2" || d.tmpl == "ds_r2"
	isWrite := strings.HasPrefix(d.tmpl, "ds_w")
	elem := d.bw / 8 // bytes per element
	if d.tmpl == "ds_r" {
		elem = d.dw / 8
	}
	if d.tmpl == "ds_r2" {
		elem = d.dw / 16
	}
	off0, off1 := 0, 0
	lo, window := 0, elem // lane touches [addr+lo, addr+lo+window)
	if two {
		off0, off1 = g.r.Intn(4), g.r.Intn(4)
		if g.addrPat != patRandom {
			off0 = g.r.Intn(2) // keeps 64 windows inside the LDS
			off1 = 1 - off0
		}
		if off1 == off0 {
			off1 = (off0 + 1) % 4
		}
		mx := off0
		if off1 > mx {
			mx = off1
		}
		window = elem * (mx + 1)
	} else {
		switch g.r.Intn(3) {
		case 0:
			off0 = g.r.Intn(40)
		case 1:
			off0 = 256 + g.r.Intn(300) // needs OFFSET1 as the high byte of the 16-bit offset
		}
		if g.addrPat != patRandom && off0 > ldsSize-nLane*elem {
			off0 = ldsSize - nLane*elem
		}
		lo = off0
	}
	first := 0
	nslots := (ldsSize - lo - first) / window
	used := 0
	addrs := make([]uint64, nLane)
	var pattern []int
	if g.addrPat != patRandom && nslots >= nLane {
		pattern = g.slotPattern(g.addrPat, nslots, isWrite)
	}
	for _, l := range g.r.Perm(nLane) {
		if c.EXEC&(1<<uint(l)) == 0 {
			addrs[l] = g.wildLDS()
			continue
		}
		if pattern != nil {
			addrs[l] = uint64(first + pattern[l]*window)
			continue
		}
		if isWrite && used >= nslots {
			c.EXEC &^= 1 << uint(l)
			addrs[l] = g.wildLDS()
			continue
		}
		s := used
		if !isWrite {
			s = g.r.Intn(nslots)
			if used == 0 {
				s = nslots - 1
			}
		}
		used++
		addrs[l] = uint64(first + s*window)
	}
	g.setV(c, 14, 32, addrs)
	c.Ops["addr"] = OpLog{C: 256 + 14, N: 1}
	if two {
		c.Fld["off0"], c.Fld["off1"] = off0, off1
	} else {
		c.Fld["off0"], c.Fld["off1"] = off0&0xff, off0>>8
	}
	vdst, data0, data1 := 0, 0, 0
	if isWrite {
		n := (d.bw + 31) / 32
		for i := 0; i < n; i++ {
			g.setV(c, 16+i, 32, g.randLanes(32, 'i'))
		}
		c.Ops["data"] = OpLog{C: 256 + 16, N: n}
		data0 = 16
		if two {
			for i := 0; i < n; i++ {
				g.setV(c, 20+i, 32, g.randLanes(32, 'i'))
			}
			c.Ops["data1"] = OpLog{C: 256 + 20, N: n}
			data1 = 20
		}
	} else {
		vdst = 10
		c.Ops["d"] = OpLog{C: 256 + 10, N: d.dw / 32}
	}
	c.Enc = encDS(d.op, vdst, 14, data0, data1, c.Fld["off0"], c.Fld["off1"])
	return c
}

func (g *gen) genFlat(arch, st string, d opDef, rk int) *Case {
	c := g.newCase(arch, st, d)
	c.EXEC = g.pickExec()
	c.Mem = make([]byte, memSize)
	g.r.Read(c.Mem)
	c.MBase = (g.r.Uint64() & 0x0000fffffffff000) | 0x2000
	if g.r.Intn(5) == 0 {
		c.MBase = 0x0000000100000000 - 128 // the window straddles a 4 GiB boundary (carry into the high dword)
	}
	isStore := d.tmpl == "fl_st"
	size := d.dw / 8
	if isStore {
		size = d.bw / 8
	}
	switch d.op {
	case 16, 17:
		size = 1
	case 18:
		size = 2
	}
	// GCN3 has only the 64-bit VGPR address; CDNA3 adds a signed 13-bit offset and the global SADDR
	// form (64-bit scalar base + zero-extended 32-bit VGPR offset)
	offset, saddr, seg := 0, 0x7f, 0
	useS := false
	if arch == "cdna3" {
		switch g.r.Intn(4) {
		case 0:
			offset = g.r.Intn(200)
		case 1:
			offset = -g.r.Intn(200) - 1
		case 2:
			offset = []int{4095, -4096, 4, -4}[g.r.Intn(4)]
		}
		if g.r.Intn(3) == 0 {
			useS, seg, saddr = true, 2, 8
			if g.r.Intn(4) == 0 {
				saddr = 0 // s[0:1] is a valid base on CDNA3
			}
		} else if g.r.Intn(2) == 0 || offset < 0 {
			seg = 2 // negative offsets exist only in the GLOBAL form (FLAT proper has a 12-bit unsigned offset)
		}
	} else {
		saddr = 0 // GCN3 FLAT has no SADDR / OFFSET fields: the bits are zero
	}
	nslots := memSize / size
	sbase := c.MBase - uint64(g.r.Intn(1<<20)) - 5000
	used := 0
	addrs := make([]uint64, nLane)
	var pattern []int
	if g.addrPat != patRandom {
		pattern = g.slotPattern(g.addrPat, nslots, isStore)
	}
	winBase := c.MBase + uint64(g.r.Intn(nslots-nLane+1)*size)
	for _, l := range g.r.Perm(nLane) {
		active := c.EXEC&(1<<uint(l)) != 0
		if active && isStore && used >= nslots {
			c.EXEC &^= 1 << uint(l)
			active = false
		}
		var target uint64
		if !active {
			target = 0x00007abc00000000 + uint64(g.r.Intn(1<<20))*4 // unmapped: any access panics
		} else if pattern != nil {
			sl := pattern[l]
			if sl >= nLane { // a displaced lane: any slot of the window outside the 64 unit-stride slots
				sl = (int(winBase-c.MBase)/size + nLane + sl) % nslots
				for uint64(sl*size) >= winBase-c.MBase && uint64(sl*size) < winBase-c.MBase+uint64(nLane*size) {
					sl = (sl + 1) % nslots
				}
				target = c.MBase + uint64(sl*size)
			} else {
				target = winBase + uint64(sl*size)
			}
		} else {
			s := used
			if !isStore && used > 0 {
				s = g.r.Intn(nslots)
			}
			used++
			target = c.MBase + uint64(memSize-size) - uint64(s*size) // slot 0 = the last bytes of the window
		}
		a := target - uint64(int64(offset))
		if useS {
			if active {
				a = (a - sbase) & 0xffffffff
			} else {
				a = uint64(0xf0000000 + g.r.Intn(1<<20))
			}
		}
		addrs[l] = a
	}
	if useS {
		g.setV(c, 14, 32, addrs)
		c.Ops["addr"] = OpLog{C: 256 + 14, N: 1}
		c.S[saddr] = uint32(sbase)
		c.S[saddr+1] = uint32(sbase >> 32)
		c.Ops["base"] = OpLog{C: saddr, N: 2}
	} else {
		g.setV(c, 14, 64, addrs)
		c.Ops["addr"] = OpLog{C: 256 + 14, N: 2}
	}
	c.Fld["off"] = offset & 0x1fff
	c.Fld["saddr"] = saddr
	c.Fld["seg"] = seg
	c.Fld["uses"] = 0
	if useS {
		c.Fld["uses"] = 1
	}
	vdst, data := 0, 0
	if isStore {
		n := d.bw / 32
		for i := 0; i < n; i++ {
			g.setV(c, 16+i, 32, g.randLanes(32, 'i'))
		}
		c.Ops["data"] = OpLog{C: 256 + 16, N: n}
		data = 16
	} else {
		vdst = 10
		c.Ops["d"] = OpLog{C: 256 + 10, N: d.dw / 32}
	}
	c.Enc = encFLAT(d.op, vdst, 14, data, saddr, seg, offset)
	return c
}

// ------------------------------------------------------------- drivers
func archs(d opDef) []string {
	var a []string
	if strings.Contains(d.arch, "g") {
		a = append(a, "gcn3")
	}
	if strings.Contains(d.arch, "c") {
		a = append(a, "cdna3")
	}
	return a
}

func isVector(d opDef) bool {
	switch d.f {
	case "VOP1", "VOP2", "VOP3a", "VOP3b", "VOPC", "DS", "FLAT":
		return true
	}
	return false
}

var autoKinds = [3]int{-1, -1, -1}

func (g *gen) one(arch, st string, d opDef, rk, ka, kb int) *Case {
	switch {
	case d.f == "DS":
		return g.genDS(arch, st, d, rk)
	case d.f == "FLAT":
		return g.genFlat(arch, st, d, rk)
	case isVector(d):
		return g.genVector(arch, st, d, plan{rk: rk, kind: autoKinds})
	}
	return g.genScalar(arch, st, d, ka, kb)
}

// genC03: corner cross products first, then seeded random states.
func (g *gen) genC03(scale int, only map[string]bool) {
	for _, d := range buildTable() {
		if isPacked(d) {
			for _, arch := range archs(d) {
				if only == nil || only[arch+"/"+d.f+"/"+itoa(d.op)] {
					g.packedRecords(arch, d, false)
					g.execSweep(arch, d)
				}
			}
			continue
		}
		if d.cls != "ref" {
			continue
		}
		for _, arch := range archs(d) {
			if only != nil && !only[arch+"/"+d.f+"/"+itoa(d.op)] {
				continue
			}
			if isVector(d) {
				if d.f == "DS" || d.f == "FLAT" {
					for k := 0; k < 4*scale; k++ {
						st := "emu"
						if k%4 == 3 {
							st = "timing"
						}
						g.cases = append(g.cases, g.one(arch, st, d, -1, -1, -1))
					}
					g.memPatterns(arch, d, false)
					g.execSweep(arch, d)
					continue
				}
				carry := has(d.flag, "vccin") || (d.tmpl == "vop3b" && d.cw == 64)
				cross := crossRecords(nEnum(d), carry) + scale
				if d.tmpl == "vop2sdwa" {
					cross = 21
				}
				cnt := 0
				emit := func(pl plan) {
					st := "emu"
					if cnt%4 == 3 {
						st = "timing"
					}
					cnt++
					g.cases = append(g.cases, g.genVector(arch, st, d, pl))
				}
				for rk := 0; rk < cross; rk++ {
					emit(plan{rk: rk, kind: autoKinds})
				}
				// how the sources are supplied: inline constants (negative integers, floats), SGPR, literal
				ws := []int{d.aw, d.bw, d.cw}
				for i := 0; i < 3; i++ {
					if ws[i] == 0 || vtAt(d, i) == 'm' {
						continue
					}
					if i > 0 && (d.f == "VOP1" || d.f == "VOP2" || d.f == "VOPC") {
						continue // VSRC1 is always a VGPR
					}
					if i == 2 && has(d.flag, "litk") {
						continue
					}
					if d.tmpl == "vop2sdwa" {
						continue // SDWA sources are VGPRs
					}
					vt := vtAt(d, i)
					kinds := []int{8, 7}
					if vt == 't' {
						kinds = []int{7} // shift amounts outside 0..4 are outside the documented domain
					}
					if vt == 'f' || vt == 'd' || vt == 'p' {
						kinds = []int{6, 7}
					}
					if ws[i] == 32 && (d.f == "VOP1" || d.f == "VOP2" || d.f == "VOPC") && !has(d.flag, "litk") {
						kinds = append(kinds, 2)
					}
					for _, kd := range kinds {
						pl := plan{rk: 0, kind: autoKinds}
						pl.kind[i] = kd
						emit(pl)
					}
				}
				for k := 0; k < 3*scale; k++ {
					emit(plan{rk: -1, kind: autoKinds})
				}
				g.execSweep(arch, d)
				if floatResultVOP3(d) {
					g.modifierRecords(arch, d, false)
				}
			} else {
				pa, pb := poolLen(vtAt(d, 0)), poolLen(vtAt(d, 1))
				var pairs [][2]int
				switch {
				case d.tmpl == "sopp" || d.tmpl == "smem":
					for k := 0; k < 8; k++ {
						pairs = append(pairs, [2]int{k, 0})
					}
				case d.tmpl == "sopk":
					for ka := 0; ka < 10; ka++ {
						for kb := 0; kb < 6; kb++ {
							pairs = append(pairs, [2]int{ka, kb})
						}
					}
				case d.aw == 0:
					pairs = append(pairs, [2]int{0, 0}, [2]int{1, 1})
				case d.bw == 0:
					for ka := 0; ka < pa; ka++ {
						pairs = append(pairs, [2]int{ka, 0})
					}
				default:
					p := 8 + 2*scale
					for ka := 0; ka < p && ka < pa; ka++ {
						for kb := 0; kb < p && kb < pb; kb++ {
							pairs = append(pairs, [2]int{ka, kb})
						}
					}
					for k := 0; k < pa || k < pb; k++ {
						pairs = append(pairs, [2]int{k % pa, (k*7 + 3) % pb}, [2]int{(k*5 + 1) % pa, k % pb})
					}
				}
				g.fk = [2]int{-1, -1}
				readsSCC := (d.f == "SOP2" && (d.op == 4 || d.op == 5 || d.op == 10 || d.op == 11)) || (d.f == "SOPK" && d.op == 1) ||
					(d.f == "SOPP" && (d.op == 4 || d.op == 5))
				for cnt, p := range pairs {
					st := "emu"
					if cnt%5 == 4 {
						st = "timing"
					}
					c := g.one(arch, st, d, -1, p[0], p[1])
					g.cases = append(g.cases, c)
					if readsSCC {
						c.SCC = 0
						c2 := g.one(arch, st, d, -1, p[0], p[1])
						c2.SCC = 1
						g.cases = append(g.cases, c2)
					}
				}
				// negative inline constants and literals as sources
				if d.aw == 32 && (d.f == "SOP2" || d.f == "SOP1" || d.f == "SOPC") {
					for k := 0; k < 8; k++ {
						g.fk = [2]int{8, -1}
						g.cases = append(g.cases, g.one(arch, "emu", d, -1, k, k))
						if d.bw == 32 {
							g.fk = [2]int{-1, 8}
							g.cases = append(g.cases, g.one(arch, "emu", d, -1, k, k))
						}
					}
					g.fk = [2]int{-1, -1}
				}
				for k := 0; k < 10*scale; k++ {
					st := "emu"
					if k%4 == 3 {
						st = "timing"
					}
					g.cases = append(g.cases, g.one(arch, st, d, -1, -1, -1))
				}
			}
		}
	}
}

// execSweep: empty EXEC, single lanes (0, 63, a middle one), only the low / only the high half, with stale
// non-zero contents in VCC and the scalar destinations: the scalar results of vector instructions (compare and
// carry masks, v_readfirstlane) must be produced whatever EXEC is.
func (g *gen) execSweep(arch string, d opDef) {
	masks := []uint64{0, 1, 1 << 63, 1 << uint(1+g.r.Intn(62)), 0x00000000ffffffff, 0xffffffff00000000}
	for k, m := range masks {
		mm := m
		g.forceExec = &mm
		st := "emu"
		if k%3 == 2 {
			st = "timing"
		}
		c := g.one(arch, st, d, -1, -1, -1)
		g.forceExec = nil
		c.Tag = "exec"
		if c.VCC == 0 {
			c.VCC = g.r.Uint64() | 1<<63 | 1
		}
		g.cases = append(g.cases, c)
	}
}

// memPatterns: structured per-lane address vectors for LDS / FLAT instructions (see slotPattern), with every
// lane active and under seeded masks; twins = also emit the lane-permuted twin (C06).
func (g *gen) memPatterns(arch string, d opDef, twins bool) {
	emit := func(c *Case) {
		c.Tag = "addr"
		if dl, ok := c.Ops["d"]; twins && ok && dl.C >= 256 {
			// the old destination contents take part in the permutation
			for i := 0; i < dl.N; i++ {
				if _, set := c.V[dl.C-256+i]; !set {
					g.setV(c, dl.C-256+i, 32, g.randLanes(32, 'i'))
				}
			}
		}
		g.cases = append(g.cases, c)
		if twins {
			perm := g.r.Perm(nLane)
			for perm[0] == 0 || perm[nLane-1] == nLane-1 {
				perm = g.r.Perm(nLane)
			}
			t := permuteCase(c, perm, g.nextID)
			g.nextID++
			g.cases = append(g.cases, t)
		}
	}
	full := ^uint64(0)
	cnt := 0
	for pat := patUnit; pat < patCount; pat++ {
		for _, masked := range []bool{false, true} {
			if masked && !(pat == patUnit || pat == patInteriorPerm || pat == patInterleaved) {
				continue
			}
			g.addrPat = pat
			m := full
			if masked {
				m = g.r.Uint64() | g.r.Uint64()
			}
			g.forceExec = &m
			st := "emu"
			if cnt%4 == 3 {
				st = "timing"
			}
			cnt++
			c := g.one(arch, st, d, -1, -1, -1)
			g.addrPat, g.forceExec = patRandom, nil
			emit(c)
		}
	}
}

// floatResultVOP3: VOP3a rows whose result is a float (CLAMP / OMOD apply to it)
func floatResultVOP3(d opDef) bool {
	return d.f == "VOP3a" && d.tmpl == "vop3" && d.op < 900 && !has(d.flag, "sdst") && d.vt != "" &&
		strings.Trim(d.vt, "fd") == ""
}

var outside32 = []uint32{0xbf800000, 0x40000000, 0x7fc00000, 0xff800000, 0x7f800000, 0x7149f2ca, 0x80000000, 0xffc00001,
	0x3f800001, 0xb3800000, 0x3f000000, 0xc2c80000}

func (g *gen) outsideUnitDst(c *Case, code, w int) {
	lo := make([]uint64, nLane)
	for l := range lo {
		v := outside32[(l+g.r.Intn(3))%len(outside32)]
		if w == 64 {
			lo[l] = f64of32(v)
		} else {
			lo[l] = uint64(v)
		}
	}
	g.setV(c, code-256, w, lo)
}

func f64of32(v uint32) uint64 {
	f := float64(math.Float32frombits(v))
	return math.Float64bits(f)
}

// modifierRecords: VOP3a float instructions with CLAMP = 1 (corner lanes with every lane active, seeded
// partial EXEC) and OMOD = 1..3, the old destination holding values outside [0, 1].
func (g *gen) modifierRecords(arch string, d opDef, twins bool) {
	emit := func(c *Case, tag string) {
		c.Tag = tag
		g.cases = append(g.cases, c)
		if twins {
			perm := g.r.Perm(nLane)
			for perm[0] == 0 {
				perm = g.r.Perm(nLane)
			}
			t := permuteCase(c, perm, g.nextID)
			g.nextID++
			g.cases = append(g.cases, t)
		}
	}
	partial := func() *uint64 {
		m := (g.r.Uint64() | 1) &^ (uint64(1) << uint(1+g.r.Intn(62))) &^ (uint64(0xff) << uint(8*g.r.Intn(8)))
		m |= 1
		return &m
	}
	g.clamp = true
	if !twins {
		emit(g.genVector(arch, "emu", d, plan{rk: 0, kind: autoKinds}), "clamp")
	}
	for k := 0; k < 2; k++ {
		g.forceExec = partial()
		st := "emu"
		if k == 1 {
			st = "timing"
		}
		emit(g.genVector(arch, st, d, plan{rk: -1, kind: [3]int{0, 0, 0}}), "clamp")
	}
	g.clamp = false
	g.omod = 1 + g.r.Intn(3)
	g.forceExec = partial()
	emit(g.genVector(arch, "emu", d, plan{rk: -1, kind: [3]int{0, 0, 0}}), "omod")
	g.omod, g.forceExec = 0, nil
}

// packedRecords: the CDNA3 packed-f32 instructions (v_pk_fma/mul/add_f32).  Every source in turn is an inline float
// constant, an inline integer 0..64, an SGPR pair (the other sources VGPR pairs), with OP_SEL / OP_SEL_HI of that
// source selecting the low dword for one half of the result and the high dword for the other, in both orders; VGPR-only
// records over OP_SEL / OP_SEL_HI / NEG; records with NEG # NEG_HI; full and partial EXEC; both register models.
// Records of v_pk_fma_f32 that carry an inline constant hold values whose products are exact (small integers times
// powers of two, constants 0.5 .. 4.0), so that they do not depend on whether the multiply-add is fused.
func (g *gen) packedRecords(arch string, d opDef, twins bool) {
	n := 2
	if d.cw != 0 {
		n = 3
	}
	cnt := 0
	emit := func(kinds [3]int, pk pkMod, exact bool) {
		st := "emu"
		if cnt%3 == 2 {
			st = "timing"
		}
		if cnt%2 == 1 {
			m := (g.r.Uint64() | 1) &^ (uint64(1) << uint(1+g.r.Intn(62))) &^ (uint64(0xff) << uint(8*g.r.Intn(8)))
			g.forceExec = &m
		}
		cnt++
		g.pk = &pk
		c := g.genVector(arch, st, d, plan{rk: -1, kind: kinds})
		g.pk, g.forceExec = nil, nil
		c.Tag = "pk"
		if exact {
			for i := 0; i < n; i++ {
				key := []string{"s0", "s1", "s2"}[i]
				o := c.Ops[key]
				if o.C == 248 { // 1/(2*pi) has a full significand
					o.C = 240 + g.r.Intn(8)
					c.Ops[key] = o
					srcs := [3]int{c.Ops["s0"].C, c.Ops["s1"].C, 0}
					if n == 3 {
						srcs[2] = c.Ops["s2"].C
					}
					c.Enc = encVOP3P(d.op, c.Ops["d"].C-256, pk.neghi, pk.opsel, pk.opselhi, srcs[0], srcs[1], srcs[2], pk.neg)
				}
				if o.C >= 256 {
					vals := make([]uint64, nLane)
					for l := range vals {
						vals[l] = uint64(exactF32(g.r))<<32 | uint64(exactF32(g.r))
					}
					g.setV(c, o.C-256, 64, vals)
				}
			}
		}
		// the old destination is part of the state (inactive lanes keep it; the twin needs it permuted)
		if dl := c.Ops["d"]; dl.C >= 256 {
			if _, set := c.V[dl.C-256]; !set {
				g.outsideUnitDst(c, dl.C, 64)
			}
		}
		g.cases = append(g.cases, c)
		if twins {
			perm := g.r.Perm(nLane)
			for perm[0] == 0 {
				perm = g.r.Perm(nLane)
			}
			t := permuteCase(c, perm, g.nextID)
			g.nextID++
			g.cases = append(g.cases, t)
		}
	}
	rnd := func(i, sel, selhi int) pkMod {
		pk := pkMod{opsel: g.r.Intn(8), opselhi: g.r.Intn(8)}
		if i >= 0 {
			pk.opsel = pk.opsel&^(1<<uint(i)) | sel<<uint(i)
			pk.opselhi = pk.opselhi&^(1<<uint(i)) | selhi<<uint(i)
		}
		if g.r.Intn(2) == 0 {
			pk.neg = g.r.Intn(8)
			pk.neghi = pk.neg
		}
		m := 1<<uint(n) - 1
		pk.opsel, pk.opselhi, pk.neg, pk.neghi = pk.opsel&m, pk.opselhi&m, pk.neg&m, pk.neghi&m
		return pk
	}
	fma := d.op == 944
	for i := 0; i < n; i++ {
		for _, kd := range []int{6, 1, 7} {
			if twins && kd == 7 {
				continue
			}
			kinds := [3]int{0, 0, 0}
			kinds[i] = kd
			emit(kinds, rnd(i, 0, 1), fma && kd != 7) // the usual form: low dword for the low result, high for the high
			if kd != 7 && !twins {
				emit(kinds, rnd(i, 1, 0), fma)
				emit(kinds, rnd(i, 0, 0), fma)
			}
		}
	}
	if !twins {
		// two constants at once
		emit([3]int{6, 6, 0}, rnd(-1, 0, 0), fma)
		emit([3]int{6, 0, 6}, rnd(-1, 0, 0), fma)
		for k := 0; k < 4; k++ {
			emit([3]int{0, 0, 0}, rnd(-1, 0, 0), false)
		}
		for k := 0; k < 2; k++ {
			pk := rnd(-1, 0, 0)
			pk.neg = 1 + g.r.Intn(1<<uint(n)-1)
			pk.neghi = pk.neg ^ (1 + g.r.Intn(1<<uint(n)-1))
			emit([3]int{0, 0, 0}, pk, fma)
		}
	}
}

// exactF32: +-m * 2^e, m in 0..15, e in -3..3: products of two such values and of one with 0.5 .. 4.0 are exact
func exactF32(r *rand.Rand) uint32 {
	v := float32(r.Intn(16)) * float32(math.Ldexp(1, r.Intn(7)-3))
	if r.Intn(2) == 0 {
		v = -v
	}
	return math.Float32bits(v)
}

func itoa(i int) string { return strconv.Itoa(i) }

// Values that compare equal (or are "special") under the host language but differ in bits or class:
// +0/-0, denormals next to zeros, NaNs with different payloads and signs, signalling NaNs, equal values
// followed by a different one, values differing in one ulp, infinities.  Consecutive elements of the
// sequences are placed in consecutive *active* lanes, in both orders.
const (
	pz, nz, pd, nd = 0x00000000, 0x80000000, 0x00000001, 0x80000001
	qa, qb, qn, sn = 0x7fc00000, 0x7fc00001, 0xffc00000, 0x7f800001
)

var nbrSeq32 = []uint32{
	pz, nz, pz, pd, pz, nd, nz, pd, nz, nd, pd, nd, pz, // zeros and denormals, every ordered pair
	qa, qb, qa, qn, qa, sn, qb, qn, qb, sn, qn, sn, qa, // NaNs
	0x3f800000, 0x3f800000, 0x3f800000, 0xbf800000, 0xbf800000, 0x3f800000, // runs of equal values, then a change
	0x40800000, 0x40800000, 0x40800001, 0x40800000, 0x7f800000, 0x7f800000, 0xff800000, 0xff800000, 0x7f800000,
	nz, nz, pz, pz, nz, 0x80000000, 0x00000000, 0xffffffff, 0xffffffff, 0x7fffffff, 0x80000000, 0x00010000, 0x00000001,
}

func f64of(v uint32) uint64 {
	switch v {
	case pz, nz:
		return uint64(v) << 32
	case pd, nd:
		return uint64(v&0x80000000)<<32 | 1
	case qa:
		return 0x7ff8000000000000
	case qb:
		return 0x7ff8000000000001
	case qn:
		return 0xfff8000000000000
	case sn:
		return 0x7ff0000000000001
	case 0x40800001:
		return 0x4010000000000001
	case 0xffffffff:
		return 0x00000001ffffffff // equal low dwords, different high dwords
	case 0x7fffffff:
		return 0x00000000ffffffff
	case 0x00010000:
		return 0x0000000100000000
	}
	return math.Float64bits(float64(math.Float32frombits(v)))
}

// genNbr: for every value-carrying source operand one record whose operand walks through nbrSeq32 over the
// active lanes (the other operands constant, the old destination uniform) - once with every lane active, once
// with inactive lanes in between (those hold the confusable partner) - and records with random runs of
// repeated values; each followed by its lane-permuted twin.
func (g *gen) genNbr(arch string, d opDef, scale int) {
	emit := func(c *Case) {
		c.Tag = "nbr"
		g.cases = append(g.cases, c)
		perm := g.r.Perm(nLane)
		t := permuteCase(c, perm, g.nextID)
		g.nextID++
		g.cases = append(g.cases, t)
	}
	ws := []int{d.aw, d.bw, d.cw}
	slots := []int{2, 4, 6}
	cnt := 0
	base := func() *Case {
		st := "emu"
		if cnt%4 == 3 {
			st = "timing"
		}
		cnt++
		c := g.genVector(arch, st, d, plan{rk: -1, kind: [3]int{0, 0, 0}})
		// uniform old destination and carry-in: lanes with equal sources have equal inputs
		if dl, ok := c.Ops["d"]; ok && dl.C >= 256 {
			for i := 0; i < dl.N; i++ {
				v := g.r.Uint32()
				u := make([]uint64, nLane)
				for l := range u {
					u[l] = uint64(v)
				}
				g.setV(c, dl.C-256+i, 32, u)
			}
		}
		c.VCC = []uint64{0, ^uint64(0)}[g.r.Intn(2)]
		for _, key := range []string{"s0", "s1", "s2"} {
			if l, ok := c.Ops[key]; ok && l.C <= 101 && l.N == 2 && c.Fld["mask_"+key] == 1 {
				c.S[l.C], c.S[l.C+1] = uint32(c.VCC), uint32(c.VCC>>32)
			}
		}
		return c
	}
	constant := func(c *Case, i int) {
		if l, ok := c.Ops[[]string{"s0", "s1", "s2"}[i]]; ok && l.C >= 256 {
			v := val(g.r, ws[i], vtAt(d, i), -1)
			u := make([]uint64, nLane)
			for k := range u {
				u[k] = v
			}
			g.setV(c, slots[i], ws[i], u)
		}
	}
	seqVal := func(i, k int) uint64 {
		v := nbrSeq32[k%len(nbrSeq32)]
		if ws[i] == 64 {
			return f64of(v)
		}
		return uint64(v)
	}
	for i := 0; i < 3; i++ {
		key := []string{"s0", "s1", "s2"}[i]
		if ws[i] == 0 || vtAt(d, i) == 'm' || vtAt(d, i) == 't' {
			continue
		}
		if i == 2 && has(d.flag, "litk") {
			continue
		}
		for variant := 0; variant < 2; variant++ {
			c := base()
			if l, ok := c.Ops[key]; !ok || l.C < 256 {
				continue
			}
			for j := 0; j < 3; j++ {
				if j != i && ws[j] > 0 && vtAt(d, j) != 'm' {
					constant(c, j)
				}
			}
			vals := make([]uint64, nLane)
			if variant == 0 {
				c.EXEC = ^uint64(0)
				for l := 0; l < nLane; l++ {
					vals[l] = seqVal(i, l)
				}
			} else {
				// active lanes every second or third lane; the inactive ones hold the next element (a tempting neighbour)
				c.EXEC = 0
				k := 13 * (cnt % 3)
				for l := 0; l < nLane; l++ {
					if l%2 == 0 || l%7 == 3 {
						c.EXEC |= 1 << uint(l)
						vals[l] = seqVal(i, k)
						k++
					} else {
						vals[l] = seqVal(i, k)
					}
				}
			}
			g.setV(c, slots[i], ws[i], vals)
			emit(c)
		}
	}
	// random runs of repeated values, every operand with its own run boundaries
	for r := 0; r < scale; r++ {
		c := base()
		c.EXEC = g.r.Uint64() | g.r.Uint64()
		for i := 0; i < 3; i++ {
			key := []string{"s0", "s1", "s2"}[i]
			l, ok := c.Ops[key]
			if !ok || l.C < 256 || ws[i] == 0 || vtAt(d, i) == 'm' || vtAt(d, i) == 't' || (i == 2 && has(d.flag, "litk")) {
				continue
			}
			vals := make([]uint64, nLane)
			for ln := 0; ln < nLane; {
				run := 1 + g.r.Intn(4)
				v := seqVal(i, g.r.Intn(len(nbrSeq32)))
				if g.r.Intn(4) == 0 {
					v = val(g.r, ws[i], vtAt(d, i), -1)
				}
				for ; run > 0 && ln < nLane; run, ln = run-1, ln+1 {
					vals[ln] = v
				}
			}
			g.setV(c, slots[i], ws[i], vals)
		}
		emit(c)
	}
}

// genC06: for every vector handler (with or without a reference) pairs of a
// state with a partial EXEC mask and its lane-permuted twin.
func (g *gen) genC06(scale int, only map[string]bool) {
	for _, d := range buildTable() {
		if !isVector(d) {
			continue
		}
		for _, arch := range archs(d) {
			if only != nil && !only[arch+"/"+d.f+"/"+itoa(d.op)] {
				continue
			}
			for k := 0; k < 2*scale; k++ {
				st := "emu"
				if k%3 == 2 {
					st = "timing"
				}
				c := g.one(arch, st, d, -1, -1, -1)
				if k%2 == 0 {
					c.EXEC = g.r.Uint64()
					if d.f == "DS" || d.f == "FLAT" {
						c = g.one(arch, st, d, 1, -1, -1)
					}
				}
				c.Tag = d.cls
				if d.f != "DS" && d.f != "FLAT" {
					// lane 0 takes part (handlers that treat lane 0 or bit 0 specially are exposed by the permutation)
					c.EXEC |= 1
					if has(d.flag, "vccin") {
						c.VCC |= 1
					}
				}
				// the old destination contents take part in the permutation
				if dl, ok := c.Ops["d"]; ok && dl.C >= 256 {
					for i := 0; i < dl.N; i++ {
						if _, set := c.V[dl.C-256+i]; !set {
							g.setV(c, dl.C-256+i, 32, g.randLanes(32, 'i'))
						}
					}
				}
				g.cases = append(g.cases, c)
				perm := g.r.Perm(nLane)
				for perm[0] == 0 {
					perm = g.r.Perm(nLane)
				}
				t := permuteCase(c, perm, g.nextID)
				g.nextID++
				g.cases = append(g.cases, t)
			}
			if d.f == "DS" || d.f == "FLAT" {
				g.memPatterns(arch, d, true)
			}
			if floatResultVOP3(d) {
				g.modifierRecords(arch, d, true)
			}
			if isPacked(d) {
				g.packedRecords(arch, d, true)
			}
			// neighbouring lanes with confusable values (see genNbr): targets state carried from lane to lane
			if d.f != "DS" && d.f != "FLAT" && d.tmpl != "vop1s" {
				g.genNbr(arch, d, scale)
			}
			// lanes 2j and 2j+1 carry identical inputs: their results must be identical
			if d.f != "DS" && d.f != "FLAT" {
				for k := 0; k < scale; k++ {
					c := g.one(arch, "emu", d, -1, -1, -1)
					c.Tag = "dup"
					c.EXEC = g.r.Uint64() | g.r.Uint64()
					if dl, ok := c.Ops["d"]; ok && dl.C >= 256 {
						for i := 0; i < dl.N; i++ {
							if _, set := c.V[dl.C-256+i]; !set {
								g.setV(c, dl.C-256+i, 32, g.randLanes(32, 'i'))
							}
						}
					}
					dupBits := func(x uint64) uint64 {
						e := x & 0x5555555555555555
						return e | e<<1
					}
					for _, vs := range c.V {
						for l := 0; l < nLane; l += 2 {
							vs[l+1] = vs[l]
						}
					}
					c.VCC = dupBits(c.VCC)
					for _, key := range []string{"s0", "s1", "s2"} {
						if l, ok := c.Ops[key]; ok && l.C <= 101 && l.N == 2 && c.Fld["mask_"+key] == 1 {
							v := dupBits(uint64(c.S[l.C]) | uint64(c.S[l.C+1])<<32)
							c.S[l.C], c.S[l.C+1] = uint32(v), uint32(v>>32)
						}
					}
					g.cases = append(g.cases, c)
					// keep the log in pairs (the twin slot repeats the case unpermuted)
					id := make([]int, nLane)
					for i := range id {
						id[i] = i
					}
					t := permuteCase(c, id, g.nextID)
					g.nextID++
					g.cases = append(g.cases, t)
				}
			}
		}
	}
}

// permuteCase builds the lane-permuted twin of a vector case: lane l of the twin
// carries what lane perm[l] carried in the original (VGPRs, EXEC and VCC bits,
// lane-mask SGPR operands).
func permuteCase(c *Case, perm []int, id int) *Case {
	t := *c
	t.ID = id
	t.Perm = perm
	t.Pair = c.ID
	t.S = map[int]uint32{}
	for k, v := range c.S {
		t.S[k] = v
	}
	t.V = map[int][]uint32{}
	permBits := func(x uint64) uint64 {
		var y uint64
		for l := 0; l < nLane; l++ {
			if x&(1<<uint(perm[l])) != 0 {
				y |= 1 << uint(l)
			}
		}
		return y
	}
	t.EXEC = permBits(c.EXEC)
	t.VCC = permBits(c.VCC)
	for _, key := range []string{"s0", "s1", "s2"} {
		if l, ok := c.Ops[key]; ok && l.C <= 101 && l.N == 2 && c.Fld["mask_"+key] == 1 {
			v := uint64(c.S[l.C]) | uint64(c.S[l.C+1])<<32
			v = permBits(v)
			t.S[l.C] = uint32(v)
			t.S[l.C+1] = uint32(v >> 32)
		}
	}
	t.Fld = map[string]int{}
	for k, v := range c.Fld {
		t.Fld[k] = v
	}
	t.Fld["permbg"] = 1
	for r, vs := range c.V {
		nv := make([]uint32, nLane)
		for l := 0; l < nLane; l++ {
			nv[l] = vs[perm[l]]
		}
		t.V[r] = nv
	}
	return &t
}

func f32(v float32) uint32 { return math.Float32bits(v) }
