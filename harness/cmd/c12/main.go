// c12 executes the driver's host-thread protocol (real driver.Driver, real
// CommandQueue / DrainCommandQueue / runAsync / runEngine) under the controlled
// scheduler and logs one line per granted step with the projected state, for
// CmdQueueTrace.tla.
package main

import (
	"bufio"
	"encoding/json"
	"flag"
	"fmt"
	"math/rand"
	"os"
	"strings"
	"sync"

	"github.com/sarchlab/akita/v4/mem/mem"
	"github.com/sarchlab/akita/v4/mem/vm"
	"github.com/sarchlab/akita/v4/sim"
	"github.com/sarchlab/mgpusim/v4/amd/driver"
	"github.com/sarchlab/mgpusim/v4/amd/protocol"

	ab "verifharness/akitabench"
	"verifharness/sched"
)

// Scenario describes one controlled execution.
type Scenario struct {
	NA       int      `json:"na"`
	Rounds   int      `json:"rounds"`
	PerRound int      `json:"per_round"`
	Mode     string   `json:"mode"`     // schedule | random | hold
	Schedule []string `json:"schedule"` // thread names (schedule mode)
	Hold     []string `json:"hold"`     // "kind@point" entries granted only when nothing else can run
	Reverse  bool     `json:"reverse"`  // tie-break order
	Seed     int64    `json:"seed"`
	Temp     []int    `json:"temp"`     // application threads (1-based) that use the blocking API (a fresh queue per round) in one shared context
	Drainers []int    `json:"drainers"` // application threads (1-based) that own no queue and only drain the queue of thread 1
	Two      []int    `json:"two"`      // application threads (1-based) whose commands are two-phase memory copies answered by a stub GPU
}

type runner struct {
	rec    *ab.Recorder
	S      *sched.Sched
	eng    *sched.Engine
	d      *driver.Driver
	queues []*driver.CommandQueue // newest queue of each application thread (nil before its first creation)
	omu    sync.Mutex             // guards owner, queues, nq: the yield hook runs on every instrumented goroutine
	owner  map[*driver.CommandQueue]int
	nq     int
	// stub GPU (two-phase commands)
	gpuPort  sim.Port
	gpuSends int             // requests the driver put into its GPU port
	gpuTaken int             // requests the stub GPU took out of it
	atGPU    map[int]sim.Msg // application thread -> request the GPU owes an answer for
	atOrder  []int
	gpuIn    int            // responses delivered and not yet read by the driver
	reqOwner map[string]int // request id -> application thread
	sc       Scenario
	rng      *rand.Rand
	rr       int
}

func kindOf(name string) string {
	switch {
	case strings.HasPrefix(name, "app"):
		return "app"
	case strings.HasPrefix(name, "eng"):
		return "eng"
	}
	return name
}

// qKey identifies a queue for the trace: 10*owner + (1 if it is the owner's newest queue).
func (r *runner) qKey(q *driver.CommandQueue) int {
	if q == nil {
		return 0
	}
	r.omu.Lock()
	defer r.omu.Unlock()
	o, ok := r.owner[q]
	if !ok {
		return 0
	}
	live := 0
	if r.queues[o-1] == q {
		live = 1
	}
	return 10*o + live
}

func (r *runner) isDrainer(a int) bool {
	for _, t := range r.sc.Drainers {
		if t == a {
			return true
		}
	}
	return false
}

func (r *runner) isTwo(a int) bool {
	for _, t := range r.sc.Two {
		if t == a {
			return true
		}
	}
	return false
}

func (r *runner) gpuBusy() bool { return r.gpuSends > r.gpuTaken || len(r.atGPU) > 0 }

// gpuChoices lists the steps the stub GPU can take now, as pseudo threads named "gpu". The GPU is part of the
// simulated world: it only acts between two events of the engine (pauseLock free).
func (r *runner) gpuChoices() []*sched.Thread {
	if r.gpuPort == nil || !r.eng.PauseFree() {
		return nil
	}
	var out []*sched.Thread
	if r.gpuSends > r.gpuTaken {
		out = append(out, &sched.Thread{Name: "gpu", State: sched.Parked, Point: "take"})
	}
	for _, a := range r.atOrder {
		out = append(out, &sched.Thread{Name: "gpu", State: sched.Parked, Point: "answer", Key: a})
	}
	return out
}

// gpuStep performs one step of the stub GPU and returns the application thread it concerns.
func (r *runner) gpuStep(t *sched.Thread) int {
	switch t.Point {
	case "take":
		msg := r.gpuPort.RetrieveOutgoing()
		if msg == nil {
			panic("stub GPU: nothing to take")
		}
		r.gpuTaken++
		owner := 0
		if req, ok := msg.(*protocol.MemCopyH2DReq); ok && len(req.SrcBuffer) > 0 {
			owner = int(req.SrcBuffer[0])
		}
		// a second request of the same owner while one is outstanding gets a distinct key so that it is visible
		for {
			if _, dup := r.atGPU[owner]; !dup {
				break
			}
			owner += 100
		}
		r.atGPU[owner] = msg
		r.atOrder = append(r.atOrder, owner)
		return owner
	case "answer":
		a := t.Key.(int)
		req := r.atGPU[a]
		delete(r.atGPU, a)
		for i, x := range r.atOrder {
			if x == a {
				r.atOrder = append(r.atOrder[:i:i], r.atOrder[i+1:]...)
				break
			}
		}
		rsp := sim.GeneralRspBuilder{}.WithSrc(req.Meta().Dst).WithDst(r.gpuPort.AsRemote()).WithOriginalReq(req).Build()
		if r.gpuPort.Deliver(rsp) != nil {
			panic("stub GPU: driver port refused the response")
		}
		r.gpuIn++
		return a
	}
	panic("unknown gpu step")
}

func (r *runner) isTemp(a int) bool {
	for _, t := range r.sc.Temp {
		if t == a {
			return true
		}
	}
	return false
}

func (r *runner) enabled(t *sched.Thread) bool {
	if t.State != sched.Parked {
		return false
	}
	switch t.Point {
	case "pause", "lockpause":
		return r.eng.PauseFree()
	case "acquire":
		for _, o := range r.S.Threads() {
			if o != t && kindOf(o.Name) == "eng" && o.State != sched.Gone && o.Point != "acquire" {
				return false
			}
		}
		return true
	case "returned":
		return false
	case "loop":
		// while the stub GPU owes an answer the real event queue would hold the GPU's own events
		return r.eng.PendingEvents() > 0 || !r.gpuBusy()
	}
	return true
}

func pcOf(t *sched.Thread) string {
	switch t.State {
	case sched.Parked:
		return t.Point
	case sched.Blocked:
		switch t.Point {
		case "signal":
			return "sending"
		case "wait":
			return "parked"
		case "select":
			return "inselect"
		case "create":
			return "creating"
		}
		return "blocked_" + t.Point
	case sched.Gone:
		return "gone"
	}
	return "running_" + t.Point
}

func (r *runner) projection() ab.Rec {
	apc := make([]string, r.sc.NA)
	for i := range apc {
		apc[i] = "unknown"
	}
	rpc := "none"
	epc := []string{}
	eq := 0
	var eqQueue *driver.CommandQueue
	for _, t := range r.S.Threads() {
		switch kindOf(t.Name) {
		case "app":
			var idx int
			fmt.Sscanf(t.Name, "app%d", &idx)
			if t.State == sched.Gone {
				apc[idx-1] = "returned"
			} else {
				apc[idx-1] = pcOf(t)
			}
		case "ra":
			rpc = pcOf(t)
		case "eng":
			if t.State == sched.Gone {
				continue
			}
			epc = append(epc, pcOf(t))
			if q, ok := t.Key.(*driver.CommandQueue); ok && (t.Point == "scan" || t.Point == "deq" || t.Point == "deqNotify") {
				eqQueue = q
			}
		}
	}
	lens := make([]int, len(r.queues))
	for i, q := range r.queues {
		if q != nil {
			lens[i] = q.NumCommand()
		}
	}
	eq = r.qKey(eqQueue)
	isrun := make([]bool, len(r.queues))
	for i, q := range r.queues {
		if q != nil {
			isrun[i] = q.IsRunning
		}
	}
	at := append([]int{}, r.atOrder...)
	return ab.Rec{"apc": apc, "rpc": rpc, "epc": epc, "eqa": eq / 10, "eql": eq%10 == 1, "nq": r.nq, "len": lens,
		"isrun": isrun, "gout": r.gpuSends - r.gpuTaken, "gat": at, "gin": r.gpuIn,
		"run": r.d.VerifEngineRunning(), "ev": r.eng.PendingEvents()}
}

func (r *runner) allReturned() bool {
	n := 0
	for _, t := range r.S.Threads() {
		if kindOf(t.Name) == "app" && (t.State == sched.Gone || (t.State == sched.Parked && t.Point == "returned")) {
			n++
		}
	}
	return n == r.sc.NA
}

func (r *runner) held(t *sched.Thread) bool {
	key := kindOf(t.Name) + "@" + t.Point
	for _, h := range r.sc.Hold {
		if h == key || h == t.Name+"@"+t.Point {
			return true
		}
	}
	return false
}

// pick chooses the next thread to grant among the enabled ones.
func (r *runner) pick(en []*sched.Thread, step int) *sched.Thread {
	switch r.sc.Mode {
	case "random":
		return en[r.rng.Intn(len(en))]
	case "schedule":
		for r.rr < len(r.sc.Schedule) {
			want := r.sc.Schedule[r.rr]
			r.rr++
			for _, t := range en {
				if t.Name == want || kindOf(t.Name) == want {
					return t
				}
			}
		}
		return en[step%len(en)]
	default: // hold
		var free []*sched.Thread
		for _, t := range en {
			if !r.held(t) {
				free = append(free, t)
			}
		}
		if len(free) == 0 {
			free = en
		}
		if r.sc.Reverse {
			return free[len(free)-1]
		}
		return free[0]
	}
}

func runScenario(rec *ab.Recorder, sc Scenario) (hang bool, steps int, err error) {
	r := &runner{rec: rec, sc: sc, rng: rand.New(rand.NewSource(sc.Seed))}
	r.S = sched.New()
	r.S.Classify = func(stack string) string {
		if i := strings.Index(stack, "created by "); i >= 0 {
			stack = stack[:i]
		}
		switch {
		case strings.Contains(stack, "(*Driver).runEngine"), strings.Contains(stack, "(*Driver).runAsync.gowrap"):
			// the engine goroutine (before it starts running it only shows the `go` wrapper of runAsync)
			return "eng#"
		case strings.Contains(stack, "(*Driver).runAsync("), strings.Contains(stack, "(*Driver).Run.gowrap"):
			return "ra"
		}
		return ""
	}
	r.eng = sched.NewEngine(r.S)
	b := driver.MakeBuilder().WithEngine(r.eng).WithLog2PageSize(12).WithPageTable(vm.NewPageTable(12)).
		WithGlobalStorage(mem.NewStorage(8 << 30))
	if len(sc.Two) == 0 {
		b = b.WithMagicMemoryCopyMiddleware()
	}
	r.d = b.Build("Driver")
	r.atGPU = map[int]sim.Msg{}
	if len(sc.Two) > 0 {
		// two-phase commands: copies go through the DMA-path middleware to a stub GPU played by the harness
		r.gpuPort = r.d.GetPortByName("GPU")
		conn := ab.NewConn("StubConn")
		conn.PlugIn(r.gpuPort)
		conn.PlugIn(r.d.GetPortByName("MMU"))
		r.gpuPort.AcceptHook(ab.HookFn(func(ctx sim.HookCtx) {
			switch ctx.Pos {
			case sim.HookPosPortMsgSend:
				r.gpuSends++
			case sim.HookPosPortMsgRetrieveIncoming:
				r.gpuIn--
			}
		}))
		r.d.RegisterGPU(sim.NewPort(nil, 1, 1, "StubGPU.ToDriver"), driver.DeviceProperties{CUCount: 4, DRAMSize: 1 << 30})
	}
	r.owner = map[*driver.CommandQueue]int{}
	r.queues = make([]*driver.CommandQueue, sc.NA)
	var shared *driver.Context
	ptrs := make([]driver.Ptr, sc.NA)
	if len(sc.Temp) > 0 {
		// blocking-API threads: one shared context, a registered (stub) GPU so that memory can be allocated
		r.d.RegisterGPU(sim.NewPort(nil, 1, 1, "StubGPU.ToDriver"), driver.DeviceProperties{CUCount: 4, DRAMSize: 1 << 30})
		shared = r.d.Init()
	}
	for a := 0; a < sc.NA; a++ {
		ctx := shared
		if ctx == nil {
			ctx = r.d.Init()
		}
		if r.isTemp(a + 1) {
			ptrs[a] = r.d.AllocateMemory(ctx, 64)
			continue
		}
		if r.isDrainer(a + 1) {
			continue
		}
		if r.isTwo(a + 1) {
			ptrs[a] = r.d.AllocateMemory(ctx, 64)
		}
		q := r.d.CreateCommandQueue(ctx)
		r.queues[a] = q
		r.owner[q] = a + 1
		r.nq++
	}
	temp := append([]int{}, sc.Temp...)
	two := append([]int{}, sc.Two...)
	drainers := append([]int{}, sc.Drainers...)
	rec.Emit("Reset", ab.Rec{"na": sc.NA, "rounds": sc.Rounds, "per_round": sc.PerRound, "temp": temp, "two": two, "drainers": drainers})
	driver.VerifYield = func(point string, q *driver.CommandQueue) {
		if q != nil {
			r.omu.Lock()
			if _, ok := r.owner[q]; !ok {
				// a queue created inside a blocking API call: first seen when its creator enqueues
				var idx int
				if n, _ := fmt.Sscanf(r.S.NameOf(sched.GID()), "app%d", &idx); n == 1 {
					r.owner[q] = idx
					r.queues[idx-1] = q
					r.nq++
				}
			}
			r.omu.Unlock()
		}
		r.S.Yield(point, q)
	}
	defer func() { driver.VerifYield = nil }()
	r.d.Run()
	for a := 0; a < sc.NA; a++ {
		a := a
		go func() {
			r.S.RegisterSelf(fmt.Sprintf("app%d", a+1))
			q := r.queues[a]
			n := 0
			for rd := 0; rd < sc.Rounds; rd++ {
				if r.isDrainer(a + 1) {
					// a second thread waiting for the queue of thread 1
					r.d.DrainCommandQueue(r.queues[0])
					continue
				}
				if r.isTemp(a + 1) {
					// blocking API style: CreateCommandQueue; Enqueue; DrainCommandQueue inside MemCopyH2D
					r.S.Yield("create", nil)
					r.d.MemCopyH2D(shared, ptrs[a], []byte{byte(rd), byte(a), 3, 4})
					continue
				}
				for k := 0; k < sc.PerRound; k++ {
					n++
					if r.isTwo(a + 1) {
						// the first byte names the owner so that the stub GPU can tell the requests apart
						r.d.EnqueueMemCopyH2D(q, ptrs[a], []byte{byte(a + 1), byte(n), 0, 0})
						continue
					}
					r.d.Enqueue(q, &driver.NoopCommand{ID: fmt.Sprintf("a%d-%d", a+1, n)})
				}
				r.d.DrainCommandQueue(q)
			}
			r.S.Yield("returned", nil)
		}()
	}
	names := []string{"ra"}
	for a := 0; a < sc.NA; a++ {
		names = append(names, fmt.Sprintf("app%d", a+1))
	}
	if err = r.S.WaitFor(names...); err != nil {
		return
	}
	rec.Emit("Start", r.projection())
	maxSteps := 400 + 200*sc.NA*sc.Rounds*(sc.PerRound+1)
	for steps = 0; steps < maxSteps; steps++ {
		if r.allReturned() {
			break
		}
		var en []*sched.Thread
		for _, t := range r.S.Threads() {
			if r.enabled(t) {
				en = append(en, t)
			}
		}
		en = append(en, r.gpuChoices()...)
		if len(en) == 0 {
			p := r.projection()
			blocked := []string{}
			for _, t := range r.S.Threads() {
				if t.State == sched.Blocked {
					blocked = append(blocked, t.Name+":"+pcOf(t)+":"+t.BlkOn)
				}
			}
			p["blocked"] = blocked
			rec.Emit("Hang", p)
			r.S.Dead = true
			return true, steps, nil
		}
		t := r.pick(en, steps)
		name, from := t.Name, t.Point
		kq, _ := t.Key.(*driver.CommandQueue)
		key := r.qKey(kq) / 10
		if name == "gpu" {
			key = r.gpuStep(t)
			if err = r.S.Settle(); err != nil {
				return
			}
		} else if err = r.S.Grant(t); err != nil {
			return
		}
		r.S.Forget()
		p := r.projection()
		p["t"], p["from"], p["q"] = kindOf(name), from, key
		if kindOf(name) == "app" {
			var idx int
			fmt.Sscanf(name, "app%d", &idx)
			p["a"] = idx
		}
		if name == "gpu" {
			p["a"] = key
		}
		rec.Emit("Step", p)
	}
	if !r.allReturned() {
		rec.Emit("Livelock", r.projection())
		r.S.Dead = true
		return true, steps, nil
	}
	rec.Emit("Done", r.projection())
	// ---- orderly shutdown so nothing leaks into the next scenario
	for _, t := range r.S.Threads() {
		if kindOf(t.Name) == "app" && t.State == sched.Parked && t.Point == "returned" {
			if err = r.S.Grant(t); err != nil {
				return
			}
		}
	}
	for i := 0; i < 400; i++ {
		r.S.Forget()
		var en []*sched.Thread
		raIn := false
		engAlive := false
		for _, t := range r.S.Threads() {
			if kindOf(t.Name) == "eng" && t.State != sched.Gone {
				engAlive = true
			}
			if t.Name == "ra" && t.State == sched.Blocked && t.Point == "select" {
				raIn = true
			}
			if r.enabled(t) {
				en = append(en, t)
			}
		}
		if raIn && !engAlive {
			break
		}
		if len(en) == 0 {
			break
		}
		if err = r.S.Grant(en[0]); err != nil {
			return
		}
	}
	r.d.Terminate()
	err = r.S.Settle()
	return false, steps, err
}

func main() {
	scen := flag.String("scen", "", "scenario file (JSON list)")
	out := flag.String("out", "trace.ndjson", "trace output")
	flag.Parse()
	data, err := os.ReadFile(*scen)
	if err != nil {
		panic(err)
	}
	var scs []Scenario
	if err := json.Unmarshal(data, &scs); err != nil {
		panic(err)
	}
	f, err := os.Create(*out)
	if err != nil {
		panic(err)
	}
	w := bufio.NewWriter(f)
	rec := ab.NewRecorder(w)
	hangs, steps := 0, 0
	hangAt := []int{}
	for i, sc := range scs {
		h, n, err := runScenario(rec, sc)
		if os.Getenv("C12_DEBUG") != "" {
			fmt.Fprintf(os.Stderr, "scenario %d hold=%v rev=%v hang=%v steps=%d\n", i, sc.Hold, sc.Reverse, h, n)
		}
		if err != nil {
			w.Flush()
			fmt.Fprintln(os.Stderr, "infrastructure:", err)
			os.Exit(3)
		}
		steps += n
		if h {
			hangs++
			hangAt = append(hangAt, i)
		}
	}
	w.Flush()
	f.Close()
	js, _ := json.Marshal(map[string]interface{}{"traces": len(scs), "events": rec.Seq, "steps": steps, "hangs": hangs, "hang_scenarios": hangAt})
	fmt.Println(string(js))
}
