// c04 drives the real insts.Disassembler.Decode (and InstPrinter.Print) on
// spec-encoded programs, seeded random / mutated / truncated words and every
// shipped .hsaco kernel, and writes one ndjson line per Decode call for
// spec/decode/DecodeTrace.tla.
//
// The driver is no oracle: it only canonicalises what the real decoder
// returned (or how it failed).  Every judgement is made by the trace spec.
package main

import (
	"bufio"
	"debug/elf"
	"encoding/json"
	"flag"
	"fmt"
	"io"
	"log"
	"math"
	"math/rand"
	"os"
	"path/filepath"
	"sort"
	"strings"

	"github.com/sarchlab/mgpusim/v4/amd/insts"
)

// ---------------------------------------------------------------- canonical form

// ISA operand codes of the non-SGPR/VGPR registers (GCN3 ISA manual, table
// "scalar operands"), written here independently of insts.getOperand.
var regCode = map[insts.RegType]int{
	insts.FlatSratchLo: 102, insts.FlatSratchHi: 103,
	insts.XnackMaskLo: 104, insts.XnackMaskHi: 105,
	insts.VCCLO: 106, insts.VCCHI: 107,
	insts.TbaLo: 108, insts.TbaHi: 109, insts.TmaLo: 110, insts.TmaHi: 111,
	insts.Timp0: 112, insts.Timp1: 113, insts.Timp2: 114, insts.Timp3: 115,
	insts.Timp4: 116, insts.Timp5: 117, insts.Timp6: 118, insts.Timp7: 119,
	insts.Timp8: 120, insts.Timp9: 121, insts.Timp10: 122, insts.Timp11: 123,
	insts.M0: 124, insts.EXECLO: 126, insts.EXECHI: 127,
	insts.VCCZ: 251, insts.EXECZ: 252, insts.SCC: 253,
}

var floatCode = map[float64]int{
	0.5: 240, -0.5: 241, 1.0: 242, -1.0: 243, 2.0: 244, -2.0: 245, 4.0: 246, -4.0: 247,
	1.0 / (2.0 * math.Pi): 248,
}

var exeUnit = map[insts.ExeUnit]string{
	insts.ExeUnitVALU: "valu", insts.ExeUnitScalar: "scalar", insts.ExeUnitVMem: "vmem",
	insts.ExeUnitBranch: "branch", insts.ExeUnitLDS: "lds", insts.ExeUnitGDS: "gds",
	insts.ExeUnitSpecial: "special",
}

var selIdx = map[insts.SDWASelect]int{
	0: -1, insts.SDWASelectByte0: 0, insts.SDWASelectByte1: 1, insts.SDWASelectByte2: 2,
	insts.SDWASelectByte3: 3, insts.SDWASelectWord0: 4, insts.SDWASelectWord1: 5, insts.SDWASelectDWord: 6,
}

func b2i(b bool) int {
	if b {
		return 1
	}
	return 0
}

// opnd: <<kind, a, b, c>> with kind a string and a, b, c integers; the width
// (RegCount, 0 counted as 1) is logged for constants and literals too.
func opnd(o *insts.Operand) []any {
	if o == nil {
		return []any{"none", 0, 0, 0}
	}
	w := o.RegCount
	if w < 1 {
		w = 1
	}
	switch o.OperandType {
	case insts.RegOperand:
		r := o.Register
		if r == nil {
			return []any{"nilreg", 0, w, 0}
		}
		if r.IsSReg() {
			return []any{"reg", r.RegIndex(), w, 0}
		}
		if r.IsVReg() {
			return []any{"reg", 256 + r.RegIndex(), w, 0}
		}
		if c, ok := regCode[r.RegType]; ok {
			return []any{"reg", c, w, 0}
		}
		return []any{"reg", 1000 + int(r.RegType), w, 0}
	case insts.IntOperand:
		v := o.IntValue
		if v > 1<<30 || v < -(1<<30) {
			return []any{"bad", 1, 0, 0}
		}
		return []any{"int", int(v), w, 0}
	case insts.FloatOperand:
		c, ok := floatCode[o.FloatValue]
		if !ok {
			c = -1
		}
		return []any{"float", c, w, 0}
	case insts.LiteralConstant:
		return []any{"lit", int(o.LiteralConstant >> 16), int(o.LiteralConstant & 0xffff), w}
	}
	return []any{"bad", int(o.OperandType), 0, 0}
}

var printer = insts.NewInstPrinter(nil)

func safePrint(i *insts.Inst) (s string, ok bool) {
	defer func() {
		if r := recover(); r != nil {
			s, ok = fmt.Sprint(r), false
		}
	}()
	return printer.Print(i), true
}

// describe canonicalises a decoded instruction; field order is shared with Decode.tla.
func describe(i *insts.Inst) map[string]any {
	sel := func(s insts.SDWASelect) int {
		if v, ok := selIdx[s]; ok {
			return v
		}
		return -2
	}
	f, nm, eu, op := "?", "?", "?", -1
	if i.Format != nil {
		f = i.FormatName
	}
	if i.InstType != nil {
		nm, op = i.InstName, int(i.Opcode)
		eu = exeUnit[i.ExeUnit]
	}
	m := []int{
		i.Abs, i.Omod, i.Neg, i.OpSel, i.OpSelHi,
		int(i.Offset0 >> 16), int(i.Offset0 & 0xffff), int(i.Offset1 >> 16), int(i.Offset1 & 0xffff),
		b2i(i.SystemLevelCoherent), b2i(i.GlobalLevelCoherent), b2i(i.TextureFailEnable),
		b2i(i.Imm), b2i(i.Clamp), b2i(i.GDS), i.VMCNT, i.LKGMCNT,
		b2i(i.IsSdwa), sel(i.DstSel), int(i.DstUnused), sel(i.Src0Sel), sel(i.Src1Sel),
		b2i(i.Src0Sext), b2i(i.Src0Neg), b2i(i.Src0Abs),
		b2i(i.Src1Sext), b2i(i.Src1Neg), b2i(i.Src1Abs), b2i(i.Src2Neg), b2i(i.Src2Abs),
	}
	o := [][]any{opnd(i.Src0), opnd(i.Src1), opnd(i.Src2), opnd(i.Dst), opnd(i.SDst),
		opnd(i.Addr), opnd(i.Data), opnd(i.Data1), opnd(i.Base), opnd(i.Offset), opnd(i.SImm16), opnd(i.SAddr)}
	ps, pok := safePrint(i)
	return map[string]any{"k": "inst", "f": f, "op": op, "nm": nm, "eu": eu, "sz": i.ByteSize,
		"o": o, "m": m, "pr": b2i(pok), "ps": ps}
}

func short(s string) string {
	if len(s) > 100 {
		return s[:100]
	}
	return s
}

// decode calls the real decoder on a private copy of buf (len == cap, so that an
// over-read cannot silently succeed) and canonicalises the outcome.
func decode(d *insts.Disassembler, buf []byte) map[string]any {
	res, _ := decodeKeep(d, buf)
	return res
}

// decodeKeep also hands out the *insts.Inst the decoder returned, so that it can be
// inspected again after later Decode calls (a returned instruction must never change).
func decodeKeep(d *insts.Disassembler, buf []byte) (res map[string]any, kept *insts.Inst) {
	b := make([]byte, len(buf))
	copy(b, buf)
	defer func() {
		if r := recover(); r != nil {
			msg := fmt.Sprint(r)
			pk := "other"
			switch {
			case strings.Contains(msg, "not implemented"):
				pk = "notimpl"
			case strings.Contains(msg, "nil pointer"):
				pk = "nil"
			case strings.Contains(msg, "out of range"):
				pk = "bounds"
			}
			res = map[string]any{"k": "panic", "pk": pk, "msg": short(msg)}
		}
	}()
	inst, err := d.Decode(b)
	if err != nil {
		if inst != nil {
			return map[string]any{"k": "both", "msg": short(err.Error())}, nil
		}
		return map[string]any{"k": "err", "msg": short(err.Error())}, nil
	}
	if inst == nil {
		return map[string]any{"k": "nilinst"}, nil
	}
	return describe(inst), inst
}

// redescribe canonicalises an instruction that was returned earlier.
func redescribe(i *insts.Inst) (res map[string]any) {
	defer func() {
		if r := recover(); r != nil {
			res = map[string]any{"k": "panic", "pk": "other", "msg": short(fmt.Sprint(r))}
		}
	}()
	return describe(i)
}

type held struct {
	c     int
	buf   []byte
	inst  *insts.Inst
	first string
}

func canon(x any) string {
	js, _ := json.Marshal(x)
	return string(js)
}

// ------------------------------------------------------------------- recorder

type recorder struct {
	w     *bufio.Writer
	seq   int
	stats map[string]int
	// decoder pools: independent instances per mode, rotated; a fresh one now and then
	pool  [2][]*insts.Disassembler
	calls int
	rng   *rand.Rand
	group int
	gsize int
	ring  []held
}

func newDis(cdna3 bool) *insts.Disassembler {
	d := insts.NewDisassembler()
	d.IsCDNA3 = cdna3
	return d
}

func newRecorder(w *bufio.Writer, rng *rand.Rand) *recorder {
	r := &recorder{w: w, stats: map[string]int{}, rng: rng, gsize: 64}
	for m := 0; m < 2; m++ {
		for k := 0; k < 3; k++ {
			r.pool[m] = append(r.pool[m], newDis(m == 1))
		}
	}
	return r
}

func (r *recorder) emit(rec map[string]any) {
	r.seq++
	rec["seq"] = r.seq
	js, err := json.Marshal(rec)
	if err != nil {
		panic(err)
	}
	r.w.Write(js)
	r.w.WriteByte('\n')
	r.stats["events"]++
}

func (r *recorder) reset() {
	r.emit(map[string]any{"e": "Reset"})
	r.group = 0
	r.stats["traces"]++
}

func ints(b []byte) []int {
	o := make([]int, len(b))
	for i, x := range b {
		o[i] = int(x)
	}
	return o
}

// two picks two different decoder instances of the mode (one of them is
// replaced by a brand-new instance every 257 calls).
func (r *recorder) two(c int) (*insts.Disassembler, *insts.Disassembler) {
	r.calls++
	p := r.pool[c]
	if r.calls%257 == 0 {
		p[r.calls/257%len(p)] = newDis(c == 1)
	}
	a := r.calls % len(p)
	return p[a], p[(a+1)%len(p)]
}

// observe decodes buf with two independent decoder instances and returns the
// result of the first together with the agreement flag.
func (r *recorder) observe(c int, buf []byte) (map[string]any, int) {
	a, b := r.two(c)
	ra, kept := decodeKeep(a, buf)
	rb := decode(b, buf)
	if kept != nil {
		h := held{c, append([]byte{}, buf...), kept, canon(ra)}
		if len(r.ring) < 64 {
			r.ring = append(r.ring, h)
		} else {
			r.ring[r.rng.Intn(len(r.ring))] = h
		}
	}
	ag := b2i(canon(ra) == canon(rb))
	r.stats["decodes"] += 2
	r.stats["k_"+ra["k"].(string)]++
	return ra, ag
}

// word records one stand-alone Decode call, plus the suffix-independence probe
// when an instruction came back.
func (r *recorder) word(c int, buf []byte, want any, tag string) {
	if r.group >= r.gsize {
		r.reset()
	}
	r.group++
	res, ag := r.observe(c, buf)
	rec := map[string]any{"e": "Dec", "c": c, "b": ints(buf), "r": res, "ag": ag, "t": tag}
	if want != nil {
		rec["want"] = want
	}
	if res["k"] == "inst" {
		sz := res["sz"].(int)
		sx := 1
		if sz <= len(buf) && sz >= 0 {
			exact := decode(r.pool[c][0], buf[:sz])
			junk := make([]byte, sz+1+r.rng.Intn(8))
			copy(junk, buf[:sz])
			for i := sz; i < len(junk); i++ {
				junk[i] = byte(r.rng.Intn(256))
			}
			ext := decode(r.pool[c][1], junk)
			if canon(exact) != canon(res) || canon(ext) != canon(res) {
				sx = 0
				rec["sxd"] = []any{exact, ext, ints(junk)}
			}
			r.stats["decodes"] += 2
		} else {
			sx = 0 // reported size exceeds the buffer the decoder was given
		}
		rec["sx"] = sx
	}
	r.emit(rec)
}

// dec emits one stand-alone line without further probing.
func (r *recorder) dec(c int, buf []byte, res map[string]any, ag int, want any, tag string) {
	if r.group >= r.gsize {
		r.reset()
	}
	r.group++
	rec := map[string]any{"e": "Dec", "c": c, "b": ints(buf), "r": res, "ag": ag, "t": tag}
	if want != nil {
		rec["want"] = want
	}
	r.stats["k_"+res["k"].(string)]++
	r.emit(rec)
}

// reread looks again at an instruction that some earlier Decode call returned: it must
// still be what it was (ag) - and, judged by the trace spec, what Decode(bytes) is.
func (r *recorder) reread(h held, want any, tag string) {
	now := redescribe(h.inst)
	r.dec(h.c, h.buf, now, b2i(canon(now) == h.first), want, tag)
	r.stats["rereads"]++
}

// history: decoding must not depend on what was decoded before, on this or on any other
// decoder instance, and later decodes must not change instructions already returned.
// a uses a constant as a 64-bit operand, b uses the same constant as a 32-bit operand
// (spec-enumerated pair with descriptions wa, wb).
func (r *recorder) history(c int, a, b []byte, wa, wb any, swap bool) {
	if swap {
		a, b, wa, wb = b, a, wb, wa
	}
	d1, d2 := r.two(c)
	keep := func(d *insts.Disassembler, buf []byte, want any, tag string) *held {
		res, inst := decodeKeep(d, buf)
		r.dec(c, buf, res, 1, want, tag)
		r.stats["decodes"]++
		if inst == nil {
			return nil
		}
		return &held{c, buf, inst, canon(res)}
	}
	again := func(h *held, want any, tag string) {
		if h != nil {
			r.reread(*h, want, tag)
		}
	}
	ha := keep(d1, a, wa, "hist/first")
	hb := keep(d1, b, wb, "hist/second")
	again(ha, wa, "hist/first-reread")
	again(hb, wb, "hist/second-reread")
	hb2 := keep(d2, b, wb, "hist/second-other-instance")
	ha2 := keep(d2, a, wa, "hist/first-other-instance")
	again(ha, wa, "hist/first-reread2")
	again(hb, wb, "hist/second-reread2")
	again(hb2, wb, "hist/second-other-reread")
	again(ha2, wa, "hist/first-other-reread")
	fresh := newDis(c == 1)
	keep(fresh, b, wb, "hist/second-fresh-instance")
	keep(fresh, a, wa, "hist/first-fresh-instance")
	r.stats["hist_pairs"]++
}

// sequential decodes code from offset 0 like emu.ComputeUnit / Disassembler.Disassemble
// do: the decoder sees the rest of the code (at most win bytes), pc advances by ByteSize.
func (r *recorder) sequential(c int, code []byte, name string, wants []any, collect *[][]byte) bool {
	r.reset()
	r.emit(map[string]any{"e": "KStart", "c": c, "len": len(code), "name": name})
	pc, n := 0, 0
	for pc < len(code) {
		end := pc + 12
		if end > len(code) {
			end = len(code)
		}
		buf := code[pc:end]
		res, ag := r.observe(c, buf)
		rec := map[string]any{"e": "KDec", "pc": pc, "c": c, "b": ints(buf), "r": res, "ag": ag}
		if n < len(wants) {
			rec["want"] = wants[n]
		}
		r.emit(rec)
		n++
		if res["k"] != "inst" {
			r.stats["seq_aborted"]++
			return false
		}
		sz := res["sz"].(int)
		if sz <= 0 {
			return false
		}
		if collect != nil && sz <= len(buf) {
			*collect = append(*collect, append([]byte{}, buf[:sz]...))
		}
		pc += sz
	}
	r.emit(map[string]any{"e": "KEnd", "pc": pc, "n": n})
	// instructions returned while walking this (or an earlier) program must still be intact
	for k := 0; k < 6 && len(r.ring) > 0; k++ {
		r.reread(r.ring[r.rng.Intn(len(r.ring))], nil, "reread/seq")
	}
	r.stats["seq_done"]++
	r.stats["seq_insts"] += n
	return true
}

// ------------------------------------------------------------------ generators

type goldRow struct {
	f  string
	op int
}

type fmtInfo struct {
	enc      uint32
	lo, hi   uint
	size     int
	prefixHi uint // number of fixed high bits
}

// Encoding prefixes and opcode fields from the ISA manual (used only to aim the
// random generator at decodable words; never as an oracle).
var fmts = map[string]fmtInfo{
	"sop2": {0x80000000, 23, 29, 4, 2}, "sopk": {0xB0000000, 23, 27, 4, 4}, "sop1": {0xBE800000, 8, 15, 4, 9},
	"sopc": {0xBF000000, 16, 22, 4, 9}, "sopp": {0xBF800000, 16, 22, 4, 9}, "smem": {0xC0000000, 18, 25, 8, 6},
	"vop2": {0x00000000, 25, 30, 4, 1}, "vop1": {0x7E000000, 9, 16, 4, 7}, "vopc": {0x7C000000, 17, 24, 4, 7},
	"vop3a": {0xD0000000, 16, 25, 8, 6}, "vop3b": {0xD0000000, 16, 25, 8, 6}, "ds": {0xD8000000, 17, 24, 8, 6},
	"flat": {0xDC000000, 18, 24, 8, 6},
}

func loadGolden(path string) []goldRow {
	var rows []goldRow
	if path == "" {
		return rows
	}
	data, err := os.ReadFile(path)
	if err != nil {
		panic(err)
	}
	for _, line := range strings.Split(string(data), "\n") {
		if line == "" || strings.HasPrefix(line, "#") {
			continue
		}
		col := strings.Split(line, "\t")
		if len(col) < 3 {
			continue
		}
		var op int
		if _, err := fmt.Sscanf(col[1], "%d", &op); err == nil {
			if _, ok := fmts[col[0]]; ok {
				rows = append(rows, goldRow{col[0], op})
			}
		}
	}
	return rows
}

func le32(v uint32) []byte { return []byte{byte(v), byte(v >> 8), byte(v >> 16), byte(v >> 24)} }

// interesting operand codes: boundaries of every class of the operand-code map
var codes9 = []uint32{0, 1, 2, 50, 100, 101, 102, 103, 104, 105, 106, 107, 108, 111, 112, 122, 123, 124, 125, 126, 127,
	128, 129, 192, 193, 208, 209, 230, 239, 240, 241, 247, 248, 249, 250, 251, 252, 253, 254, 255, 256, 257, 300, 510, 511}

func pickCode(rng *rand.Rand, bits uint) uint32 {
	if rng.Intn(3) == 0 {
		return uint32(rng.Intn(1 << bits))
	}
	return codes9[rng.Intn(len(codes9))] & (1<<bits - 1)
}

// directed builds a word of a table row with operand fields drawn from the
// interesting codes, remaining bits random.
func directed(rng *rand.Rand, row goldRow) []byte {
	fi := fmts[row.f]
	w0 := rng.Uint32()
	w1 := rng.Uint32()
	w2 := rng.Uint32()
	put := func(w *uint32, lo, hi uint, v uint32) {
		mask := uint32((uint64(1)<<(hi-lo+1) - 1) << lo)
		*w = (*w &^ mask) | ((v << lo) & mask)
	}
	switch row.f {
	case "sop2", "sopc":
		put(&w0, 0, 7, pickCode(rng, 8))
		put(&w0, 8, 15, pickCode(rng, 8))
		put(&w0, 16, 22, pickCode(rng, 7))
	case "sop1", "sopk":
		put(&w0, 0, 7, pickCode(rng, 8))
		put(&w0, 16, 22, pickCode(rng, 7))
	case "vop1", "vop2", "vopc":
		put(&w0, 0, 8, pickCode(rng, 9))
		if rng.Intn(4) == 0 { // SDWA dword with few modifier bits
			w1 &= 0xC7C71FFF &^ (uint32(rng.Intn(2)) << 13)
			if rng.Intn(3) > 0 {
				w1 &^= 0x38382000
			}
		}
	case "smem":
		put(&w0, 6, 12, pickCode(rng, 7))
		if rng.Intn(2) == 0 {
			w1 &= 0x7f
		}
	case "vop3a", "vop3b":
		put(&w1, 0, 8, pickCode(rng, 9))
		put(&w1, 9, 17, pickCode(rng, 9))
		put(&w1, 18, 26, pickCode(rng, 9))
		put(&w0, 8, 14, pickCode(rng, 7))
	}
	put(&w0, fi.lo, fi.hi, uint32(row.op))
	put(&w0, 32-fi.prefixHi, 31, fi.enc>>(32-fi.prefixHi))
	out := append(le32(w0), le32(w1)...)
	return append(out, le32(w2)...)
}

// literalCorners decodes, for every table row of a format with two 8-bit scalar source fields
// (SOP2, SOPC), the words whose source fields refer to the literal dword in every combination
// (both, first only, second only): both fields share the one trailing dword, so the size is 8
// in all three. Deterministic - the random classes reach the (255, 255) combination too rarely.
func (r *recorder) literalCorners(rng *rand.Rand, gold []goldRow) {
	for _, row := range gold {
		if row.f != "sop2" && row.f != "sopc" {
			continue
		}
		fi := fmts[row.f]
		for _, pr := range [][2]uint32{{255, 255}, {255, 2}, {2, 255}, {255, 193}} {
			w0 := rng.Uint32()
			w0 = (w0 &^ 0xffff) | pr[0] | pr[1]<<8
			w0 = (w0 &^ (0x7f << 16)) | uint32(rng.Intn(100))<<16
			mask := uint32((uint64(1)<<(fi.hi-fi.lo+1) - 1) << fi.lo)
			w0 = (w0 &^ mask) | ((uint32(row.op) << fi.lo) & mask)
			pm := uint32((uint64(1)<<fi.prefixHi - 1) << (32 - fi.prefixHi))
			w0 = (w0 &^ pm) | (fi.enc & pm)
			buf := append(append(le32(w0), le32(rng.Uint32())...), le32(rng.Uint32())...)
			for c := 0; c < 2; c++ {
				r.word(c, buf, nil, "litpair")
				r.word(c, buf[:8], nil, "litpair/cut4")
			}
		}
	}
}

func (r *recorder) randomWords(rng *rand.Rand, n int, gold []goldRow, base [][]byte) {
	for i := 0; i < n; i++ {
		c := rng.Intn(2)
		var buf []byte
		tag := ""
		switch k := rng.Intn(10); {
		case k < 2 || (len(gold) == 0 && len(base) == 0): // uniform random dwords
			buf = append(append(le32(rng.Uint32()), le32(rng.Uint32())...), le32(rng.Uint32())...)
			tag = "uniform"
		case k < 6 && len(gold) > 0: // table-directed
			buf = directed(rng, gold[rng.Intn(len(gold))])
			tag = "directed"
		case len(base) > 0: // mutated valid encoding
			src := base[rng.Intn(len(base))]
			buf = append([]byte{}, src...)
			for f := 1 + rng.Intn(3); f > 0; f-- {
				bit := rng.Intn(len(buf) * 8)
				buf[bit/8] ^= 1 << (bit % 8)
			}
			for len(buf) < 12 {
				buf = append(buf, byte(rng.Intn(256)))
			}
			tag = "mutated"
		default:
			buf = directed(rng, gold[rng.Intn(len(gold))])
			tag = "directed"
		}
		// buffer length: usually generous, often cut at every possible place
		switch k := rng.Intn(8); {
		case k < 3:
			if rng.Intn(5) == 0 {
				buf = buf[:rng.Intn(4)] // shorter than one dword
			} else {
				buf = buf[:4+rng.Intn(len(buf)-3)]
			}
			tag += "/cut"
		case k < 5:
			buf = buf[:4*(1+rng.Intn(len(buf)/4))]
			tag += "/cut4"
		}
		r.word(c, buf, nil, tag)
		if i%4 == 3 && len(r.ring) > 0 {
			r.reread(r.ring[rng.Intn(len(r.ring))], nil, "reread")
		}
	}
}

// ---------------------------------------------------------------- shipped kernels

func kernelsOf(path string) (names []string, f *elf.File, err error) {
	f, err = elf.Open(path)
	if err != nil {
		return nil, nil, err
	}
	syms, err := f.Symbols()
	if err != nil {
		return nil, f, nil
	}
	for _, s := range syms {
		if s.Section == elf.SHN_UNDEF || int(s.Section) >= len(f.Sections) {
			continue
		}
		if f.Sections[s.Section].Name == ".text" && s.Size > 0 {
			names = append(names, s.Name)
		}
	}
	sort.Strings(names)
	return names, f, nil
}

func (r *recorder) kernels(root string, pick func(i int, name string) bool, collect *[][]byte) {
	var files []string
	filepath.Walk(root, func(p string, info os.FileInfo, err error) error {
		if err == nil && !info.IsDir() && strings.HasSuffix(p, ".hsaco") {
			files = append(files, p)
		}
		return nil
	})
	sort.Strings(files)
	k := 0
	for _, p := range files {
		names, f, err := kernelsOf(p)
		if err != nil {
			r.stats["hsaco_unreadable"]++
			continue
		}
		r.stats["hsaco_files"]++
		for _, nm := range names {
			k++
			rel, _ := filepath.Rel(root, p)
			if !pick(k, rel+":"+nm) {
				continue
			}
			co := insts.LoadKernelCodeObjectFromELF(f, nm)
			c := 0
			if co.Version == insts.CodeObjectV5 {
				c = 1
			}
			r.stats["kernels"]++
			r.stats["kernel_bytes"] += len(co.Data)
			r.sequential(c, co.Data, rel+":"+nm, nil, collect)
		}
		f.Close()
	}
}

// ------------------------------------------------------------------------ main

type scenario struct {
	C    int   `json:"c"`
	Code []int `json:"code"`
	Want []any `json:"want"`
	// stand-alone words (each decoded on its own)
	Words [][]int `json:"words"`
	// history pairs: {a, b, wa, wb}
	Pairs []pair `json:"pairs"`
}

type pair struct {
	A  []int `json:"a"`
	B  []int `json:"b"`
	WA any   `json:"wa"`
	WB any   `json:"wb"`
}

func toBytes(x []int) []byte {
	b := make([]byte, len(x))
	for i, v := range x {
		b[i] = byte(v)
	}
	return b
}

func main() {
	out := flag.String("out", "trace.ndjson", "trace output")
	scen := flag.String("scen", "", "scenario file: JSON list of {c, code, want} programs / {c, words}")
	gold := flag.String("golden", "", "golden opcode table (aims the random generator)")
	nrand := flag.Int("random", 0, "number of random/mutated/truncated words")
	seed := flag.Int64("seed", 1, "seed")
	kdir := flag.String("kernels", "", "root directory searched for .hsaco files")
	kmod := flag.Int("kmod", 1, "decode every kmod-th kernel (offset seed)")
	only := flag.String("only", "", "decode only the kernel of this name (file:symbol)")
	koff := flag.Int("koff", -1, "which residue class of kernels -kmod selects (default: seed)")
	flag.Parse()
	log.SetOutput(io.Discard)

	f, err := os.Create(*out)
	if err != nil {
		panic(err)
	}
	w := bufio.NewWriterSize(f, 1<<20)
	rng := rand.New(rand.NewSource(*seed))
	r := newRecorder(w, rng)
	var base [][]byte
	r.reset()

	if *scen != "" {
		data, err := os.ReadFile(*scen)
		if err != nil {
			panic(err)
		}
		var scs []scenario
		if err := json.Unmarshal(data, &scs); err != nil {
			panic(err)
		}
		for _, sc := range scs {
			if len(sc.Code) > 0 {
				r.sequential(sc.C, toBytes(sc.Code), "scenario", sc.Want, &base)
			}
			for i, wd := range sc.Words {
				var want any
				if i < len(sc.Want) && len(sc.Code) == 0 {
					want = sc.Want[i]
				}
				r.word(sc.C, toBytes(wd), want, "scen")
			}
			for i, p := range sc.Pairs {
				r.history(sc.C, toBytes(p.A), toBytes(p.B), p.WA, p.WB, i%2 == 1)
			}
		}
	}
	if *kdir != "" {
		off := int(*seed) % *kmod
		if *koff >= 0 {
			off = *koff % *kmod
		}
		r.kernels(*kdir, func(i int, name string) bool {
			if *only != "" {
				return name == *only
			}
			return i%*kmod == off
		}, &base)
	}
	if *nrand > 0 {
		if len(base) > 4000 {
			rng.Shuffle(len(base), func(i, j int) { base[i], base[j] = base[j], base[i] })
			base = base[:4000]
		}
		r.reset()
		r.literalCorners(rng, loadGolden(*gold))
		r.randomWords(rng, *nrand, loadGolden(*gold), base)
	}
	w.Flush()
	f.Close()
	js, _ := json.Marshal(r.stats)
	fmt.Println(string(js))
}
