package main

// The "dma" world: the real cp.CommandProcessor and cp.DMAEngine on the
// akitabench engine.  The harness plays the driver above, the memory below,
// the caches the command processor flushes, and carries the messages between
// the command processor and the DMA engine.

import (
	"fmt"
	"math/rand"
	"sort"

	"github.com/sarchlab/akita/v4/mem/cache"
	"github.com/sarchlab/akita/v4/mem/mem"
	"github.com/sarchlab/akita/v4/sim"
	"github.com/sarchlab/mgpusim/v4/amd/protocol"
	"github.com/sarchlab/mgpusim/v4/amd/timing/cp"

	ab "verifharness/akitabench"
)

// DStep is one environment step of a DMA scenario.
type DStep struct {
	A    string `json:"a"`
	K    string `json:"k,omitempty"`    // req: h2d | d2h | flush
	Addr int    `json:"addr,omitempty"` // req
	N    int    `json:"n,omitempty"`    // req / tick
	Seed int    `json:"seed,omitempty"` // req h2d: data
	I    int    `json:"i,omitempty"`    // memrsp / cacheack: which outstanding one (mod count)
	E    string `json:"e,omitempty"`    // await
}

// DScenario configures the components and lists environment steps.
type DScenario struct {
	Line   int     `json:"line"`   // log2 of the DMA access size
	Caches int     `json:"caches"` // caches the command processor flushes
	MSize  int     `json:"msize"`  // bytes of memory behind the DMA engine
	Seed   int64   `json:"seed"`
	Tag    string  `json:"tag,omitempty"`
	Steps  []DStep `json:"steps"`
}

type dworld struct {
	sc      *DScenario
	rec     *ab.Recorder
	stats   map[string]int
	eng     *ab.Engine
	cp      *cp.CommandProcessor
	dma     *cp.DMAEngine
	drv     sim.Port // stands for the driver's port (only its name is used)
	cyc     int
	memory  []byte
	owedM   []mem.AccessReq   // requests the memory has received and not answered
	owedC   []*cache.FlushReq // flushes the caches have received and not acknowledged
	count   map[string]int
	awaited map[string]int
	issued  int
	doneN   int
}

func (w *dworld) emit(e string, f ab.Rec) {
	w.count[e]++
	w.rec.Emit(e, f)
}

func newDWorld(sc *DScenario, rec *ab.Recorder, stats map[string]int) *dworld {
	w := &dworld{sc: sc, rec: rec, stats: stats, eng: ab.NewEngine(), count: map[string]int{}, awaited: map[string]int{}}
	if sc.Line == 0 {
		sc.Line = 6
	}
	if sc.MSize == 0 {
		sc.MSize = 4096
	}
	w.memory = make([]byte, sc.MSize)
	for i := range w.memory {
		w.memory[i] = byte(200 + i%50)
	}
	rec.ResetIDs()
	w.drv = sim.NewPort(nil, 1, 1, "Driver.ToGPUs")
	w.cp = cp.MakeBuilder().WithEngine(w.eng).WithFreq(1 * sim.GHz).Build("CP")
	w.cp.Driver = w.drv
	w.dma = cp.NewDMAEngine("DMA", w.eng, &mem.SinglePortMapper{Port: "Mem.Top"})
	w.dma.Log2AccessSize = uint64(sc.Line)
	w.cp.DMAEngine = w.dma.ToCP
	for i := 0; i < sc.Caches; i++ {
		w.cp.L2Caches = append(w.cp.L2Caches, sim.NewPort(nil, 1, 1, fmt.Sprintf("L2[%d].Control", i)))
	}
	conn := ab.NewConn("Conn")
	for _, n := range []string{"ToDriver", "ToDispatcher", "ToCUs", "ToTLBs", "ToRDMA", "ToPMC", "ToAddressTranslators", "ToCaches"} {
		conn.PlugIn(w.cp.GetPortByName(n))
	}
	conn.PlugIn(w.dma.ToCP)
	conn.PlugIn(w.dma.ToMem)
	w.hooks()
	w.emit("Reset", ab.Rec{"line": 1 << sc.Line, "caches": sc.Caches, "msize": sc.MSize, "tag": sc.Tag,
		"dmadst": "DMA.ToCP", "memdst": "Mem.Top"})
	return w
}

// dmaTap receives the port events of one command processor + DMA engine pair.
type dmaTap struct {
	emit   func(e string, f ab.Rec)
	id     func(space, msgID string) int // first-seen numbering
	known  func(space, msgID string) int // -1 if never seen
	addr   func(a uint64) int            // address as logged (rebased on the platforms)
	filter bool                          // ignore traffic that is not a copy or a flush (platform worlds)
}

func (t *dmaTap) copyFields(m sim.Msg) (string, int, int, []int) {
	switch r := m.(type) {
	case *protocol.MemCopyH2DReq:
		return "h2d", t.addr(r.DstAddress), len(r.SrcBuffer), ints(r.SrcBuffer)
	case *protocol.MemCopyD2HReq:
		return "d2h", t.addr(r.SrcAddress), len(r.DstBuffer), []int{}
	case *protocol.FlushReq:
		return "flush", 0, 0, []int{}
	}
	return fmt.Sprintf("other:%T", m), 0, 0, []int{}
}

func isCopyOrFlush(m sim.Msg) bool {
	switch m.(type) {
	case *protocol.MemCopyH2DReq, *protocol.MemCopyD2HReq, *protocol.FlushReq:
		return true
	}
	return false
}

func attachDMATap(c *cp.CommandProcessor, dma *cp.DMAEngine, t *dmaTap) {
	c.ToDriver.AcceptHook(ab.HookFn(func(ctx sim.HookCtx) {
		m, ok := ctx.Item.(sim.Msg)
		if !ok {
			return
		}
		switch ctx.Pos {
		case sim.HookPosPortMsgRecvd:
			if t.filter && !isCopyOrFlush(m) {
				return
			}
			k, a, n, d := t.copyFields(m)
			t.emit("DrvReq", ab.Rec{"id": t.id("drv", m.Meta().ID), "k": k, "a": a, "n": n, "d": d})
		case sim.HookPosPortMsgRetrieveIncoming:
			if t.filter && !isCopyOrFlush(m) {
				return
			}
			t.emit("CPTake", ab.Rec{"id": t.id("drv", m.Meta().ID)})
		case sim.HookPosPortMsgSend:
			if r, ok := m.(*sim.GeneralRsp); ok {
				if t.filter && !isCopyOrFlush(r.OriginalReq) {
					return
				}
				k, _, _, _ := t.copyFields(r.OriginalReq)
				d := []int{}
				if q, ok := r.OriginalReq.(*protocol.MemCopyD2HReq); ok {
					d = ints(q.DstBuffer)
				}
				t.emit("CPDone", ab.Rec{"id": t.known("drv", r.OriginalReq.Meta().ID), "k": k, "d": d,
					"dst": string(m.Meta().Dst)})
			} else if !t.filter {
				t.emit("CPOther", ab.Rec{"t": fmt.Sprintf("%T", m)})
			}
		}
	}))
	c.ToDMA.AcceptHook(ab.HookFn(func(ctx sim.HookCtx) {
		m, ok := ctx.Item.(sim.Msg)
		if !ok {
			return
		}
		switch ctx.Pos {
		case sim.HookPosPortMsgSend:
			k, a, n, d := t.copyFields(m)
			t.emit("CPFwd", ab.Rec{"id": t.id("dma", m.Meta().ID), "k": k, "a": a, "n": n, "d": d, "dst": string(m.Meta().Dst)})
		case sim.HookPosPortMsgRetrieveIncoming:
			if r, ok := m.(*sim.GeneralRsp); ok {
				t.emit("CPRecv", ab.Rec{"to": t.known("dma", r.OriginalReq.Meta().ID)})
			}
		}
	}))
	c.ToCaches.AcceptHook(ab.HookFn(func(ctx sim.HookCtx) {
		m, ok := ctx.Item.(sim.Msg)
		if !ok {
			return
		}
		switch ctx.Pos {
		case sim.HookPosPortMsgSend:
			f, isFlush := m.(*cache.FlushReq)
			inv := 0
			if isFlush && (f.InvalidateAllCachelines || f.DiscardInflight || f.PauseAfterFlushing) {
				inv = 1
			}
			t.emit("CacheReq", ab.Rec{"id": t.id("cache", m.Meta().ID), "flush": b2i(isFlush), "inv": inv})
		case sim.HookPosPortMsgRecvd:
			if r, ok := m.(*cache.FlushRsp); ok {
				t.emit("CacheAck", ab.Rec{"to": t.known("cache", r.RspTo)})
			}
		case sim.HookPosPortMsgRetrieveIncoming:
			if r, ok := m.(*cache.FlushRsp); ok {
				t.emit("CPAck", ab.Rec{"to": t.known("cache", r.RspTo)})
			}
		}
	}))
	dma.ToCP.AcceptHook(ab.HookFn(func(ctx sim.HookCtx) {
		m, ok := ctx.Item.(sim.Msg)
		if !ok {
			return
		}
		switch ctx.Pos {
		case sim.HookPosPortMsgRetrieveIncoming:
			t.emit("DMATake", ab.Rec{"id": t.known("dma", m.Meta().ID)})
		case sim.HookPosPortMsgSend:
			if r, ok := m.(*sim.GeneralRsp); ok {
				t.emit("DMADone", ab.Rec{"to": t.known("dma", r.OriginalReq.Meta().ID)})
			}
		}
	}))
	dma.ToMem.AcceptHook(ab.HookFn(func(ctx sim.HookCtx) {
		m, ok := ctx.Item.(sim.Msg)
		if !ok {
			return
		}
		switch ctx.Pos {
		case sim.HookPosPortMsgSend:
			switch r := m.(type) {
			case *mem.WriteReq:
				mask := 0
				if r.DirtyMask != nil {
					mask = 1
				}
				t.emit("Sub", ab.Rec{"id": t.id("sub", m.Meta().ID), "k": "w", "a": t.addr(r.Address), "n": len(r.Data), "d": ints(r.Data),
					"mask": mask, "dst": string(m.Meta().Dst)})
			case *mem.ReadReq:
				t.emit("Sub", ab.Rec{"id": t.id("sub", m.Meta().ID), "k": "r", "a": t.addr(r.Address), "n": int(r.AccessByteSize), "d": []int{},
					"mask": 0, "dst": string(m.Meta().Dst)})
			}
		case sim.HookPosPortMsgRecvd:
			switch r := m.(type) {
			case *mem.WriteDoneRsp:
				t.emit("MemRsp", ab.Rec{"to": t.known("sub", r.RespondTo), "d": []int{}})
			case *mem.DataReadyRsp:
				t.emit("MemRsp", ab.Rec{"to": t.known("sub", r.RespondTo), "d": ints(r.Data)})
			}
		case sim.HookPosPortMsgRetrieveIncoming:
			if r, ok := m.(mem.AccessRsp); ok {
				t.emit("DMARecv", ab.Rec{"to": t.known("sub", r.GetRspTo())})
			}
		}
	}))
}

func (w *dworld) hooks() {
	attachDMATap(w.cp, w.dma, &dmaTap{
		emit: w.emit,
		id:   func(space, s string) int { return w.rec.ID(space, s) },
		known: func(space, s string) int {
			if v, ok := w.rec.Known(space, s); ok {
				return v
			}
			return -1
		},
		addr: func(a uint64) int { return int(a) },
	})
}

func (w *dworld) tick(n int) {
	for i := 0; i < n; i++ {
		w.cyc++
		w.eng.RunUntil(ab.Cycle(w.cyc))
	}
}

// ferry carries messages between the command processor and the DMA engine and
// collects what the components sent to the memory, the caches and the driver.
func (w *dworld) ferry() bool {
	moved := false
	for {
		m := w.cp.ToDMA.PeekOutgoing()
		if m == nil || w.dma.ToCP.Deliver(m) != nil {
			break
		}
		w.cp.ToDMA.RetrieveOutgoing()
		moved = true
	}
	for {
		m := w.dma.ToCP.PeekOutgoing()
		if m == nil || w.cp.ToDMA.Deliver(m) != nil {
			break
		}
		w.dma.ToCP.RetrieveOutgoing()
		moved = true
	}
	for {
		m := w.dma.ToMem.RetrieveOutgoing()
		if m == nil {
			break
		}
		w.owedM = append(w.owedM, m.(mem.AccessReq))
		moved = true
	}
	for {
		m := w.cp.ToCaches.RetrieveOutgoing()
		if m == nil {
			break
		}
		if f, ok := m.(*cache.FlushReq); ok {
			w.owedC = append(w.owedC, f)
		}
		moved = true
	}
	for {
		m := w.cp.ToDriver.RetrieveOutgoing()
		if m == nil {
			break
		}
		w.doneN++
		moved = true
	}
	return moved
}

func (w *dworld) req(s *DStep) bool {
	var m sim.Msg
	switch s.K {
	case "h2d":
		m = protocol.NewMemCopyH2DReq(w.drv, w.cp.ToDriver, pattern(s.Seed, s.N), uint64(s.Addr))
	case "d2h":
		m = protocol.NewMemCopyD2HReq(w.drv, w.cp.ToDriver, uint64(s.Addr), make([]byte, s.N))
	case "flush":
		m = protocol.NewFlushReq(w.drv, w.cp.ToDriver)
	default:
		panic("unknown request kind " + s.K)
	}
	if w.cp.ToDriver.Deliver(m) != nil {
		return false
	}
	w.issued++
	return true
}

func (w *dworld) memRsp(i int) bool {
	if len(w.owedM) == 0 {
		return false
	}
	i = ((i % len(w.owedM)) + len(w.owedM)) % len(w.owedM)
	q := w.owedM[i]
	var rsp sim.Msg
	switch r := q.(type) {
	case *mem.WriteReq:
		rsp = mem.WriteDoneRspBuilder{}.WithSrc("Mem.Top").WithDst(w.dma.ToMem.AsRemote()).WithRspTo(r.ID).Build()
	case *mem.ReadReq:
		data := make([]byte, r.AccessByteSize)
		for k := range data {
			if a := int(r.Address) + k; a >= 0 && a < len(w.memory) {
				data[k] = w.memory[a]
			}
		}
		rsp = mem.DataReadyRspBuilder{}.WithSrc("Mem.Top").WithDst(w.dma.ToMem.AsRemote()).WithRspTo(r.ID).WithData(data).Build()
	}
	if w.dma.ToMem.Deliver(rsp) != nil {
		return false
	}
	if r, ok := q.(*mem.WriteReq); ok { // the memory performs the write when it answers
		for k, x := range r.Data {
			if a := int(r.Address) + k; a >= 0 && a < len(w.memory) && (r.DirtyMask == nil || r.DirtyMask[k]) {
				w.memory[a] = x
			}
		}
	}
	w.owedM = append(w.owedM[:i], w.owedM[i+1:]...)
	return true
}

func (w *dworld) cacheAck(i int) bool {
	if len(w.owedC) == 0 {
		return false
	}
	i = ((i % len(w.owedC)) + len(w.owedC)) % len(w.owedC)
	f := w.owedC[i]
	rsp := cache.FlushRspBuilder{}.WithSrc(f.Dst).WithDst(f.Src).WithRspTo(f.ID).Build()
	if w.cp.ToCaches.Deliver(rsp) != nil {
		return false
	}
	w.owedC = append(w.owedC[:i], w.owedC[i+1:]...)
	return true
}

func (w *dworld) step(s *DStep) {
	ok := true
	switch s.A {
	case "req":
		ok = w.req(s)
	case "ferry":
		w.ferry()
	case "memrsp":
		w.ferry()
		if len(w.owedM) == 0 {
			w.settle(20, func() bool { return len(w.owedM) > 0 })
		}
		ok = w.memRsp(s.I)
	case "cacheack":
		w.ferry()
		if len(w.owedC) == 0 {
			w.settle(20, func() bool { return len(w.owedC) > 0 })
		}
		ok = w.cacheAck(s.I)
	case "tick":
		n := s.N
		if n == 0 {
			n = 1
		}
		for i := 0; i < n; i++ {
			w.tick(1)
			w.ferry()
		}
	case "stall": // time passes but nothing is carried between the components
		n := s.N
		if n == 0 {
			n = 1
		}
		w.tick(n)
	case "await":
		// the k-th await of an event is satisfied once the event has happened k times
		w.awaited[s.E]++
		k := w.awaited[s.E]
		ok = w.settle(40, func() bool { return w.count[s.E] >= k })
	default:
		panic("unknown step " + s.A)
	}
	if ok {
		w.stats["steps_done"]++
	} else {
		w.stats["steps_skipped"]++
	}
}

func (w *dworld) settle(max int, cond func() bool) bool {
	for i := 0; i < max && !cond(); i++ {
		w.tick(1)
		w.ferry()
	}
	return cond()
}

// finish answers everything until components and environment have nothing left to do.
func (w *dworld) finish(rng *rand.Rand) {
	for i := 0; i < 100000; i++ {
		progress := w.ferry()
		if len(w.owedC) > 0 && w.cacheAck(rng.Intn(len(w.owedC))) {
			progress = true
		}
		if len(w.owedM) > 0 && w.memRsp(rng.Intn(len(w.owedM))) {
			progress = true
		}
		before := w.eng.Events
		w.tick(1)
		if w.eng.Events != before {
			progress = true
		}
		if w.ferry() {
			progress = true
		}
		if !progress && w.eng.Pending() == 0 {
			break
		}
	}
	w.emit("Quiesce", ab.Rec{"issued": w.issued, "answered": w.doneN, "mem": memRuns(w.memory)})
}

// memRuns encodes the final memory as runs that differ from the initial fill.
func memRuns(m []byte) [][]interface{} {
	out := [][]interface{}{}
	i := 0
	for i < len(m) {
		if m[i] == byte(200+i%50) {
			i++
			continue
		}
		j := i
		for j < len(m) && m[j] != byte(200+j%50) {
			j++
		}
		out = append(out, []interface{}{i, ints(m[i:j])})
		i = j
	}
	return out
}

func (w *dworld) exec() {
	defer func() {
		if e := recover(); e != nil {
			w.stats["panics"]++
			w.emit("Panic", ab.Rec{"msg": fmt.Sprint(e), "cls": panicClass(fmt.Sprint(e))})
		}
	}()
	for i := range w.sc.Steps {
		w.step(&w.sc.Steps[i])
	}
	w.finish(rand.New(rand.NewSource(w.sc.Seed)))
}

// randDMA builds a seeded adversarial environment.
func randDMA(rng *rand.Rand, tag string) *DScenario {
	sc := &DScenario{Line: []int{2, 3, 4, 6, 6, 6, 7}[rng.Intn(7)], Caches: rng.Intn(4), MSize: 2048, Seed: rng.Int63(), Tag: tag}
	line := 1 << sc.Line
	nreq := 2 + rng.Intn(7)
	edges := []int{0, 1, line - 1, line, line + 1, 2*line - 1, 2 * line, 3*line + 1}
	pick := func() int { return edges[rng.Intn(len(edges))] }
	issued := 0
	for len(sc.Steps) < 60*nreq && (issued < nreq || rng.Intn(4) > 0) {
		switch rng.Intn(10) {
		case 0, 1, 2:
			if issued >= nreq {
				continue
			}
			issued++
			if sc.Caches > 0 && rng.Intn(5) == 0 {
				sc.Steps = append(sc.Steps, DStep{A: "req", K: "flush"})
				continue
			}
			base := line * (1 + rng.Intn(8))
			a := base + pick() - line/2*rng.Intn(2)
			if a < 0 {
				a = 0
			}
			n := 1 + pick() + rng.Intn(2)*rng.Intn(line)
			if a+n > sc.MSize {
				n = sc.MSize - a
			}
			k := "h2d"
			if rng.Intn(2) == 0 {
				k = "d2h"
			}
			sc.Steps = append(sc.Steps, DStep{A: "req", K: k, Addr: a, N: n, Seed: rng.Intn(1 << 20)})
		case 3, 4, 5:
			sc.Steps = append(sc.Steps, DStep{A: "memrsp", I: rng.Intn(64)})
		case 6:
			sc.Steps = append(sc.Steps, DStep{A: "cacheack", I: rng.Intn(8)})
		case 7:
			sc.Steps = append(sc.Steps, DStep{A: "stall", N: 1 + rng.Intn(3)})
		default:
			sc.Steps = append(sc.Steps, DStep{A: "tick", N: 1 + rng.Intn(4)})
		}
	}
	return sc
}

func sortedInts(m map[int]bool) []int {
	ks := make([]int, 0, len(m))
	for k := range m {
		ks = append(ks, k)
	}
	sort.Ints(ks)
	return ks
}
