package main

// The "api" worlds: the real driver.Driver with one of its two memory-copy
// middlewares, observed at its linearization points:
//
//	Start  a command queue's head command is about to be processed  (verifYield "scan")
//	Send   the driver puts a request for a GPU on its port           (port hook)
//	Rsp    a response arrives at the driver's port                   (port hook)
//	Take   the driver consumes the response                          (port hook)
//	Done   CommandQueue.Dequeue of the completed command             (verifYield "deq")
//	Sto    diff of the contents of every live buffer in the global storage
//
// Worlds:
//
//	bench       driver with the default (DMA-path) middleware on the akitabench engine;
//	            the harness plays the GPUs (any response order, any delay) on top of the
//	            driver's own global storage
//	benchmagic  driver with the direct-storage middleware on the akitabench engine, plus the
//	            emulator's StorageAccessor on the same page table and storage
//	emu         platform built by emusystem.Builder (direct-storage path, real emulator)
//	r9nano, mi300a  platform built by timingconfig.Builder (DMA path, real GPUs, caches)

import (
	"bytes"
	"encoding/binary"
	"fmt"
	"math/rand"
	"reflect"
	"sort"
	"strings"

	"github.com/sarchlab/akita/v4/mem/mem"
	"github.com/sarchlab/akita/v4/mem/vm"
	"github.com/sarchlab/akita/v4/sim"
	"github.com/sarchlab/akita/v4/simulation"
	"github.com/sarchlab/mgpusim/v4/amd/driver"
	"github.com/sarchlab/mgpusim/v4/amd/emu"
	"github.com/sarchlab/mgpusim/v4/amd/insts"
	"github.com/sarchlab/mgpusim/v4/amd/kernels"
	"github.com/sarchlab/mgpusim/v4/amd/protocol"
	"github.com/sarchlab/mgpusim/v4/amd/samples/runner/emusystem"
	"github.com/sarchlab/mgpusim/v4/amd/samples/runner/timingconfig"
	"github.com/sarchlab/mgpusim/v4/amd/timing/cp"

	ab "verifharness/akitabench"
)

// Op is one step of a scenario.
type Op struct {
	Op    string   `json:"op"`
	B     int      `json:"b,omitempty"`
	N     int      `json:"n,omitempty"`
	Off   int      `json:"off,omitempty"`
	Ctx   int      `json:"ctx,omitempty"`
	GPU   int      `json:"gpu,omitempty"`
	Dist  []int    `json:"dist,omitempty"`
	Remap [][2]int `json:"remap,omitempty"`
	Ty    string   `json:"ty,omitempty"`
	Seed  int      `json:"seed,omitempty"`
	Q     int      `json:"q,omitempty"` // 0: own queue, run to completion; k>0: named queue k, enqueue only
	Dst   int      `json:"dst,omitempty"`
	Doff  int      `json:"doff,omitempty"`
	Src   int      `json:"src,omitempty"`
	Soff  int      `json:"soff,omitempty"`
	G     int      `json:"g,omitempty"`
	K     string   `json:"k,omitempty"` // env: "launch" = the oldest kernel of GPU g finishes, "other" = its oldest other request
	Pol   string   `json:"pol,omitempty"`
}

// Scenario is a platform configuration plus operations.
type Scenario struct {
	Plat string `json:"plat"`
	GPUs int    `json:"gpus"`
	LP   int    `json:"lp"`
	H2DC int    `json:"h2dc"`
	D2HC int    `json:"d2hc"`
	Env  string `json:"env"` // default response policy of the harness GPUs (bench)
	Seed int64  `json:"seed"`
	Tag  string `json:"tag,omitempty"`
	Ops  []Op   `json:"ops"`
}

type bufInfo struct {
	id    int
	va    uint64
	n     uint64
	ctx   int
	devs  []int // intended device of every page
	freed bool
}

type qInfo struct {
	q   *driver.CommandQueue
	ctx int
}

type userOp struct {
	raw []byte      // h2d: host image
	dst interface{} // d2h: host destination
	ty  string
}

type kernInfo struct {
	dst, src uint64
	n        int
}

type fakeGPU struct {
	pending []sim.Msg
}

// World is one scenario execution.
type World struct {
	sc    *Scenario
	rec   *ab.Recorder
	stats map[string]int
	rng   *rand.Rand

	plat                 string
	bench, magic, cached bool
	lp                   uint64
	page                 uint64
	d                    *driver.Driver
	beng                 *ab.Engine
	sim                  *simulation.Simulation
	eng                  sim.Engine
	port                 sim.Port
	pt                   vm.PageTable
	storage              *mem.Storage
	acc                  emu.StorageAccessor
	cyc                  int
	ctxs                 []*driver.Context
	curGPU               []int
	bufs                 map[int]*bufInfo
	byVA                 map[uint64]*bufInfo
	nextInternal         int
	queues               []*qInfo
	named                map[int]*qInfo
	cmdID                map[driver.Command]int
	started              map[driver.Command]bool
	users                map[uintptr]*userOp
	kerns                map[*driver.CommandQueue][]kernInfo
	gpus                 []*fakeGPU
	snap                 map[uint64][]byte
	everMapped           map[uint64]bool
	pid                  uint64
	dead                 bool
	events               int
	taps                 []*sysTap
}

// sysTap collects the port events of the command processor and the DMA engine
// of one GPU of a timing platform; they are written as a DMATrace trace.
type sysTap struct {
	g                int
	line, caches     int
	dmadst           string
	events           []tapEvent
	ids              map[string]map[string]int
	issued, answered int
	bad              string
}

type tapEvent struct {
	e string
	f ab.Rec
}

func (t *sysTap) id(space, s string) int {
	m, ok := t.ids[space]
	if !ok {
		m = map[string]int{}
		t.ids[space] = m
	}
	if v, ok := m[s]; ok {
		return v
	}
	m[s] = len(m) + 1
	return m[s]
}

func (t *sysTap) known(space, s string) int {
	if v, ok := t.ids[space][s]; ok {
		return v
	}
	return -1
}

func (w *World) attachSysTaps() {
	for g := 1; g <= w.sc.GPUs; g++ {
		c, ok1 := w.sim.GetComponentByName(fmt.Sprintf("GPU[%d].CommandProcessor", g)).(*cp.CommandProcessor)
		d, ok2 := w.sim.GetComponentByName(fmt.Sprintf("GPU[%d].DMA", g)).(*cp.DMAEngine)
		if !ok1 || !ok2 {
			continue
		}
		t := &sysTap{g: g, line: 1 << d.Log2AccessSize, dmadst: string(d.ToCP.AsRemote()), ids: map[string]map[string]int{},
			caches: len(c.L1VCaches) + len(c.L1SCaches) + len(c.L1ICaches) + len(c.L2Caches)}
		base := uint64(g) * 4 * mem.GB
		gg := g
		attachDMATap(c, d, &dmaTap{filter: true, id: t.id, known: t.known,
			emit: func(e string, f ab.Rec) {
				switch e {
				case "DrvReq":
					t.issued++
				case "CPDone":
					t.answered++
				}
				t.events = append(t.events, tapEvent{e, f})
			},
			addr: func(a uint64) int {
				if a < base || a-base >= 1<<31 {
					t.bad = fmt.Sprintf("address %#x outside the memory of GPU %d", a, gg)
					return -1
				}
				return int(a - base)
			}})
		w.taps = append(w.taps, t)
	}
}

// flushSys writes what the taps saw as one trace per GPU that received copy traffic.
func (w *World) flushSys(rec *ab.Recorder) int {
	n := 0
	for _, t := range w.taps {
		if t.issued == 0 || rec == nil {
			continue
		}
		n++
		rec.Emit("Reset", ab.Rec{"line": t.line, "caches": t.caches, "msize": 0, "tag": fmt.Sprintf("%s:gpu%d", w.sc.Tag, t.g),
			"dmadst": t.dmadst, "memdst": "", "plat": w.plat})
		for _, ev := range t.events {
			rec.Emit(ev.e, ev.f)
		}
		if t.bad != "" {
			rec.Emit("Panic", ab.Rec{"msg": t.bad, "cls": "harness"})
		}
		rec.Emit("Quiesce", ab.Rec{"issued": t.issued, "answered": t.answered, "mem": [][]interface{}{}})
	}
	return n
}

func (w *World) emit(e string, f ab.Rec) {
	w.events++
	w.rec.Emit(e, f)
}

func pattern(seed, n int) []byte {
	r := make([]byte, n)
	x := uint32(seed)*2654435761 + 12345
	for i := range r {
		x = x*1664525 + 1013904223
		r[i] = byte(x >> 24)
		if r[i] == 0 {
			r[i] = byte(1 + i%250) // keep copied data distinguishable from untouched (zero) memory
		}
	}
	return r
}

func newWorld(sc *Scenario, rec *ab.Recorder, stats map[string]int) *World {
	w := &World{sc: sc, rec: rec, stats: stats, plat: sc.Plat, bufs: map[int]*bufInfo{}, byVA: map[uint64]*bufInfo{},
		named: map[int]*qInfo{}, cmdID: map[driver.Command]int{}, started: map[driver.Command]bool{},
		users: map[uintptr]*userOp{}, kerns: map[*driver.CommandQueue][]kernInfo{}, snap: map[uint64][]byte{},
		everMapped: map[uint64]bool{}, nextInternal: 1000}
	w.rng = rand.New(rand.NewSource(sc.Seed))
	if sc.LP == 0 {
		sc.LP = 12
	}
	if sc.GPUs == 0 {
		sc.GPUs = 1
	}
	w.lp = uint64(sc.LP)
	w.page = 1 << w.lp
	rec.ResetIDs()
	switch sc.Plat {
	case "bench", "benchmagic":
		w.bench = true
		w.magic = sc.Plat == "benchmagic"
		w.beng = ab.NewEngine()
		w.eng = w.beng
		if sc.LP < 10 {
			panic("bench worlds need pages of at least 1 KiB (the allocator lists every physical page of 4 GiB)")
		}
		w.storage = mem.NewStorage(uint64(sc.GPUs+1) * 4 * mem.GB)
		w.pt = vm.NewPageTable(w.lp)
		b := driver.MakeBuilder().WithEngine(w.beng).WithPageTable(w.pt).WithLog2PageSize(w.lp).WithGlobalStorage(w.storage)
		if w.magic {
			b = b.WithMagicMemoryCopyMiddleware()
		} else {
			b = b.WithD2HCycles(sc.D2HC).WithH2DCycles(sc.H2DC)
		}
		w.d = b.Build("Driver")
		for g := 1; g <= sc.GPUs; g++ {
			p := sim.NewPort(nil, 1, 1, fmt.Sprintf("GPU[%d].CommandProcessor.ToDriver", g))
			w.d.RegisterGPU(p, driver.DeviceProperties{CUCount: 4, DRAMSize: 64 * mem.MB})
			w.gpus = append(w.gpus, &fakeGPU{})
		}
		ab.NewConn("Conn").PlugIn(w.d.GetPortByName("GPU"))
		w.acc = emu.NewStorageAccessor(w.storage, w.pt, w.lp, nil)
	case "emu":
		w.magic = true
		w.sim = simulation.MakeBuilder().WithoutMonitoring().Build()
		emusystem.MakeBuilder().WithSimulation(w.sim).WithNumGPUs(sc.GPUs).WithLog2PageSize(w.lp).Build()
		w.d = w.sim.GetComponentByName("Driver").(*driver.Driver)
		w.eng = w.sim.GetEngine()
	case "r9nano", "mi300a":
		w.cached = true
		if sc.LP != 12 {
			panic("timing platforms use 4 KiB pages")
		}
		w.sim = simulation.MakeBuilder().WithoutMonitoring().Build()
		timingconfig.MakeBuilder().WithSimulation(w.sim).WithNumGPUs(sc.GPUs).WithGPUType(sc.Plat).Build()
		w.d = w.sim.GetComponentByName("Driver").(*driver.Driver)
		w.eng = w.sim.GetEngine()
		w.attachSysTaps()
	default:
		panic("unknown platform " + sc.Plat)
	}
	w.port = w.d.GetPortByName("GPU")
	w.port.AcceptHook(ab.HookFn(w.portHook))
	driver.VerifYield = w.yield
	real := 0
	if !w.bench {
		real = 1
	}
	w.emit("Reset", ab.Rec{"plat": sc.Plat, "gpus": sc.GPUs, "lp": sc.LP, "page": int(w.page), "magic": b2i(w.magic),
		"cached": b2i(w.cached), "real": real, "pt": b2i(w.bench), "tag": sc.Tag})
	w.newCtx()
	return w
}

func b2i(b bool) int {
	if b {
		return 1
	}
	return 0
}

func (w *World) close() {
	driver.VerifYield = nil
	if w.sim != nil {
		w.sim.Terminate()
	}
}

func (w *World) newCtx() int {
	var c *driver.Context
	if len(w.ctxs) == 0 {
		c = w.d.Init()
	} else {
		c = w.d.InitWithExistingPID(w.ctxs[0])
	}
	w.ctxs = append(w.ctxs, c)
	w.curGPU = append(w.curGPU, 1)
	w.emit("Ctx", ab.Rec{"ctx": len(w.ctxs)})
	return len(w.ctxs)
}

func (w *World) ctxIndex(c *driver.Context) int {
	for i, x := range w.ctxs {
		if x == c {
			return i + 1
		}
	}
	return 0
}

func (w *World) ctxOf(i int) (*driver.Context, int) {
	if i <= 0 {
		i = 1
	}
	for len(w.ctxs) < i {
		w.newCtx()
	}
	return w.ctxs[i-1], i
}

// ------------------------------------------------------------ observation

func (w *World) gpuOf(dst sim.RemotePort) int {
	for i, p := range w.d.GPUs {
		if p.AsRemote() == dst {
			return i + 1
		}
	}
	return 0
}

func (w *World) cmdOfReq(m sim.Msg) int {
	for _, qi := range w.queues {
		cmd := qi.q.Peek()
		if cmd == nil {
			continue
		}
		for _, r := range cmd.GetReqs() {
			if r == m {
				return w.cmdID[cmd]
			}
		}
	}
	return 0
}

func (w *World) paFields(pa uint64) (int, int) {
	return int(pa >> w.lp), int(pa & (w.page - 1))
}

func (w *World) portHook(ctx sim.HookCtx) {
	msg, ok := ctx.Item.(sim.Msg)
	if !ok {
		return
	}
	switch ctx.Pos {
	case sim.HookPosPortMsgSend:
		f := ab.Rec{"r": w.rec.ID("req", msg.Meta().ID), "c": w.cmdOfReq(msg), "g": w.gpuOf(msg.Meta().Dst),
			"pp": 0, "po": 0, "n": 0, "d": []int{}}
		switch m := msg.(type) {
		case *protocol.FlushReq:
			f["k"] = "flush"
		case *protocol.LaunchKernelReq:
			f["k"] = "launch"
		case *protocol.MemCopyH2DReq:
			f["k"] = "h2d"
			f["pp"], f["po"] = w.paFields(m.DstAddress)
			f["n"] = len(m.SrcBuffer)
			f["d"] = ints(m.SrcBuffer)
		case *protocol.MemCopyD2HReq:
			f["k"] = "d2h"
			f["pp"], f["po"] = w.paFields(m.SrcAddress)
			f["n"] = len(m.DstBuffer)
		default:
			f["k"] = fmt.Sprintf("other:%T", msg)
		}
		w.emit("Send", f)
	case sim.HookPosPortMsgRecvd, sim.HookPosPortMsgRetrieveIncoming:
		var to string
		var d []int
		switch m := msg.(type) {
		case *sim.GeneralRsp:
			to = m.OriginalReq.Meta().ID
			if q, ok := m.OriginalReq.(*protocol.MemCopyD2HReq); ok {
				d = ints(q.DstBuffer)
			}
		case *protocol.LaunchKernelRsp:
			to = m.RspTo
		default:
			return
		}
		id, known := w.rec.Known("req", to)
		if !known {
			id = -1
		}
		if ctx.Pos == sim.HookPosPortMsgRecvd {
			if d == nil {
				d = []int{}
			}
			w.emit("Rsp", ab.Rec{"r": id, "d": d})
		} else {
			w.emit("Take", ab.Rec{"r": id})
		}
	}
}

func ptrOf(v interface{}) uintptr {
	rv := reflect.ValueOf(v)
	switch rv.Kind() {
	case reflect.Slice, reflect.Ptr:
		return rv.Pointer()
	}
	return 0
}

func (w *World) noteStart(cmd driver.Command, q *driver.CommandQueue) {
	if cmd == nil || w.started[cmd] {
		return
	}
	w.started[cmd] = true
	id := len(w.cmdID) + 1
	w.cmdID[cmd] = id
	qi := 0
	for i, x := range w.queues {
		if x.q == q {
			qi = i + 1
		}
	}
	f := ab.Rec{"c": id, "q": qi, "ctx": w.ctxIndex(q.Context), "va": 0, "n": 0, "d": []int{}, "usr": 0,
		"kd": 0, "ks": 0}
	switch c := cmd.(type) {
	case *driver.MemCopyH2DCommand:
		f["k"] = "h2d"
		f["va"] = int(c.Dst)
		if u, ok := w.users[ptrOf(c.Src)]; ok {
			f["usr"] = 1
			f["n"] = len(u.raw)
			f["d"] = ints(u.raw)
		} else {
			// a copy the driver enqueued itself (code object, kernel arguments, AQL packet)
			buf := bytes.NewBuffer(nil)
			if err := binary.Write(buf, binary.LittleEndian, c.Src); err != nil {
				panic(err)
			}
			f["n"] = buf.Len()
			f["d"] = ints(buf.Bytes())
		}
	case *driver.MemCopyD2HCommand:
		f["k"] = "d2h"
		f["va"] = int(c.Src)
		f["n"] = binary.Size(c.Dst)
		if _, ok := w.users[ptrOf(c.Dst)]; ok {
			f["usr"] = 1
		}
	case *driver.LaunchKernelCommand:
		f["k"] = "kern"
		if ks := w.kerns[q]; len(ks) > 0 {
			f["kd"], f["ks"], f["n"] = int(ks[0].dst), int(ks[0].src), ks[0].n
			w.kerns[q] = ks[1:]
		}
	default:
		f["k"] = fmt.Sprintf("other:%T", cmd)
	}
	w.emit("Start", f)
}

func (w *World) noteDone(cmd driver.Command, q *driver.CommandQueue) {
	f := ab.Rec{"c": w.cmdID[cmd], "d": []int{}}
	if c, ok := cmd.(*driver.MemCopyD2HCommand); ok {
		f["d"] = ints(image(c.Dst))
	}
	w.emit("Done", f)
}

func (w *World) yield(point string, q *driver.CommandQueue) {
	if q == nil {
		return
	}
	switch point {
	case "scan":
		if q.NumCommand() > 0 && !q.IsRunning {
			w.noteStart(q.Peek(), q)
		}
	case "deq":
		cmd := q.Peek()
		if cmd == nil {
			w.emit("Done", ab.Rec{"c": 0, "d": []int{}}) // Dequeue of an empty queue: about to panic
			return
		}
		w.noteStart(cmd, q)
		w.noteDone(cmd, q)
	}
}

// ------------------------------------------------------------ buffers and storage

func (w *World) pagesOf(b *bufInfo) [][]int {
	var out [][]int
	i := 0
	for a := b.va; a < b.va+b.n; a += w.page {
		pp, dev := -1, 0
		if i < len(b.devs) {
			dev = b.devs[i]
		}
		if w.pt != nil {
			if pg, ok := w.pt.Find(vm.PID(w.pid), a); ok {
				pp, dev = int(pg.PAddr>>w.lp), int(pg.DeviceID)
				w.everMapped[pg.PAddr>>w.lp] = true
			}
		}
		out = append(out, []int{int(a), pp, dev})
		i++
	}
	return out
}

func (w *World) readAll() map[uint64][]byte {
	out := map[uint64][]byte{}
	for _, vb := range w.d.VerifSnapshotBuffers() {
		out[vb.VAddr] = vb.Data
		w.pid = vb.PID
	}
	return out
}

// discover announces buffers the driver allocated on its own (kernel launch
// bookkeeping) and returns the current contents of all live buffers.
func (w *World) discover(ctx int) map[uint64][]byte {
	cur := map[uint64][]byte{}
	for _, vb := range w.d.VerifSnapshotBuffers() {
		w.pid = vb.PID
		cur[vb.VAddr] = vb.Data
		if _, ok := w.byVA[vb.VAddr]; ok {
			continue
		}
		w.nextInternal++
		b := &bufInfo{id: w.nextInternal, va: vb.VAddr, n: vb.Size, ctx: ctx}
		np := int((vb.Size + w.page - 1) / w.page)
		for i := 0; i < np; i++ {
			b.devs = append(b.devs, w.curGPU[ctx-1])
		}
		w.byVA[b.va] = b
		w.bufs[b.id] = b
		w.snap[b.va] = vb.Data
		w.emit("Alloc", ab.Rec{"b": b.id, "va": int(b.va), "n": int(b.n), "ctx": ctx, "int": 1,
			"pages": w.pagesOf(b), "init": ints(vb.Data)})
	}
	return cur
}

func (w *World) wild() int {
	if w.storage == nil || w.pt == nil {
		return 0
	}
	n := 0
	seen := map[uint64]bool{}
	for pp := range w.everMapped {
		for _, q := range []uint64{pp - 1, pp + 1} {
			if w.everMapped[q] || seen[q] {
				continue
			}
			seen[q] = true
			data, err := w.storage.Read(q<<w.lp, w.page)
			if err != nil {
				continue
			}
			for _, x := range data {
				if x != 0 {
					n++
				}
			}
		}
	}
	return n
}

// stoDiff logs which bytes of the live buffers changed in the global storage
// since the previous observation.
func (w *World) stoDiff() {
	cur := w.readAll()
	var chg [][]interface{}
	vas := make([]uint64, 0, len(cur))
	for va := range cur {
		vas = append(vas, va)
	}
	sort.Slice(vas, func(i, j int) bool { return vas[i] < vas[j] })
	for _, va := range vas {
		now, old := cur[va], w.snap[va]
		if old == nil {
			continue // announced by its Alloc event
		}
		// one run per buffer: from the first to the last byte that differs (current contents)
		first, last := -1, -1
		for i := range now {
			if i >= len(old) || now[i] != old[i] {
				if first < 0 {
					first = i
				}
				last = i
			}
		}
		if first >= 0 {
			chg = append(chg, []interface{}{int(va) + first, ints(now[first : last+1])})
		}
	}
	for va, data := range cur {
		if _, ok := w.byVA[va]; ok {
			w.snap[va] = data
		}
	}
	if chg == nil {
		chg = [][]interface{}{}
	}
	w.emit("Sto", ab.Rec{"chg": chg, "wild": w.wild()})
}

// ------------------------------------------------------------ engine

func (w *World) tick() {
	w.cyc++
	w.beng.RunUntil(ab.Cycle(w.cyc))
}

func (w *World) drain() {
	for {
		m := w.port.RetrieveOutgoing()
		if m == nil {
			return
		}
		g := w.gpuOf(m.Meta().Dst)
		if g == 0 {
			panic("request to an unknown GPU")
		}
		w.gpus[g-1].pending = append(w.gpus[g-1].pending, m)
	}
}

func isLaunch(m sim.Msg) bool { _, ok := m.(*protocol.LaunchKernelReq); return ok }

// pick returns the index of the oldest pending request of GPU g of the wanted
// kind ("" any, "launch", "other"), -1 if there is none.  Copies and flushes
// are served in order; a kernel runs beside them and finishes when the
// environment says so.
func (w *World) pick(g int, kind string) int {
	for i, m := range w.gpus[g-1].pending {
		if kind == "" || (kind == "launch") == isLaunch(m) {
			return i
		}
	}
	return -1
}

// answer lets harness GPU g serve its oldest request.
func (w *World) answer(g int) bool { return w.answerKind(g, "") }

func (w *World) answerKind(g int, kind string) bool {
	gp := w.gpus[g-1]
	at := w.pick(g, kind)
	if at < 0 {
		return false
	}
	m := gp.pending[at]
	var rsp sim.Msg
	switch r := m.(type) {
	case *protocol.MemCopyH2DReq:
		if err := w.storage.Write(r.DstAddress, r.SrcBuffer); err != nil {
			panic(err)
		}
	case *protocol.MemCopyD2HReq:
		data, err := w.storage.Read(r.SrcAddress, uint64(len(r.DstBuffer)))
		if err != nil {
			panic(err)
		}
		copy(r.DstBuffer, data)
	}
	if l, ok := m.(*protocol.LaunchKernelReq); ok {
		rsp = protocol.NewLaunchKernelRsp(m.Meta().Dst, m.Meta().Src, l.ID)
	} else {
		rsp = sim.GeneralRspBuilder{}.WithSrc(m.Meta().Dst).WithDst(m.Meta().Src).WithOriginalReq(m).Build()
	}
	if w.port.Deliver(rsp) != nil {
		return false
	}
	gp.pending = append(gp.pending[:at:at], gp.pending[at+1:]...)
	return true
}

func (w *World) anyPending() bool {
	for _, g := range w.gpus {
		if len(g.pending) > 0 {
			return true
		}
	}
	return false
}

func isFlush(m sim.Msg) bool { _, ok := m.(*protocol.FlushReq); return ok }

// envAuto applies the response policy once.
func (w *World) envAuto(pol string) {
	var cand []int
	for g := range w.gpus {
		if len(w.gpus[g].pending) > 0 {
			cand = append(cand, g+1)
		}
	}
	if len(cand) == 0 {
		return
	}
	switch pol {
	case "", "fifo":
		for _, g := range cand {
			for w.answer(g) {
			}
		}
	case "rand":
		if w.rng.Intn(3) == 0 {
			return
		}
		g := cand[w.rng.Intn(len(cand))]
		if w.rng.Intn(2) == 0 && w.answerKind(g, "other") { // a kernel of this GPU keeps running meanwhile
			return
		}
		w.answer(g)
	case "kernslow":
		// kernels take long: everything else is served first
		for _, g := range cand {
			if w.answerKind(g, "other") {
				return
			}
		}
		if w.beng.Pending() == 0 && w.port.PeekOutgoing() == nil {
			w.answerKind(cand[w.rng.Intn(len(cand))], "launch")
		}
	case "flushlast", "pieceslast":
		// hold back one kind while the other kind may still show up
		var pref []int
		for _, g := range cand {
			if isFlush(w.gpus[g-1].pending[0]) == (pol == "pieceslast") {
				pref = append(pref, g)
			}
		}
		if len(pref) > 0 {
			w.answer(pref[w.rng.Intn(len(pref))])
			return
		}
		if w.beng.Pending() == 0 && w.port.PeekOutgoing() == nil {
			w.answer(cand[w.rng.Intn(len(cand))])
		}
	default:
		panic("unknown response policy " + pol)
	}
}

// run drives the engine until nothing is left to do.
func (w *World) run(pol string) {
	if pol == "" {
		pol = w.sc.Env
	}
	w.d.TickLater()
	if !w.bench {
		if err := w.eng.Run(); err != nil {
			panic(err)
		}
	} else {
		for i := 0; i < 200000; i++ {
			w.drain()
			if !w.magic {
				w.envAuto(pol)
			}
			w.tick()
			w.drain()
			if w.beng.Pending() == 0 && !w.anyPending() {
				break
			}
		}
	}
	w.quiesce()
}

func (w *World) quiesce() {
	pend := []int{}
	for _, qi := range w.queues {
		if qi.q.NumCommand() > 0 {
			cmd := qi.q.Peek()
			w.noteStartPending(cmd)
			pend = append(pend, w.cmdID[cmd])
		}
	}
	w.stoDiff()
	w.emit("Quiesce", ab.Rec{"pend": pend})
	if len(pend) > 0 {
		w.dead = true
		w.stats["hangs"]++
	}
}

func panicClass(msg string) string {
	switch {
	case strings.Contains(msg, "slice bounds out of range"):
		return "slice_bounds"
	case strings.Contains(msg, "index out of range"):
		return "index"
	case strings.Contains(msg, "page not found"):
		return "page_not_found"
	case strings.Contains(msg, "not found"):
		return "not_found"
	}
	return "other"
}

// a command stuck at the head of its queue that was never scanned has no id yet
func (w *World) noteStartPending(cmd driver.Command) {
	if _, ok := w.cmdID[cmd]; !ok {
		w.cmdID[cmd] = len(w.cmdID) + 1
	}
}

// ------------------------------------------------------------ operations

func (w *World) queueFor(op *Op) (*qInfo, bool) {
	c, ci := w.ctxOf(op.Ctx)
	if op.Q > 0 {
		if qi, ok := w.named[op.Q]; ok {
			return qi, false
		}
	}
	if op.GPU > 0 {
		w.d.SelectGPU(c, op.GPU)
		w.curGPU[ci-1] = op.GPU
	}
	qi := &qInfo{q: w.d.CreateCommandQueue(c), ctx: ci}
	w.queues = append(w.queues, qi)
	if op.Q > 0 {
		w.named[op.Q] = qi
		return qi, false
	}
	return qi, true
}

func (w *World) vaOf(b, off int) uint64 {
	bi, ok := w.bufs[b]
	if !ok {
		panic(fmt.Sprintf("scenario uses unknown buffer %d", b))
	}
	return bi.va + uint64(off)
}

func (w *World) doAlloc(op *Op) {
	c, ci := w.ctxOf(op.Ctx)
	g := op.GPU
	if g == 0 {
		g = 1
	}
	w.d.SelectGPU(c, g)
	w.curGPU[ci-1] = g
	va := uint64(w.d.AllocateMemory(c, uint64(op.N)))
	b := &bufInfo{id: op.B, va: va, n: uint64(op.N), ctx: ci}
	np := (op.N + int(w.page) - 1) / int(w.page)
	for i := 0; i < np; i++ {
		b.devs = append(b.devs, g)
	}
	if len(op.Dist) > 1 {
		per := w.d.Distribute(c, driver.Ptr(va), uint64(op.N), op.Dist)
		i := 0
		for k, bytes := range per {
			for p := uint64(0); p < bytes/w.page && i < np; p++ {
				b.devs[i] = op.Dist[k]
				i++
			}
		}
	}
	for _, rm := range op.Remap {
		if rm[0] < np {
			w.d.Remap(c, va+uint64(rm[0])*w.page, w.page, rm[1])
			b.devs[rm[0]] = rm[1]
		}
	}
	w.bufs[b.id] = b
	w.byVA[va] = b
	cur := w.readAll()
	w.snap[va] = cur[va]
	w.emit("Alloc", ab.Rec{"b": b.id, "va": int(va), "n": op.N, "ctx": ci, "int": 0, "pages": w.pagesOf(b),
		"init": ints(cur[va])})
}

// doRemap moves pages of a LIVE buffer to new physical frames (Driver.Remap /
// Driver.Distribute keep the virtual addresses; the contents are not moved).
// The Map event carries the new page table entries and what the buffer now
// holds, read through the page table.
func (w *World) doRemap(op *Op) {
	b := w.bufs[op.B]
	c, _ := w.ctxOf(b.ctx)
	np := len(b.devs)
	if len(op.Dist) > 1 {
		per := w.d.Distribute(c, driver.Ptr(b.va), b.n, op.Dist)
		i := 0
		for k, bytes := range per {
			for p := uint64(0); p < bytes/w.page && i < np; p++ {
				b.devs[i] = op.Dist[k]
				i++
			}
		}
	}
	for _, rm := range op.Remap {
		if rm[0] < np {
			w.d.Remap(c, b.va+uint64(rm[0])*w.page, w.page, rm[1])
			b.devs[rm[0]] = rm[1]
		}
	}
	cur := w.readAll()
	w.snap[b.va] = cur[b.va]
	w.emit("Map", ab.Rec{"b": b.id, "va": int(b.va), "n": int(b.n), "pages": w.pagesOf(b), "init": ints(cur[b.va])})
}

func (w *World) doFree(op *Op) {
	b := w.bufs[op.B]
	c, _ := w.ctxOf(b.ctx)
	if err := w.d.FreeMemory(c, driver.Ptr(b.va)); err != nil {
		panic(err)
	}
	b.freed = true
	delete(w.byVA, b.va)
	delete(w.snap, b.va)
	w.emit("Free", ab.Rec{"b": b.id, "va": int(b.va)})
}

func (w *World) doCopy(op *Op) {
	qi, own := w.queueFor(op)
	va := w.vaOf(op.B, op.Off)
	ty := op.Ty
	if ty == "" {
		ty = "u8"
	}
	if op.Op == "h2d" {
		raw := pattern(op.Seed, op.N)
		sanitize(ty, raw)
		src := typed(ty, raw)
		w.users[ptrOf(src)] = &userOp{raw: raw, ty: ty}
		w.d.EnqueueMemCopyH2D(qi.q, driver.Ptr(va), src)
	} else {
		dst := blank(ty, op.N)
		w.users[ptrOf(dst)] = &userOp{dst: dst, ty: ty}
		w.d.EnqueueMemCopyD2H(qi.q, dst, driver.Ptr(va))
	}
	if own {
		w.run(op.Pol)
	}
}

var dummyCO = &insts.KernelCodeObject{KernelCodeObjectMeta: &insts.KernelCodeObjectMeta{}}

func (w *World) doKern(op *Op) {
	qi, own := w.queueFor(op)
	if w.bench {
		// the harness GPUs do not execute anything: a launch only has its protocol effect
		w.kerns[qi.q] = append(w.kerns[qi.q], kernInfo{})
		w.d.Enqueue(qi.q, &driver.LaunchKernelCommand{ID: sim.GetIDGenerator().Generate(), CodeObject: dummyCO,
			Packet: &kernels.HsaKernelDispatchPacket{}})
	} else {
		dst, src := w.vaOf(op.Dst, op.Doff), w.vaOf(op.Src, op.Soff)
		w.kerns[qi.q] = append(w.kerns[qi.q], kernInfo{dst: dst, src: src, n: op.N})
		w.d.EnqueueMemCopyD2D(qi.q, driver.Ptr(dst), driver.Ptr(src), op.N)
		w.discover(qi.ctx)
	}
	if own {
		w.run(op.Pol)
	}
}

func (w *World) doAcc(op *Op) {
	if w.acc == nil {
		panic("storage accessor operations need the benchmagic world")
	}
	va := w.vaOf(op.B, op.Off)
	if op.Op == "accw" {
		raw := pattern(op.Seed, op.N)
		w.acc.Write(vm.PID(w.pid), va, raw)
		w.emit("AccW", ab.Rec{"va": int(va), "n": op.N, "d": ints(raw)})
	} else {
		data := w.acc.Read(vm.PID(w.pid), va, uint64(op.N))
		w.emit("AccR", ab.Rec{"va": int(va), "n": op.N, "d": ints(data)})
	}
	w.stoDiff()
}

func (w *World) doEnv(op *Op) {
	if !w.bench || w.magic {
		return
	}
	g := op.G
	if g < 1 || g > len(w.gpus) {
		return
	}
	w.d.TickLater()
	for i := 0; i < 3000 && w.pick(g, op.K) < 0; i++ {
		w.tick()
		w.drain()
		if w.beng.Pending() == 0 && w.port.PeekOutgoing() == nil && w.pick(g, op.K) < 0 {
			break
		}
	}
	if !w.answerKind(g, op.K) {
		w.stats["env_skipped"]++
		return
	}
	w.stats["env_done"]++
	// let the driver consume it
	for i := 0; i < 4; i++ {
		w.tick()
		w.drain()
	}
}

func (w *World) exec() {
	defer func() {
		if e := recover(); e != nil {
			w.dead = true
			w.stats["panics"]++
			w.emit("Panic", ab.Rec{"msg": fmt.Sprint(e), "cls": panicClass(fmt.Sprint(e))})
		}
	}()
	for i := range w.sc.Ops {
		if w.dead {
			return // a command hangs: the rest of the scenario would only queue up behind it
		}
		op := &w.sc.Ops[i]
		switch op.Op {
		case "ctx":
			w.newCtx()
		case "alloc":
			w.doAlloc(op)
		case "remap":
			w.doRemap(op)
		case "free":
			w.doFree(op)
		case "h2d", "d2h":
			w.doCopy(op)
		case "kern":
			w.doKern(op)
		case "accw", "accr":
			w.doAcc(op)
		case "env":
			w.doEnv(op)
		case "run":
			w.run(op.Pol)
		default:
			panic("unknown op " + op.Op)
		}
		w.stats["ops"]++
	}
	if w.dead {
		return
	}
	// leave nothing behind
	busy := false
	for _, qi := range w.queues {
		if qi.q.NumCommand() > 0 {
			busy = true
		}
	}
	if busy || (w.bench && (w.anyPending() || w.beng.Pending() > 0)) {
		w.run("fifo")
	}
}
