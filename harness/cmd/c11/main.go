// c11 drives the real host<->device copy code of mgpusim and writes ndjson
// traces for MemCopyTrace.tla (driver worlds) and DMATrace.tla (command
// processor + DMA engine).
//
//	c11 -mode api -scen scen.json -out trace.ndjson
//	c11 -mode api -random N -plats bench,benchmagic,emu,r9nano -seed S -out trace.ndjson [-dump scen.json]
//	c11 -mode dma -scen scen.json | -random N -seed S -out trace.ndjson [-dump scen.json]
package main

import (
	"bufio"
	"encoding/json"
	"flag"
	"fmt"
	"math/rand"
	"os"
	"strings"

	ab "verifharness/akitabench"
)

func load(path string, v interface{}) {
	data, err := os.ReadFile(path)
	if err != nil {
		panic(err)
	}
	if err := json.Unmarshal(data, v); err != nil {
		panic(err)
	}
}

func main() {
	mode := flag.String("mode", "api", "api | dma")
	scen := flag.String("scen", "", "scenario file (JSON list)")
	out := flag.String("out", "trace.ndjson", "trace output")
	nrand := flag.Int("random", 0, "number of seeded random scenarios")
	plats := flag.String("plats", "bench", "platforms of the random scenarios (api mode)")
	seed := flag.Int64("seed", 1, "seed")
	size := flag.Int("size", 14, "operations per random scenario")
	dump := flag.String("dump", "", "write the executed scenarios to this file")
	sysout := flag.String("sysout", "", "api mode, timing platforms: write the CP/DMA port events of every GPU as DMATrace traces")
	flag.Parse()

	// keep the sqlite files of simulation.Build out of the caller's directory
	if d := os.Getenv("C11_WORKDIR"); d != "" {
		if err := os.Chdir(d); err != nil {
			panic(err)
		}
	}
	f, err := os.Create(*out)
	if err != nil {
		panic(err)
	}
	bw := bufio.NewWriterSize(f, 1<<20)
	rec := ab.NewRecorder(bw)
	stats := map[string]int{}
	rng := rand.New(rand.NewSource(*seed))

	switch *mode {
	case "api":
		var scs []*Scenario
		if *scen != "" {
			load(*scen, &scs)
		}
		pl := strings.Split(*plats, ",")
		for i := 0; i < *nrand; i++ {
			scs = append(scs, randAPI(rng, pl[i%len(pl)], *size, fmt.Sprintf("rand-%d-%d", *seed, i)))
		}
		var srec *ab.Recorder
		var sw *bufio.Writer
		if *sysout != "" {
			sf, err := os.Create(*sysout)
			if err != nil {
				panic(err)
			}
			defer sf.Close()
			sw = bufio.NewWriterSize(sf, 1<<20)
			srec = ab.NewRecorder(sw)
		}
		for _, sc := range scs {
			w := newWorld(sc, rec, stats)
			w.exec()
			stats["sys_traces"] += w.flushSys(srec)
			w.close()
			stats["traces"]++
			stats["by_"+sc.Plat]++
		}
		if sw != nil {
			sw.Flush()
			stats["sys_events"] = srec.Seq
		}
		if *dump != "" {
			js, _ := json.Marshal(scs)
			os.WriteFile(*dump, js, 0o644)
		}
	case "dma":
		var scs []*DScenario
		if *scen != "" {
			load(*scen, &scs)
		}
		for i := 0; i < *nrand; i++ {
			scs = append(scs, randDMA(rng, fmt.Sprintf("rand-%d-%d", *seed, i)))
		}
		for _, sc := range scs {
			w := newDWorld(sc, rec, stats)
			w.exec()
			stats["traces"]++
		}
		if *dump != "" {
			js, _ := json.Marshal(scs)
			os.WriteFile(*dump, js, 0o644)
		}
	default:
		panic("unknown mode " + *mode)
	}
	bw.Flush()
	f.Close()
	stats["events"] = rec.Seq
	js, _ := json.Marshal(stats)
	fmt.Println(string(js))
}
