package main

import (
	"math/rand"
)

// randAPI builds a seeded scenario for one of the driver worlds: buffers of
// 1..4 pages (sizes on and around page multiples) placed on / distributed over
// 1..4 GPUs, copies whose offsets and lengths sit on and around line, page,
// buffer and GPU boundaries with every element type the API accepts, kernel
// launches that dirty the caches, several commands per queue, several queues,
// a second context of the same process and frees.
func randAPI(rng *rand.Rand, plat string, size int, tag string) *Scenario {
	sc := &Scenario{Plat: plat, Seed: rng.Int63(), Tag: tag}
	switch plat {
	case "bench":
		sc.GPUs = 1 + rng.Intn(4)
		sc.LP = []int{10, 10, 11, 12}[rng.Intn(4)]
		sc.H2DC, sc.D2HC = rng.Intn(6), rng.Intn(6)
		sc.Env = []string{"rand", "rand", "fifo", "pieceslast", "flushlast", "kernslow"}[rng.Intn(6)]
	case "benchmagic":
		sc.GPUs = 1 + rng.Intn(4)
		sc.LP = []int{10, 10, 11, 12}[rng.Intn(4)]
	case "emu":
		sc.GPUs = 1 + rng.Intn(3)
		sc.LP = 12
	default:
		sc.GPUs = 1 + rng.Intn(2)
		if rng.Intn(6) == 0 {
			sc.GPUs = 3 + rng.Intn(2)
		}
		sc.LP = 12
	}
	page := 1 << sc.LP
	line := 64
	nctx := 1
	if rng.Intn(8) == 0 {
		nctx = 2
	}
	canKern := plat != "benchmagic"
	canAcc := plat == "benchmagic"

	// ---- buffers
	nb := 2 + rng.Intn(3)
	sizes := make([]int, nb)
	ctxOf := make([]int, nb)
	freed := make([]bool, nb)
	for b := 0; b < nb; b++ {
		np := 1 + rng.Intn(3)
		if rng.Intn(5) == 0 {
			np = 4
		}
		n := np * page
		switch rng.Intn(6) {
		case 0:
			n -= 1
		case 1:
			n -= page / 2
		case 2:
			n -= page - 1
		}
		sizes[b] = n
		ctxOf[b] = 1 + rng.Intn(nctx)
		op := Op{Op: "alloc", B: b + 1, N: n, Ctx: ctxOf[b], GPU: 1 + rng.Intn(sc.GPUs)}
		if sc.GPUs > 1 && np > 1 && rng.Intn(2) == 0 {
			perm := rng.Perm(sc.GPUs)
			k := 2 + rng.Intn(sc.GPUs-1)
			for _, g := range perm[:k] {
				op.Dist = append(op.Dist, g+1)
			}
		} else if sc.GPUs > 1 && rng.Intn(3) == 0 {
			for p := 0; p < np; p++ {
				if rng.Intn(2) == 0 {
					op.Remap = append(op.Remap, [2]int{p, 1 + rng.Intn(sc.GPUs)})
				}
			}
		}
		sc.Ops = append(sc.Ops, op)
	}
	// extent reachable from buffer b without leaving live buffers' bytes
	reach := func(b int) int {
		n := sizes[b]
		for k := b; k+1 < nb && sizes[k]%page == 0 && !freed[k+1] && !freed[k]; k++ {
			n += sizes[k+1]
		}
		return n
	}
	edges := func(limit int) []int {
		c := []int{0, 1, 2, line - 1, line, line + 1, page - 1, page, page + 1, 2*page - 1, 2 * page, 2*page + 1,
			3 * page, limit - 1, limit, limit / 2, page + line, page - line}
		var out []int
		for _, x := range c {
			if x >= 0 && x <= limit {
				out = append(out, x)
			}
		}
		return out
	}
	// f32 (also inside the record type) is only read back right after it was written with the same
	// type: encoding/binary converts float32 through float64, which quiets signalling NaN patterns
	// that arbitrary device bytes may form.
	types := []string{"u8", "i8", "u16", "i16", "u32", "i32", "u64", "i64", "f64", "f32", "st"}
	anyBits := map[string]bool{"u8": true, "i8": true, "u16": true, "i16": true, "u32": true, "i32": true,
		"u64": true, "i64": true, "f64": true, "arr": true}
	within := false // true: ranges stay inside their buffer
	pickRange := func(b int) (int, int, string) {
		limit := sizes[b]
		if !within && rng.Intn(4) == 0 {
			limit = reach(b)
		}
		es := edges(limit)
		off := es[rng.Intn(len(es))]
		if off >= limit {
			off = limit - 1
		}
		ls := edges(limit - off)
		n := ls[rng.Intn(len(ls))]
		if rng.Intn(5) == 0 {
			n = 1 + rng.Intn(limit-off)
		}
		if n < 1 {
			n = 1
		}
		if n > limit-off {
			n = limit - off
		}
		ty := "u8"
		switch {
		case n == 14 && rng.Intn(2) == 0:
			ty = "arr"
		case n == 22 && rng.Intn(2) == 0:
			ty = "pst"
		case rng.Intn(3) > 0:
			t := types[rng.Intn(len(types))]
			if n%elemSize[t] == 0 {
				ty = t
			} else if n > elemSize[t] && rng.Intn(2) == 0 {
				n -= n % elemSize[t]
				ty = t
			}
		}
		return off, n, ty
	}
	live := func() []int {
		var l []int
		for b := 0; b < nb; b++ {
			if !freed[b] {
				l = append(l, b)
			}
		}
		return l
	}
	seed := rng.Intn(1 << 20)
	nq := 0
	// ---- initial contents for some buffers
	for b := 0; b < nb; b++ {
		if rng.Intn(3) > 0 {
			seed++
			sc.Ops = append(sc.Ops, Op{Op: "h2d", B: b + 1, Off: 0, N: sizes[b], Seed: seed, Ctx: ctxOf[b]})
		}
	}
	for i := 0; i < size; i++ {
		l := live()
		if len(l) == 0 {
			break
		}
		b := l[rng.Intn(len(l))]
		ctx := ctxOf[b]
		if nctx > 1 && rng.Intn(3) == 0 {
			ctx = 1 + rng.Intn(nctx)
		}
		switch x := rng.Intn(20); {
		case x < 7:
			off, n, ty := pickRange(b)
			seed++
			sc.Ops = append(sc.Ops, Op{Op: "h2d", B: b + 1, Off: off, N: n, Ty: ty, Seed: seed, Ctx: ctx})
		case x < 13:
			off, n, ty := pickRange(b)
			if !anyBits[ty] {
				// typed round trip
				seed++
				sc.Ops = append(sc.Ops, Op{Op: "h2d", B: b + 1, Off: off, N: n, Ty: ty, Seed: seed, Ctx: ctx})
			}
			sc.Ops = append(sc.Ops, Op{Op: "d2h", B: b + 1, Off: off, N: n, Ty: ty, Ctx: ctx})
		case x < 16 && canKern:
			op := Op{Op: "kern", Ctx: ctx, GPU: 1 + rng.Intn(sc.GPUs)}
			if plat != "bench" {
				if len(l) < 2 {
					continue
				}
				s := l[rng.Intn(len(l))]
				for s == b {
					s = l[rng.Intn(len(l))]
				}
				m := sizes[b]
				if sizes[s] < m {
					m = sizes[s]
				}
				if m < 8 {
					continue // buffers of a few bytes: nothing for the copy kernel to do
				}
				n := 4 * (1 + rng.Intn(m/4))
				if rng.Intn(2) == 0 {
					n = 4 * (1 + rng.Intn(48))
				}
				if n > m/4*4 {
					n = m / 4 * 4
				}
				doff, soff := 0, 0
				if sizes[b]-n >= 4 {
					doff = 4 * rng.Intn((sizes[b]-n)/4+1)
				}
				if sizes[s]-n >= 4 {
					soff = 4 * rng.Intn((sizes[s]-n)/4+1)
				}
				if plat == "emu" && rng.Intn(3) == 0 {
					// unaligned accesses: the emulator splits a 4-byte access that crosses a page
					if soff+n+3 <= sizes[s] {
						soff += 1 + rng.Intn(3)
					}
					if doff+n+3 <= sizes[b] {
						doff += 1 + rng.Intn(3)
					}
				}
				op.Dst, op.Doff, op.Src, op.Soff, op.N = b+1, doff, s+1, soff, n
			}
			sc.Ops = append(sc.Ops, op)
		case x < 16 && canAcc:
			off, n, _ := pickRange(b)
			if rng.Intn(2) == 0 {
				seed++
				sc.Ops = append(sc.Ops, Op{Op: "accw", B: b + 1, Off: off, N: n, Seed: seed})
			} else {
				sc.Ops = append(sc.Ops, Op{Op: "accr", B: b + 1, Off: off, N: n})
			}
		case x < 18:
			// several commands in one queue (and a second queue), then run
			nq++
			q1 := nq
			nq++
			q2 := nq
			k := 2 + rng.Intn(3)
			// commands of the two queues run concurrently: they work on different buffers
			own2 := l[rng.Intn(len(l))]
			within = true
			for j := 0; j < k; j++ {
				bb := l[rng.Intn(len(l))]
				q := q1
				if len(l) > 1 && rng.Intn(3) == 0 {
					q, bb = q2, own2
				} else if len(l) > 1 {
					for bb == own2 {
						bb = l[rng.Intn(len(l))]
					}
				}
				off, n, ty := pickRange(bb)
				if rng.Intn(2) == 0 || !anyBits[ty] {
					seed++
					sc.Ops = append(sc.Ops, Op{Op: "h2d", B: bb + 1, Off: off, N: n, Ty: ty, Seed: seed, Ctx: ctxOf[bb], Q: q})
				}
				if rng.Intn(2) == 0 || !anyBits[ty] {
					sc.Ops = append(sc.Ops, Op{Op: "d2h", B: bb + 1, Off: off, N: n, Ty: ty, Ctx: ctxOf[bb], Q: q})
				}
			}
			within = false
			sc.Ops = append(sc.Ops, Op{Op: "run"})
		case x == 19 && canKern && len(l) > 2:
			// a kernel of one queue runs while copies of another queue (on a buffer the kernel does not
			// touch) are processed; afterwards the kernel's output is read back
			d, s := l[0], l[1]
			o := l[2]
			if sizes[d] < 8 || sizes[s] < 8 {
				continue
			}
			nq++
			qk := nq
			nq++
			qc := nq
			kop := Op{Op: "kern", Ctx: ctxOf[d], GPU: 1 + rng.Intn(sc.GPUs), Q: qk}
			if plat != "bench" {
				m := sizes[d]
				if sizes[s] < m {
					m = sizes[s]
				}
				n := 4 * (1 + rng.Intn(64))
				if n > m/4*4 {
					n = m / 4 * 4
				}
				kop.Dst, kop.Src, kop.N = d+1, s+1, n
			}
			sc.Ops = append(sc.Ops, kop)
			within = true
			for j, k := 0, 3+rng.Intn(5); j < k; j++ {
				off, n, ty := pickRange(o)
				if rng.Intn(3) > 0 || !anyBits[ty] {
					seed++
					sc.Ops = append(sc.Ops, Op{Op: "h2d", B: o + 1, Off: off, N: n, Ty: ty, Seed: seed, Ctx: ctxOf[o], Q: qc})
				} else {
					sc.Ops = append(sc.Ops, Op{Op: "d2h", B: o + 1, Off: off, N: n, Ty: ty, Ctx: ctxOf[o], Q: qc})
				}
			}
			within = false
			sc.Ops = append(sc.Ops, Op{Op: "run"})
			sc.Ops = append(sc.Ops, Op{Op: "d2h", B: d + 1, Off: 0, N: sizes[d], Ctx: ctxOf[d]})
		case x == 18 && len(l) > 2 && rng.Intn(3) == 0:
			freed[b] = true
			sc.Ops = append(sc.Ops, Op{Op: "free", B: b + 1})
		default:
			off, n, ty := pickRange(b)
			if !anyBits[ty] {
				ty = "u8"
			}
			sc.Ops = append(sc.Ops, Op{Op: "d2h", B: b + 1, Off: off, N: n, Ty: ty, Ctx: ctx})
		}
	}
	// read everything back
	for _, b := range live() {
		sc.Ops = append(sc.Ops, Op{Op: "d2h", B: b + 1, Off: 0, N: sizes[b], Ctx: ctxOf[b]})
	}
	return sc
}
