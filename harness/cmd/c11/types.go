package main

import (
	"encoding/json"
	"fmt"
	"math"
)

// Elem is the record type used for the "st" element type: binary.Size = 22.
type Elem struct {
	A uint8
	B uint16
	C uint32
	D [3]uint8
	E float32
	F int64
}

// Arr is the fixed-size array value used for the "arr" element type: 14 bytes.
type Arr [7]uint16

var elemSize = map[string]int{
	"u8": 1, "i8": 1, "u16": 2, "i16": 2, "u32": 4, "i32": 4, "u64": 8, "i64": 8,
	"f32": 4, "f64": 8, "st": 22, "arr": 14, "pst": 22,
}

func le(raw []byte, n int) uint64 {
	var v uint64
	for i := 0; i < n; i++ {
		v |= uint64(raw[i]) << (8 * i)
	}
	return v
}

func putle(raw []byte, n int, v uint64) {
	for i := 0; i < n; i++ {
		raw[i] = byte(v >> (8 * i))
	}
}

// sanitize makes the raw image safe for floating-point element types (no NaNs:
// their payload is not guaranteed to survive a load/store on every host).
func sanitize(ty string, raw []byte) {
	switch ty {
	case "f32":
		for i := 0; i+4 <= len(raw); i += 4 {
			if raw[i+3]&0x7f == 0x7f {
				raw[i+3] &^= 0x40
			}
		}
	case "f64":
		for i := 0; i+8 <= len(raw); i += 8 {
			if raw[i+7]&0x7f == 0x7f {
				raw[i+7] &^= 0x40
			}
		}
	case "st", "pst":
		for i := 0; i+22 <= len(raw); i += 22 {
			if raw[i+13]&0x7f == 0x7f {
				raw[i+13] &^= 0x40
			}
		}
	}
}

// typed builds the host value of element type ty whose little-endian image is
// raw (written independently of encoding/binary, which the driver uses).
func typed(ty string, raw []byte) interface{} {
	sz := elemSize[ty]
	if sz == 0 || len(raw)%sz != 0 {
		panic(fmt.Sprintf("typed: %d bytes cannot be %s", len(raw), ty))
	}
	n := len(raw) / sz
	switch ty {
	case "u8":
		return append([]byte{}, raw...)
	case "i8":
		v := make([]int8, n)
		for i := range v {
			v[i] = int8(raw[i])
		}
		return v
	case "u16":
		v := make([]uint16, n)
		for i := range v {
			v[i] = uint16(le(raw[2*i:], 2))
		}
		return v
	case "i16":
		v := make([]int16, n)
		for i := range v {
			v[i] = int16(le(raw[2*i:], 2))
		}
		return v
	case "u32":
		v := make([]uint32, n)
		for i := range v {
			v[i] = uint32(le(raw[4*i:], 4))
		}
		return v
	case "i32":
		v := make([]int32, n)
		for i := range v {
			v[i] = int32(le(raw[4*i:], 4))
		}
		return v
	case "u64":
		v := make([]uint64, n)
		for i := range v {
			v[i] = le(raw[8*i:], 8)
		}
		return v
	case "i64":
		v := make([]int64, n)
		for i := range v {
			v[i] = int64(le(raw[8*i:], 8))
		}
		return v
	case "f32":
		v := make([]float32, n)
		for i := range v {
			v[i] = math.Float32frombits(uint32(le(raw[4*i:], 4)))
		}
		return v
	case "f64":
		v := make([]float64, n)
		for i := range v {
			v[i] = math.Float64frombits(le(raw[8*i:], 8))
		}
		return v
	case "st":
		v := make([]Elem, n)
		for i := range v {
			v[i] = elemOf(raw[22*i:])
		}
		return v
	case "pst":
		if n != 1 {
			panic("pst holds one record")
		}
		e := elemOf(raw)
		return &e
	case "arr":
		if n != 1 {
			panic("arr holds one array")
		}
		var a Arr
		for i := range a {
			a[i] = uint16(le(raw[2*i:], 2))
		}
		return &a
	}
	panic("unknown element type " + ty)
}

func elemOf(r []byte) Elem {
	return Elem{A: r[0], B: uint16(le(r[1:], 2)), C: uint32(le(r[3:], 4)), D: [3]uint8{r[7], r[8], r[9]},
		E: math.Float32frombits(uint32(le(r[10:], 4))), F: int64(le(r[14:], 8))}
}

func elemTo(r []byte, e Elem) {
	r[0] = e.A
	putle(r[1:], 2, uint64(e.B))
	putle(r[3:], 4, uint64(e.C))
	r[7], r[8], r[9] = e.D[0], e.D[1], e.D[2]
	putle(r[10:], 4, uint64(math.Float32bits(e.E)))
	putle(r[14:], 8, uint64(e.F))
}

// blank builds a zero host value of type ty that can receive nbytes bytes.
func blank(ty string, nbytes int) interface{} {
	return typed(ty, make([]byte, nbytes))
}

// image returns the little-endian byte image of a host value built by typed/blank.
func image(v interface{}) []byte {
	switch x := v.(type) {
	case []byte:
		return append([]byte{}, x...)
	case []int8:
		r := make([]byte, len(x))
		for i, e := range x {
			r[i] = byte(e)
		}
		return r
	case []uint16:
		r := make([]byte, 2*len(x))
		for i, e := range x {
			putle(r[2*i:], 2, uint64(e))
		}
		return r
	case []int16:
		r := make([]byte, 2*len(x))
		for i, e := range x {
			putle(r[2*i:], 2, uint64(uint16(e)))
		}
		return r
	case []uint32:
		r := make([]byte, 4*len(x))
		for i, e := range x {
			putle(r[4*i:], 4, uint64(e))
		}
		return r
	case []int32:
		r := make([]byte, 4*len(x))
		for i, e := range x {
			putle(r[4*i:], 4, uint64(uint32(e)))
		}
		return r
	case []uint64:
		r := make([]byte, 8*len(x))
		for i, e := range x {
			putle(r[8*i:], 8, e)
		}
		return r
	case []int64:
		r := make([]byte, 8*len(x))
		for i, e := range x {
			putle(r[8*i:], 8, uint64(e))
		}
		return r
	case []float32:
		r := make([]byte, 4*len(x))
		for i, e := range x {
			putle(r[4*i:], 4, uint64(math.Float32bits(e)))
		}
		return r
	case []float64:
		r := make([]byte, 8*len(x))
		for i, e := range x {
			putle(r[8*i:], 8, math.Float64bits(e))
		}
		return r
	case []Elem:
		r := make([]byte, 22*len(x))
		for i, e := range x {
			elemTo(r[22*i:], e)
		}
		return r
	case *Elem:
		r := make([]byte, 22)
		elemTo(r, *x)
		return r
	case *Arr:
		r := make([]byte, 14)
		for i, e := range x {
			putle(r[2*i:], 2, uint64(e))
		}
		return r
	}
	panic(fmt.Sprintf("image: unsupported %T", v))
}

func ints(b []byte) []int {
	out := make([]int, len(b))
	for i, x := range b {
		out[i] = int(x)
	}
	return out
}

func mustJSON(v interface{}) string {
	b, err := json.Marshal(v)
	if err != nil {
		panic(err)
	}
	return string(b)
}
