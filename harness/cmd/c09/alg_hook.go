//go:build c09hook

package main

import "github.com/sarchlab/mgpusim/v4/amd/timing/cp"

// hookAvailable: this binary was built against a tree that has amd/timing/cp/verif_export.go
// (fixes/C09-hook-dispatch-alg.diff).
const hookAvailable = true

func rebuildDispatchers(p *cp.CommandProcessor, alg string, n int, cus []cp.CUInterfaceForCP, overhead [3]int) {
	cp.VerifRebuildDispatchers(p, alg, n, cus, overhead)
}
