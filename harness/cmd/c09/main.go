// c09 drives the real cp.CommandProcessor (public cp.MakeBuilder) with compute
// units of finite resources under harness control and writes a port-event
// trace for DispatchTrace.tla.
//
// The CUs are either scripted fakes (they implement cp.CUInterfaceForCP and
// report finite wavefront slots / SGPRs / VGPRs / LDS; the harness decides when
// and in which order and batches they report work-groups complete) or real
// emulation CUs (emu.ComputeUnit, mode -emu) wired to the CP through the
// harness.
package main

import (
	"bufio"
	"encoding/json"
	"flag"
	"fmt"
	"io"
	"log"
	"math/rand"
	"os"
	"sort"
	"strings"

	"github.com/sarchlab/akita/v4/mem/vm"
	"github.com/sarchlab/akita/v4/sim"
	"github.com/sarchlab/mgpusim/v4/amd/insts"
	"github.com/sarchlab/mgpusim/v4/amd/kernels"
	"github.com/sarchlab/mgpusim/v4/amd/protocol"
	"github.com/sarchlab/mgpusim/v4/amd/timing/cp"

	ab "verifharness/akitabench"
)

// hardware allocation granularity of the dispatcher's resource pool; only used to *generate* kernels that
// fit the CUs and to size full-CU probe kernels, never as an oracle
const (
	granS = 16
	granV = 4
	granL = 256
)

// CUCfg describes the resources one compute unit reports to the CP.
type CUCfg struct {
	Slots []int `json:"slots"` // wavefront slots per SIMD
	SRegs int   `json:"sregs"` // scalar registers
	VRegs []int `json:"vregs"` // vector registers per lane, per SIMD
	LDS   int   `json:"lds"`   // bytes
}

// KDesc describes a kernel launch.
type KDesc struct {
	Grid [3]int `json:"grid"`
	WG   [3]int `json:"wg"`
	S    int    `json:"s"` // SGPRs per wavefront
	V    int    `json:"v"` // VGPRs per work-item
	L    int    `json:"l"` // LDS bytes per work-group
	PID  int    `json:"pid"`
	Mod  int    `json:"mod,omitempty"` // WG filter: keep work-groups with (x+y+z) % Mod == Rem
	Rem  int    `json:"rem,omitempty"`
}

// Step is one environment step of a scenario.
type Step struct {
	A   string   `json:"a"`
	K   *KDesc   `json:"kd,omitempty"`
	WGs [][2]int `json:"wgs,omitempty"` // EnvComplete: (kernel, work-group) pairs
	E   string   `json:"e,omitempty"`
	N   int      `json:"n,omitempty"`
}

// Scenario is a configuration plus environment steps.
type Scenario struct {
	CUs      []CUCfg `json:"cus"`
	NDisp    int     `json:"ndisp"`
	Overhead [3]int  `json:"overhead"` // launch, subsequent launch, kernel completion
	Probe    bool    `json:"probe"`
	Alg      string  `json:"alg,omitempty"` // "", "round-robin", "greedy", "partition" (the last two need the verif hook)
	PortCap  int     `json:"portcap,omitempty"` // capacity of the CP's ToCUs port buffers (0 = the builder's 4096; else needs the hook)
	Steps    []Step  `json:"steps"`
}

type fakeCU struct {
	name string
	cfg  CUCfg
}

func (c *fakeCU) DispatchingPort() sim.RemotePort { return sim.RemotePort(c.name + ".ToACE") }
func (c *fakeCU) ControlPort() sim.RemotePort     { return sim.RemotePort(c.name + ".ToCP") }
func (c *fakeCU) WfPoolSizes() []int              { return append([]int{}, c.cfg.Slots...) }
func (c *fakeCU) VRegCounts() []int {
	out := make([]int, len(c.cfg.VRegs))
	for i, v := range c.cfg.VRegs {
		out[i] = v * 64
	}
	return out
}
func (c *fakeCU) SRegCount() int { return c.cfg.SRegs }
func (c *fakeCU) LDSBytes() int  { return c.cfg.LDS }

type kernel struct {
	id   int
	desc KDesc
	req  *protocol.LaunchKernelReq
	nx   int
	ny   int
	wgs  [][2]int // (flat id, #wavefronts)
	rsp  bool
}

// pendingMsg remembers what a delivered completion message carried, to notice a dispatcher taking its share
// out of it (the message object is the harness's own: no port access is needed to look at it).
type pendingMsg struct {
	msg  *protocol.WGCompletionMsg
	left []string
}

type mapInfo struct {
	m   int
	k   int
	w   int
	cu  int // 1-based, 0 unknown
	req *protocol.MapWGReq
}

type run struct {
	rec      *ab.Recorder
	eng      *ab.Engine
	cp       *cp.CommandProcessor
	toDriver sim.Port
	toCUs    sim.Port
	drvPort  sim.Port
	cfg      []CUCfg
	cuIndex  map[sim.RemotePort]int
	resident [][]*mapInfo // per CU (0-based), in arrival order
	kernels  []*kernel
	byPacket map[*kernels.HsaKernelDispatchPacket]*kernel
	byReqID  map[string]*kernel
	maps     map[string]*mapInfo
	byWG     map[[2]int]*mapInfo
	count    map[string]int
	awaited  map[string]int
	nev      int
	pcap     int
	evScale  int
	runaway  bool
	stats    map[string]int
	inPort   []*pendingMsg // completion messages delivered to the CP and not yet retrieved by it
	cyc      int
	dead     bool
	lastIdle bool
	emu      *emuSide
}

// maxEvents bounds one run's trace: a CP that never goes idle (e.g. one that keeps sending) is cut off;
// the prefix recorded so far is still validated.  (Runs with hundreds of work-groups get a larger bound.)
const maxEvents = 20000

func (r *run) emit(e string, f ab.Rec) {
	r.nev++
	if r.nev > maxEvents*r.evScale {
		r.dead, r.runaway = true, true
		return
	}
	r.count[e]++
	r.lastIdle = e == "Idle"
	r.rec.Emit(e, f)
}

func nwfOf(items int) int { return (items + 63) / 64 }

// expected work-groups of a launch, computed from the launch geometry alone
func expectedWGs(d KDesc) (nx, ny int, wgs [][2]int) {
	n := [3]int{}
	for i := 0; i < 3; i++ {
		n[i] = (d.Grid[i]-1)/d.WG[i] + 1
	}
	nx, ny = n[0], n[1]
	for z := 0; z < n[2]; z++ {
		for y := 0; y < n[1]; y++ {
			for x := 0; x < n[0]; x++ {
				if d.Mod > 0 && (x+y+z)%d.Mod != d.Rem {
					continue
				}
				sz := 1
				for i, id := range [3]int{x, y, z} {
					left := d.Grid[i] - id*d.WG[i]
					if left > d.WG[i] {
						left = d.WG[i]
					}
					sz *= left
				}
				wgs = append(wgs, [2]int{x + y*n[0] + z*n[0]*n[1], nwfOf(sz)})
			}
		}
	}
	return
}

func unitsOf(amount, gran int) int { return (amount + gran - 1) / gran }

// fitsIdle tells whether one work-group with nwf wavefronts of the kernel fits an idle CU (harness-side
// hardware model, used for generation and for the `fit` hint of Launch lines only).
func fitsIdle(c CUCfg, d KDesc, nwf int) bool {
	if nwf > 16 {
		return false
	}
	if c.SRegs >= 0 && nwf*unitsOf(d.S, granS) > c.SRegs/granS {
		return false
	}
	if c.LDS >= 0 && unitsOf(d.L, granL) > c.LDS/granL {
		return false
	}
	places := 0
	vu := unitsOf(d.V, granV)
	for i, s := range c.Slots {
		p := s
		if c.VRegs[i] >= 0 && vu > 0 {
			if q := (c.VRegs[i] / granV) / vu; q < p {
				p = q
			}
		}
		places += p
		if places >= nwf {
			return true
		}
	}
	return places >= nwf
}

func maxNwf(wgs [][2]int) int {
	m := 0
	for _, w := range wgs {
		if w[1] > m {
			m = w[1]
		}
	}
	return m
}

func newRun(rec *ab.Recorder, sc *Scenario, emu bool) *run {
	r := &run{rec: rec, eng: ab.NewEngine(), cfg: sc.CUs, cuIndex: map[sim.RemotePort]int{},
		byPacket: map[*kernels.HsaKernelDispatchPacket]*kernel{}, byReqID: map[string]*kernel{},
		maps: map[string]*mapInfo{}, byWG: map[[2]int]*mapInfo{}, count: map[string]int{}, awaited: map[string]int{},
		stats: map[string]int{}, evScale: 1, pcap: 4096}
	if sc.PortCap > 0 {
		r.pcap = sc.PortCap
	}
	rec.ResetIDs()
	b := cp.MakeBuilder().WithEngine(r.eng).WithFreq(1 * sim.GHz).
		WithConstantKernelLaunchOverhead(sc.Overhead[0]).
		WithSubsequentKernelLaunchOverhead(sc.Overhead[1]).
		WithConstantKernelOverhead(sc.Overhead[2])
	var all []cp.CUInterfaceForCP
	if emu {
		r.emu = newEmuSide(r, len(sc.CUs))
		for i, cu := range r.emu.cus {
			b = b.WithCU(cu)
			all = append(all, cu)
			r.cuIndex[cu.DispatchingPort()] = i + 1
		}
	} else {
		for i, c := range sc.CUs {
			cu := &fakeCU{name: fmt.Sprintf("CU%d", i+1), cfg: c}
			b = b.WithCU(cu)
			all = append(all, cu)
			r.cuIndex[cu.DispatchingPort()] = i + 1
		}
	}
	r.resident = make([][]*mapInfo, len(sc.CUs))
	r.cp = b.Build("CP")
	nd := sc.NDisp
	if nd <= 0 || nd > len(r.cp.Dispatchers) {
		nd = len(r.cp.Dispatchers)
	}
	if sc.PortCap > 0 || (sc.Alg != "" && sc.Alg != "round-robin") {
		alg := sc.Alg
		if alg == "" {
			alg = "round-robin"
		}
		if sc.PortCap > 0 {
			// a CP whose CU-facing port holds only a few messages: the hook builds the dispatchers on the
			// port found in the (public) field ToCUs
			r.cp.ToCUs = sim.NewPort(r.cp, 4096, sc.PortCap, "CP.ToCUs")
		}
		rebuildDispatchers(r.cp, alg, nd, all, sc.Overhead)
	} else {
		r.cp.Dispatchers = r.cp.Dispatchers[:nd] // public field: fewer dispatchers than the builder's 8
	}
	conn := ab.NewConn("Conn")
	for _, n := range []string{"ToDriver", "ToDispatcher", "ToTLBs", "ToRDMA", "ToPMC", "ToAddressTranslators", "ToCaches"} {
		conn.PlugIn(r.cp.GetPortByName(n))
	}
	conn.PlugIn(r.cp.ToCUs)
	r.toDriver, r.toCUs = r.cp.GetPortByName("ToDriver"), r.cp.ToCUs
	r.drvPort = sim.NewPort(nil, 1, 1, "Driver.ToGPUs")
	r.cp.Driver = r.drvPort

	r.toDriver.AcceptHook(ab.HookFn(func(ctx sim.HookCtx) {
		switch m := ctx.Item.(type) {
		case *protocol.LaunchKernelReq:
			k := r.byReqID[m.ID]
			switch ctx.Pos {
			case sim.HookPosPortMsgRecvd:
				fit := []int{}
				for i, c := range r.cfg {
					if len(k.wgs) > 0 && fitsIdle(c, k.desc, maxNwf(k.wgs)) {
						fit = append(fit, i+1)
					}
				}
				wgs := k.wgs
				if wgs == nil {
					wgs = [][2]int{}
				}
				r.emit("Launch", ab.Rec{"k": k.id, "wgs": wgs, "s": k.desc.S, "v": k.desc.V, "l": k.desc.L,
					"pid": k.desc.PID, "fit": fit})
			case sim.HookPosPortMsgRetrieveIncoming:
				r.emit("Start", ab.Rec{"k": k.id})
			}
		case *protocol.LaunchKernelRsp:
			kid := 0
			if k, ok := r.byReqID[m.RspTo]; ok && m.Dst == k.req.Src && m.Src == k.req.Dst {
				kid = k.id // (a response that does not travel back to the requester answers no launch: k = 0)
			}
			switch ctx.Pos {
			case sim.HookPosPortMsgSend:
				r.emit("Rsp", ab.Rec{"k": kid, "dst": string(m.Dst)})
			case sim.HookPosPortMsgRetrieveOutgoing:
				r.emit("TakeRsp", ab.Rec{"k": kid})
			}
		}
	}))
	r.toCUs.AcceptHook(ab.HookFn(func(ctx sim.HookCtx) {
		switch m := ctx.Item.(type) {
		case *protocol.MapWGReq:
			switch ctx.Pos {
			case sim.HookPosPortMsgSend:
				r.onMapSent(m)
			case sim.HookPosPortMsgRetrieveOutgoing:
				r.emit("TakeMap", ab.Rec{"m": rec.ID("map", m.ID)})
			}
		case *protocol.WGCompletionMsg:
			switch ctx.Pos {
			case sim.HookPosPortMsgRecvd:
				ids := []int{}
				c := r.cuIndex[m.Src]
				for _, id := range m.RspTo {
					v, ok := rec.Known("map", id)
					if !ok {
						v = 0
					}
					ids = append(ids, v)
				}
				r.emit("Complete", ab.Rec{"mid": rec.ID("cmsg", m.ID), "c": c, "ids": ids})
				r.inPort = append(r.inPort, &pendingMsg{msg: m, left: append([]string{}, m.RspTo...)})
			case sim.HookPosPortMsgRetrieveIncoming:
				r.dropPending(m)
				r.noteStrips()
				r.emit("Consume", ab.Rec{"mid": rec.ID("cmsg", m.ID)})
			}
		}
	}))
	return r
}

// noteStrips emits a Strip line for every pending completion message that lost ids since it was last looked at.
func (r *run) noteStrips() {
	for _, p := range r.inPort {
		if len(p.msg.RspTo) >= len(p.left) {
			continue
		}
		still := map[string]bool{}
		for _, id := range p.msg.RspTo {
			still[id] = true
		}
		gone := []int{}
		for _, id := range p.left {
			if !still[id] {
				v, _ := r.rec.Known("map", id)
				gone = append(gone, v)
			}
		}
		p.left = append([]string{}, p.msg.RspTo...)
		if len(p.left) > 0 {
			r.emit("Strip", ab.Rec{"mid": r.rec.ID("cmsg", p.msg.ID), "ids": gone})
		}
	}
}

func (r *run) dropPending(m *protocol.WGCompletionMsg) {
	keep := r.inPort[:0]
	for _, p := range r.inPort {
		if p.msg != m {
			keep = append(keep, p)
		}
	}
	r.inPort = keep
}

func (r *run) onMapSent(m *protocol.MapWGReq) {
	r.noteStrips()
	kid, w := 0, -1
	if m.WorkGroup != nil {
		if k, ok := r.byPacket[m.WorkGroup.Packet]; ok {
			kid = k.id
			w = m.WorkGroup.IDX + m.WorkGroup.IDY*k.nx + m.WorkGroup.IDZ*k.nx*k.ny
		}
	}
	mi := &mapInfo{m: r.rec.ID("map", m.ID), k: kid, w: w, cu: r.cuIndex[m.Dst], req: m}
	r.maps[m.ID] = mi
	if _, dup := r.byWG[[2]int{kid, w}]; !dup {
		r.byWG[[2]int{kid, w}] = mi
	}
	locs := [][]int{}
	aligned := 1 // offsets are whole registers and location i carries wavefront i of the work-group
	if m.WorkGroup == nil || len(m.Wavefronts) != len(m.WorkGroup.Wavefronts) {
		aligned = 0
	}
	for i, l := range m.Wavefronts {
		if l.SGPROffset%4 != 0 || l.VGPROffset%4 != 0 {
			aligned = 0
		}
		if aligned == 1 && l.Wavefront != m.WorkGroup.Wavefronts[i] {
			aligned = 0
		}
		locs = append(locs, []int{l.SIMDID, l.SGPROffset / 4, l.VGPROffset / 4, l.LDSOffset})
	}
	r.emit("MapWG", ab.Rec{"m": mi.m, "k": kid, "w": w, "c": mi.cu, "locs": locs, "pid": int(m.PID),
		"al": aligned, "src": string(m.Src)})
}

// tick advances n cycles; a panic of the real code is recorded and ends the run.
func (r *run) tick(n int) {
	for i := 0; i < n && !r.dead; i++ {
		r.cyc++
		r.runUntil(ab.Cycle(r.cyc))
	}
}

func (r *run) runUntil(t sim.VTimeInSec) {
	defer func() {
		if p := recover(); p != nil {
			r.dead = true
			r.emit("Panic", ab.Rec{"msg": fmt.Sprint(p), "cycle": fmt.Sprint(r.cyc)})
		}
	}()
	r.eng.RunUntil(t)
	r.noteStrips()
	if r.emu != nil {
		r.emu.shuttle()
	}
	if r.eng.Pending() == 0 && !r.lastIdle {
		r.emit("Idle", ab.Rec{"cycle": fmt.Sprint(r.cyc)})
	}
}

// await ticks until cond holds: at most max cycles, and not at all once the CP sleeps (no event pending:
// ticking cannot change anything before the next environment step).
func (r *run) await(max int, cond func() bool) bool {
	for i := 0; i < max && !cond() && !r.dead; i++ {
		if i > 0 && r.eng.Pending() == 0 {
			break
		}
		r.tick(1)
	}
	return cond()
}

func (r *run) launch(d KDesc) bool {
	if r.dead {
		return false
	}
	if d.PID == 0 {
		d.PID = 1
	}
	k := &kernel{id: len(r.kernels) + 1, desc: d}
	k.nx, k.ny, k.wgs = expectedWGs(d)
	co := &insts.KernelCodeObject{KernelCodeObjectMeta: &insts.KernelCodeObjectMeta{
		WIVgprCount: uint16(d.V), WFSgprCount: uint16(d.S), GroupSegmentByteSize: uint32(d.L)}}
	pkt := &kernels.HsaKernelDispatchPacket{
		GridSizeX: uint32(d.Grid[0]), GridSizeY: uint32(d.Grid[1]), GridSizeZ: uint32(d.Grid[2]),
		WorkgroupSizeX: uint16(d.WG[0]), WorkgroupSizeY: uint16(d.WG[1]), WorkgroupSizeZ: uint16(d.WG[2]),
		GroupSegmentSize: uint32(d.L)}
	if r.emu != nil {
		r.emu.prepare(co, pkt)
	}
	req := protocol.NewLaunchKernelReq(r.drvPort, r.toDriver)
	req.CodeObject, req.Packet, req.PID = co, pkt, vm.PID(d.PID)
	if d.Mod > 0 {
		mod, rem := d.Mod, d.Rem
		req.WGFilter = func(_ *kernels.HsaKernelDispatchPacket, wg *kernels.WorkGroup) bool {
			return (wg.IDX+wg.IDY+wg.IDZ)%mod == rem
		}
	}
	k.req = req
	r.byPacket[pkt] = k
	r.byReqID[req.ID] = k
	if r.toDriver.Deliver(req) != nil {
		delete(r.byPacket, pkt)
		delete(r.byReqID, req.ID)
		return false
	}
	r.kernels = append(r.kernels, k)
	return true
}

// takeMap moves one MapWGReq from the CP's port to its CU.
func (r *run) takeMap() bool {
	if r.dead {
		return false
	}
	m := r.toCUs.RetrieveOutgoing()
	if m == nil {
		return false
	}
	mw, ok := m.(*protocol.MapWGReq)
	if !ok {
		return true
	}
	mi := r.maps[mw.ID]
	if r.emu != nil {
		r.emu.deliver(mw)
		return true
	}
	if mi != nil && mi.cu > 0 {
		r.resident[mi.cu-1] = append(r.resident[mi.cu-1], mi)
	}
	return true
}

// complete makes CU c (0-based) report the given resident work-groups complete in one message.
func (r *run) complete(c int, which []*mapInfo) bool {
	if r.dead || len(which) == 0 {
		return false
	}
	ids := make([]string, len(which))
	for i, mi := range which {
		ids[i] = mi.req.ID
	}
	msg := protocol.WGCompletionMsgBuilder{}.WithSrc(which[0].req.Dst).WithDst(r.toCUs.AsRemote()).WithRspTo(ids).Build()
	if r.toCUs.Deliver(msg) != nil {
		return false
	}
	keep := r.resident[c][:0]
	for _, mi := range r.resident[c] {
		gone := false
		for _, x := range which {
			if x == mi {
				gone = true
			}
		}
		if !gone {
			keep = append(keep, mi)
		}
	}
	r.resident[c] = keep
	r.stats["completion_msgs"]++
	if len(which) > 1 {
		r.stats["batched_msgs"]++
		for _, x := range which {
			if x.k != which[0].k {
				r.stats["cross_kernel_batches"]++
				break
			}
		}
	}
	return true
}

func (r *run) takeRsp() bool {
	if r.dead {
		return false
	}
	m := r.toDriver.RetrieveOutgoing()
	if m == nil {
		return false
	}
	if rsp, ok := m.(*protocol.LaunchKernelRsp); ok {
		if k, ok := r.byReqID[rsp.RspTo]; ok {
			k.rsp = true
		}
	}
	return true
}

const awaitMax = 24

var verbose bool

func (r *run) step(s Step) {
	ok := true
	switch s.A {
	case "EnvLaunch":
		ok = r.launch(*s.K)
	case "EnvTakeMap":
		r.await(awaitMax, func() bool { return r.toCUs.PeekOutgoing() != nil })
		ok = r.takeMap()
	case "EnvComplete":
		present := func() bool {
			for _, kw := range s.WGs {
				mi := r.byWG[kw]
				if mi == nil || !r.isResident(mi) {
					return false
				}
			}
			return true
		}
		for i := 0; i < awaitMax && !present() && !r.dead; i++ {
			if !r.takeMap() {
				if i > 0 && r.eng.Pending() == 0 {
					break
				}
				r.tick(1)
			}
		}
		// complete whatever of the requested set is resident, one message per CU
		byCU := map[int][]*mapInfo{}
		for _, kw := range s.WGs {
			if mi := r.byWG[kw]; mi != nil && r.isResident(mi) {
				byCU[mi.cu-1] = append(byCU[mi.cu-1], mi)
			}
		}
		if len(byCU) == 0 {
			// the real CP gave the CU to another work-group than the behaviour did (the model leaves the
			// order of dispatchers free): keep the scenario moving with the oldest resident work-group
			var oldest *mapInfo
			for c := range r.resident {
				for _, mi := range r.resident[c] {
					if oldest == nil || mi.m < oldest.m {
						oldest = mi
					}
				}
			}
			if oldest != nil {
				byCU[oldest.cu-1] = []*mapInfo{oldest}
				r.stats["complete_substituted"]++
			}
		}
		ok = len(byCU) > 0
		cs := []int{}
		for c := range byCU {
			cs = append(cs, c)
		}
		sort.Ints(cs)
		for _, c := range cs {
			ok = r.complete(c, byCU[c]) && ok
		}
	case "EnvTakeRsp":
		r.await(awaitMax, func() bool { return r.toDriver.PeekOutgoing() != nil })
		ok = r.takeRsp()
	case "Await":
		// the n-th await of an event kind is satisfied once n such events happened (the real CP may have
		// done several of them in one tick already)
		r.awaited[s.E]++
		n := r.awaited[s.E]
		ok = r.await(awaitMax, func() bool { return r.count[s.E] >= n })
		if !ok {
			r.awaited[s.E] = r.count[s.E]
		}
	case "Tick":
		n := s.N
		if n == 0 {
			n = 1
		}
		r.tick(n)
	default:
		panic("unknown step " + s.A)
	}
	if verbose {
		r.rec.Emit("Step", ab.Rec{"a": s.A, "ev": s.E, "wgs": s.WGs, "ok": ok})
	}
	if ok {
		r.stats["steps_done"]++
	} else {
		r.stats["steps_skipped"]++
		r.stats["skipped_"+s.A+s.E]++
	}
}

func (r *run) isResident(mi *mapInfo) bool {
	if mi.cu < 1 {
		return false
	}
	for _, x := range r.resident[mi.cu-1] {
		if x == mi {
			return true
		}
	}
	return false
}

func (r *run) allAnswered() bool {
	for _, k := range r.kernels {
		if !k.rsp {
			return false
		}
	}
	return true
}

// drain serves the CP until it and the environment have nothing left to do: every map request is
// delivered, every resident work-group completes (oldest first, one message each), every response is
// taken.  Returns false when the bound was hit (infrastructure problem, never a verdict).
func (r *run) drain(hold bool) bool {
	for i := 0; !r.dead; i++ {
		if i >= 20000 {
			r.dead, r.runaway = true, true
			break
		}
		progress := false
		for r.takeMap() {
			progress = true
		}
		if !hold && r.emu == nil {
			for c := range r.resident {
				if len(r.resident[c]) > 0 {
					progress = r.complete(c, r.resident[c][:1]) || progress
				}
			}
		}
		for r.takeRsp() {
			progress = true
		}
		before := r.eng.Events
		if t, ok := r.eng.NextTime(); ok && t > ab.Cycle(r.cyc+1) {
			// nothing due next cycle: jump to the next event (emulation events sit seconds away)
			r.cyc = int(float64(t)*1e9+0.5) - 1
		}
		r.tick(1)
		if r.eng.Events != before {
			progress = true
		}
		if !progress && r.eng.Pending() == 0 {
			return true
		}
	}
	return r.dead
}

// probe launches one kernel whose work-groups each need a whole CU, withholds every completion until the
// CP goes idle (all CUs must then hold one work-group: resources were all returned), then lets go.
func (r *run) probe() {
	if r.dead || r.emu != nil || !r.allAnswered() {
		return
	}
	c0 := r.cfg[0]
	for _, c := range r.cfg[1:] {
		if fmt.Sprint(c) != fmt.Sprint(c0) {
			return
		}
	}
	nwf := 0
	for _, s := range c0.Slots {
		nwf += s
	}
	if nwf < 1 || nwf > 16 {
		return
	}
	// every SIMD must be filled exactly by its slots, every wavefront takes the same share
	sUnits, lds := c0.SRegs/granS, c0.LDS
	if sUnits%nwf != 0 {
		return
	}
	vu := -1
	for i, s := range c0.Slots {
		u := c0.VRegs[i] / granV
		if s == 0 || u%s != 0 || (vu >= 0 && u/s != vu) {
			return
		}
		vu = u / s
	}
	d := KDesc{Grid: [3]int{64 * nwf * len(r.cfg), 1, 1}, WG: [3]int{64 * nwf, 1, 1},
		S: sUnits / nwf * granS, V: vu * granV, L: lds, PID: 1}
	if !r.launch(d) {
		return
	}
	r.stats["probes"]++
	r.drain(true) // ends with the CP idle and every completion withheld
}

func (r *run) finish(probe bool) bool {
	ok := r.drain(false)
	if probe && ok && !r.dead {
		r.probe()
		ok = r.drain(false)
	}
	if !r.dead {
		r.emit("Quiesce", ab.Rec{"pending_events": r.eng.Pending(), "cycle": fmt.Sprint(r.cyc)})
	}
	return ok && !r.runaway
}

// ----------------------------------------------------------------- random environments

func pick(rng *rand.Rand, xs ...int) int { return xs[rng.Intn(len(xs))] }

func randomCfg(rng *rand.Rand) *Scenario {
	sc := &Scenario{}
	ncu := pick(rng, 1, 2, 2, 3, 4, 6)
	mk := func() CUCfg {
		ns := pick(rng, 1, 2, 2, 4)
		c := CUCfg{}
		slots := pick(rng, 1, 2, 2, 3, 4)
		vr := granV * pick(rng, 1, 2, 3, 4, 6, 8)
		uniformSIMD := rng.Intn(3) > 0
		for i := 0; i < ns; i++ {
			if !uniformSIMD {
				slots = pick(rng, 1, 2, 3, 4)
				vr = granV * pick(rng, 1, 2, 3, 4, 6, 8)
			}
			c.Slots = append(c.Slots, slots)
			c.VRegs = append(c.VRegs, vr)
		}
		c.SRegs = granS * pick(rng, 1, 2, 3, 4, 6, 8, 12, 16)
		c.LDS = granL * pick(rng, 1, 2, 3, 4, 8)
		return c
	}
	// a shape whose whole capacity one work-group can take (full-CU probe at the end of the run)
	mkProbeable := func() CUCfg {
		ns := pick(rng, 1, 2, 2, 4)
		slots := pick(rng, 1, 2, 2, 4)
		c := CUCfg{}
		vr := granV * slots * pick(rng, 1, 2, 3)
		for i := 0; i < ns; i++ {
			c.Slots = append(c.Slots, slots)
			c.VRegs = append(c.VRegs, vr)
		}
		c.SRegs = granS * ns * slots * pick(rng, 1, 2, 3)
		c.LDS = granL * pick(rng, 1, 2, 3, 4, 8)
		return c
	}
	switch rng.Intn(7) {
	case 6: // the shape the shipped timing CU reports (amd/timing/cu): 4 SIMDs x 10 wavefronts
		ncu = pick(rng, 1, 2, 4)
		for i := 0; i < ncu; i++ {
			sc.CUs = append(sc.CUs, CUCfg{Slots: []int{10, 10, 10, 10}, SRegs: 3200, VRegs: []int{256, 256, 256, 256}, LDS: 65536})
		}
	case 0: // heterogeneous CUs
		for i := 0; i < ncu; i++ {
			sc.CUs = append(sc.CUs, mk())
		}
	case 1:
		first := mk()
		for i := 0; i < ncu; i++ {
			sc.CUs = append(sc.CUs, first)
		}
	default:
		first := mkProbeable()
		for i := 0; i < ncu; i++ {
			sc.CUs = append(sc.CUs, first)
		}
	}
	sc.NDisp = pick(rng, 1, 2, 2, 3, 4, 8)
	sc.Overhead = [3]int{rng.Intn(3), rng.Intn(3), 1 + rng.Intn(3)}
	sc.Probe = true
	return sc
}

func randomKernel(rng *rand.Rand, cfg []CUCfg) KDesc {
	for try := 0; try < 60; try++ {
		nwf := pick(rng, 1, 1, 2, 2, 3, 4, 6)
		nwg := pick(rng, 1, 2, 3, 4, 5, 7, 9, 12)
		d := KDesc{PID: 1 + rng.Intn(3)}
		d.S = pick(rng, 0, 1, 8, 15, 16, 17, 24, 32, 33, 48, 64)
		d.V = pick(rng, 0, 1, 3, 4, 5, 8, 9, 12, 16)
		d.L = pick(rng, 0, 0, 1, 100, 255, 256, 257, 512, 700, 1024)
		if cfg[0].LDS >= 65536 { // big CUs: make work-groups that actually fill them
			nwf = pick(rng, 4, 8, 12, 16)
			nwg = pick(rng, 3, 6, 10, 16, 24)
			d.S = pick(rng, 16, 33, 64, 96, 102)
			d.V = pick(rng, 8, 24, 64, 65, 128, 256)
			d.L = pick(rng, 0, 4096, 16384, 32768, 40000, 65536)
		}
		switch rng.Intn(4) {
		case 0: // two-dimensional, no partial work-groups
			wy := pick(rng, 1, 2, 4)
			wx := 64 * nwf / wy
			ny := pick(rng, 1, 2, 3)
			d.WG = [3]int{wx, wy, 1}
			d.Grid = [3]int{wx * ((nwg + ny - 1) / ny), wy * ny, 1}
		case 1: // one-dimensional with a partial last work-group and odd work-group size
			wx := 64*nwf - rng.Intn(64)
			d.WG = [3]int{wx, 1, 1}
			d.Grid = [3]int{wx*(nwg-1) + 1 + rng.Intn(wx), 1, 1}
		default:
			d.WG = [3]int{64 * nwf, 1, 1}
			d.Grid = [3]int{64 * nwf * nwg, 1, 1}
		}
		if rng.Intn(6) == 0 {
			d.Mod = pick(rng, 2, 3)
			d.Rem = rng.Intn(d.Mod)
		}
		_, _, wgs := expectedWGs(d)
		if len(wgs) == 0 {
			if rng.Intn(3) == 0 {
				return d // a launch whose filter keeps no work-group
			}
			continue
		}
		for _, c := range cfg {
			if fitsIdle(c, d, maxNwf(wgs)) {
				return d
			}
		}
	}
	return KDesc{Grid: [3]int{64, 1, 1}, WG: [3]int{64, 1, 1}, PID: 1}
}

// random drives an adversarial environment: overlapping launches, completions in random order and with
// random delay, batched completion messages, lazy draining of both ports.
func (r *run) random(rng *rand.Rand, nlaunch int, xbatch bool) {
	launched := 0
	pComplete := pick(rng, 1, 1, 2, 4) // how eager the CUs are
	for steps := 0; steps < 60*nlaunch+300 && !r.dead; steps++ {
		if launched >= nlaunch && r.allAnswered() {
			break
		}
		switch rng.Intn(10) {
		case 0, 1:
			if launched < nlaunch && r.launch(randomKernel(rng, r.cfg)) {
				launched++
			}
		case 2, 3:
			if rng.Intn(2) == 0 {
				r.takeMap()
			} else {
				for r.takeMap() {
				}
			}
		case 4, 5, 6, 7:
			if rng.Intn(4) >= pComplete {
				break
			}
			c := rng.Intn(len(r.resident))
			res := r.resident[c]
			if len(res) == 0 {
				break
			}
			first := res[rng.Intn(len(res))]
			which := []*mapInfo{first}
			if rng.Intn(2) == 0 { // a batch, as the emulation CU sends them
				for _, x := range res {
					if x != first && (xbatch || x.k == first.k) && rng.Intn(3) > 0 {
						which = append(which, x)
					}
				}
			}
			r.complete(c, which)
		case 8:
			if rng.Intn(3) > 0 {
				for r.takeRsp() {
				}
			}
		}
		if rng.Intn(3) > 0 {
			r.tick(1 + rng.Intn(2))
		}
	}
}

// parkScenario: CUs whose LDS one work-group of the "serial" kernel takes entirely, so that its work-groups
// follow one another, and room for any number of resource-free filler work-groups.  With the verif hook the
// port holds 1-3 messages and all three placements are used; without it the builder's 4096-entry port is
// filled for real (round-robin only).
func parkScenario(rng *rand.Rand, i int) *Scenario {
	sc := &Scenario{NDisp: pick(rng, 2, 3, 8), Overhead: [3]int{rng.Intn(2), rng.Intn(2), 1 + rng.Intn(2)}}
	ncu := pick(rng, 1, 1, 2, 3)
	slots := 64
	if hookAvailable {
		sc.PortCap = 1 + i%3
		sc.Alg = []string{"round-robin", "greedy", "partition"}[(i/3)%3]
	} else {
		slots = 4200 / ncu
	}
	lds := granL * pick(rng, 1, 2)
	for j := 0; j < ncu; j++ {
		sc.CUs = append(sc.CUs, CUCfg{Slots: []int{slots, slots}, SRegs: granS * 8, VRegs: []int{granV * 8, granV * 8}, LDS: lds})
	}
	return sc
}

// park: bring a kernel to the point where all its work-groups but the last are mapped, fill the ToCUs port
// with another kernel's map requests that the CUs do not take, then let every resident work-group of the
// first kernel complete: its last work-group gets reserved but its MapWGReq finds the port full.  The CP must
// keep the kernel open until that work-group was sent and has completed.
func (r *run) park(rng *rand.Rand) {
	ncu := len(r.cfg)
	serial := KDesc{WG: [3]int{64, 1, 1}, Grid: [3]int{64 * (ncu + 1 + rng.Intn(2)), 1, 1}, S: pick(rng, 0, 16), V: 4, L: r.cfg[0].LDS, PID: 1}
	filler := KDesc{WG: [3]int{64, 1, 1}, S: 0, V: 0, L: 0, PID: 2}
	if rng.Intn(2) == 0 { // sometimes a small kernel first, so that the serial one sits on a higher dispatcher
		r.launch(KDesc{WG: [3]int{64, 1, 1}, Grid: [3]int{64, 1, 1}, PID: 3})
	}
	r.launch(serial)
	ks := r.kernels[len(r.kernels)-1]
	unmapped := func() int {
		n := 0
		for _, w := range ks.wgs {
			if r.byWG[[2]int{ks.id, w[0]}] == nil {
				n++
			}
		}
		return n
	}
	// run the serial kernel (and whatever else) until exactly its last work-group waits for LDS
	for i := 0; i < 4000 && !r.dead && unmapped() > 1; i++ {
		for r.takeMap() {
		}
		if r.eng.Pending() == 0 { // CP asleep: every CU holds one serial work-group; finish the oldest one
			var oldest *mapInfo
			for c := range r.resident {
				for _, mi := range r.resident[c] {
					if mi.k == ks.id && (oldest == nil || mi.m < oldest.m) {
						oldest = mi
					}
				}
			}
			if oldest != nil {
				r.complete(oldest.cu-1, []*mapInfo{oldest})
			}
		}
		for c := range r.resident { // other kernels' work-groups finish at once
			for _, mi := range append([]*mapInfo{}, r.resident[c]...) {
				if mi.k != ks.id {
					r.complete(c, []*mapInfo{mi})
				}
			}
		}
		for r.takeRsp() {
		}
		r.tick(1)
	}
	if r.dead || unmapped() != 1 {
		r.stats["park_not_reached"]++
		return
	}
	for r.takeMap() {
	}
	// fill the port: the CUs stop taking map requests
	nfill := r.portRoom() + 8 + rng.Intn(8)
	filler.Grid = [3]int{64 * nfill, 1, 1}
	r.launch(filler)
	for i := 0; i < 2000 && !r.dead && r.toCUs.CanSend(); i++ {
		r.tick(1)
	}
	if r.dead || r.toCUs.CanSend() {
		r.stats["park_not_reached"]++
		return
	}
	// every resident work-group of the serial kernel completes, in random order
	var res []*mapInfo
	for c := range r.resident {
		for _, mi := range r.resident[c] {
			if mi.k == ks.id {
				res = append(res, mi)
			}
		}
	}
	rng.Shuffle(len(res), func(a, b int) { res[a], res[b] = res[b], res[a] })
	for _, mi := range res {
		r.complete(mi.cu-1, []*mapInfo{mi})
		r.tick(rng.Intn(2))
	}
	r.tick(4 + rng.Intn(4)) // the last work-group is reserved, its MapWGReq is parked; the kernel must stay open
	r.stats["parked_runs"]++
	if rng.Intn(2) == 0 { // a further launch may land on the same dispatcher
		r.launch(KDesc{WG: [3]int{64, 1, 1}, Grid: [3]int{128, 1, 1}, PID: 3})
		r.tick(3)
	}
}

// portRoom: how many more messages the ToCUs outgoing buffer takes (probing with copies is not possible, so
// the capacity is taken from the scenario).
func (r *run) portRoom() int { return r.pcap }

// big: a few overlapping kernels of hundreds of work-groups on many CUs; the CUs finish work-groups in
// random order, a random fraction per cycle.
func (r *run) big(rng *rand.Rand) {
	n := 2 + rng.Intn(3)
	for i := 0; i < n; i++ {
		var d KDesc
		for {
			nwf := pick(rng, 1, 2, 4, 4, 8, 16)
			d = KDesc{WG: [3]int{64 * nwf, 1, 1}, S: pick(rng, 16, 32, 48, 100), V: pick(rng, 8, 16, 32, 64, 128),
				L: pick(rng, 0, 1024, 8192, 32768), PID: 1 + rng.Intn(3)}
			d.Grid = [3]int{d.WG[0] * pick(rng, 100, 300, 700, 1500), 1, 1}
			if fitsIdle(r.cfg[0], d, nwf) { // a work-group no CU can ever hold would wait forever
				break
			}
		}
		r.launch(d)
		r.tick(rng.Intn(4))
	}
	for steps := 0; steps < 200000 && !r.dead && !r.allAnswered(); steps++ {
		for r.takeMap() {
		}
		for c := range r.resident {
			for len(r.resident[c]) > 0 && rng.Intn(3) == 0 {
				res := r.resident[c]
				first := res[rng.Intn(len(res))]
				which := []*mapInfo{first}
				if rng.Intn(4) == 0 {
					for _, x := range res {
						if x != first && x.k == first.k && rng.Intn(2) == 0 {
							which = append(which, x)
						}
					}
				}
				r.complete(c, which)
			}
		}
		for r.takeRsp() {
		}
		r.tick(1)
	}
}

func main() {
	scen := flag.String("scen", "", "scenario file (JSON list)")
	out := flag.String("out", "trace.ndjson", "trace output")
	nrand := flag.Int("random", 0, "number of random runs")
	nl := flag.Int("launches", 5, "launches per random run")
	seed := flag.Int64("seed", 1, "seed")
	xbatch := flag.Int("xbatch", 0, "every n-th random run lets CUs batch completions of different kernels (0 = never)")
	nemu := flag.Int("emu", 0, "number of runs with real emulation CUs")
	nbig := flag.Int("big", 0, "number of runs with 16-64 CUs of the shipped shape and kernels of hundreds of work-groups")
	npark := flag.Int("park", 0, "number of scripted runs that park a kernel's last work-group behind a full ToCUs port (small ports and other algorithms than round-robin need the verif hook)")
	algs := flag.String("alg", "", "comma-separated placement algorithms the random runs rotate through (needs the verif hook)")
	flag.BoolVar(&verbose, "v", false, "debugging: log scenario steps into the trace (such a trace is not validated)")
	flag.Parse()
	log.SetOutput(io.Discard)

	f, err := os.Create(*out)
	if err != nil {
		panic(err)
	}
	w := bufio.NewWriter(f)
	rec := ab.NewRecorder(w)
	traces := 0
	stats := map[string]int{}
	incomplete := 0
	begin := func(sc *Scenario, emu bool) *run {
		// wc: the placement is work-conserving (any CU with room is used); "partition" pins work-groups to CUs
		wc := 1
		if sc.Alg == "partition" {
			wc = 0
		}
		pcap := 4096
		if sc.PortCap > 0 {
			pcap = sc.PortCap
		}
		rec.Emit("Reset", ab.Rec{"cus": sc.CUs, "ndisp": sc.NDisp, "overhead": sc.Overhead, "emu": emu, "alg": sc.Alg, "wc": wc,
			"pcap": pcap})
		traces++
		return newRun(rec, sc, emu)
	}
	end := func(r *run, probe bool) {
		if !r.finish(probe) {
			incomplete++
		}
		for k, v := range r.stats {
			stats[k] += v
		}
		for _, k := range []string{"MapWG", "Complete", "Rsp", "Launch", "Panic", "Idle"} {
			stats["ev_"+k] += r.count[k]
		}
	}
	if *scen != "" {
		data, err := os.ReadFile(*scen)
		if err != nil {
			panic(err)
		}
		var scs []Scenario
		if err := json.Unmarshal(data, &scs); err != nil {
			panic(err)
		}
		for i := range scs {
			r := begin(&scs[i], false)
			for _, s := range scs[i].Steps {
				r.step(s)
			}
			end(r, scs[i].Probe)
		}
	}
	rng := rand.New(rand.NewSource(*seed))
	var algList []string
	if *algs != "" {
		algList = strings.Split(*algs, ",")
		if !hookAvailable {
			fmt.Println("built without the dispatch-algorithm hook")
			os.Exit(4)
		}
	}
	for i := 0; i < *nrand; i++ {
		sc := randomCfg(rng)
		if len(algList) > 0 {
			sc.Alg = algList[i%len(algList)]
			if i%4 != 3 { // mostly with a ToCUs port of 1-3 entries: MapWGReqs get parked behind a full port
				sc.PortCap = 1 + rng.Intn(3)
			}
			if sc.Alg == "partition" { // partitions are pinned to CUs: only meaningful with identical CUs
				for j := range sc.CUs {
					sc.CUs[j] = sc.CUs[0]
				}
			}
		}
		r := begin(sc, false)
		r.random(rng, 1+rng.Intn(*nl), *xbatch > 0 && i%*xbatch == *xbatch-1)
		end(r, sc.Probe)
	}
	for i := 0; i < *npark; i++ {
		sc := parkScenario(rng, i)
		r := begin(sc, false)
		if sc.PortCap == 0 {
			r.evScale = 5
		}
		r.park(rng)
		end(r, false)
	}
	for i := 0; i < *nbig; i++ {
		sc := &Scenario{NDisp: pick(rng, 2, 4, 8), Overhead: [3]int{rng.Intn(3), rng.Intn(3), 1 + rng.Intn(3)}, Probe: true}
		for j, n := 0, pick(rng, 16, 32, 64); j < n; j++ {
			sc.CUs = append(sc.CUs, CUCfg{Slots: []int{10, 10, 10, 10}, SRegs: 3200, VRegs: []int{256, 256, 256, 256}, LDS: 65536})
		}
		r := begin(sc, false)
		r.evScale = 20
		r.big(rng)
		end(r, sc.Probe)
	}
	for i := 0; i < *nemu; i++ {
		sc := emuScenario(rng, i)
		r := begin(sc, true)
		r.emuRun(rng, i)
		end(r, false)
	}
	w.Flush()
	f.Close()
	stats["traces"] = traces
	stats["events"] = rec.Seq
	stats["incomplete"] = incomplete
	js, _ := json.Marshal(stats)
	fmt.Println(string(js))
}
