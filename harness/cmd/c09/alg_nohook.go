//go:build !c09hook

package main

import "github.com/sarchlab/mgpusim/v4/amd/timing/cp"

const hookAvailable = false

func rebuildDispatchers(p *cp.CommandProcessor, alg string, n int, cus []cp.CUInterfaceForCP, overhead [3]int) {
	panic("placement algorithm " + alg + " needs the verif hook amd/timing/cp/verif_export.go (build tag c09hook)")
}
