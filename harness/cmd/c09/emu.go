package main

import (
	"fmt"
	"math"
	"math/rand"

	"github.com/sarchlab/akita/v4/mem/mem"
	"github.com/sarchlab/akita/v4/mem/vm"
	"github.com/sarchlab/akita/v4/sim"
	"github.com/sarchlab/mgpusim/v4/amd/emu"
	"github.com/sarchlab/mgpusim/v4/amd/insts"
	"github.com/sarchlab/mgpusim/v4/amd/kernels"
	"github.com/sarchlab/mgpusim/v4/amd/protocol"

	ab "verifharness/akitabench"
)

// emuSide wires real emulation compute units (amd/emu/computeunit.go) to the CP: the harness carries
// MapWGReq from the CP's ToCUs port to the CU's ToDispatcher port and WGCompletionMsg back, one hop per
// cycle, so the completion messages (their batching included) are produced by the real emulation CU.
// Every kernel is the one-instruction program s_endpgm.
type emuSide struct {
	r       *run
	cus     []*emu.ComputeUnit
	pending [][]*protocol.MapWGReq // not yet accepted by the CU's one-entry port buffer
	codeAt  uint64
}

const emuCodeAddr = 0x1000

func newEmuSide(r *run, n int) *emuSide {
	e := &emuSide{r: r, codeAt: emuCodeAddr}
	storage := mem.NewStorage(1 << 20)
	if err := storage.Write(emuCodeAddr, []byte{0x00, 0x00, 0x81, 0xBF, 0x00, 0x00, 0x81, 0xBF}); err != nil { // s_endpgm
		panic(err)
	}
	pt := vm.NewPageTable(12)
	for pid := 1; pid <= 4; pid++ {
		pt.Insert(vm.Page{PID: vm.PID(pid), VAddr: emuCodeAddr, PAddr: emuCodeAddr, PageSize: 4096, Valid: true})
	}
	conn := ab.NewConn("EmuConn")
	for i := 0; i < n; i++ {
		cu := emu.BuildComputeUnit(fmt.Sprintf("EmuCU%d", i+1), r.eng, insts.NewDisassembler(), pt, 12, storage, nil)
		conn.PlugIn(cu.ToDispatcher)
		e.cus = append(e.cus, cu)
	}
	e.pending = make([][]*protocol.MapWGReq, n)
	return e
}

func (e *emuSide) prepare(co *insts.KernelCodeObject, pkt *kernels.HsaKernelDispatchPacket) {
	pkt.KernelObject = e.codeAt
	co.KernelCodeEntryByteOffset = 0
}

func (e *emuSide) deliver(m *protocol.MapWGReq) {
	c := e.r.cuIndex[m.Dst]
	if c < 1 {
		return
	}
	e.pending[c-1] = append(e.pending[c-1], m)
}

// shuttle moves what it can in both directions.
func (e *emuSide) shuttle() {
	for i, cu := range e.cus {
		for len(e.pending[i]) > 0 {
			if cu.ToDispatcher.Deliver(e.pending[i][0]) != nil {
				break
			}
			e.pending[i] = e.pending[i][1:]
		}
		for {
			m := cu.ToDispatcher.PeekOutgoing()
			if m == nil {
				break
			}
			if e.r.toCUs.Deliver(m) != nil {
				break
			}
			cu.ToDispatcher.RetrieveOutgoing()
			e.r.stats["completion_msgs"]++
			if c, ok := m.(*protocol.WGCompletionMsg); ok && len(c.RspTo) > 1 {
				e.r.stats["batched_msgs"]++
				ks := map[int]bool{}
				for _, id := range c.RspTo {
					if mi := e.r.maps[id]; mi != nil {
						ks[mi.k] = true
					}
				}
				if len(ks) > 1 {
					e.r.stats["cross_kernel_batches"]++
				}
			}
		}
	}
}

func (e *emuSide) busy() bool {
	for i := range e.cus {
		if len(e.pending[i]) > 0 {
			return true
		}
	}
	return false
}

func emuScenario(rng *rand.Rand, i int) *Scenario {
	n := 1 + rng.Intn(3)
	sc := &Scenario{NDisp: pick(rng, 2, 3, 8), Overhead: [3]int{rng.Intn(2), rng.Intn(2), 1}}
	for j := 0; j < n; j++ {
		sc.CUs = append(sc.CUs, CUCfg{Slots: []int{math.MaxInt32}, SRegs: -1, VRegs: []int{-1}, LDS: -1})
	}
	return sc
}

// emuRun: run i%3 == 0 one kernel; == 1 kernels one after the other; == 2 overlapping kernels (what two
// command queues of one application produce).
func (r *run) emuRun(rng *rand.Rand, i int) {
	mk := func() KDesc {
		nwf := 1 + rng.Intn(2)
		nwg := 2 + rng.Intn(5)
		return KDesc{Grid: [3]int{64 * nwf * nwg, 1, 1}, WG: [3]int{64 * nwf, 1, 1}, S: 16, V: 4, L: 0, PID: 1 + rng.Intn(3)}
	}
	switch i % 3 {
	case 0:
		r.launch(mk())
		r.emuDrain()
	case 1:
		for j := 0; j < 2+rng.Intn(2); j++ {
			r.launch(mk())
			r.emuDrain()
		}
	default:
		for j := 0; j < 2+rng.Intn(2); j++ {
			r.launch(mk())
			if rng.Intn(2) == 0 {
				r.tick(1 + rng.Intn(3))
			}
		}
		r.emuDrain()
	}
}

func (r *run) emuDrain() {
	for i := 0; i < 100000 && !r.dead; i++ {
		r.drain(false)
		if !r.emu.busy() && r.eng.Pending() == 0 {
			return
		}
	}
}

var _ sim.Port
