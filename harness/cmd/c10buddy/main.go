// c10buddy is cmd/c10 with the buddy page allocator selected. It needs the
// verif hook amd/driver/verif_c10.go (fixes/C10-hook-allocator.diff): the
// selector is a variable of an internal package.
package main

import (
	"github.com/sarchlab/mgpusim/v4/amd/driver"

	"verifharness/c10lib"
)

func main() {
	driver.VerifUseBuddyAllocator(true)
	c10lib.Main(true)
}
