package main

// overlapcopy is a race-free program of ONE process that keeps two command
// queues busy at the same time (no shipped sample does): after a warm-up
// launch of the shipped FIR kernel it changes the filter, launches the kernel
// again on queue A without waiting and, while it runs, uploads an unrelated
// buffer through queue B in several pieces; both queues are drained and the
// kernel output and the uploaded buffer are read back.  The copy and the kernel
// touch disjoint buffers.  The upload hits a buffer the first launch marked
// dirty, so its cache flush is acknowledged while the second kernel is still
// running: whatever the driver concludes from that acknowledgement must not
// make the final read-back skip its own flush.

import (
	"fmt"
	"math"
	"os"
	"path/filepath"

	"github.com/sarchlab/mgpusim/v4/amd/driver"
	"github.com/sarchlab/mgpusim/v4/amd/insts"
)

type overlapFirArgs struct {
	Output              driver.Ptr
	Filter              driver.Ptr
	Input               driver.Ptr
	History             driver.Ptr
	NumTaps             uint32
	Padding             uint32
	HiddenGlobalOffsetX int64
	HiddenGlobalOffsetY int64
	HiddenGlobalOffsetZ int64
}

type overlapcopy struct {
	driver  *driver.Driver
	context *driver.Context
	gpu     int

	Length, Taps, Chunks int

	input, filter, output []float32
	side, sideBack        []uint32
}

func (b *overlapcopy) SelectGPU(gpus []int) {
	if len(gpus) > 1 {
		panic("overlapcopy runs on a single GPU")
	}
	b.gpu = gpus[0]
}
func (b *overlapcopy) SetUnifiedMemory() {}

func repoDir() string {
	if r := os.Getenv("VERIF_REPO"); r != "" {
		return r
	}
	return "/repo"
}

func (b *overlapcopy) Run() {
	d, ctx := b.driver, b.context
	data, err := os.ReadFile(filepath.Join(repoDir(), "amd", "benchmarks", "heteromark", "fir", "kernels.hsaco"))
	if err != nil {
		panic(err)
	}
	co := insts.LoadKernelCodeObjectFromBytes(data, "FIR")
	if co == nil {
		panic("cannot load the FIR kernel")
	}
	d.SelectGPU(ctx, b.gpu)
	sideLen := 128 * b.Chunks
	b.input = make([]float32, b.Length)
	for i := range b.input {
		b.input[i] = float32(i%97) * 0.5
	}
	b.filter = make([]float32, b.Taps)
	for i := range b.filter {
		b.filter[i] = float32(i + 1)
	}
	b.side = make([]uint32, sideLen)
	for i := range b.side {
		b.side[i] = 0xC0200000 + uint32(i)
	}
	dHistory := d.AllocateMemory(ctx, uint64(b.Taps*4))
	dInput := d.AllocateMemory(ctx, uint64(b.Length*4))
	dOutput := d.AllocateMemory(ctx, uint64(b.Length*4))
	dFilter := d.AllocateMemory(ctx, uint64(b.Taps*4))
	dSide := d.AllocateMemory(ctx, uint64(sideLen*4))
	d.MemCopyH2D(ctx, dInput, b.input)
	d.MemCopyH2D(ctx, dFilter, b.filter)
	d.MemCopyH2D(ctx, dHistory, make([]float32, b.Taps))

	kernelQueue := d.CreateCommandQueue(ctx)
	copyQueue := d.CreateCommandQueue(ctx)
	args := overlapFirArgs{Output: dOutput, Filter: dFilter, Input: dInput, History: dHistory, NumTaps: uint32(b.Taps)}
	grid, wg := [3]uint32{uint32(b.Length), 1, 1}, [3]uint16{256, 1, 1}

	d.EnqueueLaunchKernel(kernelQueue, co, grid, wg, &args)
	d.DrainCommandQueue(kernelQueue)

	for i := range b.filter {
		b.filter[i] = float32(2*i + 3)
	}
	d.MemCopyH2D(ctx, dFilter, b.filter)

	d.EnqueueLaunchKernel(kernelQueue, co, grid, wg, &args)
	for c := 0; c < b.Chunks; c++ {
		lo, hi := c*sideLen/b.Chunks, (c+1)*sideLen/b.Chunks
		d.EnqueueMemCopyH2D(copyQueue, dSide+driver.Ptr(4*lo), b.side[lo:hi])
	}
	d.DrainCommandQueue(copyQueue)
	d.DrainCommandQueue(kernelQueue)

	b.output = make([]float32, b.Length)
	b.sideBack = make([]uint32, sideLen)
	d.MemCopyD2H(ctx, b.output, dOutput)
	d.MemCopyD2H(ctx, b.sideBack, dSide)
}

// Verify: host FIR with the second filter (products and sums are exact in single precision for these inputs).
func (b *overlapcopy) Verify() {
	for i := 0; i < b.Length; i++ {
		var sum float32
		for j := 0; j < b.Taps && j <= i; j++ {
			sum += b.input[i-j] * b.filter[j]
		}
		if math.Float32bits(sum) != math.Float32bits(b.output[i]) {
			panic(fmt.Sprintf("overlapcopy: output[%d] expected %f, but get %f", i, sum, b.output[i]))
		}
	}
	for i := range b.side {
		if b.side[i] != b.sideBack[i] {
			panic(fmt.Sprintf("overlapcopy: uploaded word %d expected %08x, but get %08x", i, b.side[i], b.sideBack[i]))
		}
	}
}
