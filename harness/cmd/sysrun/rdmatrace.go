package main

import (
	"bufio"
	"os"

	"github.com/sarchlab/akita/v4/sim"
)

// rdmaTracer is filled in by rdmatrace_impl (see below); kept minimal here.
type rdmaTracer struct {
	f *os.File
	w *bufio.Writer
	n int
}

func newRDMATracer(path string) *rdmaTracer {
	f, err := os.Create(path)
	if err != nil {
		panic(err)
	}
	return &rdmaTracer{f: f, w: bufio.NewWriterSize(f, 1<<20)}
}

func (t *rdmaTracer) attach(comps []sim.Component) {}

func (t *rdmaTracer) close() {
	t.w.Flush()
	t.f.Close()
}
