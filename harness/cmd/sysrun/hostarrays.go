package main

// Read-only introspection of a benchmark object (no knowledge of its internals):
//   - digest of every numeric slice field ("benchmark host arrays": inputs, expected and read-back outputs)
//   - the *driver.Context values it holds, so that every live device buffer can be read back with
//     Driver.MemCopyD2H at the end of the run

import (
	"crypto/sha256"
	"encoding/hex"
	"reflect"
	"strconv"
	"unsafe"

	"github.com/sarchlab/mgpusim/v4/amd/driver"
)

type hostArray struct {
	Name   string `json:"name"`
	Kind   string `json:"kind"`
	Len    int    `json:"len"`
	Digest string `json:"digest"`
}

var ctxType = reflect.TypeOf((*driver.Context)(nil))

func numericKind(k reflect.Kind) bool {
	switch k {
	case reflect.Int8, reflect.Int16, reflect.Int32, reflect.Int64, reflect.Int,
		reflect.Uint8, reflect.Uint16, reflect.Uint32, reflect.Uint64, reflect.Uint,
		reflect.Float32, reflect.Float64:
		return true
	}
	return false
}

type introspect struct {
	arrays []hostArray
	ctxs   []*driver.Context
	seen   map[uintptr]bool
}

func (in *introspect) walk(v reflect.Value, name string, depth int) {
	if depth > 8 {
		return
	}
	switch v.Kind() {
	case reflect.Ptr:
		if v.IsNil() {
			return
		}
		if v.Type() == ctxType {
			c := (*driver.Context)(unsafe.Pointer(v.Pointer()))
			for _, o := range in.ctxs {
				if o == c {
					return
				}
			}
			in.ctxs = append(in.ctxs, c)
			return
		}
		if in.seen[v.Pointer()] {
			return
		}
		in.seen[v.Pointer()] = true
		if v.Elem().Kind() == reflect.Struct {
			pk := v.Elem().Type().PkgPath()
			// stay inside benchmark packages: do not walk into the driver, the engine, code objects
			if !isBenchPkg(pk) {
				return
			}
			in.walk(v.Elem(), name, depth+1)
		}
	case reflect.Interface:
		if !v.IsNil() {
			in.walk(v.Elem(), name, depth+1)
		}
	case reflect.Struct:
		if !isBenchPkg(v.Type().PkgPath()) {
			return
		}
		for i := 0; i < v.NumField(); i++ {
			in.walk(v.Field(i), name+"."+v.Type().Field(i).Name, depth+1)
		}
	case reflect.Slice:
		if v.IsNil() || v.Len() == 0 {
			return
		}
		ek := v.Type().Elem().Kind()
		if numericKind(ek) && v.Type().Elem().PkgPath() == "" {
			n := v.Len() * int(v.Type().Elem().Size())
			b := unsafe.Slice((*byte)(unsafe.Pointer(v.Pointer())), n)
			h := sha256.Sum256(b)
			in.arrays = append(in.arrays, hostArray{name, v.Type().Elem().String(), v.Len(), hex.EncodeToString(h[:8])})
			return
		}
		if ek == reflect.Slice || ek == reflect.Ptr || ek == reflect.Struct || ek == reflect.Interface {
			lim := v.Len()
			if lim > 64 {
				lim = 64
			}
			for i := 0; i < lim; i++ {
				in.walk(v.Index(i), name+"["+strconv.Itoa(i)+"]", depth+1)
			}
		}
	}
}

func isBenchPkg(p string) bool {
	const pre = "github.com/sarchlab/mgpusim/v4/amd/benchmarks"
	return len(p) >= len(pre) && p[:len(pre)] == pre || p == "main"
}

func inspectBenchmark(b interface{}) *introspect {
	in := &introspect{seen: map[uintptr]bool{}}
	in.walk(reflect.ValueOf(b), "b", 0)
	return in
}

func ctxPID(c *driver.Context) uint64 {
	return reflect.ValueOf(c).Elem().FieldByName("pid").Uint()
}
