package main

// Timing platform assembled from the repository's public GPU builders
// (timingconfig/r9nano, timingconfig/mi300a) so that the configuration knobs
// those builders expose (number of CUs per shader array, number of shader
// arrays, L2 size, number of L2/DRAM banks, bank interleaving, frequency,
// mi300a L2 bank latency) can be varied.  It mirrors
// amd/samples/runner/timingconfig.Builder.Build step by step; with an empty
// knob set it is the stock platform.
//
// Not reachable through public builders (so not varied here): the register
// scoreboard switch, wavefront pool sizes, VGPR counts, vector-memory pipeline
// shape and L1 cache sizes.  They are options of shaderarray.Builder, which the
// r9nano/mi300a builders construct internally without forwarding them.

import (
	"fmt"
	"strconv"
	"strings"

	"github.com/sarchlab/akita/v4/mem/mem"
	"github.com/sarchlab/akita/v4/mem/vm"
	"github.com/sarchlab/akita/v4/mem/vm/mmu"
	"github.com/sarchlab/akita/v4/noc/networking/pcie"
	"github.com/sarchlab/akita/v4/sim"
	"github.com/sarchlab/akita/v4/simulation"
	"github.com/sarchlab/mgpusim/v4/amd/driver"
	"github.com/sarchlab/mgpusim/v4/amd/samples/runner/timingconfig/gpubuilder"
	"github.com/sarchlab/mgpusim/v4/amd/samples/runner/timingconfig/mi300a"
	"github.com/sarchlab/mgpusim/v4/amd/samples/runner/timingconfig/r9nano"
)

type knobs struct {
	set    bool
	cus    int    // CUs per shader array
	sas    int    // shader arrays per GPU
	l2     uint64 // L2 size in bytes (whole GPU)
	banks  int    // number of L2 banks / DRAM controllers
	bankil uint64 // log2 of the memory bank interleaving size
	freq   int    // MHz
	l2lat  int    // mi300a only
}

func parseKnobs(s string) knobs {
	k := knobs{}
	if s == "" {
		return k
	}
	k.set = true
	for _, kv := range strings.Split(s, ",") {
		p := strings.SplitN(kv, "=", 2)
		if len(p) != 2 {
			panic("bad knob " + kv)
		}
		v, err := strconv.ParseUint(p[1], 10, 64)
		if err != nil {
			panic(err)
		}
		switch p[0] {
		case "cus":
			k.cus = int(v)
		case "sas":
			k.sas = int(v)
		case "l2":
			k.l2 = v
		case "banks":
			k.banks = int(v)
		case "bankil":
			k.bankil = v
		case "freq":
			k.freq = int(v)
		case "l2lat":
			k.l2lat = int(v)
		default:
			panic("unknown knob " + p[0])
		}
	}
	return k
}

const log2PageSize = 12

func buildKnobTimingPlatform(s *simulation.Simulation, numGPUs int, gpuType string, k knobs) {
	gpuMemSize := uint64(4 * mem.GB)
	numCUPerSA, numSA := 4, 16
	switchLatency, d2h, h2d := 140, 300, 500
	if gpuType == "mi300a" {
		numCUPerSA, numSA = mi300a.NumCUPerShaderArray, mi300a.NumShaderArray
		switchLatency, d2h, h2d = 15, 150, 250
	}
	if k.cus > 0 {
		numCUPerSA = k.cus
	}
	if k.sas > 0 {
		numSA = k.sas
	}

	storage := mem.NewStorage(uint64(numGPUs)*gpuMemSize + gpuMemSize)

	pageTable := vm.NewPageTable(log2PageSize)
	mmuComp := mmu.MakeBuilder().
		WithEngine(s.GetEngine()).
		WithFreq(1 * sim.GHz).
		WithPageWalkingLatency(100).
		WithLog2PageSize(log2PageSize).
		WithPageTable(pageTable).
		Build("MMU")
	s.RegisterComponent(mmuComp)

	gpuDriver := driver.MakeBuilder().
		WithEngine(s.GetEngine()).
		WithPageTable(pageTable).
		WithLog2PageSize(log2PageSize).
		WithGlobalStorage(storage).
		WithD2HCycles(d2h).
		WithH2DCycles(h2d).
		Build("Driver")
	s.RegisterComponent(gpuDriver)

	rdmaAddressMapper := new(mem.BankedAddressPortMapper)
	rdmaAddressMapper.BankSize = gpuMemSize
	rdmaAddressMapper.LowModules = append(rdmaAddressMapper.LowModules, sim.RemotePort("CPU"))

	var gb gpubuilder.GPUBuilder
	if gpuType == "mi300a" {
		b := mi300a.MakeBuilder().
			WithSimulation(s).
			WithMMU(mmuComp).
			WithLog2PageSize(log2PageSize).
			WithGlobalStorage(storage).
			WithNumCUPerShaderArray(numCUPerSA).
			WithNumShaderArray(numSA)
		if k.l2 > 0 {
			b = b.WithL2CacheSize(k.l2)
		}
		if k.banks > 0 {
			b = b.WithNumMemoryBank(k.banks)
		}
		if k.bankil > 0 {
			b = b.WithLog2MemoryBankInterleavingSize(k.bankil)
		}
		if k.freq > 0 {
			b = b.WithFreq(sim.Freq(k.freq) * sim.MHz)
		}
		if k.l2lat > 0 {
			b = b.WithL2BankLatency(k.l2lat)
		}
		gb = b
	} else {
		b := r9nano.MakeBuilder().
			WithSimulation(s).
			WithMMU(mmuComp).
			WithLog2PageSize(log2PageSize).
			WithGlobalStorage(storage).
			WithNumCUPerShaderArray(numCUPerSA).
			WithNumShaderArray(numSA)
		if k.l2 > 0 {
			b = b.WithL2CacheSize(k.l2)
		}
		if k.banks > 0 {
			b = b.WithNumMemoryBank(k.banks)
		}
		if k.bankil > 0 {
			b = b.WithLog2MemoryBankInterleavingSize(k.bankil)
		}
		if k.freq > 0 {
			b = b.WithFreq(sim.Freq(k.freq) * sim.MHz)
		}
		gb = b
	}

	pcieConnector := pcie.NewConnector().
		WithEngine(s.GetEngine()).
		WithVersion(4, 16).
		WithSwitchLatency(switchLatency)
	pcieConnector.CreateNetwork("PCIe")
	rootComplexID := pcieConnector.AddRootComplex(
		[]sim.Port{
			gpuDriver.GetPortByName("GPU"),
			gpuDriver.GetPortByName("MMU"),
			mmuComp.GetPortByName("Migration"),
			mmuComp.GetPortByName("Top"),
		})

	mmuComp.MigrationServiceProvider = gpuDriver.GetPortByName("MMU").AsRemote()

	lastSwitchID := rootComplexID
	for i := 1; i < numGPUs+1; i++ {
		if i%2 == 1 {
			lastSwitchID = pcieConnector.AddSwitch(rootComplexID)
		}
		name := fmt.Sprintf("GPU[%d]", i)
		gpu := gb.
			WithGPUID(uint64(i)).
			WithMemAddrOffset(uint64(i) * gpuMemSize).
			WithRDMAAddressMapper(rdmaAddressMapper).
			Build(name)
		gpuDriver.RegisterGPU(
			gpu.GetPortByName("CommandProcessor"),
			driver.DeviceProperties{
				CUCount:  numCUPerSA * numSA,
				DRAMSize: gpuMemSize,
			},
		)
		rdmaAddressMapper.LowModules = append(rdmaAddressMapper.LowModules,
			gpu.GetPortByName("RDMAData").AsRemote())
		pcieConnector.PlugInDevice(lastSwitchID, gpu.Ports())
	}

	pcieConnector.EstablishRoute()
}
