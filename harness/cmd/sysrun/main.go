// sysrun runs one shipped workload once, in process, on the real platform and
// prints the observables of the run as JSON lines on stdout (the last line is
// the result).  Platform, GPU set, memory mode and -verify are the flags of the
// repository's own samples/runner package (-timing, -gpu, -arch, -gpus,
// -unified-gpus, -use-unified-memory, -verify, ...); the workload and its size
// parameters are selected with -bench and -p.
//
// Without -knobs the platform is built and the workload is run by
// runner.Runner itself (exactly what amd/samples/<x>/main.go does).  With
// -knobs the timing platform is assembled from the public GPU builders (see
// platform.go) and the run loop mirrors Runner.Run.
//
// Observables:
//
//	verify           "pass" | "fail" (Verify panicked: message in verify_msg) | "off"
//	buffers          every live device buffer read back through Driver.MemCopyD2H after the run
//	                 (pid, vaddr, size, sha256) + one digest over all of them; storage_digest is the
//	                 same taken directly from the global storage afterwards (must agree)
//	host_arrays      digest of every numeric slice field of the benchmark object (inputs, outputs read back)
//	insts            (-trace-insts) per kernel launch: number of wavefronts, executed instructions, digest over
//	                 the per-wavefront executed-instruction-sequence digests keyed by (work-group id, FirstWiFlatID);
//	                 the per-wavefront table goes to -insts-out
//	commands         driver commands with simulated start/end times; end_time_ps
//	hang             engine idle with a command outstanding while the application waits (decided structurally)
package main

import (
	"crypto/sha256"
	"encoding/hex"
	"encoding/json"
	"flag"
	"fmt"
	"math/rand"
	"os"
	"reflect"
	"runtime/debug"
	"strconv"
	"strings"
	"sync"
	"sync/atomic"
	"time"
	"unsafe"

	"github.com/sarchlab/akita/v4/sim"
	"github.com/sarchlab/akita/v4/simulation"
	"github.com/sarchlab/akita/v4/tracing"
	"github.com/sarchlab/mgpusim/v4/amd/arch"
	"github.com/sarchlab/mgpusim/v4/amd/benchmarks"
	"github.com/sarchlab/mgpusim/v4/amd/driver"
	"github.com/sarchlab/mgpusim/v4/amd/emu"
	"github.com/sarchlab/mgpusim/v4/amd/samples/runner"
	"github.com/sarchlab/mgpusim/v4/amd/samples/runner/emusystem"
	"github.com/sarchlab/mgpusim/v4/amd/timing/cu"
)

var benchFlag = flag.String("bench", "", "workload (see benches.go); 'list' prints the registry")
var paramFlag = flag.String("p", "", "size parameters k=v,k=v")
var traceInstsFlag = flag.Bool("trace-insts", false, "record per-wavefront executed instruction sequences")
var instsOutFlag = flag.String("insts-out", "", "file for the per-wavefront table")
var dumpWfFlag = flag.String("dump-wf", "", "launch:x,y,z:firstwi - dump the full sequence of one wavefront")
var sysTraceFlag = flag.String("sys-trace", "", "write the system-level event trace (ndjson) to this file")
var knobsFlag = flag.String("knobs", "", "timing platform knobs cus=,sas=,l2=,banks=,bankil=,freq=,l2lat=")
var noDumpFlag = flag.Bool("no-dump", false, "do not read the buffers back with MemCopyD2H (storage snapshot only)")
var schedFlag = flag.String("sched", "lazy", "lazy: the application thread enqueues/signals only while the engine goroutine is idle (deterministic host schedule); free: no steering")
var vseedFlag = flag.Int64("vseed", 20260925, "seed of the global math/rand source the workloads draw their inputs from")

type params map[string]float64

func parseParams(s string) params {
	p := params{}
	if s == "" {
		return p
	}
	for _, kv := range strings.Split(s, ",") {
		a := strings.SplitN(kv, "=", 2)
		if len(a) != 2 {
			panic("bad parameter " + kv)
		}
		v, err := strconv.ParseFloat(a[1], 64)
		if err != nil {
			panic(err)
		}
		p[a[0]] = v
	}
	return p
}

func (p params) i(name string, def int) int {
	if v, ok := p[name]; ok {
		return int(v)
	}
	return def
}

func (p params) f(name string, def float64) float64 {
	if v, ok := p[name]; ok {
		return v
	}
	return def
}

func ps(t sim.VTimeInSec) int64 { return int64(float64(t)*1e12 + 0.5) }

// cmdTracer records the driver's "Driver Command" tasks with simulated times.
type cmdTracer struct {
	eng   sim.Engine
	mu    sync.Mutex
	start map[string]int
	cmds  []map[string]interface{}
}

func (t *cmdTracer) StartTask(task tracing.Task) {
	if task.Kind != "Driver Command" {
		return
	}
	t.mu.Lock()
	defer t.mu.Unlock()
	t.start[task.ID] = len(t.cmds)
	t.cmds = append(t.cmds, map[string]interface{}{"what": task.What, "start_ps": ps(t.eng.CurrentTime()), "end_ps": int64(-1)})
}
func (t *cmdTracer) StepTask(task tracing.Task)       {}
func (t *cmdTracer) AddMilestone(m tracing.Milestone) {}
func (t *cmdTracer) EndTask(task tracing.Task) {
	t.mu.Lock()
	defer t.mu.Unlock()
	if i, ok := t.start[task.ID]; ok {
		t.cmds[i]["end_ps"] = ps(t.eng.CurrentTime())
	}
}

// result is filled by the wrapped benchmark (application goroutine)
type result struct {
	mu        sync.Mutex
	stage     string
	verify    string
	verifyMsg string
	panicMsg  string
	endPs     int64
	done      chan bool
}

// wrapped runs the real benchmark, recovers its panics and takes the observables while the driver is still running.
type wrapped struct {
	inner  benchmarks.Benchmark
	verify bool
	res    *result
	eng    sim.Engine
	after  func()
}

func (w *wrapped) SelectGPU(g []int) { w.inner.SelectGPU(g) }
func (w *wrapped) SetUnifiedMemory() { w.inner.SetUnifiedMemory() }
func (w *wrapped) Verify()           {}
func (w *wrapped) Run() {
	defer func() {
		if e := recover(); e != nil {
			w.res.mu.Lock()
			msg := fmt.Sprint(e)
			if w.res.stage == "verify" {
				w.res.verify = "fail"
				w.res.verifyMsg = msg
			} else {
				w.res.panicMsg = msg + "\n" + lastFrames(string(debug.Stack()))
			}
			w.res.mu.Unlock()
			if w.res.stage == "verify" && w.after != nil {
				func() {
					defer func() { recover() }()
					w.after()
				}()
			}
		}
	}()
	if w.verify {
		if e, ok := w.inner.(interface{ EnableVerification() }); ok {
			e.EnableVerification()
		}
	}
	stage(w.res, "run")
	w.inner.Run()
	w.res.endPs = ps(w.eng.CurrentTime())
	if w.verify {
		stage(w.res, "verify")
		w.inner.Verify()
		if msg := fullReference(w.inner); msg != "" {
			panic(msg)
		}
		w.res.mu.Lock()
		w.res.verify = "pass"
		w.res.mu.Unlock()
	}
	stage(w.res, "dump")
	if w.after != nil {
		w.after()
	}
	stage(w.res, "done")
}

func stage(r *result, s string) {
	r.mu.Lock()
	r.stage = s
	r.mu.Unlock()
	// a line per stage: if the process dies (log.Fatal in a Verify, a panic on the engine goroutine) the
	// caller still knows where
	fmt.Printf("{\"stage\":%q}\n", s)
}

func lastFrames(st string) string {
	lines := strings.Split(st, "\n")
	out := []string{}
	for _, l := range lines {
		if strings.Contains(l, "mgpusim") && !strings.Contains(l, "\t") {
			out = append(out, strings.TrimSpace(l))
		}
		if len(out) >= 6 {
			break
		}
	}
	return strings.Join(out, " <- ")
}

type hookFn func(ctx sim.HookCtx)

func (f hookFn) Func(ctx sim.HookCtx) { f(ctx) }

func flagStr(name string) string {
	f := flag.Lookup(name)
	if f == nil {
		return ""
	}
	return f.Value.String()
}

func gpuList(s string) []int {
	out := []int{}
	for _, t := range strings.Split(s, ",") {
		v, err := strconv.Atoi(t)
		if err != nil {
			panic(err)
		}
		out = append(out, v)
	}
	return out
}

func main() {
	flag.Parse()
	if *benchFlag == "list" {
		listBenches()
		return
	}
	rand.Seed(*vseedFlag) //nolint:staticcheck // workloads draw inputs from the global source (needs GODEBUG=randseednop=0)
	out := map[string]interface{}{"bench": *benchFlag, "params": *paramFlag}
	emit := func() {
		js, _ := json.Marshal(out)
		fmt.Println(string(js))
	}
	defer func() {
		if e := recover(); e != nil {
			// a panic on the main goroutine before the run: platform construction or an inadmissible configuration
			out["setup_panic"] = fmt.Sprint(e) + "\n" + lastFrames(string(debug.Stack()))
			emit()
			os.Exit(3)
		}
	}()

	kn := parseKnobs(*knobsFlag)
	timing := flagStr("timing") == "true"
	verify := flagStr("verify") == "true"
	unifiedMem := flagStr("use-unified-memory") == "true"
	archType := arch.GCN3
	if a := strings.ToLower(flagStr("arch")); a == "cdna3" || a == "gfx942" {
		archType = arch.CDNA3
	}

	var s *simulation.Simulation
	var d *driver.Driver
	var r *runner.Runner
	var gpuIDs []int
	if !kn.set {
		r = new(runner.Runner).Init()
		d = r.Driver()
		// the runner keeps its simulation private; the component list is needed to attach tracers
		f := reflect.ValueOf(r).Elem().FieldByName("simulation")
		s = *(**simulation.Simulation)(unsafe.Pointer(f.UnsafeAddr()))
		gpuIDs = r.GPUIDs
	} else {
		gpuIDs = []int{1}
		uni := flagStr("unified-gpus")
		if g := flagStr("gpus"); g != "" {
			gpuIDs = gpuList(g)
		} else if uni != "" {
			gpuIDs = gpuList(uni)
		}
		s = simulation.MakeBuilder().WithoutMonitoring().Build()
		n := gpuIDs[len(gpuIDs)-1]
		if timing {
			buildKnobTimingPlatform(s, n, strings.ToLower(flagStr("gpu")), kn)
		} else {
			emusystem.MakeBuilder().WithSimulation(s).WithNumGPUs(n).WithArchitecture(archType).Build()
		}
		d = s.GetComponentByName("Driver").(*driver.Driver)
		if uni != "" {
			gpuIDs = []int{d.CreateUnifiedGPU(nil, gpuIDs)}
		}
	}
	eng := s.GetEngine()

	inner := makeBench(*benchFlag, d, archType, parseParams(*paramFlag))
	res := &result{verify: "off"}
	w := &wrapped{inner: inner, verify: verify, res: res, eng: eng}

	ct := &cmdTracer{eng: eng, start: map[string]int{}}
	tracing.CollectTrace(d, ct)

	var it *instTracer
	nCU := 0
	if *traceInstsFlag || *dumpWfFlag != "" {
		it = newInstTracer(*dumpWfFlag)
		for _, c := range s.Components() {
			switch c := c.(type) {
			case *cu.ComputeUnit:
				tracing.CollectTrace(c, it)
				nCU++
			case *emu.ComputeUnit:
				c.AcceptHook(it)
				nCU++
			}
		}
	}
	var st *sysTracer
	if *sysTraceFlag != "" {
		st = newSysTracer(*sysTraceFlag)
		ncp := st.attach(d, s.Components())
		multiCtx := 0
		if _, ok := inner.(*multi); ok {
			multiCtx = 1
		}
		if _, ok := inner.(*twins); ok {
			multiCtx = 1
		}
		tm := 0
		if timing {
			tm = 1
		}
		st.emit(map[string]interface{}{"e": "Reset", "ngpu": ncp, "multictx": multiCtx, "timing": tm})
	}

	// hang detection: the application waits for a queue (yield point "wait") while the engine goroutine is idle
	var waiting int32
	var waitQ atomic.Value
	driver.VerifYield = func(point string, q *driver.CommandQueue) {
		if *schedFlag == "lazy" && (point == "signal" || point == "enq") {
			// deterministic host schedule: the application thread acts only while the engine is idle
			for i := 0; d.VerifEngineRunning() && i < 20000000; i++ {
				time.Sleep(5 * time.Microsecond)
			}
		}
		switch point {
		case "wait":
			waitQ.Store(q)
			atomic.AddInt32(&waiting, 1)
		case "check", "unsub":
			if atomic.LoadInt32(&waiting) > 0 && point == "check" {
				atomic.AddInt32(&waiting, -1)
			}
		case "scan":
			if st != nil {
				st.yield(point, q)
			}
		}
	}

	// read back every live buffer through the driver while it is still running
	var bufs []map[string]interface{}
	var bufDigest string
	w.after = func() {
		if *noDumpFlag {
			return
		}
		in := inspectBenchmark(inner)
		byPID := map[uint64]*driver.Context{}
		for _, c := range in.ctxs {
			byPID[ctxPID(c)] = c
		}
		h := sha256.New()
		for _, vb := range d.VerifSnapshotBuffers() {
			c := byPID[vb.PID]
			e := map[string]interface{}{"pid": vb.PID, "vaddr": vb.VAddr, "size": vb.Size}
			if c == nil || vb.Size == 0 {
				e["skipped"] = true
				bufs = append(bufs, e)
				continue
			}
			dst := make([]byte, vb.Size)
			d.MemCopyD2H(c, dst, driver.Ptr(vb.VAddr))
			hh := sha256.Sum256(dst)
			e["sha"] = hex.EncodeToString(hh[:8])
			fmt.Fprintf(h, "%d:%d:%d:", vb.PID, vb.VAddr, vb.Size)
			h.Write(dst)
			bufs = append(bufs, e)
		}
		bufDigest = hex.EncodeToString(h.Sum(nil))
	}

	finished := make(chan bool, 1)
	hang := false
	go func() {
		if r != nil {
			r.AddBenchmark(w)
			r.Run()
		} else {
			w.SelectGPU(gpuIDs)
			if unifiedMem {
				w.SetUnifiedMemory()
			}
			d.Run()
			w.Run()
			d.Terminate()
			s.Terminate()
		}
		finished <- true
	}()
	stable := 0
	var lastT sim.VTimeInSec = -1
wait:
	for {
		select {
		case <-finished:
			break wait
		case <-time.After(250 * time.Millisecond):
			q, _ := waitQ.Load().(*driver.CommandQueue)
			if atomic.LoadInt32(&waiting) > 0 && q != nil && q.NumCommand() > 0 && !d.VerifEngineRunning() && eng.CurrentTime() == lastT {
				stable++
			} else {
				stable = 0
			}
			lastT = eng.CurrentTime()
			if stable >= 8 {
				hang = true
				break wait
			}
		}
	}
	driver.VerifYield = nil

	res.mu.Lock()
	out["stage"] = res.stage
	out["verify"] = res.verify
	if res.verifyMsg != "" {
		out["verify_msg"] = res.verifyMsg
	}
	if res.panicMsg != "" {
		out["run_panic"] = res.panicMsg
	}
	out["run_end_ps"] = res.endPs
	res.mu.Unlock()
	out["hang"] = hang
	out["end_time_ps"] = ps(eng.CurrentTime())
	out["timing"] = timing
	out["gpu_ids"] = gpuIDs

	// storage snapshot (no simulation events)
	h := sha256.New()
	sb := d.VerifSnapshotBuffers()
	var total uint64
	for _, vb := range sb {
		fmt.Fprintf(h, "%d:%d:%d:", vb.PID, vb.VAddr, vb.Size)
		h.Write(vb.Data)
		total += vb.Size
	}
	out["buffers"] = bufs
	out["buffer_count"] = len(sb)
	out["buffer_bytes"] = total
	out["buffer_digest"] = bufDigest
	out["storage_digest"] = hex.EncodeToString(h.Sum(nil))
	if bufs == nil {
		// no read-back was made: per-buffer digests from the storage
		for _, vb := range sb {
			hh := sha256.Sum256(vb.Data)
			bufs = append(bufs, map[string]interface{}{"pid": vb.PID, "vaddr": vb.VAddr, "size": vb.Size, "sha": hex.EncodeToString(hh[:8])})
		}
		out["buffers"] = bufs
	}
	out["host_arrays"] = inspectBenchmark(inner).arrays
	ct.mu.Lock()
	out["commands"] = ct.cmds
	ct.mu.Unlock()

	if it != nil {
		roles := it.roles()
		for _, b := range bufs {
			role := "data"
			if r, ok := roles[b["vaddr"].(uint64)]; ok {
				role = r
			}
			b["role"] = role
		}
		per := it.finish()
		out["insts"] = map[string]interface{}{"cus": nCU, "issued": it.issued, "retired": it.retired, "launches": it.launches}
		if *instsOutFlag != "" {
			js, _ := json.Marshal(per)
			os.WriteFile(*instsOutFlag, js, 0o644)
		}
		if *dumpWfFlag != "" {
			out["dump_wf"] = it.dumped
		}
	}
	if st != nil {
		if hang {
			st.emit(map[string]interface{}{"e": "Hang"})
		} else if res.panicMsg != "" {
			st.emit(map[string]interface{}{"e": "Panic", "msg": res.panicMsg})
		} else {
			st.emit(map[string]interface{}{"e": "Quiesce"})
		}
		st.close()
		out["sys_trace"] = map[string]interface{}{"events": st.n, "kinds": st.stats}
	}
	emit()
	if hang {
		os.Exit(0) // goroutines are still blocked; the observables say so
	}
}
