package main

// System-level event trace (DESIGN.md section 12), recorded from an unmodified
// platform through public handles only:
//
//	CmdStart/CmdEnd      tracing tasks "Driver Command" of the driver; the queue comes from the verif yield
//	                     point "scan" that precedes processOneCommand on the engine goroutine
//	Launch/LaunchRsp     command processor port ToDriver (Recvd LaunchKernelReq / Send LaunchKernelRsp);
//	                     the command a request belongs to comes from the driver's "req_out" task (parent = command)
//	MapWG/WGDone         command processor port ToCUs (Send MapWGReq / Recvd WGCompletionMsg)
//	FlushReq/FlushRsp, CopyReq/CopyRsp   command processor port ToDriver (CopyReq when the request is taken from the port)
//
// All hooks run on the engine goroutine (serial engine), so the file order is the order of occurrence.

import (
	"bufio"
	"encoding/json"
	"os"
	"regexp"
	"strconv"
	"strings"
	"sync"

	"github.com/sarchlab/akita/v4/sim"
	"github.com/sarchlab/akita/v4/tracing"
	"github.com/sarchlab/mgpusim/v4/amd/driver"
	"github.com/sarchlab/mgpusim/v4/amd/kernels"
	"github.com/sarchlab/mgpusim/v4/amd/protocol"
	"github.com/sarchlab/mgpusim/v4/amd/timing/cp"
)

type sysTracer struct {
	mu      sync.Mutex
	w       *bufio.Writer
	f       *os.File
	n       int
	cmdIDs  map[string]int
	reqPar  map[string]string // message id -> id of the command task it was sent for
	queues  map[*driver.CommandQueue]int
	lastQ   *driver.CommandQueue
	launch  map[string]int // LaunchKernelReq id -> launch ordinal
	byPkt   map[*kernels.HsaKernelDispatchPacket]int
	mapIDs  map[string]int
	reqIDs  map[string]int
	nLaunch int
	stats   map[string]int
}

func newSysTracer(path string) *sysTracer {
	f, err := os.Create(path)
	if err != nil {
		panic(err)
	}
	return &sysTracer{f: f, w: bufio.NewWriterSize(f, 1<<20),
		cmdIDs: map[string]int{}, reqPar: map[string]string{}, queues: map[*driver.CommandQueue]int{},
		launch: map[string]int{}, byPkt: map[*kernels.HsaKernelDispatchPacket]int{}, mapIDs: map[string]int{},
		reqIDs: map[string]int{}, stats: map[string]int{}}
}

func (t *sysTracer) emit(ev map[string]interface{}) {
	t.n++
	t.stats[ev["e"].(string)]++
	js, _ := json.Marshal(ev)
	t.w.Write(js)
	t.w.WriteByte('\n')
}

func (t *sysTracer) close() {
	t.w.Flush()
	t.f.Close()
}

func (t *sysTracer) cmdOf(msgID string) int {
	p, ok := t.reqPar[msgID]
	if !ok {
		return 0
	}
	return small(t.cmdIDs, p)
}

func small(m map[string]int, id string) int {
	v, ok := m[id]
	if !ok {
		v = len(m) + 1
		m[id] = v
	}
	return v
}

// yield hook (engine goroutine for "scan")
func (t *sysTracer) yield(point string, q *driver.CommandQueue) {
	if point == "scan" {
		t.mu.Lock()
		t.lastQ = q
		t.mu.Unlock()
	}
}

func cmdKind(what string) string {
	switch {
	case strings.Contains(what, "LaunchUnifiedMultiGPUKernelCommand"):
		return "LaunchUnified"
	case strings.Contains(what, "LaunchKernelCommand"):
		return "Launch"
	case strings.Contains(what, "MemCopyH2D"):
		return "H2D"
	case strings.Contains(what, "MemCopyD2H"):
		return "D2H"
	case strings.Contains(what, "MemCopyD2D"):
		return "D2D"
	case strings.Contains(what, "Noop"):
		return "Noop"
	}
	return "Other"
}

// driver tracer
func (t *sysTracer) StartTask(task tracing.Task) {
	t.mu.Lock()
	defer t.mu.Unlock()
	switch task.Kind {
	case "Driver Command":
		c := small(t.cmdIDs, task.ID)
		qi, ok := t.queues[t.lastQ]
		if !ok {
			qi = len(t.queues) + 1
			t.queues[t.lastQ] = qi
		}
		t.emit(map[string]interface{}{"e": "CmdStart", "q": qi, "c": c, "kind": cmdKind(task.What)})
	case "req_out":
		// the command's own task may start after its requests were created (copy middleware)
		t.reqPar[strings.TrimSuffix(task.ID, "_req_out")] = task.ParentID
	}
}
func (t *sysTracer) StepTask(task tracing.Task)       {}
func (t *sysTracer) AddMilestone(m tracing.Milestone) {}
func (t *sysTracer) EndTask(task tracing.Task) {
	t.mu.Lock()
	defer t.mu.Unlock()
	if c, ok := t.cmdIDs[task.ID]; ok {
		t.emit(map[string]interface{}{"e": "CmdEnd", "c": c})
	}
}

var gpuRe = regexp.MustCompile(`GPU\[(\d+)\]`)

func gpuOf(name string) int {
	m := gpuRe.FindStringSubmatch(name)
	if m == nil {
		return 0
	}
	v, _ := strconv.Atoi(m[1])
	return v
}

type portHook struct {
	t    *sysTracer
	g    int
	port string
}

// ownRanges evaluates the request's work-group filter on every work-group id of the grid.
func ownRanges(req *protocol.LaunchKernelReq) (int, [][2]int) {
	p := req.Packet
	nx := int((p.GridSizeX-1)/uint32(p.WorkgroupSizeX)) + 1
	ny := int((p.GridSizeY-1)/uint32(p.WorkgroupSizeY)) + 1
	nz := int((p.GridSizeZ-1)/uint32(p.WorkgroupSizeZ)) + 1
	n := nx * ny * nz
	if req.WGFilter == nil {
		return n, [][2]int{{0, n}}
	}
	out := [][2]int{}
	start := -1
	wg := kernels.NewWorkGroup()
	for f := 0; f < n; f++ {
		wg.IDX, wg.IDY, wg.IDZ = f%nx, (f/nx)%ny, f/(nx*ny)
		in := req.WGFilter(p, wg)
		if in && start < 0 {
			start = f
		}
		if !in && start >= 0 {
			out = append(out, [2]int{start, f})
			start = -1
		}
	}
	if start >= 0 {
		out = append(out, [2]int{start, n})
	}
	return n, out
}

func flatWG(p *kernels.HsaKernelDispatchPacket, wg *kernels.WorkGroup) int {
	nx := int((p.GridSizeX-1)/uint32(p.WorkgroupSizeX)) + 1
	ny := int((p.GridSizeY-1)/uint32(p.WorkgroupSizeY)) + 1
	return wg.IDZ*nx*ny + wg.IDY*nx + wg.IDX
}

func (h *portHook) Func(ctx sim.HookCtx) {
	t := h.t
	msg, ok := ctx.Item.(sim.Msg)
	if !ok {
		return
	}
	t.mu.Lock()
	defer t.mu.Unlock()
	switch ctx.Pos {
	case sim.HookPosPortMsgRecvd:
		switch m := msg.(type) {
		case *protocol.LaunchKernelReq:
			t.nLaunch++
			id := t.nLaunch
			t.launch[m.ID] = id
			n, own := ownRanges(m)
			c := t.cmdOf(m.ID)
			t.emit(map[string]interface{}{"e": "Launch", "g": h.g, "id": id, "c": c, "nwg": n, "own": own,
				"pkt": small(t.reqIDs, "pkt"+strconv.FormatUint(m.PacketAddress, 16))})
			t.byPkt[m.Packet] = id
		case *protocol.FlushReq:
			t.emit(map[string]interface{}{"e": "FlushReq", "g": h.g, "r": small(t.reqIDs, m.ID), "c": t.cmdOf(m.ID)})
		case *protocol.WGCompletionMsg:
			ms := []int{}
			for _, r := range m.RspTo {
				ms = append(ms, small(t.mapIDs, r))
			}
			t.emit(map[string]interface{}{"e": "WGDone", "g": h.g, "ms": ms})
		}
	case sim.HookPosPortMsgRetrieveIncoming:
		// a copy request is logged when the command processor takes it (it leaves requests in the port while a flush is
		// in progress), not when it is delivered
		switch m := msg.(type) {
		case *protocol.MemCopyD2HReq:
			t.emit(map[string]interface{}{"e": "CopyReq", "g": h.g, "dir": "d2h", "r": small(t.reqIDs, m.ID), "c": t.cmdOf(m.ID)})
		case *protocol.MemCopyH2DReq:
			t.emit(map[string]interface{}{"e": "CopyReq", "g": h.g, "dir": "h2d", "r": small(t.reqIDs, m.ID), "c": t.cmdOf(m.ID)})
		}
	case sim.HookPosPortMsgSend:
		switch m := msg.(type) {
		case *protocol.LaunchKernelRsp:
			t.emit(map[string]interface{}{"e": "LaunchRsp", "g": h.g, "id": t.launch[m.RspTo]})
		case *sim.GeneralRsp:
			switch o := m.OriginalReq.(type) {
			case *protocol.FlushReq:
				t.emit(map[string]interface{}{"e": "FlushRsp", "g": h.g, "r": small(t.reqIDs, o.ID)})
			case *protocol.MemCopyD2HReq:
				t.emit(map[string]interface{}{"e": "CopyRsp", "g": h.g, "r": small(t.reqIDs, o.ID)})
			case *protocol.MemCopyH2DReq:
				t.emit(map[string]interface{}{"e": "CopyRsp", "g": h.g, "r": small(t.reqIDs, o.ID)})
			}
		case *protocol.MapWGReq:
			wg := m.WorkGroup
			id := t.byPkt[wg.Packet]
			t.emit(map[string]interface{}{"e": "MapWG", "g": h.g, "id": id, "wg": flatWG(wg.Packet, wg),
				"m": small(t.mapIDs, m.ID), "nwf": len(m.Wavefronts),
				"items": wg.CurrSizeX * wg.CurrSizeY * wg.CurrSizeZ})
		}
	}
}

func (t *sysTracer) attach(d *driver.Driver, comps []sim.Component) int {
	tracing.CollectTrace(d, t)
	n := 0
	for _, c := range comps {
		if p, ok := c.(*cp.CommandProcessor); ok {
			g := gpuOf(p.Name())
			p.ToDriver.AcceptHook(&portHook{t, g, "ToDriver"})
			p.ToCUs.AcceptHook(&portHook{t, g, "ToCUs"})
			n++
		}
	}
	return n
}
