package main

// Observation of every executed instruction without source changes:
//   emulation CUs   sim.Hook on *emu.ComputeUnit (ctx.Item *emu.Wavefront, ctx.Detail *insts.Inst), invoked
//                   after the instruction was executed, when wf.PC() already holds the next PC
//   timing CUs      tracing tasks of Kind "inst" (detail "inst" *wavefront.Inst, "wf" *wavefront.Wavefront),
//                   started at issue, when wf.PC() is the PC of the issued instruction; ended at retirement
// Both are folded into one per-wavefront record: a rolling digest over (pc - entry, format, opcode) of the executed
// sequence.  In emulation the PC of instruction i is the PC left behind by instruction i-1 (entry PC for i = 0).

import (
	"encoding/binary"
	"encoding/hex"
	"fmt"
	"hash"
	"hash/fnv"
	"sort"

	"github.com/sarchlab/akita/v4/sim"
	"github.com/sarchlab/akita/v4/tracing"
	"github.com/sarchlab/mgpusim/v4/amd/emu"
	"github.com/sarchlab/mgpusim/v4/amd/insts"
	"github.com/sarchlab/mgpusim/v4/amd/kernels"
	"github.com/sarchlab/mgpusim/v4/amd/timing/wavefront"
)

type wfKey struct {
	launch        int
	x, y, z, fwid int
}

func (k wfKey) String() string {
	return fmt.Sprintf("%d:%d,%d,%d:%d", k.launch, k.x, k.y, k.z, k.fwid)
}

type wfRec struct {
	h      hash.Hash
	n      int
	nextPC uint64 // emulation: PC of the next instruction
	dump   []instRec
}

type instRec struct {
	PC   int64  `json:"pc"`
	Fmt  int    `json:"fmt"`
	Op   int    `json:"op"`
	Name string `json:"name"`
}

type launchRec struct {
	Ordinal  int       `json:"ordinal"`
	Desc     string    `json:"desc"`
	Grid     [3]uint32 `json:"grid"`
	WG       [3]uint16 `json:"wg"`
	Entry    uint64    `json:"entry"`
	NumWf    int       `json:"wavefronts"`
	NumInst  int       `json:"insts"`
	Digest   string    `json:"digest"`
	packet   *kernels.HsaKernelDispatchPacket
	pktAddr  uint64
	wfs      map[wfKey]*wfRec
	opcounts map[string]int
}

type instTracer struct {
	launches []*launchRec
	byPacket map[*kernels.HsaKernelDispatchPacket]*launchRec
	byWf     map[*kernels.Wavefront]*wfRec
	inflight map[string]bool
	issued   int
	retired  int
	dumpKey  string
	dumped   []instRec
}

func newInstTracer(dumpKey string) *instTracer {
	return &instTracer{
		launches: []*launchRec{},
		byPacket: map[*kernels.HsaKernelDispatchPacket]*launchRec{},
		byWf:     map[*kernels.Wavefront]*wfRec{},
		inflight: map[string]bool{},
		dumpKey:  dumpKey,
	}
}

func entryPC(wf *kernels.Wavefront) uint64 {
	return wf.Packet.KernelObject + wf.CodeObject.KernelCodeEntryByteOffset
}

func (t *instTracer) rec(wf *kernels.Wavefront) (*launchRec, *wfRec, bool) {
	l, ok := t.byPacket[wf.Packet]
	if !ok {
		p := wf.Packet
		l = &launchRec{
			Ordinal: len(t.launches),
			Grid:    [3]uint32{p.GridSizeX, p.GridSizeY, p.GridSizeZ},
			WG:      [3]uint16{p.WorkgroupSizeX, p.WorkgroupSizeY, p.WorkgroupSizeZ},
			Entry:   entryPC(wf),
			packet:  p, pktAddr: wf.PacketAddress, wfs: map[wfKey]*wfRec{}, opcounts: map[string]int{},
		}
		l.Desc = fmt.Sprintf("grid=%dx%dx%d wg=%dx%dx%d kobj=%x kernarg=%x pkt=%x",
			p.GridSizeX, p.GridSizeY, p.GridSizeZ, p.WorkgroupSizeX, p.WorkgroupSizeY, p.WorkgroupSizeZ,
			p.KernelObject, p.KernargAddress, wf.PacketAddress)
		t.byPacket[p] = l
		t.launches = append(t.launches, l)
	}
	r, ok := t.byWf[wf]
	fresh := false
	if !ok {
		k := wfKey{l.Ordinal, wf.WG.IDX, wf.WG.IDY, wf.WG.IDZ, wf.FirstWiFlatID}
		if old, dup := l.wfs[k]; dup {
			// the same (work-group, wavefront) executed by two wavefront objects: keep both visible
			k.fwid = -1000000 - len(l.wfs)
			_ = old
		}
		r = &wfRec{h: fnv.New128a(), nextPC: entryPC(wf)}
		l.wfs[k] = r
		t.byWf[wf] = r
		fresh = true
	}
	return l, r, fresh
}

func (t *instTracer) note(l *launchRec, r *wfRec, wf *kernels.Wavefront, pc uint64, in *insts.Inst) {
	var b [16]byte
	rel := int64(pc) - int64(l.Entry)
	binary.LittleEndian.PutUint64(b[0:], uint64(rel))
	binary.LittleEndian.PutUint32(b[8:], uint32(in.FormatType))
	binary.LittleEndian.PutUint32(b[12:], uint32(in.Opcode))
	r.h.Write(b[:])
	r.n++
	l.NumInst++
	l.opcounts[in.InstName]++
	t.issued++
	if t.dumpKey != "" {
		k := wfKey{l.Ordinal, wf.WG.IDX, wf.WG.IDY, wf.WG.IDZ, wf.FirstWiFlatID}
		if k.String() == t.dumpKey {
			t.dumped = append(t.dumped, instRec{rel, int(in.FormatType), int(in.Opcode), in.InstName})
		}
	}
}

// emulation
func (t *instTracer) Func(ctx sim.HookCtx) {
	wf, ok := ctx.Item.(*emu.Wavefront)
	if !ok {
		return
	}
	in, ok := ctx.Detail.(*insts.Inst)
	if !ok {
		return
	}
	l, r, _ := t.rec(wf.Wavefront)
	pc := r.nextPC
	r.nextPC = wf.PC()
	t.note(l, r, wf.Wavefront, pc, in)
	t.retired++
}

// timing
func (t *instTracer) StartTask(task tracing.Task) {
	if task.Kind != "inst" {
		return
	}
	d, ok := task.Detail.(map[string]interface{})
	if !ok {
		return
	}
	in := d["inst"].(*wavefront.Inst)
	wf := d["wf"].(*wavefront.Wavefront)
	l, r, _ := t.rec(wf.Wavefront)
	t.note(l, r, wf.Wavefront, wf.PC(), in.Inst)
	t.inflight[task.ID] = true
}
func (t *instTracer) StepTask(task tracing.Task)       {}
func (t *instTracer) AddMilestone(m tracing.Milestone) {}
func (t *instTracer) EndTask(task tracing.Task) {
	if t.inflight[task.ID] {
		delete(t.inflight, task.ID)
		t.retired++
	}
}

// finish computes the per-launch digests; returns the per-wavefront table for the side file.
func (t *instTracer) finish() map[string]interface{} {
	per := map[string]interface{}{}
	for _, l := range t.launches {
		keys := make([]wfKey, 0, len(l.wfs))
		for k := range l.wfs {
			keys = append(keys, k)
		}
		sort.Slice(keys, func(i, j int) bool {
			a, b := keys[i], keys[j]
			if a.z != b.z {
				return a.z < b.z
			}
			if a.y != b.y {
				return a.y < b.y
			}
			if a.x != b.x {
				return a.x < b.x
			}
			return a.fwid < b.fwid
		})
		h := fnv.New128a()
		tbl := map[string]interface{}{}
		for _, k := range keys {
			r := l.wfs[k]
			dg := hex.EncodeToString(r.h.Sum(nil))
			ks := fmt.Sprintf("%d,%d,%d:%d", k.x, k.y, k.z, k.fwid)
			fmt.Fprintf(h, "%s=%d:%s;", ks, r.n, dg)
			tbl[ks] = []interface{}{r.n, dg}
		}
		l.NumWf = len(keys)
		l.Digest = hex.EncodeToString(h.Sum(nil))
		per[fmt.Sprint(l.Ordinal)] = map[string]interface{}{"desc": l.Desc, "wfs": tbl, "opcounts": l.opcounts}
	}
	return per
}

// roles maps the device addresses the driver allocated for a launch (code object, kernel arguments, AQL packet)
// to their role, so that data buffers can be told from launch-internal ones.
func (t *instTracer) roles() map[uint64]string {
	r := map[uint64]string{}
	for _, l := range t.launches {
		r[l.packet.KernelObject] = "code"
		r[l.packet.KernargAddress] = "kernarg"
		r[l.pktAddr] = "packet"
	}
	return r
}
