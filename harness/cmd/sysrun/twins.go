package main

// twins instantiates ONE workload twice, in two driver contexts (two PIDs) on
// the same GPU, with the same sizes: the two address spaces then have identical
// allocation histories (every context bump-allocates from the same first
// virtual address), so the k-th buffer, kernel-argument block and AQL packet of
// both instances sit at the same virtual addresses and differ only in the PID.
// Sequentially (instance A runs to completion, then B) or concurrently from two
// application goroutines (as Runner.Run does for the concurrentworkload
// sample).  Each instance is verified against its own host reference, the
// full-reference comparison of benches.go included, and - the inputs of these
// workloads are deterministic - the host arrays the two instances read back must
// be identical (spec/system/AddrSpace.tla: an access of context c resolves
// through c's own page-table entries; the result of instance i does not depend
// on instance j).

import (
	"fmt"
	"sync"

	"github.com/sarchlab/mgpusim/v4/amd/arch"
	"github.com/sarchlab/mgpusim/v4/amd/benchmarks"
	"github.com/sarchlab/mgpusim/v4/amd/driver"
)

var twinWorkloads = []string{"fir", "relu", "matrixtranspose", "vectoradd"}

type twins struct {
	members    []benchmarks.Benchmark
	concurrent bool
	which      string
}

func makeTwins(d *driver.Driver, a arch.Type, p params) benchmarks.Benchmark {
	w := p.i("which", 1)
	if w < 1 || w > len(twinWorkloads) {
		panic("twins: which out of range")
	}
	name := twinWorkloads[w-1]
	q := params{}
	size := float64(p.i("size", 1024))
	switch name {
	case "fir":
		q["length"], q["taps"] = size, 16
	case "relu":
		q["length"] = size
	case "matrixtranspose":
		q["width"] = size
	case "vectoradd":
		q["width"], q["height"] = size, 1
	}
	t := &twins{concurrent: p.i("conc", 0) != 0, which: name}
	for i := 0; i < 2; i++ {
		t.members = append(t.members, makeBench(name, d, a, q))
	}
	return t
}

func (t *twins) SelectGPU(gpus []int) {
	for _, b := range t.members {
		b.SelectGPU(gpus[:1])
	}
}
func (t *twins) SetUnifiedMemory() {
	for _, b := range t.members {
		b.SetUnifiedMemory()
	}
}

func (t *twins) Run() {
	if !t.concurrent {
		for _, b := range t.members {
			b.Run()
		}
		return
	}
	var wg sync.WaitGroup
	var mu sync.Mutex
	var first interface{}
	for _, b := range t.members {
		wg.Add(1)
		go func(b benchmarks.Benchmark) {
			defer wg.Done()
			defer func() {
				if e := recover(); e != nil {
					mu.Lock()
					if first == nil {
						first = e
					}
					mu.Unlock()
				}
			}()
			b.Run()
		}(b)
	}
	wg.Wait()
	if first != nil {
		panic(first)
	}
}

func (t *twins) Verify() {
	for i, b := range t.members {
		func() {
			defer func() {
				if e := recover(); e != nil {
					panic(fmt.Sprintf("twins(%s) instance %d: %v", t.which, i+1, e))
				}
			}()
			b.Verify()
			if msg := fullReference(b); msg != "" {
				panic(msg)
			}
		}()
	}
	// same deterministic inputs, separate address spaces: the read-back host arrays must agree
	a0, a1 := inspectBenchmark(t.members[0]).arrays, inspectBenchmark(t.members[1]).arrays
	if len(a0) != len(a1) {
		panic(fmt.Sprintf("twins(%s): instances hold %d and %d host arrays", t.which, len(a0), len(a1)))
	}
	for i := range a0 {
		if a0[i] != a1[i] {
			panic(fmt.Sprintf("twins(%s): host array %s differs between the two instances", t.which, a0[i].Name))
		}
	}
}
