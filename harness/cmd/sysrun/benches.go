package main

// Registry of the shipped workloads: one entry per benchmark directory of
// /repo/amd/samples, constructed exactly as the sample's main.go does (same
// fields, same setters), with the size parameters taken from -p.

import (
	"fmt"
	"math"
	"math/rand"
	"sort"
	"sync"

	"github.com/sarchlab/mgpusim/v4/amd/arch"
	"github.com/sarchlab/mgpusim/v4/amd/benchmarks"
	"github.com/sarchlab/mgpusim/v4/amd/benchmarks/amdappsdk/bitonicsort"
	"github.com/sarchlab/mgpusim/v4/amd/benchmarks/amdappsdk/fastwalshtransform"
	"github.com/sarchlab/mgpusim/v4/amd/benchmarks/amdappsdk/floydwarshall"
	"github.com/sarchlab/mgpusim/v4/amd/benchmarks/amdappsdk/matrixmultiplication"
	"github.com/sarchlab/mgpusim/v4/amd/benchmarks/amdappsdk/matrixtranspose"
	"github.com/sarchlab/mgpusim/v4/amd/benchmarks/amdappsdk/nbody"
	"github.com/sarchlab/mgpusim/v4/amd/benchmarks/amdappsdk/simpleconvolution"
	"github.com/sarchlab/mgpusim/v4/amd/benchmarks/amdappsdk/vectoradd"
	"github.com/sarchlab/mgpusim/v4/amd/benchmarks/dnn/layer_benchmarks/conv2d"
	"github.com/sarchlab/mgpusim/v4/amd/benchmarks/dnn/layer_benchmarks/im2col"
	"github.com/sarchlab/mgpusim/v4/amd/benchmarks/dnn/layer_benchmarks/relu"
	"github.com/sarchlab/mgpusim/v4/amd/benchmarks/dnn/training_benchmarks/lenet"
	"github.com/sarchlab/mgpusim/v4/amd/benchmarks/dnn/training_benchmarks/xor"
	"github.com/sarchlab/mgpusim/v4/amd/benchmarks/heteromark/aes"
	"github.com/sarchlab/mgpusim/v4/amd/benchmarks/heteromark/fir"
	"github.com/sarchlab/mgpusim/v4/amd/benchmarks/heteromark/kmeans"
	"github.com/sarchlab/mgpusim/v4/amd/benchmarks/heteromark/pagerank"
	"github.com/sarchlab/mgpusim/v4/amd/benchmarks/polybench/atax"
	"github.com/sarchlab/mgpusim/v4/amd/benchmarks/polybench/bicg"
	"github.com/sarchlab/mgpusim/v4/amd/benchmarks/rodinia/nw"
	"github.com/sarchlab/mgpusim/v4/amd/benchmarks/shoc/bfs"
	"github.com/sarchlab/mgpusim/v4/amd/benchmarks/shoc/fft"
	"github.com/sarchlab/mgpusim/v4/amd/benchmarks/shoc/spmv"
	"github.com/sarchlab/mgpusim/v4/amd/benchmarks/shoc/stencil2d"
	"github.com/sarchlab/mgpusim/v4/amd/driver"
)

type maker func(d *driver.Driver, a arch.Type, p params) benchmarks.Benchmark

// memcopy is amd/samples/memcopy (package main there, so re-stated here verbatim).
type memcopy struct {
	driver           *driver.Driver
	context          *driver.Context
	gpu              int
	ByteSize         uint64
	data             []byte
	retData          []byte
	useUnifiedMemory bool
}

func (b *memcopy) SelectGPU(gpus []int) {
	if len(gpus) > 1 {
		panic("memory copy benchmark only support a single GPU")
	}
	b.gpu = gpus[0]
}
func (b *memcopy) SetUnifiedMemory() { b.useUnifiedMemory = true }
func (b *memcopy) Run() {
	b.driver.SelectGPU(b.context, b.gpu)
	b.data = make([]byte, b.ByteSize)
	b.retData = make([]byte, b.ByteSize)
	for i := uint64(0); i < b.ByteSize; i++ {
		b.data[i] = byte(rand.Int())
	}
	gpuData := b.driver.AllocateMemory(b.context, b.ByteSize)
	if b.useUnifiedMemory {
		gpuData = b.driver.AllocateUnifiedMemory(b.context, b.ByteSize)
	}
	b.driver.MemCopyH2D(b.context, gpuData, b.data)
	b.driver.MemCopyD2H(b.context, b.retData, gpuData)
}
func (b *memcopy) Verify() {
	for i := uint64(0); i < b.ByteSize; i++ {
		if b.data[i] != b.retData[i] {
			panic(fmt.Sprintf("error at %d, expected %02x, but get %02x", i, b.data[i], b.retData[i]))
		}
	}
}

// multi runs several benchmarks concurrently, each in its own goroutine, as Runner.Run does for the
// concurrentkernel / concurrentworkload samples (which fix the GPUs of each member themselves).
type multi struct {
	members []benchmarks.Benchmark
}

func (m *multi) SelectGPU(gpus []int) {}
func (m *multi) SetUnifiedMemory() {
	for _, b := range m.members {
		b.SetUnifiedMemory()
	}
}
func (m *multi) Run() {
	var wg sync.WaitGroup
	var mu sync.Mutex
	var first interface{}
	for _, b := range m.members {
		wg.Add(1)
		go func(b benchmarks.Benchmark) {
			defer wg.Done()
			defer func() {
				if e := recover(); e != nil {
					mu.Lock()
					if first == nil {
						first = e
					}
					mu.Unlock()
				}
			}()
			b.Run()
		}(b)
	}
	wg.Wait()
	if first != nil {
		panic(first)
	}
}
func (m *multi) Verify() {
	for _, b := range m.members {
		b.Verify()
	}
}

var registry = map[string]maker{
	"aes": func(d *driver.Driver, a arch.Type, p params) benchmarks.Benchmark {
		b := aes.NewBenchmark(d)
		b.Arch = a
		b.Length = p.i("length", 1024)
		return b
	},
	"atax": func(d *driver.Driver, a arch.Type, p params) benchmarks.Benchmark {
		b := atax.NewBenchmark(d)
		b.Arch = a
		b.NX = p.i("x", 64)
		b.NY = p.i("y", 64)
		return b
	},
	"bfs": func(d *driver.Driver, a arch.Type, p params) benchmarks.Benchmark {
		b := bfs.NewBenchmark(d)
		b.Arch = a
		b.NumNode = p.i("node", 64)
		b.Degree = p.i("degree", 3)
		b.MaxDepth = p.i("depth", math.MaxInt32)
		return b
	},
	"bicg": func(d *driver.Driver, a arch.Type, p params) benchmarks.Benchmark {
		b := bicg.NewBenchmark(d)
		b.Arch = a
		b.NX = p.i("x", 64)
		b.NY = p.i("y", 64)
		return b
	},
	"bitonicsort": func(d *driver.Driver, a arch.Type, p params) benchmarks.Benchmark {
		b := bitonicsort.NewBenchmark(d)
		b.Arch = a
		b.Length = p.i("length", 256)
		b.OrderAscending = p.i("asc", 1) != 0
		return b
	},
	"concurrentkernel": func(d *driver.Driver, a arch.Type, p params) benchmarks.Benchmark {
		f := fir.NewBenchmark(d)
		f.Length = p.i("firlength", 10240)
		f.SelectGPU([]int{1})
		s := bitonicsort.NewBenchmark(d)
		s.Length = p.i("bslength", 64)
		s.SelectGPU([]int{1})
		return &multi{[]benchmarks.Benchmark{f, s}}
	},
	"concurrentworkload": func(d *driver.Driver, a arch.Type, p params) benchmarks.Benchmark {
		f := fir.NewBenchmark(d)
		f.Length = p.i("firlength", 10240)
		f.SelectGPU([]int{1, 2})
		s := bitonicsort.NewBenchmark(d)
		s.Length = p.i("bslength", 64)
		s.SelectGPU([]int{3})
		return &multi{[]benchmarks.Benchmark{f, s}}
	},
	"conv2d": func(d *driver.Driver, a arch.Type, p params) benchmarks.Benchmark {
		b := conv2d.NewBenchmark(d)
		b.N, b.C, b.H, b.W = p.i("N", 1), p.i("C", 1), p.i("H", 8), p.i("W", 8)
		b.KernelChannel = p.i("oc", 3)
		b.KernelHeight, b.KernelWidth = p.i("kh", 3), p.i("kw", 3)
		b.PadX, b.PadY = p.i("padx", 0), p.i("pady", 0)
		b.StrideX, b.StrideY = p.i("stridex", 1), p.i("stridey", 1)
		b.EnableBackward = p.i("backward", 0) != 0
		b.Arch = a
		return b
	},
	"fastwalshtransform": func(d *driver.Driver, a arch.Type, p params) benchmarks.Benchmark {
		b := fastwalshtransform.NewBenchmark(d)
		b.Length = uint32(p.i("length", 256))
		b.Arch = a
		return b
	},
	"fft": func(d *driver.Driver, a arch.Type, p params) benchmarks.Benchmark {
		b := fft.NewBenchmark(d)
		b.Arch = a
		if by := p.i("bytes", 0); by > 0 {
			b.Bytes = int64(by)
			b.BytesMode = true
		} else {
			b.Bytes = int64(p.i("MB", 1))
		}
		b.Passes = int32(p.i("passes", 1))
		return b
	},
	"fir": func(d *driver.Driver, a arch.Type, p params) benchmarks.Benchmark {
		b := fir.NewBenchmark(d)
		b.Length = p.i("length", 1024)
		b.NumTapsParam = p.i("taps", 16)
		b.Arch = a
		return b
	},
	"floydwarshall": func(d *driver.Driver, a arch.Type, p params) benchmarks.Benchmark {
		b := floydwarshall.NewBenchmark(d)
		b.NumNodes = uint32(p.i("node", 16))
		b.NumIterations = uint32(p.i("iter", 0))
		b.Arch = a
		return b
	},
	"im2col": func(d *driver.Driver, a arch.Type, p params) benchmarks.Benchmark {
		b := im2col.NewBenchmark(d)
		b.N, b.C, b.H, b.W = p.i("N", 1), p.i("C", 1), p.i("H", 8), p.i("W", 8)
		b.KernelHeight, b.KernelWidth = p.i("kh", 3), p.i("kw", 3)
		b.PadX, b.PadY = p.i("padx", 0), p.i("pady", 0)
		b.StrideX, b.StrideY = p.i("stridex", 1), p.i("stridey", 1)
		b.DilateX, b.DilateY = p.i("dilatex", 1), p.i("dilatey", 1)
		b.Arch = a
		return b
	},
	"kmeans": func(d *driver.Driver, a arch.Type, p params) benchmarks.Benchmark {
		b := kmeans.NewBenchmark(d)
		b.Arch = a
		b.NumPoints = p.i("points", 128)
		b.NumClusters = p.i("clusters", 3)
		b.NumFeatures = p.i("features", 4)
		b.MaxIter = p.i("maxiter", 3)
		return b
	},
	"lenet": func(d *driver.Driver, a arch.Type, p params) benchmarks.Benchmark {
		b := lenet.NewBenchmark(d)
		b.Epoch = p.i("epoch", 1)
		b.MaxBatchPerEpoch = p.i("maxbatch", 1)
		b.BatchSize = p.i("batch", 2)
		b.EnableTesting = false
		b.EnableVerification = p.i("opverify", 0) != 0
		return b
	},
	"matrixmultiplication": func(d *driver.Driver, a arch.Type, p params) benchmarks.Benchmark {
		b := matrixmultiplication.NewBenchmark(d)
		b.Arch = a
		b.X, b.Y, b.Z = uint32(p.i("x", 32)), uint32(p.i("y", 32)), uint32(p.i("z", 32))
		return b
	},
	"matrixtranspose": func(d *driver.Driver, a arch.Type, p params) benchmarks.Benchmark {
		b := matrixtranspose.NewBenchmark(d)
		b.Width = p.i("width", 64)
		b.Arch = a
		return b
	},
	"memcopy": func(d *driver.Driver, a arch.Type, p params) benchmarks.Benchmark {
		return &memcopy{driver: d, context: d.Init(), ByteSize: uint64(p.i("bytes", 65536))}
	},
	"nbody": func(d *driver.Driver, a arch.Type, p params) benchmarks.Benchmark {
		b := nbody.NewBenchmark(d)
		b.Arch = a
		b.NumIterations = int32(p.i("iter", 1))
		b.NumParticles = int32(p.i("particles", 256))
		return b
	},
	"nw": func(d *driver.Driver, a arch.Type, p params) benchmarks.Benchmark {
		b := nw.NewBenchmark(d)
		b.Arch = a
		b.SetLength(p.i("length", 64))
		return b
	},
	"argreuse": func(d *driver.Driver, a arch.Type, p params) benchmarks.Benchmark {
		return &argreuse{driver: d, context: d.Init(), Length: p.i("length", 512), Launches: p.i("launches", 4), ScalarMask: p.i("smask", 14)}
	},
	"overlapcopy": func(d *driver.Driver, a arch.Type, p params) benchmarks.Benchmark {
		return &overlapcopy{driver: d, context: d.Init(), Length: p.i("length", 4096), Taps: p.i("taps", 32), Chunks: p.i("chunks", 8)}
	},
	"pagerank": func(d *driver.Driver, a arch.Type, p params) benchmarks.Benchmark {
		b := pagerank.NewBenchmark(d)
		b.Arch = a
		n := p.i("node", 16)
		sp := p.f("sparsity", 0.5)
		if pm, ok := p["sparsitypm"]; ok {
			sp = pm / 1000
		}
		if sp > 1 {
			sp = 1
		}
		conn := int(float64(n*n) * sp)
		if conn < n {
			conn = n
		}
		b.NumNodes = uint32(n)
		b.NumConnections = uint32(conn)
		b.MaxIterations = uint32(p.i("iterations", 2))
		return b
	},
	"relu": func(d *driver.Driver, a arch.Type, p params) benchmarks.Benchmark {
		b := relu.NewBenchmark(d)
		b.Arch = a
		b.Length = p.i("length", 1024)
		return b
	},
	"simpleconvolution": func(d *driver.Driver, a arch.Type, p params) benchmarks.Benchmark {
		b := simpleconvolution.NewBenchmark(d)
		b.Height = uint32(p.i("height", 62))
		b.Width = uint32(p.i("width", 62))
		b.SetMaskSize(uint32(p.i("mask", 3)))
		b.Arch = a
		return b
	},
	"spmv": func(d *driver.Driver, a arch.Type, p params) benchmarks.Benchmark {
		b := spmv.NewBenchmark(d)
		b.Dim = int32(p.i("dim", 128))
		b.Sparsity = p.f("sparsity", 0.01)
		if pm, ok := p["sparsitypm"]; ok {
			b.Sparsity = pm / 1000
		}
		b.Arch = a
		return b
	},
	"stencil2d": func(d *driver.Driver, a arch.Type, p params) benchmarks.Benchmark {
		b := stencil2d.NewBenchmark(d)
		b.Arch = a
		b.NumIteration = p.i("iter", 1)
		b.NumRows = p.i("row", 64) + 2
		b.NumCols = p.i("col", 64) + 2
		return b
	},
	"vectoradd": func(d *driver.Driver, a arch.Type, p params) benchmarks.Benchmark {
		b := vectoradd.NewBenchmark(d)
		b.Width = uint32(p.i("width", 256))
		b.Height = uint32(p.i("height", 1))
		return b
	},
	"xor": func(d *driver.Driver, a arch.Type, p params) benchmarks.Benchmark {
		return xor.NewBenchmark(d)
	},
}

// fullReference compares ALL of a workload's read-back output with the workload's own host reference where the
// workload's Verify() looks at a part only (matrixmultiplication.Verify walks a single row: its inner loop tests and
// increments the outer index). Returns "" when equal within the workload's tolerance.
func fullReference(b benchmarks.Benchmark) string {
	switch b := b.(type) {
	case *matrixmultiplication.Benchmark:
		cpu := (&matrixmultiplication.CPUMatrixMultiplier{}).Multiply(b.MatrixA, b.MatrixB)
		for j := uint32(0); j < cpu.Height; j++ {
			for i := uint32(0); i < cpu.Width; i++ {
				idx := i + j*cpu.Width
				if math.Abs(float64(cpu.Data[idx]-b.MatrixC.Data[idx])) > 1e-3 {
					return fmt.Sprintf("full comparison with the CPU reference: mismatch at row %d col %d: expected %f, but get %f",
						j, i, cpu.Data[idx], b.MatrixC.Data[idx])
				}
			}
		}
	}
	return ""
}

func makeBench(name string, d *driver.Driver, a arch.Type, p params) benchmarks.Benchmark {
	if name == "twins" {
		return makeTwins(d, a, p)
	}
	m, ok := registry[name]
	if !ok {
		panic("unknown bench " + name)
	}
	return m(d, a, p)
}

func listBenches() {
	names := []string{}
	for n := range registry {
		names = append(names, n)
	}
	sort.Strings(names)
	for _, n := range names {
		fmt.Println(n)
	}
}
