package main

// argreuse is a race-free program that enqueues several kernel launches while
// reusing ONE kernel-argument struct: between two enqueues the host changes a
// pointer field (the output buffer) and, where the mask says so, a scalar field
// (the number of filter taps); nothing is drained before the last enqueue.
// The driver API promises that a launch runs with the argument values its
// struct held when EnqueueLaunchKernel was called (spec/system/ArgCapture.tla:
// executed args = args at enqueue): launch i must fill output buffer i with the
// FIR of its own tap count.  Launch i goes to queue i mod n, one queue per
// selected GPU (a unified device is one GPU to the program).  The launches
// write disjoint buffers and read shared, constant ones.
//
// Not demanded: EnqueueMemCopyH2D keeps a reference to the caller's slice and
// serialises it when the command starts (amd/driver/api.go, memorycopy.go on
// the unchanged tree), so the program never changes a source slice before the
// drain.

import (
	"fmt"
	"math"
	"os"
	"path/filepath"

	"github.com/sarchlab/mgpusim/v4/amd/driver"
	"github.com/sarchlab/mgpusim/v4/amd/insts"
)

type argreuse struct {
	driver  *driver.Driver
	context *driver.Context
	gpus    []int

	Length, Launches, ScalarMask int

	input, filter []float32
	taps          []int
	outputs       [][]float32
}

func (b *argreuse) SelectGPU(gpus []int) { b.gpus = gpus }
func (b *argreuse) SetUnifiedMemory()    {}

func (b *argreuse) Run() {
	d, ctx := b.driver, b.context
	data, err := os.ReadFile(filepath.Join(repoDir(), "amd", "benchmarks", "heteromark", "fir", "kernels.hsaco"))
	if err != nil {
		panic(err)
	}
	co := insts.LoadKernelCodeObjectFromBytes(data, "FIR")
	if co == nil {
		panic("cannot load the FIR kernel")
	}
	maxTaps := 2 + 3*b.Launches
	b.input = make([]float32, b.Length)
	for i := range b.input {
		b.input[i] = float32(i%97) * 0.5
	}
	b.filter = make([]float32, maxTaps)
	for i := range b.filter {
		b.filter[i] = float32(2*i + 3)
	}

	d.SelectGPU(ctx, b.gpus[0])
	dHistory := d.AllocateMemory(ctx, uint64(maxTaps*4))
	dInput := d.AllocateMemory(ctx, uint64(b.Length*4))
	dFilter := d.AllocateMemory(ctx, uint64(maxTaps*4))
	d.MemCopyH2D(ctx, dInput, b.input)
	d.MemCopyH2D(ctx, dFilter, b.filter)
	d.MemCopyH2D(ctx, dHistory, make([]float32, maxTaps))

	queues := make([]*driver.CommandQueue, len(b.gpus))
	for j, g := range b.gpus {
		d.SelectGPU(ctx, g)
		queues[j] = d.CreateCommandQueue(ctx)
	}
	dOut := make([]driver.Ptr, b.Launches)
	zero := make([]float32, b.Length)
	for i := range dOut {
		d.SelectGPU(ctx, b.gpus[i%len(b.gpus)])
		dOut[i] = d.AllocateMemory(ctx, uint64(b.Length*4))
		d.MemCopyH2D(ctx, dOut[i], zero)
	}

	// the ONE argument struct of the program
	args := overlapFirArgs{Filter: dFilter, Input: dInput, History: dHistory, NumTaps: 2}
	b.taps = make([]int, b.Launches)
	for i := 0; i < b.Launches; i++ {
		args.Output = dOut[i] // pointer field: changes before every enqueue
		if i > 0 && b.ScalarMask&(1<<uint(i)) != 0 {
			args.NumTaps += 3 // scalar field: changes where the mask says so
		}
		b.taps[i] = int(args.NumTaps)
		d.EnqueueLaunchKernel(queues[i%len(queues)], co,
			[3]uint32{uint32(b.Length), 1, 1}, [3]uint16{256, 1, 1}, &args)
	}
	// after the last enqueue the host keeps using its struct
	args.Output = dOut[0]
	args.NumTaps = 1
	for _, q := range queues {
		d.DrainCommandQueue(q)
	}

	b.outputs = make([][]float32, b.Launches)
	for i := range b.outputs {
		b.outputs[i] = make([]float32, b.Length)
		d.MemCopyD2H(ctx, b.outputs[i], dOut[i])
	}
}

// Verify: launch i ran with the pointer and the tap count its struct held at enqueue time.
func (b *argreuse) Verify() {
	for l := 0; l < b.Launches; l++ {
		for i := 0; i < b.Length; i++ {
			var sum float32
			for j := 0; j < b.taps[l] && j <= i; j++ {
				sum += b.input[i-j] * b.filter[j]
			}
			if math.Float32bits(sum) != math.Float32bits(b.outputs[l][i]) {
				panic(fmt.Sprintf("argreuse: launch %d (taps %d at enqueue) output[%d] expected %f, but get %f",
					l, b.taps[l], i, sum, b.outputs[l][i]))
			}
		}
	}
}
