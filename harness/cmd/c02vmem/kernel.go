package main

import (
	"fmt"

	"github.com/sarchlab/mgpusim/v4/amd/insts"

	"verifharness/c14asm"
)

// Memory layout of a vector-memory test kernel (one work-group of nwf wavefronts).
//
//	kernarg +0  data buffer   (the region the tested instructions address)
//	kernarg +8  out buffer    (row t: 16 bytes per lane: the destination registers after test t)
//	kernarg +16 table buffer  (row t: one dword per lane: the lane's byte offset into data for test t)
//	kernarg +24 src buffer    (row t: 16 bytes per lane: the registers a store test writes from)
//	kernarg +32+8t            EXEC mask of test t
//
// Every FLAT instruction of the kernel (set-up loads, the tested instruction, the result stores) is
// judged by the trace specification; the set-up ones are aligned unit-stride accesses.
const (
	dataBase  = 0x2_0000_0000
	outBase   = 0x3_0000_0000
	tableBase = 0x4_0000_0000
	srcBase   = 0x5_0000_0000
	kargBase  = 0x0008_0000
	codeBase  = 0x0010_0000
	dataSize  = 65536 // 4 KB per wavefront, up to 16 wavefronts
	maxTests  = 12
	rowLanes  = 1024 // lanes per table / out / src row
	tableRow  = rowLanes * 4
	wideRow   = rowLanes * 16
	numVGPR   = 32
	numSGPR   = 24
)

// opcode, registers, load?
type opInfo struct {
	name string
	opc  int
	regs int
	load bool
}

var ops = map[string]opInfo{
	"ld_ubyte":  {"flat_load_ubyte", 16, 1, true},
	"ld_sbyte":  {"flat_load_sbyte", 17, 1, true},
	"ld_ushort": {"flat_load_ushort", 18, 1, true},
	"ld_sshort": {"flat_load_sshort", 19, 1, true},
	"ld_dw":     {"flat_load_dword", 20, 1, true},
	"ld_dw2":    {"flat_load_dwordx2", 21, 2, true},
	"ld_dw3":    {"flat_load_dwordx3", 22, 3, true},
	"ld_dw4":    {"flat_load_dwordx4", 23, 4, true},
	"st_byte":   {"flat_store_byte", 24, 1, false},
	"st_short":  {"flat_store_short", 26, 1, false},
	"st_dw":     {"flat_store_dword", 28, 1, false},
	"st_dw2":    {"flat_store_dwordx2", 29, 2, false},
	"st_dw3":    {"flat_store_dwordx3", 30, 3, false},
	"st_dw4":    {"flat_store_dwordx4", 31, 4, false},
}

// registers: s[0:1] kernarg, s[4:5] data, s[6:7] out, s[8:9] table, s[10:11] src, s[12:13] mask / saved exec,
// s14 row stride; v0 local id, v2 lid*4, v3 lid*16, v[4:5] table address, v[6:7] tested address,
// v[10:11] out address, v[16:17] src address, v18 lane in wavefront, v20 offset, v[24:27] data registers.
func buildKernel(sc *Scenario) ([]byte, []string, error) {
	if len(sc.Tests) > maxTests {
		return nil, nil, fmt.Errorf("at most %d tests per kernel", maxTests)
	}
	a := c14asm.New()
	K, S, V := c14asm.K, c14asm.S, c14asm.V
	a.SLoadDwordx2(4, 0, 0)
	a.SLoadDwordx2(6, 0, 8)
	a.SLoadDwordx2(8, 0, 16)
	a.SLoadDwordx2(10, 0, 24)
	a.VLshlrevB32(2, K(2), 0) // v2 = lid*4
	a.VLshlrevB32(3, K(4), 0) // v3 = lid*16
	a.VAndB32(18, K(63), 0)   // v18 = lane
	a.SWaitcnt(15, 0)
	add64 := func(lo, hi int, sLo, sHi int, off int) { // v[lo:hi] = s[sLo:sHi] + v[off]
		a.VMovB32(hi, S(sHi))
		a.VAddU32(lo, S(sLo), off)
		a.VAddcU32(hi, K(0), hi)
	}
	for t, ts := range sc.Tests {
		oi, ok := ops[ts.Op]
		if !ok {
			return nil, nil, fmt.Errorf("unknown op %q", ts.Op)
		}
		add64(4, 5, 8, 9, 2)
		a.FlatLoadDword(20, 4, 0)
		if !oi.load {
			add64(16, 17, 10, 11, 3)
			a.Flat("flat_load_dwordx4", 23, 24, 0, 16, 0)
		}
		a.SWaitcnt(0, 15)
		// v[6:7] = data + offset
		a.VMovB32(7, S(5))
		a.VAddU32(6, S(4), 20)
		a.VAddcU32(7, K(0), 7)
		if oi.load {
			// recognisable register contents in front of the load
			a.VXorB32(24, K(21), 0)
			a.VOrB32(25, V(24), 2)
			a.VXorB32(26, K(42), 3)
			a.VLshlrevB32(27, K(9), 24)
		}
		if ts.LT > 0 {
			a.VCmpGtU32(K(ts.LT), 18)
			a.SAndSaveexecB64(12, c14asm.VCC)
		} else {
			a.SLoadDwordx2(12, 0, uint32(32+8*t))
			a.SWaitcnt(15, 0)
			a.SMovB64(c14asm.EXEC, S(12))
		}
		if oi.load {
			a.Flat(oi.name, oi.opc, 24, 0, 6, 0)
		} else {
			a.Flat(oi.name, oi.opc, 0, 24, 6, 0)
		}
		if ts.LT > 0 {
			a.SMovB64(c14asm.EXEC, S(12))
		} else {
			a.SMovB64(c14asm.EXEC, c14asm.Minus1)
		}
		a.SWaitcnt(0, 15)
		if oi.load {
			add64(10, 11, 6, 7, 3)
			a.Flat("flat_store_dwordx4", 31, 0, 24, 10, 0)
			a.SWaitcnt(0, 15)
		}
		// next rows: table += 4096, out += 16384, src += 16384
		a.SLshlB32(14, K(1), K(12))
		a.SAddU32(8, S(8), S(14))
		a.SAddcU32(9, S(9), K(0))
		a.SLshlB32(14, K(1), K(14))
		a.SAddU32(6, S(6), S(14))
		a.SAddcU32(7, S(7), K(0))
		a.SAddU32(10, S(10), S(14))
		a.SAddcU32(11, S(11), K(0))
	}
	a.SEndpgm()
	code := a.Finish()
	lst, err := a.SelfCheck()
	if err != nil {
		return nil, lst, err
	}
	for len(code)%64 != 0 {
		code = append(code, 0, 0, 0x80, 0xBF)
	}
	return code, lst, nil
}

func codeObject(code []byte) *insts.KernelCodeObject {
	return &insts.KernelCodeObject{KernelCodeObjectMeta: &insts.KernelCodeObjectMeta{
		WIVgprCount: numVGPR, WFSgprCount: numSGPR, KernargSegmentByteSize: 32 + 8*maxTests,
		EnableSgprKernargSegmentPtr: true,
		ComputePgmRsrc2:             1 << 7,
	}, Data: code, Version: insts.CodeObjectV3}
}
