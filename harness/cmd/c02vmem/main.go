// c02vmem drives the vector memory path of the real timing compute unit (VectorMemoryUnit,
// defaultCoalescer, handleVectorDataLoadReturn / handleVectorDataStoreRsp) with hand-encoded kernels
// whose FLAT loads and stores use scripted per-lane addresses and EXEC masks, under a scripted memory
// (latencies, response permutations, back-pressure), and writes the trace VMemTrace.tla judges:
// the instruction as it was issued (opcode, EXEC, per-lane addresses, source / previous destination
// registers read from the real register file), every memory transaction the CU sent (port hook), every
// response it took, and the destination registers once all responses were handled.  The same kernel on
// the real emulation CU is the functional reference for the final memory.
package main

import (
	"bufio"
	"encoding/json"
	"flag"
	"fmt"
	"hash/crc32"
	"math/rand"
	"os"
	"runtime/debug"
	"sort"

	"github.com/sarchlab/akita/v4/mem/mem"
	"github.com/sarchlab/akita/v4/mem/vm"
	"github.com/sarchlab/akita/v4/sim"
	"github.com/sarchlab/akita/v4/tracing"
	"github.com/sarchlab/mgpusim/v4/amd/emu"
	"github.com/sarchlab/mgpusim/v4/amd/insts"
	"github.com/sarchlab/mgpusim/v4/amd/kernels"
	"github.com/sarchlab/mgpusim/v4/amd/protocol"
	"github.com/sarchlab/mgpusim/v4/amd/timing/cu"
	"github.com/sarchlab/mgpusim/v4/amd/timing/wavefront"

	ab "verifharness/akitabench"
)

// Test is one tested instruction.
type Test struct {
	Op   string    `json:"op"`
	Offs []int     `json:"offs"`         // byte offset into the data buffer per lane of the work-group
	Mask [2]uint32 `json:"mask"`         // EXEC (lo, hi), the same for every wavefront
	LT   int       `json:"lt,omitempty"` // > 0: EXEC = lanes < LT through v_cmp + s_and_saveexec instead of Mask
}

// MemSpec scripts the memory side.
type MemSpec struct {
	Lat   [2]int   `json:"lat"`
	Seed  int64    `json:"seed"`
	Perm  bool     `json:"perm,omitempty"`  // responses in any order (an instruction's last request still answered last)
	VHold [][2]int `json:"vhold,omitempty"` // cycle windows in which the memory side takes no vector request
	RHold [][2]int `json:"rhold,omitempty"` // cycle windows in which no vector response is delivered
}

// Scenario is one kernel run.
type Scenario struct {
	Name  string  `json:"name"`
	NWf   int     `json:"nwf"`
	Tests []Test  `json:"tests"`
	Mem   MemSpec `json:"mem"`
	NoEmu bool    `json:"noemu,omitempty"`
	SB    bool    `json:"sb,omitempty"`
	DSeed int64   `json:"dseed"`
	Limit int     `json:"limit,omitempty"` // > 0: ComputeUnit.InFlightVectorMemAccessLimit (public field; the builder sets 512)
}

const maxCycle = 2_000_000

// ------------------------------------------------------------------ memory image
type memImage struct{ pages map[uint64][]byte }

func newMem() *memImage { return &memImage{pages: map[uint64][]byte{}} }

func (m *memImage) page(a uint64, create bool) []byte {
	p, ok := m.pages[a>>12]
	if !ok && create {
		p = make([]byte, 4096)
		m.pages[a>>12] = p
	}
	return p
}

func (m *memImage) read(a, n uint64) []byte {
	out := make([]byte, n)
	for i := uint64(0); i < n; i++ {
		if p := m.page(a+i, false); p != nil {
			out[i] = p[(a+i)&4095]
		}
	}
	return out
}

func (m *memImage) write(a uint64, d []byte, mask []bool) {
	for i := range d {
		if mask != nil && !mask[i] {
			continue
		}
		m.page(a+uint64(i), true)[(a+uint64(i))&4095] = d[i]
	}
}

func (m *memImage) Read(pid vm.PID, a, n uint64) []byte  { return m.read(a, n) }
func (m *memImage) Write(pid vm.PID, a uint64, d []byte) { m.write(a, d, nil) }

func (m *memImage) crc(base, n uint64) []int {
	return ab.Limbs32(crc32.ChecksumIEEE(m.read(base, n)))
}

func le(v uint64, n int) []byte {
	b := make([]byte, n)
	for i := range b {
		b[i] = byte(v >> (8 * i))
	}
	return b
}

// rel maps an address to a small integer: region * 2^20 + offset (regions are the buffers of kernel.go).
func rel(a uint64) int {
	bases := []uint64{dataBase, outBase, tableBase, srcBase, kargBase, codeBase}
	for i, b := range bases {
		if a >= b && a < b+(1<<20) {
			return i<<20 | int(a-b)
		}
	}
	return 7<<20 | int(a&0xfffff)
}

func image(sc *Scenario, code []byte) *memImage {
	m := newMem()
	m.write(codeBase, code, nil)
	m.write(kargBase, le(dataBase, 8), nil)
	m.write(kargBase+8, le(outBase, 8), nil)
	m.write(kargBase+16, le(tableBase, 8), nil)
	m.write(kargBase+24, le(srcBase, 8), nil)
	rng := rand.New(rand.NewSource(sc.DSeed))
	data := make([]byte, dataSize)
	for i := range data {
		data[i] = byte(rng.Intn(256))
	}
	m.write(dataBase, data, nil)
	for t, ts := range sc.Tests {
		m.write(kargBase+32+uint64(8*t), le(uint64(ts.Mask[0])|uint64(ts.Mask[1])<<32, 8), nil)
		for l := 0; l < sc.NWf*64; l++ {
			off := 0
			if l < len(ts.Offs) {
				off = ts.Offs[l]
			}
			m.write(tableBase+uint64(t*tableRow+l*4), le(uint64(off), 4), nil)
			src := make([]byte, 16)
			for i := range src {
				src[i] = byte(rng.Intn(256))
			}
			m.write(srcBase+uint64(t*wideRow+l*16), src, nil)
		}
	}
	return m
}

func workGroup(sc *Scenario, code []byte) *kernels.WorkGroup {
	pkt := new(kernels.HsaKernelDispatchPacket)
	pkt.GridSizeX, pkt.GridSizeY, pkt.GridSizeZ = uint32(sc.NWf*64), 1, 1
	pkt.WorkgroupSizeX, pkt.WorkgroupSizeY, pkt.WorkgroupSizeZ = uint16(sc.NWf*64), 1, 1
	pkt.KernelObject = codeBase
	pkt.KernargAddress = kargBase
	gb := kernels.NewGridBuilder()
	gb.SetKernel(kernels.KernelLaunchInfo{CodeObject: codeObject(code), Packet: pkt, PacketAddr: 0x30000})
	return gb.NextWG()
}

// ------------------------------------------------------------------ runner
type stats struct {
	Cases, Events, Flat, Tested, Reqs, Panics, EmuPanics, Hangs, ValMismatch, Cycles int
}

type runner struct {
	rec *ab.Recorder
	st  *stats
}

func (r *runner) emit(e string, f ab.Rec) {
	r.st.Events++
	r.rec.Emit(e, f)
}

func (r *runner) runEmu(sc *Scenario, code []byte, idx int) (img *memImage, ok bool) {
	img = image(sc, code)
	defer func() {
		if e := recover(); e != nil {
			r.st.EmuPanics++
			r.emit("Reset", ab.Rec{"mode": "emu", "case": idx, "name": sc.Name})
			r.emit("Panic", ab.Rec{"mode": "emu", "msg": fmt.Sprint(e)})
			ok = false
		}
	}()
	eng := ab.NewEngine()
	u := emu.NewComputeUnit("EmuCU", eng, insts.NewDisassembler(), emu.NewALU(img), img)
	ab.NewConn("Conn").PlugIn(u.ToDispatcher)
	wg := workGroup(sc, code)
	locs := make([]protocol.WfDispatchLocation, len(wg.Wavefronts))
	for i, wf := range wg.Wavefronts {
		locs[i] = protocol.WfDispatchLocation{Wavefront: wf}
	}
	req := protocol.MapWGReqBuilder{}.WithSrc("Dispatcher.Port").WithDst(u.ToDispatcher.AsRemote()).WithPID(1).WithWG(wg).Build()
	req.Wavefronts = locs
	if err := u.ToDispatcher.Deliver(req); err != nil {
		panic("harness: emu CU refused the MapWGReq")
	}
	for i := 0; i < 100000 && eng.Pending() > 0; i++ {
		t, _ := eng.NextTime()
		eng.RunUntil(t)
		for u.ToDispatcher.RetrieveOutgoing() != nil {
		}
	}
	return img, true
}

type memOp struct {
	port   sim.Port
	q      string
	req    mem.AccessReq
	effAt  int
	rspAt  int
	seq    int
	done   bool
	data   []byte
	instID int
	last   bool
}

type dummyComp struct{ *sim.ComponentBase }

func (d *dummyComp) Handle(sim.Event) error  { return nil }
func (d *dummyComp) NotifyRecv(sim.Port)     {}
func (d *dummyComp) NotifyPortFree(sim.Port) {}

type flatInst struct {
	id, w       int
	wf          *wavefront.Wavefront
	oi          opInfoRT
	dst         int
	nreq, nrsp  int
	lastSent    bool
	doneEmitted bool
	ended       int
}

type opInfoRT struct {
	opc, regs int
	load      bool
}

func heldIn(w [][2]int, cyc int) bool {
	for _, h := range w {
		if cyc >= h[0] && cyc < h[1] {
			return true
		}
	}
	return false
}

func holdEndIn(w [][2]int, cyc int) int {
	e := cyc + 1
	for _, h := range w {
		if cyc >= h[0] && cyc < h[1] && h[1] > e {
			e = h[1]
		}
	}
	return e
}

func bytesList(b []byte) []int { return ab.Bytes(b) }

func (r *runner) runTiming(sc *Scenario, code []byte, idx int, ref *memImage, refOK bool) {
	img := image(sc, code)
	rng := rand.New(rand.NewSource(sc.Mem.Seed))
	r.emit("Reset", ab.Rec{"mode": "timing", "case": idx, "name": sc.Name, "perm": b2i(sc.Mem.Perm)})
	defer func() {
		if e := recover(); e != nil {
			r.st.Panics++
			if os.Getenv("C02VMEM_STACK") != "" {
				fmt.Fprintf(os.Stderr, "panic: %v\n%s\n", e, debug.Stack())
			}
			r.emit("Panic", ab.Rec{"mode": "timing", "msg": fmt.Sprint(e)})
		}
	}()
	eng := ab.NewEngine()
	dc := &dummyComp{sim.NewComponentBase("Env")}
	u := cu.MakeBuilder().WithEngine(eng).WithFreq(1 * sim.GHz).
		WithInstMem(sim.NewPort(dc, 1, 1, "Env.InstMem")).WithScalarMem(sim.NewPort(dc, 1, 1, "Env.ScalarMem")).
		WithVectorMemModules(&mem.SinglePortMapper{Port: "Env.VectorMem"}).WithRegisterScoreboard(sc.SB).Build("CU")
	if sc.Limit > 0 {
		u.InFlightVectorMemAccessLimit = sc.Limit
	}
	conn := ab.NewConn("Conn")
	for _, p := range []sim.Port{u.ToACE, u.ToCP, u.ToInstMem, u.ToScalarMem, u.ToVectorMem} {
		conn.PlugIn(p)
	}
	wg := workGroup(sc, code)
	wfID := map[string]int{}
	for i, wf := range wg.Wavefronts {
		wfID[wf.UID] = i + 1
	}

	// ---- observation
	readV := func(wf *wavefront.Wavefront, reg, lane int) []byte {
		buf := make([]byte, 4)
		u.VRegFile[wf.SIMDID].Read(cu.RegisterAccess{Reg: insts.VReg(reg), RegCount: 1, LaneID: lane, WaveOffset: wf.VRegOffset, Data: buf})
		return buf
	}
	regsOf := func(wf *wavefront.Wavefront, reg, n int) [][]int {
		out := make([][]int, 64)
		for l := 0; l < 64; l++ {
			var b []byte
			for j := 0; j < n; j++ {
				b = append(b, readV(wf, reg+j, l)...)
			}
			out[l] = bytesList(b)
		}
		return out
	}
	byTask := map[string]*flatInst{}
	byID := map[int]*flatInst{}
	var order []*flatInst
	wfTask := map[string]*wavefront.Wavefront{}
	nid := 0
	tr := &tracer{}
	tr.start = func(task tracing.Task) {
		switch task.Kind {
		case "inst":
			d, _ := task.Detail.(map[string]interface{})
			in, _ := d["inst"].(*wavefront.Inst)
			wf, _ := d["wf"].(*wavefront.Wavefront)
			if in == nil || wf == nil {
				panic("harness: inst task without inst/wf detail")
			}
			wfTask[wf.UID] = wf
			if in.FormatType != insts.FLAT {
				return
			}
			nid++
			regs := 1
			switch in.Opcode {
			case 21, 29:
				regs = 2
			case 22, 30:
				regs = 3
			case 23, 31:
				regs = 4
			}
			load := in.Opcode >= 16 && in.Opcode <= 23
			fi := &flatInst{id: nid, w: wfID[wf.UID], wf: wf, oi: opInfoRT{int(in.Opcode), regs, load}}
			byTask[task.ID] = fi
			byID[nid] = fi
			order = append(order, fi)
			r.st.Flat++
			exec := make([]int, 64)
			addrs := make([]int, 64)
			areg := in.Addr.Register.RegIndex()
			for l := 0; l < 64; l++ {
				exec[l] = int(wf.EXEC() >> uint(l) & 1)
				lo, hi := readV(wf, areg, l), readV(wf, areg+1, l)
				a := uint64(lo[0]) | uint64(lo[1])<<8 | uint64(lo[2])<<16 | uint64(lo[3])<<24 |
					uint64(hi[0])<<32 | uint64(hi[1])<<40 | uint64(hi[2])<<48 | uint64(hi[3])<<56
				a = uint64(int64(a) + int64(int32(in.Offset0)))
				addrs[l] = rel(a)
			}
			rec := ab.Rec{"w": fi.w, "id": nid, "opc": int(in.Opcode), "exec": exec, "a": addrs}
			if load {
				fi.dst = in.Dst.Register.RegIndex()
				rec["before"] = regsOf(wf, fi.dst, regs)
				rec["src"] = []int{}
			} else {
				rec["src"] = regsOf(wf, in.Data.Register.RegIndex(), regs)
				rec["before"] = []int{}
			}
			r.emit("Exec", rec)
		}
	}
	tr.end = func(task tracing.Task) {
		if fi, ok := byTask[task.ID]; ok {
			fi.ended++
			r.emit("InstEnd", ab.Rec{"id": fi.id, "w": fi.w})
			return
		}
		if wf, ok := wfTask[task.ID]; ok {
			r.emit("WfEnd", ab.Rec{"w": wfID[wf.UID], "ov": wf.OutstandingVectorMemAccess, "os": wf.OutstandingScalarMemAccess})
		}
	}
	tracing.CollectTrace(u, tr)
	reqOf := map[string]*memOp{}
	nreq := 0
	u.ToVectorMem.AcceptHook(ab.HookFn(func(ctx sim.HookCtx) {
		switch m := ctx.Item.(type) {
		case mem.AccessReq:
			if ctx.Pos != sim.HookPosPortMsgSend {
				return
			}
			var fi *flatInst
			last := false
			for _, info := range u.InFlightVectorMemAccess {
				if (info.Read != nil && info.Read.ID == m.Meta().ID) || (info.Write != nil && info.Write.ID == m.Meta().ID) {
					fi = byTask[info.Inst.ID]
					last = (info.Read != nil && !info.Read.CanWaitForCoalesce) || (info.Write != nil && !info.Write.CanWaitForCoalesce)
				}
			}
			if fi == nil {
				panic("harness: vector memory request without in-flight record")
			}
			nreq++
			r.st.Reqs++
			fi.nreq++
			if last {
				fi.lastSent = true
			}
			op := &memOp{instID: fi.id, last: last, seq: nreq}
			reqOf[m.Meta().ID] = op
			rec := ab.Rec{"id": fi.id, "r": nreq, "line": rel(m.GetAddress()), "last": b2i(last)}
			switch rq := m.(type) {
			case *mem.ReadReq:
				rec["k"], rec["n"], rec["mask"], rec["data"] = "r", int(rq.AccessByteSize), []int{}, []int{}
			case *mem.WriteReq:
				rec["k"], rec["n"], rec["mask"], rec["data"] = "w", len(rq.Data), ab.Bools(rq.DirtyMask), bytesList(rq.Data)
			}
			r.emit("Req", rec)
		case mem.AccessRsp:
			if ctx.Pos != sim.HookPosPortMsgRetrieveIncoming {
				return
			}
			op := reqOf[m.GetRspTo()]
			if op == nil {
				panic("harness: response to an unknown request")
			}
			fi := byID[op.instID]
			fi.nrsp++
			rec := ab.Rec{"id": op.instID, "r": op.seq, "data": []int{}}
			if d, ok := m.(*mem.DataReadyRsp); ok {
				rec["data"] = bytesList(d.Data)
			}
			r.emit("Rsp", rec)
		}
	}))
	doneWG := 0
	u.ToACE.AcceptHook(ab.HookFn(func(ctx sim.HookCtx) {
		if _, ok := ctx.Item.(*protocol.WGCompletionMsg); ok && ctx.Pos == sim.HookPosPortMsgSend {
			doneWG++
		}
	}))
	// destination registers once every response of an instruction has been handled (or it ended without requests)
	flushDone := func() {
		for _, fi := range order {
			if fi.doneEmitted {
				continue
			}
			complete := (fi.lastSent && fi.nrsp == fi.nreq) || (fi.nreq == 0 && fi.ended > 0)
			if !complete {
				continue
			}
			fi.doneEmitted = true
			rec := ab.Rec{"id": fi.id, "w": fi.w, "after": []int{}}
			if fi.oi.load {
				rec["after"] = regsOf(fi.wf, fi.dst, fi.oi.regs)
			}
			r.emit("Done", rec)
		}
	}

	// ---- environment
	var queue []*memOp
	seq := 0
	accept := func(q string, port sim.Port, cyc int) {
		for {
			m := port.RetrieveOutgoing()
			if m == nil {
				return
			}
			req := m.(mem.AccessReq)
			seq++
			op := reqOf[req.Meta().ID]
			if op == nil {
				op = &memOp{}
			}
			op.q, op.port, op.req = q, port, req
			lo, hi := sc.Mem.Lat[0], sc.Mem.Lat[1]
			if q != "v" {
				lo, hi = 2, 6
			}
			l := lo
			if hi > lo {
				l += rng.Intn(hi - lo + 1)
			}
			if l < 1 {
				l = 1
			}
			op.rspAt = cyc + l
			op.effAt = cyc + rng.Intn(l+1)
			queue = append(queue, op)
		}
	}
	apply := func(cyc int) {
		var due []*memOp
		for _, op := range queue {
			if !op.done && op.effAt <= cyc {
				due = append(due, op)
			}
		}
		sort.SliceStable(due, func(i, j int) bool { return due[i].effAt < due[j].effAt })
		for _, op := range due {
			switch rq := op.req.(type) {
			case *mem.ReadReq:
				op.data = img.read(rq.Address, rq.AccessByteSize)
			case *mem.WriteReq:
				img.write(rq.Address, rq.Data, rq.DirtyMask)
			}
			op.done = true
		}
	}
	respond := func(cyc int) {
		blocked := map[string]bool{}
		rest := queue[:0]
		for _, op := range queue {
			hold := op.rspAt > cyc || !op.done || blocked[op.q]
			if op.q == "v" && heldIn(sc.Mem.RHold, cyc) {
				hold = true
			}
			if !hold && op.q == "v" && sc.Mem.Perm && op.last {
				// any order, except that a request flagged last does not overtake earlier requests of its instruction
				for _, o2 := range queue {
					if o2 != op && o2.q == "v" && o2.instID == op.instID && o2.seq < op.seq {
						hold = true
					}
				}
			}
			if !hold {
				var rsp sim.Msg
				switch rq := op.req.(type) {
				case *mem.ReadReq:
					rsp = mem.DataReadyRspBuilder{}.WithSrc(rq.Dst).WithDst(rq.Src).WithRspTo(rq.ID).WithData(op.data).Build()
				case *mem.WriteReq:
					rsp = mem.WriteDoneRspBuilder{}.WithSrc(rq.Dst).WithDst(rq.Src).WithRspTo(rq.ID).Build()
				}
				if err := op.port.Deliver(rsp); err != nil {
					blocked[op.q] = true
					hold = true
				}
			}
			if hold {
				if !(op.q == "v" && sc.Mem.Perm) {
					blocked[op.q] = true // in order per port
				}
				rest = append(rest, op)
			}
		}
		queue = rest
	}
	sent := false
	dispatch := func() {
		if sent {
			return
		}
		locs := make([]protocol.WfDispatchLocation, len(wg.Wavefronts))
		for i, wf := range wg.Wavefronts {
			locs[i] = protocol.WfDispatchLocation{Wavefront: wf, SIMDID: i % 4, VGPROffset: (i / 4) * numVGPR * 4, SGPROffset: i * numSGPR * 4}
		}
		req := protocol.MapWGReqBuilder{}.WithSrc("Dispatcher.Port").WithDst(u.ToACE.AsRemote()).WithPID(1).WithWG(wg).Build()
		req.Wavefronts = locs
		if err := u.ToACE.Deliver(req); err != nil {
			panic("harness: timing CU refused the MapWGReq")
		}
		sent = true
	}
	dispatch()
	cyc := 0
	for {
		next := -1
		upd := func(c int) {
			if c > cyc && (next < 0 || c < next) {
				next = c
			}
		}
		if t, ok := eng.NextTime(); ok {
			c := int(float64(t)*1e9 + 0.5)
			if c <= cyc {
				c = cyc + 1
			}
			upd(c)
		}
		for _, op := range queue {
			if !op.done {
				upd(max(op.effAt, cyc+1))
			}
			c := max(op.rspAt, cyc+1)
			if op.q == "v" && heldIn(sc.Mem.RHold, c) {
				c = holdEndIn(sc.Mem.RHold, c)
			}
			upd(c)
		}
		if u.ToVectorMem.PeekOutgoing() != nil {
			upd(holdEndIn(sc.Mem.VHold, cyc))
		}
		if next < 0 {
			break
		}
		cyc = next
		if cyc > maxCycle {
			fmt.Println("INFRA: cycle limit reached in scenario", sc.Name)
			os.Exit(3)
		}
		eng.RunUntil(ab.Cycle(cyc))
		flushDone()
		accept("i", u.ToInstMem, cyc)
		accept("s", u.ToScalarMem, cyc)
		if !heldIn(sc.Mem.VHold, cyc) {
			accept("v", u.ToVectorMem, cyc)
		}
		for u.ToACE.RetrieveOutgoing() != nil {
		}
		for u.ToCP.RetrieveOutgoing() != nil {
		}
		apply(cyc)
		respond(cyc)
	}
	flushDone()
	r.st.Cycles += cyc
	pending := 1 - doneWG
	if pending > 0 {
		r.st.Hangs++
	}
	r.emit("Quiesce", ab.Rec{"pending": pending, "cycle": cyc})
	f := ab.Rec{"ref": b2i(refOK), "td": img.crc(dataBase, dataSize), "to": img.crc(outBase, uint64(len(sc.Tests))*wideRow)}
	if refOK {
		f["ed"], f["eo"] = ref.crc(dataBase, dataSize), ref.crc(outBase, uint64(len(sc.Tests))*wideRow)
		if fmt.Sprint(f["ed"], f["eo"]) != fmt.Sprint(f["td"], f["to"]) {
			r.st.ValMismatch++
		}
	} else {
		f["ed"], f["eo"] = f["td"], f["to"]
	}
	r.emit("Final", f)
}

type tracer struct {
	start, end func(task tracing.Task)
}

func (t *tracer) StartTask(task tracing.Task)      { t.start(task) }
func (t *tracer) StepTask(task tracing.Task)       {}
func (t *tracer) AddMilestone(m tracing.Milestone) {}
func (t *tracer) EndTask(task tracing.Task)        { t.end(task) }

func b2i(b bool) int {
	if b {
		return 1
	}
	return 0
}

func main() {
	scen := flag.String("scen", "", "JSON file with a list of scenarios")
	out := flag.String("out", "trace.ndjson", "trace output")
	list := flag.Bool("list", false, "print the kernel listings")
	flag.Parse()
	var cases []Scenario
	b, err := os.ReadFile(*scen)
	if err != nil {
		fmt.Println("cannot read scenario file:", err)
		os.Exit(2)
	}
	if err := json.Unmarshal(b, &cases); err != nil {
		fmt.Println("bad scenario file:", err)
		os.Exit(2)
	}
	f, err := os.Create(*out)
	if err != nil {
		fmt.Println(err)
		os.Exit(2)
	}
	w := bufio.NewWriterSize(f, 1<<20)
	st := &stats{}
	r := &runner{rec: ab.NewRecorder(w), st: st}
	for i := range cases {
		sc := &cases[i]
		st.Cases++
		st.Tested += len(sc.Tests)
		code, lst, err := buildKernel(sc)
		if err != nil {
			fmt.Println("INFRA: cannot assemble", sc.Name, ":", err)
			os.Exit(3)
		}
		if *list {
			fmt.Println("==", sc.Name)
			for _, l := range lst {
				fmt.Println(l)
			}
			continue
		}
		var ref *memImage
		refOK := false
		if !sc.NoEmu {
			ref, refOK = r.runEmu(sc, code, i)
		}
		r.runTiming(sc, code, i, ref, refOK)
	}
	w.Flush()
	f.Close()
	js, _ := json.Marshal(map[string]int{"cases": st.Cases, "events": st.Events, "flat": st.Flat, "tested": st.Tested, "reqs": st.Reqs,
		"panics": st.Panics, "emu_panics": st.EmuPanics, "hangs": st.Hangs, "val_mismatch": st.ValMismatch, "cycles": st.Cycles})
	fmt.Println(string(js))
}
