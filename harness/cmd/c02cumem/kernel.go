package main

import (
	"fmt"

	"github.com/sarchlab/mgpusim/v4/amd/insts"

	"verifharness/c14asm"
)

// Kernels for the scalar memory path and the LDS path of the timing CU.
//
//	kernarg +0  data buffer (scalar loads read it; bytes after the arguments of the kernarg block are data too)
//	kernarg +8  out buffer
//	kernarg +16 table buffer (LDS kernels: row t = one dword per lane of the dispatch: the lane's LDS address)
//	kernarg +24 src buffer   (LDS kernels: row t = 16 bytes per lane: the data registers)
//	kernarg +32+8t           EXEC mask of LDS test t
const (
	dataBase  = 0x2_0000_0000
	outBase   = 0x3_0000_0000
	tableBase = 0x4_0000_0000
	srcBase   = 0x5_0000_0000
	kargBase  = 0x0008_0000
	codeBase  = 0x0010_0000
	dataSize  = 4096
	kargSize  = 2048 // the kernarg block is followed by data up to this size
	maxTests  = 12
	ldsSize   = 512
	rowLanes  = 256
	numVGPR   = 36
	numSGPR   = 64
	sWindow   = 64 // SGPRs logged before / after a scalar load
)

type dsInfo struct {
	name     string
	opc      int
	dataRegs int // registers per data operand (0: none)
	twoData  bool
	dstRegs  int
	twoAddr  bool
	bytes    int // bytes per address
	offScale int
}

var dsOps = map[string]dsInfo{
	"write_b32":  {"ds_write_b32", 13, 1, false, 0, false, 4, 1},
	"write2_b32": {"ds_write2_b32", 14, 1, true, 0, true, 4, 4},
	"write_b8":   {"ds_write_b8", 30, 1, false, 0, false, 1, 1},
	"read_b32":   {"ds_read_b32", 54, 0, false, 1, false, 4, 1},
	"read2_b32":  {"ds_read2_b32", 55, 0, false, 2, true, 4, 4},
	"write2_b64": {"ds_write2_b64", 78, 2, true, 0, true, 8, 8},
	"read_b64":   {"ds_read_b64", 118, 0, false, 2, false, 8, 1},
	"read2_b64":  {"ds_read2_b64", 119, 0, false, 4, true, 8, 8},
}

var smemNames = []string{"s_load_dword", "s_load_dwordx2", "s_load_dwordx4", "s_load_dwordx8", "s_load_dwordx16"}

func finish(a *c14asm.Asm) ([]byte, []string, error) {
	code := a.Finish()
	lst, err := a.SelfCheck()
	if err != nil {
		return nil, lst, err
	}
	for len(code)%64 != 0 {
		code = append(code, 0, 0, 0x80, 0xBF)
	}
	return code, lst, nil
}

// scalar kernel: lane 0 of every wavefront is active; s[4:5] data, s[6:7] out (+ wavefront * 1024),
// s9/s10 offset scratch, destinations s16..s63, v[10:11] out address, v24 value.
func buildSMem(sc *Scenario) ([]byte, []string, error) {
	a := c14asm.New()
	K, S := c14asm.K, c14asm.S
	a.VLshrrevB32(1, K(6), 0)
	a.VReadfirstlaneB32(3, 1)
	a.SMovB64(c14asm.EXEC, K(1))
	a.SLoadDwordx2(4, 0, 0)
	a.SLoadDwordx2(6, 0, 8)
	a.SWaitcnt(15, 0)
	a.SLshlB32(8, S(3), K(10))
	a.SAddU32(6, S(6), S(8))
	a.SAddcU32(7, S(7), K(0))
	a.VMovB32(10, S(6))
	a.VMovB32(11, S(7))
	for t, ts := range sc.STests {
		if ts.Op < 0 || ts.Op > 4 {
			return nil, nil, fmt.Errorf("bad scalar op %d", ts.Op)
		}
		base := 4
		if ts.Base == "karg" {
			base = 0
		}
		if ts.SOff {
			// s9 = (off / 64) << 6 + ((off % 64) / 4) << 2
			a.SLshlB32(9, K(ts.Off/64), K(6))
			a.SLshlB32(10, K(ts.Off%64/4), K(2))
			a.SAddU32(9, S(9), S(10))
			a.SMem(smemNames[ts.Op], ts.Op, ts.Dst, base, false, 9)
		} else {
			a.SMem(smemNames[ts.Op], ts.Op, ts.Dst, base, true, uint32(ts.Off))
		}
		a.SWaitcnt(15, 0)
		n := 1 << ts.Op
		for j := 0; j < n; j++ {
			a.VMovB32(24, S(ts.Dst+j))
			a.FlatStoreDword(10, 24, t*64+j*4)
		}
		a.SWaitcnt(0, 15)
	}
	a.SEndpgm()
	return finish(a)
}

// LDS kernel: s2 work-group id, v19 lane of the dispatch, v2 = v19*4, v3 = v19*16, v[4:5] table address,
// v[16:17] src address, v[10:11] out address, v20 LDS address, v21 = (lid&63)*4, v[24:27] data, v[28:31] destination.
func buildLDS(sc *Scenario) ([]byte, []string, error) {
	a := c14asm.New()
	K, S, V := c14asm.K, c14asm.S, c14asm.V
	sh := 6
	if sc.NWf == 2 {
		sh = 7
	} else if sc.NWf != 1 {
		return nil, nil, fmt.Errorf("LDS kernels have 1 or 2 wavefronts per group")
	}
	a.SLoadDwordx2(6, 0, 8)
	a.SLoadDwordx2(8, 0, 16)
	a.SLoadDwordx2(10, 0, 24)
	a.SLshlB32(3, S(2), K(sh))
	a.VAddU32(19, S(3), 0)
	a.VLshlrevB32(2, K(2), 19)
	a.VLshlrevB32(3, K(4), 19)
	a.VAndB32(21, K(63), 0)
	a.VLshlrevB32(21, K(2), 21)
	a.SWaitcnt(15, 0)
	add64 := func(lo, hi, sLo, sHi, off int) {
		a.VMovB32(hi, S(sHi))
		a.VAddU32(lo, S(sLo), off)
		a.VAddcU32(hi, K(0), hi)
	}
	nextRows := func() {
		a.SLshlB32(14, K(1), K(10))
		a.SAddU32(8, S(8), S(14))
		a.SAddcU32(9, S(9), K(0))
		a.SLshlB32(14, K(1), K(12))
		a.SAddU32(6, S(6), S(14))
		a.SAddcU32(7, S(7), K(0))
		a.SAddU32(10, S(10), S(14))
		a.SAddcU32(11, S(11), K(0))
	}
	for t, ts := range sc.LTests {
		di, ok := dsOps[ts.Op]
		if !ok {
			return nil, nil, fmt.Errorf("unknown LDS op %q", ts.Op)
		}
		add64(4, 5, 8, 9, 2)
		a.FlatLoadDword(20, 4, 0)
		add64(16, 17, 10, 11, 3)
		a.Flat("flat_load_dwordx4", 23, 24, 0, 16, 0)
		a.SWaitcnt(0, 15)
		a.VXorB32(28, K(21), 0)
		a.VOrB32(29, V(28), 2)
		a.VXorB32(30, K(42), 3)
		a.VLshlrevB32(31, K(9), 28)
		a.SLoadDwordx2(12, 0, uint32(32+8*t))
		a.SWaitcnt(15, 0)
		a.SMovB64(c14asm.EXEC, S(12))
		d1 := 0
		if di.twoData {
			d1 = 24 + di.dataRegs
		}
		d0 := 0
		if di.dataRegs > 0 {
			d0 = 24
		}
		vdst := 0
		if di.dstRegs > 0 {
			vdst = 28
		}
		a.DS(di.name, di.opc, vdst, d0, d1, 20, ts.Off0, ts.Off1)
		a.SMovB64(c14asm.EXEC, c14asm.Minus1)
		if di.dstRegs > 0 {
			add64(10, 11, 6, 7, 3)
			a.Flat("flat_store_dwordx4", 31, 0, 28, 10, 0)
			a.SWaitcnt(0, 15)
		}
		nextRows()
	}
	// every wavefront of the group has finished its tests before the group's LDS is dumped
	a.SBarrier()
	a.DsReadB32(28, 21, 0)
	a.DsReadB32(29, 21, 256)
	add64(10, 11, 6, 7, 3)
	a.Flat("flat_store_dwordx2", 29, 0, 28, 10, 0)
	a.SWaitcnt(0, 15)
	a.SEndpgm()
	return finish(a)
}

func codeObject(code []byte, lds int) *insts.KernelCodeObject {
	return &insts.KernelCodeObject{KernelCodeObjectMeta: &insts.KernelCodeObjectMeta{
		WIVgprCount: numVGPR, WFSgprCount: numSGPR, KernargSegmentByteSize: 32 + 8*maxTests,
		EnableSgprKernargSegmentPtr: true,
		ComputePgmRsrc2:             1 << 7,
		GroupSegmentByteSize:        uint32(lds),
	}, Data: code, Version: insts.CodeObjectV3}
}
