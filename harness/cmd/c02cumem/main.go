// c02cumem drives the scalar memory path (ScalarUnit.executeSMEMLoad, handleScalarDataLoadReturn) and the
// LDS path (LDSUnit) of the real timing compute unit with hand-encoded kernels under a scripted dispatcher
// and memory, and writes the traces SMemTrace.tla / LDSTrace.tla judge.  The same kernels on the real
// emulation CU are the functional reference for the final memory.
package main

import (
	"bufio"
	"encoding/json"
	"flag"
	"fmt"
	"hash/crc32"
	"math/rand"
	"os"
	"runtime/debug"
	"sort"

	"github.com/sarchlab/akita/v4/mem/mem"
	"github.com/sarchlab/akita/v4/mem/vm"
	"github.com/sarchlab/akita/v4/sim"
	"github.com/sarchlab/akita/v4/tracing"
	"github.com/sarchlab/mgpusim/v4/amd/emu"
	"github.com/sarchlab/mgpusim/v4/amd/insts"
	"github.com/sarchlab/mgpusim/v4/amd/kernels"
	"github.com/sarchlab/mgpusim/v4/amd/protocol"
	"github.com/sarchlab/mgpusim/v4/amd/timing/cu"
	"github.com/sarchlab/mgpusim/v4/amd/timing/wavefront"

	ab "verifharness/akitabench"
)

// STest is one scalar load.
type STest struct {
	Op   int    `json:"op"`             // 0..4: dword, x2, x4, x8, x16
	Dst  int    `json:"dst"`            // first destination SGPR
	Base string `json:"base"`           // "data" (s[4:5]) or "karg" (s[0:1])
	Off  int    `json:"off"`            // byte offset
	SOff bool   `json:"soff,omitempty"` // offset in an SGPR instead of the immediate
}

// LTest is one LDS instruction.
type LTest struct {
	Op   string    `json:"op"`
	Addr []int     `json:"addr"` // LDS byte address per lane of the dispatch (both groups)
	Off0 int       `json:"off0"`
	Off1 int       `json:"off1"`
	Mask [2]uint32 `json:"mask"`
}

// MemSpec scripts the memory side.
type MemSpec struct {
	Lat  [2]int `json:"lat"`
	SLat [2]int `json:"slat"`
	Seed int64  `json:"seed"`
	Perm bool   `json:"perm,omitempty"`
}

// Scenario is one kernel run.
type Scenario struct {
	Name   string  `json:"name"`
	Kind   string  `json:"kind"` // "smem" | "lds"
	NWf    int     `json:"nwf"`
	NWG    int     `json:"nwg"`
	STests []STest `json:"stests,omitempty"`
	LTests []LTest `json:"ltests,omitempty"`
	Mem    MemSpec `json:"mem"`
	DSeed  int64   `json:"dseed"`
	NoEmu  bool    `json:"noemu,omitempty"`
}

const maxCycle = 2_000_000

// ------------------------------------------------------------------ memory image
type memImage struct{ pages map[uint64][]byte }

func newMem() *memImage { return &memImage{pages: map[uint64][]byte{}} }

func (m *memImage) page(a uint64, create bool) []byte {
	p, ok := m.pages[a>>12]
	if !ok && create {
		p = make([]byte, 4096)
		m.pages[a>>12] = p
	}
	return p
}

func (m *memImage) read(a, n uint64) []byte {
	out := make([]byte, n)
	for i := uint64(0); i < n; i++ {
		if p := m.page(a+i, false); p != nil {
			out[i] = p[(a+i)&4095]
		}
	}
	return out
}

func (m *memImage) write(a uint64, d []byte, mask []bool) {
	for i := range d {
		if mask != nil && !mask[i] {
			continue
		}
		m.page(a+uint64(i), true)[(a+uint64(i))&4095] = d[i]
	}
}

func (m *memImage) Read(pid vm.PID, a, n uint64) []byte  { return m.read(a, n) }
func (m *memImage) Write(pid vm.PID, a uint64, d []byte) { m.write(a, d, nil) }

func (m *memImage) crc(base, n uint64) []int {
	return ab.Limbs32(crc32.ChecksumIEEE(m.read(base, n)))
}

func le(v uint64, n int) []byte {
	b := make([]byte, n)
	for i := range b {
		b[i] = byte(v >> (8 * i))
	}
	return b
}

func rel(a uint64) int {
	bases := []uint64{dataBase, outBase, tableBase, srcBase, kargBase, codeBase}
	for i, b := range bases {
		if a >= b && a < b+(1<<20) {
			return i<<20 | int(a-b)
		}
	}
	return 7<<20 | int(a&0xfffff)
}

func (sc *Scenario) ntests() int { return len(sc.STests) + len(sc.LTests) }

func image(sc *Scenario, code []byte) *memImage {
	m := newMem()
	rng := rand.New(rand.NewSource(sc.DSeed))
	rnd := func(n int) []byte {
		b := make([]byte, n)
		for i := range b {
			b[i] = byte(rng.Intn(256))
		}
		return b
	}
	m.write(kargBase, rnd(kargSize), nil)
	m.write(dataBase, rnd(dataSize), nil)
	m.write(codeBase, code, nil)
	m.write(kargBase, le(dataBase, 8), nil)
	m.write(kargBase+8, le(outBase, 8), nil)
	m.write(kargBase+16, le(tableBase, 8), nil)
	m.write(kargBase+24, le(srcBase, 8), nil)
	for t, ts := range sc.LTests {
		m.write(kargBase+32+uint64(8*t), le(uint64(ts.Mask[0])|uint64(ts.Mask[1])<<32, 8), nil)
		for l := 0; l < sc.NWG*sc.NWf*64; l++ {
			ad := 0
			if l < len(ts.Addr) {
				ad = ts.Addr[l]
			}
			m.write(tableBase+uint64(t*1024+l*4), le(uint64(ad), 4), nil)
			m.write(srcBase+uint64(t*4096+l*16), rnd(16), nil)
		}
	}
	return m
}

func workGroups(sc *Scenario, code []byte) []*kernels.WorkGroup {
	lds := 0
	if sc.Kind == "lds" {
		lds = ldsSize
	}
	pkt := new(kernels.HsaKernelDispatchPacket)
	pkt.GridSizeX, pkt.GridSizeY, pkt.GridSizeZ = uint32(sc.NWG*sc.NWf*64), 1, 1
	pkt.WorkgroupSizeX, pkt.WorkgroupSizeY, pkt.WorkgroupSizeZ = uint16(sc.NWf*64), 1, 1
	pkt.KernelObject = codeBase
	pkt.KernargAddress = kargBase
	pkt.GroupSegmentSize = uint32(lds)
	gb := kernels.NewGridBuilder()
	gb.SetKernel(kernels.KernelLaunchInfo{CodeObject: codeObject(code, lds), Packet: pkt, PacketAddr: 0x30000})
	var out []*kernels.WorkGroup
	for i := 0; i < sc.NWG; i++ {
		out = append(out, gb.NextWG())
	}
	return out
}

// ------------------------------------------------------------------ runner
type stats struct {
	Cases, Events, SInsts, DSInsts, Reqs, Panics, EmuPanics, Hangs, ValMismatch, Cycles int
}

type runner struct {
	rec *ab.Recorder
	st  *stats
}

func (r *runner) emit(e string, f ab.Rec) {
	r.st.Events++
	r.rec.Emit(e, f)
}

func (r *runner) runEmu(sc *Scenario, code []byte, idx int) (img *memImage, ok bool) {
	img = image(sc, code)
	defer func() {
		if e := recover(); e != nil {
			r.st.EmuPanics++
			r.emit("Reset", ab.Rec{"mode": "emu", "case": idx, "name": sc.Name, "kind": sc.Kind, "groups": sc.NWG, "lds": ldsSize})
			r.emit("Panic", ab.Rec{"mode": "emu", "msg": fmt.Sprint(e)})
			ok = false
		}
	}()
	eng := ab.NewEngine()
	u := emu.NewComputeUnit("EmuCU", eng, insts.NewDisassembler(), emu.NewALU(img), img)
	ab.NewConn("Conn").PlugIn(u.ToDispatcher)
	step := func() {
		if t, ok := eng.NextTime(); ok {
			eng.RunUntil(t)
		}
		for u.ToDispatcher.RetrieveOutgoing() != nil {
		}
	}
	for _, wg := range workGroups(sc, code) {
		locs := make([]protocol.WfDispatchLocation, len(wg.Wavefronts))
		for i, wf := range wg.Wavefronts {
			locs[i] = protocol.WfDispatchLocation{Wavefront: wf}
		}
		req := protocol.MapWGReqBuilder{}.WithSrc("Dispatcher.Port").WithDst(u.ToDispatcher.AsRemote()).WithPID(1).WithWG(wg).Build()
		req.Wavefronts = locs
		for tries := 0; u.ToDispatcher.Deliver(req) != nil; tries++ {
			if tries > 1000 {
				panic("harness: emu CU never accepts the MapWGReq")
			}
			step()
		}
		step()
	}
	for i := 0; i < 100000 && eng.Pending() > 0; i++ {
		step()
	}
	return img, true
}

type memOp struct {
	port   sim.Port
	q      string
	req    mem.AccessReq
	rspAt  int
	seq    int
	instID int
	last   bool
}

type dummyComp struct{ *sim.ComponentBase }

func (d *dummyComp) Handle(sim.Event) error  { return nil }
func (d *dummyComp) NotifyRecv(sim.Port)     {}
func (d *dummyComp) NotifyPortFree(sim.Port) {}

type tracked struct {
	id, w, g   int
	wf         *wavefront.Wavefront
	kind       string // "s" | "d"
	nreq, nrsp int
	lastSent   bool
	done       bool
	ended      int
	dst, ndst  int
	issuedAt   int
}

type tracer struct{ start, end func(task tracing.Task) }

func (t *tracer) StartTask(task tracing.Task)      { t.start(task) }
func (t *tracer) StepTask(task tracing.Task)       {}
func (t *tracer) AddMilestone(m tracing.Milestone) {}
func (t *tracer) EndTask(task tracing.Task)        { t.end(task) }

func b2i(b bool) int {
	if b {
		return 1
	}
	return 0
}

func (r *runner) runTiming(sc *Scenario, code []byte, idx int, ref *memImage, refOK bool) {
	img := image(sc, code)
	rng := rand.New(rand.NewSource(sc.Mem.Seed))
	r.emit("Reset", ab.Rec{"mode": "timing", "case": idx, "name": sc.Name, "kind": sc.Kind, "groups": sc.NWG, "lds": ldsSize})
	defer func() {
		if e := recover(); e != nil {
			r.st.Panics++
			if os.Getenv("C02CUMEM_STACK") != "" {
				fmt.Fprintf(os.Stderr, "panic: %v\n%s\n", e, debug.Stack())
			}
			r.emit("Panic", ab.Rec{"mode": "timing", "msg": fmt.Sprint(e)})
		}
	}()
	eng := ab.NewEngine()
	dc := &dummyComp{sim.NewComponentBase("Env")}
	u := cu.MakeBuilder().WithEngine(eng).WithFreq(1 * sim.GHz).
		WithInstMem(sim.NewPort(dc, 1, 1, "Env.InstMem")).WithScalarMem(sim.NewPort(dc, 1, 1, "Env.ScalarMem")).
		WithVectorMemModules(&mem.SinglePortMapper{Port: "Env.VectorMem"}).Build("CU")
	conn := ab.NewConn("Conn")
	for _, p := range []sim.Port{u.ToACE, u.ToCP, u.ToInstMem, u.ToScalarMem, u.ToVectorMem} {
		conn.PlugIn(p)
	}
	wgs := workGroups(sc, code)
	wfID, wfG := map[string]int{}, map[string]int{}
	n := 0
	for g, wg := range wgs {
		for _, wf := range wg.Wavefronts {
			n++
			wfID[wf.UID], wfG[wf.UID] = n, g+1
		}
	}
	tWG := map[int]*wavefront.WorkGroup{} // group -> the CU's work-group object (its LDS)

	readV := func(wf *wavefront.Wavefront, reg, lane int) []byte {
		buf := make([]byte, 4)
		u.VRegFile[wf.SIMDID].Read(cu.RegisterAccess{Reg: insts.VReg(reg), RegCount: 1, LaneID: lane, WaveOffset: wf.VRegOffset, Data: buf})
		return buf
	}
	vregs := func(wf *wavefront.Wavefront, reg, cnt int) [][]int {
		out := make([][]int, 64)
		for l := 0; l < 64; l++ {
			var b []byte
			for j := 0; j < cnt; j++ {
				b = append(b, readV(wf, reg+j, l)...)
			}
			out[l] = ab.Bytes(b)
		}
		return out
	}
	sregs := func(wf *wavefront.Wavefront, reg, cnt int) []byte {
		buf := make([]byte, 4*cnt)
		for j := 0; j < cnt; j++ {
			u.SRegFile.Read(cu.RegisterAccess{Reg: insts.SReg(reg + j), RegCount: 1, WaveOffset: wf.SRegOffset, Data: buf[4*j : 4*j+4]})
		}
		return buf
	}
	ldsAll := func() [][]int {
		out := make([][]int, sc.NWG)
		for g := 1; g <= sc.NWG; g++ {
			if wg := tWG[g]; wg != nil {
				out[g-1] = ab.Bytes(wg.LDS)
			} else {
				out[g-1] = ab.Bytes(make([]byte, ldsSize))
			}
		}
		return out
	}

	byTask := map[string]*tracked{}
	byID := map[int]*tracked{}
	var order []*tracked
	wfTask := map[string]*wavefront.Wavefront{}
	nid := 0
	issued := map[int]int{}
	tr := &tracer{}
	tr.start = func(task tracing.Task) {
		if task.Kind != "inst" {
			return
		}
		d, _ := task.Detail.(map[string]interface{})
		in, _ := d["inst"].(*wavefront.Inst)
		wf, _ := d["wf"].(*wavefront.Wavefront)
		if in == nil || wf == nil {
			panic("harness: inst task without inst/wf detail")
		}
		wfTask[wf.UID] = wf
		tWG[wfG[wf.UID]] = wf.WG
		if !(in.FormatType == insts.SOPP && in.Opcode == 12) {
			issued[wfID[wf.UID]]++ // every instruction but s_waitcnt
		}
		switch in.FormatType {
		case insts.SMEM:
			nid++
			ti := &tracked{id: nid, w: wfID[wf.UID], g: wfG[wf.UID], wf: wf, kind: "s", issuedAt: issued[wfID[wf.UID]]}
			byTask[task.ID], byID[nid] = ti, ti
			order = append(order, ti)
			r.st.SInsts++
			b := sregs(wf, in.Base.Register.RegIndex(), 2)
			base := uint64(0)
			for i := 7; i >= 0; i-- {
				base = base<<8 | uint64(b[i])
			}
			var off uint64
			if in.Offset.OperandType == insts.RegOperand {
				o := sregs(wf, in.Offset.Register.RegIndex(), 1)
				off = uint64(o[0]) | uint64(o[1])<<8 | uint64(o[2])<<16 | uint64(o[3])<<24
			} else {
				off = uint64(in.Offset.IntValue)
			}
			r.emit("SExec", ab.Rec{"w": ti.w, "id": nid, "opc": int(in.Opcode), "a": rel(base + off), "dst": in.Data.Register.RegIndex(),
				"before": ab.Bytes(sregs(wf, 0, sWindow))})
		case insts.DS:
			nid++
			ti := &tracked{id: nid, w: wfID[wf.UID], g: wfG[wf.UID], wf: wf, kind: "d"}
			byTask[task.ID], byID[nid] = ti, ti
			r.st.DSInsts++
			exec := make([]int, 64)
			addr := make([]int, 64)
			for l := 0; l < 64; l++ {
				exec[l] = int(wf.EXEC() >> uint(l) & 1)
				a := readV(wf, in.Addr.Register.RegIndex(), l)
				addr[l] = int(uint32(a[0]) | uint32(a[1])<<8 | uint32(a[2])<<16 | uint32(a[3])<<24)
			}
			rec := ab.Rec{"w": ti.w, "g": ti.g, "id": nid, "opc": int(in.Opcode), "off0": int(in.Offset0), "off1": int(in.Offset1),
				"exec": exec, "a": addr, "d0": []int{}, "d1": []int{}, "before": []int{}}
			if in.Data != nil {
				rec["d0"] = vregs(wf, in.Data.Register.RegIndex(), in.Data.RegCount)
			}
			if in.Data1 != nil {
				rec["d1"] = vregs(wf, in.Data1.Register.RegIndex(), in.Data1.RegCount)
			}
			if in.Dst != nil {
				ti.dst, ti.ndst = in.Dst.Register.RegIndex(), in.Dst.RegCount
				rec["before"] = vregs(wf, ti.dst, ti.ndst)
			}
			r.emit("DExec", rec)
		}
	}
	tr.end = func(task tracing.Task) {
		if ti, ok := byTask[task.ID]; ok {
			ti.ended++
			if ti.kind == "d" {
				rec := ab.Rec{"id": ti.id, "w": ti.w, "g": ti.g, "n": ti.ended, "lds": ldsAll(), "after": []int{}}
				if ti.ndst > 0 {
					rec["after"] = vregs(ti.wf, ti.dst, ti.ndst)
				}
				r.emit("DEnd", rec)
			} else {
				r.emit("SEnd", ab.Rec{"id": ti.id, "w": ti.w})
			}
			return
		}
		if wf, ok := wfTask[task.ID]; ok {
			r.emit("WfEnd", ab.Rec{"w": wfID[wf.UID], "ov": wf.OutstandingVectorMemAccess, "os": wf.OutstandingScalarMemAccess})
		}
	}
	tracing.CollectTrace(u, tr)
	reqOf := map[string]*memOp{}
	nreq := 0
	u.ToScalarMem.AcceptHook(ab.HookFn(func(ctx sim.HookCtx) {
		switch m := ctx.Item.(type) {
		case *mem.ReadReq:
			if ctx.Pos != sim.HookPosPortMsgSend {
				return
			}
			var ti *tracked
			for _, info := range u.InFlightScalarMemAccess {
				if info.Req != nil && info.Req.ID == m.ID {
					ti = byTask[info.Inst.ID]
				}
			}
			if ti == nil {
				panic("harness: scalar memory request without in-flight record")
			}
			nreq++
			r.st.Reqs++
			ti.nreq++
			last := !m.CanWaitForCoalesce
			if last {
				ti.lastSent = true
			}
			reqOf[m.ID] = &memOp{instID: ti.id, last: last, seq: nreq}
			r.emit("SReq", ab.Rec{"id": ti.id, "r": nreq, "a": rel(m.Address), "n": int(m.AccessByteSize), "last": b2i(last)})
		case *mem.DataReadyRsp:
			if ctx.Pos != sim.HookPosPortMsgRetrieveIncoming {
				return
			}
			op := reqOf[m.RespondTo]
			if op == nil {
				panic("harness: scalar response to an unknown request")
			}
			byID[op.instID].nrsp++
			r.emit("SRsp", ab.Rec{"id": op.instID, "r": op.seq, "data": ab.Bytes(m.Data)})
		}
	}))
	doneWG := 0
	u.ToACE.AcceptHook(ab.HookFn(func(ctx sim.HookCtx) {
		if c, ok := ctx.Item.(*protocol.WGCompletionMsg); ok && ctx.Pos == sim.HookPosPortMsgSend {
			doneWG += len(c.RspTo)
		}
	}))
	flushDone := func() {
		for _, ti := range order {
			if ti.done || !(ti.lastSent && ti.nrsp == ti.nreq) {
				continue
			}
			ti.done = true
			// quiet: the wavefront issued nothing but s_waitcnt since this load, so only the load can have changed its SGPRs
			r.emit("SDone", ab.Rec{"id": ti.id, "w": ti.w, "quiet": b2i(issued[ti.w] == ti.issuedAt), "after": ab.Bytes(sregs(ti.wf, 0, sWindow))})
		}
	}

	// ---- environment: in order per port, or (scalar and vector ports) any order in which a request flagged last
	// does not overtake earlier requests of its instruction
	var queue []*memOp
	vseq := 0
	accept := func(q string, port sim.Port, cyc int) {
		for {
			m := port.RetrieveOutgoing()
			if m == nil {
				return
			}
			req := m.(mem.AccessReq)
			op := reqOf[req.Meta().ID]
			if op == nil {
				vseq++
				op = &memOp{seq: 1<<30 + vseq, instID: -1}
			}
			op.q, op.port, op.req = q, port, req
			lo, hi := sc.Mem.Lat[0], sc.Mem.Lat[1]
			if q == "s" {
				lo, hi = sc.Mem.SLat[0], sc.Mem.SLat[1]
			} else if q == "i" {
				lo, hi = 2, 6
			}
			l := lo
			if hi > lo {
				l += rng.Intn(hi - lo + 1)
			}
			op.rspAt = cyc + max(l, 1)
			queue = append(queue, op)
		}
	}
	respond := func(cyc int) {
		blocked := map[string]bool{}
		rest := queue[:0]
		for _, op := range queue {
			perm := sc.Mem.Perm && op.q == "s"
			hold := op.rspAt > cyc || blocked[op.q]
			if !hold && perm && op.last {
				for _, o2 := range queue {
					if o2 != op && o2.q == op.q && o2.instID == op.instID && o2.seq < op.seq {
						hold = true
					}
				}
			}
			if !hold {
				var rsp sim.Msg
				switch rq := op.req.(type) {
				case *mem.ReadReq:
					rsp = mem.DataReadyRspBuilder{}.WithSrc(rq.Dst).WithDst(rq.Src).WithRspTo(rq.ID).WithData(img.read(rq.Address, rq.AccessByteSize)).Build()
				case *mem.WriteReq:
					img.write(rq.Address, rq.Data, rq.DirtyMask)
					rsp = mem.WriteDoneRspBuilder{}.WithSrc(rq.Dst).WithDst(rq.Src).WithRspTo(rq.ID).Build()
				}
				if err := op.port.Deliver(rsp); err != nil {
					blocked[op.q] = true
					hold = true
				}
			}
			if hold {
				if !perm {
					blocked[op.q] = true
				}
				rest = append(rest, op)
			}
		}
		queue = rest
	}
	for g, wg := range wgs {
		locs := make([]protocol.WfDispatchLocation, len(wg.Wavefronts))
		for i, wf := range wg.Wavefronts {
			k := wfID[wf.UID] - 1
			locs[i] = protocol.WfDispatchLocation{Wavefront: wf, SIMDID: k % 4, VGPROffset: (k / 4) * numVGPR * 4,
				SGPROffset: k * numSGPR * 4, LDSOffset: g * ldsSize}
		}
		req := protocol.MapWGReqBuilder{}.WithSrc("Dispatcher.Port").WithDst(u.ToACE.AsRemote()).WithPID(1).WithWG(wg).Build()
		req.Wavefronts = locs
		if err := u.ToACE.Deliver(req); err != nil {
			panic("harness: timing CU refused the MapWGReq")
		}
	}
	cyc := 0
	for {
		next := -1
		upd := func(c int) {
			if c > cyc && (next < 0 || c < next) {
				next = c
			}
		}
		if t, ok := eng.NextTime(); ok {
			upd(max(int(float64(t)*1e9+0.5), cyc+1))
		}
		for _, op := range queue {
			upd(max(op.rspAt, cyc+1))
		}
		if next < 0 {
			break
		}
		cyc = next
		if cyc > maxCycle {
			fmt.Println("INFRA: cycle limit reached in scenario", sc.Name)
			os.Exit(3)
		}
		eng.RunUntil(ab.Cycle(cyc))
		flushDone()
		accept("i", u.ToInstMem, cyc)
		accept("s", u.ToScalarMem, cyc)
		accept("v", u.ToVectorMem, cyc)
		for u.ToACE.RetrieveOutgoing() != nil {
		}
		for u.ToCP.RetrieveOutgoing() != nil {
		}
		respond(cyc)
	}
	flushDone()
	r.st.Cycles += cyc
	pending := sc.NWG - doneWG
	if pending > 0 {
		r.st.Hangs++
	}
	r.emit("Quiesce", ab.Rec{"pending": pending, "cycle": cyc})
	osz := uint64(sc.ntests()+1) * 4096
	f := ab.Rec{"ref": b2i(refOK), "to": img.crc(outBase, osz)}
	if refOK {
		f["eo"] = ref.crc(outBase, osz)
		if fmt.Sprint(f["eo"]) != fmt.Sprint(f["to"]) {
			r.st.ValMismatch++
		}
	} else {
		f["eo"] = f["to"]
	}
	r.emit("Final", f)
}

func main() {
	scen := flag.String("scen", "", "JSON file with a list of scenarios")
	out := flag.String("out", "trace.ndjson", "trace output")
	list := flag.Bool("list", false, "print the kernel listings")
	flag.Parse()
	var cases []Scenario
	b, err := os.ReadFile(*scen)
	if err != nil {
		fmt.Println("cannot read scenario file:", err)
		os.Exit(2)
	}
	if err := json.Unmarshal(b, &cases); err != nil {
		fmt.Println("bad scenario file:", err)
		os.Exit(2)
	}
	f, err := os.Create(*out)
	if err != nil {
		fmt.Println(err)
		os.Exit(2)
	}
	w := bufio.NewWriterSize(f, 1<<20)
	st := &stats{}
	r := &runner{rec: ab.NewRecorder(w), st: st}
	for i := range cases {
		sc := &cases[i]
		st.Cases++
		if sc.NWG == 0 {
			sc.NWG = 1
		}
		var code []byte
		var lst []string
		if sc.Kind == "lds" {
			code, lst, err = buildLDS(sc)
		} else {
			code, lst, err = buildSMem(sc)
		}
		if err != nil {
			fmt.Println("INFRA: cannot assemble", sc.Name, ":", err)
			os.Exit(3)
		}
		if *list {
			fmt.Println("==", sc.Name)
			for _, l := range lst {
				fmt.Println(l)
			}
			continue
		}
		var ref *memImage
		refOK := false
		if !sc.NoEmu {
			ref, refOK = r.runEmu(sc, code, i)
		}
		r.runTiming(sc, code, i, ref, refOK)
	}
	w.Flush()
	f.Close()
	js, _ := json.Marshal(map[string]int{"cases": st.Cases, "events": st.Events, "smem": st.SInsts, "ds": st.DSInsts, "reqs": st.Reqs,
		"panics": st.Panics, "emu_panics": st.EmuPanics, "hangs": st.Hangs, "val_mismatch": st.ValMismatch, "cycles": st.Cycles})
	fmt.Println(string(js))
}

var _ = sort.Ints
var _ = crc32.ChecksumIEEE
