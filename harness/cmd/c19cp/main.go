// c19cp drives one real cp.CommandProcessor under the mini engine: the harness is
// the driver and every unit behind the CP (CUs, address translators, caches, TLBs,
// RDMA engine, PMC, DMA engine), answering in any order after any delay, and
// writes one line per port event for CPCtrlTrace.tla.
//
//	-scen f     environment scenarios exported from TLC behaviours of CPCtrlScen.tla
//	-random n   n seeded environments
package main

import (
	"bufio"
	"encoding/json"
	"flag"
	"fmt"
	"hash/crc32"
	"math/rand"
	"os"

	"github.com/sarchlab/akita/v4/mem/cache"
	"github.com/sarchlab/akita/v4/mem/mem"
	"github.com/sarchlab/akita/v4/mem/vm"
	"github.com/sarchlab/akita/v4/mem/vm/tlb"
	"github.com/sarchlab/akita/v4/sim"
	"github.com/sarchlab/mgpusim/v4/amd/insts"
	"github.com/sarchlab/mgpusim/v4/amd/kernels"
	"github.com/sarchlab/mgpusim/v4/amd/protocol"
	"github.com/sarchlab/mgpusim/v4/amd/timing/cp"
	pmcpkg "github.com/sarchlab/mgpusim/v4/amd/timing/pagemigrationcontroller"
	"github.com/sarchlab/mgpusim/v4/amd/timing/rdma"

	ab "verifharness/akitabench"
)

// Cfg is the shape of the GPU behind the CP.
type Cfg struct {
	NCU    int `json:"ncu"`
	NAT    int `json:"nat"`
	NTLB   int `json:"ntlb"`
	NCache int `json:"ncache"`
	NDisp  int `json:"ndisp"`
}

// Step is one environment step of a scenario.
type Step struct {
	A  string `json:"a"`
	K  string `json:"k,omitempty"`
	P  string `json:"p,omitempty"`
	U  int    `json:"u,omitempty"`
	Op string `json:"op,omitempty"`
}

// Scenario is a configuration plus environment steps.
type Scenario struct {
	Cfg   Cfg    `json:"cfg"`
	Seed  int64  `json:"seed"`
	Steps []Step `json:"steps"`
}

type fakeCU struct{ name string }

func (c *fakeCU) DispatchingPort() sim.RemotePort { return sim.RemotePort(c.name + ".ToACE") }
func (c *fakeCU) ControlPort() sim.RemotePort     { return sim.RemotePort(c.name + ".ToCP") }
func (c *fakeCU) WfPoolSizes() []int              { return []int{10, 10, 10, 10} }
func (c *fakeCU) VRegCounts() []int               { return []int{16384, 16384, 16384, 16384} }
func (c *fakeCU) SRegCount() int                  { return 3200 }
func (c *fakeCU) LDSBytes() int                   { return 65536 }

type pendMsg struct {
	msg sim.Msg
	k   string
	u   int
}

type run struct {
	rec      *ab.Recorder
	eng      *ab.Engine
	cfg      Cfg
	cp       *cp.CommandProcessor
	drv      sim.Port // the driver's port (a name only)
	ports    map[string]sim.Port
	unitOf   map[sim.RemotePort]int
	cyc      int
	pend     map[string][]pendMsg
	count    map[string]int
	want     map[string]int
	over     map[string]int // scenario replay: messages picked up ahead of their UnitTake step
	reqNo    map[string]int // request message id -> small id
	nreq     int
	launch   map[*kernels.HsaKernelDispatchPacket]int
	mapOf    map[string]int // MapWGReq id -> launch id
	open     map[int]string // unanswered requests
	hsBusy   bool
	panicked bool
	stats    map[string]int
	rng      *rand.Rand
}

var portNames = []string{"cu", "at", "cache", "tlb", "rdma", "pmc", "dma"}

func crc(parts ...interface{}) int {
	return int(crc32.ChecksumIEEE([]byte(fmt.Sprint(parts...))) & 0xfffff)
}

func newRun(rec *ab.Recorder, cfg Cfg, rng *rand.Rand) *run {
	r := &run{rec: rec, eng: ab.NewEngine(), cfg: cfg, ports: map[string]sim.Port{}, unitOf: map[sim.RemotePort]int{},
		pend: map[string][]pendMsg{}, count: map[string]int{}, want: map[string]int{}, over: map[string]int{}, reqNo: map[string]int{},
		launch: map[*kernels.HsaKernelDispatchPacket]int{}, mapOf: map[string]int{}, open: map[int]string{},
		stats: map[string]int{}, rng: rng}
	rec.ResetIDs()
	c := cp.MakeBuilder().WithEngine(r.eng).WithFreq(1 * sim.GHz).Build("GPU[1].CP")
	r.cp = c
	r.drv = sim.NewPort(nil, 1, 1, "Driver.ToGPUs")
	c.Driver = r.drv
	stub := func(name string, u int) sim.Port {
		p := sim.NewPort(nil, 1, 1, "GPU[1]."+name)
		r.unitOf[p.AsRemote()] = u
		return p
	}
	cus := []cp.CUInterfaceForCP{}
	for i := 1; i <= cfg.NCU; i++ {
		cu := &fakeCU{name: fmt.Sprintf("GPU[1].CU[%d]", i)}
		cus = append(cus, cu)
		r.unitOf[cu.ControlPort()] = i
		r.unitOf[cu.DispatchingPort()] = i
	}
	cp.VerifRebuildDispatchers(c, "round-robin", cfg.NDisp, cus, [3]int{1, 1, 1})
	for i := 1; i <= cfg.NAT; i++ {
		c.AddressTranslators = append(c.AddressTranslators, stub(fmt.Sprintf("AT[%d].Ctrl", i), i))
	}
	for i := 1; i <= cfg.NTLB; i++ {
		c.TLBs = append(c.TLBs, stub(fmt.Sprintf("TLB[%d].Ctrl", i), i))
	}
	for i := 1; i <= cfg.NCache; i++ {
		p := stub(fmt.Sprintf("Cache[%d].Ctrl", i), i)
		switch i % 4 { // spread over the four cache lists of the CP
		case 1:
			c.L2Caches = append(c.L2Caches, p)
		case 2:
			c.L1VCaches = append(c.L1VCaches, p)
		case 3:
			c.L1SCaches = append(c.L1SCaches, p)
		default:
			c.L1ICaches = append(c.L1ICaches, p)
		}
	}
	c.RDMA = stub("RDMA.Ctrl", 1)
	c.PMC = stub("PMC.CtrlPort", 1)
	c.DMAEngine = stub("DMA.ToCP", 1)
	r.ports = map[string]sim.Port{"drv": c.ToDriver, "cu": c.ToCUs, "at": c.ToAddressTranslators, "cache": c.ToCaches,
		"tlb": c.ToTLBs, "rdma": c.ToRDMA, "pmc": c.ToPMC, "dma": c.ToDMA}
	conn := ab.NewConn("Conn")
	for _, p := range r.ports {
		conn.PlugIn(p)
	}
	for name := range r.ports {
		r.hook(name)
	}
	return r
}

// describe classifies a message: kind, flags, payload digest, correlated request id (0 if none).
func (r *run) describe(m sim.Msg) (k, fl string, x, id int) {
	fl = "none"
	switch q := m.(type) {
	case *protocol.FlushReq:
		k, id = "flush", r.reqNo[q.ID]
	case *protocol.MemCopyH2DReq:
		k, x, id = "copy", crc("h2d", q.DstAddress, q.SrcBuffer), r.reqNo[q.ID]
	case *protocol.MemCopyD2HReq:
		k, x, id = "copy", crc("d2h", q.SrcAddress, len(q.DstBuffer)), r.reqNo[q.ID]
	case *protocol.LaunchKernelReq:
		k, id = "launch", r.reqNo[q.ID]
	case *protocol.LaunchKernelRsp:
		k, id = "launch", r.reqNo[q.RspTo]
	case *protocol.RDMADrainCmdFromDriver:
		k, id = "drain", r.reqNo[q.ID]
	case *protocol.RDMARestartCmdFromDriver:
		k, id = "rdmarestart", r.reqNo[q.ID]
	case *protocol.ShootDownCommand:
		k, x, id = "shoot", crc(q.PID, q.VAddr), r.reqNo[q.ID]
	case *protocol.GPURestartReq:
		k, id = "restart", r.reqNo[q.ID]
	case *protocol.PageMigrationReqToCP:
		k, id = "mig", r.reqNo[q.ID]
		x = crc(q.ToReadFromPhysicalAddress, q.ToWriteToPhysicalAddress, q.PageSize, q.DestinationPMCPort.AsRemote())
	case *protocol.RDMADrainRspToDriver:
		k = "drain"
	case *protocol.RDMARestartRspToDriver:
		k = "rdmarestart"
	case *protocol.ShootDownCompleteRsp:
		k = "shoot"
	case *protocol.GPURestartRsp:
		k = "restart"
	case *protocol.PageMigrationRspToDriver:
		k = "mig"
	case *sim.GeneralRsp:
		if q.OriginalReq != nil {
			k, _, _, id = r.describe(q.OriginalReq)
			if k == "copy" && id == 0 { // answer of the DMA engine: the original is the CP's clone
				k = "copyrsp"
			}
		} else {
			k = "generalrsp"
		}
	case *protocol.CUPipelineFlushReq:
		k = "cuflush"
	case *protocol.CUPipelineRestartReq:
		k = "curestart"
	case *protocol.CUPipelineFlushRsp:
		k = "cuflushrsp"
	case *protocol.CUPipelineRestartRsp:
		k = "curestartrsp"
	case *protocol.MapWGReq:
		k, id = "map", r.launch[q.WorkGroup.Packet]
		r.mapOf[q.ID] = id
	case *protocol.WGCompletionMsg:
		k = "wgdone"
		if len(q.RspTo) > 0 {
			id = r.mapOf[q.RspTo[0]]
		}
	case *mem.ControlMsg:
		switch {
		case q.DiscardTransations:
			k = "atdiscard"
		case q.Restart:
			k = "atrestart"
		default:
			k = "atrsp"
		}
	case *cache.FlushReq:
		k = "flush"
		switch {
		case q.InvalidateAllCachelines && q.DiscardInflight && q.PauseAfterFlushing:
			fl = "inv"
		case q.InvalidateAllCachelines || q.DiscardInflight || q.PauseAfterFlushing:
			fl = "odd"
		}
	case *cache.RestartReq:
		k = "restart"
	case *cache.FlushRsp:
		k = "flushrsp"
	case *cache.RestartRsp:
		k = "restartrsp"
	case *tlb.FlushReq:
		k, x = "tlbflush", crc(q.PID, q.VAddr)
	case *tlb.RestartReq:
		k = "tlbrestart"
	case *tlb.FlushRsp:
		k = "tlbflushrsp"
	case *tlb.RestartRsp:
		k = "tlbrestartrsp"
	case *rdma.DrainReq:
		k = "drain"
	case *rdma.RestartReq:
		k = "rdmarestart"
	case *rdma.DrainRsp:
		k = "drainrsp"
	case *rdma.RestartRsp:
		k = "rdmarestartrsp"
	case *pmcpkg.PageMigrationReqToPMC:
		k = "mig"
		x = crc(q.ToReadFromPhysicalAddress, q.ToWriteToPhysicalAddress, q.PageSize, q.PMCPortOfRemoteGPU)
	case *pmcpkg.PageMigrationRspFromPMC:
		k = "migrsp"
	default:
		k = fmt.Sprintf("%T", m)
	}
	return
}

func (r *run) emit(e string, f ab.Rec) {
	r.count[e]++
	if e == "Send" || e == "Recv" {
		r.count[fmt.Sprintf("%s/%v/%v", e, f["p"], f["k"])]++
	}
	r.rec.Emit(e, f)
}

func (r *run) hook(name string) {
	port := r.ports[name]
	port.AcceptHook(ab.HookFn(func(ctx sim.HookCtx) {
		m := ctx.Item.(sim.Msg)
		k, fl, x, id := r.describe(m)
		u := 0
		if name != "drv" {
			switch ctx.Pos {
			case sim.HookPosPortMsgSend, sim.HookPosPortMsgRetrieveOutgoing:
				u = r.unitOf[m.Meta().Dst]
			default:
				u = r.unitOf[m.Meta().Src]
			}
		}
		f := ab.Rec{"p": name, "k": k, "u": u, "fl": fl, "x": x, "id": id}
		switch ctx.Pos {
		case sim.HookPosPortMsgSend:
			f["to"] = string(m.Meta().Dst)
			r.emit("Send", f)
		case sim.HookPosPortMsgRetrieveIncoming:
			r.emit("Recv", f)
		case sim.HookPosPortMsgRecvd:
			if name == "drv" {
				r.emit("EnvReq", f)
			} else {
				r.emit("UnitRsp", f)
			}
		case sim.HookPosPortMsgRetrieveOutgoing:
			if name == "drv" {
				r.emit("EnvTakeRsp", f)
			} else {
				r.emit("UnitTake", f)
			}
		}
	}))
}

func (r *run) tick(n int) {
	if r.panicked {
		return
	}
	defer func() {
		if x := recover(); x != nil {
			r.panicked = true
			r.rec.Emit("Panic", ab.Rec{"msg": fmt.Sprint(x)})
		}
	}()
	for i := 0; i < n; i++ {
		r.cyc++
		r.eng.RunUntil(ab.Cycle(r.cyc))
	}
}

func (r *run) await(max int, cond func() bool) bool {
	for i := 0; i < max && !cond() && !r.panicked; i++ {
		r.tick(1)
	}
	return cond()
}

func isHS(k string) bool {
	return k == "drain" || k == "shoot" || k == "mig" || k == "restart" || k == "rdmarestart"
}

// envReq delivers a request of kind k to the CP.
func (r *run) envReq(k string) bool {
	to := r.ports["drv"]
	var m sim.Msg
	switch k {
	case "flush":
		m = protocol.NewFlushReq(r.drv, to)
	case "copy":
		if r.rng.Intn(2) == 0 {
			buf := make([]byte, 4+r.rng.Intn(12))
			r.rng.Read(buf)
			m = protocol.NewMemCopyH2DReq(r.drv, to, buf, uint64(4096+64*r.rng.Intn(64)))
		} else {
			m = protocol.NewMemCopyD2HReq(r.drv, to, uint64(4096+64*r.rng.Intn(64)), make([]byte, 4+r.rng.Intn(12)))
		}
	case "launch":
		co := &insts.KernelCodeObject{KernelCodeObjectMeta: &insts.KernelCodeObjectMeta{WIVgprCount: 4, WFSgprCount: 8}}
		pkt := &kernels.HsaKernelDispatchPacket{GridSizeX: 64, GridSizeY: 1, GridSizeZ: 1,
			WorkgroupSizeX: 64, WorkgroupSizeY: 1, WorkgroupSizeZ: 1}
		q := protocol.NewLaunchKernelReq(r.drv, to)
		q.CodeObject, q.Packet, q.PID = co, pkt, vm.PID(1)
		r.launch[pkt] = r.nreq + 1
		m = q
	case "drain":
		m = protocol.NewRDMADrainCmdFromDriver(r.drv, to)
	case "rdmarestart":
		m = protocol.NewRDMARestartCmdFromDriver(r.drv, to)
	case "shoot":
		vs := []uint64{}
		for i := 0; i < 1+r.rng.Intn(3); i++ {
			vs = append(vs, uint64(4096*(1+r.rng.Intn(100))))
		}
		m = protocol.NewShootdownCommand(r.drv, to, vs, vm.PID(1+r.rng.Intn(3)))
	case "restart":
		m = protocol.NewGPURestartReq(r.drv, to)
	case "mig":
		q := protocol.NewPageMigrationReqToCP(r.drv, to)
		q.ToReadFromPhysicalAddress = uint64(4096 * (1 + r.rng.Intn(1000)))
		q.ToWriteToPhysicalAddress = uint64(4096 * (1 + r.rng.Intn(1000)))
		q.PageSize = 4096
		q.DestinationPMCPort = sim.NewPort(nil, 1, 1, fmt.Sprintf("GPU[%d].PMC.RemotePort", 2+r.rng.Intn(3)))
		m = q
	default:
		panic("unknown request kind " + k)
	}
	r.nreq++
	r.reqNo[m.Meta().ID] = r.nreq
	if to.Deliver(m) != nil {
		delete(r.reqNo, m.Meta().ID)
		r.nreq--
		return false
	}
	r.open[r.nreq] = k
	if isHS(k) {
		r.hsBusy = true
	}
	return true
}

func (r *run) envTakeRsp() bool {
	m := r.ports["drv"].RetrieveOutgoing()
	if m == nil {
		return false
	}
	k, _, _, id := r.describe(m)
	if id != 0 {
		delete(r.open, id)
	} else {
		for i, kk := range r.open { // uncorrelated answers: the oldest open request of the kind
			if kk == k {
				ok := true
				for j, kj := range r.open {
					if kj == k && j < i {
						ok = false
					}
				}
				if ok {
					delete(r.open, i)
					break
				}
			}
		}
	}
	if isHS(k) {
		r.hsBusy = false
	}
	return true
}

// unitTake moves the head of an internal port to its unit.
func (r *run) unitTake(p string) bool {
	m := r.ports[p].RetrieveOutgoing()
	if m == nil {
		return false
	}
	k, _, _, _ := r.describe(m)
	r.pend[p] = append(r.pend[p], pendMsg{m, k, r.unitOf[m.Meta().Dst]})
	return true
}

func (r *run) oldest(p string, i int) bool {
	for j := 0; j < i; j++ {
		if r.pend[p][j].u == r.pend[p][i].u && r.pend[p][j].k == r.pend[p][i].k {
			return false
		}
	}
	return true
}

// unitRsp: the unit answers the i-th message it holds.
func (r *run) unitRsp(p string, i int) bool {
	if i >= len(r.pend[p]) || !r.oldest(p, i) {
		return false
	}
	q := r.pend[p][i]
	src, dst := q.msg.Meta().Dst, q.msg.Meta().Src
	var rsp sim.Msg
	switch m := q.msg.(type) {
	case *protocol.CUPipelineFlushReq:
		rsp = protocol.CUPipelineFlushRspBuilder{}.WithSrc(src).WithDst(dst).Build()
	case *protocol.CUPipelineRestartReq:
		rsp = protocol.CUPipelineRestartRspBuilder{}.WithSrc(src).WithDst(dst).Build()
	case *protocol.MapWGReq:
		rsp = protocol.WGCompletionMsgBuilder{}.WithSrc(src).WithDst(dst).WithRspTo([]string{m.ID}).Build()
	case *mem.ControlMsg:
		rsp = mem.ControlMsgBuilder{}.WithSrc(src).WithDst(dst).ToNotifyDone().Build()
	case *cache.FlushReq:
		rsp = cache.FlushRspBuilder{}.WithSrc(src).WithDst(dst).WithRspTo(m.ID).Build()
	case *cache.RestartReq:
		rsp = cache.RestartRspBuilder{}.WithSrc(src).WithDst(dst).WithRspTo(m.ID).Build()
	case *tlb.FlushReq:
		rsp = tlb.FlushRspBuilder{}.WithSrc(src).WithDst(dst).Build()
	case *tlb.RestartReq:
		rsp = tlb.RestartRspBuilder{}.WithSrc(src).WithDst(dst).Build()
	case *rdma.DrainReq:
		rsp = rdma.DrainRspBuilder{}.WithSrc(src).WithDst(dst).Build()
	case *rdma.RestartReq:
		rsp = rdma.RestartRspBuilder{}.WithSrc(src).WithDst(dst).Build()
	case *pmcpkg.PageMigrationReqToPMC:
		rsp = pmcpkg.PageMigrationRspFromPMCBuilder{}.WithSrc(src).WithDst(dst).Build()
	case *protocol.MemCopyH2DReq, *protocol.MemCopyD2HReq:
		rsp = sim.GeneralRspBuilder{}.WithSrc(src).WithDst(dst).WithOriginalReq(q.msg).Build()
	default:
		panic(fmt.Sprintf("harness: unit cannot answer %T", q.msg))
	}
	if r.ports[p].Deliver(rsp) != nil {
		return false
	}
	r.pend[p] = append(r.pend[p][:i], r.pend[p][i+1:]...)
	return true
}

const awaitMax = 12

func (r *run) step(s Step) {
	ok := true
	switch s.A {
	case "EnvReq":
		// the driver's discipline survives a replay that drifted: a handshake command only after the previous
		// one was answered, and no cache flush beside a shootdown / restart (known finding)
		r.await(4*awaitMax, func() bool {
			if (isHS(s.K) && r.hsBusy) || r.conflicts(s.K) {
				r.envTakeRsp()
			}
			return !(isHS(s.K) && r.hsBusy) && !r.conflicts(s.K)
		})
		if (isHS(s.K) && r.hsBusy) || r.conflicts(s.K) {
			ok = false
			break
		}
		ok = r.envReq(s.K)
	case "EnvTakeRsp":
		r.await(awaitMax, func() bool { return r.ports["drv"].PeekOutgoing() != nil })
		ok = r.envTakeRsp()
	case "UnitTake":
		// the behaviour names the message; the port is FIFO: take up to and including it (the dispatcher
		// chooses the CU of a work-group itself: any CU matches a "map")
		same := func(k string, u int) bool { return k == s.K && (u == s.U || k == "map") }
		ok = false
		key := fmt.Sprintf("%s/%s/%d", s.P, s.K, s.U)
		if s.K == "map" {
			key = s.P + "/map"
		}
		if r.over[key] > 0 { // already picked up on the way to an earlier message
			r.over[key]--
			ok = true
			break
		}
		for waited := 0; waited <= awaitMax && !ok && !r.panicked; waited++ {
			for r.ports[s.P].PeekOutgoing() != nil {
				m := r.ports[s.P].PeekOutgoing()
				k, _, _, _ := r.describe(m)
				u := r.unitOf[m.Meta().Dst]
				r.unitTake(s.P)
				if same(k, u) {
					ok = true
					break
				}
				if k == "map" {
					r.over[s.P+"/map"]++
				} else {
					r.over[fmt.Sprintf("%s/%s/%d", s.P, k, u)]++
				}
			}
			if !ok {
				r.tick(1)
			}
		}
	case "UnitRsp":
		ok = false
		for i, q := range r.pend[s.P] {
			if q.k == s.K && (q.u == s.U || q.k == "map") && r.oldest(s.P, i) {
				ok = r.unitRsp(s.P, i)
				break
			}
		}
	case "Await":
		key := fmt.Sprintf("%s/%s/%s", s.Op, s.P, s.K)
		r.want[key]++
		ok = r.await(awaitMax, func() bool { return r.count[key] >= r.want[key] })
	default:
		panic("unknown step " + s.A)
	}
	if ok {
		r.stats["steps_done"]++
	} else {
		r.stats["steps_skipped"]++
		r.stats["skipped_"+s.A]++
	}
}

func (r *run) serveAll() bool {
	progress := false
	for r.envTakeRsp() {
		progress = true
	}
	for _, p := range portNames {
		for r.unitTake(p) {
			progress = true
		}
		for i := 0; i < len(r.pend[p]); {
			if r.unitRsp(p, i) {
				progress = true
			} else {
				i++
			}
		}
	}
	return progress
}

func (r *run) finish() {
	for i := 0; i < 20000 && !r.panicked; i++ {
		progress := r.serveAll()
		before := r.eng.Events
		r.tick(1)
		if r.eng.Events != before {
			progress = true
		}
		if !progress && r.eng.Pending() == 0 {
			break
		}
	}
	if r.panicked {
		return
	}
	r.rec.Emit("Quiesce", ab.Rec{"open": len(r.open), "pending_events": r.eng.Pending(), "cycle": r.cyc})
}

// conflicts (gated environment): a cache flush is never outstanding together with a shootdown or a GPU
// restart - the three share the CP's acknowledgement counters (known finding C19-cp-shared-ack-counters).
func (r *run) conflicts(k string) bool {
	for _, o := range r.open {
		if (k == "flush" && (o == "shoot" || o == "restart")) || ((k == "shoot" || k == "restart") && o == "flush") {
			return true
		}
	}
	return false
}

// random drives a seeded environment: a command stream (flush/copy/launch) beside the driver's
// migration handshake (one command at a time, in protocol order).
func (r *run) random(kinds []string, ncmd, nhs int, script []string, gate bool) {
	rng := r.rng
	cmds, hsPos, hsDone := 0, 0, 0
	mood := 0
	for steps := 0; steps < 3000 && !r.panicked; steps++ {
		if rng.Intn(20) == 0 {
			mood = rng.Intn(4)
		}
		if cmds >= ncmd && (hsDone >= nhs || len(script) == 0) && len(r.open) == 0 {
			break
		}
		switch rng.Intn(8) {
		case 0:
			if cmds < ncmd && len(kinds) > 0 {
				k := kinds[rng.Intn(len(kinds))]
				if gate && r.conflicts(k) {
					break
				}
				if r.envReq(k) {
					cmds++
				}
			}
		case 1:
			if len(script) > 0 && hsDone < nhs && !r.hsBusy {
				if gate && r.conflicts(script[hsPos]) {
					break
				}
				if r.envReq(script[hsPos]) {
					hsPos++
					if hsPos == len(script) {
						hsPos = 0
						hsDone++
					}
				}
			}
		case 2, 3:
			if mood != 1 {
				r.unitTake(portNames[rng.Intn(len(portNames))])
			}
		case 4, 5, 6:
			p := portNames[rng.Intn(len(portNames))]
			if mood != 2 && len(r.pend[p]) > 0 {
				r.unitRsp(p, rng.Intn(len(r.pend[p])))
			}
		case 7:
			if mood != 3 {
				r.envTakeRsp()
			}
		}
		if rng.Intn(3) > 0 {
			r.tick(1)
		}
	}
}

// knownRuns: directed environments in which a cache flush overlaps a shootdown or a GPU restart.
func knownRuns(rec *ab.Recorder, reset func(Cfg), seed int64) {
	cfg := Cfg{NCU: 2, NAT: 1, NTLB: 2, NCache: 2, NDisp: 1}
	scripts := [][]string{
		{"req flush", "tick", "take cache", "take cache", "rsp cache", "tick", "tick", "req shoot", "tick", "tick"},
		{"req shoot", "tick", "tick", "req flush", "tick", "tick"},
		{"req flush", "tick", "tick", "req restart", "tick", "tick"},
	}
	for i, sc := range scripts {
		r := newRun(rec, cfg, rand.New(rand.NewSource(seed+int64(i))))
		reset(cfg)
		for _, st := range sc {
			var a, b string
			fmt.Sscanf(st, "%s %s", &a, &b)
			switch a {
			case "req":
				r.envReq(b)
			case "tick":
				r.tick(1)
			case "take":
				r.unitTake(b)
			case "rsp":
				r.unitRsp(b, 0)
			}
		}
		r.finish()
	}
}

func main() {
	scen := flag.String("scen", "", "scenario file (JSON list)")
	out := flag.String("out", "trace.ndjson", "trace output")
	nrand := flag.Int("random", 0, "number of random runs")
	seed := flag.Int64("seed", 1, "seed")
	known := flag.Int("known", 0, "1: prepend the directed runs that exhibit the shared-counter defect")
	gate := flag.Bool("gate", false, "the environment never overlaps a command-stream request with a migration handshake")
	flag.Parse()

	f, err := os.Create(*out)
	if err != nil {
		panic(err)
	}
	bw := bufio.NewWriter(f)
	rec := ab.NewRecorder(bw)
	traces := 0
	stats := map[string]int{}
	reset := func(cfg Cfg) {
		rec.Emit("Reset", ab.Rec{"ncu": cfg.NCU, "nat": cfg.NAT, "ntlb": cfg.NTLB, "ncache": cfg.NCache, "ndisp": cfg.NDisp})
		traces++
	}
	if *scen != "" {
		data, err := os.ReadFile(*scen)
		if err != nil {
			panic(err)
		}
		var scs []Scenario
		if err := json.Unmarshal(data, &scs); err != nil {
			panic(err)
		}
		for _, sc := range scs {
			r := newRun(rec, sc.Cfg, rand.New(rand.NewSource(sc.Seed)))
			reset(sc.Cfg)
			for _, s := range sc.Steps {
				if r.panicked {
					break
				}
				r.step(s)
			}
			r.finish()
			for k, v := range r.stats {
				stats[k] += v
			}
		}
	}
	if *known > 0 {
		knownRuns(rec, reset, *seed)
	}
	rng := rand.New(rand.NewSource(*seed))
	scripts := [][]string{{"drain", "shoot", "mig", "restart", "rdmarestart"}, {"drain", "shoot", "restart", "rdmarestart"},
		{"drain", "mig", "mig", "rdmarestart"}, {"drain", "rdmarestart"}, {}}
	for i := 0; i < *nrand; i++ {
		cfg := Cfg{NCU: 1 + rng.Intn(3), NAT: 1 + rng.Intn(2), NTLB: 1 + rng.Intn(3), NCache: 1 + rng.Intn(5), NDisp: 1 + rng.Intn(2)}
		r := newRun(rec, cfg, rng)
		reset(cfg)
		kinds := [][]string{{"flush"}, {"flush", "copy"}, {"copy", "launch"}, {"flush", "copy", "launch"}, {}, {"shoot", "copy"}}[rng.Intn(6)]
		script := scripts[rng.Intn(len(scripts))]
		if len(kinds) > 0 && kinds[0] == "shoot" {
			script = nil // shootdowns issued back to back, without waiting for the previous answer: the CP must queue them
		}
		ncmd := rng.Intn(5)
		if script == nil && len(kinds) > 0 && kinds[0] == "shoot" {
			// two shootdowns arrive together, more follow
			r.envReq("shoot")
			r.envReq("shoot")
			ncmd = 1 + rng.Intn(3)
		}
		r.random(kinds, ncmd, 1+rng.Intn(2), script, *gate)
		r.finish()
	}
	bw.Flush()
	f.Close()
	stats["traces"] = traces
	stats["events"] = rec.Seq
	js, _ := json.Marshal(stats)
	fmt.Println(string(js))
}
