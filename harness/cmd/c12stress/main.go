// c12stress runs two shipped workloads concurrently from two application
// goroutines (as the repository's concurrentworkload/concurrentkernel samples
// do) on the real platform and the real akita engine, free-running. Built with
// -race it is the auxiliary data-race monitor of C12; each workload verifies its
// own result (commands of other queues/contexts must not disturb its data).
package main

import (
	"flag"
	"fmt"
	"math/rand"

	"github.com/sarchlab/mgpusim/v4/amd/benchmarks/amdappsdk/bitonicsort"
	"github.com/sarchlab/mgpusim/v4/amd/benchmarks/amdappsdk/matrixtranspose"
	"github.com/sarchlab/mgpusim/v4/amd/benchmarks/heteromark/fir"
	"github.com/sarchlab/mgpusim/v4/amd/samples/runner"
)

var sameGPU = flag.Bool("same-gpu", false, "run all workloads on GPU 1")
var three = flag.Bool("three", false, "add a third workload")

func main() {
	flag.Parse()
	rand.Seed(1) //nolint:staticcheck
	r := new(runner.Runner).Init()
	d := r.Driver()

	f := fir.NewBenchmark(d)
	f.Length = 1024
	f.SelectGPU([]int{1})
	r.AddBenchmarkWithoutSettingGPUsToUse(f)

	b := bitonicsort.NewBenchmark(d)
	b.Length = 64
	if *sameGPU {
		b.SelectGPU([]int{1})
	} else {
		b.SelectGPU([]int{2})
	}
	r.AddBenchmarkWithoutSettingGPUsToUse(b)

	if *three {
		m := matrixtranspose.NewBenchmark(d)
		m.Width = 32
		m.SelectGPU([]int{1})
		r.AddBenchmarkWithoutSettingGPUsToUse(m)
	}
	r.Run()
	fmt.Println(`{"ok":true}`)
}
