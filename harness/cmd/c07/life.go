package main

// Lifetime histories on the emulator: work-groups are mapped one after the
// other onto a REAL emu.ComputeUnit (MapWGReq -> Tick -> runWG -> WGCompleteEvent
// -> completion message -> next MapWGReq), each running the kernel
//
//	s_nop 0 ; s_endpgm
//
// The compute unit's instruction hook hands the driver the real emu.Wavefront
// right after s_nop, i.e. before the wavefront has written anything: the driver
// re-reads every declared register (line DF, "dispatch fresh"), then applies the
// generation's reads and writes to the wavefront through the usual calls, then
// lets it end.  Whatever the emulator does with the storage of retired
// wavefronts, the next generation's DF line must show the dispatch-defined
// initial values and zero everywhere else.

import (
	"encoding/binary"
	"fmt"

	"github.com/sarchlab/akita/v4/mem/vm"
	"github.com/sarchlab/akita/v4/sim"
	"github.com/sarchlab/mgpusim/v4/amd/emu"
	"github.com/sarchlab/mgpusim/v4/amd/insts"
	"github.com/sarchlab/mgpusim/v4/amd/kernels"
	"github.com/sarchlab/mgpusim/v4/amd/protocol"

	ab "verifharness/akitabench"
)

// Gen is one work-group generation of a lifetime history.
type Gen struct {
	Ns   int   `json:"ns"`
	Nv   int   `json:"nv"`
	Sx   int   `json:"sx"`   // work-group size x (y = z = 1)
	Wfs  []int `json:"wfs"`  // trace ids of its wavefronts
	Ka   []int `json:"ka"`   // 8 bytes: kernarg address (EnableSgprKernargSegmentPtr), empty: not enabled
	Wg   []int `json:"wg"`   // 4 bytes: work-group id x (enabled in ComputePgmRsrc2), empty: not enabled
	Exec []int `json:"exec"` // 8 bytes: InitExecMask
	Ops  []Op  `json:"ops"`  // reads / writes applied to its wavefronts before they end
}

const codeBase = 0x1000

// codeMem is the emu.StorageAccessor the compute unit fetches instructions from.
type codeMem struct{ code []byte }

func (m *codeMem) Read(pid vm.PID, a, n uint64) []byte {
	out := make([]byte, n)
	for i := uint64(0); i < n; i++ {
		if p := a + i - codeBase; a+i >= codeBase && p < uint64(len(m.code)) {
			out[i] = m.code[p]
		}
	}
	return out
}

func (m *codeMem) Write(pid vm.PID, a uint64, d []byte) {}

func runLife(rec *ab.Recorder, sc *Scenario) int {
	rec.Emit("Reset", ab.Rec{"sc": sc.ID, "life": 1})
	w := newWorld(rec)
	mem := &codeMem{code: []byte{0x00, 0x00, 0x80, 0xBF, 0x00, 0x00, 0x81, 0xBF, 0, 0, 0, 0, 0, 0, 0, 0}}
	eng := ab.NewEngine()
	u := emu.NewComputeUnit("EmuCU", eng, insts.NewDisassembler(), emu.NewALU(mem), mem)
	ab.NewConn("disp").PlugIn(u.ToDispatcher)

	ids := map[*kernels.Wavefront]int{}
	var gen *Gen
	u.AcceptHook(ab.HookFn(func(ctx sim.HookCtx) {
		wf, ok := ctx.Item.(*emu.Wavefront)
		if !ok {
			return
		}
		id, known := ids[wf.Wavefront]
		if !known {
			return
		}
		if _, seen := w.emu.wfs[id]; seen {
			return
		}
		// first instruction (s_nop) done: the wavefront has not written a register yet
		w.al[id] = alloc{gen.Ns, gen.Nv}
		w.emu.wfs[id] = wf
		w.emu.m0[id] = func() uint32 { return wf.M0 }
		f := ab.Rec{"w": id, "ns": gen.Ns, "nv": gen.Nv, "sx": gen.Sx, "first": wf.FirstWiFlatID,
			"exec": gen.Exec, "ka": gen.Ka, "wg": gen.Wg}
		w.emitAfter(w.emu, "DF", f, "", id)
		for i := range gen.Ops {
			op := &gen.Ops[i]
			if op.W != id {
				continue
			}
			switch op.Op {
			case "W":
				w.write(w.emu, op)
			case "R":
				w.read(w.emu, op)
			}
		}
	}))

	for g := range sc.Life {
		gen = &sc.Life[g]
		co := &insts.KernelCodeObject{KernelCodeObjectMeta: &insts.KernelCodeObjectMeta{}, Version: insts.CodeObjectV3}
		co.WFSgprCount, co.WIVgprCount = uint16(gen.Ns), uint16(gen.Nv)
		pkt := &kernels.HsaKernelDispatchPacket{KernelObject: codeBase}
		pkt.WorkgroupSizeX, pkt.WorkgroupSizeY, pkt.WorkgroupSizeZ = uint16(gen.Sx), 1, 1
		pkt.GridSizeX, pkt.GridSizeY, pkt.GridSizeZ = uint32(gen.Sx)*4, 1, 1
		if len(gen.Ka) == 8 {
			co.EnableSgprKernargSegmentPtr = true
			pkt.KernargAddress = binary.LittleEndian.Uint64(bytesOf(gen.Ka))
		}
		wg := kernels.NewWorkGroup()
		wg.CodeObject, wg.Packet = co, pkt
		wg.SizeX, wg.SizeY, wg.SizeZ = gen.Sx, 1, 1
		if len(gen.Wg) == 4 {
			co.ComputePgmRsrc2 |= 1 << 7
			wg.IDX = int(binary.LittleEndian.Uint32(bytesOf(gen.Wg)))
		}
		locs := []protocol.WfDispatchLocation{}
		for n, id := range gen.Wfs {
			raw := kernels.NewWavefront()
			raw.CodeObject, raw.Packet, raw.WG = co, pkt, wg
			raw.FirstWiFlatID = 64 * n
			raw.InitExecMask = binary.LittleEndian.Uint64(bytesOf(gen.Exec))
			wg.Wavefronts = append(wg.Wavefronts, raw)
			ids[raw] = id
			locs = append(locs, protocol.WfDispatchLocation{Wavefront: raw})
		}
		req := protocol.MapWGReqBuilder{}.WithSrc("Dispatcher.Port").WithDst(u.ToDispatcher.AsRemote()).
			WithPID(1).WithWG(wg).Build()
		req.Wavefronts = locs
		done := false
		msg := guarded(func() {
			if err := u.ToDispatcher.Deliver(req); err != nil {
				panic("harness: the emulation compute unit does not accept the MapWGReq")
			}
			for n := 0; n < 1000; n++ {
				t, ok := eng.NextTime()
				if !ok {
					break
				}
				eng.RunUntil(t)
				for {
					m := u.ToDispatcher.RetrieveOutgoing()
					if m == nil {
						break
					}
					if _, isDone := m.(*protocol.WGCompletionMsg); isDone {
						done = true
					}
				}
			}
		})
		if msg == "" && !done {
			msg = "the work-group never completed"
		}
		if msg != "" {
			w.panics++
			rec.Emit("StepPanic", ab.Rec{"st": "emu", "during": "life", "msg": msg, "gen": g})
			break
		}
		// the work-group is complete: its wavefronts are gone
		for _, id := range gen.Wfs {
			if _, ok := w.emu.wfs[id]; !ok {
				w.panics++
				rec.Emit("StepPanic", ab.Rec{"st": "emu", "during": "life", "gen": g,
					"msg": fmt.Sprintf("wavefront %d never executed an instruction", id)})
				continue
			}
			w.forget(w.emu, id)
			delete(w.al, id)
			w.emitAfter(w.emu, "X", ab.Rec{"w": id}, "", 0)
		}
		w.emitHeld(w.emu, false)
	}
	w.emitHeld(w.emu, true)
	return w.panics
}
