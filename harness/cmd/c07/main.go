// c07 executes register-access histories on the two real register stores of
// mgpusim -- emu.Wavefront and the timing store (wavefront.Wavefront +
// cu.CURegFileAccessor + cu.SimpleRegisterFile of a compute unit built by
// cu.Builder) -- and writes one ndjson line per store and operation for
// spec/regfile/RegFileTrace.tla.
//
// Every operation of a history is applied to both stores.  After every
// operation the driver re-reads every register of every live wavefront of that
// store through the store's own read interface (ReadOperandBytes for s/v
// registers; VCC(), EXEC(), SCC(), M0 for the special ones) and logs the
// registers whose answer differs from the previous sweep ("chg").  Nothing is
// computed from knowledge of the layout: wavefronts are placed by the real
// WfDispatcherImpl.DispatchWf, ended through the real scheduler's s_endpgm
// path (SchedulerImpl.DoIssue / EvaluateInternalInst -> resetRegisterValue).
package main

import (
	"bufio"
	"encoding/binary"
	"encoding/json"
	"flag"
	"fmt"
	"io"
	"log"
	"os"
	"sort"

	"github.com/sarchlab/akita/v4/sim"
	"github.com/sarchlab/mgpusim/v4/amd/emu"
	"github.com/sarchlab/mgpusim/v4/amd/insts"
	"github.com/sarchlab/mgpusim/v4/amd/kernels"
	"github.com/sarchlab/mgpusim/v4/amd/protocol"
	"github.com/sarchlab/mgpusim/v4/amd/timing/cu"
	"github.com/sarchlab/mgpusim/v4/amd/timing/wavefront"

	ab "verifharness/akitabench"
)

// Place is where the dispatcher puts one wavefront of a work-group.
type Place struct {
	W    int `json:"w"`
	Simd int `json:"simd"`
	Soff int `json:"soff"` // bytes, as in protocol.WfDispatchLocation
	Voff int `json:"voff"` // bytes
}

// Op is one step of a history.
type Op struct {
	Op   string  `json:"op"` // D dispatch a work-group, W write, R read, X end a wavefront
	Wfs  []Place `json:"wfs,omitempty"`
	Ns   int     `json:"ns,omitempty"` // scalar registers the kernel declares
	Nv   int     `json:"nv,omitempty"` // vector registers per lane
	Sx   int     `json:"sx,omitempty"` // work-group size x (v0 = work-item id x)
	W    int     `json:"w,omitempty"`
	API  string  `json:"api,omitempty"` // WO WB SET / RO RB GET
	K    string  `json:"k,omitempty"`
	I    int     `json:"i"`
	C    int     `json:"c"`
	Lane int     `json:"lane"`
	N    int     `json:"n,omitempty"` // byte count of ReadOperandBytes
	D    []int   `json:"d,omitempty"`
}

// Scenario is one history.
type Scenario struct {
	ID   int   `json:"id"`
	Ops  []Op  `json:"ops"`
	Life []Gen `json:"life,omitempty"` // lifetime history on the real emu.ComputeUnit (life.go)
}

// store is what both wavefront types offer (emu.InstEmuState subset).
type store interface {
	ReadOperand(o *insts.Operand, lane int) uint64
	WriteOperand(o *insts.Operand, lane int, v uint64)
	ReadOperandBytes(o *insts.Operand, lane int, n int) []byte
	WriteOperandBytes(o *insts.Operand, lane int, d []byte)
	VCC() uint64
	SetVCC(uint64)
	EXEC() uint64
	SetEXEC(uint64)
	SCC() byte
	SetSCC(byte)
}

type key struct{ w, c int }

type alloc struct{ ns, nv int }

// heldAns is an answer of a read that the driver keeps holding: the very
// byte slice the store returned (not a copy), under the sequence number of the
// R line that logged it.
type heldAns struct {
	seq int
	buf []byte
}

type side struct {
	name   string
	wfs    map[int]store
	m0     map[int]func() uint32
	shadow map[key]string
	held   []heldAns
}

type world struct {
	rec    *ab.Recorder
	emu    *side
	tim    *side
	al     map[int]alloc
	cu     *cu.ComputeUnit
	twf    map[int]*wavefront.Wavefront
	endpgm *insts.Inst
	panics int
}

var regTypes = map[string]insts.RegType{
	"vcclo": insts.VCCLO, "vcchi": insts.VCCHI, "execlo": insts.EXECLO, "exechi": insts.EXECHI,
	"m0": insts.M0, "scc": insts.SCC,
}

func operand(op *Op) *insts.Operand {
	switch op.K {
	case "s":
		return insts.NewSRegOperand(op.I, op.I, op.C)
	case "v":
		return insts.NewVRegOperand(op.I+256, op.I, op.C)
	}
	return insts.NewRegOperand(0, regTypes[op.K], op.C)
}

func ints(b []byte) []int {
	out := make([]int, len(b))
	for i, x := range b {
		out[i] = int(x)
	}
	return out
}

func bytesOf(d []int) []byte {
	out := make([]byte, len(d))
	for i, x := range d {
		out[i] = byte(x)
	}
	return out
}

func le64(v uint64) []byte {
	b := make([]byte, 8)
	binary.LittleEndian.PutUint64(b, v)
	return b
}

func newWorld(rec *ab.Recorder) *world {
	w := &world{rec: rec, al: map[int]alloc{}, twf: map[int]*wavefront.Wavefront{}}
	w.emu = &side{name: "emu", wfs: map[int]store{}, m0: map[int]func() uint32{}, shadow: map[key]string{}}
	w.tim = &side{name: "tim", wfs: map[int]store{}, m0: map[int]func() uint32{}, shadow: map[key]string{}}
	eng := ab.NewEngine()
	w.cu = cu.MakeBuilder().WithEngine(eng).Build("CU")
	ab.NewConn("ace").PlugIn(w.cu.ToACE)
	inst, err := insts.NewDisassembler().Decode([]byte{0x00, 0x00, 0x81, 0xBF}) // s_endpgm
	if err != nil {
		panic(err)
	}
	w.endpgm = inst
	return w
}

// sweep re-reads every register of every live wavefront of one store and
// returns the registers whose value differs from the previous sweep.
// fresh (may be 0) names a wavefront that has just come into existence: its
// non-zero registers are returned separately.
func (w *world) sweep(s *side, fresh int) (chg [][]interface{}, init [][]interface{}) {
	ids := make([]int, 0, len(s.wfs))
	for id := range s.wfs {
		ids = append(ids, id)
	}
	sort.Ints(ids)
	note := func(id, c int, v []byte) {
		k := key{id, c}
		old, seen := s.shadow[k]
		sv := string(v)
		if !seen {
			s.shadow[k] = sv
			zero := true
			for _, b := range v {
				if b != 0 {
					zero = false
				}
			}
			if id == fresh {
				if !zero {
					init = append(init, []interface{}{id, c, ints(v)})
				}
				return
			}
			old = string(make([]byte, len(v)))
		}
		if old != sv {
			s.shadow[k] = sv
			chg = append(chg, []interface{}{id, c, ints(v)})
		}
	}
	for _, id := range ids {
		st := s.wfs[id]
		a := w.al[id]
		for i := 0; i < a.ns; i++ {
			note(id, i, st.ReadOperandBytes(insts.NewSRegOperand(i, i, 1), 0, 4))
		}
		for lane := 0; lane < 64; lane++ {
			for i := 0; i < a.nv; i++ {
				note(id, 256*(lane+1)+i, st.ReadOperandBytes(insts.NewVRegOperand(i+256, i, 1), lane, 4))
			}
		}
		vcc, exec := le64(st.VCC()), le64(st.EXEC())
		note(id, 106, vcc[:4])
		note(id, 107, vcc[4:])
		note(id, 126, exec[:4])
		note(id, 127, exec[4:])
		m0 := make([]byte, 4)
		binary.LittleEndian.PutUint32(m0, s.m0[id]())
		note(id, 124, m0)
		note(id, 253, []byte{st.SCC()})
	}
	if chg == nil {
		chg = [][]interface{}{}
	}
	if init == nil {
		init = [][]interface{}{}
	}
	return chg, init
}

func (w *world) forget(s *side, id int) {
	delete(s.wfs, id)
	delete(s.m0, id)
	for k := range s.shadow {
		if k.w == id {
			delete(s.shadow, k)
		}
	}
}

// guarded runs f; a panic of the real code is returned as a message.
func guarded(f func()) (msg string) {
	defer func() {
		if r := recover(); r != nil {
			msg = fmt.Sprint(r)
			if len(msg) > 160 {
				msg = msg[:160]
			}
			if msg == "" {
				msg = "panic"
			}
		}
	}()
	f()
	return ""
}

// emitAfter sweeps the store and writes the event (or a Panic line).
func (w *world) emitAfter(s *side, e string, f ab.Rec, msg string, fresh int) (init [][]interface{}) {
	var chg [][]interface{}
	smsg := guarded(func() { chg, init = w.sweep(s, fresh) })
	if smsg != "" {
		// the store cannot even be read any more: a line no action accepts
		w.panics++
		w.rec.Emit("SweepPanic", ab.Rec{"st": s.name, "msg": smsg, "after": e})
		return nil
	}
	f["st"] = s.name
	f["chg"] = chg
	if e == "D" || e == "DF" {
		f["init"] = init
	}
	if msg != "" {
		w.panics++
		f["msg"] = msg
		if e == "W" || e == "R" {
			delete(f, "d")
			delete(f, "a")
			delete(f, "n")
			w.rec.Emit("Panic", f)
			return init
		}
		f["during"] = e
		w.rec.Emit("StepPanic", f)
		return init
	}
	w.rec.Emit(e, f)
	return init
}

// emitHeld re-reports answers the driver is still holding: a returned value is
// a value, whatever is read or written afterwards.  all = every held answer
// (end of a history), otherwise the most recent ones and one older one.
func (w *world) emitHeld(s *side, all bool) {
	n := len(s.held)
	if n == 0 {
		return
	}
	var pick []int
	if all {
		for i := 0; i < n; i++ {
			pick = append(pick, i)
		}
	} else {
		for i := n - 1; i >= 0 && i >= n-3; i-- {
			pick = append(pick, i)
		}
		if n > 3 {
			pick = append(pick, (w.rec.Seq*7)%(n-3))
		}
	}
	h := make([][]interface{}, 0, len(pick))
	for _, i := range pick {
		h = append(h, []interface{}{s.held[i].seq, ints(s.held[i].buf)})
	}
	w.rec.Emit("Held", ab.Rec{"st": s.name, "h": h})
}

func opFields(op *Op) ab.Rec {
	return ab.Rec{"w": op.W, "api": op.API, "k": op.K, "i": op.I, "c": op.C, "lane": op.Lane}
}

func (w *world) dispatch(op *Op) {
	co := &insts.KernelCodeObject{KernelCodeObjectMeta: &insts.KernelCodeObjectMeta{}}
	co.WFSgprCount = uint16(op.Ns)
	co.WIVgprCount = uint16(op.Nv)
	pkt := &kernels.HsaKernelDispatchPacket{}
	sx := op.Sx
	if sx <= 0 {
		sx = 1
	}
	rawWG := kernels.NewWorkGroup()
	rawWG.CodeObject, rawWG.Packet = co, pkt
	rawWG.SizeX, rawWG.SizeY, rawWG.SizeZ = sx, 1, 1
	b := protocol.MapWGReqBuilder{}.WithSrc(sim.RemotePort("ACE")).WithDst(w.cu.ToACE.AsRemote()).WithWG(rawWG)
	raws := make([]*kernels.Wavefront, len(op.Wfs))
	locs := make([]protocol.WfDispatchLocation, len(op.Wfs))
	for n, p := range op.Wfs {
		raw := kernels.NewWavefront()
		raw.CodeObject, raw.Packet, raw.WG = co, pkt, rawWG
		raw.FirstWiFlatID = 64 * n
		raw.InitExecMask = ^uint64(0)
		rawWG.Wavefronts = append(rawWG.Wavefronts, raw)
		raws[n] = raw
		locs[n] = protocol.WfDispatchLocation{Wavefront: raw, SIMDID: p.Simd, SGPROffset: p.Soff, VGPROffset: p.Voff}
		b = b.AddWf(locs[n])
	}
	req := b.Build()
	// what ComputeUnit.handleMapWGReq / wrapWG do with a MapWGReq
	wg := wavefront.NewWorkGroup(rawWG, req)
	for n, p := range op.Wfs {
		w.al[p.W] = alloc{op.Ns, op.Nv}
		// emulation: a fresh wavefront object
		ew := emu.NewWavefront(raws[n])
		w.emu.wfs[p.W] = ew
		w.emu.m0[p.W] = func() uint32 { return ew.M0 }
		w.emitAfter(w.emu, "D", ab.Rec{"w": p.W, "ns": op.Ns, "nv": op.Nv}, "", p.W)

		// timing: the real dispatcher places the wavefront
		tw := wavefront.NewWavefront(raws[n])
		tw.RegAccessor = &cu.CURegFileAccessor{CU: w.cu, WF: tw}
		wg.Wfs = append(wg.Wfs, tw)
		tw.WG = wg
		msg := guarded(func() {
			w.cu.WfPools[p.Simd].AddWf(tw)
			w.cu.WfDispatcher.DispatchWf(tw, locs[n])
			tw.State = wavefront.WfReady
		})
		w.tim.wfs[p.W] = tw
		w.tim.m0[p.W] = func() uint32 { return tw.M0 }
		w.twf[p.W] = tw
		f := ab.Rec{"w": p.W, "ns": op.Ns, "nv": op.Nv, "simd": p.Simd, "soff": p.Soff, "voff": p.Voff}
		init := w.emitAfter(w.tim, "D", f, msg, p.W)
		w.mirror(p.W, init)
	}
}

// mirror writes the registers the timing dispatcher initialised (init of the
// D line) into the emulation wavefront as ordinary logged writes, so that both
// stores hold the same values from here on.
func (w *world) mirror(id int, init [][]interface{}) {
	exec := false
	for _, e := range init {
		c, v := e[1].(int), e[2].([]int)
		switch {
		case c == 126 || c == 127:
			if !exec {
				exec = true
				tw := w.tim.wfs[id]
				w.write(w.emu, &Op{Op: "W", W: id, API: "SET", K: "execlo", C: 2, D: ints(le64(tw.EXEC()))})
			}
		case c >= 256:
			w.write(w.emu, &Op{Op: "W", W: id, API: "WB", K: "v", I: c % 256, C: 1, Lane: c/256 - 1, D: v})
		case c < 102:
			w.write(w.emu, &Op{Op: "W", W: id, API: "WB", K: "s", I: c, C: 1, D: v})
		}
	}
}

// rawFile is how the compute unit's own units (scalar / vector load return,
// dispatcher, ISA debugger) reach a wavefront's registers: the register file
// of the wavefront's SIMD with the wavefront's offset.
func (w *world) rawFile(op *Op) (cu.RegisterFile, int) {
	tw := w.twf[op.W]
	if op.K == "v" {
		return w.cu.VRegFile[tw.SIMDID], tw.VRegOffset
	}
	return w.cu.SRegFile, tw.SRegOffset
}

func (w *world) write(s *side, op *Op) {
	st, ok := s.wfs[op.W]
	if !ok {
		return
	}
	o := operand(op)
	d := bytesOf(op.D)
	api := op.API
	if api == "WF" && s == w.emu {
		api = "WB" // the emulator has no separate register-file interface
	}
	msg := guarded(func() {
		switch api {
		case "WF":
			rf, off := w.rawFile(op)
			rf.Write(cu.RegisterAccess{Reg: o.Register, RegCount: op.C, LaneID: op.Lane, WaveOffset: off, Data: d})
		case "WB":
			st.WriteOperandBytes(o, op.Lane, d)
		case "WO":
			st.WriteOperand(o, op.Lane, binary.LittleEndian.Uint64(d))
		case "SET":
			switch op.K {
			case "vcclo":
				st.SetVCC(binary.LittleEndian.Uint64(d))
			case "execlo":
				st.SetEXEC(binary.LittleEndian.Uint64(d))
			case "scc":
				st.SetSCC(d[0])
			}
		}
	})
	f := opFields(op)
	f["api"] = api
	f["d"] = op.D
	w.emitAfter(s, "W", f, msg, 0)
	w.emitHeld(s, false)
}

func (w *world) read(s *side, op *Op) {
	st, ok := s.wfs[op.W]
	if !ok {
		return
	}
	o := operand(op)
	var a []byte
	api, n := op.API, op.N
	if api == "RF" {
		n = 4 * len(op.D) // RF carries the operand width in dwords as len(d)
		if s == w.emu {
			api = "RB"
		}
	}
	msg := guarded(func() {
		switch api {
		case "RF":
			rf, off := w.rawFile(op)
			a = make([]byte, n)
			rf.Read(cu.RegisterAccess{Reg: o.Register, RegCount: op.C, LaneID: op.Lane, WaveOffset: off, Data: a})
		case "RB":
			a = st.ReadOperandBytes(o, op.Lane, n) // the returned slice itself is held
		case "RR":
			// the raw interface below the operand calls
			if ew, isEmu := st.(*emu.Wavefront); isEmu {
				a = ew.ReadReg(o.Register, op.C, op.Lane)
			} else {
				tw := w.twf[op.W]
				off := tw.SRegOffset
				if o.Register.IsVReg() {
					off = tw.VRegOffset
				}
				a = tw.RegAccessor.ReadReg(o.Register, op.C, op.Lane, off)
			}
		case "RO":
			a = le64(st.ReadOperand(o, op.Lane))
		case "GET":
			switch op.K {
			case "vcclo":
				a = le64(st.VCC())
			case "execlo":
				a = le64(st.EXEC())
			case "scc":
				a = []byte{st.SCC()}
			}
		}
	})
	f := opFields(op)
	f["api"] = api
	f["n"] = n
	f["a"] = ints(a) // what was returned, copied at the moment of the return
	before := w.rec.Seq
	w.emitAfter(s, "R", f, msg, 0)
	if msg == "" && w.rec.Seq == before+1 {
		s.held = append(s.held, heldAns{seq: w.rec.Seq, buf: a})
	}
	w.emitHeld(s, false)
}

// release ends a wavefront: the emulator drops the object; the timing compute
// unit's scheduler executes s_endpgm for it.
func (w *world) release(op *Op) {
	if _, ok := w.emu.wfs[op.W]; !ok {
		return
	}
	w.forget(w.emu, op.W)
	w.emitAfter(w.emu, "X", ab.Rec{"w": op.W}, "", 0)

	tw := w.twf[op.W]
	s := w.cu.Scheduler.(*cu.SchedulerImpl)
	msg := guarded(func() {
		tw.InstToIssue = wavefront.NewInst(w.endpgm)
		tw.State = wavefront.WfReady
		s.DoIssue()
		s.EvaluateInternalInst()
		for w.cu.ToACE.RetrieveOutgoing() != nil {
		}
	})
	if msg == "" && tw.State != wavefront.WfCompleted {
		msg = "s_endpgm did not complete the wavefront"
	}
	w.forget(w.tim, op.W)
	delete(w.twf, op.W)
	delete(w.al, op.W)
	w.emitAfter(w.tim, "X", ab.Rec{"w": op.W}, msg, 0)
}

func runScenario(rec *ab.Recorder, sc *Scenario) int {
	if len(sc.Life) > 0 {
		return runLife(rec, sc)
	}
	rec.Emit("Reset", ab.Rec{"sc": sc.ID})
	w := newWorld(rec)
	for i := range sc.Ops {
		op := &sc.Ops[i]
		switch op.Op {
		case "D":
			w.dispatch(op)
		case "W":
			w.write(w.emu, op)
			w.write(w.tim, op)
		case "R":
			w.read(w.emu, op)
			w.read(w.tim, op)
		case "X":
			w.release(op)
			w.emitHeld(w.emu, false)
			w.emitHeld(w.tim, false)
		}
	}
	w.emitHeld(w.emu, true)
	w.emitHeld(w.tim, true)
	return w.panics
}

func main() {
	scen := flag.String("scen", "", "scenario file (JSON list)")
	out := flag.String("out", "trace.ndjson", "trace output")
	flag.Parse()
	log.SetOutput(io.Discard) // the real code logs before it panics

	raw, err := os.ReadFile(*scen)
	if err != nil {
		fmt.Println("cannot read scenarios:", err)
		os.Exit(2)
	}
	var scs []Scenario
	if err := json.Unmarshal(raw, &scs); err != nil {
		fmt.Println("bad scenario file:", err)
		os.Exit(2)
	}
	f, err := os.Create(*out)
	if err != nil {
		fmt.Println(err)
		os.Exit(2)
	}
	bw := bufio.NewWriterSize(f, 1<<20)
	rec := ab.NewRecorder(bw)
	panics := 0
	for i := range scs {
		panics += runScenario(rec, &scs[i])
	}
	bw.Flush()
	f.Close()
	st, _ := json.Marshal(map[string]int{"scenarios": len(scs), "events": rec.Seq, "panics": panics})
	fmt.Println(string(st))
}
