package main

import (
	"bufio"
	"encoding/json"
	"fmt"
	"os"
	"os/exec"
	"path/filepath"
	"sort"
	"strings"
	"time"

	"github.com/sarchlab/akita/v4/simulation"
	"github.com/sarchlab/mgpusim/v4/amd/benchmarks/amdappsdk/matrixmultiplication"
	"github.com/sarchlab/mgpusim/v4/amd/benchmarks/amdappsdk/matrixtranspose"
	"github.com/sarchlab/mgpusim/v4/amd/benchmarks/amdappsdk/nbody"
	"github.com/sarchlab/mgpusim/v4/amd/benchmarks/rodinia/nw"
	"github.com/sarchlab/mgpusim/v4/amd/benchmarks/shoc/fft"
	"github.com/sarchlab/mgpusim/v4/amd/benchmarks/shoc/stencil2d"
	"github.com/sarchlab/mgpusim/v4/amd/driver"
	"github.com/sarchlab/mgpusim/v4/amd/emu"
	"github.com/sarchlab/mgpusim/v4/amd/kernels"
	"github.com/sarchlab/mgpusim/v4/amd/samples/runner/emusystem"
	"github.com/sarchlab/mgpusim/v4/amd/timing/cu"

	ab "verifharness/akitabench"
)

// Shipped kernels with barriers (compiled code, not hand-assembled): the benchmark's own host code
// runs against the emulation platform and the 1-CU r9nano timing platform; the CUs are observed as
// in the other modes.  The host code uses the blocking driver API, so the driver's engine goroutine
// runs the simulation here (events are logged from that goroutine only, Reset/Quiesce from this one
// while it is idle); a benchmark that does not return is an infrastructure error, never a verdict.

type shipped interface {
	SelectGPU([]int)
	Run()
	Verify()
}

func newShipped(name string, p []int, d *driver.Driver) shipped {
	arg := func(i, def int) int {
		if i < len(p) && p[i] > 0 {
			return p[i]
		}
		return def
	}
	switch name {
	case "matrixtranspose":
		b := matrixtranspose.NewBenchmark(d)
		b.Width = arg(0, 64)
		return b
	case "matrixmultiplication":
		b := matrixmultiplication.NewBenchmark(d)
		b.X, b.Y, b.Z = uint32(arg(0, 32)), uint32(arg(1, 32)), uint32(arg(2, 32))
		return b
	case "nw":
		b := nw.NewBenchmark(d)
		b.SetLength(arg(0, 64))
		return b
	case "fft":
		b := fft.NewBenchmark(d)
		b.Bytes, b.BytesMode, b.Passes = int64(arg(0, 16384)), true, int32(arg(1, 1))
		return b
	case "nbody":
		b := nbody.NewBenchmark(d)
		b.NumIterations, b.NumParticles = int32(arg(0, 1)), int32(arg(1, 256))
		return b
	case "stencil2d":
		b := stencil2d.NewBenchmark(d)
		b.NumIteration = arg(0, 1)
		b.NumRows, b.NumCols = arg(1, 64)+2, arg(2, 64)+2
		return b
	}
	panic("harness: unknown shipped benchmark " + name)
}

func (r *runner) benchRun(ce *caseEnv, idx int, timing bool, paths map[int][]string, refOK bool) (ok bool, outPaths map[int][]string) {
	sc := ce.sc
	mode := "emu"
	if timing {
		mode = "timing"
	}
	r.emit("Reset", ab.Rec{"mode": mode, "case": idx, "name": sc.Name, "level": "bench"})
	outPaths = map[int][]string{}
	if timing && refOK {
		ids := make([]int, 0, len(paths))
		for id := range paths {
			ids = append(ids, id)
		}
		sort.Ints(ids)
		for _, id := range ids {
			r.emit("Ref", ab.Rec{"w": id, "path": paths[id]})
		}
	}
	s := simulation.MakeBuilder().WithoutMonitoring().Build()
	var d *driver.Driver
	if timing {
		d = buildTimingPlatform(s)
	} else {
		emusystem.MakeBuilder().WithSimulation(s).WithNumGPUs(1).Build()
		d = s.GetComponentByName("Driver").(*driver.Driver)
	}
	launchOf := map[*kernels.HsaKernelDispatchPacket]int{}
	gOf := func(wg *kernels.WorkGroup) int {
		l, seen := launchOf[wg.Packet]
		if !seen {
			l = len(launchOf)
			launchOf[wg.Packet] = l
		}
		p := wg.Packet
		nx := (int(p.GridSizeX) + int(p.WorkgroupSizeX) - 1) / int(p.WorkgroupSizeX)
		ny := (int(p.GridSizeY) + int(p.WorkgroupSizeY) - 1) / int(p.WorkgroupSizeY)
		return l*65536 + wg.IDZ*ny*nx + wg.IDY*nx + wg.IDX + 1
	}
	o := newObs(r, func(raw *kernels.Wavefront) int { return gOf(raw.WG)*16 + raw.FirstWiFlatID/64 }, gOf)
	o.paths = outPaths
	mapped, done := 0, 0
	o.onMap = func(int) { mapped++ }
	o.onDone = func(int) { done++ }
	for _, comp := range s.Components() {
		switch u := comp.(type) {
		case *emu.ComputeUnit:
			o.attachEmu(u)
		case *cu.ComputeUnit:
			o.attachTiming(u)
		}
	}
	d.Run()
	finished := make(chan interface{}, 1)
	go func() {
		defer func() { finished <- recover() }()
		b := newShipped(sc.Bench, sc.BenchArgs, d)
		b.SelectGPU([]int{1})
		b.Run()
		b.Verify()
	}()
	var perr interface{}
	select {
	case perr = <-finished:
	case <-time.After(600 * time.Second):
		fmt.Println("INFRA: shipped benchmark", sc.Bench, "did not return within 600 s of wall time on", mode)
		os.Exit(3)
	}
	for i := 0; d.VerifEngineRunning(); i++ {
		if i > 60000 {
			fmt.Println("INFRA: engine still running 60 s after the benchmark returned")
			os.Exit(3)
		}
		time.Sleep(time.Millisecond)
	}
	d.Terminate()
	s.Terminate()
	if perr != nil {
		if timing {
			r.st.Panics++
		} else {
			r.st.EmuPanics++
		}
		r.emit("Panic", ab.Rec{"mode": mode, "msg": fmt.Sprint(perr)})
		return false, outPaths
	}
	r.emit("Quiesce", ab.Rec{"pending": mapped - done})
	return true, outPaths
}

func (r *runner) runBenchHere(ce *caseEnv, idx int) {
	fmt.Println("MODE emu")
	ok, paths := r.benchRun(ce, idx, false, nil, false)
	fmt.Println("MODE timing")
	r.benchRun(ce, idx, true, paths, ok)
}

// runBench runs the benchmark in a child process: the simulation runs in the driver's engine goroutine
// there, so a panic of the simulator cannot be recovered; the child's death is then logged as the
// Panic event of the run it was in.
func (r *runner) runBench(ce *caseEnv, idx int) {
	if r.child {
		r.runBenchHere(ce, idx)
		return
	}
	dir, err := os.MkdirTemp("", "c14bench")
	if err != nil {
		panic(err)
	}
	defer os.RemoveAll(dir)
	sf, tf := filepath.Join(dir, "scen.json"), filepath.Join(dir, "trace.ndjson")
	js, _ := json.Marshal([]*Scenario{ce.sc})
	if err := os.WriteFile(sf, js, 0o644); err != nil {
		panic(err)
	}
	self, err := os.Executable()
	if err != nil {
		panic(err)
	}
	cmd := exec.Command(self, "-child", "-case", fmt.Sprint(idx), "-scen", sf, "-out", tf)
	cmd.Dir = dir
	out, runErr := cmd.CombinedOutput()
	if code := cmd.ProcessState.ExitCode(); code == 3 {
		fmt.Print(string(out))
		os.Exit(3)
	}
	mode, msg := "emu", ""
	for _, l := range strings.Split(string(out), "\n") {
		if strings.HasPrefix(l, "MODE ") {
			mode = strings.TrimPrefix(l, "MODE ")
		}
		if i := strings.Index(strings.ToLower(l), "panic:"); msg == "" && i >= 0 {
			msg = strings.TrimSpace(l[i:])
		}
		if msg == "" && strings.HasPrefix(l, "fatal error:") {
			msg = l
		}
	}
	if runErr != nil {
		// the trace the child wrote is lost with its buffer: what is known is that the real code panicked in this run
		if msg == "" {
			fmt.Println("INFRA: benchmark child process failed without a Go panic:", runErr, string(out[max(0, len(out)-600):]))
			os.Exit(3)
		}
		if mode == "timing" {
			r.st.Panics++
		} else {
			r.st.EmuPanics++
		}
		r.emit("Reset", ab.Rec{"mode": mode, "case": idx, "name": ce.sc.Name, "level": "bench"})
		r.emit("Panic", ab.Rec{"mode": mode, "msg": msg})
		return
	}
	f, err := os.Open(tf)
	if err != nil {
		panic(err)
	}
	defer f.Close()
	scan := bufio.NewScanner(f)
	scan.Buffer(make([]byte, 1<<20), 1<<26)
	for scan.Scan() {
		rec := ab.Rec{}
		if err := json.Unmarshal(scan.Bytes(), &rec); err != nil {
			panic(err)
		}
		e, _ := rec["e"].(string)
		delete(rec, "e")
		delete(rec, "seq")
		switch e {
		case "Issue":
			r.st.Insts++
			switch rec["k"] {
			case "bar":
				if rec["ov"] != nil {
					r.st.Barriers++
				}
			case "wait":
				if rec["ov"] != nil {
					r.st.Waits++
				}
			case "vmem", "smem":
				if rec["ov"] != nil {
					r.st.MemOps++
				}
			}
		case "MapWG":
			r.st.WGs++
		}
		r.emit(e, rec)
	}
}
