package main

import (
	"github.com/sarchlab/akita/v4/mem/mem"
	"github.com/sarchlab/akita/v4/sim"
	"github.com/sarchlab/akita/v4/tracing"
	"github.com/sarchlab/mgpusim/v4/amd/emu"
	"github.com/sarchlab/mgpusim/v4/amd/insts"
	"github.com/sarchlab/mgpusim/v4/amd/kernels"
	"github.com/sarchlab/mgpusim/v4/amd/protocol"
	"github.com/sarchlab/mgpusim/v4/amd/sampling"
	"github.com/sarchlab/mgpusim/v4/amd/timing/cu"
	"github.com/sarchlab/mgpusim/v4/amd/timing/wavefront"

	ab "verifharness/akitabench"
)

// obs turns what the real compute units expose (tracing tasks, the emulation CU's instruction hook,
// port hooks) into trace events.  It never invents state: every event is one hook invocation.
type obs struct {
	r      *runner
	wfIDOf func(raw *kernels.Wavefront) int
	gOf    func(wg *kernels.WorkGroup) int
	onDone func(g int)
	onMap  func(g int)
	paths  map[int][]string // emulation: instruction path per wavefront

	open    map[string]*openInst
	instNo  map[string]int // inst task id -> small id (kept after the end for request lookups)
	wfTask  map[string]int
	wfPtr   map[int]*wavefront.Wavefront
	reqG    map[string]int // MapWGReq id -> group
	reqInfo map[string]*reqRec
	nid     int
	nreq    int
}

type openInst struct {
	id, w int
	k     string
	wf    *wavefront.Wavefront
}

type reqRec struct {
	q      string
	rid    int
	instID int
	w      int
	last   bool
}

func newObs(r *runner, wfIDOf func(*kernels.Wavefront) int, gOf func(*kernels.WorkGroup) int) *obs {
	return &obs{r: r, wfIDOf: wfIDOf, gOf: gOf, onDone: func(int) {}, onMap: func(int) {},
		open: map[string]*openInst{}, instNo: map[string]int{}, wfTask: map[string]int{},
		wfPtr: map[int]*wavefront.Wavefront{}, reqG: map[string]int{}, reqInfo: map[string]*reqRec{}}
}

func counters(wf *wavefront.Wavefront) (int, int) {
	if wf == nil {
		return -1, -1
	}
	return wf.OutstandingVectorMemAccess, wf.OutstandingScalarMemAccess
}

// ---- tracing.Tracer
func (o *obs) StartTask(task tracing.Task) {
	r := o.r
	switch task.Kind {
	case "inst":
		d, _ := task.Detail.(map[string]interface{})
		in, _ := d["inst"].(*wavefront.Inst)
		wf, _ := d["wf"].(*wavefront.Wavefront)
		if in == nil || wf == nil {
			panic("harness: inst task without inst/wf detail")
		}
		w := o.wfIDOf(wf.Wavefront)
		o.wfPtr[w] = wf
		k, v, s := kindOf(in.Inst)
		o.nid++
		o.instNo[task.ID] = o.nid
		o.open[task.ID] = &openInst{id: o.nid, w: w, k: k, wf: wf}
		r.st.Insts++
		switch k {
		case "bar":
			r.st.Barriers++
		case "wait":
			r.st.Waits++
		case "vmem", "smem":
			r.st.MemOps++
		}
		ov, os := counters(wf)
		r.emit("Issue", ab.Rec{"w": w, "id": o.nid, "k": k, "v": v, "s": s,
			"pc": int(wf.PC() - wf.Packet.KernelObject), "ov": ov, "os": os})
	case "wavefront":
		o.wfTask[task.ID] = 0 // resolved at the end: the task id is the wavefront's UID
	}
}

func (o *obs) StepTask(task tracing.Task)       {}
func (o *obs) AddMilestone(m tracing.Milestone) {}

func (o *obs) EndTask(task tracing.Task) {
	r := o.r
	if oi, ok := o.open[task.ID]; ok {
		delete(o.open, task.ID)
		if oi.k == "bar" || oi.k == "end" {
			return // when these tasks end says nothing the property speaks about
		}
		ov, os := counters(oi.wf)
		r.emit("InstEnd", ab.Rec{"w": oi.w, "id": oi.id, "k": oi.k, "ov": ov, "os": os})
		return
	}
	if _, seen := o.instNo[task.ID]; seen {
		r.st.DupEnds++
		return
	}
	if _, ok := o.wfTask[task.ID]; ok {
		delete(o.wfTask, task.ID)
		for w, wf := range o.wfPtr {
			if wf.UID == task.ID {
				ov, os := counters(wf)
				r.emit("WfEnd", ab.Rec{"w": w, "ov": ov, "os": os})
				return
			}
		}
		// a sampled wavefront never issues an instruction: its end is the WfCompletionEvent (SampledEnd)
		return
	}
}

func (o *obs) dispatchHook(isEmu bool) sim.Hook {
	r := o.r
	return ab.HookFn(func(ctx sim.HookCtx) {
		switch m := ctx.Item.(type) {
		case *protocol.MapWGReq:
			if ctx.Pos == sim.HookPosPortMsgRetrieveIncoming {
				g := o.gOf(m.WorkGroup)
				o.reqG[m.ID] = g
				wfs := make([]int, len(m.WorkGroup.Wavefronts))
				for i, wf := range m.WorkGroup.Wavefronts {
					wfs[i] = o.wfIDOf(wf)
				}
				r.st.WGs++
				o.onMap(g)
				rec := ab.Rec{"g": g, "wfs": wfs}
				if !isEmu && *sampling.SampledRunnerFlag && sampling.SampledEngineInstance != nil {
					if _, on := sampling.SampledEngineInstance.Predict(); on {
						rec["sampled"] = 1
					}
				}
				r.emit("MapWG", rec)
			}
		case *protocol.WGCompletionMsg:
			switch ctx.Pos {
			case sim.HookPosPortMsgSend:
				for _, id := range m.RspTo {
					g := o.reqG[id]
					if g != 0 {
						o.onDone(g)
					}
					r.emit("WGDone", ab.Rec{"g": g})
				}
			case sim.HookPosPortMsgRetrieveOutgoing:
				for range m.RspTo {
					r.emit("AceTake", ab.Rec{})
				}
			}
		}
	})
}

func (o *obs) memHook(q string, lookup func(string) (int, int, bool, bool)) sim.Hook {
	r := o.r
	return ab.HookFn(func(ctx sim.HookCtx) {
		switch m := ctx.Item.(type) {
		case mem.AccessReq:
			if ctx.Pos == sim.HookPosPortMsgSend {
				w, id, last, ok := lookup(m.Meta().ID)
				if !ok {
					panic("harness: memory request without in-flight record")
				}
				o.nreq++
				o.reqInfo[m.Meta().ID] = &reqRec{q: q, rid: o.nreq, instID: id, w: w, last: last}
				r.emit("MemReq", ab.Rec{"q": q, "r": o.nreq, "w": w, "id": id, "last": b2i(last)})
			}
		case mem.AccessRsp:
			if ctx.Pos == sim.HookPosPortMsgRetrieveIncoming {
				ri := o.reqInfo[m.GetRspTo()]
				if ri == nil {
					panic("harness: response to an unknown request")
				}
				r.emit("MemRsp", ab.Rec{"q": q, "r": ri.rid, "w": ri.w, "id": ri.instID, "last": b2i(ri.last)})
			}
		}
	})
}

// attachTiming observes a timing compute unit.
func (o *obs) attachTiming(u *cu.ComputeUnit) {
	tracing.CollectTrace(u, o)
	lookupV := func(id string) (int, int, bool, bool) {
		for _, info := range u.InFlightVectorMemAccess {
			if (info.Read != nil && info.Read.ID == id) || (info.Write != nil && info.Write.ID == id) {
				last := (info.Read != nil && !info.Read.CanWaitForCoalesce) || (info.Write != nil && !info.Write.CanWaitForCoalesce)
				return o.wfIDOf(info.Wavefront.Wavefront), o.instNo[info.Inst.ID], last, true
			}
		}
		return 0, 0, false, false
	}
	lookupS := func(id string) (int, int, bool, bool) {
		for _, info := range u.InFlightScalarMemAccess {
			if info.Req != nil && info.Req.ID == id {
				return o.wfIDOf(info.Wavefront.Wavefront), o.instNo[info.Inst.ID], !info.Req.CanWaitForCoalesce, true
			}
		}
		return 0, 0, false, false
	}
	u.ToVectorMem.AcceptHook(o.memHook("v", lookupV))
	u.ToScalarMem.AcceptHook(o.memHook("s", lookupS))
	u.ToACE.AcceptHook(o.dispatchHook(false))
	u.AcceptHook(ab.HookFn(func(ctx sim.HookCtx) {
		if evt, ok := ctx.Item.(*wavefront.WfCompletionEvent); ok && ctx.Pos == sim.HookPosBeforeEvent {
			o.r.emit("SampledEnd", ab.Rec{"w": o.wfIDOf(evt.Wf.Wavefront)})
		}
	}))
}

// attachEmu observes an emulation compute unit: one hook call per executed instruction.
func (o *obs) attachEmu(u *emu.ComputeUnit) {
	r := o.r
	u.AcceptHook(ab.HookFn(func(ctx sim.HookCtx) {
		wf, isWf := ctx.Item.(*emu.Wavefront)
		in, isIn := ctx.Detail.(*insts.Inst)
		if !isWf || !isIn {
			return
		}
		w := o.wfIDOf(wf.Wavefront)
		k, v, s := kindOf(in)
		o.nid++
		nid := o.nid
		if o.paths != nil {
			o.paths[w] = append(o.paths[w], kindStr(k, v, s))
		}
		r.st.Insts++
		// the hook runs after the instruction: PC is already past it (a taken branch makes this the target; only logged)
		r.emit("Issue", ab.Rec{"w": w, "id": nid, "k": k, "v": v, "s": s, "pc": int(wf.PC() - wf.Packet.KernelObject)})
		switch k {
		case "vmem", "smem":
			q := "v"
			if k == "smem" {
				q = "s"
			}
			r.emit("MemReq", ab.Rec{"q": q, "r": nid, "w": w, "id": nid, "last": 1})
			r.emit("MemRsp", ab.Rec{"q": q, "r": nid, "w": w, "id": nid, "last": 1})
			r.emit("InstEnd", ab.Rec{"w": w, "id": nid, "k": k, "ov": 0, "os": 0})
		case "alu", "wait":
			r.emit("InstEnd", ab.Rec{"w": w, "id": nid, "k": k, "ov": 0, "os": 0})
		case "end":
			r.emit("WfEnd", ab.Rec{"w": w, "ov": 0, "os": 0})
		}
	}))
	u.ToDispatcher.AcceptHook(o.dispatchHook(true))
}
