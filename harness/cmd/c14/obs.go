package main

import (
	"bytes"
	"reflect"
	"unsafe"

	"github.com/sarchlab/akita/v4/mem/mem"
	"github.com/sarchlab/akita/v4/sim"
	"github.com/sarchlab/akita/v4/tracing"
	"github.com/sarchlab/mgpusim/v4/amd/emu"
	"github.com/sarchlab/mgpusim/v4/amd/insts"
	"github.com/sarchlab/mgpusim/v4/amd/kernels"
	"github.com/sarchlab/mgpusim/v4/amd/protocol"
	"github.com/sarchlab/mgpusim/v4/amd/sampling"
	"github.com/sarchlab/mgpusim/v4/amd/timing/cu"
	"github.com/sarchlab/mgpusim/v4/amd/timing/wavefront"

	ab "verifharness/akitabench"
)

// obs turns what the real compute units expose (tracing tasks, the emulation CU's instruction hook,
// port hooks) into trace events.  It never invents state: every event is one hook invocation.
type obs struct {
	r      *runner
	wfIDOf func(raw *kernels.Wavefront) int
	gOf    func(wg *kernels.WorkGroup) int
	onDone func(g int)
	onMap  func(g int)
	paths  map[int][]string // emulation: instruction path per wavefront
	pcs    map[int][]int    // emulation: address (relative to the kernel) of every executed instruction per wavefront
	nextPC map[int]int

	// front-end observation (scenario flag "fe"): fetch events, issue-time facts, every task end
	fe      bool
	cu      *cu.ComputeUnit
	code    func(k *kernels.Wavefront, pc uint64, n int) []byte // the code bytes at pc in the harness image
	all     map[int]*wavefront.Wavefront                        // every wavefront seen, by trace id
	refLen  map[int]int // timing: length of the reference path per wavefront (nil: no reference)
	nIssued map[int]int
	runaway bool
	dispSeq map[int]int                                         // trace id -> position in dispatch (pool) order
	ndisp   int
	ends    map[string]int
	fetchW  map[string]int
	fetchA  map[string]int

	open    map[string]*openInst
	instNo  map[string]int // inst task id -> small id (kept after the end for request lookups)
	wfTask  map[string]int
	wfPtr   map[int]*wavefront.Wavefront
	reqG    map[string]int // MapWGReq id -> group
	reqInfo map[string]*reqRec
	nid     int
	nreq    int
}

type openInst struct {
	id, w int
	k     string
	wf    *wavefront.Wavefront
}

type reqRec struct {
	q      string
	rid    int
	instID int
	w      int
	last   bool
}

func newObs(r *runner, wfIDOf func(*kernels.Wavefront) int, gOf func(*kernels.WorkGroup) int) *obs {
	return &obs{r: r, wfIDOf: wfIDOf, gOf: gOf, onDone: func(int) {}, onMap: func(int) {},
		pcs: map[int][]int{}, nextPC: map[int]int{}, all: map[int]*wavefront.Wavefront{}, dispSeq: map[int]int{}, nIssued: map[int]int{},
		ends: map[string]int{}, fetchW: map[string]int{}, fetchA: map[string]int{},
		open: map[string]*openInst{}, instNo: map[string]int{}, wfTask: map[string]int{},
		wfPtr: map[int]*wavefront.Wavefront{}, reqG: map[string]int{}, reqInfo: map[string]*reqRec{}}
}

func counters(wf *wavefront.Wavefront) (int, int) {
	if wf == nil {
		return -1, -1
	}
	return wf.OutstandingVectorMemAccess, wf.OutstandingScalarMemAccess
}

// ---- tracing.Tracer
func (o *obs) StartTask(task tracing.Task) {
	r := o.r
	switch task.Kind {
	case "inst":
		d, _ := task.Detail.(map[string]interface{})
		in, _ := d["inst"].(*wavefront.Inst)
		wf, _ := d["wf"].(*wavefront.Wavefront)
		if in == nil || wf == nil {
			panic("harness: inst task without inst/wf detail")
		}
		w := o.wfIDOf(wf.Wavefront)
		o.wfPtr[w] = wf
		k, v, s := kindOf(in.Inst)
		o.nid++
		o.instNo[task.ID] = o.nid
		o.open[task.ID] = &openInst{id: o.nid, w: w, k: k, wf: wf}
		r.st.Insts++
		switch k {
		case "bar":
			r.st.Barriers++
		case "wait":
			r.st.Waits++
		case "vmem", "smem":
			r.st.MemOps++
		}
		ov, os := counters(wf)
		if o.refLen != nil {
			o.nIssued[w]++
			if n, ok := o.refLen[w]; ok && o.nIssued[w] > n+4 {
				o.runaway = true
			}
		}
		rec := ab.Rec{"w": w, "id": o.nid, "k": k, "v": v, "s": s,
			"pc": int(wf.PC() - wf.Packet.KernelObject), "ov": ov, "os": os}
		if o.fe {
			o.all[w] = wf
			o.issueFacts(rec, wf, in)
		}
		r.emit("Issue", rec)
	case "fetch":
		if o.fe {
			o.fetchStart(task)
		}
	case "wavefront":
		o.wfTask[task.ID] = 0 // resolved at the end: the task id is the wavefront's UID
	}
}

func (o *obs) StepTask(task tracing.Task)       {}
func (o *obs) AddMilestone(m tracing.Milestone) {}

func (o *obs) EndTask(task tracing.Task) {
	r := o.r
	if o.fe {
		if id, isInst := o.instNo[task.ID]; isInst {
			o.ends[task.ID]++
			oi := o.open[task.ID]
			w, k := 0, ""
			if oi != nil {
				w, k = oi.w, oi.k
			}
			r.emit("Retire", ab.Rec{"id": id, "w": w, "k": k, "n": o.ends[task.ID]})
		}
		if w, isFetch := o.fetchW[task.ID]; isFetch {
			wf := o.all[w]
			bufok := 1
			if want := o.code(wf.Wavefront, wf.InstBufferStartPC, len(wf.InstBuffer)); !bytes.Equal(want, wf.InstBuffer) {
				bufok = 0
			}
			r.emit("FetchRsp", ab.Rec{"w": w, "a": o.fetchA[task.ID], "start": int(wf.InstBufferStartPC - wf.Packet.KernelObject),
				"blen": len(wf.InstBuffer), "bufok": bufok})
			delete(o.fetchW, task.ID)
		}
	}
	if oi, ok := o.open[task.ID]; ok {
		delete(o.open, task.ID)
		if oi.k == "bar" || oi.k == "end" {
			return // when these tasks end says nothing the property speaks about
		}
		ov, os := counters(oi.wf)
		r.emit("InstEnd", ab.Rec{"w": oi.w, "id": oi.id, "k": oi.k, "ov": ov, "os": os})
		return
	}
	if _, seen := o.instNo[task.ID]; seen {
		r.st.DupEnds++
		return
	}
	if _, ok := o.wfTask[task.ID]; ok {
		delete(o.wfTask, task.ID)
		for w, wf := range o.wfPtr {
			if wf.UID == task.ID {
				ov, os := counters(wf)
				r.emit("WfEnd", ab.Rec{"w": w, "ov": ov, "os": os})
				return
			}
		}
		// a sampled wavefront never issues an instruction: its end is the WfCompletionEvent (SampledEnd)
		return
	}
}

func (o *obs) dispatchHook(isEmu bool) sim.Hook {
	r := o.r
	return ab.HookFn(func(ctx sim.HookCtx) {
		switch m := ctx.Item.(type) {
		case *protocol.MapWGReq:
			if ctx.Pos == sim.HookPosPortMsgRetrieveIncoming {
				g := o.gOf(m.WorkGroup)
				o.reqG[m.ID] = g
				wfs := make([]int, len(m.WorkGroup.Wavefronts))
				for i, wf := range m.WorkGroup.Wavefronts {
					wfs[i] = o.wfIDOf(wf)
				}
				r.st.WGs++
				for _, id := range wfs {
					o.ndisp++
					o.dispSeq[id] = o.ndisp
				}
				o.onMap(g)
				rec := ab.Rec{"g": g, "wfs": wfs}
				if !isEmu && *sampling.SampledRunnerFlag && sampling.SampledEngineInstance != nil {
					if _, on := sampling.SampledEngineInstance.Predict(); on {
						rec["sampled"] = 1
					}
				}
				r.emit("MapWG", rec)
			}
		case *protocol.WGCompletionMsg:
			switch ctx.Pos {
			case sim.HookPosPortMsgSend:
				// the message as it was accepted by the port: the groups its RspTo list names, in order
				ids := make([]int, len(m.RspTo))
				for i, id := range m.RspTo {
					ids[i] = o.reqG[id]
				}
				r.emit("WGMsg", ab.Rec{"ids": ids})
				for _, id := range m.RspTo {
					g := o.reqG[id]
					if g != 0 {
						o.onDone(g)
					}
					r.emit("WGDone", ab.Rec{"g": g})
				}
			case sim.HookPosPortMsgRetrieveOutgoing:
				for range m.RspTo {
					r.emit("AceTake", ab.Rec{})
				}
			}
		}
	})
}

func (o *obs) memHook(q string, lookup func(string) (int, int, bool, bool)) sim.Hook {
	r := o.r
	return ab.HookFn(func(ctx sim.HookCtx) {
		switch m := ctx.Item.(type) {
		case mem.AccessReq:
			if ctx.Pos == sim.HookPosPortMsgSend {
				w, id, last, ok := lookup(m.Meta().ID)
				if !ok {
					panic("harness: memory request without in-flight record")
				}
				o.nreq++
				o.reqInfo[m.Meta().ID] = &reqRec{q: q, rid: o.nreq, instID: id, w: w, last: last}
				r.emit("MemReq", ab.Rec{"q": q, "r": o.nreq, "w": w, "id": id, "last": b2i(last)})
			}
		case mem.AccessRsp:
			if ctx.Pos == sim.HookPosPortMsgRetrieveIncoming {
				ri := o.reqInfo[m.GetRspTo()]
				if ri == nil {
					panic("harness: response to an unknown request")
				}
				r.emit("MemRsp", ab.Rec{"q": q, "r": ri.rid, "w": ri.w, "id": ri.instID, "last": b2i(ri.last)})
			}
		}
	})
}

// attachTiming observes a timing compute unit.
func (o *obs) attachTiming(u *cu.ComputeUnit) {
	tracing.CollectTrace(u, o)
	lookupV := func(id string) (int, int, bool, bool) {
		for _, info := range u.InFlightVectorMemAccess {
			if (info.Read != nil && info.Read.ID == id) || (info.Write != nil && info.Write.ID == id) {
				last := (info.Read != nil && !info.Read.CanWaitForCoalesce) || (info.Write != nil && !info.Write.CanWaitForCoalesce)
				return o.wfIDOf(info.Wavefront.Wavefront), o.instNo[info.Inst.ID], last, true
			}
		}
		return 0, 0, false, false
	}
	lookupS := func(id string) (int, int, bool, bool) {
		for _, info := range u.InFlightScalarMemAccess {
			if info.Req != nil && info.Req.ID == id {
				return o.wfIDOf(info.Wavefront.Wavefront), o.instNo[info.Inst.ID], !info.Req.CanWaitForCoalesce, true
			}
		}
		return 0, 0, false, false
	}
	u.ToVectorMem.AcceptHook(o.memHook("v", lookupV))
	u.ToScalarMem.AcceptHook(o.memHook("s", lookupS))
	u.ToACE.AcceptHook(o.dispatchHook(false))
	u.AcceptHook(ab.HookFn(func(ctx sim.HookCtx) {
		if evt, ok := ctx.Item.(*wavefront.WfCompletionEvent); ok && ctx.Pos == sim.HookPosBeforeEvent {
			o.r.emit("SampledEnd", ab.Rec{"w": o.wfIDOf(evt.Wf.Wavefront)})
		}
	}))
}

// attachEmu observes an emulation compute unit: one hook call per executed instruction.
func (o *obs) attachEmu(u *emu.ComputeUnit) {
	r := o.r
	u.AcceptHook(ab.HookFn(func(ctx sim.HookCtx) {
		wf, isWf := ctx.Item.(*emu.Wavefront)
		in, isIn := ctx.Detail.(*insts.Inst)
		if !isWf || !isIn {
			return
		}
		w := o.wfIDOf(wf.Wavefront)
		k, v, s := kindOf(in)
		o.nid++
		nid := o.nid
		if o.paths != nil {
			o.paths[w] = append(o.paths[w], kindStr(k, v, s))
			o.pcs[w] = append(o.pcs[w], o.nextPC[w]) // the first instruction is at the kernel's entry (offset 0)
			o.nextPC[w] = int(wf.PC() - wf.Packet.KernelObject)
		}
		r.st.Insts++
		// the hook runs after the instruction: PC is already past it (a taken branch makes this the target; only logged)
		r.emit("Issue", ab.Rec{"w": w, "id": nid, "k": k, "v": v, "s": s, "pc": int(wf.PC() - wf.Packet.KernelObject)})
		switch k {
		case "vmem", "smem":
			q := "v"
			if k == "smem" {
				q = "s"
			}
			r.emit("MemReq", ab.Rec{"q": q, "r": nid, "w": w, "id": nid, "last": 1})
			r.emit("MemRsp", ab.Rec{"q": q, "r": nid, "w": w, "id": nid, "last": 1})
			r.emit("InstEnd", ab.Rec{"w": w, "id": nid, "k": k, "ov": 0, "os": 0})
		case "alu", "wait":
			r.emit("InstEnd", ab.Rec{"w": w, "id": nid, "k": k, "ov": 0, "os": 0})
		case "end":
			r.emit("WfEnd", ab.Rec{"w": w, "ov": 0, "os": 0})
		}
	}))
	u.ToDispatcher.AcceptHook(o.dispatchHook(true))
}

func unitClass(u insts.ExeUnit) string {
	switch u {
	case insts.ExeUnitVALU:
		return "V"
	case insts.ExeUnitScalar:
		return "S"
	case insts.ExeUnitVMem:
		return "M"
	case insts.ExeUnitBranch:
		return "B"
	case insts.ExeUnitLDS:
		return "L"
	case insts.ExeUnitSpecial:
		return "I"
	}
	return "?"
}

func (o *obs) unitOf(u insts.ExeUnit) cu.SubComponent {
	switch u {
	case insts.ExeUnitVALU:
		return o.cu.VectorDecoder
	case insts.ExeUnitScalar:
		return o.cu.ScalarDecoder
	case insts.ExeUnitVMem:
		return o.cu.VectorMemDecoder
	case insts.ExeUnitBranch:
		return o.cu.BranchUnit
	case insts.ExeUnitLDS:
		return o.cu.LDSDecoder
	}
	return nil
}

func (o *obs) cycle() int { return int(float64(o.cu.Engine.CurrentTime())*1e9 + 0.5) }

// issueFacts adds what the real objects say at the moment the instruction is issued: the cycle, the SIMD, the unit
// class, whether the unit accepts a wavefront, whether the bytes the instruction buffer holds at PC are the code
// bytes at PC, and for every wavefront of the same SIMD (pool order) whether it could have been issued instead.
func (o *obs) issueFacts(rec ab.Rec, wf *wavefront.Wavefront, in *wavefront.Inst) {
	rec["t"], rec["simd"], rec["cls"] = o.cycle(), wf.SIMDID, unitClass(in.ExeUnit)
	rec["size"], rec["fmt"], rec["opc"] = in.ByteSize, int(in.FormatType), int(in.Opcode)
	rec["simm"] = 0
	if in.FormatType == insts.SOPP && in.SImm16 != nil {
		rec["simm"] = int(int16(uint16(in.SImm16.IntValue)))
	}
	can := 1
	if u := o.unitOf(in.ExeUnit); u != nil && !u.CanAcceptWave() {
		can = 0
	}
	rec["can"] = can
	off := wf.PC() - wf.InstBufferStartPC
	ibok := 0
	if wf.PC() >= wf.InstBufferStartPC && off+uint64(in.ByteSize) <= uint64(len(wf.InstBuffer)) {
		want := o.code(wf.Wavefront, wf.PC(), in.ByteSize)
		ibok = 1
		for i := 0; i < in.ByteSize; i++ {
			if wf.InstBuffer[int(off)+i] != want[i] {
				ibok = 0
			}
		}
	}
	rec["ibok"] = ibok
	rec["start"], rec["blen"] = int(wf.InstBufferStartPC-wf.Packet.KernelObject), len(wf.InstBuffer)
	pool := [][]interface{}{}
	older := 1
	for _, x := range o.poolWfs(wf.SIMDID) {
		if x == wf {
			older = 0
			continue
		}
		c := ""
		if x.InstToIssue != nil {
			c = unitClass(x.InstToIssue.ExeUnit)
		}
		pool = append(pool, []interface{}{o.wfIDOf(x.Wavefront), b2i(x.State == wavefront.WfReady), c, older})
	}
	rec["pool"] = pool
	rec["rr"] = o.lastSIMD()
}

// poolWfs reads the (private) wavefront list of one SIMD's pool of the real CU, in pool order.
func (o *obs) poolWfs(simd int) []*wavefront.Wavefront {
	f := reflect.ValueOf(o.cu.WfPools[simd]).Elem().FieldByName("wfs")
	return *(*[]*wavefront.Wavefront)(unsafe.Pointer(f.UnsafeAddr()))
}

// lastSIMD reads the issue arbiter's private round-robin pointer (the SIMD the NEXT arbitration starts with; the arbitration
// that chose the instruction being issued started one before it); -1 when the field cannot be found.
func (o *obs) lastSIMD() (rr int) {
	defer func() {
		if recover() != nil {
			rr = -1
		}
	}()
	v := reflect.ValueOf(o.cu.Scheduler)
	for v.Kind() == reflect.Interface || v.Kind() == reflect.Ptr {
		v = v.Elem()
	}
	a := v.FieldByName("issueArbiter")
	for a.Kind() == reflect.Interface || a.Kind() == reflect.Ptr {
		a = a.Elem()
	}
	return int(a.FieldByName("lastSIMDID").Int())
}

// fetchStart: the scheduler sent an instruction fetch (tracing task "fetch", parent = the wavefront's UID; the request is
// the newest entry of InFlightInstFetch).
func (o *obs) fetchStart(task tracing.Task) {
	n := len(o.cu.InFlightInstFetch)
	if n == 0 {
		panic("harness: fetch task without in-flight fetch record")
	}
	info := o.cu.InFlightInstFetch[n-1]
	wf := info.Wavefront
	w := o.wfIDOf(wf.Wavefront)
	o.all[w] = wf
	a := int(info.Address - wf.Packet.KernelObject)
	o.fetchW[task.ID], o.fetchA[task.ID] = w, a
	all := [][]int{}
	for simd := range o.cu.WfPools {
		for _, x := range o.poolWfs(simd) {
			fetching := x.IsFetching
			if x == wf {
				fetching = false // it was not fetching when the arbiter chose it
			}
			all = append(all, []int{o.wfIDOf(x.Wavefront), b2i(fetching), b2i(x.State == wavefront.WfCompleted), len(x.InstBuffer),
				int(float64(x.LastFetchTime)*1e9 + 0.5)})
		}
	}
	o.r.emit("Fetch", ab.Rec{"t": o.cycle(), "w": w, "a": a, "pc": int(wf.PC() - wf.Packet.KernelObject),
		"start": int(wf.InstBufferStartPC - wf.Packet.KernelObject), "blen": len(wf.InstBuffer), "all": all})
}
