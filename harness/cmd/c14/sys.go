package main

import (
	"fmt"
	"hash/crc32"

	"github.com/sarchlab/akita/v4/mem/mem"
	"github.com/sarchlab/akita/v4/mem/vm"
	"github.com/sarchlab/akita/v4/mem/vm/mmu"
	"github.com/sarchlab/akita/v4/noc/networking/pcie"
	"github.com/sarchlab/akita/v4/sim"
	"github.com/sarchlab/akita/v4/simulation"
	"github.com/sarchlab/mgpusim/v4/amd/driver"
	"github.com/sarchlab/mgpusim/v4/amd/emu"
	"github.com/sarchlab/mgpusim/v4/amd/kernels"
	"github.com/sarchlab/mgpusim/v4/amd/samples/runner/emusystem"
	"github.com/sarchlab/mgpusim/v4/amd/samples/runner/timingconfig/r9nano"
	"github.com/sarchlab/mgpusim/v4/amd/timing/cu"

	ab "verifharness/akitabench"
	"verifharness/c14asm"
)

// System level: the kernel goes through Driver -> command processor -> dispatcher -> compute unit
// of platforms assembled by the public builders.  The timing platform is the r9nano GPU with one
// shader array of one compute unit (so that every work-group shares the CU), wired to driver, MMU
// and PCIe exactly as timingconfig.Builder does.  The harness owns the engine: the commands are
// enqueued, the driver is ticked once and Engine.Run() returns when no event is left; a command
// still in the queue at that point is a hang.

type sysArgs struct {
	Comm driver.Ptr
	Out  driver.Ptr
	C    uint32
	Pad  uint32
}

const sysMem = 4 * mem.GB

func buildTimingPlatform(s *simulation.Simulation) *driver.Driver {
	pageTable := vm.NewPageTable(12)
	mmuComp := mmu.MakeBuilder().WithEngine(s.GetEngine()).WithFreq(1 * sim.GHz).
		WithPageWalkingLatency(100).WithLog2PageSize(12).WithPageTable(pageTable).Build("MMU")
	s.RegisterComponent(mmuComp)
	storage := mem.NewStorage(2 * sysMem)
	d := driver.MakeBuilder().WithEngine(s.GetEngine()).WithPageTable(pageTable).WithLog2PageSize(12).
		WithGlobalStorage(storage).WithD2HCycles(300).WithH2DCycles(500).Build("Driver")
	s.RegisterComponent(d)
	rdmaMapper := new(mem.BankedAddressPortMapper)
	rdmaMapper.BankSize = sysMem
	rdmaMapper.LowModules = append(rdmaMapper.LowModules, sim.RemotePort("CPU"))
	gb := r9nano.MakeBuilder().WithSimulation(s).WithMMU(mmuComp).WithLog2PageSize(12).WithGlobalStorage(storage).
		WithNumCUPerShaderArray(1).WithNumShaderArray(1)
	conn := pcie.NewConnector().WithEngine(s.GetEngine()).WithVersion(4, 16).WithSwitchLatency(140)
	conn.CreateNetwork("PCIe")
	root := conn.AddRootComplex([]sim.Port{d.GetPortByName("GPU"), d.GetPortByName("MMU"),
		mmuComp.GetPortByName("Migration"), mmuComp.GetPortByName("Top")})
	mmuComp.MigrationServiceProvider = d.GetPortByName("MMU").AsRemote()
	sw := conn.AddSwitch(root)
	gpu := gb.WithGPUID(1).WithMemAddrOffset(sysMem).WithRDMAAddressMapper(rdmaMapper).Build("GPU[1]")
	d.RegisterGPU(gpu.GetPortByName("CommandProcessor"), driver.DeviceProperties{CUCount: 1, DRAMSize: sysMem})
	rdmaMapper.LowModules = append(rdmaMapper.LowModules, gpu.GetPortByName("RDMAData").AsRemote())
	conn.PlugInDevice(sw, gpu.Ports())
	conn.EstablishRoute()
	return d
}

type sysResult struct {
	comm, out []byte
	hang      bool
	ok        bool
}

func (r *runner) sysRun(ce *caseEnv, idx int, timing bool, paths map[int][]string, refOK bool) (res sysResult, outPaths map[int][]string) {
	sc := ce.sc
	kn := ce.kern[0]
	nwg := len(sc.WGs)
	mode := "emu"
	if timing {
		mode = "timing"
	}
	r.emit("Reset", ab.Rec{"mode": mode, "case": idx, "name": sc.Name, "level": "system"})
	outPaths = map[int][]string{}
	if timing && refOK {
		for g := 0; g < nwg; g++ {
			for w := 0; w < kn.NWf; w++ {
				id := g*16 + w + 1
				r.emit("Ref", ab.Rec{"w": id, "path": paths[id]})
			}
		}
	}
	defer func() {
		if e := recover(); e != nil {
			if timing {
				r.st.Panics++
			} else {
				r.st.EmuPanics++
			}
			r.emit("Panic", ab.Rec{"mode": mode, "msg": fmt.Sprint(e)})
			res.ok = false
		}
	}()
	s := simulation.MakeBuilder().WithoutMonitoring().Build()
	defer s.Terminate()
	var d *driver.Driver
	if timing {
		d = buildTimingPlatform(s)
	} else {
		emusystem.MakeBuilder().WithSimulation(s).WithNumGPUs(1).Build()
		d = s.GetComponentByName("Driver").(*driver.Driver)
	}
	o := newObs(r, func(raw *kernels.Wavefront) int { return raw.WG.IDX*16 + raw.FirstWiFlatID/64 + 1 },
		func(wg *kernels.WorkGroup) int { return wg.IDX + 1 })
	o.paths = outPaths
	done := 0
	o.onDone = func(int) { done++ }
	ncu := 0
	for _, comp := range s.Components() {
		switch u := comp.(type) {
		case *emu.ComputeUnit:
			o.attachEmu(u)
			ncu++
		case *cu.ComputeUnit:
			o.attachTiming(u)
			ncu++
		}
	}
	if ncu == 0 {
		panic("harness: no compute unit found in the platform")
	}
	ctx := d.Init()
	d.SelectGPU(ctx, 1)
	q := d.CreateCommandQueue(ctx)
	size := uint64(nwg) * c14asm.WGStride
	comm := d.AllocateMemory(ctx, size)
	out := d.AllocateMemory(ctx, size)
	zero := make([]byte, size)
	d.EnqueueMemCopyH2D(q, comm, zero)
	d.EnqueueMemCopyH2D(q, out, zero)
	co := kn.CodeObject()
	wgSize := kn.NWf*64 - sc.Kernels[0].Tail
	d.EnqueueLaunchKernel(q, co, [3]uint32{uint32(nwg * wgSize), 1, 1}, [3]uint16{uint16(wgSize), 1, 1},
		&sysArgs{Comm: comm, Out: out, C: 0x2211a55a})
	res.comm, res.out = make([]byte, size), make([]byte, size)
	d.EnqueueMemCopyD2H(q, res.comm, comm)
	d.EnqueueMemCopyD2H(q, res.out, out)
	// the harness owns the engine: no runAsync goroutine, the run ends when no event is left
	d.TickLater()
	if err := s.GetEngine().Run(); err != nil {
		panic(err)
	}
	pendingWG := nwg - done
	res.hang = q.NumCommand() > 0
	if res.hang {
		r.st.Hangs++
		if pendingWG == 0 {
			pendingWG = -1 // every group reported but the command queue did not drain: not this property's business
		}
	}
	r.emit("Quiesce", ab.Rec{"pending": pendingWG, "cmds": q.NumCommand()})
	res.ok = true
	return res, outPaths
}

func limbsCRC(b []byte) []int { return ab.Limbs32(crc32.ChecksumIEEE(b)) }

func (r *runner) runSys(ce *caseEnv, idx int) {
	ref, paths := r.sysRun(ce, idx, false, nil, false)
	refOK := ref.ok && !ref.hang
	res, _ := r.sysRun(ce, idx, true, paths, refOK)
	if !res.ok || !ce.sc.Vals {
		return
	}
	f := ab.Rec{"ref": b2i(refOK && !res.hang), "tc": limbsCRC(res.comm), "to": limbsCRC(res.out)}
	nz := 0
	for i := 0; i+3 < len(res.comm); i += 4 {
		if res.comm[i]|res.comm[i+1]|res.comm[i+2]|res.comm[i+3] != 0 {
			nz++
		}
	}
	f["nz"] = nz
	if refOK {
		f["ec"], f["eo"] = limbsCRC(ref.comm), limbsCRC(ref.out)
		if !res.hang && (string(ref.comm) != string(res.comm) || string(ref.out) != string(res.out)) {
			r.st.ValMismatch++
		}
	} else {
		f["ec"], f["eo"] = f["tc"], f["to"]
	}
	r.emit("Final", f)
}
