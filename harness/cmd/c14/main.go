// c14 runs hand-assembled kernels (barriers, wait counts, early exits, LDS/global
// communication) on the real timing compute unit and on the real emulation
// compute unit and writes the event traces CUSchedTrace.tla validates.
//
// Component level (default): one cu.ComputeUnit built by the public builder, every
// port plugged into a harness-owned connection; the harness plays dispatcher,
// instruction memory, scalar memory and vector memory (in-order responses per port,
// scripted/seeded latencies, effect time anywhere between arrival and response) and
// owns the engine, so "engine idle while a work-group is unreported" is observable.
//
// System level (-sys, sys.go): the same kernels through Driver -> CP -> dispatcher ->
// CU of platforms built by the public builders (emulation, r9nano timing with 1 CU).
package main

import (
	"bufio"
	"encoding/json"
	"flag"
	"fmt"
	"hash/crc32"
	"math/rand"
	"os"
	"runtime/debug"
	"sort"
	"sync"

	"github.com/sarchlab/akita/v4/mem/mem"
	"github.com/sarchlab/akita/v4/mem/vm"
	"github.com/sarchlab/akita/v4/sim"
	"github.com/sarchlab/akita/v4/tracing"
	"github.com/sarchlab/mgpusim/v4/amd/emu"
	"github.com/sarchlab/mgpusim/v4/amd/insts"
	"github.com/sarchlab/mgpusim/v4/amd/kernels"
	"github.com/sarchlab/mgpusim/v4/amd/protocol"
	"github.com/sarchlab/mgpusim/v4/amd/sampling"
	"github.com/sarchlab/mgpusim/v4/amd/timing/cu"

	ab "verifharness/akitabench"
	"verifharness/c14asm"
)

// ------------------------------------------------------------------ scenario

// KernelSpec describes one kernel.
type KernelSpec struct {
	Mode  string     `json:"mode"` // "table" | "uniform"
	Progs [][]string `json:"progs,omitempty"`
	NWf   int        `json:"nwf,omitempty"`
	Tail  int        `json:"tail,omitempty"` // work-items missing in the last wavefront (partial EXEC mask)
	Body  []string   `json:"body,omitempty"`
}

// WGSpec is one work-group: which kernel, when the dispatcher sends it.
type WGSpec struct {
	K  int `json:"k"`
	At int `json:"at"`
}

// MemSpec scripts the memory side.
type MemSpec struct {
	V     []int    `json:"v,omitempty"`     // latency of the i-th vector request (then VDef)
	VDef  [2]int   `json:"vdef"`            // [lo, hi]
	S     []int    `json:"s,omitempty"`     // latency of the i-th scalar request
	SDef  [2]int   `json:"sdef"`            //
	I     [2]int   `json:"i"`               // instruction fetch
	Seed  int64    `json:"seed"`            //
	Early bool     `json:"early,omitempty"` // effect at arrival instead of anywhere in [arrival, response]
	VHold [][2]int `json:"vhold,omitempty"` // cycle windows in which the vector memory side takes no request
	SHold [][2]int `json:"shold,omitempty"` // same for the scalar memory side
	SRate int      `json:"srate,omitempty"` // > 1: the scalar memory side accepts one request every SRate cycles (sustained back-pressure on ToScalarMem)
}

// Scenario is one case.
type Scenario struct {
	Name      string       `json:"name"`
	SB        bool         `json:"sb,omitempty"`
	Kernels   []KernelSpec `json:"kernels"`
	WGs       []WGSpec     `json:"wgs"`
	Mem       MemSpec      `json:"mem"`
	AceHold   [][2]int     `json:"acehold,omitempty"` // cycle windows in which the dispatcher does not take completions
	Vals      bool         `json:"vals,omitempty"`    // compare final memory with emulation
	NoEmu     bool         `json:"noemu,omitempty"`
	EmuOnly   bool         `json:"emuonly,omitempty"` // only the emulation CU runs (completion-report scenarios)
	EmuPlan   [][]interface{} `json:"emuplan,omitempty"` // script for the dispatcher side of the emulation CU: ["map", g] deliver work-group g (1-based), ["step", n] run the next n event times, ["hold"] / ["free"] stop / resume taking completion messages from ToDispatcher (back-pressure), ["take"] take what is there now
	Sampled   bool         `json:"sampled,omitempty"` // wavefront sampling on, prediction stable: handleWfCompletionEvent path
	VLimit    int          `json:"vlimit,omitempty"`  // > 0: ComputeUnit.InFlightVectorMemAccessLimit (public field; the builder sets 512)
	FE        bool         `json:"fe,omitempty"`      // log front-end facts (fetch, issue-time facts, every task end) for CUFrontTrace.tla
	Sys       string       `json:"sys,omitempty"`     // "" component level; "r9nano": system level
	Bench     string       `json:"bench,omitempty"`   // system level: a shipped benchmark instead of generated kernels
	BenchArgs []int        `json:"benchargs,omitempty"`
}

const (
	codeBase = 0x0010_0000
	kargBase = 0x0008_0000
	commBase = 0x2_0000_0000
	outBase  = 0x3_0000_0000
	kStride  = 0x0100_0000 // per kernel stride inside comm/out
	maxCycle = 3_000_000
)

// ------------------------------------------------------------------ memory image

type memImage struct{ pages map[uint64][]byte }

func newMem() *memImage { return &memImage{pages: map[uint64][]byte{}} }

func (m *memImage) page(a uint64, create bool) []byte {
	p, ok := m.pages[a>>12]
	if !ok && create {
		p = make([]byte, 4096)
		m.pages[a>>12] = p
	}
	return p
}

func (m *memImage) read(a, n uint64) []byte {
	out := make([]byte, n)
	for i := uint64(0); i < n; i++ {
		if p := m.page(a+i, false); p != nil {
			out[i] = p[(a+i)&4095]
		}
	}
	return out
}

func (m *memImage) write(a uint64, d []byte, mask []bool) {
	for i := range d {
		if mask != nil && !mask[i] {
			continue
		}
		m.page(a+uint64(i), true)[(a+uint64(i))&4095] = d[i]
	}
}

// Read / Write make memImage an emu.StorageAccessor.
func (m *memImage) Read(pid vm.PID, a, n uint64) []byte  { return m.read(a, n) }
func (m *memImage) Write(pid vm.PID, a uint64, d []byte) { m.write(a, d, nil) }

// digest of the region [base, base+n) as CRC32 limbs plus the number of non-zero words
func (m *memImage) digest(base, n uint64) ([]int, int) {
	h := crc32.NewIEEE()
	nz := 0
	for a := base; a < base+n; a += 4096 {
		p := m.page(a, false)
		if p == nil {
			p = zeroPage
		}
		h.Write(p)
		for i := 0; i < 4096; i += 4 {
			if p[i]|p[i+1]|p[i+2]|p[i+3] != 0 {
				nz++
			}
		}
	}
	return ab.Limbs32(h.Sum32()), nz
}

var zeroPage = make([]byte, 4096)

func u64le(v uint64) []byte {
	b := make([]byte, 8)
	for i := range b {
		b[i] = byte(v >> (8 * i))
	}
	return b
}

// ------------------------------------------------------------------ case set-up

type builtWG struct {
	g    int // 1-based group number in the trace
	k    int
	wg   *kernels.WorkGroup
	wfs  []int // trace ids of its wavefronts
	at   int
	req  *protocol.MapWGReq
	sent bool
	done int
}

type caseEnv struct {
	sc   *Scenario
	kern []*c14asm.Kernel
	wgs  []*builtWG
	wfID map[string]int // kernels.Wavefront.UID -> trace id
	gOf  map[*kernels.WorkGroup]int
}

func (sc *Scenario) build() (*caseEnv, error) {
	ce := &caseEnv{sc: sc, wfID: map[string]int{}, gOf: map[*kernels.WorkGroup]int{}}
	for _, ks := range sc.Kernels {
		var k *c14asm.Kernel
		var err error
		switch ks.Mode {
		case "table":
			k, err = c14asm.BuildTable(ks.Progs)
		case "uniform":
			k, err = c14asm.BuildUniform(ks.NWf, ks.Body)
		case "raw":
			k, err = c14asm.BuildRaw(ks.NWf, ks.Body)
		default:
			err = fmt.Errorf("unknown kernel mode %q", ks.Mode)
		}
		if err != nil {
			return nil, err
		}
		if ks.Tail < 0 || ks.Tail > 63 {
			return nil, fmt.Errorf("tail must be 0..63")
		}
		ce.kern = append(ce.kern, k)
	}
	return ce, nil
}

// image returns a fresh memory image with code and kernel arguments.
func (ce *caseEnv) image() *memImage {
	m := newMem()
	for k, kn := range ce.kern {
		m.write(codeBase+uint64(k)*0x10000, kn.Code, nil)
		ka := kargBase + uint64(k)*64
		m.write(ka, u64le(commBase+uint64(k)*kStride), nil)
		m.write(ka+8, u64le(outBase+uint64(k)*kStride), nil)
		m.write(ka+16, []byte{0x5a, 0xa5, 0x11, 0x22}, nil)
	}
	return m
}

// groups builds fresh kernels.WorkGroup objects for the scenario (one grid per kernel).
func (ce *caseEnv) groups() {
	ce.wgs = nil
	ce.wfID = map[string]int{}
	ce.gOf = map[*kernels.WorkGroup]int{}
	perK := map[int]int{}
	for _, w := range ce.sc.WGs {
		perK[w.K]++
	}
	builders := map[int]kernels.GridBuilder{}
	for k, cnt := range perK {
		kn := ce.kern[k]
		co := kn.CodeObject()
		pkt := new(kernels.HsaKernelDispatchPacket)
		wgSize := kn.NWf*64 - ce.sc.Kernels[k].Tail
		pkt.GridSizeX, pkt.GridSizeY, pkt.GridSizeZ = uint32(cnt*wgSize), 1, 1
		pkt.WorkgroupSizeX, pkt.WorkgroupSizeY, pkt.WorkgroupSizeZ = uint16(wgSize), 1, 1
		pkt.KernelObject = codeBase + uint64(k)*0x10000
		pkt.KernargAddress = kargBase + uint64(k)*64
		pkt.GroupSegmentSize = uint32(kn.LDSSize)
		gb := kernels.NewGridBuilder()
		gb.SetKernel(kernels.KernelLaunchInfo{CodeObject: co, Packet: pkt, PacketAddr: 0x30000 + uint64(k)*0x100})
		builders[k] = gb
	}
	next := 1
	for i, w := range ce.sc.WGs {
		wg := builders[w.K].NextWG()
		if wg == nil {
			panic("grid builder ran out of work-groups")
		}
		b := &builtWG{g: i + 1, k: w.K, wg: wg, at: w.At}
		ce.gOf[wg] = i + 1
		for _, wf := range wg.Wavefronts {
			ce.wfID[wf.UID] = next
			b.wfs = append(b.wfs, next)
			next++
		}
		ce.wgs = append(ce.wgs, b)
	}
}

// ------------------------------------------------------------------ instruction kinds

func kindOf(in *insts.Inst) (k string, v, s int) {
	switch in.FormatType {
	case insts.SOPP:
		switch in.Opcode {
		case 1:
			return "end", 0, 0
		case 10:
			return "bar", 0, 0
		case 12:
			return "wait", in.VMCNT, in.LKGMCNT
		}
		return "alu", 0, 0
	case insts.FLAT:
		return "vmem", 0, 0
	case insts.SMEM:
		return "smem", 0, 0
	}
	return "alu", 0, 0
}

func kindStr(k string, v, s int) string {
	if k == "wait" {
		return fmt.Sprintf("wait:%d:%d", v, s)
	}
	return k
}

// ------------------------------------------------------------------ runner

type stats struct {
	Cases, Events, Insts, Barriers, Waits, MemOps, WGs, Hangs, Panics, DupEnds, ValMismatch, EmuPanics int
	Cycles                                                                                             int
}

type runner struct {
	rec   *ab.Recorder
	st    *stats
	mu    sync.Mutex
	child bool
	// per-wavefront instruction addresses of the last emulation run
	emuPCs map[int][]int
}

func (r *runner) emit(e string, f ab.Rec) {
	r.mu.Lock()
	r.st.Events++
	r.rec.Emit(e, f)
	r.mu.Unlock()
}

// ------------------------------------------------------------------ emulation CU

// runEmu executes the scenario's work-groups on a real emu.ComputeUnit. It returns the final
// memory and the per-wavefront instruction path (nil if the emulator panicked).
func (r *runner) runEmu(ce *caseEnv, idx int) (img *memImage, paths map[int][]string, ok bool) {
	ce.groups()
	img = ce.image()
	paths = map[int][]string{}
	r.emit("Reset", ab.Rec{"mode": "emu", "case": idx, "name": ce.sc.Name})
	defer func() {
		if e := recover(); e != nil {
			r.st.EmuPanics++
			r.emit("Panic", ab.Rec{"mode": "emu", "msg": fmt.Sprint(e)})
			ok = false
		}
	}()
	eng := ab.NewEngine()
	u := emu.NewComputeUnit("EmuCU", eng, insts.NewDisassembler(), emu.NewALU(img), img)
	conn := ab.NewConn("Conn")
	conn.PlugIn(u.ToDispatcher)
	o := newObs(r, func(raw *kernels.Wavefront) int { return ce.wfID[raw.UID] },
		func(wg *kernels.WorkGroup) int { return ce.gOf[wg] })
	o.paths = paths
	o.onDone = func(g int) { ce.wgs[g-1].done++ }
	o.attachEmu(u)
	r.emuPCs = o.pcs
	order := make([]*builtWG, len(ce.wgs))
	copy(order, ce.wgs)
	sort.SliceStable(order, func(i, j int) bool { return order[i].at < order[j].at })
	step := func() {
		if t, ok := eng.NextTime(); ok {
			eng.RunUntil(t)
		}
		for u.ToDispatcher.RetrieveOutgoing() != nil {
		}
	}
	mkReq := func(b *builtWG) *protocol.MapWGReq {
		locs := make([]protocol.WfDispatchLocation, len(b.wg.Wavefronts))
		for i, wf := range b.wg.Wavefronts {
			locs[i] = protocol.WfDispatchLocation{Wavefront: wf}
		}
		req := protocol.MapWGReqBuilder{}.WithSrc("Dispatcher.Port").WithDst(u.ToDispatcher.AsRemote()).
			WithPID(1).WithWG(b.wg).Build()
		req.Wavefronts = locs
		b.req = req
		return req
	}
	if len(ce.sc.EmuPlan) > 0 {
		// scripted dispatcher side.  (Virtual time is no guide here: the emulation CU runs a group mapped at time t at
		// Ceil(t) seconds, so the script counts event times instead of cycles.)
		holding := false
		take := func() {
			for u.ToDispatcher.RetrieveOutgoing() != nil {
			}
		}
		one := func() {
			if t, ok := eng.NextTime(); ok {
				eng.RunUntil(t)
			}
			if !holding {
				take()
			}
		}
		for _, op := range ce.sc.EmuPlan {
			name, _ := op[0].(string)
			arg := 0
			if len(op) > 1 {
				f, _ := op[1].(float64)
				arg = int(f)
			}
			switch name {
			case "map":
				if arg < 1 || arg > len(ce.wgs) || ce.wgs[arg-1].req != nil {
					fmt.Println("INFRA: bad emuplan map", arg, "in scenario", ce.sc.Name)
					os.Exit(3)
				}
				req := mkReq(ce.wgs[arg-1])
				for tries := 0; u.ToDispatcher.Deliver(req) != nil; tries++ {
					if tries > 1000 {
						panic("harness: emu CU never accepts the MapWGReq")
					}
					one()
				}
			case "step":
				for i := 0; i < arg; i++ {
					one()
				}
			case "hold":
				holding = true
			case "free":
				holding = false
				take()
			case "take":
				take()
			default:
				fmt.Println("INFRA: bad emuplan op", name, "in scenario", ce.sc.Name)
				os.Exit(3)
			}
		}
		// the rest: every group not yet mapped, link free, until nothing is scheduled (a retry that never succeeds would
		// keep the engine busy for ever: bounded, and then reported as what it is - groups unreported)
		holding = false
		take()
		for _, b := range order {
			if b.req == nil {
				req := mkReq(b)
				for tries := 0; u.ToDispatcher.Deliver(req) != nil; tries++ {
					if tries > 1000 {
						panic("harness: emu CU never accepts the MapWGReq")
					}
					one()
				}
				one()
			}
		}
		for i := 0; i < 100000 && eng.Pending() > 0; i++ {
			one()
		}
	} else {
		for _, b := range order {
			req := mkReq(b)
			for tries := 0; u.ToDispatcher.Deliver(req) != nil; tries++ {
				if tries > 1000 {
					panic("harness: emu CU never accepts the MapWGReq")
				}
				step()
			}
			step()
		}
		for i := 0; i < 100000 && eng.Pending() > 0; i++ {
			step()
		}
	}
	pending := 0
	for _, b := range ce.wgs {
		if b.done == 0 {
			pending++
		}
	}
	r.emit("Quiesce", ab.Rec{"pending": pending})
	return img, paths, true
}

// heldIn: cycle cyc lies in one of the hold windows; holdEndIn: the first cycle after cyc that is outside the window cyc is in.
func heldIn(w [][2]int, cyc int) bool {
	for _, h := range w {
		if cyc >= h[0] && cyc < h[1] {
			return true
		}
	}
	return false
}

func holdEndIn(w [][2]int, cyc int) int {
	e := cyc + 1
	for _, h := range w {
		if cyc >= h[0] && cyc < h[1] && h[1] > e {
			e = h[1]
		}
	}
	return e
}

// ------------------------------------------------------------------ timing CU

type memOp struct {
	port  sim.Port
	q     string
	req   mem.AccessReq
	effAt int
	rspAt int
	seq   int
	done  bool // effect applied
	data  []byte
}

type dummyComp struct{ *sim.ComponentBase }

func (d *dummyComp) Handle(sim.Event) error  { return nil }
func (d *dummyComp) NotifyRecv(sim.Port)     {}
func (d *dummyComp) NotifyPortFree(sim.Port) {}

type instTracer struct {
	open func(task tracing.Task)
	end  func(task tracing.Task)
}

func (t *instTracer) StartTask(task tracing.Task)      { t.open(task) }
func (t *instTracer) StepTask(task tracing.Task)       {}
func (t *instTracer) AddMilestone(m tracing.Milestone) {}
func (t *instTracer) EndTask(task tracing.Task)        { t.end(task) }

type slotAlloc struct {
	used [4][10]bool
	rr   int
}

func (a *slotAlloc) free() int {
	n := 0
	for s := 0; s < 4; s++ {
		for i := 0; i < 10; i++ {
			if !a.used[s][i] {
				n++
			}
		}
	}
	return n
}

// place finds register windows for n wavefronts, SIMDs round robin (nil if they do not fit).
func (a *slotAlloc) place(n int) [][2]int {
	var out [][2]int
	tmp := a.used
	rr := a.rr
	for i := 0; i < n; i++ {
		placed := false
		for t := 0; t < 4 && !placed; t++ {
			s := (rr + t) % 4
			for j := 0; j < 10; j++ {
				if !tmp[s][j] {
					tmp[s][j] = true
					out = append(out, [2]int{s, j})
					rr = (s + 1) % 4
					placed = true
					break
				}
			}
		}
		if !placed {
			return nil
		}
	}
	a.used = tmp
	a.rr = rr
	return out
}

func (r *runner) runTiming(ce *caseEnv, idx int, ref *memImage, paths map[int][]string, refOK bool) {
	sc := ce.sc
	ce.groups()
	img := ce.image()
	rng := rand.New(rand.NewSource(sc.Mem.Seed))
	r.emit("Reset", ab.Rec{"mode": "timing", "case": idx, "name": sc.Name, "sb": sc.SB})
	if refOK {
		for _, b := range ce.wgs {
			for _, w := range b.wfs {
				r.emit("Ref", ab.Rec{"w": w, "path": paths[w]})
				if sc.FE {
					r.emit("RefPC", ab.Rec{"w": w, "pcs": r.emuPCs[w]})
				}
			}
		}
	}
	defer func() {
		if e := recover(); e != nil {
			r.st.Panics++
			if os.Getenv("C14_STACK") != "" {
				fmt.Fprintf(os.Stderr, "panic: %v\n%s\n", e, debug.Stack())
			}
			r.emit("Panic", ab.Rec{"mode": "timing", "msg": fmt.Sprint(e)})
		}
	}()

	if sc.Sampled {
		// what -wf-sampling plus 1024+ collected wavefronts with a steady run time give: a stable prediction
		se := sampling.NewSampledEngine(16, 0.5, true)
		for i := 0; i < 1024+64; i++ {
			se.Collect(sim.VTimeInSec(float64(i)*1e-9), sim.VTimeInSec(float64(i+100)*1e-9))
		}
		sampling.SampledEngineInstance = se
		*sampling.SampledRunnerFlag = true
		defer func() { *sampling.SampledRunnerFlag = false }()
	}
	eng := ab.NewEngine()
	dc := &dummyComp{sim.NewComponentBase("Env")}
	instMem := sim.NewPort(dc, 1, 1, "Env.InstMem")
	scalarMem := sim.NewPort(dc, 1, 1, "Env.ScalarMem")
	u := cu.MakeBuilder().WithEngine(eng).WithFreq(1 * sim.GHz).WithInstMem(instMem).WithScalarMem(scalarMem).
		WithVectorMemModules(&mem.SinglePortMapper{Port: "Env.VectorMem"}).
		WithRegisterScoreboard(sc.SB).Build("CU")
	if sc.VLimit > 0 {
		u.InFlightVectorMemAccessLimit = sc.VLimit
	}
	conn := ab.NewConn("Conn")
	for _, p := range []sim.Port{u.ToACE, u.ToCP, u.ToInstMem, u.ToScalarMem, u.ToVectorMem} {
		conn.PlugIn(p)
	}

	// ---- observation
	alloc := &slotAlloc{}
	placed := map[*builtWG][][2]int{}
	o := newObs(r, func(raw *kernels.Wavefront) int { return ce.wfID[raw.UID] },
		func(wg *kernels.WorkGroup) int { return ce.gOf[wg] })
	o.onDone = func(g int) {
		b := ce.wgs[g-1]
		b.done++
		for _, sl := range placed[b] {
			alloc.used[sl[0]][sl[1]] = false
		}
	}
	if refOK {
		// a wavefront that has issued more instructions than the reference executed has left the reference path for
		// good (the trace specification refuses that Issue): the run is stopped there instead of at the cycle limit
		o.refLen = map[int]int{}
		for w, p := range paths {
			o.refLen[w] = len(p)
		}
	}
	if sc.FE {
		o.fe, o.cu = true, u
		o.code = func(k *kernels.Wavefront, pc uint64, n int) []byte { return img.read(pc, uint64(n)) }
	}
	o.attachTiming(u)

	// ---- environment
	var queue []*memOp // arrival order, all ports
	nv, ns := 0, 0
	lat := func(q string) int {
		pick := func(list []int, n *int, def [2]int) int {
			if *n < len(list) {
				*n++
				return list[*n-1]
			}
			*n++
			lo, hi := def[0], def[1]
			if hi <= lo {
				return lo
			}
			return lo + rng.Intn(hi-lo+1)
		}
		switch q {
		case "v":
			return pick(sc.Mem.V, &nv, sc.Mem.VDef)
		case "s":
			return pick(sc.Mem.S, &ns, sc.Mem.SDef)
		}
		var z int
		return pick(nil, &z, sc.Mem.I)
	}
	lastRsp := map[string]int{}
	seq := 0
	accept := func(q string, port sim.Port, cyc int) {
		for n := 0; ; n++ {
			if q == "s" && sc.Mem.SRate > 1 && (n > 0 || cyc%sc.Mem.SRate != 0) {
				return
			}
			m := port.RetrieveOutgoing()
			if m == nil {
				return
			}
			req, ok := m.(mem.AccessReq)
			if !ok {
				panic("harness: unexpected message on a memory port")
			}
			l := lat(q)
			if l < 1 {
				l = 1
			}
			seq++
			op := &memOp{q: q, port: port, req: req, seq: seq}
			op.rspAt = cyc + l
			if op.rspAt <= lastRsp[q] {
				op.rspAt = lastRsp[q] // in order per port (what the reorder buffer guarantees)
			}
			lastRsp[q] = op.rspAt
			op.effAt = cyc
			if !sc.Mem.Early && op.rspAt > cyc {
				op.effAt = cyc + rng.Intn(op.rspAt-cyc+1)
			}
			queue = append(queue, op)
		}
	}
	apply := func(cyc int) {
		// effects in (effAt, arrival) order
		var due []*memOp
		for _, op := range queue {
			if !op.done && op.effAt <= cyc {
				due = append(due, op)
			}
		}
		sort.SliceStable(due, func(i, j int) bool {
			if due[i].effAt != due[j].effAt {
				return due[i].effAt < due[j].effAt
			}
			return due[i].seq < due[j].seq
		})
		for _, op := range due {
			switch rq := op.req.(type) {
			case *mem.ReadReq:
				op.data = img.read(rq.Address, rq.AccessByteSize)
			case *mem.WriteReq:
				img.write(rq.Address, rq.Data, rq.DirtyMask)
			}
			op.done = true
		}
	}
	respond := func(cyc int) {
		blocked := map[string]bool{}
		rest := queue[:0]
		for _, op := range queue {
			if op.rspAt > cyc || blocked[op.q] || !op.done {
				if op.rspAt <= cyc {
					blocked[op.q] = true
				}
				rest = append(rest, op)
				continue
			}
			var rsp sim.Msg
			switch rq := op.req.(type) {
			case *mem.ReadReq:
				rsp = mem.DataReadyRspBuilder{}.WithSrc(rq.Dst).WithDst(rq.Src).WithRspTo(rq.ID).WithData(op.data).Build()
			case *mem.WriteReq:
				rsp = mem.WriteDoneRspBuilder{}.WithSrc(rq.Dst).WithDst(rq.Src).WithRspTo(rq.ID).Build()
			}
			if err := op.port.Deliver(rsp); err != nil {
				blocked[op.q] = true
				rest = append(rest, op)
				continue
			}
		}
		queue = rest
	}
	held := func(cyc int) bool { return heldIn(sc.AceHold, cyc) }
	holdEnd := func(cyc int) int { return holdEndIn(sc.AceHold, cyc) }
	order := make([]*builtWG, len(ce.wgs))
	copy(order, ce.wgs)
	sort.SliceStable(order, func(i, j int) bool { return order[i].at < order[j].at })
	dispatch := func(cyc int) bool {
		// in order, one per cycle, only when the register windows fit (what a dispatcher guarantees)
		for _, b := range order {
			if b.sent {
				continue
			}
			if b.at > cyc {
				return false
			}
			sl := alloc.place(len(b.wg.Wavefronts))
			if sl == nil {
				return false
			}
			locs := make([]protocol.WfDispatchLocation, len(b.wg.Wavefronts))
			for i, wf := range b.wg.Wavefronts {
				locs[i] = protocol.WfDispatchLocation{Wavefront: wf, SIMDID: sl[i][0],
					VGPROffset: sl[i][1] * c14asm.NumVGPR * 4,
					SGPROffset: (sl[i][0]*10 + sl[i][1]) * c14asm.NumSGPR * 4}
			}
			req := protocol.MapWGReqBuilder{}.WithSrc("Dispatcher.Port").WithDst(u.ToACE.AsRemote()).
				WithPID(1).WithWG(b.wg).Build()
			req.Wavefronts = locs
			if err := u.ToACE.Deliver(req); err != nil {
				for _, s := range sl {
					alloc.used[s[0]][s[1]] = false
				}
				return true // port full: retry next cycle
			}
			b.req, b.sent = req, true
			placed[b] = sl
			return true
		}
		return false
	}

	cyc := 0
	for {
		// next moment anything can happen
		next := -1
		upd := func(c int) {
			if c > cyc && (next < 0 || c < next) {
				next = c
			}
		}
		if t, ok := eng.NextTime(); ok {
			c := int(float64(t)*1e9 + 0.5)
			if c <= cyc {
				c = cyc + 1
			}
			upd(c)
		}
		for _, op := range queue {
			if !op.done {
				upd(max(op.effAt, cyc+1))
			}
			upd(max(op.rspAt, cyc+1))
		}
		for _, b := range order {
			if !b.sent {
				if b.at > cyc {
					upd(b.at)
				} else if alloc.free() >= len(b.wg.Wavefronts) {
					upd(cyc + 1)
				}
				break
			}
		}
		if u.ToACE.PeekOutgoing() != nil {
			upd(holdEnd(cyc))
		}
		if u.ToVectorMem.PeekOutgoing() != nil {
			upd(holdEndIn(sc.Mem.VHold, cyc))
		}
		if u.ToScalarMem.PeekOutgoing() != nil {
			c := holdEndIn(sc.Mem.SHold, cyc)
			if k := sc.Mem.SRate; k > 1 && c%k != 0 {
				c += k - c%k
			}
			upd(c)
		}
		if next < 0 {
			break
		}
		cyc = next
		if o.runaway {
			r.emit("Panic", ab.Rec{"mode": "timing", "msg": "harness: a wavefront issued more instructions than the reference executed; run stopped"})
			r.st.Panics++
			break
		}
		if cyc > maxCycle {
			fmt.Println("INFRA: cycle limit reached in scenario", sc.Name)
			os.Exit(3)
		}
		eng.RunUntil(ab.Cycle(cyc))
		accept("i", u.ToInstMem, cyc)
		// hold windows: the memory side does not take requests (back-pressure on the CU's ports)
		if !heldIn(sc.Mem.SHold, cyc) {
			accept("s", u.ToScalarMem, cyc)
		}
		if !heldIn(sc.Mem.VHold, cyc) {
			accept("v", u.ToVectorMem, cyc)
		}
		if !held(cyc) {
			for u.ToACE.RetrieveOutgoing() != nil {
			}
		}
		for u.ToCP.RetrieveOutgoing() != nil {
		}
		apply(cyc)
		respond(cyc)
		dispatch(cyc)
	}
	r.st.Cycles += cyc
	pending := 0
	for _, b := range ce.wgs {
		if b.done == 0 {
			pending++
		}
	}
	if pending > 0 {
		r.st.Hangs++
	}
	// structural: no event is pending in the engine, the environment owes nothing
	r.emit("Quiesce", ab.Rec{"pending": pending, "cycle": cyc})
	if sc.Vals {
		f := ab.Rec{"ref": b2i(refOK)}
		var nz int
		nk := uint64(len(ce.kern))
		f["tc"], nz = img.digest(commBase, nk*kStride)
		f["to"], _ = img.digest(outBase, nk*kStride)
		f["nz"] = nz
		if refOK {
			f["ec"], _ = ref.digest(commBase, nk*kStride)
			f["eo"], _ = ref.digest(outBase, nk*kStride)
			if d := firstDiff(img, ref, nk); d != nil {
				f["diff"] = d
				r.st.ValMismatch++
			}
		} else {
			f["ec"], f["eo"] = f["tc"], f["to"]
		}
		r.emit("Final", f)
	}
}

func firstDiff(a, b *memImage, nk uint64) ab.Rec {
	for _, base := range []uint64{commBase, outBase} {
		for off := uint64(0); off < nk*kStride; off += 4096 {
			pa, pb := a.page(base+off, false), b.page(base+off, false)
			if pa == nil && pb == nil {
				continue
			}
			if pa == nil {
				pa = zeroPage
			}
			if pb == nil {
				pb = zeroPage
			}
			for i := 0; i < 4096; i += 4 {
				va := uint32(pa[i]) | uint32(pa[i+1])<<8 | uint32(pa[i+2])<<16 | uint32(pa[i+3])<<24
				vb := uint32(pb[i]) | uint32(pb[i+1])<<8 | uint32(pb[i+2])<<16 | uint32(pb[i+3])<<24
				if va != vb {
					return ab.Rec{"off": int((base + off + uint64(i)) & 0xffffffff), "out": b2i(base == outBase),
						"timing": ab.Limbs32(va), "emu": ab.Limbs32(vb)}
				}
			}
		}
	}
	return nil
}

func b2i(b bool) int {
	if b {
		return 1
	}
	return 0
}

func (r *runner) runCase(i int, sc *Scenario) {
	r.st.Cases++
	ce, err := sc.build()
	if err != nil {
		fmt.Println("INFRA: cannot assemble scenario", sc.Name, ":", err)
		os.Exit(3)
	}
	if sc.Bench != "" {
		r.runBench(ce, i)
		return
	}
	if sc.Sys != "" {
		r.runSys(ce, i)
		return
	}
	var ref *memImage
	var paths map[int][]string
	refOK := false
	if !sc.NoEmu {
		ref, paths, refOK = r.runEmu(ce, i)
	}
	if sc.EmuOnly {
		return
	}
	r.runTiming(ce, i, ref, paths, refOK)
}

func main() {
	scen := flag.String("scen", "", "JSON file with a list of scenarios")
	out := flag.String("out", "trace.ndjson", "trace output")
	list := flag.Bool("list", false, "print the listing of every kernel")
	child := flag.Bool("child", false, "internal: run shipped benchmarks in this process")
	caseNo := flag.Int("case", 0, "internal: case number of the first scenario")
	flag.Parse()
	var cases []Scenario
	b, err := os.ReadFile(*scen)
	if err != nil {
		fmt.Println("cannot read scenario file:", err)
		os.Exit(2)
	}
	if err := json.Unmarshal(b, &cases); err != nil {
		fmt.Println("bad scenario file:", err)
		os.Exit(2)
	}
	if *list {
		for i := range cases {
			ce, err := cases[i].build()
			if err != nil {
				fmt.Println(err)
				os.Exit(2)
			}
			for k, kn := range ce.kern {
				fmt.Printf("== %s kernel %d\n", cases[i].Name, k)
				for _, l := range kn.Listing {
					fmt.Println(l)
				}
			}
		}
		return
	}
	f, err := os.Create(*out)
	if err != nil {
		fmt.Println(err)
		os.Exit(2)
	}
	w := bufio.NewWriterSize(f, 1<<20)
	st := &stats{}
	r := &runner{rec: ab.NewRecorder(w), st: st, child: *child}
	for i := range cases {
		r.runCase(*caseNo+i, &cases[i])
	}
	w.Flush()
	f.Close()
	js, _ := json.Marshal(map[string]int{"cases": st.Cases, "events": st.Events, "insts": st.Insts, "barriers": st.Barriers,
		"waits": st.Waits, "memops": st.MemOps, "wgs": st.WGs, "hangs": st.Hangs, "panics": st.Panics,
		"emu_panics": st.EmuPanics, "dup_ends": st.DupEnds, "val_mismatch": st.ValMismatch, "cycles": st.Cycles})
	fmt.Println(string(js))
}
