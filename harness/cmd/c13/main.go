// c13 records what the real kernel loader of mgpusim (amd/insts/hsaco.go)
// returns.
//
// Jobs (one JSON object per line of -jobs):
//
//	{"id":..,"file":{abstract file},"gap":n,"loads":[{"name":..,"api":..},..]}
//	    an abstract code object (a TLC state of spec/hsaco or a seeded random
//	    one) is written as a real ELF64 object by elfw.go and loaded;
//	{"id":..,"path":"/repo/.../kernels.hsaco"}
//	    a shipped code object; every symbol that could name a kernel is loaded,
//	    plus "" and two names that are not kernels.
//
//	{"id":..,"session":[steps]}
//	    a history of loads through reused image buffers in one process: see
//	    session.go.
//
// For every job the file is first summarised with debug/elf (section table,
// symbol table, bytes of .text/.rodata: nothing about kernels) -> "File" line;
// then every load is one "Load" line with all observable fields of the
// returned *insts.KernelCodeObject.  A panic of the loader is a "Panic" line.
// The loader ends the process with log.Fatal when it refuses a name: loads run
// in a child process (the same binary with -child); when the child dies the
// parent writes a "Fatal" line for the load that was in progress and starts a
// new child behind it.  spec/hsaco/HsacoTrace.tla judges every line; this
// program decides nothing.
package main

import (
	"bufio"
	"bytes"
	"debug/elf"
	"encoding/json"
	"flag"
	"fmt"
	"os"
	"os/exec"
	"path/filepath"
	"strings"

	"github.com/sarchlab/mgpusim/v4/amd/insts"
)

// LoadReq is one loader call.
type LoadReq struct {
	Name string `json:"name"`
	API  string `json:"api"` // "bytes" | "fs" | "elf"
}

// Job is one code object and the loads to perform on it.
type Job struct {
	ID    string    `json:"id"`
	Path  string    `json:"path,omitempty"`
	File  *AbsFile  `json:"file,omitempty"`
	Gap   int       `json:"gap,omitempty"`
	Loads []LoadReq `json:"loads,omitempty"`
	// a history of loads through reused buffers in one process (session.go)
	Session []Step `json:"session,omitempty"`
}

type rec map[string]interface{}

// summarise describes an ELF image by its section table and symbol table only.
func summarise(img []byte) (*AbsFile, error) {
	f, err := elf.NewFile(bytes.NewReader(img))
	if err != nil {
		return nil, err
	}
	a := &AbsFile{Symtab: 1, Secs: []AbsSec{}, Syms: []AbsSym{}}
	for i, s := range f.Sections {
		if i == 0 {
			continue
		}
		as := AbsSec{N: s.Name, A: limbs64(s.Addr), D: []int{}, Sz: int(s.Size)}
		if (s.Name == ".text" || s.Name == ".rodata") && s.Type != elf.SHT_NOBITS {
			d, err := s.Data()
			if err != nil {
				return nil, err
			}
			for _, b := range d {
				as.D = append(as.D, int(b))
			}
		}
		a.Secs = append(a.Secs, as)
	}
	syms, err := f.Symbols()
	if err != nil {
		a.Symtab = 0
		return a, nil
	}
	for _, s := range syms {
		a.Syms = append(a.Syms, AbsSym{N: s.Name, X: int(s.Section), V: limbs64(s.Value), S: limbs64(s.Size), T: int(s.Info)})
	}
	return a, nil
}

// autoLoads: every name a caller could reasonably pass for this file.
func autoLoads(a *AbsFile) []LoadReq {
	apis := []string{"bytes", "fs", "elf"}
	var out []LoadReq
	seen := map[string]bool{}
	add := func(n string) {
		if !seen[n] {
			seen[n] = true
			out = append(out, LoadReq{Name: n, API: apis[len(out)%3]})
		}
	}
	kd := ""
	for _, s := range a.Syms {
		if s.X > 0 && s.X <= len(a.Secs) && a.Secs[s.X-1].N == ".text" && unlimbs(s.S) > 0 {
			add(s.N)
		} else if strings.HasSuffix(s.N, ".kd") && kd == "" {
			kd = s.N
		}
	}
	add("")
	add("__no_such_kernel__")
	if kd != "" {
		add(kd)
	}
	return out
}

func b01(b bool) int {
	if b {
		return 1
	}
	return 0
}

func describe(co *insts.KernelCodeObject) rec {
	r := rec{"ver": int(co.Version)}
	d := make([]int, len(co.Data))
	for i, b := range co.Data {
		d[i] = int(b)
	}
	r["data"] = d
	if co.Symbol != nil {
		r["sym"] = rec{"n": co.Symbol.Name, "x": int(co.Symbol.Section), "v": limbs64(co.Symbol.Value), "s": limbs64(co.Symbol.Size)}
	} else {
		r["sym"] = rec{"n": "", "x": -1, "v": limbs64(0), "s": limbs64(0)}
	}
	m := co.KernelCodeObjectMeta
	if m == nil {
		r["m"] = rec{"nil": 1}
		return r
	}
	r["m"] = rec{
		"r1": limbs32(m.ComputePgmRsrc1), "r2": limbs32(m.ComputePgmRsrc2), "r3": limbs32(m.ComputePgmRsrc3),
		"ka": limbs64(m.KernargSegmentByteSize), "lds": limbs32(m.GroupSegmentByteSize),
		"priv": limbs32(m.PrivateSegmentByteSize), "entry": limbs64(m.KernelCodeEntryByteOffset),
		"fl": []int{b01(m.EnableSgprPrivateSegmentBuffer), b01(m.EnableSgprDispatchPtr), b01(m.EnableSgprQueuePtr),
			b01(m.EnableSgprKernargSegmentPtr), b01(m.EnableSgprDispatchID), b01(m.EnableSgprFlatScratchInit),
			b01(m.EnableSgprPrivateSegmentSize), b01(m.EnableSgprGridWorkgroupCountX),
			b01(m.EnableSgprGridWorkgroupCountY), b01(m.EnableSgprGridWorkgroupCountZ)},
		"sgpr": int(m.WFSgprCount), "vgpr": int(m.WIVgprCount),
		"cvmaj": limbs32(m.CodeVersionMajor), "cvmin": limbs32(m.CodeVersionMinor), "mk": int(m.MachineKind),
		"mvmaj": int(m.MachineVersionMajor), "mvmin": int(m.MachineVersionMinor), "mvstep": int(m.MachineVersionStepping),
		// what the accessors used by the dispatchers say (functions of r1/r2)
		"acc": []int{b01(m.EnableSgprWorkGroupIDX()), b01(m.EnableSgprWorkGroupIDY()), b01(m.EnableSgprWorkGroupIDZ()),
			int(m.EnableVgprWorkItemID()), int(m.UserSgprCount()), b01(m.EnableSgprPrivateSegmentWaveByteOffset())},
	}
	return r
}

type child struct {
	off    int64 // byte offset of the current job line
	out    *bufio.Writer
	ctl    *bufio.Writer
	tmp    string
	loads  int
	events int
	panics int
}

func (c *child) emit(r rec) {
	b, err := json.Marshal(r)
	if err != nil {
		panic(err)
	}
	c.out.Write(b)
	c.out.WriteByte('\n')
	c.out.Flush()
	c.events++
}

func (c *child) load(img []byte, path string, l LoadReq) (r rec) {
	defer func() {
		if p := recover(); p != nil {
			c.panics++
			r = rec{"e": "Panic", "name": l.Name, "api": l.API, "msg": fmt.Sprint(p)}
		}
	}()
	var co *insts.KernelCodeObject
	switch l.API {
	case "fs":
		if path == "" {
			path = filepath.Join(c.tmp, "obj.hsaco")
			if err := os.WriteFile(path, img, 0o644); err != nil {
				panic(err)
			}
		}
		co = insts.LoadKernelCodeObjectFromFS(path, l.Name)
	case "elf":
		f, err := elf.NewFile(bytes.NewReader(img))
		if err != nil {
			panic(err)
		}
		co = insts.LoadKernelCodeObjectFromELF(f, l.Name)
	default:
		co = insts.LoadKernelCodeObjectFromBytes(img, l.Name)
	}
	if co == nil {
		return rec{"e": "Load", "name": l.Name, "api": l.API, "nil": 1}
	}
	r = describe(co)
	r["e"], r["name"], r["api"] = "Load", l.Name, l.API
	return r
}

func (c *child) runJob(ji int, j *Job, fromLoad int, skipFile bool) error {
	if len(j.Session) > 0 {
		if fromLoad > 0 { // the loader ended the process inside this session: its buffers and results are gone
			return nil
		}
		return c.runSession(ji, j)
	}
	var img []byte
	var err error
	if j.Path != "" {
		img, err = os.ReadFile(j.Path)
		if err != nil {
			return err
		}
	} else {
		img = BuildELF(j.File, j.Gap)
	}
	sum, err := summarise(img)
	if err != nil {
		return fmt.Errorf("job %s: debug/elf cannot read the object: %v", j.ID, err)
	}
	if !skipFile {
		c.emit(rec{"e": "Reset", "id": j.ID})
		c.emit(rec{"e": "File", "id": j.ID, "path": j.Path, "symtab": sum.Symtab, "secs": sum.Secs, "syms": sum.Syms})
	}
	loads := j.Loads
	if len(loads) == 0 {
		loads = autoLoads(sum)
	}
	for li := fromLoad; li < len(loads); li++ {
		fmt.Fprintf(c.ctl, "P %d %d %d %d %s\n", ji, li, c.off, 0, loads[li].Name)
		c.ctl.Flush()
		r := c.load(img, j.Path, loads[li])
		r["id"] = j.ID
		c.emit(r)
		c.loads++
	}
	return nil
}

func childMain(jobsPath, outPath string, fromJob, fromLoad int, skipFile bool, fromOff int64) {
	jf, err := os.Open(jobsPath)
	if err != nil {
		fmt.Fprintln(os.Stderr, err)
		os.Exit(3)
	}
	if _, err := jf.Seek(fromOff, 0); err != nil {
		fmt.Fprintln(os.Stderr, err)
		os.Exit(3)
	}
	of, err := os.OpenFile(outPath, os.O_APPEND|os.O_CREATE|os.O_WRONLY, 0o644)
	if err != nil {
		fmt.Fprintln(os.Stderr, err)
		os.Exit(3)
	}
	tmp, _ := os.MkdirTemp("", "c13_")
	defer os.RemoveAll(tmp)
	c := &child{out: bufio.NewWriterSize(of, 1<<20), ctl: bufio.NewWriter(os.Stdout), tmp: tmp}
	rd := bufio.NewReaderSize(jf, 1<<20)
	ji := fromJob - 1
	off := fromOff
	done := 0
	for {
		line, rerr := rd.ReadBytes('\n')
		if len(bytes.TrimSpace(line)) > 0 {
			ji++
			var j Job
			if err := json.Unmarshal(line, &j); err != nil {
				fmt.Fprintln(os.Stderr, "bad job:", err)
				os.Exit(3)
			}
			fl, sk := 0, false
			if ji == fromJob {
				fl, sk = fromLoad, skipFile
			}
			c.off = off
			// a session gets a process of its own: whatever the loader keeps between calls then stems from
			// this session alone, and the session's trace replays on its own
			if (len(j.Session) > 0 && done > 0) || done >= 1<<20 {
				c.out.Flush()
				of.Close()
				fmt.Fprintf(c.ctl, "R %d %d %d %d %d\n", ji, off, c.loads, c.events, c.panics)
				c.ctl.Flush()
				os.RemoveAll(tmp)
				os.Exit(0)
			}
			if err := c.runJob(ji, &j, fl, sk); err != nil {
				fmt.Fprintln(os.Stderr, err)
				os.RemoveAll(tmp)
				os.Exit(3)
			}
			done++
			if len(j.Session) > 0 {
				done = 1 << 20 // whatever follows starts in a new process as well
			}
		}
		off += int64(len(line))
		if rerr != nil {
			break
		}
	}
	c.out.Flush()
	of.Close()
	fmt.Fprintf(c.ctl, "D %d %d %d\n", c.loads, c.events, c.panics)
	c.ctl.Flush()
}

func main() {
	jobs := flag.String("jobs", "", "ndjson file of jobs")
	out := flag.String("out", "trace.ndjson", "ndjson trace to write")
	isChild := flag.Bool("child", false, "internal: run loads in this process")
	from := flag.String("from", "0:0:0:0", "internal: job:load:skipfile:byteoffset to resume at")
	flag.Parse()
	if *isChild {
		var fj, fl, sk int
		var fo int64
		fmt.Sscanf(*from, "%d:%d:%d:%d", &fj, &fl, &sk, &fo)
		childMain(*jobs, *out, fj, fl, sk != 0, fo)
		return
	}
	os.Remove(*out)
	self, err := os.Executable()
	if err != nil {
		fmt.Fprintln(os.Stderr, err)
		os.Exit(2)
	}
	fj, fl, sk := 0, 0, 0
	var fo int64
	loads, events, panics, fatals, restarts := 0, 0, 0, 0, 0
	for {
		cmd := exec.Command(self, "-child", "-jobs", *jobs, "-out", *out, "-from", fmt.Sprintf("%d:%d:%d:%d", fj, fl, sk, fo))
		var so, se bytes.Buffer
		cmd.Stdout, cmd.Stderr = &so, &se
		err := cmd.Run()
		lines := strings.Split(strings.TrimSpace(so.String()), "\n")
		last := lines[len(lines)-1]
		np := 0
		for _, l := range lines {
			if strings.HasPrefix(l, "P ") {
				np++
			}
		}
		if err == nil && strings.HasPrefix(last, "R ") { // the child asks for a fresh process at job rj
			var rj, a, b, c int
			var ro int64
			fmt.Sscanf(last, "R %d %d %d %d %d", &rj, &ro, &a, &b, &c)
			loads, events, panics = loads+a, events+b, panics+c
			fj, fl, sk, fo = rj, 0, 0, ro
			restarts++
			continue
		}
		if err == nil && strings.HasPrefix(last, "D ") {
			var a, b, c int
			fmt.Sscanf(last, "D %d %d %d", &a, &b, &c)
			loads, events, panics = loads+a, events+b, panics+c
			break
		}
		ee, isExit := err.(*exec.ExitError)
		if !isExit || ee.ExitCode() == 3 || !strings.HasPrefix(last, "P ") {
			fmt.Fprintf(os.Stderr, "c13: child failed (%v): %s\n%s\n", err, last, se.String())
			os.Exit(2)
		}
		// the loader ended the process (log.Fatal) during the load announced last
		var pj, pl, pb int
		var po int64
		fmt.Sscanf(last, "P %d %d %d %d", &pj, &pl, &po, &pb)
		name := ""
		if parts := strings.SplitN(last, " ", 6); len(parts) == 6 {
			name = parts[5]
		}
		msg := strings.TrimSpace(se.String())
		if i := strings.LastIndex(msg, "\n"); i >= 0 {
			msg = msg[i+1:]
		}
		if len(msg) > 200 {
			msg = msg[:200]
		}
		of, oerr := os.OpenFile(*out, os.O_APPEND|os.O_WRONLY, 0o644)
		if oerr != nil {
			fmt.Fprintln(os.Stderr, oerr)
			os.Exit(2)
		}
		b, _ := json.Marshal(rec{"e": "Fatal", "name": name, "buf": pb, "exit": ee.ExitCode(), "msg": msg})
		of.Write(append(b, '\n'))
		of.Close()
		fatals++
		restarts++
		loads += np
		events += np // approximation: one line per announced load (File lines not counted here)
		fj, fl, sk, fo = pj, pl+1, 1, po
	}
	st, _ := json.Marshal(rec{"loads": loads, "events": events, "panics": panics, "fatals": fatals, "restarts": restarts})
	fmt.Println(string(st))
}
