package main

// Sessions: a history of loader calls in ONE process through REUSED image
// buffers.  The loader's result must be a function of the bytes it is given at
// the time of the call: earlier loads, the identity of the buffer, an earlier
// content of the same buffer or what a caller did to an earlier result must not
// matter.  A session job is a list of steps:
//
//	put      buf, path | file+gap   copy an image to the START of scratch buffer buf (the buffers are allocated
//	                                once per process and shared by all sessions: same addresses all the time)
//	patch    buf, sym, skip, bytes  overwrite bytes in place at the file position of symbol sym (+skip) in .text
//	load     buf, name, api         load from buf[:n]; the result is kept as result number k (0,1,2.. per session)
//	loadall  buf                    load every sized .text symbol, and "" when there is exactly one (names the
//	                                loader must accept; a refusal ends the process and shows as a Fatal line)
//	check    k                      describe kept result k again ("Still" line): it must not have changed
//	                                (k < 0: the -k most recent results that were not scribbled)
//	scribble k                      the caller overwrites result k (Data bytes, Symbol, metadata) - its own object
//
// After put and patch the CURRENT content of the buffer is summarised with
// debug/elf ("File" line with buf and ver) - that is what later loads are
// judged against by spec/hsaco/HsacoTrace.tla.

import (
	"bytes"
	"debug/elf"
	"fmt"
	"os"
	"path/filepath"

	"github.com/sarchlab/mgpusim/v4/amd/insts"
)

// Step is one step of a session.
type Step struct {
	Op    string   `json:"op"`
	Buf   int      `json:"buf"`
	Path  string   `json:"path,omitempty"`
	File  *AbsFile `json:"file,omitempty"`
	Gap   int      `json:"gap,omitempty"`
	Sym   string   `json:"sym,omitempty"`
	Skip  int      `json:"skip,omitempty"`
	Bytes []int    `json:"bytes,omitempty"`
	Name  string   `json:"name"`
	API   string   `json:"api,omitempty"`
	K     int      `json:"k"`
}

const scratchSize = 1 << 21

// the scratch buffers live as long as the process: every session, and every
// ordinary job, sees the same few addresses again and again
var scratch = map[int][]byte{}

func scratchBuf(id int) []byte {
	b, ok := scratch[id]
	if !ok {
		b = make([]byte, scratchSize)
		scratch[id] = b
	}
	return b
}

// intoScratch copies an image to the start of scratch buffer id and returns that prefix.
func intoScratch(id int, img []byte) ([]byte, error) {
	b := scratchBuf(id)
	if len(img) > len(b) {
		return nil, fmt.Errorf("image of %d bytes does not fit the scratch buffer", len(img))
	}
	n := copy(b, img)
	return b[:n], nil
}

func stepInfo(s *Step) rec {
	r := rec{"op": s.Op, "buf": s.Buf}
	if s.Path != "" {
		r["path"] = s.Path
	}
	if s.Op == "put" && s.File != nil {
		r["gap"] = s.Gap
	}
	if s.Op == "patch" {
		r["sym"], r["skip"], r["bytes"] = s.Sym, s.Skip, s.Bytes
	}
	return r
}

type session struct {
	c    *child
	id   string
	cur  map[int][]byte // current image (prefix of the scratch buffer) per buffer
	ver  map[int]int
	kept map[int]*insts.KernelCodeObject
	dead map[int]bool // scribbled results
	nres int
	ji   int
}

func (s *session) fileEvent(st *Step) error {
	img := s.cur[st.Buf]
	sum, err := summarise(img)
	if err != nil {
		return fmt.Errorf("session %s: debug/elf cannot read buffer %d after %s: %v", s.id, st.Buf, st.Op, err)
	}
	s.ver[st.Buf]++
	s.c.emit(rec{"e": "File", "id": s.id, "buf": st.Buf, "cv": s.ver[st.Buf], "len": len(img), "step": stepInfo(st),
		"path": st.Path, "symtab": sum.Symtab, "secs": sum.Secs, "syms": sum.Syms})
	return nil
}

func (s *session) doLoad(buf int, name, api string, stepNo int) {
	img := s.cur[buf]
	fmt.Fprintf(s.c.ctl, "P %d %d %d %d %s\n", s.ji, sessionLoadMark+stepNo, s.c.off, buf, name)
	s.c.ctl.Flush()
	k := s.nres
	s.nres++
	var co *insts.KernelCodeObject
	r := func() (r rec) {
		defer func() {
			if p := recover(); p != nil {
				s.c.panics++
				r = rec{"e": "Panic", "name": name, "api": api, "msg": fmt.Sprint(p)}
			}
		}()
		switch api {
		case "fs":
			// always the same path: a loader that remembered files by name would be caught too
			path := filepath.Join(s.c.tmp, "session.hsaco")
			if err := os.WriteFile(path, img, 0o644); err != nil {
				panic(err)
			}
			co = insts.LoadKernelCodeObjectFromFS(path, name)
		case "elf":
			f, err := elf.NewFile(bytes.NewReader(img))
			if err != nil {
				panic(err)
			}
			co = insts.LoadKernelCodeObjectFromELF(f, name)
		default:
			co = insts.LoadKernelCodeObjectFromBytes(img, name)
		}
		if co == nil {
			return rec{"e": "Load", "name": name, "api": api, "nil": 1}
		}
		r = describe(co)
		r["e"], r["name"], r["api"] = "Load", name, api
		return r
	}()
	r["id"], r["buf"], r["cv"], r["k"] = s.id, buf, s.ver[buf], k
	s.c.emit(r)
	s.c.loads++
	if co != nil {
		s.kept[k] = co
	}
}

// scribble: what a caller may do to an object it was handed.
func scribble(co *insts.KernelCodeObject) {
	for i := range co.Data {
		co.Data[i] ^= 0xA5
	}
	co.Data = append(co.Data, 0xDE, 0xAD)
	co.Version += 4
	if co.Symbol != nil {
		co.Symbol.Name += "!scribbled"
		co.Symbol.Value += 0x1000
		co.Symbol.Size++
	}
	if m := co.KernelCodeObjectMeta; m != nil {
		m.ComputePgmRsrc1 ^= 0xFFFFFFFF
		m.ComputePgmRsrc2 ^= 0x00000F80
		m.ComputePgmRsrc3++
		m.KernargSegmentByteSize += 8
		m.GroupSegmentByteSize += 256
		m.PrivateSegmentByteSize += 4
		m.KernelCodeEntryByteOffset += 256
		m.EnableSgprKernargSegmentPtr = !m.EnableSgprKernargSegmentPtr
		m.EnableSgprDispatchPtr = !m.EnableSgprDispatchPtr
		m.WFSgprCount += 8
		m.WIVgprCount += 4
	}
}

const sessionLoadMark = 1000000

func (s *session) pick(k int) []int {
	var out []int
	if k >= 0 {
		if _, ok := s.kept[k]; ok && !s.dead[k] {
			out = append(out, k)
		}
		return out
	}
	for i := s.nres - 1; i >= 0 && len(out) < -k; i-- {
		if _, ok := s.kept[i]; ok && !s.dead[i] {
			out = append(out, i)
		}
	}
	return out
}

func (c *child) runSession(ji int, j *Job) error {
	s := &session{c: c, id: j.ID, cur: map[int][]byte{}, ver: map[int]int{}, kept: map[int]*insts.KernelCodeObject{}, dead: map[int]bool{}, ji: ji}
	c.emit(rec{"e": "Reset", "id": j.ID, "session": 1})
	for si := range j.Session {
		st := &j.Session[si]
		switch st.Op {
		case "put":
			var img []byte
			var err error
			if st.Path != "" {
				img, err = os.ReadFile(st.Path)
				if err != nil {
					return err
				}
			} else if st.File != nil {
				img = BuildELF(st.File, st.Gap)
			} else {
				return fmt.Errorf("session %s step %d: put without image", j.ID, si)
			}
			if s.cur[st.Buf], err = intoScratch(st.Buf, img); err != nil {
				return err
			}
			if err := s.fileEvent(st); err != nil {
				return err
			}
		case "patch":
			img := s.cur[st.Buf]
			f, err := elf.NewFile(bytes.NewReader(img))
			if err != nil {
				return err
			}
			text := f.Section(".text")
			syms, _ := f.Symbols()
			pos := -1
			for _, y := range syms {
				// "*": the first sized symbol of .text
				named := y.Name == st.Sym || (st.Sym == "*" && y.Size > 0 && int(y.Section) < len(f.Sections) && f.Sections[y.Section] == text)
				if named && text != nil {
					pos = int(text.Offset + (y.Value - text.Addr))
					skip := st.Skip
					if skip < 0 { // wherever the instructions seem to start (only chooses WHERE to patch)
						skip = 0
						if pos+4 <= len(img) && img[pos] == 1 && img[pos+1] == 0 && img[pos+2] == 0 && img[pos+3] == 0 {
							skip = 256
						}
					}
					if uint64(skip+len(st.Bytes)) > y.Size {
						return fmt.Errorf("session %s step %d: patch outside %q", j.ID, si, y.Name)
					}
					pos += skip
					break
				}
			}
			if pos < 0 || pos+len(st.Bytes) > len(img) {
				return fmt.Errorf("session %s step %d: cannot patch %q", j.ID, si, st.Sym)
			}
			for i, b := range st.Bytes {
				img[pos+i] = byte(b)
			}
			if err := s.fileEvent(st); err != nil {
				return err
			}
		case "load":
			if s.cur[st.Buf] == nil {
				return fmt.Errorf("session %s step %d: load from an empty buffer", j.ID, si)
			}
			s.doLoad(st.Buf, st.Name, st.API, si)
		case "loadall":
			sum, err := summarise(s.cur[st.Buf])
			if err != nil {
				return err
			}
			var names []string
			for _, y := range sum.Syms {
				if y.X > 0 && y.X <= len(sum.Secs) && sum.Secs[y.X-1].N == ".text" && unlimbs(y.S) > 0 {
					names = append(names, y.N)
				}
			}
			apis := []string{"bytes", "bytes", "fs", "bytes", "elf"}
			for i, n := range names {
				s.doLoad(st.Buf, n, apis[(si+i)%len(apis)], si)
			}
			if len(names) == 1 || sum.Symtab == 0 {
				s.doLoad(st.Buf, "", "bytes", si)
			}
		case "check": // k >= 0: that result; k < 0: the -k most recent results the caller has not scribbled
			for _, k := range s.pick(st.K) {
				r := describe(s.kept[k])
				r["e"], r["id"], r["k"] = "Still", j.ID, k
				c.emit(r)
			}
		case "scribble":
			for _, k := range s.pick(st.K) {
				scribble(s.kept[k])
				s.dead[k] = true
				c.emit(rec{"e": "Scribble", "id": j.ID, "k": k})
			}
		default:
			return fmt.Errorf("session %s: unknown op %q", j.ID, st.Op)
		}
	}
	return nil
}
