package main

// A minimal ELF64 little-endian writer: materialises an abstract code-object
// file (sections with addresses and bytes, a symbol table in a given order) as
// a real ELF object that debug/elf - and therefore the real loader - reads.
// It knows nothing about kernels, headers or descriptors: those are bytes
// chosen by the specification (TLC) or by the seeded generator.

import (
	"bytes"
	"encoding/binary"
	"strings"
)

// AbsSec is one section of an abstract file (ELF index = position + 1).
type AbsSec struct {
	N  string `json:"n"`  // name
	A  []int  `json:"a"`  // sh_addr, four 16-bit limbs, most significant first
	D  []int  `json:"d"`  // content (summaries: only for .text / .rodata)
	Sz int    `json:"sz"` // sh_size
}

// AbsSym is one symbol (the null symbol is not listed).
type AbsSym struct {
	N string `json:"n"` // name
	X int    `json:"x"` // st_shndx
	V []int  `json:"v"` // st_value, limbs
	S []int  `json:"s"` // st_size, limbs
	T int    `json:"t"` // st_info (writer: 0 = choose something plausible)
}

// AbsFile is the abstract file of spec/hsaco/HsacoOps.tla.
type AbsFile struct {
	Symtab int      `json:"symtab"` // 1: the file has a .symtab
	Secs   []AbsSec `json:"secs"`
	Syms   []AbsSym `json:"syms"`
}

func limbs64(v uint64) []int {
	return []int{int(v >> 48 & 0xffff), int(v >> 32 & 0xffff), int(v >> 16 & 0xffff), int(v & 0xffff)}
}

func unlimbs(l []int) uint64 {
	var v uint64
	for _, x := range l {
		v = v<<16 | uint64(x&0xffff)
	}
	return v
}

func limbs32(v uint32) []int { return []int{int(v >> 16), int(v & 0xffff)} }

type strtab struct {
	buf bytes.Buffer
	off map[string]uint32
}

func newStrtab() *strtab {
	s := &strtab{off: map[string]uint32{}}
	s.buf.WriteByte(0)
	return s
}

func (s *strtab) add(n string) uint32 {
	if n == "" {
		return 0
	}
	if o, ok := s.off[n]; ok {
		return o
	}
	o := uint32(s.buf.Len())
	s.buf.WriteString(n)
	s.buf.WriteByte(0)
	s.off[n] = o
	return o
}

type shdr struct {
	name            uint32
	typ             uint32
	flags           uint64
	addr, off, size uint64
	link, info      uint32
	align, entsize  uint64
}

// BuildELF writes the abstract file as an ELF64 object.  gap shifts the file
// offsets of the section contents so that offset, address and size never
// coincide by accident.
func BuildELF(f *AbsFile, gap int) []byte {
	le := binary.LittleEndian
	shstr := newStrtab()
	str := newStrtab()
	var body bytes.Buffer
	body.Write(make([]byte, 64)) // ELF header, filled in at the end
	pad := func(al int) {
		for body.Len()%al != 0 {
			body.WriteByte(0xEE)
		}
	}
	hdrs := []shdr{{}}
	allZero := true
	for _, s := range f.Secs {
		pad(16)
		for i := 0; i < gap; i++ {
			body.WriteByte(byte(0xC0 + i%7))
		}
		h := shdr{name: shstr.add(s.N), typ: 1 /*PROGBITS*/, flags: 2 /*ALLOC*/, addr: unlimbs(s.A),
			off: uint64(body.Len()), size: uint64(len(s.D)), align: 1}
		if s.N == ".text" {
			h.flags = 2 | 4
		}
		if strings.HasPrefix(s.N, ".note") {
			h.typ = 7
		}
		if h.addr != 0 {
			allZero = false
		}
		for _, b := range s.D {
			body.WriteByte(byte(b))
		}
		hdrs = append(hdrs, h)
	}
	if f.Symtab != 0 {
		pad(8)
		symoff := body.Len()
		body.Write(make([]byte, 24)) // null symbol
		for _, s := range f.Syms {
			info := byte(s.T)
			if s.T == 0 {
				switch {
				case strings.HasSuffix(s.N, ".kd"):
					info = 0x11 // GLOBAL OBJECT
				case unlimbs(s.S) > 0 && s.X > 0 && s.X <= len(f.Secs) && f.Secs[s.X-1].N == ".text":
					info = 0x12 // GLOBAL FUNC
				case unlimbs(s.S) > 0:
					info = 0x01 // LOCAL OBJECT
				}
			}
			var e [24]byte
			le.PutUint32(e[0:], str.add(s.N))
			e[4] = info
			e[5] = 3 // STV_PROTECTED
			le.PutUint16(e[6:], uint16(s.X))
			le.PutUint64(e[8:], unlimbs(s.V))
			le.PutUint64(e[16:], unlimbs(s.S))
			body.Write(e[:])
		}
		strndx := uint32(len(hdrs) + 1)
		hdrs = append(hdrs, shdr{name: shstr.add(".symtab"), typ: 2, off: uint64(symoff),
			size: uint64(body.Len() - symoff), link: strndx, info: uint32(len(f.Syms) + 1), align: 8, entsize: 24})
		stroff := body.Len()
		body.Write(str.buf.Bytes())
		hdrs = append(hdrs, shdr{name: shstr.add(".strtab"), typ: 3, off: uint64(stroff), size: uint64(str.buf.Len()), align: 1})
	}
	shstrName := shstr.add(".shstrtab")
	shstroff := body.Len()
	body.Write(shstr.buf.Bytes())
	hdrs = append(hdrs, shdr{name: shstrName, typ: 3, off: uint64(shstroff), size: uint64(shstr.buf.Len()), align: 1})
	pad(8)
	shoff := body.Len()
	for _, h := range hdrs {
		var e [64]byte
		le.PutUint32(e[0:], h.name)
		le.PutUint32(e[4:], h.typ)
		le.PutUint64(e[8:], h.flags)
		le.PutUint64(e[16:], h.addr)
		le.PutUint64(e[24:], h.off)
		le.PutUint64(e[32:], h.size)
		le.PutUint32(e[40:], h.link)
		le.PutUint32(e[44:], h.info)
		le.PutUint64(e[48:], h.align)
		le.PutUint64(e[56:], h.entsize)
		body.Write(e[:])
	}
	out := body.Bytes()
	copy(out[0:], []byte{0x7f, 'E', 'L', 'F', 2, 1, 1, 64 /*ELFOSABI_AMDGPU_HSA*/, 1})
	et := uint16(3) // ET_DYN
	if allZero {
		et = 1 // ET_REL
	}
	le.PutUint16(out[16:], et)
	le.PutUint16(out[18:], 224) // EM_AMDGPU
	le.PutUint32(out[20:], 1)
	le.PutUint64(out[40:], uint64(shoff))
	le.PutUint16(out[52:], 64)
	le.PutUint16(out[58:], 64)
	le.PutUint16(out[60:], uint16(len(hdrs)))
	le.PutUint16(out[62:], uint16(len(hdrs)-1))
	return out
}
