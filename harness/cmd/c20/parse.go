package main

// Generation and rendering of accel-sim trace directories, and the parser
// round-trip records.  A file is first built as a list of abstract lines
// (what NvParse.tla talks about); the text given to the real reader is a
// rendering of exactly those lines.

import (
	"fmt"
	"math/rand"
	"os"
	"path/filepath"
	"reflect"
	"strings"

	"github.com/sarchlab/mgpusim/v4/nvidia/nvidiaconfig"
	"github.com/sarchlab/mgpusim/v4/nvidia/tracereader"
)

type tok struct {
	Ty  string `json:"ty"` // x hex number (16-bit limbs) | d decimal | r register | o opcode
	N   []int  `json:"n"`
	S   string `json:"s"`
	Pfx bool   `json:"pfx"` // hex number rendered with a 0x prefix
}

type aLine struct {
	K    string                 // hdr | blank | cmt | tb | warp | insts | inst
	F    map[string]interface{} // logged fields
	Text string
}

type aFile struct {
	Lines []aLine
}

func limbs4(v uint64) []int {
	return []int{int(v >> 48 & 0xffff), int(v >> 32 & 0xffff), int(v >> 16 & 0xffff), int(v & 0xffff)}
}

func (l aLine) logged() map[string]interface{} {
	o := map[string]interface{}{"k": l.K}
	for k, v := range l.F {
		o[k] = v
	}
	return o
}

var regIDs = func() []int {
	r := []int{255}
	for i := 0; i < 32; i++ {
		r = append(r, i)
	}
	return r
}()

var opcodes = []string{"MOV", "S2R", "IMAD", "IMAD.MOV.U32", "IMAD.WIDE", "ISETP.GE.AND", "EXIT", "HFMA2.MMA",
	"ULDC.64", "LDG.E", "STG.E", "FADD", "BRA", "LDS.U.128", "ATOMG.E.ADD.STRONG.GPU"}

type genOpt struct {
	pfx      bool // 0x prefix on memory addresses (as in the shipped traces)
	rich     bool // every instruction-line form
	trailing bool
}

func hexTok(v uint64, pfx bool) tok { return tok{Ty: "x", N: limbs4(v), Pfx: pfx} }
func decTok(v int) tok              { return tok{Ty: "d", N: []int{v}} }

// genInst builds one instruction line: tokens + text.
func genInst(rng *rand.Rand, i int, o genOpt) aLine {
	var toks []tok
	var text []string
	add := func(t tok, s string) {
		toks = append(toks, t)
		text = append(text, s)
	}
	pc := uint64(i * 16)
	if o.rich && rng.Intn(8) == 0 {
		pc = uint64(rng.Int31())
	}
	add(hexTok(pc, false), fmt.Sprintf("%04x", pc))
	mask := uint64(rng.Uint32())
	if rng.Intn(3) == 0 {
		mask = 0xffffffff
	}
	add(hexTok(mask, false), fmt.Sprintf("%08x", mask))
	reg := func() {
		id := regIDs[rng.Intn(len(regIDs))]
		add(tok{Ty: "r", N: []int{id}, S: fmt.Sprintf("R%d", id)}, fmt.Sprintf("R%d", id))
	}
	nd := rng.Intn(2)
	if o.rich && rng.Intn(4) == 0 {
		nd = 2
	}
	add(decTok(nd), fmt.Sprint(nd))
	for j := 0; j < nd; j++ {
		reg()
	}
	op := opcodes[rng.Intn(len(opcodes))]
	add(tok{Ty: "o", N: []int{}, S: op}, op)
	ns := rng.Intn(3)
	if o.rich && rng.Intn(4) == 0 {
		ns = 3 + rng.Intn(2)
	}
	add(decTok(ns), fmt.Sprint(ns))
	for j := 0; j < ns; j++ {
		reg()
	}
	mem := rng.Intn(3) == 0
	if o.rich {
		mem = rng.Intn(4) != 0
	}
	if !mem {
		add(decTok(0), "0")
	} else {
		width := []int{1, 2, 4, 8, 16}[rng.Intn(5)]
		add(decTok(width), fmt.Sprint(width))
		comp := rng.Intn(3)
		add(decTok(comp), fmt.Sprint(comp))
		addr := uint64(0x7f0000000000) + uint64(rng.Int63n(1<<36))
		if rng.Intn(6) == 0 {
			addr = uint64(rng.Int63n(1 << 16))
		}
		// the tracer writes unsigned 64-bit hex: upper half of the range and its boundaries
		switch rng.Intn(8) {
		case 0:
			addr = 1<<63 | uint64(rng.Int63())
		case 1:
			addr = []uint64{1 << 63, 1<<63 - 1, ^uint64(0), 0xffff800000000000, 1 << 32, 1<<32 - 1}[rng.Intn(6)]
		}
		hex := func(a uint64) {
			if o.pfx {
				add(hexTok(a, true), fmt.Sprintf("0x%x", a))
			} else {
				add(hexTok(a, false), fmt.Sprintf("%x", a))
			}
		}
		hex(addr)
		switch comp {
		case 0:
			// list-all form: one address per active thread; the structure keeps the first
			for j := rng.Intn(4); j > 0; j-- {
				hex(addr + uint64(4*(j+1)))
			}
		case 1:
			st := []int{4, 8, 0, -4, 128, 1}[rng.Intn(6)]
			add(decTok(st), fmt.Sprint(st))
		case 2:
			for j := rng.Intn(6); j > 0; j-- {
				d := rng.Intn(4096) - 2048
				add(decTok(d), fmt.Sprint(d))
			}
		}
	}
	imm := 0
	if rng.Intn(3) == 0 {
		imm = rng.Intn(1<<20) - (1 << 19)
	}
	add(decTok(imm), fmt.Sprint(imm))
	line := strings.Join(text, " ")
	if o.trailing {
		line += " "
	}
	return aLine{K: "inst", F: map[string]interface{}{"toks": toks}, Text: line}
}

type hv struct {
	S string `json:"s"`
	N []int  `json:"n"`
}

func hdrLine(key string, v hv, text string) aLine {
	return aLine{K: "hdr", F: map[string]interface{}{"key": key, "v": v}, Text: fmt.Sprintf("-%s = %s", key, text)}
}

// genFile builds the abstract lines of a kernel trace file of the given shape
// (blocks -> warps -> number of instructions).
func genFile(rng *rand.Rand, kid int, shape [][]int, o genOpt) *aFile {
	f := &aFile{}
	add := func(l aLine) { f.Lines = append(f.Lines, l) }
	blank := func(max int) {
		for j := rng.Intn(max + 1); j > 0; j-- {
			add(aLine{K: "blank", F: nil, Text: ""})
		}
	}
	d3 := func() ([]int, string) {
		x, y, z := 1+rng.Intn(300), 1+rng.Intn(4), 1+rng.Intn(2)
		return []int{x, y, z}, fmt.Sprintf("(%d,%d,%d)", x, y, z)
	}
	name := fmt.Sprintf("_Z%dkern%dPKfS0_Pfi", 5+rng.Intn(20), kid)
	hs := []aLine{hdrLine("kernel name", hv{S: name, N: []int{}}, name)}
	num := func(key string, v int) { hs = append(hs, hdrLine(key, hv{N: []int{v}}, fmt.Sprint(v))) }
	num("kernel id", kid)
	g, gt := d3()
	hs = append(hs, hdrLine("grid dim", hv{N: g}, gt))
	b, bt := d3()
	hs = append(hs, hdrLine("block dim", hv{N: b}, bt))
	num("shmem", rng.Intn(49152))
	num("nregs", 8+rng.Intn(120))
	num("binary version", 70+rng.Intn(20))
	num("cuda stream id", rng.Intn(4))
	a1 := uint64(0x7f0000000000) + uint64(rng.Int63n(1<<36))
	hs = append(hs, hdrLine("shmem base_addr", hv{N: limbs4(a1)}, fmt.Sprintf("0x%016x", a1)))
	a2 := uint64(0x7f0000000000) + uint64(rng.Int63n(1<<36))
	hs = append(hs, hdrLine("local mem base_addr", hv{N: limbs4(a2)}, fmt.Sprintf("0x%016x", a2)))
	hs = append(hs, hdrLine("nvbit version", hv{S: "1.7", N: []int{}}, "1.7"))
	hs = append(hs, hdrLine("accelsim tracer version", hv{S: "5", N: []int{}}, "5"))
	li := rng.Intn(2)
	hs = append(hs, hdrLine("enable lineinfo", hv{N: []int{li}}, fmt.Sprint(li)))
	for _, h := range hs {
		add(h)
	}
	blank(1)
	if rng.Intn(5) != 0 {
		add(aLine{K: "cmt", Text: "#traces format = [line_num] PC mask dest_num [reg_dests] opcode src_num [reg_srcs] mem_width [adrrescompress?] [mem_addresses] immediate"})
	}
	blank(3)
	markers := rng.Intn(5) != 0
	pcBase := 0
	for bi, ws := range shape {
		if markers {
			add(aLine{K: "cmt", Text: "#BEGIN_TB"})
			blank(1)
		}
		id := []int{bi % 7, (bi / 7) % 3, bi / 21}
		add(aLine{K: "tb", F: map[string]interface{}{"id": id}, Text: fmt.Sprintf("thread block = %d,%d,%d", id[0], id[1], id[2])})
		blank(1)
		for wi, n := range ws {
			wid := wi
			if o.rich {
				wid = wi*2 + rng.Intn(2)
			}
			add(aLine{K: "warp", F: map[string]interface{}{"id": wid}, Text: fmt.Sprintf("warp = %d", wid)})
			add(aLine{K: "insts", F: map[string]interface{}{"n": n}, Text: fmt.Sprintf("insts = %d", n)})
			for i := 0; i < n; i++ {
				add(genInst(rng, pcBase+i, o))
			}
			blank(1)
		}
		if markers {
			add(aLine{K: "cmt", Text: "#END_TB"})
		}
		blank(1)
	}
	return f
}

func (f *aFile) write(path string, finalNewline bool) {
	var sb strings.Builder
	for i, l := range f.Lines {
		sb.WriteString(l.Text)
		if i < len(f.Lines)-1 || finalNewline {
			sb.WriteString("\n")
		}
	}
	if err := os.WriteFile(path, []byte(sb.String()), 0o644); err != nil {
		panic(err)
	}
}

type listEntry struct {
	K    string `json:"k"` // kernel | H2D | D2H
	Name string `json:"name"`
	Addr []int  `json:"addr"`
	Len  []int  `json:"len"`
	text string
}

func genList(rng *rand.Rand, nk int) []listEntry {
	var out []listEntry
	mc := func() {
		for j := rng.Intn(3); j > 0; j-- {
			a := uint64(0x7f0000000000) + uint64(rng.Int63n(1<<36))
			n := uint64(rng.Int63n(1 << 24))
			k, t := "H2D", "MemcpyHtoD"
			if rng.Intn(3) == 0 {
				k, t = "D2H", "MemcpyDtoH"
			}
			out = append(out, listEntry{K: k, Addr: limbs4(a), Len: limbs4(n), text: fmt.Sprintf("%s,0x%016x,%d", t, a, n)})
		}
	}
	for i := 1; i <= nk; i++ {
		mc()
		nm := fmt.Sprintf("kernel-%d.traceg", i)
		out = append(out, listEntry{K: "kernel", Name: nm, Addr: limbs4(0), Len: limbs4(0), text: nm})
	}
	mc()
	return out
}

// writeTraceDir renders the trace of a simulation scenario as an accel-sim
// directory: kernelslist.g (with interleaved memcpy lines) + one file per kernel.
func writeTraceDir(dir string, sc *Scenario) []*aFile {
	if err := os.MkdirAll(dir, 0o755); err != nil {
		panic(err)
	}
	rng := rand.New(rand.NewSource(sc.ISeed))
	list := genList(rng, len(sc.Tr))
	var sb strings.Builder
	for _, e := range list {
		sb.WriteString(e.text + "\n")
		if rng.Intn(6) == 0 {
			sb.WriteString("\n")
		}
	}
	if err := os.WriteFile(filepath.Join(dir, "kernelslist.g"), []byte(sb.String()), 0o644); err != nil {
		panic(err)
	}
	var files []*aFile
	for k, shape := range sc.Tr {
		o := genOpt{pfx: rng.Intn(2) == 0, rich: rng.Intn(3) == 0, trailing: rng.Intn(2) == 0}
		f := genFile(rng, k+1, shape, o)
		f.write(filepath.Join(dir, fmt.Sprintf("kernel-%d.traceg", k+1)), rng.Intn(4) != 0)
		files = append(files, f)
	}
	return files
}

// ---- reading back what the real parser produced

func unexportedInts(v reflect.Value, name string) ([]int, bool) {
	for v.Kind() == reflect.Ptr {
		v = v.Elem()
	}
	f := v.FieldByName(name)
	if !f.IsValid() {
		return nil, false
	}
	switch f.Kind() {
	case reflect.Array, reflect.Slice:
		out := []int{}
		for i := 0; i < f.Len(); i++ {
			out = append(out, int(f.Index(i).Int()))
		}
		return out, true
	case reflect.Int32, reflect.Int64, reflect.Int:
		return []int{int(f.Int())}, true
	}
	return nil, false
}

func regList(rs []*nvidiaconfig.Register) ([]int, []string) {
	ids, names := []int{}, []string{}
	for _, r := range rs {
		if r == nil {
			ids = append(ids, -1)
			names = append(names, "<nil>")
			continue
		}
		ids = append(ids, int(r.ID()))
		names = append(names, r.String())
	}
	return ids, names
}

func gotInst(in *tracereader.Instruction) map[string]interface{} {
	dr, dn := regList(in.DestRegs)
	sr, sn := regList(in.SrcRegs)
	op := ""
	if in.OpCode != nil {
		op = in.OpCode.String()
	}
	s2 := []int{}
	for _, x := range in.MemAddressSuffix2 {
		s2 = append(s2, int(x))
	}
	o := map[string]interface{}{
		"pc": limbs4(uint64(uint32(in.PC))), "mask": limbs4(uint64(in.Mask)), "dn": int(in.DestNum), "dregs": dr, "dnames": dn,
		"op": op, "sn": int(in.SrcNum), "sregs": sr, "snames": sn, "width": int(in.MemWidth), "comp": int(in.AddressCompress),
		"addr": limbs4(uint64(in.MemAddress)), "s1": int(in.MemAddressSuffix1), "s2": s2, "imm": int(in.Immediate),
	}
	rv := reflect.ValueOf(in)
	tb, ok1 := unexportedInts(rv, "threadblockID")
	w, ok2 := unexportedInts(rv, "warpID")
	o["ids"] = ok1 && ok2
	if ok1 && ok2 {
		o["tb"] = tb
		o["w"] = w[0]
	}
	return o
}

func gotTrace(t *tracereader.KernelTrace) map[string]interface{} {
	h := t.FileHeader
	b2i := 0
	if h.EnableLineinfo {
		b2i = 1
	}
	e := []int{}
	hdr := map[string]hv{
		"kernel name": {S: h.KernelName, N: e}, "kernel id": {N: []int{int(h.KernelID)}},
		"grid dim":  {N: []int{int(h.GridDim[0]), int(h.GridDim[1]), int(h.GridDim[2])}},
		"block dim": {N: []int{int(h.BlockDim[0]), int(h.BlockDim[1]), int(h.BlockDim[2])}},
		"shmem":     {N: []int{int(h.Shmem)}}, "nregs": {N: []int{int(h.Nregs)}},
		"binary version": {N: []int{int(h.BinaryVersion)}}, "cuda stream id": {N: []int{int(h.CudaStreamID)}},
		"shmem base_addr": {N: limbs4(uint64(h.ShmemBaseAddr))}, "local mem base_addr": {N: limbs4(uint64(h.LocalMemBaseAddr))},
		"nvbit version": {S: h.NvbitVersion, N: e}, "accelsim tracer version": {S: h.AccelsimTracerVersion, N: e},
		"enable lineinfo": {N: []int{b2i}},
	}
	blocks := []map[string]interface{}{}
	for i := int64(0); i < t.ThreadblocksCount(); i++ {
		tb := t.Threadblock(i)
		warps := []map[string]interface{}{}
		for j := int64(0); j < tb.WarpsCount(); j++ {
			w := tb.Warp(j)
			insts := []map[string]interface{}{}
			for _, in := range w.Instructions {
				insts = append(insts, gotInst(in))
			}
			wo := map[string]interface{}{"n": int(w.InstsCount), "cnt": int(w.InstructionsCount()), "insts": insts}
			id, ok := unexportedInts(reflect.ValueOf(w), "id")
			wo["ids"] = ok
			if ok {
				wo["id"] = id[0]
			}
			warps = append(warps, wo)
		}
		bo := map[string]interface{}{"warps": warps, "cnt": int(tb.WarpsCount())}
		id, ok := unexportedInts(reflect.ValueOf(tb), "id")
		bo["ids"] = ok
		if ok {
			bo["id"] = id
		}
		blocks = append(blocks, bo)
	}
	return map[string]interface{}{"hdr": hdr, "blocks": blocks, "cnt": int(t.ThreadblocksCount())}
}

func loggedLines(f *aFile) []map[string]interface{} {
	out := []map[string]interface{}{}
	for _, l := range f.Lines {
		out = append(out, l.logged())
	}
	return out
}

// runParse: generate a directory, read it with the real reader, log lines + result.
func runParse(sc *Scenario, r *recorder, tmp string) {
	rng := rand.New(rand.NewSource(sc.ISeed))
	r.emit("Reset", rec{"iseed": sc.ISeed, "pfx": sc.Pfx})
	dir := filepath.Join(tmp, fmt.Sprintf("parse_%d", r.seq))
	if err := os.MkdirAll(dir, 0o755); err != nil {
		panic(err)
	}
	defer os.RemoveAll(dir)
	nk := 1 + rng.Intn(2)
	list := genList(rng, nk)
	var sb strings.Builder
	for _, e := range list {
		sb.WriteString(e.text + "\n")
		if rng.Intn(5) == 0 {
			sb.WriteString("\n")
		}
	}
	if err := os.WriteFile(filepath.Join(dir, "kernelslist.g"), []byte(sb.String()), 0o644); err != nil {
		panic(err)
	}
	var files []*aFile
	for k := 1; k <= nk; k++ {
		shape := [][]int{}
		for b := rng.Intn(sc.Blocks + 1); b > 0; b-- {
			ws := []int{}
			for w := rng.Intn(sc.Warps + 1); w > 0; w-- {
				ws = append(ws, rng.Intn(sc.Insts+1))
			}
			shape = append(shape, ws)
		}
		f := genFile(rng, k, shape, genOpt{pfx: sc.Pfx, rich: true, trailing: rng.Intn(2) == 0})
		f.write(filepath.Join(dir, fmt.Sprintf("kernel-%d.traceg", k)), rng.Intn(4) != 0)
		files = append(files, f)
	}
	rd := new(tracereader.TraceReaderBuilder).WithTraceDirectory(dir).Build()
	metas := rd.GetExecMetas()
	gl := []map[string]interface{}{}
	ki := 0
	type parsed struct {
		lines []map[string]interface{}
		got   map[string]interface{}
	}
	var ps []parsed
	for _, m := range metas {
		switch m.ExecType() {
		case nvidiaconfig.ExecKernel:
			nm, _ := func() (string, bool) {
				f := reflect.ValueOf(m).FieldByName("filename")
				if f.IsValid() && f.Kind() == reflect.String {
					return f.String(), true
				}
				return "", false
			}()
			gl = append(gl, map[string]interface{}{"k": "kernel", "name": nm, "addr": limbs4(0), "len": limbs4(0)})
			t := tracereader.ReadTrace(m)
			if ki < len(files) {
				ps = append(ps, parsed{loggedLines(files[ki]), gotTrace(&t)})
			}
			ki++
		case nvidiaconfig.ExecMemcpy:
			k := "?"
			switch m.Direction {
			case nvidiaconfig.H2D:
				k = "H2D"
			case nvidiaconfig.D2H:
				k = "D2H"
			}
			gl = append(gl, map[string]interface{}{"k": k, "name": "", "addr": limbs4(m.Address), "len": limbs4(m.Length)})
		default:
			gl = append(gl, map[string]interface{}{"k": "?", "name": "", "addr": limbs4(0), "len": limbs4(0)})
		}
	}
	want := []map[string]interface{}{}
	for _, e := range list {
		want = append(want, map[string]interface{}{"k": e.K, "name": e.Name, "addr": e.Addr, "len": e.Len})
	}
	r.emit("List", rec{"want": want, "got": gl})
	for _, p := range ps {
		r.emit("Parsed", rec{"lines": p.lines, "got": p.got})
	}
	if ki != len(files) {
		r.emit("Mismatch", rec{"what": "number of kernel files", "got": ki, "want": len(files)})
	}
}
