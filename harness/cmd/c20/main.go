// c20 runs the real NVIDIA trace-driven simulator (nvidia/driver, gpu, sm,
// subcore, runner, benchmark, tracereader) on generated accel-sim trace
// directories and platforms of arbitrary shape, and writes
//
//   - a message-event trace (one ndjson line per port hook event, plus Reset /
//     Submit / AllFinished / Quiesce / Panic) that NvTrace.tla must accept, and
//   - parser round-trip records (abstract lines + the structure ReadTrace
//     returned) that NvParseTrace.tla must accept.
//
// Everything runs on one goroutine; hangs are decided structurally: the engine
// returned (no pending event) => Quiesce is logged with the work counters the
// code holds at that moment, and the trace spec refuses it if work is left.
package main

import (
	"bufio"
	"encoding/json"
	"flag"
	"fmt"
	"io"
	"math/rand"
	"os"
	"path/filepath"
	"reflect"
	"strings"

	log "github.com/sirupsen/logrus"

	"github.com/sarchlab/akita/v4/sim"
	"github.com/sarchlab/mgpusim/v4/nvidia/benchmark"
	nvdriver "github.com/sarchlab/mgpusim/v4/nvidia/driver"
	"github.com/sarchlab/mgpusim/v4/nvidia/gpu"
	"github.com/sarchlab/mgpusim/v4/nvidia/message"
	"github.com/sarchlab/mgpusim/v4/nvidia/nvidiaconfig"
	"github.com/sarchlab/mgpusim/v4/nvidia/platform"
	"github.com/sarchlab/mgpusim/v4/nvidia/runner"
	"github.com/sarchlab/mgpusim/v4/nvidia/sm"
	"github.com/sarchlab/mgpusim/v4/nvidia/subcore"
)

// ---------------------------------------------------------------- scenarios

// DevShape is the shape of one device.
type DevShape struct {
	SM  int `json:"sm"`
	Sub int `json:"sub"`
}

// Scenario describes one run.
type Scenario struct {
	Mode  string     `json:"mode"` // "sim" | "parse" | "dir"
	Shape []DevShape `json:"shape"`
	// Tr: kernels -> blocks -> warps -> number of instructions
	Tr [][][]int `json:"tr"`
	// SubmitAt[k]: 0 = before the engine starts; n > 0 = after n trace events of the
	// current batch; -1 = after the engine went idle (new batch).
	SubmitAt []int     `json:"submitAt"`
	Engine   string    `json:"engine"` // "serial" (akita SerialEngine) | "shuffle"
	ESeed    int64     `json:"eseed"`
	ISeed    int64     `json:"iseed"` // instruction contents and file layout
	FreqDrv  float64   `json:"freqDrv"`
	FreqGPU  []float64 `json:"freqGPU"`
	Runner   bool      `json:"runner"` // submit everything through runner.Runner.Run
	Dir      string    `json:"dir"`    // mode "dir": existing trace directory
	A100     bool      `json:"a100"`   // mode "dir": use platform.A100PlatformBuilder
	// parse mode
	Blocks int  `json:"blocks"`
	Warps  int  `json:"warps"`
	Insts  int  `json:"insts"`
	Pfx    bool `json:"pfx"` // render memory addresses with the 0x prefix of the shipped traces
}

// --------------------------------------------------------------- recording

type rec map[string]interface{}

type recorder struct {
	enc   *json.Encoder
	seq   int
	count map[string]int
	tick  *tickRec // optional second log grouped by engine event
}

// tickRec writes the tick-level log: the port events of one engine event are
// grouped into one Tick line carrying the component (or connection) that ticked.
type tickRec struct {
	r       *recorder
	cur     []rec
	handler map[sim.Handler]portID
}

func connOf(p portID) portID {
	switch p.K {
	case "drv", "gU":
		return portID{"ConnDriver", 0, 0, 0}
	case "gD", "sU":
		return portID{"ConnGPU", p.D, 0, 0}
	}
	return portID{"ConnSM", p.D, p.S, 0}
}

func (t *tickRec) observe(e string, f rec) {
	switch {
	case e == "Reset" || e == "Submit" || e == "Quiesce" || e == "Panic" || e == "Livelock" || e == "Mismatch":
		t.r.emit(e, f)
	case e == "Xfer":
		t.cur = append(t.cur, rec{"e": "Xfer", "p": f["from"], "q": f["to"], "pl": f["t"]})
	case strings.HasPrefix(e, "Send") || strings.HasPrefix(e, "Recv"):
		q := f["p"]
		if d, ok := f["dst"]; ok {
			q = d
		}
		var pl interface{} = f["pl"]
		if id, ok := f["id"].(portID); ok {
			pl = []int{id.D, id.S, id.C}
			if fin, _ := f["fin"].(bool); !fin {
				e += "!notFinished"
			}
		}
		t.cur = append(t.cur, rec{"e": e, "p": f["p"], "q": q, "pl": pl})
	}
}

func (t *tickRec) begin() { t.cur = []rec{} }

func (t *tickRec) end(h sim.Handler) {
	id, ok := t.handler[h]
	if !ok {
		// a connection: learnt from the first message it moves
		id = portID{"?", 0, 0, 0}
		for _, ev := range t.cur {
			if ev["e"] == "Xfer" {
				id = connOf(ev["p"].(portID))
				t.handler[h] = id
				break
			}
		}
	}
	t.r.emit("Tick", rec{"x": id, "evs": t.cur})
	t.cur = []rec{}
}

func (r *recorder) emit(e string, f rec) {
	if r.tick != nil {
		r.tick.observe(e, f)
	}
	r.seq++
	r.count[e]++
	o := rec{"e": e, "seq": r.seq}
	for k, v := range f {
		o[k] = v
	}
	if err := r.enc.Encode(o); err != nil {
		panic(err)
	}
}

type portID struct {
	K string `json:"k"`
	D int    `json:"d"`
	S int    `json:"s"`
	C int    `json:"c"`
}

// ----------------------------------------------------------- shuffle engine

// shufEngine is a serial event engine with akita's ordering contract (time
// order; at equal time primary events before secondary ones) that breaks the
// remaining ties (events of the same class at the same time) with a seeded
// random choice: akita's heap gives no order guarantee for those either.
type shufEngine struct {
	sim.HookableBase
	now       sim.VTimeInSec
	prim, sec []sim.Event
	rng       *rand.Rand
}

func (e *shufEngine) Schedule(evt sim.Event) {
	if evt.Time() < e.now {
		panic("scheduling an event earlier than current time")
	}
	if evt.IsSecondary() {
		e.sec = append(e.sec, evt)
	} else {
		e.prim = append(e.prim, evt)
	}
}

func (e *shufEngine) CurrentTime() sim.VTimeInSec { return e.now }
func (e *shufEngine) Pause()                      {}
func (e *shufEngine) Continue()                   {}

func minTime(q []sim.Event) sim.VTimeInSec {
	t := q[0].Time()
	for _, x := range q[1:] {
		if x.Time() < t {
			t = x.Time()
		}
	}
	return t
}

func (e *shufEngine) pick(q *[]sim.Event, t sim.VTimeInSec) sim.Event {
	var idx []int
	for i, x := range *q {
		if x.Time() == t {
			idx = append(idx, i)
		}
	}
	i := idx[e.rng.Intn(len(idx))]
	evt := (*q)[i]
	*q = append((*q)[:i], (*q)[i+1:]...)
	return evt
}

func (e *shufEngine) Run() error {
	for len(e.prim)+len(e.sec) > 0 {
		var evt sim.Event
		switch {
		case len(e.sec) == 0:
			evt = e.pick(&e.prim, minTime(e.prim))
		case len(e.prim) == 0:
			evt = e.pick(&e.sec, minTime(e.sec))
		default:
			tp, ts := minTime(e.prim), minTime(e.sec)
			if tp <= ts {
				evt = e.pick(&e.prim, tp)
			} else {
				evt = e.pick(&e.sec, ts)
			}
		}
		e.now = evt.Time()
		ctx := sim.HookCtx{Domain: e, Pos: sim.HookPosBeforeEvent, Item: evt}
		e.InvokeHook(ctx)
		_ = evt.Handler().Handle(evt)
		ctx.Pos = sim.HookPosAfterEvent
		e.InvokeHook(ctx)
	}
	return nil
}

// hook adapts a function to sim.Hook (a pointer, so that hook lists can compare entries).
type hook struct{ f func(ctx sim.HookCtx) }

func (h *hook) Func(ctx sim.HookCtx) { h.f(ctx) }

func hookFn(f func(ctx sim.HookCtx)) sim.Hook { return &hook{f} }

// ------------------------------------------------------------ the platform

type plat struct {
	p      *platform.Platform
	gpus   []*gpu.GPU
	sms    [][]*sm.SM
	subs   [][][]*subcore.Subcore
	shape  []DevShape
	ports  map[string]portID // port name -> id
	units  map[string]portID // GPU / SM / Subcore ID -> coordinates
	rec    *recorder
	events int // trace events of the current batch
}

func kernelShape(k *nvidiaconfig.Kernel) [][]int {
	out := make([][]int, 0, len(k.Threadblocks))
	for i := range k.Threadblocks {
		out = append(out, blockShape(&k.Threadblocks[i]))
	}
	return out
}

func blockShape(b *nvidiaconfig.Threadblock) []int {
	out := make([]int, 0, len(b.Warps))
	for i := range b.Warps {
		out = append(out, int(b.Warps[i].InstructionsCount))
	}
	return out
}

func findSM(g *gpu.GPU, name string, j int, used map[*sm.SM]bool) *sm.SM {
	want := fmt.Sprintf("%s.SM(%d)", name, j)
	for _, s := range g.SMs {
		if s.Name() == want {
			return s
		}
	}
	// renamed: any not yet used (stable by name)
	var best *sm.SM
	for _, s := range g.SMs {
		if !used[s] && (best == nil || s.Name() < best.Name()) {
			best = s
		}
	}
	return best
}

func findSub(s *sm.SM, j int, used map[*subcore.Subcore]bool) *subcore.Subcore {
	want := fmt.Sprintf("%s.Subcore(%d)", s.Name(), j)
	for _, c := range s.Subcores {
		if c.Name() == want {
			return c
		}
	}
	var best *subcore.Subcore
	for _, c := range s.Subcores {
		if !used[c] && (best == nil || c.Name() < best.Name()) {
			best = c
		}
	}
	return best
}

func (pl *plat) index(drvPortName string) {
	pl.ports = map[string]portID{}
	pl.units = map[string]portID{}
	pl.ports[drvPortName] = portID{"drv", 0, 0, 0}
	pl.sms = nil
	pl.subs = nil
	pl.shape = nil
	for d, g := range pl.gpus {
		pl.units[g.ID] = portID{"dev", d + 1, 0, 0}
		pl.ports[g.Name()+".ToDriver"] = portID{"gU", d + 1, 0, 0}
		pl.ports[g.Name()+".ToSMs"] = portID{"gD", d + 1, 0, 0}
		usedS := map[*sm.SM]bool{}
		var smRow []*sm.SM
		var subRow [][]*subcore.Subcore
		nsub := 0
		for j := 0; j < len(g.SMs); j++ {
			s := findSM(g, g.Name(), j, usedS)
			usedS[s] = true
			smRow = append(smRow, s)
			pl.units[s.ID] = portID{"sm", d + 1, j + 1, 0}
			pl.ports[s.Name()+".ToGPU"] = portID{"sU", d + 1, j + 1, 0}
			pl.ports[s.Name()+".ToSubcores"] = portID{"sD", d + 1, j + 1, 0}
			usedC := map[*subcore.Subcore]bool{}
			var cs []*subcore.Subcore
			for c := 0; c < len(s.Subcores); c++ {
				sc := findSub(s, c, usedC)
				usedC[sc] = true
				cs = append(cs, sc)
				pl.units[sc.ID] = portID{"sub", d + 1, j + 1, c + 1}
				pl.ports[sc.Name()+".ToSM"] = portID{"c", d + 1, j + 1, c + 1}
			}
			nsub = len(cs)
			subRow = append(subRow, cs)
		}
		pl.sms = append(pl.sms, smRow)
		pl.subs = append(pl.subs, subRow)
		pl.shape = append(pl.shape, DevShape{len(smRow), nsub})
	}
}

func (pl *plat) portOf(name sim.RemotePort) portID {
	if p, ok := pl.ports[string(name)]; ok {
		return p
	}
	return portID{"?" + string(name), 0, 0, 0}
}

func (pl *plat) unitOf(id string) portID {
	if p, ok := pl.units[id]; ok {
		return p
	}
	return portID{"?", 0, 0, 0}
}

// describe returns the message kind and its logged fields.
func (pl *plat) describe(m sim.Msg) (string, rec) {
	switch x := m.(type) {
	case *message.DriverToDeviceMsg:
		return "K", rec{"pl": kernelShape(&x.Kernel)}
	case *message.DeviceToSMMsg:
		return "B", rec{"pl": blockShape(&x.Threadblock)}
	case *message.SMToSubcoreMsg:
		return "W", rec{"pl": int(x.Warp.InstructionsCount)}
	case *message.DeviceToDriverMsg:
		return "KF", rec{"id": pl.unitOf(x.DeviceID), "fin": x.KernelFinished}
	case *message.SMToDeviceMsg:
		return "BF", rec{"id": pl.unitOf(x.SMID), "fin": x.ThreadblockFinished}
	case *message.SubcoreToSMMsg:
		return "WF", rec{"id": pl.unitOf(x.SubcoreID), "fin": x.WarpFinished}
	}
	return "Unknown", rec{"type": fmt.Sprintf("%T", m)}
}

func (pl *plat) hook(p sim.Port) {
	me := pl.portOf(p.AsRemote())
	p.AcceptHook(hookFn(func(ctx sim.HookCtx) {
		m, ok := ctx.Item.(sim.Msg)
		if !ok {
			return
		}
		t, f := pl.describe(m)
		switch ctx.Pos {
		case sim.HookPosPortMsgSend:
			f["p"] = me
			f["dst"] = pl.portOf(m.Meta().Dst)
			pl.events++
			pl.rec.emit("Send"+t, f)
		case sim.HookPosPortMsgRecvd:
			pl.events++
			pl.rec.emit("Xfer", rec{"from": pl.portOf(m.Meta().Src), "to": me, "t": t})
		case sim.HookPosPortMsgRetrieveIncoming:
			f["p"] = me
			pl.events++
			pl.rec.emit("Recv"+t, f)
		}
	}))
}

func (pl *plat) hookAll(drvPort sim.Port) {
	pl.hook(drvPort)
	for d, g := range pl.gpus {
		pl.hook(g.GetPortByName(g.Name() + ".ToDriver"))
		pl.hook(g.GetPortByName(g.Name() + ".ToSMs"))
		for j, s := range pl.sms[d] {
			pl.hook(s.GetPortByName(s.Name() + ".ToGPU"))
			pl.hook(s.GetPortByName(s.Name() + ".ToSubcores"))
			for _, c := range pl.subs[d][j] {
				pl.hook(c.GetPortByName(c.Name() + ".ToSM"))
			}
		}
	}
}

// reflection: read-only view of the unexported work counters (the state the
// property is anchored in).  A missing field disables the comparison.
func fieldInt(v interface{}, name string) (int, bool) {
	rv := reflect.ValueOf(v)
	for rv.Kind() == reflect.Ptr {
		rv = rv.Elem()
	}
	f := rv.FieldByName(name)
	if !f.IsValid() {
		return 0, false
	}
	switch f.Kind() {
	case reflect.Int, reflect.Int64, reflect.Int32:
		return int(f.Int()), true
	case reflect.Slice:
		return f.Len(), true
	}
	return 0, false
}

func fields(v interface{}, names ...string) ([]int, bool) {
	out := make([]int, 0, len(names))
	for _, n := range names {
		x, ok := fieldInt(v, n)
		if !ok {
			return nil, false
		}
		out = append(out, x)
	}
	return out, true
}

func (pl *plat) quiesce() {
	warps := [][]int{}
	insts := [][][]int{}
	ok := true
	stG := [][]int{}
	stS := [][][]int{}
	stC := [][][][]int{}
	stD, k := fields(pl.p.Driver, "undispatchedKernels", "freeDevices", "unfinishedKernelsCount")
	ok = ok && k
	for d, g := range pl.gpus {
		wr := []int{}
		ir := [][]int{}
		x, k := fields(g, "undispatchedThreadblocks", "freeSMs", "unfinishedThreadblocksCount", "finishedKernelsCount")
		ok = ok && k
		stG = append(stG, x)
		sr := [][]int{}
		cr := [][][]int{}
		for j, s := range pl.sms[d] {
			wr = append(wr, int(s.GetTotalWarpsCount()))
			x, k := fields(s, "undispatchedWarps", "freeSubcores", "unfinishedWarpsCount", "finishedThreadblocksCount")
			ok = ok && k
			sr = append(sr, x)
			ic := []int{}
			cc := [][]int{}
			for _, c := range pl.subs[d][j] {
				ic = append(ic, int(c.GetTotalInstsCount()))
				x, k := fields(c, "unfinishedInstsCount", "finishedWarpsCount")
				ok = ok && k
				cc = append(cc, x)
			}
			ir = append(ir, ic)
			cr = append(cr, cc)
		}
		warps = append(warps, wr)
		insts = append(insts, ir)
		stS = append(stS, sr)
		stC = append(stC, cr)
	}
	f := rec{"warps": warps, "insts": insts, "hasSt": ok}
	if ok {
		f["st"] = rec{"drv": stD, "gpu": stG, "sm": stS, "sub": stC}
	}
	pl.rec.emit("Quiesce", f)
}

type logHook struct{ pl **plat }

func (h logHook) Levels() []log.Level { return log.AllLevels }
func (h logHook) Fire(e *log.Entry) error {
	if *h.pl != nil && strings.Contains(e.Message, "All kernels finished") {
		(*h.pl).events++
		(*h.pl).rec.emit("AllFinished", rec{})
	}
	return nil
}

var curPlat *plat

func buildPlatform(sc *Scenario, r *recorder) (*plat, sim.Engine) {
	var eng sim.Engine
	if sc.Engine == "serial" {
		eng = sim.NewSerialEngine()
	} else {
		eng = &shufEngine{rng: rand.New(rand.NewSource(sc.ESeed))}
	}
	fd := sc.FreqDrv
	if fd == 0 {
		fd = 1e9
	}
	p := new(platform.Platform)
	p.Engine = eng
	p.Driver = new(nvdriver.DriverBuilder).WithEngine(eng).WithFreq(sim.Freq(fd)).Build("Driver")
	pl := &plat{p: p, rec: r}
	for d, sh := range sc.Shape {
		fg := fd
		if d < len(sc.FreqGPU) && sc.FreqGPU[d] != 0 {
			fg = sc.FreqGPU[d]
		}
		g := new(gpu.GPUBuilder).WithEngine(eng).WithFreq(sim.Freq(fg)).
			WithSMsCount(int64(sh.SM)).WithSubcoresCountPerSM(int64(sh.Sub)).Build(fmt.Sprintf("GPU(%d)", d))
		p.Driver.RegisterGPU(g)
		p.Devices = append(p.Devices, g)
		pl.gpus = append(pl.gpus, g)
	}
	return pl, eng
}

func driverPort(d *nvdriver.Driver) sim.Port {
	for _, n := range []string{"ToDevice", d.Name() + ".ToDevice"} {
		if p := tryPort(d, n); p != nil {
			return p
		}
	}
	panic("driver port not found")
}

func tryPort(d *nvdriver.Driver, name string) (p sim.Port) {
	defer func() {
		if recover() != nil {
			p = nil
		}
	}()
	return d.GetPortByName(name)
}

type livelock struct{ events int }

// runSim executes one simulation scenario.
func runSim(sc *Scenario, r *recorder, tmp string) {
	var dir string
	if sc.Mode == "dir" {
		dir = sc.Dir
	} else {
		// the platform and the trace are known up front: log them before any real code runs
		r.emit("Reset", rec{"shape": sc.Shape, "tr": sc.Tr, "engine": sc.Engine, "runner": sc.Runner})
		dir = filepath.Join(tmp, fmt.Sprintf("trace_%d", r.seq))
		writeTraceDir(dir, sc)
		defer os.RemoveAll(dir)
	}
	bm := new(benchmark.BenchmarkBuilder).WithTraceDirectory(dir).Build()
	var pl *plat
	var eng sim.Engine
	if sc.A100 {
		p := new(platform.A100PlatformBuilder).WithFreq(1 * sim.Hz).Build()
		pl = &plat{p: p, rec: r, gpus: p.Devices}
		eng = p.Engine
	} else {
		pl, eng = buildPlatform(sc, r)
	}
	dp := driverPort(pl.p.Driver)
	pl.index(string(dp.AsRemote()))
	var kernels []*benchmark.ExecKernel
	for _, ex := range bm.TraceExecs {
		if ek, ok := ex.(*benchmark.ExecKernel); ok {
			kernels = append(kernels, ek)
		}
	}
	tr := sc.Tr
	if sc.Mode == "dir" {
		tr = [][][]int{}
		for _, ek := range kernels {
			tr = append(tr, kernelShape(ek.GetKernel()))
		}
		r.emit("Reset", rec{"shape": pl.shape, "tr": tr, "engine": sc.Engine, "runner": sc.Runner})
	} else if !reflect.DeepEqual(pl.shape, sc.Shape) {
		r.emit("Mismatch", rec{"what": "platform shape", "got": pl.shape, "want": sc.Shape})
		return
	}
	// Livelock is decided structurally: a run needs a number of engine events that is linear
	// in the size of the trace; far beyond that the run is aborted and the trace spec has no
	// action for the Livelock line.
	budget := 20000
	for _, k := range tr {
		budget += 400
		for _, b := range k {
			budget += 400
			for _, n := range b {
				budget += 400 * (1 + n)
			}
		}
	}
	if r.tick != nil {
		t := r.tick
		t.handler = map[sim.Handler]portID{pl.p.Driver.TickingComponent: {"Driver", 0, 0, 0}}
		for d, g := range pl.gpus {
			t.handler[g.TickingComponent] = portID{"GPU", d + 1, 0, 0}
			for j, s := range pl.sms[d] {
				t.handler[s.TickingComponent] = portID{"SM", d + 1, j + 1, 0}
				for c, sc := range pl.subs[d][j] {
					t.handler[sc.TickingComponent] = portID{"Subcore", d + 1, j + 1, c + 1}
				}
			}
		}
		eng.AcceptHook(hookFn(func(ctx sim.HookCtx) {
			evt, ok := ctx.Item.(sim.Event)
			if !ok {
				return
			}
			if ctx.Pos == sim.HookPosBeforeEvent {
				t.begin()
			} else if ctx.Pos == sim.HookPosAfterEvent {
				t.end(evt.Handler())
			}
		}))
	}
	handled := 0
	eng.AcceptHook(hookFn(func(ctx sim.HookCtx) {
		if ctx.Pos == sim.HookPosAfterEvent {
			handled++
			if handled > budget {
				panic(livelock{handled})
			}
		}
	}))
	pl.hookAll(dp)
	curPlat = pl
	defer func() { curPlat = nil }()

	submitted := 0
	submit := func() {
		ek := kernels[submitted]
		k := ek.GetKernel()
		wcs := []int{}
		for i := range k.Threadblocks {
			wcs = append(wcs, int(k.Threadblocks[i].WarpsCount))
		}
		submitted++
		r.emit("Submit", rec{"k": submitted, "pl": kernelShape(k), "tbc": int(k.ThreadblocksCount), "wcs": wcs})
	}
	if len(kernels) != len(tr) {
		r.emit("Mismatch", rec{"what": "number of kernels", "got": len(kernels), "want": len(tr)})
		return
	}
	at := func(k int) int {
		if k < len(sc.SubmitAt) {
			return sc.SubmitAt[k]
		}
		return 0
	}
	if sc.Runner {
		// the shipped entry point: everything is submitted by Runner.Run
		for range kernels {
			submit()
		}
		rn := new(runner.RunnerBuilder).WithPlatform(pl.p).Build()
		rn.AddBenchmark(bm)
		rn.Run()
		pl.quiesce()
		return
	}
	n := len(kernels)
	doSubmit := func(tick bool) {
		ek := kernels[submitted]
		submit()
		ek.Run(pl.p.Driver)
		if tick {
			pl.p.Driver.TickLater()
		}
	}
	eng.AcceptHook(hookFn(func(ctx sim.HookCtx) {
		if ctx.Pos != sim.HookPosAfterEvent {
			return
		}
		for submitted < n {
			a := at(submitted)
			if a == 0 || (a > 0 && pl.events >= a) {
				doSubmit(true)
			} else {
				break
			}
		}
	}))
	for {
		pl.events = 0
		if submitted < n && at(submitted) == -1 {
			doSubmit(false) // opens a new batch after the engine went idle
		}
		for submitted < n && at(submitted) == 0 {
			doSubmit(false)
		}
		pl.p.Driver.TickLater()
		_ = eng.Run()
		// mid-run submission points the run never reached are taken at idle
		for submitted < n && at(submitted) > 0 {
			doSubmit(true)
			for submitted < n && at(submitted) == 0 {
				doSubmit(true)
			}
			_ = eng.Run()
		}
		pl.quiesce()
		if submitted >= n {
			break
		}
	}
}

func safely(r *recorder, f func()) {
	defer func() {
		if x := recover(); x != nil {
			if ll, ok := x.(livelock); ok {
				r.emit("Livelock", rec{"events": ll.events})
				return
			}
			msg := fmt.Sprint(x)
			if e, ok := x.(*log.Entry); ok {
				msg = e.Message
			}
			if len(msg) > 300 {
				msg = msg[:300]
			}
			r.emit("Panic", rec{"msg": msg})
		}
	}()
	f()
}

func main() {
	scen := flag.String("scen", "", "scenario file (JSON list)")
	out := flag.String("out", "trace.ndjson", "message-event trace output")
	pout := flag.String("pout", "", "parser round-trip output")
	tout := flag.String("tout", "", "tick-level trace output (one line per engine event)")
	flag.Parse()

	// the simulator prints the finish time on stdout and logs through logrus
	stdout := os.Stdout
	devnull, _ := os.OpenFile(os.DevNull, os.O_WRONLY, 0)
	os.Stdout = devnull
	log.SetOutput(io.Discard)
	log.SetLevel(log.InfoLevel)
	log.AddHook(logHook{&curPlat})

	data, err := os.ReadFile(*scen)
	if err != nil {
		panic(err)
	}
	var scs []Scenario
	if err := json.Unmarshal(data, &scs); err != nil {
		panic(err)
	}
	tmp, err := os.MkdirTemp("", "c20traces")
	if err != nil {
		panic(err)
	}
	defer os.RemoveAll(tmp)

	f, err := os.Create(*out)
	if err != nil {
		panic(err)
	}
	w := bufio.NewWriter(f)
	r := &recorder{enc: json.NewEncoder(w), count: map[string]int{}}
	var pr *recorder
	var pw *bufio.Writer
	var pf *os.File
	if *pout != "" {
		pf, err = os.Create(*pout)
		if err != nil {
			panic(err)
		}
		pw = bufio.NewWriter(pf)
		pr = &recorder{enc: json.NewEncoder(pw), count: map[string]int{}}
	}
	var tw *bufio.Writer
	var tf *os.File
	if *tout != "" {
		tf, err = os.Create(*tout)
		if err != nil {
			panic(err)
		}
		tw = bufio.NewWriter(tf)
		r.tick = &tickRec{r: &recorder{enc: json.NewEncoder(tw), count: map[string]int{}}}
	}
	runs, parses := 0, 0
	for i := range scs {
		sc := &scs[i]
		switch sc.Mode {
		case "parse":
			if pr == nil {
				panic("parse scenario without -pout")
			}
			parses++
			safely(pr, func() { runParse(sc, pr, tmp) })
		default:
			runs++
			safely(r, func() { runSim(sc, r, tmp) })
		}
	}
	w.Flush()
	f.Close()
	stats := map[string]int{"runs": runs, "events": r.seq, "parses": parses}
	for k, v := range r.count {
		stats["n"+k] = v
	}
	if tw != nil {
		tw.Flush()
		tf.Close()
		stats["tevents"] = r.tick.r.seq
	}
	if pr != nil {
		pw.Flush()
		pf.Close()
		stats["pevents"] = pr.seq
	}
	js, _ := json.Marshal(stats)
	fmt.Fprintln(stdout, string(js))
}
