package sched

import (
	"container/heap"
	"sync"
	"sync/atomic"

	"github.com/sarchlab/akita/v4/sim"
)

type evq []sim.Event

func (q evq) Len() int { return len(q) }
func (q evq) Less(i, j int) bool {
	if q[i].Time() != q[j].Time() {
		return q[i].Time() < q[j].Time()
	}
	return !q[i].IsSecondary() && q[j].IsSecondary()
}
func (q evq) Swap(i, j int)       { q[i], q[j] = q[j], q[i] }
func (q *evq) Push(x interface{}) { *q = append(*q, x.(sim.Event)) }
func (q *evq) Pop() interface{} {
	o := *q
	n := len(o)
	x := o[n-1]
	*q = o[:n-1]
	return x
}

// Engine re-implements the Run/Schedule/Pause/Continue protocol of akita's
// sim.SerialEngine (v4.9.0) statement by statement — same pauseLock and
// single-run lock, noMoreEvent() checked before pauseLock is taken — with a
// yield point at the two places where the interleaving with other host threads
// matters: the top of the Run loop ("loop") and before taking pauseLock
// ("lockpause"). The driver only sees the sim.Engine interface.
type Engine struct {
	sim.HookableBase
	S *Sched

	qmu sync.Mutex
	now sim.VTimeInSec
	q   evq

	isPaused     bool
	isPausedLock sync.Mutex
	pauseLock    sync.Mutex
	held         int32

	singleRunLock sync.Mutex
	Handled       int
}

// NewEngine creates an engine bound to a scheduler.
func NewEngine(s *Sched) *Engine { return &Engine{S: s} }

// Schedule registers an event.
func (e *Engine) Schedule(evt sim.Event) {
	e.qmu.Lock()
	defer e.qmu.Unlock()
	if evt.Time() < e.now {
		panic("scheduling an event earlier than current time")
	}
	heap.Push(&e.q, evt)
}

// CurrentTime returns the simulated time.
func (e *Engine) CurrentTime() sim.VTimeInSec {
	e.qmu.Lock()
	defer e.qmu.Unlock()
	return e.now
}

func (e *Engine) noMoreEvent() bool {
	e.qmu.Lock()
	defer e.qmu.Unlock()
	return e.q.Len() == 0
}

// PendingEvents is the number of scheduled events.
func (e *Engine) PendingEvents() int {
	e.qmu.Lock()
	defer e.qmu.Unlock()
	return e.q.Len()
}

// PauseFree tells whether pauseLock is free (used by the scheduler to decide
// whether a thread parked before Pause()/pauseLock.Lock() can be granted).
func (e *Engine) PauseFree() bool { return atomic.LoadInt32(&e.held) == 0 }

// Run is SerialEngine.Run with yield points.
func (e *Engine) Run() error {
	e.singleRunLock.Lock()
	defer e.singleRunLock.Unlock()
	for {
		e.S.Yield("loop", nil)
		if e.noMoreEvent() {
			return nil
		}
		e.S.Yield("lockpause", nil)
		e.pauseLock.Lock()
		atomic.StoreInt32(&e.held, 1)
		e.qmu.Lock()
		evt := heap.Pop(&e.q).(sim.Event)
		e.now = evt.Time()
		e.qmu.Unlock()
		e.Handled++
		_ = evt.Handler().Handle(evt)
		atomic.StoreInt32(&e.held, 0)
		e.pauseLock.Unlock()
	}
}

// Pause is SerialEngine.Pause.
func (e *Engine) Pause() {
	e.isPausedLock.Lock()
	defer e.isPausedLock.Unlock()
	if e.isPaused {
		return
	}
	e.pauseLock.Lock()
	atomic.StoreInt32(&e.held, 1)
	e.isPaused = true
}

// Continue is SerialEngine.Continue.
func (e *Engine) Continue() {
	e.isPausedLock.Lock()
	defer e.isPausedLock.Unlock()
	if !e.isPaused {
		return
	}
	atomic.StoreInt32(&e.held, 0)
	e.pauseLock.Unlock()
	e.isPaused = false
}
