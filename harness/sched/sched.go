// Package sched is a controlled scheduler for goroutines instrumented with
// yield hooks. Every instrumented goroutine parks at each yield point until the
// scheduler grants it one step; after a grant the scheduler waits until the
// system is quiescent again: every known goroutine is parked at a yield point,
// blocked in a real blocking operation (decided from the Go runtime's goroutine
// state, not from a clock), or gone. A hang is therefore a structural fact:
// "no goroutine can be granted a step and the scenario is not finished".
package sched

import (
	"bytes"
	"fmt"
	"regexp"
	"runtime"
	"strconv"
	"strings"
	"sync"
	"time"
)

var settleTimeout = 20 * time.Second

// State of a thread as seen by the scheduler.
const (
	Parked  = "parked"  // at a yield point, waiting for a grant
	Blocked = "blocked" // inside a blocking operation of the real code
	Gone    = "gone"    // goroutine has ended
	Running = "running"
)

// Thread is one instrumented goroutine.
type Thread struct {
	Name   string
	GID    int
	State  string
	Point  string      // yield point where parked (or last passed, when blocked)
	Key    interface{} // key passed at the yield point
	BlkOn  string      // runtime wait reason when blocked
	resume chan struct{}
}

type arrival struct {
	gid    int
	point  string
	key    interface{}
	resume chan struct{}
}

// Sched controls a set of goroutines.
type Sched struct {
	mu       sync.Mutex
	arrivals chan arrival
	threads  map[int]*Thread
	names    map[int]string // pre-registered names by gid
	// Classify names an unknown goroutine from its stack dump ("" = ignore).
	Classify func(stack string) string
	nameSeq  map[string]int
	ignore   map[int]bool // goroutines that existed before this scheduler (leftovers of abandoned scenarios)
	Dead     bool         // set when the scenario is abandoned: late yields pass through
}

// New creates a scheduler.
func New() *Sched {
	s := &Sched{arrivals: make(chan arrival, 64), threads: map[int]*Thread{}, names: map[int]string{}, nameSeq: map[string]int{}, ignore: map[int]bool{}}
	for gid := range dumpStates() {
		s.ignore[gid] = true
	}
	return s
}

var gidRe = regexp.MustCompile(`^goroutine (\d+) \[`)

// GID returns the current goroutine id.
func GID() int {
	var buf [64]byte
	n := runtime.Stack(buf[:], false)
	m := gidRe.FindSubmatch(buf[:n])
	id, _ := strconv.Atoi(string(m[1]))
	return id
}

// RegisterSelf names the calling goroutine.
func (s *Sched) RegisterSelf(name string) {
	s.mu.Lock()
	s.names[GID()] = name
	s.mu.Unlock()
}

// Yield is called by instrumented code at a yield point. It parks the caller
// until the scheduler grants a step.
func (s *Sched) Yield(point string, key interface{}) {
	if s.Dead {
		// abandoned scenario: block forever so leftovers cannot interfere
		select {}
	}
	a := arrival{gid: GID(), point: point, key: key, resume: make(chan struct{})}
	s.arrivals <- a
	<-a.resume
}

func (s *Sched) nameFor(gid int, stack string) string {
	s.mu.Lock()
	defer s.mu.Unlock()
	if s.ignore[gid] {
		return ""
	}
	if n, ok := s.names[gid]; ok {
		return n
	}
	if s.Classify != nil {
		base := s.Classify(stack)
		if base == "" {
			return ""
		}
		s.nameSeq[base]++
		if strings.HasSuffix(base, "#") {
			return fmt.Sprintf("%s%d", strings.TrimSuffix(base, "#"), s.nameSeq[base])
		}
		return base
	}
	return ""
}

func (s *Sched) note(a arrival) {
	t, ok := s.threads[a.gid]
	if !ok {
		s.mu.Lock()
		n, known := s.names[a.gid]
		s.mu.Unlock()
		if !known {
			if g, ok := dumpStates()[a.gid]; ok {
				n = s.nameFor(a.gid, g.stack)
			}
		}
		if n == "" {
			n = fmt.Sprintf("g%d", a.gid)
		}
		t = &Thread{Name: n, GID: a.gid}
		s.threads[a.gid] = t
	}
	t.State, t.Point, t.Key, t.resume, t.BlkOn = Parked, a.point, a.key, a.resume, ""
}

type gstate struct {
	state string
	stack string
}

var hdrRe = regexp.MustCompile(`(?m)^goroutine (\d+) \[([^\]]*)\]:$`)

var dumpBuf = make([]byte, 1<<18)
var dumpMu sync.Mutex

func dumpStates() map[int]gstate {
	dumpMu.Lock()
	defer dumpMu.Unlock()
	buf := dumpBuf
	for {
		n := runtime.Stack(buf, true)
		if n < len(buf) {
			buf = buf[:n]
			break
		}
		buf = make([]byte, 2*len(buf))
		dumpBuf = buf
	}
	out := map[int]gstate{}
	for _, blk := range bytes.Split(buf, []byte("\n\n")) {
		m := hdrRe.FindSubmatch(blk)
		if m == nil {
			continue
		}
		id, _ := strconv.Atoi(string(m[1]))
		st := string(m[2])
		if i := strings.Index(st, ","); i >= 0 {
			st = st[:i]
		}
		out[id] = gstate{state: st, stack: string(blk)}
	}
	return out
}

func isBlockedState(st string) bool {
	switch st {
	case "chan receive", "chan send", "select", "sync.Mutex.Lock", "semacquire", "sync.RWMutex.Lock",
		"sync.RWMutex.RLock", "sync.Cond.Wait", "sync.WaitGroup.Wait", "chan receive (nil chan)", "select (no cases)":
		return true
	}
	return false
}

// Settle waits until every known goroutine is parked, blocked or gone, and
// discovers goroutines spawned meanwhile (via Classify). It returns an error
// only if a goroutine stays runnable for an implausibly long time (an
// infrastructure problem, never a verdict).
func (s *Sched) Settle() error {
	deadline := time.Now().Add(settleTimeout)
	timer := time.NewTimer(time.Hour)
	defer timer.Stop()
	for iter := 0; ; iter++ {
		// drain arrivals
		for {
			select {
			case a := <-s.arrivals:
				s.note(a)
				continue
			default:
			}
			break
		}
		// a thread that was just granted a step usually reaches its next yield
		// point within microseconds: wait for that arrival before looking at
		// runtime states
		running := 0
		for _, t := range s.threads {
			if t.State == Running {
				running++
			}
		}
		if running > 0 && iter < 4 {
			if !timer.Stop() {
				select {
				case <-timer.C:
				default:
				}
			}
			timer.Reset(150 * time.Microsecond)
			select {
			case a := <-s.arrivals:
				s.note(a)
				continue
			case <-timer.C:
			}
		}
		// inspect runtime states
		states := dumpStates()
		busy := false
		for gid, t := range s.threads {
			if t.State == Parked || t.State == Gone {
				continue
			}
			g, ok := states[gid]
			if !ok {
				t.State, t.BlkOn = Gone, ""
				continue
			}
			if isBlockedState(g.state) && !strings.Contains(g.stack, "sched.(*Sched).Yield") {
				t.State, t.BlkOn = Blocked, g.state
				continue
			}
			t.State = Running
			busy = true
		}
		// new goroutines
		for gid, g := range states {
			if _, ok := s.threads[gid]; ok {
				continue
			}
			n := s.nameFor(gid, g.stack)
			if n == "" {
				continue
			}
			s.mu.Lock()
			s.names[gid] = n
			s.mu.Unlock()
			s.threads[gid] = &Thread{Name: n, GID: gid, State: Running}
			busy = true
		}
		// arrivals that raced with the dump
		select {
		case a := <-s.arrivals:
			s.note(a)
			busy = true
		default:
		}
		if !busy {
			return nil
		}
		if time.Now().After(deadline) {
			msg := ""
			st := dumpStates()
			for gid, t := range s.threads {
				if t.State == Running {
					msg += fmt.Sprintf("\n--- %s gid=%d point=%s\n%s", t.Name, gid, t.Point, st[gid].stack)
				}
			}
			return fmt.Errorf("sched: goroutines still runnable after %v:%s", settleTimeout, msg)
		}
		runtime.Gosched()
	}
}

// Threads returns the known threads sorted by name.
func (s *Sched) Threads() []*Thread {
	out := make([]*Thread, 0, len(s.threads))
	for _, t := range s.threads {
		out = append(out, t)
	}
	for i := range out {
		for j := i + 1; j < len(out); j++ {
			if out[j].Name < out[i].Name {
				out[i], out[j] = out[j], out[i]
			}
		}
	}
	return out
}

// ByName finds a live thread by name.
func (s *Sched) ByName(name string) *Thread {
	for _, t := range s.threads {
		if t.Name == name && t.State != Gone {
			return t
		}
	}
	return nil
}

// Grant lets a parked thread run one step and waits for quiescence.
func (s *Sched) Grant(t *Thread) error {
	if t.State != Parked {
		return fmt.Errorf("sched: grant to %s which is %s", t.Name, t.State)
	}
	t.State = Running
	close(t.resume)
	return s.Settle()
}

// Forget drops threads that are gone (their names can be reused).
func (s *Sched) Forget() {
	for gid, t := range s.threads {
		if t.State == Gone {
			delete(s.threads, gid)
			s.mu.Lock()
			delete(s.names, gid)
			s.mu.Unlock()
		}
	}
}

// WaitFor settles until every named thread exists and is parked at a yield
// point (used at scenario start, when goroutines spawned by the harness may
// not have reached their first yield point yet).
func (s *Sched) WaitFor(names ...string) error {
	deadline := time.Now().Add(settleTimeout)
	for {
		if err := s.Settle(); err != nil {
			return err
		}
		ok := true
		for _, n := range names {
			t := s.ByName(n)
			if t == nil || t.State != Parked {
				ok = false
			}
		}
		if ok {
			return nil
		}
		if time.Now().After(deadline) {
			return fmt.Errorf("sched: threads %v did not all reach a yield point", names)
		}
		time.Sleep(50 * time.Microsecond)
	}
}

// NameOf returns the registered name of a goroutine ("" if unknown).
func (s *Sched) NameOf(gid int) string {
	s.mu.Lock()
	defer s.mu.Unlock()
	return s.names[gid]
}
