"""C18 — results do not depend on how work and data are spread over GPUs.

Part 1 (this file, run_rdma): the RDMA engine.  Every access to another GPU's
memory is forwarded to the owning GPU and answered to its originator exactly
once with unchanged payload; a drain request is acknowledged only when no
remote transaction is in flight.

spec/rdma/RDMA.tla          design spec: N engines, five ports each, network/L1/L2/peers/CP as explicit environment
spec/rdma/MC_RDMA*.cfg      exhaustive model checking of the routing / payload / originator / drain invariants (+ liveness)
spec/rdma/RDMAScen.tla      behaviours -> environment scenarios replayed on real rdma.Comp instances
spec/rdma/RDMATrace.tla     raw port-event traces of the real components checked against RDMA
harness/cmd/c18             driver: 1..4 real rdma.Comp back to back, scripted L1/L2/peer/control sides;
                            -platform: the engines inside the real timing platforms, with the address tables the builders gave them;
                            -sysrun: listens on the RDMA ports of real multi-GPU timing runs of shipped workloads

Part 2 (multi-GPU result independence at system level) is added by defining
run_system(ctx) below; run() calls it when present.
"""
import copy
import json
import os
import random
import re
from concurrent.futures import ThreadPoolExecutor

import common
import vlib

LEVEL = 'model_checking'
RULE = ('cases = environment scenarios (TLC -simulate behaviours of RDMAScen + seeded adversarial runs) executed on 1..4 real '
        'rdma.Comp instances connected back to back; distinct = distinct port-event traces (message ids renamed in first-seen '
        'order); non-trivial = trace in which some engine received answers in an order different from the order it forwarded '
        'the requests, or received a drain request while a transaction was in flight')
TSPEC = {'dirs': ['rdma'], 'module': 'RDMATrace.tla', 'cfg': 'RDMATrace.cfg', 'timeout': 1800}
INVS = ['ExactlyOnceRouting', 'OwnerIsAddressRangeOwner', 'PayloadPreserved', 'RspToOriginator',
        'DrainAckOnlyWhenEmpty', 'NoForwardWhilePaused', 'DrainedNoOwnTraffic', 'AllDrainedQuiet']



def _signature(bad, at, v):
    """Which event the verdict is about: for an invariant violation the state after event at-1,
    for an unexplainable line the line itself."""
    i = at - 2 if v['violated'] else at - 1
    ev = bad[max(0, min(i, len(bad) - 1))] if bad else {}
    m = ev.get('m', {}) if isinstance(ev.get('m'), dict) else {}
    return {'on': '%s@%s' % (ev.get('e'), ev.get('k', '-')), 'msg': m.get('t', ev.get('msg', '-') if ev.get('e') == 'Panic' else '-')}


TSPEC['signature'] = _signature

# system-level part (multi-GPU result independence): defined later by the coordinator as run_system(ctx)
try:
    import c18sys
    run_system = c18sys.run_system
    replay_system = c18sys.replay_system
except ImportError:          # the system half is optional at import time
    run_system = None


# ----------------------------------------------------------------- trace facts
def _is(r, e, k, t=None):
    return r.get('e') == e and r.get('k') == k and (t is None or r.get('m', {}).get('t') == t)


def nontrivial(recs):
    """reordered answers at some engine, or a drain request with a transaction in flight."""
    comps = {r['g'] for r in recs if 'g' in r}
    for g in comps:
        mine = [r for r in recs if r.get('g') == g]
        for out_k, in_k in (('rqo', 'rqo'), ('dti', 'dti')):
            sent = [r['m']['id'] for r in mine if _is(r, 'Send', out_k, 'req')]
            back = [r['m']['to'] for r in mine if _is(r, 'Recv', in_k, 'rsp')]
            order = [x for x in sent if x in back]
            if order != back:
                return True
        open_ = 0
        for r in mine:
            if _is(r, 'Send', 'rqo') or _is(r, 'Send', 'dti'):
                open_ += 1
            elif _is(r, 'Send', 'rqi') or _is(r, 'Send', 'dto'):
                open_ -= 1
            elif _is(r, 'Recv', 'ctl') and r['m'].get('c') == 'drain' and open_ > 0:
                return True
    return False


# ------------------------------------------------------------------ corruptions
def corruptions():
    def sends(recs, k, pred=None):
        return [i for i, r in enumerate(recs) if _is(r, 'Send', k) and (pred is None or pred(r))]

    def misroute(recs, rng):
        idx = sends(recs, 'rqo')
        if not idx:
            return None
        i = rng.choice(idx)
        recs[i]['m']['dst']['g'] = recs[i]['m']['dst']['g'] % 4 + 1
        return recs

    def swap_reply_target(recs, rng):
        idx = sends(recs, 'rqi')
        for a in idx:
            for b in idx:
                if a < b and recs[a]['g'] == recs[b]['g'] and recs[a]['m']['to'] != recs[b]['m']['to']:
                    recs[a]['m']['to'], recs[b]['m']['to'] = recs[b]['m']['to'], recs[a]['m']['to']
                    return recs
        return None

    def wrong_originator(recs, rng):
        idx = sends(recs, 'rqi')
        if not idx:
            return None
        i = rng.choice(idx)
        recs[i]['m']['dst']['b'] += 1
        return recs

    def drop_reply(recs, rng):
        idx = sends(recs, 'rqi')
        if not idx:
            return None
        i = rng.choice(idx)
        mid, g = recs[i]['m']['id'], recs[i]['g']
        # the paired Take on rqo is the adjacent event of the same engine
        j = i + 1 if i + 1 < len(recs) and _is(recs[i + 1], 'Take', 'rqo') and recs[i + 1]['g'] == g else i - 1
        if not (_is(recs[j], 'Take', 'rqo') and recs[j]['g'] == g):
            return None
        return [r for n, r in enumerate(recs) if n not in (i, j) and not (_is(r, 'Pull', 'rqi') and r['m']['id'] == mid)]

    def duplicate_reply(recs, rng):
        idx = sends(recs, 'rqi')
        if not idx:
            return None
        i = rng.choice(idx)
        g = recs[i]['g']
        j = i + 1
        if not (j < len(recs) and _is(recs[j], 'Take', 'rqo') and recs[j]['g'] == g):
            return None
        return recs[:j + 1] + [copy.deepcopy(recs[i]), copy.deepcopy(recs[j])] + recs[j + 1:]

    def duplicate_forward(recs, rng):
        idx = sends(recs, 'dti')
        if not idx:
            return None
        i = rng.choice(idx)
        dup = copy.deepcopy(recs[i])
        dup['m']['id'] = 10 ** 6
        return recs[:i + 1] + [dup] + recs[i + 1:]

    def corrupt_returned_data(recs, rng):
        idx = sends(recs, 'rqi', lambda r: r['m']['k'] == 'dr' and r['m']['d']) + \
            sends(recs, 'dto', lambda r: r['m']['k'] == 'dr' and r['m']['d'])
        if not idx:
            return None
        recs[rng.choice(idx)]['m']['d'][0] ^= 1
        return recs

    def corrupt_forwarded_address(recs, rng):
        idx = sends(recs, 'dti') + sends(recs, 'rqo')
        if not idx:
            return None
        recs[rng.choice(idx)]['m']['p']['a'] += 1
        return recs

    def corrupt_write_mask(recs, rng):
        idx = sends(recs, 'dti', lambda r: r['m']['p']['k'] == 'w')
        if not idx:
            return None
        m = recs[rng.choice(idx)]['m']['p']['m']
        m[0] = 1 - m[0]
        return recs

    def early_drain_ack(recs, rng):
        # move a DrainRsp to right after the engine took the DrainReq, at a moment a transaction was in flight
        for i, r in enumerate(recs):
            if not (_is(r, 'Take', 'ctl') and r['m'].get('c') == 'drain'):
                continue
            g = r['g']
            for j in range(i + 1, len(recs)):
                q = recs[j]
                if q.get('g') == g and _is(q, 'Send', 'ctl') and q['m'].get('c') == 'drainrsp':
                    between = [x for x in recs[i + 1:j] if x.get('g') == g and (_is(x, 'Send', 'rqi') or _is(x, 'Send', 'dto'))]
                    if between:
                        return recs[:i + 1] + [q] + recs[i + 1:j] + recs[j + 1:]
                    break
        return None

    def forward_while_paused(recs, rng):
        # move a forward (Send rqo + Take rqi) that followed the restart to before it, i.e. into the paused window
        for i, r in enumerate(recs):
            if not (_is(r, 'Send', 'ctl') and r['m'].get('c') == 'restartrsp'):
                continue
            g = r['g']
            # the Take of the RestartReq precedes the RestartRsp
            t = i - 1
            if not (_is(recs[t], 'Take', 'ctl') and recs[t]['g'] == g):
                continue
            for j in range(i + 1, len(recs) - 1):
                a, b = recs[j], recs[j + 1]
                if a.get('g') == g and _is(a, 'Send', 'rqo') and b.get('g') == g and _is(b, 'Take', 'rqi'):
                    rid = b['m']['id']
                    # only if the L1 request had already been delivered before the restart
                    if any(_is(x, 'Recv', 'rqi') and x['m']['id'] == rid for x in recs[:t]):
                        return recs[:t] + [a, b] + recs[t:j] + recs[j + 2:]
                    break
        return None

    return [('misroute_forwarded_request', misroute), ('swap_reply_targets', swap_reply_target),
            ('reply_to_wrong_l1', wrong_originator), ('drop_reply', drop_reply), ('duplicate_reply', duplicate_reply),
            ('duplicate_forward_to_l2', duplicate_forward), ('corrupt_returned_data', corrupt_returned_data),
            ('corrupt_forwarded_address', corrupt_forwarded_address), ('corrupt_write_mask', corrupt_write_mask),
            ('early_drain_ack', early_drain_ack), ('forward_while_paused', forward_while_paused)]


def selftest(ctx, tspec, parts, corrs, required):
    """Every corruption of a good trace must be rejected; a corruption in `required`
    that applies to no recorded trace is an infrastructure error (the runs are too tame)."""
    rng = random.Random(ctx.seed)
    order = list(parts)
    rng.shuffle(order)
    jobs = []
    for name, fn in corrs:
        for _, recs in order:
            bad = fn(copy.deepcopy(recs), rng)
            if bad is None:
                continue
            p = os.path.join(ctx.scratch, 'selftest_%s.ndjson' % name)
            vlib.write_ndjson(p, bad)
            jobs.append((name, p))
            break
        else:
            if name in required:
                raise vlib.Infra('binding self-test: corruption %r applies to none of %d traces' % (name, len(parts)))
    with ThreadPoolExecutor(max_workers=6) as ex:     # one JVM start each; verdicts do not depend on the order
        verdicts = list(ex.map(lambda j: ctx.validate_trace(tspec['dirs'], tspec['module'], tspec['cfg'], j[1]), jobs))
    results = []
    for (name, _), v in zip(jobs, verdicts):
        if v['accepted']:
            raise vlib.Infra('binding self-test: corruption %r was ACCEPTED by %s (vacuous trace spec)' % (name, tspec['module']))
        results.append({'corruption': name, 'rejected_at': v['highwater'], 'violated': v['violated'] or ['no_matching_action']})
    ctx.cov['binding_selftest'] = results
    return results


# ------------------------------------------------------------------- scenarios
_STATE = re.compile(r'^STATE_\d+ ==\s*$', re.M)
_ACT = re.compile(r'^/\\ act = (.*?)(?=^/\\ |^\\\*|^=+\s*$|\Z)', re.M | re.S)


def sim_acts(ctx, cfgname, num, depth):
    """tlc -simulate on RDMAScen; only the `act` conjunct of every dumped state is parsed
    (the states carry the whole history and are large)."""
    import tlaval
    res = ctx.tlc(['rdma'], 'RDMAScen.tla', cfgname, workers=1, timeout=600, simulate='file=beh,num=%d' % num,
                  depth=depth, seed=ctx.seed, kind='simulate')
    if res.violated:
        raise vlib.Infra('simulation of RDMAScen violated %s\n%s' % (res.violated, res.out[-2000:]))
    ctx.cov['simulated_transitions'] = ctx.cov.get('simulated_transitions', 0) + res.generated
    behs = []
    for f in sorted(os.listdir(res.dir)):
        if not f.startswith('beh_'):
            continue
        text = open(os.path.join(res.dir, f)).read()
        acts = []
        for body in _STATE.split(text)[1:]:
            m = _ACT.search(body)
            if not m:
                raise vlib.Infra('cannot find act in a simulated state of %s' % f)
            a = tlaval.parse_value(m.group(1))
            if a.get('a') != 'Init':
                acts.append(a)
        behs.append(acts)
        os.unlink(os.path.join(res.dir, f))
    if not behs:
        raise vlib.Infra('simulation of RDMAScen produced no behaviour')
    return behs


_CONSUMER = {'L1Req': ('rqi', {'FwdOut'}), 'ExtReq': ('dto', {'FwdIn'}), 'NetDeliverReq': ('dto', {'FwdIn'}),
             'L2Rsp': ('dti', {'RspOut'}), 'NetDeliverRsp': ('rqo', {'RspIn'}), 'ExtAnswer': ('rqo', {'RspIn'}),
             'Ctrl': ('ctl', {'TakeDrain', 'Restart'})}


def just_in_time(steps):
    """The model may leave a delivered message in a queue for a long time; the real engine consumes it at its next
    tick.  Delivering each message just before the engine step that consumes it (the k-th message put into a queue
    is consumed by the k-th consuming step of that engine: the queues are FIFO) is another behaviour of the model
    (a delivery commutes with every step but its consumer and the other deliveries into the same queue, whose
    order is kept) and one the eager engine can follow."""
    nroot = 0
    steps = [dict(st) for st in steps]
    for st in steps:                      # roots keep the model's numbering whatever the order of issue becomes
        if st.get('a') in ('L1Req', 'ExtReq'):
            nroot += 1
            st['root'] = nroot
    consumer_of = {}
    seen = {}
    consumers = {}
    for j, st in enumerate(steps):
        if st.get('a') == 'Await':
            for q, (port, evs) in _CONSUMER.items():
                if st.get('e') in evs:
                    consumers.setdefault((st['c'], port), [])
                    if j not in consumers[(st['c'], port)]:
                        consumers[(st['c'], port)].append(j)
    for i, st in enumerate(steps):
        if st.get('a') in _CONSUMER and 'c' in st:
            key = (st['c'], _CONSUMER[st['a']][0])
            k = seen.get(key, 0)
            seen[key] = k + 1
            lst = consumers.get(key, [])
            if k < len(lst) and lst[k] > i:
                consumer_of[i] = lst[k]
    before = {}
    for i, j in consumer_of.items():
        before.setdefault(j, []).append(i)
    out = []
    for j, st in enumerate(steps):
        if j in consumer_of:
            continue
        for i in sorted(before.get(j, [])):
            out.append(steps[i])
        out.append(st)
    return out


_ERRSTATE = re.compile(r'^State \d+: .*$', re.M)


def stale_ack_scenario(ctx):
    """Named deviation StaleDrainAck (the acknowledgement prepared when the control port had no room is sent later
    without looking at the tables again): TLC must find the violation of DrainAckOnlyWhenEmpty in the model, and
    the counterexample becomes a replay scenario for the real engine (one-entry ports)."""
    import tlaval
    res = ctx.tlc(['rdma'], 'RDMAScen.tla', 'RDMAScen_stale.cfg', workers=1, timeout=600, kind='deviation')
    if 'DrainAckOnlyWhenEmpty' not in res.violated:
        raise vlib.Infra('the StaleDrainAck deviation does not violate DrainAckOnlyWhenEmpty in the model: the model cannot '
                         'stall an acknowledgement while outside requests arrive\n' + res.out[-1500:])
    acts = []
    for body in _ERRSTATE.split(res.out)[1:]:
        m = _ACT.search(body.split('\n\n')[0] + '\n')
        if not m:
            raise vlib.Infra('cannot find act in the counterexample of RDMAScen_stale')
        a = tlaval.parse_value(m.group(1))
        if a.get('a') != 'Init':
            acts.append(a)
    ctx.cov['deviation_counterexamples'] = {'StaleDrainAck': {'violates': 'DrainAckOnlyWhenEmpty', 'steps': len(acts)}}
    return {'cfg': {'comps': [1, 2], 'ngpu': 3, 'span': 4, 'il': 2, 'nb': 2, 'buf': 1, 'widths': [1, 1, 1, 1]},
            'steps': just_in_time(acts)}


def scenarios(ctx, cfgname, comps, num, depth):
    out = []
    for i, steps in enumerate(sim_acts(ctx, cfgname, num, depth)):
        steps = just_in_time(steps)
        cfg = {'comps': comps, 'ngpu': 3, 'span': 4, 'il': 2, 'nb': 2, 'buf': 1 + i % 3,
               'widths': [1 + i % 3, 1 + (i // 3) % 2, 1 + (i // 2) % 3, 1 + i % 2]}
        out.append({'cfg': cfg, 'steps': steps})
    return out


def system_runs(ctx, drv, items, out):
    """One process per whole-system run (a panic inside the simulator's engine goroutine cannot be recovered by
    the driver).  The trace is written through line by line; if the process died with a Go panic the fact is
    appended as a Panic line, which no action of the trace spec explains."""
    total = {}
    with open(out, 'w') as f:
        for i, item in enumerate(items):
            ti = os.path.join(ctx.scratch, 'trace_sys_%d.ndjson' % i)
            p, stats = common.run_driver(ctx, drv, ['-sysrun', item, '-out', ti], timeout=600)
            if stats is None:
                if 'panic:' not in p.stdout and 'fatal error:' not in p.stdout:
                    raise vlib.Infra('driver failed (sysrun %s): %s' % (item, p.stdout[-2000:]))
                lines = [l for l in open(ti).read().splitlines() if l.strip()] if os.path.exists(ti) else []
                if lines:
                    try:
                        json.loads(lines[-1])
                    except ValueError:
                        lines = lines[:-1]         # line cut by the crash
                msg = next((l for l in p.stdout.splitlines() if l.startswith('panic:') or l.startswith('fatal error:')),
                           'panic')
                if not lines:
                    raise vlib.Infra('sysrun %s crashed before logging anything: %s' % (item, p.stdout[-1500:]))
                lines.append(json.dumps({'e': 'Panic', 'msg': 'simulator process died: ' + msg[:200], 'seq': len(lines) + 1}))
                f.write('\n'.join(lines) + '\n')
                total['crashes'] = total.get('crashes', 0) + 1
                total['traces'] = total.get('traces', 0) + 1
                continue
            f.write(open(ti).read())
            for k, v in stats.items():
                total[k] = total.get(k, 0) + v
    return total


# ------------------------------------------------- remote-written distributed buffer (driver-level programs)
TSPEC_DIST = {'dirs': ['rdma'], 'module': 'DistFlushTrace.tla', 'cfg': 'DistFlushTrace.cfg', 'timeout': 900}


def _program(acts, ngpu, gputype='r9nano'):
    """Application-level steps of a DistFlushScen behaviour -> program for `c18 -distrun`.  Versions are renumbered
    1, 2, ... in program order (a stale page is then always distinguishable), a final D2H reads everything back."""
    ops, ver, pages = [], 0, 0
    for a in acts:
        k = a.get('a')
        if k == 'Alloc':
            ops.append({'a': 'Alloc', 'g': a['g']})
        elif k == 'Place':
            pages = len(a['f'])
            ops.append({'a': 'Place', 'f': list(a['f'])})
        elif k == 'Store':
            ver += 1
            ops.append({'a': 'Store', 'g': a['g'], 'v': ver})
        elif k == 'H2D':
            ver += 1
            ops.append({'a': 'H2D', 'v': ver})
        elif k == 'D2H' and ver > 0:       # what a buffer holds before its first write is nobody's business
            ops.append({'a': 'D2H'})
    if not ops or ops[0]['a'] != 'Alloc' or ver == 0:
        return None
    if ops[-1]['a'] != 'D2H':
        ops.append({'a': 'D2H'})
    return {'gputype': gputype, 'ngpu': ngpu, 'pages': pages or 2, 'ops': ops}


def _family(thorough):
    def prog(n, pages, ops, t='r9nano'):
        return {'gputype': t, 'ngpu': n, 'pages': pages, 'ops': ops}
    A, D, S, R, H = (lambda g: {'a': 'Alloc', 'g': g}), (lambda gs: {'a': 'Distribute', 'gpus': gs}), \
        (lambda g, v: {'a': 'Store', 'g': g, 'v': v}), {'a': 'D2H'}, (lambda v: {'a': 'H2D', 'v': v})
    fam = [prog(2, 4, [A(1), D([1]), S(1, 1), R]),                                   # single-GPU placement (reference)
           prog(2, 4, [A(1), D([1, 2]), S(1, 1), R, H(2), R, S(2, 3), R]),            # the seed's demo and beyond
           prog(2, 5, [A(2), D([1, 2]), S(2, 1), R, S(1, 2), R]),                     # remainder page, kernel on GPU 2 first
           prog(4, 4, [A(1), {'a': 'Place', 'f': [3, 3, 4, 4]}, S(1, 1), R])]         # no page left on the kernel's GPU
    if thorough:
        fam += [prog(4, 5, [A(1), D([1, 2, 3, 4]), S(1, 1), R, S(3, 2), R]),
                prog(4, 8, [A(2), D([4, 3, 1]), H(1), R, S(2, 2), R]),
                prog(2, 4, [A(1), D([1, 2]), S(1, 1), R, S(2, 2), R], 'mi300a'),
                prog(4, 6, [A(1), D([2, 3, 4]), S(1, 1), H(2), S(4, 3), R], 'mi300a')]
    return fam


def _acts_of_error_trace(out):
    import tlaval
    acts = []
    for body in _ERRSTATE.split(out)[1:]:
        m = _ACT.search(body.split('\n\n')[0] + '\n')
        if m:
            acts.append(tlaval.parse_value(m.group(1)))
    return acts


def dist_corruptions():
    def no_flush_of_remote_owner(recs, rng):
        # drop the flush of a GPU that is not the kernel's GPU but owns a page (request and answer)
        kern = next((r['g'] for r in recs if r['e'] == 'Store'), None)
        owners = {r['g'] for r in recs if r['e'] == 'RemoteStore'}
        for g in sorted(owners - {kern}):
            out = [r for r in recs if not (r['e'] in ('FlushReq', 'FlushRsp') and r['g'] == g)]
            if len(out) < len(recs):
                return out
        return None

    def stale_page(recs, rng):
        idx = [i for i, r in enumerate(recs) if r['e'] == 'HostRead' and r['v'] > 0]
        if not idx:
            return None
        recs[rng.choice(idx)]['v'] -= 1
        return recs

    def copy_to_wrong_gpu(recs, rng):
        idx = [i for i, r in enumerate(recs) if r['e'] == 'D2HSend' and r.get('buf') == 1]
        if not idx:
            return None
        i = rng.choice(idx)
        recs[i]['g'] = recs[i]['g'] % 2 + 1
        return recs
    return [('no_flush_of_remote_owner', no_flush_of_remote_owner), ('host_reads_stale_page', stale_page),
            ('copy_request_to_wrong_gpu', copy_to_wrong_gpu)]


def dist_runs(ctx, drv, progs, out):
    """`c18 -distrun`; a crash of the simulator process leaves the written-through log, a Panic line is appended."""
    pfile = os.path.join(ctx.scratch, 'dist_programs_%d.json' % len(os.listdir(ctx.scratch)))
    json.dump(progs, open(pfile, 'w'))
    p, stats = common.run_driver(ctx, drv, ['-distrun', pfile, '-out', out], timeout=900)
    if stats is None:
        if 'panic:' not in p.stdout and 'fatal error:' not in p.stdout and 'Panic:' not in p.stdout:
            raise vlib.Infra('driver failed (distrun): %s' % p.stdout[-2000:])
        lines = [l for l in open(out).read().splitlines() if l.strip()] if os.path.exists(out) else []
        if lines:
            try:
                json.loads(lines[-1])
            except ValueError:
                lines = lines[:-1]
        if not lines:
            raise vlib.Infra('distrun crashed before logging anything: %s' % p.stdout[-1500:])
        msg = next((l for l in p.stdout.splitlines() if 'anic:' in l or l.startswith('fatal error:')), 'panic')
        lines.append(json.dumps({'e': 'Panic', 'msg': 'simulator process died: ' + msg[:200], 'seq': len(lines) + 1}))
        open(out, 'w').write('\n'.join(lines) + '\n')
        stats = {'crashes': 1}
    return stats


def dist_part(ctx, drv, thorough):
    """C18, buffer distributions: a buffer whose pages live on GPUs that only Distribute / Remap gave them, written
    by a kernel on another GPU (remote stores through the RDMA engines into the owner's write-back L2), read back
    by the host.  DistFlush.tla is model-checked; its deviation FlushOnlyGPUsInUse must violate HostSeesLastWrite and
    the counterexample is the first program; programs run on the real timing platform and their logs must be
    behaviours of the spec (DistFlushTrace.tla)."""
    r = ctx.tlc_expect_ok(['rdma'], 'DistFlush.tla', 'MC_DistFlush_big.cfg' if thorough else 'MC_DistFlush.cfg',
                          workers=4, timeout=1800)
    ctx.log('DistFlush (driver flushes before host copies, pages spread over GPUs): %d distinct states' % r.distinct)
    res = ctx.tlc(['rdma'], 'DistFlushScen.tla', 'DistFlushScen_inuse.cfg', workers=1, timeout=600, kind='deviation')
    if 'HostSeesLastWrite' not in res.violated:
        raise vlib.Infra('the FlushOnlyGPUsInUse deviation does not violate HostSeesLastWrite in the model\n' + res.out[-1500:])
    ce = _program(_acts_of_error_trace(res.out), 2)
    if ce is None:
        raise vlib.Infra('cannot turn the FlushOnlyGPUsInUse counterexample into a program')
    ctx.cov.setdefault('deviation_counterexamples', {})['FlushOnlyGPUsInUse'] = {'violates': 'HostSeesLastWrite', 'program': ce['ops']}
    sim = ctx.tlc(['rdma'], 'DistFlushScen.tla', 'DistFlushScen.cfg', workers=1, timeout=600, kind='simulate',
                  simulate='file=beh,num=%d' % (60 if thorough else 12), depth=40, seed=ctx.seed)
    if sim.violated:
        raise vlib.Infra('simulation of DistFlushScen violated %s' % sim.violated)
    progs, seen = [ce] + _family(thorough), set()
    import tlaval
    for f in sorted(os.listdir(sim.dir)):
        if not f.startswith('beh_'):
            continue
        acts = []
        for body in _STATE.split(open(os.path.join(sim.dir, f)).read())[1:]:
            m = _ACT.search(body)
            if m:
                acts.append(tlaval.parse_value(m.group(1)))
        pr = _program(acts, 3)
        key = json.dumps(pr, sort_keys=True)
        if pr is not None and key not in seen and len(seen) < (40 if thorough else 5):
            seen.add(key)
            progs.append(pr)
    t = os.path.join(ctx.scratch, 'trace_dist.ndjson')
    stats = dist_runs(ctx, drv, progs, t)
    parts = vlib.split_traces(t)
    remote = sum(1 for _, recs in parts if any(r['e'] == 'RemoteStore' for r in recs))
    ctx.log('remote-written distributed buffer: %d programs on the real timing platform (%d with stores through RDMA): %s'
            % (len(progs), remote, stats))
    n = common.validate_and_triage(ctx, TSPEC_DIST, t, {'cmd': 'c18', 'distrun': progs})
    ctx.log('trace validation: %d distributed-buffer traces accepted' % n)
    if stats.get('hangs') and n == len(parts):
        raise vlib.Infra('a distributed-buffer program hung although its log is accepted')
    if not ctx.violations:
        if remote == 0:
            raise vlib.Infra('no program stored to a page of another GPU: the family is vacuous')
        rng = random.Random(ctx.seed)
        rejected = []
        for name, fn in dist_corruptions():
            for _, recs in parts:
                bad = fn(copy.deepcopy(recs), rng)
                if bad is None:
                    continue
                pth = os.path.join(ctx.scratch, 'selftest_dist_%s.ndjson' % name)
                vlib.write_ndjson(pth, bad)
                v = ctx.validate_trace(TSPEC_DIST['dirs'], TSPEC_DIST['module'], TSPEC_DIST['cfg'], pth)
                if v['accepted']:
                    raise vlib.Infra('binding self-test: corruption %r was ACCEPTED by DistFlushTrace.tla' % name)
                rejected.append({'corruption': name, 'violated': v['violated'] or ['no_matching_action']})
                break
            else:
                raise vlib.Infra('binding self-test: corruption %r applies to no distributed-buffer trace' % name)
        ctx.cov['binding_selftest_dist'] = rejected
    ctx.cov['distributed_buffer_programs'] = {'run': len(progs), 'with_remote_stores': remote,
                                             'events': sum(len(recs) for _, recs in parts)}
    return len(parts), sum(len(recs) for _, recs in parts)


def drive(ctx, drv, args, what):
    p, stats = common.run_driver(ctx, drv, args)
    if stats is None:
        raise vlib.Infra('driver failed (%s): %s' % (what, p.stdout[-2000:]))
    return stats


def model_check(ctx, thorough):
    """1. design-level model checking (runs in a background thread of the quick tier: it needs nothing from the
    real-code stages; any failure is an infrastructure error raised when the thread is joined)."""
    r = ctx.tlc_expect_ok(['rdma'], 'MC_RDMA.tla', 'MC_RDMA.cfg', coverage=True, timeout=900,
                          workers=None if thorough else 6)
    ctx.log('MC_RDMA (2 engines + scripted peer, 2 requests, 1 drain): %d distinct states, depth %d' % (r.distinct, r.depth))
    ctx.cov['coverage_zero_actions'] = [a for a in r.coverage_zero() if not a.endswith('!NDrainPrepare')]  # deviation only
    if ctx.cov['coverage_zero_actions']:
        raise vlib.Infra('vacuous model: actions never taken: %s' % ctx.cov['coverage_zero_actions'])
    r = ctx.tlc_expect_ok(['rdma'], 'MC_RDMA.tla', 'MC_RDMA_live1.cfg', timeout=1200, workers=None if thorough else 4)
    ctx.log('MC_RDMA_live1 (Progress, DrainProgress under fairness; 1 request, 2 drains): %d distinct states' % r.distinct)
    if thorough:
        r = ctx.tlc_expect_ok(['rdma'], 'MC_RDMA.tla', 'MC_RDMA_live.cfg', workers=vlib.NCPU, timeout=3000)
        ctx.log('MC_RDMA_live (2 requests, 1 drain): %d distinct states' % r.distinct)
        for cfg in ('MC_RDMA_drain2.cfg', 'MC_RDMA_one.cfg', 'MC_RDMA_three.cfg', 'MC_RDMA_big.cfg'):
            r = ctx.tlc_expect_ok(['rdma'], 'MC_RDMA.tla', cfg, workers=vlib.NCPU, timeout=3000)
            ctx.log('%s: %d distinct states, depth %d' % (cfg, r.distinct, r.depth))
        ctx.cov['exhaustive'] = True


def run_rdma(ctx):
    thorough = ctx.tier == 'thorough'
    drv = ctx.go_build('c18')
    pool = ThreadPoolExecutor(max_workers=3)
    dist = pool.submit(dist_part, ctx, drv, thorough)
    if thorough:
        model_check(ctx, True)
        mc = None
    else:
        mc = pool.submit(model_check, ctx, False)
    try:
        real_code(ctx, drv, thorough, pool)
    finally:
        if mc is not None:
            mc.result()          # re-raises vlib.Infra of the model-checking thread
        nd, ne = dist.result()
        pool.shutdown()
    ctx.cov['evaluations'] = ctx.cov.get('evaluations', 0) + nd
    ctx.cov['events_validated'] = ctx.cov.get('events_validated', 0) + ne
    ctx.cov['transitions'] += ctx.cov.pop('simulated_transitions', 0)


def real_code(ctx, drv, thorough, pool):
    # 2. spec -> code: TLC behaviours as environment scenarios on real engines
    n2, n1, nc = (300, 120, 120) if thorough else (35, 15, 15)
    scen = [stale_ack_scenario(ctx)]
    ctx.sample({'replay_of_model_counterexample_StaleDrainAck': scen[0]['steps']})
    scen += scenarios(ctx, 'RDMAScen.cfg', [1, 2], n2, 90) + scenarios(ctx, 'RDMAScen1.cfg', [2], n1, 70)
    ctl = scenarios(ctx, 'RDMAScenCtl.cfg', [1, 2], nc, 90)       # one-entry ports, up to 3 drain rounds
    for sc in ctl:
        sc['cfg']['buf'] = 1
    scen += ctl
    sfile = os.path.join(ctx.scratch, 'scen.json')
    json.dump(scen, open(sfile, 'w'))
    t1 = os.path.join(ctx.scratch, 'trace_scen.ndjson')
    stats = drive(ctx, drv, ['-scen', sfile, '-out', t1], 'scenarios')
    ctx.log('replayed %d TLC behaviours on real engines: %s' % (len(scen), stats))
    done, skipped = stats.get('steps_done', 0), stats.get('steps_skipped', 0)
    if done == 0 or skipped > done // 4:
        # the unchanged engine follows the model's environment steps; a large miss rate means the script
        # no longer steers the component (on a broken engine the trace validation below decides first)
        ctx.notes.append('scenario steps skipped: %d of %d' % (skipped, done + skipped))
    ctx.sample({'scenario_from_TLC_behaviour': scen[1]['steps'][:14]})

    # 3. code -> spec: seeded adversarial environments, 1..4 engines, far beyond the model's bounds
    nrand = 500 if thorough else 70
    t2 = os.path.join(ctx.scratch, 'trace_rand.ndjson')
    args = ['-random', nrand, '-reqs', 40 if thorough else 24, '-seed', ctx.seed, '-out', t2]
    stats2 = drive(ctx, drv, args, 'random')
    ctx.log('random environments: %s' % stats2)

    # 3b. the engines as configured by the repository's platform builders (timingconfig + r9nano / mi300a), in situ:
    #     accesses from every GPU to the boundaries and the inside of every other GPU's memory range,
    #     through the real RemoteRDMAAddressTable and the real local module finder, to the owner's L2 and back
    plats = 'r9nano:2,r9nano:4,mi300a:2,mi300a:4' if thorough else 'r9nano:2,r9nano:4,mi300a:2'
    t3 = os.path.join(ctx.scratch, 'trace_platform.ndjson')
    args3 = ['-platform', plats, '-seed', ctx.seed, '-out', t3]
    stats3 = drive(ctx, drv, args3, 'platform')
    ctx.log('engines of the real platforms (%s): %s' % (plats, stats3))
    if stats3.get('steps_skipped') and not stats3.get('panics'):
        ctx.notes.append('platform probe: %d scripted steps did not apply' % stats3['steps_skipped'])
    ctx.cov['platform_configurations'] = plats.split(',')
    stats2 = {k: stats2.get(k, 0) + stats3.get(k, 0) for k in set(stats2) | set(stats3)}
    # one TLC start validates all traces recorded so far (concatenated; every trace starts with its Reset line)
    tall = os.path.join(ctx.scratch, 'trace_all.ndjson')
    with open(tall, 'w') as f:
        for t in (t1, t2, t3):
            f.write(open(t).read())
    n_ok = common.validate_and_triage(ctx, TSPEC, tall, {'cmd': 'c18', 'runs': [{'scenarios': scen}, {'args': args[:-1]},
                                                                               {'args': args3[:-1]}]})
    ctx.log('trace validation: %d traces accepted' % n_ok)

    # 3c. listen on the RDMA ports of real multi-GPU timing runs of shipped workloads (real engine, real caches,
    #     real PCIe network: every environment event of the trace is produced by real components).  Only when the
    #     engines passed so far: a broken engine makes whole-system runs hang or crash.
    # 4.  binding self-test: corrupted copies of accepted traces must be rejected (concurrently with 3c)
    t4 = os.path.join(ctx.scratch, 'trace_sys.ndjson')
    open(t4, 'w').close()
    if not ctx.violations:
        if thorough:
            sysl = ['vectoradd:r9nano:2:64', 'vectoradd:r9nano:4:64', 'matrixtranspose:r9nano:2:64',
                    'matrixtranspose:r9nano:4:64', 'fir:r9nano:2:1024', 'fir:r9nano:4:2048', 'vectoradd:mi300a:2:64',
                    'fir:mi300a:2:1024', 'matrixtranspose:r9nano:2:128', 'matrixtranspose:mi300a:2:64',
                    'vectoradd:mi300a:4:64']
        else:
            sysl = ['vectoradd:r9nano:2:16', 'fir:r9nano:2:1024']

        def listen():
            st = system_runs(ctx, drv, sysl, t4)
            ctx.log('RDMA ports of real multi-GPU timing runs %s: %s' % (sysl, st))
            n = common.validate_and_triage(ctx, TSPEC, t4, {'cmd': 'c18', 'sysruns': sysl})
            ctx.log('trace validation: %d whole-system traces accepted' % n)
            return st

        fut = pool.submit(listen)
        try:
            res = selftest(ctx, TSPEC, vlib.split_traces(t2), corruptions(),
                           required={'misroute_forwarded_request', 'swap_reply_targets', 'drop_reply', 'duplicate_reply',
                                     'corrupt_returned_data', 'corrupt_forwarded_address', 'early_drain_ack'})
            ctx.log('binding self-test: %d corruptions rejected' % len(res))
        finally:
            stats4 = fut.result()
        ctx.cov['system_runs_listened_to'] = sysl
        stats2 = {k: stats2.get(k, 0) + stats4.get(k, 0) for k in set(stats2) | set(stats4)}
        if stats4.get('hangs') and not ctx.violations:
            raise vlib.Infra('a whole-system run hung (engine idle, workload outstanding) although its RDMA trace is '
                             'complete: not attributable to the RDMA engines')

    parts = vlib.split_traces(t1) + vlib.split_traces(t2) + vlib.split_traces(t3) + vlib.split_traces(t4)
    distinct = {json.dumps([{k: v for k, v in r.items() if k != 'seq'} for r in recs], sort_keys=True) for _, recs in parts}
    nt = sum(1 for _, recs in parts if nontrivial(recs))
    ctx.sample({'trace_excerpt': [{k: v for k, v in r.items() if k != 'seq'} for r in vlib.split_traces(t2)[-1][1][:8]]})
    ncomp = {}
    for _, recs in parts:
        n = len(recs[0].get('comps', []))
        ncomp[n] = ncomp.get(n, 0) + 1
    ctx.cov.update({'evaluations': len(parts), 'distinct_nontrivial': min(nt, len(distinct)),
                    'events_validated': stats['events'] + stats2['events'],
                    'requests_routed': stats.get('roots', 0) + stats2.get('roots', 0),
                    'traces_by_number_of_real_engines': ncomp,
                    'invariants_checked_on_every_trace_state': INVS})
    ctx.assumptions += [
        'akitabench mini engine and fake connection stand in for akita SerialEngine and the PCIe/direct connections; '
        'the network between engines is a bag (any delay, any order), which is weaker than any FIFO connection',
        'port hooks observe every message of the component (akita v4.9.0 defaultPort)',
        'the control side follows the drain protocol of the driver/command processor: restart only after the drain was acknowledged, '
        'one drain at a time per engine',
        'PID, CanWaitForCoalesce and Info of a request are not treated as payload (requests below the address translator carry PID 0)',
        'system-level part (result independence over GPU sets / unified mode / buffer distributions) is not part of this run'
        if run_system is None else 'system-level part included']


def run(ctx, selftest=False):
    run_rdma(ctx)
    if run_system is not None:
        if ctx.violations:
            # with broken RDMA engines or routing tables whole-system timing runs spin for tens of minutes and
            # gigabytes; the verdict (exit 1) is already decided
            ctx.log('system part skipped: the RDMA part already reported a violation')
            ctx.notes.append('system part skipped after a violation in the RDMA part')
            return
        run_system(ctx)


def replay(ctx, path):
    rp = json.load(open(path))['replay']
    d = rp['driver']
    if d.get('cmd') != 'c18' and run_system is not None and 'replay_system' in globals():
        return globals()['replay_system'](ctx, path)
    drv = ctx.go_build('c18')
    if 'distrun' in d:
        t = os.path.join(ctx.scratch, 'replay.ndjson')
        dist_runs(ctx, drv, d['distrun'], t)
        before = len(ctx.violations)
        common.validate_and_triage(ctx, TSPEC_DIST, t, d)
        return 1 if len(ctx.violations) > before else 0
    if 'sysruns' in d:
        t = os.path.join(ctx.scratch, 'replay.ndjson')
        system_runs(ctx, drv, d['sysruns'], t)
        before = len(ctx.violations)
        common.validate_and_triage(ctx, TSPEC, t, d)
        return 1 if len(ctx.violations) > before else 0
    runs = d.get('runs', [d])
    t = os.path.join(ctx.scratch, 'replay.ndjson')
    with open(t, 'w') as f:
        for i, r in enumerate(runs):
            ti = os.path.join(ctx.scratch, 'replay_%d.ndjson' % i)
            if 'scenarios' in r:
                sfile = os.path.join(ctx.scratch, 'scen_%d.json' % i)
                json.dump(r['scenarios'], open(sfile, 'w'))
                args = ['-scen', sfile, '-out', ti]
            else:
                args = r['args'] + [ti]
            drive(ctx, drv, args, 'replay')
            f.write(open(ti).read())
    before = len(ctx.violations)
    common.validate_and_triage(ctx, TSPEC, t, d)
    return 1 if len(ctx.violations) > before else 0
