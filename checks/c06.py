"""C06 - vector lanes are independent and obey the EXEC mask.

The ISA specification (spec/isa) defines every vector instruction lane by lane, so for opcodes with a reference
conformance on partial EXEC masks (C03) already implies C06.  This check adds what needs no per-opcode oracle and
therefore covers *every* vector handler of both ALUs (transcendental, division helpers, 64-bit float, opcodes the
manual of the architecture does not define): ISATrace in mode "c06" (ISACheck!LaneDiff) requires of each record
  inactive  lanes with EXEC = 0 keep their destination VGPRs
  other     nothing outside the destination changes;  flags: SCC/EXEC/PC/M0 (and VCC unless it is a result) unchanged
  lanefn    two active lanes with identical inputs produce identical results (records with duplicated lanes)
  perm      the lane-permuted twin of a state produces the permuted results (VGPRs, VCC/SDST bits, LDS, memory)
  panic     no panic: inactive lanes of LDS / FLAT instructions carry unmapped addresses, so any access by them panics
v_readfirstlane_b32 is the documented cross-lane exception (checked exactly by C03).
"""
import json
import os

import common
import vlib
import c03 as isa

LEVEL = 'model_checking'
RULE = ('case = one vector instruction executed by a real ALU on a state with a partial EXEC mask (plus its lane-permuted '
        'twin / a state with pairwise duplicated lanes) and checked by TLC against the lane-wise structure of the ISA '
        'specification; distinct = distinct records by content hash; non-trivial = EXEC has both active and inactive lanes')


def nontrivial(r):
    ex = r['pre']['exec']
    return r.get('e') == 'X' and any(ex) and any(x != 65535 for x in ex)


def corruptions():
    import c03

    def pick(recs, rng, pred):
        idx = [i for i, r in enumerate(recs) if r.get('e') == 'X' and 'panic' not in r and pred(r)]
        return rng.choice(idx) if idx else None

    def lanes(r, active):
        ex = sum(x << (16 * k) for k, x in enumerate(r['pre']['exec']))
        return [l for l in range(64) if bool(ex >> l & 1) == active]

    def vdst(r):
        return r.get('d', {}).get('c', 0) >= 256

    def touch_inactive(recs, rng):
        i = pick(recs, rng, lambda r: vdst(r) and lanes(r, False))
        if i is None:
            return None
        recs[i]['d']['post'][rng.choice(lanes(recs[i], False))][0] ^= 1
        return recs[:i + 1]

    def break_perm(recs, rng):
        i = pick(recs, rng, lambda r: vdst(r) and 'perm' in r and r.get('tag') != 'dup' and r['f'] != 'VOP1' or False)
        if i is None or i == 0:
            return None
        act = [l for l in lanes(recs[i], True) if recs[i]['d']['post'][l] != [0] * len(recs[i]['d']['post'][l]) or True]
        if not act:
            return None
        recs[i]['d']['post'][rng.choice(act)][0] ^= 2
        return recs[i - 1:i + 1]

    def break_dup(recs, rng):
        i = pick(recs, rng, lambda r: vdst(r) and r.get('tag') == 'dup' and 'perm' not in r
                 and any(l % 2 == 0 and l + 1 in lanes(r, True) for l in lanes(r, True)))
        if i is None:
            return None
        a = lanes(recs[i], True)
        l = rng.choice([l for l in a if l % 2 == 0 and l + 1 in a])
        recs[i]['d']['post'][l][0] ^= 1
        return recs[:i + 1]

    def change_scc(recs, rng):
        i = pick(recs, rng, lambda r: True)
        if i is None:
            return None
        recs[i]['post']['scc'] ^= 1
        return recs[:i + 1]

    def frame(recs, rng):
        i = pick(recs, rng, lambda r: True)
        if i is None:
            return None
        recs[i]['other'] = 3
        return recs[:i + 1]

    def swap_vcc_bits(recs, rng):
        i = pick(recs, rng, lambda r: r['f'] == 'VOPC' and 'perm' in r and r.get('tag') != 'dup' and lanes(r, True))
        if i is None or i == 0:
            return None
        l = rng.choice(lanes(recs[i], True))
        recs[i]['post']['vcc'][l // 16] ^= 1 << (l % 16)
        return recs[i - 1:i + 1]

    return [('modify_inactive_lane', touch_inactive), ('break_permutation_equivariance', break_perm),
            ('make_duplicate_lanes_disagree', break_dup), ('change_scc', change_scc), ('write_outside_destination', frame),
            ('flip_compare_bit_in_permuted_twin', swap_vcc_bits)]


def good_pairs(ctx, trace_path, diffs, limit=300):
    recs = isa.read_ndjson(trace_path)
    out = []
    for i in range(0, len(recs) - 1, 2):
        if (i + 1) in diffs or (i + 2) in diffs:
            continue
        a, b = recs[i], recs[i + 1]
        if a.get('e') != 'X' or b.get('e') != 'X' or 'panic' in a or 'panic' in b:
            continue
        out += [a, b]
    step = max(1, (len(out) // 2) // limit)
    sel = []
    for j in range(0, len(out), 2):
        # every step-th pair, and every pair with duplicated lanes or a compare (needed by the corruptions)
        if (j // 2) % step == 0 or out[j].get('tag') == 'dup' or out[j]['f'] == 'VOPC':
            sel += out[j:j + 2]
    p = os.path.join(ctx.scratch, 'good_pairs.ndjson')
    vlib.write_ndjson(p, sel)
    return p


def run(ctx, selftest=False):
    thorough = ctx.tier == 'thorough'
    drv = ctx.go_build('c03')

    # 1. design level: the vector specification is lane-wise (swapping two lanes swaps the results), VOP2/VOP3b agree
    r = ctx.tlc_expect_ok(isa.SPEC_DIRS, 'MC_ISA.tla', 'MC_ISA_lane.cfg', timeout=1200)
    ctx.log('MC_ISA (LaneWise, VecLaws): %d states' % r.distinct)

    # 2. specification -> code: vector cases with partial EXEC chosen and solved by TLC
    behs, _ = ctx.simulate(isa.SPEC_DIRS, 'ISAScen.tla', 'ISAScenV.cfg', num=20 if thorough else 6, depth=20 if thorough else 12)
    cases, exps = isa.scen_cases(behs)
    sfile = os.path.join(ctx.scratch, 'sym.json')
    json.dump(cases, open(sfile, 'w'))
    t0 = os.path.join(ctx.scratch, 'trace_scen.ndjson')
    isa.run_driver(ctx, drv, ['-sym', sfile, '-seed', ctx.seed, '-out', t0])
    recs0 = isa.read_ndjson(t0)
    bad = 0
    for r0, c, e in zip(recs0, cases, exps):
        ex = sum(x << (16 * k) for k, x in enumerate(r0['pre']['exec']))
        for l in range(64):
            if not ex >> l & 1 and r0['d']['post'][l] != r0['d']['pre'][l]:
                bad += 1
    d0 = isa.collect_diffs(ctx, t0, 'c06', nchunk=1)
    ctx.log('replayed %d vector cases chosen by the specification: %d inactive lanes modified, %d records rejected' % (
        len(cases), bad, len(d0)))
    if bad and not d0:
        raise vlib.Infra('replay comparison and trace validation disagree')
    isa.triage(ctx, drv, t0, d0, 'c06', ['-sym', sfile, '-seed', ctx.seed], sym=cases)

    # 3. code -> specification: every vector handler, partial EXEC, permuted twins, duplicated lanes
    scale = 10 if thorough else 1
    gen_args = ['-mode', 'c06', '-seed', ctx.seed, '-scale', scale]
    t1 = os.path.join(ctx.scratch, 'trace_c06.ndjson')
    st1 = isa.run_driver(ctx, drv, gen_args + ['-out', t1])
    ctx.log('driver: %s' % st1)
    d1 = isa.collect_diffs(ctx, t1, 'c06', nchunk=8 if thorough else isa.NCHUNK, pair=True)
    recs1 = isa.read_ndjson(t1)
    ctx.log('validated %d records (%d pairs), %d rejected' % (len(recs1), len(recs1) // 2, len(d1)))
    isa.triage(ctx, drv, t1, d1, 'c06', gen_args)

    per, _ = isa.account(ctx, recs1, None)
    nt = sum(1 for r in recs0 + recs1 if nontrivial(r))
    ctx.cov.update({'evaluations': len(recs0) + len(recs1), 'distinct_nontrivial': nt,
                    'traces_validated_against_impl': len(recs0) + len(recs1), 'records_rejected': len(d0) + len(d1),
                    'vector_handlers_covered': len(per)})
    cls = {}
    for r in recs1:
        if r.get('tag') in ('ref', 'lane', 'undoc'):
            cls['%s/%s/%d' % (r['arch'], r['f'], r['op'])] = {'ref': 'full reference (also checked exactly by C03)',
                                                             'lane': 'no exact reference: lane-wise structure only',
                                                             'undoc': 'not defined by this architecture\'s manual: lane-wise structure only'}[r['tag']]
    ctx.cov['per_opcode'] = {k: '%s: %d records; %s' % (v['name'], v['records'], cls.get(k, '?')) for k, v in sorted(per.items())}
    ctx.sample({'pair_excerpt': [{k: v for k, v in r.items() if k in ('arch', 'f', 'op', 'nm', 'tag', 'pair', 'id')} for r in recs1[:2]]})

    # 4. binding self-test
    good = good_pairs(ctx, t1, d1)
    isa.selftest_binding(ctx, isa.tspec('c06'), good, corruptions())
    ctx.assumptions += [
        'stores: active lanes of a generated state target pairwise distinct addresses',
        'reads of LDS are observable only through panics (inactive lanes carry out-of-range addresses) and results',
        'bits of inactive lanes in VCC / SDST results are not constrained except by permutation equivariance',
        'v_readfirstlane_b32 is the documented cross-lane exception',
    ]


def replay(ctx, path):
    return isa.replay(ctx, path)
