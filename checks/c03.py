"""C03 - instruction execution conforms to the GCN3 / CDNA3 ISA semantics.

spec/isa/Limbs.tla       16-bit-limb arithmetic; MC_Limbs checks it exhaustively against TLC integers at width 8
spec/isa/ISA*.tla        executable transcription of the manuals (scalar, vector, LDS/FLAT/SMEM, IEEE add/mul/fma, conversions)
spec/isa/MC_ISA.tla      design-level laws of the transcription itself (carry chain, shift masking, order laws, float laws)
spec/isa/ISAScen.tla     specification -> code: TLC chooses and solves cases, the real ALUs must agree
spec/isa/ISATrace.tla    code -> specification: every (inst, pre, post) record of the real ALUs must be what the ISA prescribes
harness/cmd/c03          executes single instructions on emu.ALUImpl (GCN3) and cdna3.ALU from corner and seeded random states

(c06.py reuses the machinery of this file for the lane-wise / EXEC part.)
"""
import concurrent.futures
import copy
import hashlib
import json
import os
import re

import common
import vlib

LEVEL = 'model_checking'
RULE = ('case = one instruction executed by a real ALU (emu.ALUImpl or cdna3.ALU, on an emulation- or timing-wavefront '
        'state) and validated by TLC against the ISA specification; distinct = distinct (arch, format, opcode, operand '
        'kinds, operand values, flags) by content hash; non-trivial = the instruction prescribes a state change or a '
        'condition code (scalar: every opcode but s_nop/s_waitcnt; vector: at least one active lane)')

SPEC_DIRS = ['isa']
TRACE_MODULE = 'ISATrace.tla'
NCHUNK = 6
INFRA_DIFFS = {'nospec', 'noref', 'precondition'}


def tspec(mode):
    return {'dirs': SPEC_DIRS, 'module': TRACE_MODULE, 'cfg': 'ISATrace_%s.cfg' % mode}


def read_ndjson(path):
    return [json.loads(l) for l in open(path)]


def parse_diffs(out):
    """<<"DIFFS", << <<line, {"d", "scc"}>>, ... >> >> printed by the collecting trace specification."""
    if '"DIFFS"' not in out or '<<"HIGHWATER"' not in out:
        return None
    body = out[out.index('"DIFFS"'):out.index('<<"HIGHWATER"')]
    return {int(a): sorted(set(re.findall(r'"(\w+)"', b))) for a, b in re.findall(r'<<(\d+), \{(.*?)\}>>', body, re.S)}


def collect_diffs(ctx, trace_path, mode, nchunk=NCHUNK, pair=False):
    """Validate every record of a trace in collecting mode.  The records are independent (self-contained lines;
    a permuted twin follows its original), so the log is dealt round-robin to `nchunk` TLC processes.
    Returns {1-based line: [output names that differ]}."""
    lines = open(trace_path).readlines()
    n = len(lines)
    if n == 0:
        return {}
    unit = 2 if pair else 1
    nchunk = max(1, min(nchunk, n // (200 * unit) + 1))
    chunks = [[] for _ in range(nchunk)]
    index = [[] for _ in range(nchunk)]
    for i in range(0, n, unit):
        c = (i // unit) % nchunk
        for j in range(i, min(i + unit, n)):
            chunks[c].append(lines[j])
            index[c].append(j + 1)

    def one(c):
        p = os.path.join(ctx.scratch, 'chunk_%s_%d_%d.ndjson' % (mode, c, len(chunks[c])))
        with open(p, 'w') as f:
            f.writelines(chunks[c])
        res = ctx.tlc(SPEC_DIRS, TRACE_MODULE, 'ISATrace_%s_all.cfg' % mode, workers=1, timeout=1800,
                      extra_files={'trace.ndjson': p}, kind='trace')
        d = parse_diffs(res.out)
        if d is None or res.highwater != len(chunks[c]) + 1:
            raise vlib.Infra('collecting trace validation gave no verdict:\n' + res.out[-3000:])
        ctx.cov['trace_states'] = ctx.cov.get('trace_states', 0) + res.distinct
        return {index[c][k - 1]: v for k, v in d.items()}

    diffs = {}
    with concurrent.futures.ThreadPoolExecutor(nchunk) as ex:
        for d in ex.map(one, range(nchunk)):
            diffs.update(d)
    return diffs


def feat(r):
    """Input class of a record (part of the failure signature): how a source operand is supplied."""
    if r.get('omod'):
        return 'omod'                   # VOP3 output modifier (mul2 / mul4 / div2)
    if r.get('clamp'):
        return 'clamp'                  # VOP3 CLAMP bit
    if 'dsel' in r:
        return 'sdwa'                   # sub-dword addressing form
    codes = [(r[k]['c'], r[k].get('n', 1)) for k in ('s0', 's1', 's2') if r.get(k)]
    if 'opsel' in r:                    # packed binary32 (VOP3P)
        if any(128 <= c <= 248 for c, _ in codes):
            return 'pkinl'              # an inline constant as a packed source
        if r.get('abs', 0) != r.get('neg', 0):
            return 'pkneg'              # NEG_HI differs from NEG
        return 'pk'
    if any(193 <= c <= 208 for c, _ in codes):
        return 'neginl'                 # negative inline integer constant
    if any(240 <= c <= 248 and n == 2 for c, n in codes):
        return 'inlf64'                 # inline float constant read by a 64-bit operand
    return ''


def signature(r, out, pid):
    s = {'kind': 'isa_mismatch' if pid == 'C03' else 'lane_structure', 'arch': r['arch'], 'fmt': r['f'], 'op': r['op'],
         'out': out, 'st': r['st']}
    f = feat(r)
    if pid != 'C03' and f not in ('clamp', 'omod'):
        f = ''
    if f:
        s['feat'] = f
    return s


def run_driver(ctx, drv, args):
    p, stats = common.run_driver(ctx, drv, args)
    if stats is None:
        raise vlib.Infra('driver failed: ' + p.stdout[-2000:])
    return stats


def describe(r, out):
    ops = []
    for k in ('s0', 's1', 's2'):
        o = r.get(k)
        if o is None:
            continue
        if 'lit' in o:
            ops.append('%s=lit:%s' % (k, hexw(o['lit'])))
        elif o['c'] >= 256:
            ops.append('%s=v%d' % (k, o['c'] - 256))
        elif o['c'] <= 101:
            ops.append('%s=s%d:%s' % (k, o['c'], hexw(o['r'][:2 * max(1, o.get('n', 1))])))
        else:
            ops.append('%s=code%d' % (k, o['c']))
    return '%s %s op %d (%s) [%s state] %s: output %s differs from the ISA' % (
        r['arch'], r['f'], r['op'], r.get('nm'), r['st'], ' '.join(ops), out)


def hexw(l):
    v = 0
    for i, x in enumerate(l):
        v |= x << (16 * i)
    return hex(v)


def triage(ctx, drv, trace_path, diffs, mode, gen_args, sym=None):
    """Report every (record, differing output) once per signature; each reported signature is confirmed by
    re-executing its case in a fresh driver process and validating that record again."""
    recs = read_ndjson(trace_path)
    by_sig = {}
    infra = []
    for line in sorted(diffs):
        r = recs[line - 1]
        for out in diffs[line]:
            if out in INFRA_DIFFS:
                infra.append((line, out, r.get('arch'), r.get('f'), r.get('op')))
                continue
            sig = signature(r, out, ctx.pid)
            key = json.dumps(sig, sort_keys=True)
            by_sig.setdefault(key, []).append(line)
    if infra:
        raise vlib.Infra('specification / harness inconsistency (no reference for a record the driver produced): %s' % infra[:5])
    if not by_sig:
        return 0
    # confirm: re-execute one case per signature
    ids = sorted({recs[lines[0] - 1]['id'] for lines in by_sig.values()})
    t2 = os.path.join(ctx.scratch, 'confirm_%s.ndjson' % mode)
    run_driver(ctx, drv, gen_args + ['-ids', ','.join(map(str, ids)), '-out', t2])
    d2 = collect_diffs(ctx, t2, mode, pair=(mode == 'c06'))
    recs2 = read_ndjson(t2)
    confirmed = {}
    for l2, outs in d2.items():
        confirmed.setdefault(recs2[l2 - 1]['id'], set()).update(outs)
    new = 0
    for key, lines in sorted(by_sig.items()):
        sig = json.loads(key)
        r = recs[lines[0] - 1]
        if sig['out'] not in confirmed.get(r['id'], ()):
            raise vlib.Infra('rejection of case %d (%s) was not reproduced on re-execution' % (r['id'], key))
        what = '%s: %s (%d records; first: case id %d)' % (ctx.pid, describe(r, sig['out']), len(lines), r['id'])
        slim = {k: v for k, v in r.items() if k not in ('lds', 'mem')}
        drvinfo = {'gen': [str(a) for a in gen_args], 'ids': [r['id']] + ([r['pair']] if 'pair' in r else [])}
        if sym is not None:
            drvinfo = {'gen': ['-seed', str(ctx.seed)], 'ids': [r['id']], 'sym': sym}
        if ctx.report_failure(what, sig, {'driver': drvinfo, 'mode': mode, 'record': slim, 'diff': diffs[lines[0]]}):
            new += 1
    return new


def nontrivial(r):
    if r.get('e') != 'X':
        return False
    if r['f'] == 'SOPP' and r['op'] in (0, 12):
        return False
    if r['f'] in ('VOP1', 'VOP2', 'VOP3a', 'VOP3b', 'VOPC', 'DS', 'FLAT'):
        return any(r['pre']['exec'])
    return True


def account(ctx, recs, diffs):
    h = set()
    nt = 0
    per = {}
    for r in recs:
        key = '%s/%s/%d' % (r['arch'], r['f'], r['op'])
        e = per.setdefault(key, {'name': r.get('nm'), 'records': 0})
        e['records'] += 1
        d = {k: v for k, v in r.items() if k not in ('id', 'pair')}
        hh = hashlib.sha1(json.dumps(d, sort_keys=True).encode()).hexdigest()
        if hh not in h and nontrivial(r):
            nt += 1
        h.add(hh)
    return per, nt


def corruptions():
    """Corruptions of a good execution log that the trace specification must reject."""
    def pick(recs, rng, pred):
        idx = [i for i, r in enumerate(recs) if r.get('e') == 'X' and 'panic' not in r and pred(r)]
        return rng.choice(idx) if idx else None

    def flip_scalar_dst(recs, rng):
        i = pick(recs, rng, lambda r: r['f'] in ('SOP2', 'SOP1') and r.get('d', {}).get('c', 999) <= 101)
        if i is None:
            return None
        recs[i]['d']['post'][0] ^= 1
        return recs[:i + 1]

    def flip_scc(recs, rng):
        i = pick(recs, rng, lambda r: r['f'] in ('SOP2', 'SOPC'))
        if i is None:
            return None
        recs[i]['post']['scc'] ^= 1
        return recs[:i + 1]

    def flip_lane(recs, rng):
        # an integer instruction: float results have lanes that are deliberately unconstrained (any NaN, denormals)
        i = pick(recs, rng, lambda r: r['f'] in ('VOP2', 'VOP3a') and r.get('d', {}).get('c', 0) >= 256 and any(r['pre']['exec'])
                 and '_f' not in r.get('nm', '') and 'dsel' not in r)
        if i is None:
            return None
        ex = sum(x << (16 * k) for k, x in enumerate(recs[i]['pre']['exec']))
        lane = rng.choice([l for l in range(64) if ex >> l & 1])
        recs[i]['d']['post'][lane][0] ^= 4
        return recs[:i + 1]

    def touch_inactive(recs, rng):
        i = pick(recs, rng, lambda r: r['f'] in ('VOP1', 'VOP2', 'VOP3a') and r.get('d', {}).get('c', 0) >= 256
                 and any(x != 65535 for x in r['pre']['exec']))
        if i is None:
            return None
        ex = sum(x << (16 * k) for k, x in enumerate(recs[i]['pre']['exec']))
        lane = rng.choice([l for l in range(64) if not ex >> l & 1])
        recs[i]['d']['post'][lane][0] ^= 1
        return recs[:i + 1]

    def flip_vcc(recs, rng):
        i = pick(recs, rng, lambda r: r['f'] == 'VOPC' and any(r['pre']['exec']))
        if i is None:
            return None
        ex = sum(x << (16 * k) for k, x in enumerate(recs[i]['pre']['exec']))
        lane = rng.choice([l for l in range(64) if ex >> l & 1])
        recs[i]['post']['vcc'][lane // 16] ^= 1 << (lane % 16)
        return recs[:i + 1]

    def frame(recs, rng):
        i = pick(recs, rng, lambda r: True)
        if i is None:
            return None
        recs[i]['other'] = 1
        return recs[:i + 1]

    def move_pc(recs, rng):
        i = pick(recs, rng, lambda r: r['f'] == 'SOPP')
        if i is None:
            return None
        recs[i]['post']['pc'][0] ^= 4
        return recs[:i + 1]

    return [('flip_scalar_destination_bit', flip_scalar_dst), ('flip_scc', flip_scc), ('flip_active_lane_result', flip_lane),
            ('modify_inactive_lane', touch_inactive), ('flip_vcc_bit_of_compare', flip_vcc), ('write_outside_destination', frame),
            ('move_pc', move_pc)]


def good_prefix(ctx, trace_path, diffs, per_format=40):
    """A sample of accepted records, stratified by format (for the binding self-test)."""
    recs = read_ndjson(trace_path)
    by = {}
    for i, r in enumerate(recs, 1):
        if i not in diffs and r.get('e') == 'X' and 'panic' not in r:
            partial = any(x != 65535 for x in r['pre']['exec']) and any(r['pre']['exec'])
            by.setdefault((r['f'], partial), []).append(r)
    sel = []
    for k in sorted(by):
        g = by[k]
        step = max(1, len(g) // per_format)
        sel += g[::step][:per_format]
    p = os.path.join(ctx.scratch, 'good_sample.ndjson')
    vlib.write_ndjson(p, sel)
    return p


def selftest_binding(ctx, ts, trace_path, corrs):
    """common.selftest_binding with the corrupted logs validated concurrently (one TLC process each).
    A corruption that the strict trace specification accepts means a vacuous binding: infrastructure error."""
    import random
    recs = read_ndjson(trace_path)
    if not recs:
        raise vlib.Infra('selftest: no accepted record to corrupt')
    rng = random.Random(ctx.seed)
    jobs = []
    for name, fn in corrs:
        bad = fn(copy.deepcopy(recs), rng)
        if bad is None:
            continue
        bad = bad[-4:]          # the corrupted record (last) preceded by a few accepted ones
        p = os.path.join(ctx.scratch, 'selftest_%s.ndjson' % name)
        vlib.write_ndjson(p, bad)
        jobs.append((name, p))
    if len(jobs) < len(corrs):
        raise vlib.Infra('binding self-test: only %d of %d corruptions applicable to the sample' % (len(jobs), len(corrs)))

    def one(job):
        name, p = job
        return name, ctx.validate_trace(ts['dirs'], ts['module'], ts['cfg'], p)

    results = []
    with concurrent.futures.ThreadPoolExecutor(len(jobs)) as ex:
        for name, v in ex.map(one, jobs):
            if v['accepted']:
                raise vlib.Infra('binding self-test: corruption %r was ACCEPTED by %s (vacuous trace spec)' % (name, ts['module']))
            results.append({'corruption': name, 'rejected_at': v['highwater'], 'violated': v['violated']})
    ctx.cov['binding_selftest'] = results
    return results


def scen_cases(behs):
    cases, exps = [], []
    for b in behs:
        for st in b[1:]:
            a = st.get('act')
            if isinstance(a, dict) and a.get('a') == 'Case':
                exps.append(a['exp'])
                cases.append({k: v for k, v in a.items() if k not in ('a', 'exp')})
    return cases, exps


def compare_scen(ctx, recs, cases, exps):
    """Replay direction: the observed result of every case the specification chose must be the result it computed."""
    bad = []
    for r, c, e in zip(recs, cases, exps):
        if r.get('e') != 'X' or 'panic' in r:
            bad.append((r, 'panic' if 'panic' in r else r.get('e')))
            continue
        if c['k'] == 's':
            if e['d'] and 'd' in r and r['d'].get('post') != e['d']:
                bad.append((r, 'd'))
            if r['post']['scc'] != e['scc']:
                bad.append((r, 'scc'))
        else:
            if r['d']['post'] != e['d']:
                bad.append((r, 'd'))
            if e['carry']:
                ex = sum(x << (16 * k) for k, x in enumerate(r['pre']['exec']))
                old = sum(x << (16 * k) for k, x in enumerate(r['pre']['vcc']))
                got = sum(x << (16 * k) for k, x in enumerate(r['post']['vcc']))
                want = sum(x << (16 * k) for k, x in enumerate(e['mask']))
                if got != want:      # inactive lanes: 0
                    bad.append((r, 'vcc'))
    return bad


def run(ctx, selftest=False):
    thorough = ctx.tier == 'thorough'
    drv = ctx.go_build('c03')

    # 1. design level: the limb library against TLC's integers, the transcription against its own laws
    lim = [('MC_Limbs_4x2.cfg', 900)] + ([('MC_Limbs_2x4.cfg', 1500)] if thorough else [])
    for cfg, to in lim:
        r = ctx.tlc_expect_ok(SPEC_DIRS, 'MC_Limbs.tla', cfg if thorough else 'MC_Limbs_quick.cfg', timeout=to)
        ctx.log('MC_Limbs %s: %d states (every operator = native arithmetic on 8-bit words)' % (cfg if thorough else 'quick', r.distinct))
    # (-coverage is not used here: with the constant-level opcode tables TLC's cost statistics make the run take
    #  tens of minutes; vacuity is excluded by the WellFormed invariant - every table entry is evaluated, an
    #  unmatched CASE is a TLC error - and by the binding self-test below)
    r = ctx.tlc_expect_ok(SPEC_DIRS, 'MC_ISA.tla', 'MC_ISA_big.cfg' if thorough else 'MC_ISA.cfg', timeout=1800)
    ctx.log('MC_ISA: %d states, laws of the transcription hold' % r.distinct)
    if thorough:
        ctx.cov['exhaustive'] = True

    # 2. specification -> code
    nsim, depth = (60, 40) if thorough else (12, 25)
    behs, _ = ctx.simulate(SPEC_DIRS, 'ISAScen.tla', 'ISAScen.cfg', num=nsim, depth=depth)
    cases, exps = scen_cases(behs)
    sfile = os.path.join(ctx.scratch, 'sym.json')
    json.dump(cases, open(sfile, 'w'))
    t0 = os.path.join(ctx.scratch, 'trace_scen.ndjson')
    st0 = run_driver(ctx, drv, ['-sym', sfile, '-seed', ctx.seed, '-out', t0])
    recs0 = read_ndjson(t0)
    bad = compare_scen(ctx, recs0, cases, exps)
    d0 = collect_diffs(ctx, t0, 'c03', nchunk=2)
    ctx.log('replayed %d cases chosen by the specification (%d behaviours): %d disagree' % (len(cases), len(behs), len(bad)))
    # a disagreement in the replay direction must also be a rejection in the trace direction (same specification)
    for r, out in bad:
        line = recs0.index(r) + 1
        if line not in d0:
            raise vlib.Infra('replay comparison and trace validation disagree on case %d' % r['id'])
    ctx.sample({'case_chosen_by_TLC': {k: (v if not isinstance(v, list) or len(v) < 8 else '64 lanes') for k, v in cases[0].items()},
                'prescribed': {k: (v if not isinstance(v, list) or len(v) < 8 else '64 lanes') for k, v in exps[0].items()}})
    triage(ctx, drv, t0, d0, 'c03', ['-sym', sfile, '-seed', ctx.seed], sym=cases)

    # 3. code -> specification: corner cross products and seeded random states, both ALUs, both state kinds
    scale = 25 if thorough else 1
    gen_args = ['-mode', 'c03', '-seed', ctx.seed, '-scale', scale]
    t1 = os.path.join(ctx.scratch, 'trace_c03.ndjson')
    st1 = run_driver(ctx, drv, gen_args + ['-out', t1])
    ctx.log('driver: %s' % st1)
    d1 = collect_diffs(ctx, t1, 'c03', nchunk=8 if thorough else NCHUNK)
    recs1 = read_ndjson(t1)
    ctx.log('validated %d records, %d rejected' % (len(recs1), len(d1)))
    triage(ctx, drv, t1, d1, 'c03', gen_args)

    per, nt = account(ctx, recs0 + recs1, None)
    ctx.cov.update({'evaluations': len(recs0) + len(recs1), 'distinct_nontrivial': nt,
                    'traces_validated_against_impl': len(recs0) + len(recs1),
                    'records_rejected': len(d0) + len(d1), 'opcodes_with_full_reference': len(per),
                    'skipped_decode_mismatch': st1.get('DecodeMismatch', 0) + st1.get('DecodeError', 0)})
    ctx.cov['per_opcode'] = {k: '%s: %d records, full reference' % (v['name'], v['records']) for k, v in sorted(per.items())}
    ctx.cov['lanewise_only_opcodes'] = ('no exact reference (checked by C06 only): VOP1 32-37,39,76 (exp/log/rcp/rcp_iflag/rsq/rcp_f64/sqrt/'
                                        'log_legacy), VOP3 478,479,482,483 (div_fixup/div_fmas), VOP3b 480,481 (div_scale), VOP3P 944-946 '
                                        '(pk_fma/mul/add_f32); handlers of opcodes the architecture\'s manual does not define: GCN3 VOP2 52-54, '
                                        'VOP3 511,520; CDNA3 VOP2 22, VOP1 76, VOP3 449')
    ctx.sample({'record_excerpt': {k: v for k, v in recs1[0].items() if k in ('arch', 'f', 'op', 'nm', 'pre', 'post', 's0', 's1', 'd')}})

    # 4. binding self-test
    good = good_prefix(ctx, t1, d1)
    selftest_binding(ctx, tspec('c03'), good, corruptions())
    ctx.assumptions += [
        'operand encodings are produced by harness encoders and decoded by the real insts.Disassembler; cases whose decoded '
        'operands denote another location are skipped and counted (skipped_decode_mismatch)',
        'lane-mask results (VCC / SDST): bits of inactive lanes may be zero or unchanged (manuals silent)',
        'binary32 denormal inputs/results are not constrained (MODE.FP_DENORM is not modelled by the simulator)',
        'signalling NaNs and NaN payloads are outside the checked domain; any NaN is accepted where the result is NaN',
        'transcendental and division-helper opcodes (exp/log/rcp/rsq/sqrt/div_*) have no exact reference: C06 only',
        'DPP, OMOD, CLAMP and SDWA modifiers (SEXT/NEG/ABS) are not generated; VCC_HI / EXEC_HI as destinations belong to C07',
    ]


def replay(ctx, path):
    rp = json.load(open(path))['replay']
    drv = ctx.go_build('c03')
    d = rp['driver']
    mode = rp.get('mode', 'c03')
    t = os.path.join(ctx.scratch, 'replay.ndjson')
    gen = list(d['gen'])
    if 'sym' in d:
        sfile = os.path.join(ctx.scratch, 'sym.json')
        json.dump(d['sym'], open(sfile, 'w'))
        gen = ['-sym', sfile] + gen
    run_driver(ctx, drv, gen + ['-ids', ','.join(map(str, d['ids'])), '-out', t])
    diffs = collect_diffs(ctx, t, mode, nchunk=1, pair=(mode == 'c06'))
    for line, outs in sorted(diffs.items()):
        print('replay: record %d rejected: %s' % (line, outs))
    return 1 if diffs else 0
