"""C12 — command queues are FIFO and waiting on them always terminates.

spec/cmdqueue/CmdQueue.tla       host-thread protocol, one action per code segment between two yield hooks
spec/cmdqueue/MC_*.cfg           exhaustive checking: FIFO, DrainSound, NoHang, LockOK, liveness DrainReturns;
                                 the two pre-fix designs (NotifyMode=drop, ExitMode=window) must yield the hang
spec/cmdqueue/CmdQueueScen.tla   behaviours -> thread schedules executed literally on the real driver
spec/cmdqueue/CmdQueueTrace.tla  every granted step of the real driver (projection of all thread positions,
                                 queue lengths, engineRunning, pending tick) must be a CmdQueue step
harness/sched                    controlled scheduler; hangs are structural (no thread can be granted a step)
"""
import itertools
import json
import os
import random
from concurrent.futures import ThreadPoolExecutor

import common
import vlib
import c12mem

LEVEL = 'model_checking'
RULE = ('cases = controlled executions of the real driver.Driver host-thread protocol (application threads x runAsync x '
        'engine goroutine) under schedules from (a) hold-sets that starve one or two (thread,yield point) pairs, (b) TLC '
        '-simulate behaviours of CmdQueueScen, (c) seeded random schedules; distinct = distinct step traces; non-trivial '
        '= trace in which a thread blocks (sending/parked/inselect) or the engine goroutine is re-run or re-spawned')

APP = ['create', 'enq', 'enqNotify', 'subscribe', 'signal', 'check', 'wait', 'unsub']
RA = ['select', 'pause', 'ticklater', 'continue', 'flag']
ENG = ['acquire', 'loop', 'lockpause', 'scan', 'deq', 'deqNotify', 'clear']
GPU = ['take', 'answer']
POINTS = ['app@' + p for p in APP] + ['ra@' + p for p in RA] + ['eng@' + p for p in ENG]
# (NA, rounds, per_round, threads using the blocking API in one shared context, cfg tag)
CONFIGS = [(1, 2, 1, [], '1_2_1'), (2, 2, 1, [1, 2], 't2'), (2, 2, 1, [], '2_2_1'), (2, 2, 1, [2], 'mx'), (1, 2, 2, [], '1_2_2'),
           (1, 2, 2, [], 'w1'), (2, 2, 1, [], 'wx'), (2, 2, 1, [], 'd2'), (2, 2, 1, [], 'd2w'),
           (2, 1, 2, [], '2_1_2'), (3, 1, 1, [], '3_1_1'), (3, 1, 1, [2, 3], 't3'), (2, 2, 2, [], '2_2_2'), (2, 2, 1, [], 'w2'),
           (3, 1, 1, [], 'd3')]
# threads whose commands are two-phase memory copies answered by the stub GPU, per cfg tag
TWO = {'w1': [1], 'wx': [2], 'w2': [1, 2], 'd2w': [1]}
# threads that own no queue and only drain the queue of thread 1 (several waiters on one queue), per cfg tag
DRAINERS = {'d2': [2], 'd2w': [2], 'd3': [2, 3]}
QUICK_N = 9


def tspec(cfg):
    return {'dirs': ['cmdqueue'], 'module': 'CmdQueueTrace.tla', 'cfg': 'CmdQueueTrace_%s.cfg' % cfg[4],
            'signature': signature}


def signature(recs, at, v):
    ev = recs[min(at, len(recs)) - 1]
    sig = {'event': ev.get('e')}
    if ev.get('e') in ('Hang', 'Livelock'):
        sig['blocked'] = ','.join(sorted(x.split(':')[1] for x in ev.get('blocked', [])))
        sig['pending_tick'] = ev.get('ev', 0) > 0
    else:
        sig['thread'] = ev.get('t')
        sig['from'] = ev.get('from')
    return sig


def hold_scenarios(cfg, rng, limit):
    na, r, p, temp, tag = cfg
    two = TWO.get(tag, [])
    points = POINTS + (['gpu@' + x for x in GPU] if two else [])
    sets = [[]] + [[x] for x in points] + [list(c) for c in itertools.combinations(points, 2)]
    if na > 1:
        sets += [['app1@' + x] for x in APP] + [['app2@' + x, 'eng@' + y] for x in ('check', 'wait', 'signal') for y in ENG]
    sc = [{'na': na, 'rounds': r, 'per_round': p, 'mode': 'hold', 'hold': h, 'reverse': rev, 'temp': temp, 'two': two,
           'drainers': DRAINERS.get(tag, [])}
          for h in sets for rev in (False, True) if temp or not any('create' in x for x in h)]
    if limit and len(sc) > limit:
        # always keep the singletons (they include the two historical hang schedules), sample the pairs
        single = [s for s in sc if len(s['hold']) <= 1]
        rest = [s for s in sc if len(s['hold']) > 1]
        rng.shuffle(rest)
        sc = single + rest[:max(0, limit - len(single))]
    return sc


def corruptions():
    def steps(recs):
        return [i for i, r in enumerate(recs) if r['e'] == 'Step']

    def skip_step(recs, rng):
        idx = steps(recs)
        if len(idx) < 5:
            return None
        del recs[rng.choice(idx[2:-2])]
        return recs

    def wrong_pc(recs, rng):
        idx = [i for i in steps(recs) if recs[i]['t'] == 'app' and recs[i]['apc'][recs[i]['a'] - 1] == 'wait']
        if not idx:
            return None
        i = rng.choice(idx)
        recs[i]['apc'][recs[i]['a'] - 1] = 'unsub'   # drain returns although a command is still queued
        return recs

    def wrong_len(recs, rng):
        idx = [i for i in steps(recs) if recs[i]['from'] == 'deq']
        if not idx:
            return None
        i = rng.choice(idx)
        recs[i]['len'] = [x + 1 for x in recs[i]['len']]  # dequeue did not remove the command
        return recs

    def flag_not_cleared(recs, rng):
        idx = [i for i in steps(recs) if recs[i]['from'] == 'clear' and not recs[i]['run']]
        if not idx:
            return None
        recs[rng.choice(idx)]['run'] = True
        return recs

    def lost_tick(recs, rng):
        idx = [i for i in steps(recs) if recs[i]['from'] == 'ticklater']
        if not idx:
            return None
        recs[rng.choice(idx)]['ev'] = 0
        return recs

    def hang(recs, rng):
        idx = steps(recs)
        if len(idx) < 6:
            return None
        cut = rng.choice(idx[3:-2])
        h = dict(recs[cut])
        h['e'] = 'Hang'
        return recs[:cut] + [h]

    return [('skip_step', skip_step), ('drain_returns_early', wrong_pc), ('dequeue_keeps_command', wrong_len),
            ('flag_not_cleared', flag_not_cleared), ('tick_not_scheduled', lost_tick), ('hang_event', hang)]


def nontrivial(recs):
    for r in recs:
        if r['e'] != 'Step':
            continue
        if any(p in ('sending', 'parked') for p in r['apc']) or r['rpc'] == 'inselect':
            return True
    return False


def run_group(ctx, drv, cfg, scen, tag):
    sfile = os.path.join(ctx.scratch, 'scen_%s.json' % tag)
    json.dump(scen, open(sfile, 'w'))
    t = os.path.join(ctx.scratch, 'trace_%s.ndjson' % tag)
    p, stats = common.run_driver(ctx, drv, ['-scen', sfile, '-out', t], timeout=1800)
    if stats is None:
        raise vlib.Infra('c12 driver failed (%s): %s' % (tag, p.stdout[-3000:]))
    return t, stats


def run(ctx, selftest=False):
    thorough = ctx.tier == 'thorough'
    rng = random.Random(ctx.seed)
    drv = ctx.go_build('c12')

    # 1. design-level model checking
    for cfg, workers, to in [('MC_fixed_NA1.cfg', 4, 300), ('MC_fixed_NA2.cfg', 8, 900), ('MC_fixed_mixed.cfg', 8, 900),
                             ('MC_fixed_two1.cfg', 4, 300), ('MC_fixed_twomix.cfg', 8, 900), ('MC_fixed_dr2.cfg', 8, 900)]:
        r = ctx.tlc_expect_ok(['cmdqueue'], 'CmdQueue.tla', cfg, workers=workers, timeout=to,
                              coverage=(cfg == 'MC_fixed_NA1.cfg'))
        ctx.log('%s: %d distinct states (safety + liveness)' % (cfg, r.distinct))
        if cfg == 'MC_fixed_NA1.cfg':
            ctx.cov['coverage_zero_actions'] = r.coverage_zero()
    if thorough:
        for cfg in ('MC_fixed_temp2.cfg', 'MC_fixed_two2.cfg', 'MC_fixed_dr2two.cfg', 'MC_fixed_dr3.cfg', 'MC_fixed_NA2big.cfg', 'MC_fixed_NA3.cfg'):
            r = ctx.tlc_expect_ok(['cmdqueue'], 'CmdQueue.tla', cfg, workers=vlib.NCPU, timeout=3000)
            ctx.log('%s: %d distinct states' % (cfg, r.distinct))
        ctx.cov['exhaustive'] = True
    demos = {}
    for cfg in ('MC_asimpl_drop.cfg', 'MC_asimpl_window.cfg'):
        r = ctx.tlc(['cmdqueue'], 'CmdQueue.tla', cfg, workers=2, timeout=300, kind='demo')
        demos[cfg] = r.violated
        if 'NoHang' not in r.violated:
            raise vlib.Infra('%s: the pre-fix design no longer yields the hang (spec lost its teeth)' % cfg)
    ctx.cov['prefix_designs_violate'] = demos

    # 2. scenarios per configuration
    groups = []
    cfgs = CONFIGS if thorough else CONFIGS[:QUICK_N]
    for ci, cfg in enumerate(cfgs):
        na, rnd, per, temp, tag = cfg
        scen = []
        if ci == 0:
            scen += hold_scenarios(cfg, rng, None if thorough else 140)
        elif ci in (1, 2, 3, 5, 6, 7, 8) or thorough:
            scen += hold_scenarios(cfg, rng, 400 if thorough else 70)
        behs, _ = ctx.simulate(['cmdqueue'], 'CmdQueueScen.tla', 'CmdQueueScen_%s.cfg' % tag,
                               num=(150 if thorough else 25), depth=40 * na * rnd * (per + 1), seed=ctx.seed + ci)
        for b in behs:
            sched = [st['act'] for st in b[1:] if st.get('act') not in (None, 'init')]
            scen.append({'na': na, 'rounds': rnd, 'per_round': per, 'mode': 'schedule', 'schedule': sched, 'temp': temp,
                         'two': TWO.get(tag, []), 'drainers': DRAINERS.get(tag, [])})
        for k in range(200 if thorough else 25):
            scen.append({'na': na, 'rounds': rnd, 'per_round': per, 'mode': 'random', 'seed': ctx.seed * 1000 + ci * 100 + k,
                         'temp': temp, 'two': TWO.get(tag, []), 'drainers': DRAINERS.get(tag, [])})
        groups.append((cfg, scen))
    ctx.sample({'hold_scenario': groups[0][1][1], 'tlc_schedule_scenario': next(s for s in groups[0][1] if s['mode'] == 'schedule')})

    with ThreadPoolExecutor(max_workers=4) as ex:
        futs = [ex.submit(run_group, ctx, drv, cfg, scen, cfg[4]) for cfg, scen in groups]
        results = [f.result() for f in futs]

    total_events, all_parts, hangs = 0, [], 0
    first_trace = None
    for (cfg, scen), (t, stats) in zip(groups, results):
        ctx.log('config NA=%d rounds=%d per_round=%d temp=%s: %s' % (cfg[:4] + (stats,)))
        total_events += stats['events']
        hangs += stats['hangs']
        first_trace = first_trace or t
        common.validate_and_triage(ctx, tspec(cfg), t, {'cmd': 'c12', 'cfg': list(cfg), 'scenarios': None,
                                                         'scenario_file_note': 'scenarios regenerated from seed',
                                                         'seed': ctx.seed, 'tier': ctx.tier})
        all_parts += vlib.split_traces(t)
    distinct = {json.dumps([{k: v for k, v in r.items() if k != 'seq'} for r in recs], sort_keys=True) for _, recs in all_parts}
    nt = {json.dumps([{k: v for k, v in r.items() if k != 'seq'} for r in recs], sort_keys=True)
          for _, recs in all_parts if nontrivial(recs)}
    ctx.sample({'trace_excerpt': all_parts[0][1][:8]})
    ctx.cov.update({'evaluations': len(all_parts), 'distinct_nontrivial': len(nt), 'distinct_traces': len(distinct),
                    'steps_validated': total_events, 'structural_hangs_observed': hangs})

    # 3. binding self-test
    common.selftest_binding(ctx, tspec(CONFIGS[0]), first_trace, corruptions())

    # 3b. memory effects of queues on the real timing platform (QueueMem.tla)
    c12mem.run_component(ctx)

    # 4. auxiliary monitor (thorough): free-running multi-threaded application under the race detector
    if thorough or os.environ.get('VERIF_C12_RACE'):
        race_stress(ctx)
    ctx.assumptions += [
        'harness/sched.Engine is a statement-by-statement re-implementation of akita v4.9.0 sim.SerialEngine '
        '(Run/Schedule/Pause/Continue) with yield points; the driver only sees sim.Engine',
        'blockedness of a goroutine is read from the Go runtime (goroutine wait reason), not from a clock',
        'commands are NoopCommands (one driver tick each), magic memory copies (blocking API threads) and two-phase memory '
        'copies through the DMA-path middleware answered by a stub GPU that acts only between two engine events',
    ]
    ctx.cov['fixed_findings'] = [k['id'] for k in vlib.known_fixed('C12')]


def parse_races(out):
    """Data-race reports of the Go race detector whose conflicting accesses are in sarchlab/mgpusim source
    (a race entirely inside a dependency such as akita's id generator is not a finding about mgpusim)."""
    races = []
    for blk in out.split('WARNING: DATA RACE')[1:]:
        blk = blk.split('==================')[0]
        tops = []
        lines = blk.splitlines()
        for i, ln in enumerate(lines):
            if ln.startswith(('Read at', 'Write at', 'Previous write at', 'Previous read at')) and i + 2 < len(lines):
                tops.append((lines[i + 1].strip(), lines[i + 2].strip()))
        in_repo = [fn for fn, loc in tops if '/repo/' in loc]
        if in_repo:
            races.append({'where': in_repo[0].replace('github.com/sarchlab/mgpusim/v4/amd/', '').rstrip('()'),
                          'accesses': tops})
    return races


def race_stress(ctx):
    drv = ctx.go_build('c12stress', race=True)
    runs = 0
    seen = {}
    for i in range(6):
        cwd = ctx.sub('stress_%d' % i)
        env = dict(os.environ)
        env['GODEBUG'] = 'randseednop=0'
        env['GOMAXPROCS'] = str([16, 4, 2][i % 3])
        argv = [drv, '-gpus', '1,2', '-verify', '-disable-rtm'] + (['-timing'] if i % 2 else [])
        p = ctx.run(argv, cwd=cwd, timeout=1500, env=env, check=False)
        runs += 1
        for f in os.listdir(cwd):
            os.remove(os.path.join(cwd, f))
        for r in parse_races(p.stdout):
            seen.setdefault(r['where'], r)
        if '"ok":true' not in p.stdout and not parse_races(p.stdout):
            if 'panic' in p.stdout:
                ctx.report_failure('C12: concurrent workloads on separate GPUs crashed or failed verification: ' + p.stdout[-600:],
                                   {'kind': 'concurrent_workload_failure'}, {'cmd': 'c12stress', 'argv': argv[1:]})
            else:
                raise vlib.Infra('c12stress did not finish: ' + p.stdout[-1500:])
    for where, r in seen.items():
        ctx.report_failure('C12: data race between application threads / simulation thread at %s: %s' % (where, r['accesses']),
                           {'kind': 'data_race', 'where': where}, {'cmd': 'c12stress', 'race': r})
    ctx.cov['race_stress_runs'] = runs
    ctx.cov['race_reports_in_mgpusim'] = sorted(seen)


def replay(ctx, path):
    rp = json.load(open(path))['replay']
    if isinstance(rp.get('driver'), dict) and rp['driver'].get('cmd') == 'c12mem':
        return c12mem.replay_component(ctx, path)
    trace = rp['trace']
    cfg = tuple(rp['driver']['cfg'])
    cfg = cfg[:3] + (list(cfg[3]), cfg[4])
    # re-execute: rebuild the schedule from the recorded steps and run it on the current tree
    drv = ctx.go_build('c12')
    sched = []
    for r in trace:
        if r['e'] == 'Step':
            sched.append('app%d' % r['a'] if r['t'] == 'app' else r['t'])   # 'gpu' steps are replayed by kind
    scen = [{'na': cfg[0], 'rounds': cfg[1], 'per_round': cfg[2], 'mode': 'schedule', 'schedule': sched, 'temp': cfg[3],
             'two': TWO.get(cfg[4], []), 'drainers': DRAINERS.get(cfg[4], [])}]
    t, stats = run_group(ctx, drv, cfg, scen, 'replay')
    before = len(ctx.violations)
    common.validate_and_triage(ctx, tspec(cfg), t, {'cmd': 'c12', 'cfg': list(cfg)})
    return 1 if len(ctx.violations) > before else 0
