"""C01 — simulated kernels compute what the host reference computes.

spec/system/Config.tla       the admissible configuration space (per workload: size domains with their divisibility
                             rules, architectures, GPU sets, plain / unified GPU, unified memory, mode; timing only
                             for the classes of amd/tests/acceptance/cases.go); TLC checks its sanity assumptions
spec/system/ConfigCover.tla  TLC enumerates the covering sets (quick / cover / full) that decide WHICH runs are made
spec/system/ConfigSim.tla    seeded `tlc -simulate` sampling of the whole size domains
harness/cmd/sysrun           replays one configuration in a child process on the real platform through the
                             repository's runner; oracle = the workload's own Verify() (host reference), recovered panic /
                             exit status / structurally detected hang
spec/system/System.tla       design-level model of driver queue -> command processor -> CUs over several GPUs: exhaustive
                             check of exactly-once / no-early-response / flush-before-copy / termination; named deviations give
                             the expected counterexamples (one is the copy-command hang found here); tied to SysTrace.tla in
                             both directions
spec/system/SysTrace.tla     system-level trace validation of a sample of the runs (command / launch / work-group
                             exactly-once / flush-before-copy rules): rejects a passing run that broke an intermediate rule

Deciding oracle: the workload's host reference, hence level `exploration`.
This module also holds the helpers shared with c02.py and c18sys.py.
"""
import json
import os
import re
import shutil
from concurrent.futures import ThreadPoolExecutor

import common
import vlib

LEVEL = 'exploration'
RULE = ('case = one run of a shipped workload in a child process for one configuration (workload, size tuple, mode, GPU model, '
        'architecture, GPU set, plain/unified GPU, unified memory) taken from a TLC-enumerated covering set or TLC-simulated '
        'sample of Config.tla; distinct = distinct configuration tuples; non-trivial = the run executed at least one driver '
        'command and the host reference was evaluated (Verify() ran to completion or failed; for xor/conv2d/im2col the '
        'per-operator CPU cross-check)')
PARALLEL = 6
TSPEC = {'dirs': ['system'], 'module': 'SysTrace.tla', 'cfg': 'SysTrace.cfg', 'timeout': 900}
# workloads whose Verify() is not a host reference ("not implemented"); their oracle is the built-in per-operator check
NO_VERIFY_FLAG = {'xor'}
# several application goroutines: the host interleaving is not reproducible
HOST_CONCURRENT = {'concurrentkernel', 'concurrentworkload'}


# ------------------------------------------------------------------ cases
def cover_sets(ctx, scope, rot):
    """TLC: check Config's assumptions and export the covering sets."""
    cfg = 'INIT Init\nNEXT Next\nCONSTANTS\n  Rot = %d\n  Scope = "%s"\n' % (rot, scope)
    res = ctx.tlc_expect_ok(['system'], 'ConfigCover.tla', 'Cover_gen.cfg', workers=2, timeout=900,
                            extra_files={'Cover_gen.cfg': cfg})
    out = {}
    for name in ('quick', 'cover', 'full', 'boundary_quick', 'boundary_all', 'sharedcu_quick', 'sharedcu_all', 'parallel_quick', 'parallel_all', 'twins_all'):
        path = os.path.join(res.dir, name + '.ndjson')
        if not os.path.exists(path):
            raise vlib.Infra('ConfigCover did not export %s' % name)
        out[name] = [json.loads(l) for l in open(path)]
    m = re.search(r'"COUNTS", (\d+), (\d+), (\d+)', res.out)
    ctx.cov.setdefault('config_space', {})[scope] = {'quick': len(out['quick']), 'cover': len(out['cover']),
                                                      'full': len(out['full']),
                                                      'unified_share_boundary_quick': len(out['boundary_quick']),
                                                      'unified_share_boundary_all': len(out['boundary_all'])}
    if not m:
        raise vlib.Infra('ConfigCover printed no counts')
    return out


def sampled_cases(ctx, scope, n, seed=None):
    """tlc -simulate on ConfigSim: n random admissible configurations over the whole size domains."""
    cfg = 'SPECIFICATION Spec\nCONSTANT Scope = "%s"\nINVARIANT GenInDom\nCHECK_DEADLOCK FALSE\n' % scope
    behs, res = ctx.simulate(['system'], 'ConfigSim.tla', 'Sim_gen.cfg', num=1, depth=3 * n + 1, timeout=900,
                             seed=seed, extra_files={'Sim_gen.cfg': cfg})
    out = []
    for b in behs:
        for st in b:
            if st.get('phase') == 'w' and st.get('w') != 'none':
                out.append({'w': st['w'], 'p': list(st['p']), 'c': dict(st['c']), 'sampled': True})
    return out


NAMES = None


def names_of(ctx, w):
    global NAMES
    if NAMES is None:
        src = open(os.path.join(vlib.SPEC, 'system', 'Config.tla')).read()
        m = re.search(r'Names == \[(.*?)\]\n\n', src, re.S)
        NAMES = {}
        for k, v in re.findall(r'(\w+) \|-> <<(.*?)>>', m.group(1), re.S):
            NAMES[k] = re.findall(r'"(\w+)"', v)
    return NAMES[w]


def case_key(c):
    k = c['c']
    return '%s[%s] %s/%s/%s n=%d %s umem=%d%s' % (c['w'], ','.join(str(x) for x in c['p']), k['mode'], k['gpu'], k['arch'],
                                                    k['n'], k['dist'], k['umem'], ((' knobs ' + c['knobs']) if c.get('knobs') else '') +
                                                    ((' parallel-engine #%s' % c.get('rep', 1)) if c.get('parallel') else ''))


def case_args(ctx, c, verify=True):
    k = c['c']
    names = c.get('names') or names_of(ctx, c['w'])
    argv = ['-bench', c['w'], '-disable-rtm']
    if names:
        argv += ['-p', ','.join('%s=%s' % (n, v) for n, v in zip(names, c['p']))]
    if k['mode'] == 'timing':
        argv += ['-timing', '-gpu', k['gpu']]
    argv += ['-arch', k['arch']]
    ids = ','.join(str(i) for i in range(1, k['n'] + 1))
    if k['dist'] == 'unified':
        argv += ['-unified-gpus', ids]
    elif k['n'] > 1:
        argv += ['-gpus', ids]
    if k['umem']:
        argv += ['-use-unified-memory']
    if c.get('knobs'):
        argv += ['-knobs', c['knobs']]
    if c.get('parallel'):
        argv += ['-parallel']
    if verify and c['w'] not in NO_VERIFY_FLAG:
        argv += ['-verify']
    return argv


# ------------------------------------------------------------------- runs
def run_case(ctx, drv, idx, case, extra=(), verify=True, keep=('sys.ndjson',), timeout=1500):
    """One child process in its own scratch directory.  Returns a result dict; files named in `keep` survive
    (path in res['dir']), the metrics database is deleted."""
    cwd = ctx.sub('run_%s' % idx)
    env = dict(os.environ)
    # Go >= 1.24 ignores rand.Seed unless told otherwise; "same inputs" is a premise of every comparison made here
    env['GODEBUG'] = 'randseednop=0'
    argv = [drv] + case_args(ctx, case, verify) + list(extra)
    first_death = None
    for attempt in (1, 2):
        p = ctx.run(argv, cwd=cwd, timeout=timeout, env=env, check=False)
        obs, stage = None, None
        for line in p.stdout.splitlines():
            if not line.startswith('{'):
                continue
            try:
                j = json.loads(line)
            except ValueError:
                continue
            if list(j.keys()) == ['stage']:
                stage = j['stage']
            else:
                obs = j
        if obs is not None or p.returncode == 0:
            if first_death is not None:
                # a child that died once and runs to completion when repeated: kept as a note with its last words,
                # never a verdict (DESIGN section 6: only reproduced failures count)
                ctx.notes.append('unreproduced death of a child (%s): %s' % (first_death, ' '.join(argv[1:])))
            break
        if first_death is None:
            words = [l for l in p.stdout.splitlines() if 'anic' in l or 'fatal' in l.lower()]
            first_death = 'rc=%s stage=%s %s' % (p.returncode, stage, (words[0] if words else fatal_line([l for l in p.stdout.splitlines() if not l.startswith('{')]))[:300])
    log = [l for l in p.stdout.splitlines() if not l.startswith('{')]
    for f in os.listdir(cwd):
        if f not in keep and not f.endswith('.json'):
            try:
                os.remove(os.path.join(cwd, f))
            except OSError:
                pass
    return {'case': case, 'rc': p.returncode, 'obs': obs, 'stage': stage, 'log': log, 'dir': cwd, 'argv': argv[1:]}


def run_many(ctx, drv, cases, extra=(), verify=True, tag='c', keep=('sys.ndjson',)):
    with ThreadPoolExecutor(max_workers=PARALLEL) as ex:
        return list(ex.map(lambda ic: run_case(ctx, drv, '%s%d' % (tag, ic[0]), ic[1], extra, verify, keep),
                           enumerate(cases)))


def norm_msg(s):
    """Message with the volatile parts (numbers, addresses, ids) removed: stable part of a signature."""
    s = re.sub(r'0x[0-9a-fA-F]+', 'X', s or '')
    s = re.sub(r'-?\d+(\.\d+)?(e[-+]?\d+)?', 'N', s)
    s = re.sub(r'\s+', ' ', s).strip()
    return s[:120]


def fatal_line(log):
    """The line a dying process left: log.Fatal / log.Panic / panic message."""
    for l in log:
        m = re.search(r'(?:\.go:\d+: |\d\d:\d\d:\d\d )(Panic: .*)$', l)
        if m:
            return m.group(1)
    for l in reversed(log):
        m = re.search(r'\.go:\d+: (.*)$', l)
        if m and 'Passed' not in l:
            return m.group(1)
    for l in log:
        if l.startswith('panic:'):
            return l[6:].strip()
    return (log[-1] if log else '')


def panic_site(log):
    """First simulator frame below the panic in a Go stack dump (where the code failed)."""
    seen = False
    for l in log:
        if l.startswith('panic(') or l.startswith('panic:'):
            seen = True
            continue
        if seen:
            m = re.match(r'github\.com/sarchlab/(?:mgpusim/v4/amd|akita/v4)/([\w/]+\.[\w\(\)\*\.]+)\(', l)
            if m and not l.startswith('github.com/sarchlab/mgpusim/v4/amd/driver.(*Driver).runEngine'):
                return m.group(1)
    return ''


def classify(res, verify=True):
    """None when the run is fine, else (kind, detail) describing the real-code failure; raises Infra for harness trouble."""
    case, obs = res['case'], res['obs']
    want_verify = verify and case['w'] not in NO_VERIFY_FLAG
    if obs is None:
        if res['rc'] == 0:
            raise vlib.Infra('sysrun gave no observables: %s' % ' '.join(res['argv']))
        msg = fatal_line(res['log'])
        if res['stage'] == 'verify':
            return ('verify_failed', msg)
        if res['stage'] in ('run', 'dump'):
            return ('crash', msg)
        raise vlib.Infra('sysrun died before the run (rc=%s): %s\n%s' % (res['rc'], ' '.join(res['argv']), '\n'.join(res['log'][-8:])))
    if 'setup_panic' in obs:
        return ('setup_panic', obs['setup_panic'].split('\n')[0])
    if obs.get('hang'):
        return ('hang', 'engine idle with a command outstanding (stage %s)' % obs.get('stage'))
    if obs.get('run_panic'):
        return ('crash', obs['run_panic'].split('\n')[0])
    if obs.get('verify') == 'fail':
        return ('verify_failed', obs.get('verify_msg', ''))
    if want_verify and obs.get('verify') != 'pass':
        raise vlib.Infra('run ended without evaluating Verify: %s' % ' '.join(res['argv']))
    if (obs.get('buffer_digest') and obs.get('buffer_digest') != obs.get('storage_digest')
            and not any(b.get('skipped') for b in obs.get('buffers', []))):
        return ('readback_differs_from_memory', 'MemCopyD2H of the live buffers differs from the global storage')
    return None


def read_trace(res):
    p = os.path.join(res['dir'], 'sys.ndjson')
    if not os.path.exists(p):
        return []
    return [json.loads(l) for l in open(p)]


def hang_cause(trace):
    """Which command was left open, and why (semantic signature of a hang)."""
    start, ended = {}, set()
    for i, r in enumerate(trace):
        if r['e'] == 'CmdStart':
            start[r['c']] = r
        elif r['e'] == 'CmdEnd':
            ended.add(r['c'])
    open_cmds = [c for c in start if c not in ended and start[c]['kind'] != 'Other']
    causes = set()
    for c in open_cmds:
        kind = start[c]['kind']
        if kind in ('H2D', 'D2H'):
            reqs = {r['r']: i for i, r in enumerate(trace) if r['e'] in ('CopyReq', 'FlushReq') and r.get('c') == c}
            rsps = {r['r']: (i, r['e']) for i, r in enumerate(trace) if r['e'] in ('CopyRsp', 'FlushRsp') and r['r'] in reqs}
            if reqs and set(reqs) == set(rsps):
                last = max(rsps.values())
                if last[1] == 'FlushRsp' and any(e == 'CopyRsp' for _, e in rsps.values()):
                    causes.add('copy_command_open_after_flush_ack_arrived_last')
                    continue
                causes.add('copy_command_open_with_all_requests_answered')
                continue
            causes.add('copy_request_unanswered')
        elif kind in ('Launch', 'LaunchUnified'):
            causes.add('kernel_never_completed')
        else:
            causes.add('open_' + kind)
    return '+'.join(sorted(causes)) or 'no_open_command'


def signature(res, kind, detail):
    c = res['case']
    k = c['c']
    sig = {'kind': kind, 'bench': c['w'], 'mode': k['mode'], 'arch': k['arch'],
           'multi_gpu': 'no' if k['n'] == 1 else k['dist'], 'umem': k['umem'], 'detail': norm_msg(detail)}
    if c.get('parallel'):
        sig['parallel_engine'] = True
    if kind == 'crash':
        sig['where'] = panic_site(res['log'])
    if kind == 'hang':
        sig['cause'] = hang_cause(read_trace(res))
    return sig


SINGLE_CU = 'cus=1,sas=1'


def platform_dependence(ctx, drv, res, idx):
    """For a wrong result in timing mode: does the same run on the single-CU timing platform give the right one?
    (together with emulation being right this isolates visibility of data between compute units)"""
    c = dict(res['case'])
    # exactly one compute unit in the whole platform: one GPU, device memory, one shader array with one CU
    c['c'] = dict(c['c'], n=1, dist='plain', umem=0)
    c['knobs'] = SINGLE_CU
    one = run_case(ctx, drv, 'onecu%s' % idx, c)
    f = classify_quiet(one)
    launches = sum(1 for x in (one['obs'] or {}).get('commands', []) if 'Launch' in x['what'])
    shutil.rmtree(one['dir'], ignore_errors=True)
    return {'single_cu_platform': 'passes' if f is None else 'fails:' + f[0], 'kernel_launches': 'several' if launches > 1 else 'one'}


def judge(ctx, drv, results, verify=True, extra=(), prop='C01'):
    """Confirm every failure by one re-execution and report it."""
    failures = 0
    for i, res in enumerate(results):
        f = classify(res, verify)
        if f is None:
            continue
        kind, detail = f
        again = res
        # a failure on the parallel engine (or of a host-concurrent sample) is a race: one observation is the evidence
        if res['case']['w'] not in HOST_CONCURRENT and not res['case'].get('parallel') and not res['case'].get('host_concurrent'):
            again = run_case(ctx, drv, 'confirm%d' % i, res['case'], extra, verify)
            f2 = classify(again, verify)
            if f2 is None or f2[0] != kind:
                raise vlib.Infra('failure not reproduced (%s, %s): %s' % (kind, detail[:200], ' '.join(res['argv'])))
        sig = signature(again, kind, detail)
        if kind == 'verify_failed' and res['case']['c']['mode'] == 'timing' and res['case']['w'] not in HOST_CONCURRENT:
            sig.update(platform_dependence(ctx, drv, res, i))
        what = '%s: %s: %s: %s' % (prop, case_key(res['case']), kind, detail[:300])
        ctx.report_failure(what, sig, {'case': res['case'], 'argv': res['argv'], 'kind': kind, 'detail': detail,
                                       'log_tail': res['log'][-6:]})
        failures += 1
    return failures


# --------------------------------------------------- system trace validation
def sys_signature(bad, at, v):
    ce = v['res'].counterexample()
    rule = None
    if ce:
        rule = ce[-1][1].get('err')
    ev = bad[min(at, len(bad)) - 1] if bad else {}
    sig = {'rule': rule or ev.get('e')}
    if ev.get('e') == 'Hang':
        sig['cause'] = hang_cause(bad)
    return sig


TSPEC['signature'] = sys_signature


def corruptions():
    def idx(recs, e):
        return [i for i, r in enumerate(recs) if r['e'] == e]

    def map_twice(recs, rng):
        m = idx(recs, 'MapWG')
        for a in m:
            for b in m:
                if a < b and recs[a]['id'] == recs[b]['id'] and recs[a]['wg'] != recs[b]['wg']:
                    recs[b]['wg'] = recs[a]['wg']
                    return recs
        return None

    def drop_completion(recs, rng):
        d = idx(recs, 'WGDone')
        if not d:
            return None
        del recs[rng.choice(d)]
        return recs

    def early_response(recs, rng):
        for i in idx(recs, 'LaunchRsp'):
            prev = [j for j in idx(recs, 'WGDone') if j < i and recs[j]['g'] == recs[i]['g']]
            if prev:
                j = prev[-1]
                recs[i], recs[j] = recs[j], recs[i]
                return recs
        return None

    def foreign_work_group(recs, rng):
        for i in idx(recs, 'Launch'):
            own = recs[i]['own']
            if own and own[-1][1] - own[-1][0] >= 2:
                own[-1][1] -= 1
                return recs
        return None

    def two_commands_on_queue(recs, rng):
        s = idx(recs, 'CmdStart')
        for a in s:
            for b in s:
                if a < b and recs[a]['q'] != recs[b]['q'] and recs[a]['kind'] == 'Launch':
                    ends = [j for j in idx(recs, 'CmdEnd') if recs[j]['c'] == recs[a]['c']]
                    if ends and ends[0] > b:
                        recs[b]['q'] = recs[a]['q']
                        return recs
        # move a command start before the end of its predecessor on the same queue
        for a in s:
            ends = [j for j in idx(recs, 'CmdEnd') if recs[j]['c'] == recs[a]['c'] and j > a]
            nxt = [b for b in s if b > a and recs[b]['q'] == recs[a]['q']]
            if ends and nxt and nxt[0] > ends[0]:
                r = recs.pop(nxt[0])
                recs.insert(ends[0], r)
                return recs
        return None

    def copy_without_flush(recs, rng):
        for i in idx(recs, 'CopyReq'):
            if recs[i]['dir'] != 'd2h':
                continue
            fl = [j for j in idx(recs, 'FlushRsp') if j < i and recs[j]['g'] == recs[i]['g']]
            la = [j for j in idx(recs, 'Launch') if j < i]
            if fl and la and fl[-1] > la[-1]:
                return [r for j, r in enumerate(recs) if not (r['e'] in ('FlushReq', 'FlushRsp') and la[-1] < j < i)]
        return None

    return [('work_group_mapped_twice', map_twice), ('completion_dropped', drop_completion),
            ('kernel_response_before_last_completion', early_response), ('work_group_outside_share', foreign_work_group),
            ('two_commands_on_one_queue', two_commands_on_queue), ('device_to_host_copy_without_flush', copy_without_flush)]


def validate_sys_traces(ctx, results, limit_events, limit_runs, info):
    """Concatenate the system traces of the given finished runs and validate them with SysTrace.tla."""
    chosen, total = [], 0
    for res in results:
        tr = read_trace(res)
        if not tr or tr[-1]['e'] != 'Quiesce' or len(tr) > limit_events // 3:
            continue
        if total + len(tr) > limit_events or len(chosen) >= limit_runs:
            continue
        chosen.append((res, tr))
        total += len(tr)
    if not chosen:
        raise vlib.Infra('no system trace to validate')
    path = os.path.join(ctx.scratch, 'sys_all_%s.ndjson' % info)
    vlib.write_ndjson(path, [r for _, tr in chosen for r in tr])
    n = common.validate_and_triage(ctx, TSPEC, path, {'cmd': 'sysrun', 'runs': [r['argv'] for r, _ in chosen]})
    ctx.cov['sys_trace_events'] = ctx.cov.get('sys_trace_events', 0) + total
    return path, n, chosen


# ------------------------------------------------- design level (System.tla)
def _intervals(ws):
    ws = sorted(ws)
    out = []
    for w in ws:
        if out and out[-1][1] == w:
            out[-1][1] = w + 1
        else:
            out.append([w, w + 1])
    return out


def system_states_to_trace(states, ngpu, nwg, tail=None):
    """A behaviour of System.tla (list of state dicts with `act` and `pc`) in the vocabulary of the system trace."""
    recs = [{'e': 'Reset', 'ngpu': ngpu, 'multictx': 0, 'timing': 1}]
    rid = [0]
    prev_pc = None
    for st in states:
        a = st.get('act') or {}
        e = a.get('e')
        pc = st.get('pc')
        if e == 'StartLaunch':
            recs.append({'e': 'CmdStart', 'q': a['q'], 'c': a['c'], 'kind': 'Launch' if a['kind'] == 'launch' else 'LaunchUnified'})
            own = a['own']
            for g in sorted(a['to']):
                share = own[g - 1] if isinstance(own, list) else own.get(g, own.get(str(g), []))
                recs.append({'e': 'Launch', 'g': g, 'id': a['c'] * 10 + g, 'c': a['c'], 'nwg': nwg, 'own': _intervals(list(share)), 'pkt': 1})
        elif e == 'MapWG':
            recs.append({'e': 'MapWG', 'g': a['g'], 'id': a['id'], 'wg': a['wg'], 'm': a['id'] * 100 + a['wg'], 'nwf': 1, 'items': 64})
        elif e == 'WGDone':
            recs.append({'e': 'WGDone', 'g': a['g'], 'ms': [a['id'] * 100 + a['wg']]})
        elif e == 'LaunchRsp':
            recs.append({'e': 'LaunchRsp', 'g': a['g'], 'id': a['id']})
        elif e == 'CmdEnd':
            recs.append({'e': 'CmdEnd', 'c': a['c']})
        elif e == 'StartCopy':
            recs.append({'e': 'CmdStart', 'q': a['q'], 'c': a['c'], 'kind': 'D2H' if a['kind'] == 'd2h' else 'H2D'})
            if a['flush']:
                for g in range(1, ngpu + 1):
                    rid[0] += 1
                    recs.append({'e': 'FlushReq', 'g': g, 'r': rid[0], 'c': a['c']})
        elif e == 'FlushRsp':
            recs.append({'e': 'FlushRsp', 'g': a['g'], 'r': 0})
        elif e == 'CopyRsp':
            rid[0] += 1
            recs.append({'e': 'CopyReq', 'g': a['g'], 'dir': a['kind'], 'r': rid[0], 'c': a['c']})
            recs.append({'e': 'CopyRsp', 'g': a['g'], 'r': rid[0]})
        elif e == 'Quiesce':
            if recs[-1]['e'] != 'Quiesce':
                recs.append({'e': 'Quiesce'})
        if e in ('FlushRsp', 'CopyRsp') and prev_pc is not None and pc != prev_pc:
            recs.append({'e': 'CmdEnd', 'c': a['c']})
        prev_pc = pc
    if tail:
        recs.append(tail)
    return recs


DEVIATIONS = [
    # cfg, what TLC must report, rule(s) SysTrace.tla must name for the counterexample
    ('MC_System_dev_gap.cfg', 'ExactlyOnce', {'grid_not_covered'}, 2, 3),
    ('MC_System_dev_overlap.cfg', 'AtMostOnce', {'work_group_owned_twice', 'work_group_mapped_twice'}, 2, 3),
    ('MC_System_dev_early.cfg', 'NoEarlyRsp', {'kernel_reported_done_before_all_work_groups_completed'}, 2, 3),
    ('MC_System_dev_noflush.cfg', 'NoStaleRead', {'device_to_host_copy_without_flush'}, 2, 3),
    ('MC_System_dev_flush.cfg', 'DEADLOCK', {'Hang'}, 2, 3),
]


def design_level(ctx, thorough):
    """System.tla: exhaustive check of the intended design, the named deviations give the expected counterexamples, and the
    trace specification agrees with the design spec in both directions (accepts its behaviours, rejects the counterexamples)."""
    r = ctx.tlc_expect_ok(['system'], 'MC_System.tla', 'MC_System.cfg', workers=4, timeout=900, coverage=True)
    zeros = [z for z in r.coverage_zero() if z.startswith('System!')]
    ctx.cov['system_model'] = {'two_queues_states': r.distinct, 'coverage_zero_actions': zeros}
    r2 = ctx.tlc_expect_ok(['system'], 'MC_System.tla', 'MC_System_seq.cfg', workers=4, timeout=900)
    ctx.cov['system_model']['one_queue_three_gpus_states'] = r2.distinct
    ctx.log('System.tla: %d + %d distinct states, invariants and termination hold' % (r.distinct, r2.distinct))
    # address spaces are per PID (two contexts with the same allocation history use the same virtual pages)
    ra = ctx.tlc_expect_ok(['system'], 'AddrSpace.tla', 'MC_AddrSpace.cfg', workers=2, timeout=600)
    da = ctx.tlc(['system'], 'AddrSpace.tla', 'MC_AddrSpace_nopid.cfg', workers=1, timeout=300, kind='demo')
    if 'Isolation' not in da.violated:
        raise vlib.Infra('AddrSpace.tla with a translation cache without PID no longer violates Isolation: %r' % da.violated)
    ctx.cov['address_space_model'] = {'states': ra.distinct, 'cache_without_pid_violates': da.violated}
    checked = []
    for cfg, expect, rules, ngpu, nwg in DEVIATIONS:
        d = ctx.tlc(['system'], 'MC_System.tla', cfg, workers=1, timeout=600, kind='demo')
        got = 'DEADLOCK' if d.deadlock else ','.join(d.violated)
        if expect not in got:
            raise vlib.Infra('System.tla with %s: expected %s, TLC reported %r' % (cfg, expect, got))
        ce = d.counterexample()
        states = [s[1] for s in ce]
        tr = system_states_to_trace(states, ngpu, nwg, tail={'e': 'Hang'} if expect == 'DEADLOCK' else None)
        pth = os.path.join(ctx.scratch, 'design_%s.ndjson' % cfg[:-4])
        vlib.write_ndjson(pth, tr)
        v = ctx.validate_trace(TSPEC['dirs'], TSPEC['module'], TSPEC['cfg'], pth)
        if v['accepted']:
            raise vlib.Infra('SysTrace.tla accepts the counterexample of %s (vacuous rule)' % cfg)
        sig = sys_signature(tr, v['highwater'] or 1, v)
        if sig.get('rule') not in rules:
            raise vlib.Infra('SysTrace.tla rejects the counterexample of %s with %r, expected one of %s' % (cfg, sig.get('rule'), sorted(rules)))
        checked.append({'deviation': cfg[14:-4], 'tlc': got, 'trace_rule': sig.get('rule')})
    ctx.cov['system_model']['deviations'] = checked
    # behaviours of the intended design are accepted by the trace specification
    behs = []
    for cfg in ('MC_System_sim.cfg', 'MC_System_sim2.cfg'):
        bs, _ = ctx.simulate(['system'], 'MC_System.tla', cfg, num=40 if thorough else 10, depth=70)
        behs += bs
    all_recs = []
    for b in behs:
        all_recs += system_states_to_trace(b, 2, 3)
    pth = os.path.join(ctx.scratch, 'design_behaviours.ndjson')
    vlib.write_ndjson(pth, all_recs)
    v = ctx.validate_trace(TSPEC['dirs'], TSPEC['module'], TSPEC['cfg'], pth)
    if not v['accepted']:
        raise vlib.Infra('SysTrace.tla rejects a behaviour of System.tla at line %s: %s' % (v['highwater'], all_recs[(v['highwater'] or 1) - 1]))
    ctx.cov['system_model']['behaviours_accepted_by_trace_spec'] = len(behs)
    ctx.log('System.tla <-> SysTrace.tla: %d behaviours accepted, %d deviation counterexamples rejected' % (len(behs), len(checked)))


# -------------------------------------------------------------------- check
def nontrivial(res):
    o = res['obs']
    if not o or not o.get('commands'):
        return False
    return o.get('verify') in ('pass', 'fail') or res['case']['w'] in NO_VERIFY_FLAG


def run(ctx, selftest=False):
    thorough = ctx.tier == 'thorough'
    drv = ctx.go_build('sysrun')
    # the design-level part only needs TLC: it runs beside the replay of the configurations
    design_pool = ThreadPoolExecutor(max_workers=1)
    design = design_pool.submit(design_level, ctx, thorough)

    sets = cover_sets(ctx, 'acceptance', ctx.seed)
    cases = list(sets['cover'] if thorough else sets['quick'])
    if thorough:
        # every admissible (size class, class) pair in emulation on top of the cover
        seen = {case_key(c) for c in cases}
        cases += [c for c in sets['full'] if c['c']['mode'] == 'emu' and case_key(c) not in seen]
    else:
        cases = [c for c in cases if c['w'] not in HOST_CONCURRENT]
    # unified-device runs whose work-group count sits on a share boundary of distributeWGToGPUs (derived in Config.tla from
    # the CU count of each platform): the counts at which a GPU gets its last / exactly one / no work-group
    cases += sets['boundary_all'] if thorough else sets['boundary_quick']
    # two instances of one workload in two contexts (PIDs) on one GPU with identical allocation histories (AddrSpace.tla)
    cases += sets['twins_all']
    # emulation on the parallel engine: local-memory workloads with several work-groups, repeated
    cases += sets['parallel_all'] if thorough else sets['parallel_quick']
    cases += sampled_cases(ctx, 'acceptance', 150 if thorough else 14)
    # cheap first is irrelevant; run timing cases first so that the long ones do not form the tail
    cases.sort(key=lambda c: (0 if c['c']['mode'] == 'timing' else 1, -c['c']['n']))
    ctx.log('%d configurations (%d timing)' % (len(cases), sum(1 for c in cases if c['c']['mode'] == 'timing')))

    results = run_many(ctx, drv, cases, extra=['-sys-trace', 'sys.ndjson'])
    nfail = judge(ctx, drv, results, extra=['-sys-trace', 'sys.ndjson'])
    ok = [r for r in results if classify_quiet(r) is None]
    serial_ok = [r for r in ok if not r['case'].get('parallel')]   # hook order is not an order of occurrence on the parallel engine
    ctx.log('%d runs, %d failing, %d passing' % (len(results), nfail, len(ok)))

    design.result()
    design_pool.shutdown()

    # system-level trace validation of a sample of the passing runs (timing and multi-GPU first)
    serial_ok.sort(key=lambda r: (0 if r['case']['c']['mode'] == 'timing' else 1, -r['case']['c']['n'], case_key(r['case'])))
    path, n, chosen = validate_sys_traces(ctx, serial_ok, 60000 if thorough else 12000, 400 if thorough else 40, 'c01')
    ctx.log('system traces validated: %d runs' % n)
    common.selftest_binding(ctx, TSPEC, path, corruptions())

    distinct = {case_key(r['case']) for r in results if nontrivial(r)}
    good = next((r for r in ok if r['case']['c']['mode'] == 'timing'), ok[0] if ok else None)
    if good:
        ctx.sample({'case': case_key(good['case']), 'argv': good['argv'], 'verify': good['obs'].get('verify'),
                    'commands': len(good['obs'].get('commands', [])), 'end_time_ps': good['obs'].get('end_time_ps'),
                    'sys_trace': good['obs'].get('sys_trace')})
    ctx.sample({'sampled_configurations': [case_key(c) for c in cases if c.get('sampled')][:6]})
    byw = {}
    for r in results:
        byw.setdefault(r['case']['w'], 0)
        byw[r['case']['w']] += 1
    ctx.cov.update({'evaluations': len(results), 'distinct_nontrivial': len(distinct), 'runs_per_workload': byw,
                    'timing_runs': sum(1 for r in results if r['case']['c']['mode'] == 'timing'),
                    'multi_gpu_runs': sum(1 for r in results if r['case']['c']['n'] > 1),
                    'sampled_runs': sum(1 for r in results if r['case'].get('sampled')),
                    'unified_share_boundary_runs': sum(1 for r in results if r['case'].get('boundary')),
                    'parallel_engine_runs': sum(1 for r in results if r['case'].get('parallel')),
                    'two_instance_runs': sum(1 for r in results if r['case'].get('twins'))})
    ctx.assumptions += [
        'deciding oracle is each workload\'s own Verify() (host reference); fft\'s Verify compares two host copies and cannot fail, '
        'simpleconvolution/stencil2d use constant inputs, matrixmultiplication checks row 0 only (weak references are the workloads\' own)',
        'GODEBUG=randseednop=0 so that rand.Seed gives every run the same inputs',
        'application thread steered to enqueue only while the engine goroutine is idle (sysrun -sched lazy): reproducible runs',
        'lenet, minerva, vgg16 are not run: their data sets are not shipped; CDNA3 plain multi-GPU only for workloads that do not '
        'split by global offset (cases.go: multi-GPU CDNA3 via unified GPU mode)',
        'hangs are decided structurally (application waits, queue non-empty, engine goroutine idle, simulated time constant)']
    for r in results:
        shutil.rmtree(r['dir'], ignore_errors=True)


def classify_quiet(res, verify=True):
    try:
        return classify(res, verify)
    except vlib.Infra:
        return ('infra', '')


def replay(ctx, path):
    rp = json.load(open(path))['replay']
    drv = ctx.go_build('sysrun')
    if 'trace' in rp and 'case' not in rp:
        t = os.path.join(ctx.scratch, 'replay.ndjson')
        vlib.write_ndjson(t, rp['trace'])
        v = ctx.validate_trace(TSPEC['dirs'], TSPEC['module'], TSPEC['cfg'], t)
        print('replay: recorded system trace accepted =', v['accepted'])
        return 0 if v['accepted'] else 1
    res = run_case(ctx, drv, 'replay', rp['case'], ['-sys-trace', 'sys.ndjson'])
    f = classify(res)
    print('replay:', case_key(rp['case']), '->', f)
    return 1 if f else 0
